/-
  Instances of the re-indexing interface (`ReidxSyn`, `ReidxGeom`, StorageReindexSpec.lean), part 1:

  0. the dense row-major layout: `viewOffset (denseDims szs) is acc = .ok o` iff the tuple is in
     bounds (`InB szs is`) and `o = acc + lin szs is`; `lin` is bounded by the number of cells and
     injective on in-bounds tuples (`dense_inj`); decomposition over `++`; a generic way to obtain a
     `ReidxGeom` from "maps in-bounds tuples to in-bounds tuples, injectively" (`geom_of_inj`);
     evaluation of index lists through `take` / `drop` / `++` / `set` / `eraseIdx` / `getElem?`.
  1. `divide_dim`  (`Rw.divideIdx`, `Rw.divideIdxI`, `Rw.divideShape`)
  2. `mult_dim`    (`Rw.multIdx`, `Rw.multIdxI`, `Rw.multShape`), arbitrary positions `hi ≠ lo`

  Core only.
-/
import ExoModel.Lemmas.StorageReindexSpec

set_option linter.unusedVariables false
set_option linter.unusedSectionVars false
namespace Exo.ReidxInst
open Exo
variable {V : Type}

/-! ## 0. products, sizes -/

/-- number of cells of a dense buffer, as a structural recursion -/
def prodL : List Int → Int
  | [] => 1
  | e :: r => e * prodL r

theorem foldl_mul (l : List Int) (a : Int) : l.foldl (· * ·) a = a * prodL l := by
  induction l generalizing a with
  | nil => simp [prodL]
  | cons e r ih => simp only [List.foldl_cons, prodL]; rw [ih, Int.mul_assoc]

theorem foldl_one (l : List Int) : l.foldl (· * ·) 1 = prodL l := by
  rw [foldl_mul, Int.one_mul]

theorem prodL_append (a b : List Int) : prodL (a ++ b) = prodL a * prodL b := by
  induction a with
  | nil => simp [prodL]
  | cons e r ih => simp only [List.cons_append, prodL, ih, Int.mul_assoc]

theorem prodL_pos {l : List Int} (h : ∀ e ∈ l, 0 < e) : 0 < prodL l := by
  induction l with
  | nil => simp [prodL]
  | cons e r ih =>
    simp only [prodL]
    exact Int.mul_pos (h e (by simp)) (ih (fun x hx => h x (by simp [hx])))

theorem checkSizes_iff (l : List Int) : checkSizes l = .ok () ↔ ∀ e ∈ l, 0 < e := by
  induction l with
  | nil => simp [checkSizes, pure, Except.pure]
  | cons e r ih =>
    simp only [checkSizes]
    split
    · rename_i h
      constructor
      · intro h'; cases h'
      · intro h'; have := h' e (by simp); omega
    · rename_i h
      rw [ih]
      constructor
      · intro h' x hx
        simp only [List.mem_cons] at hx
        rcases hx with rfl | hx
        · omega
        · exact h' x hx
      · intro h' x hx; exact h' x (by simp [hx])

theorem denseDims_cons (e : Int) (r : List Int) :
    denseDims (e :: r) = (e, prodL r) :: denseDims r := by
  simp only [denseDims, foldl_one]

/-! ## 0. in-bounds tuples and their linear offset -/

/-- `is` is an index tuple within the extents `szs` -/
def InB : List Int → List Int → Prop
  | [], [] => True
  | e :: r, i :: is => (0 ≤ i ∧ i < e) ∧ InB r is
  | _, _ => False

/-- row-major offset `Σ is[k] * Π szs[k+1:]` -/
def lin : List Int → List Int → Int
  | e :: r, i :: is => i * prodL r + lin r is
  | _, _ => 0

@[simp] theorem InB_nil_nil : InB [] [] = True := rfl
@[simp] theorem InB_cons_cons (e : Int) (r : List Int) (i : Int) (is : List Int) :
    InB (e :: r) (i :: is) = ((0 ≤ i ∧ i < e) ∧ InB r is) := rfl
@[simp] theorem InB_nil_cons (i : Int) (is : List Int) : InB [] (i :: is) = False := rfl
@[simp] theorem InB_cons_nil (e : Int) (r : List Int) : InB (e :: r) [] = False := rfl
@[simp] theorem lin_cons_cons (e : Int) (r : List Int) (i : Int) (is : List Int) :
    lin (e :: r) (i :: is) = i * prodL r + lin r is := rfl
@[simp] theorem lin_nil (is : List Int) : lin [] is = 0 := rfl

theorem InB.length : ∀ {szs is : List Int}, InB szs is → is.length = szs.length
  | [], [], _ => rfl
  | [], _ :: _, h => h.elim
  | _ :: _, [], h => h.elim
  | _ :: r, _ :: is, h => by simp [InB.length (szs := r) (is := is) h.2]

/-- the pointwise reading of `InB` -/
theorem InB_iff_getElem : ∀ (szs is : List Int), InB szs is ↔
    is.length = szs.length ∧
      ∀ (k : Nat) (i e : Int), is[k]? = some i → szs[k]? = some e → 0 ≤ i ∧ i < e
  | [], [] => by simp
  | [], _ :: _ => by simp
  | _ :: _, [] => by simp
  | e :: r, i :: is => by
    simp only [InB_cons_cons, InB_iff_getElem r is, List.length_cons, Nat.add_right_cancel_iff]
    constructor
    · rintro ⟨hb, hl, hk⟩
      refine ⟨hl, fun k => ?_⟩
      cases k with
      | zero => simp only [List.getElem?_cons_zero, Option.some.injEq]; rintro _ _ rfl rfl; exact hb
      | succ k => simp only [List.getElem?_cons_succ]; exact hk k
    · rintro ⟨hl, hk⟩
      exact ⟨hk 0 i e (by simp) (by simp), hl, fun k i' e' h1 h2 => hk (k + 1) i' e' (by simpa using h1) (by simpa using h2)⟩

theorem InB.pos : ∀ {szs is : List Int}, InB szs is → ∀ e ∈ szs, 0 < e
  | [], _, _ => by simp
  | _ :: _, [], h => h.elim
  | e :: r, i :: is, h => by
    intro x hx
    simp only [List.mem_cons] at hx
    rcases hx with rfl | hx
    · have := h.1; omega
    · exact InB.pos (szs := r) (is := is) h.2 x hx

/-- offset of a tuple with another start -/
theorem viewOffset_acc : ∀ (ds : List (Int × Int)) (is : List Int) (acc : Int),
    viewOffset ds is acc = (viewOffset ds is 0).map (· + acc)
  | [], [], acc => by simp [viewOffset, pure, Except.pure, Except.map]
  | [], _ :: _, acc => rfl
  | _ :: _, [], acc => rfl
  | (ext, st) :: ds, i :: is, acc => by
    simp only [viewOffset]
    split
    · rw [viewOffset_acc ds is (acc + i * st), viewOffset_acc ds is (0 + i * st)]
      cases viewOffset ds is 0 with
      | error e => rfl
      | ok o => simp only [Except.map, Except.ok.injEq]; omega
    · rfl

/-- THE description of the dense layout: the offset computation succeeds exactly on in-bounds
    tuples, with the row-major offset -/
theorem dense_offset : ∀ (szs is : List Int) (acc o : Int),
    viewOffset (denseDims szs) is acc = .ok o ↔ InB szs is ∧ o = acc + lin szs is
  | [], [], acc, o => by
    simp only [denseDims, viewOffset, pure, Except.pure, Except.ok.injEq, InB_nil_nil, lin_nil,
      true_and]
    constructor <;> intro h <;> omega
  | [], _ :: _, acc, o => by
    simp only [denseDims, viewOffset, InB_nil_cons, false_and, iff_false]; intro h; cases h
  | _ :: _, [], acc, o => by
    simp only [denseDims_cons, viewOffset, InB_cons_nil, false_and, iff_false]; intro h; cases h
  | e :: r, i :: is, acc, o => by
    simp only [denseDims_cons, viewOffset, InB_cons_cons, lin_cons_cons]
    split
    · rename_i hb
      rw [dense_offset r is]
      constructor
      · rintro ⟨h1, h2⟩; exact ⟨⟨hb, h1⟩, by omega⟩
      · rintro ⟨⟨_, h1⟩, h2⟩; exact ⟨h1, by omega⟩
    · rename_i hb
      constructor
      · intro h; cases h
      · rintro ⟨⟨hb', _⟩, _⟩; exact absurd hb' hb

theorem lin_bounds : ∀ {szs is : List Int}, InB szs is → 0 ≤ lin szs is ∧ lin szs is < prodL szs
  | [], [], _ => by simp [prodL]
  | [], _ :: _, h => h.elim
  | _ :: _, [], h => h.elim
  | e :: r, i :: is, h => by
    obtain ⟨⟨h0, h1⟩, h2⟩ := h
    have ih := lin_bounds (szs := r) (is := is) h2
    simp only [lin_cons_cons, prodL]
    have hP : 0 ≤ prodL r := by omega
    have a : 0 ≤ i * prodL r := Int.mul_nonneg h0 hP
    have b : (i + 1) * prodL r ≤ e * prodL r := Int.mul_le_mul_of_nonneg_right (by omega) hP
    rw [Int.add_mul, Int.one_mul] at b
    omega

/-- quotient and remainder are unique -/
theorem divmod_unique {P i j L L' : Int} (hL : 0 ≤ L ∧ L < P) (hL' : 0 ≤ L' ∧ L' < P)
    (h : i * P + L = j * P + L') : i = j ∧ L = L' := by
  have hP : P ≠ 0 := by omega
  have e1 : (L + i * P) / P = i := by
    rw [Int.add_mul_ediv_right _ _ hP, Int.ediv_eq_zero_of_lt hL.1 hL.2, Int.zero_add]
  have e2 : (L' + j * P) / P = j := by
    rw [Int.add_mul_ediv_right _ _ hP, Int.ediv_eq_zero_of_lt hL'.1 hL'.2, Int.zero_add]
  have e : L + i * P = L' + j * P := by omega
  rw [e, e2] at e1
  subst e1
  exact ⟨rfl, by omega⟩

theorem lin_inj : ∀ {szs a b : List Int}, InB szs a → InB szs b → lin szs a = lin szs b → a = b
  | [], [], [], _, _, _ => rfl
  | [], _ :: _, _, h, _, _ => h.elim
  | [], [], _ :: _, _, h, _ => h.elim
  | _ :: _, [], _, h, _, _ => h.elim
  | _ :: _, _ :: _, [], _, h, _ => h.elim
  | e :: r, i :: is, j :: js, ha, hb, h => by
    simp only [lin_cons_cons] at h
    obtain ⟨h1, h2⟩ := divmod_unique (lin_bounds ha.2) (lin_bounds hb.2) h
    rw [h1, lin_inj ha.2 hb.2 h2]

/-- INJECTIVITY of the dense layout: two tuples with the same offset are equal -/
theorem dense_inj {szs is₁ is₂ : List Int} {acc o : Int}
    (h₁ : viewOffset (denseDims szs) is₁ acc = .ok o)
    (h₂ : viewOffset (denseDims szs) is₂ acc = .ok o) : is₁ = is₂ := by
  obtain ⟨b1, e1⟩ := (dense_offset _ _ _ _).1 h₁
  obtain ⟨b2, e2⟩ := (dense_offset _ _ _ _).1 h₂
  exact lin_inj b1 b2 (by omega)

/-- offsets of a dense buffer lie within its cells -/
theorem dense_range {szs is : List Int} {o : Int}
    (h : viewOffset (denseDims szs) is 0 = .ok o) :
    0 ≤ o ∧ o < ((szs.foldl (· * ·) 1).toNat : Int) := by
  obtain ⟨b, e⟩ := (dense_offset _ _ _ _).1 h
  have := lin_bounds b
  rw [foldl_one]
  omega

/-! ## 0. decomposition over `++` -/

theorem InB_append : ∀ {a x : List Int} (b y : List Int), x.length = a.length →
    (InB (a ++ b) (x ++ y) ↔ InB a x ∧ InB b y)
  | [], [], b, y, _ => by simp
  | [], _ :: _, _, _, h => by simp at h
  | _ :: _, [], _, _, h => by simp at h
  | e :: r, i :: is, b, y, h => by
    simp only [List.cons_append, InB_cons_cons]
    rw [InB_append (a := r) (x := is) b y (by simpa using h)]
    simp only [and_assoc]

theorem lin_append : ∀ {a x : List Int} (b y : List Int), x.length = a.length →
    lin (a ++ b) (x ++ y) = lin a x * prodL b + lin b y
  | [], [], b, y, _ => by simp
  | [], _ :: _, _, _, h => by simp at h
  | _ :: _, [], _, _, h => by simp at h
  | e :: r, i :: is, b, y, h => by
    simp only [List.cons_append, lin_cons_cons]
    rw [lin_append (a := r) (x := is) b y (by simpa using h), prodL_append, Int.add_mul,
      Int.mul_assoc, Int.add_assoc]

/-- a list split at position `d` -/
theorem split_at {α : Type} {l : List α} {d : Nat} {x : α} (h : l[d]? = some x) :
    l = l.take d ++ x :: l.drop (d + 1) ∧ (l.take d).length = d := by
  obtain ⟨hd, hx⟩ := List.getElem?_eq_some_iff.1 h
  refine ⟨?_, by simp only [List.length_take]; omega⟩
  rw [← hx, ← List.drop_eq_getElem_cons hd, List.take_append_drop]

/-- `denseDims` over `++`: the strides of the front part are multiplied by the size of the back -/
theorem denseDims_append (a b : List Int) :
    denseDims (a ++ b) = (denseDims a).map (fun p => (p.1, p.2 * prodL b)) ++ denseDims b := by
  induction a with
  | nil => simp [denseDims]
  | cons e r ih =>
    simp only [List.cons_append, denseDims_cons, List.map_cons, ih, prodL_append]

/-- offset of a tuple of a dense buffer, split at dimension `d` -/
theorem dense_offset_split {szs is : List Int} {d : Nat} {n i : Int} (hn : szs[d]? = some n)
    (hi : is[d]? = some i) (o : Int) :
    viewOffset (denseDims szs) is 0 = .ok o ↔
      (InB (szs.take d) (is.take d) ∧ (0 ≤ i ∧ i < n) ∧ InB (szs.drop (d + 1)) (is.drop (d + 1))) ∧
      o = lin (szs.take d) (is.take d) * (n * prodL (szs.drop (d + 1)))
          + (i * prodL (szs.drop (d + 1)) + lin (szs.drop (d + 1)) (is.drop (d + 1))) := by
  obtain ⟨e1, l1⟩ := split_at hn
  obtain ⟨e2, l2⟩ := split_at hi
  rw [dense_offset]
  conv => lhs; rw [e1, e2]
  rw [InB_append _ _ (by omega), lin_append _ _ (by omega)]
  simp only [InB_cons_cons, lin_cons_cons, prodL, Int.zero_add]

/-! ## 0. from "in-bounds to in-bounds, injectively" to `ReidxGeom` -/

theorem geom_mono {ds ds' : List (Int × Int)} {m m' : Nat} {f : List Int → List Int}
    {D D' : Int → Prop} (h : ReidxGeom ds ds' m m' f D) (hD : ∀ o, D' o → D o) :
    ReidxGeom ds ds' m m' f D' :=
  ⟨h.src, fun is o ho hd => h.map is o ho (hD o hd),
   fun is₁ is₂ o₁ o₂ o₁' o₂' a b c d => h.inj is₁ is₂ o₁ o₂ o₁' o₂' a b (hD _ c) (hD _ d)⟩

/-- the accessed-cells predicate induced by a predicate `P` on index tuples -/
def DOf (szs : List Int) (P : List Int → Prop) (o : Int) : Prop :=
  ∀ is, viewOffset (denseDims szs) is 0 = .ok o → P is

theorem geom_of_inj {szs szs' : List Int} {f : List Int → List Int} {P : List Int → Prop}
    (hmap : ∀ is, InB szs is → P is → InB szs' (f is))
    (hinj : ∀ is₁ is₂, InB szs is₁ → InB szs is₂ → P is₁ → P is₂ → f is₁ = f is₂ → is₁ = is₂) :
    ReidxGeom (denseDims szs) (denseDims szs') (szs.foldl (· * ·) 1).toNat
      (szs'.foldl (· * ·) 1).toNat f (DOf szs P) := by
  refine ⟨fun is o h => dense_range h, ?_, ?_⟩
  · intro is o h hD
    have hb := ((dense_offset _ _ _ _).1 h).1
    have hb' := hmap is hb (hD is h)
    have h' : viewOffset (denseDims szs') (f is) 0 = .ok (0 + lin szs' (f is)) :=
      (dense_offset _ _ _ _).2 ⟨hb', rfl⟩
    exact ⟨_, h', dense_range h'⟩
  · intro is₁ is₂ o₁ o₂ o₁' o₂' h₁ h₂ d₁ d₂ h₁' h₂'
    have b₁ := ((dense_offset _ _ _ _).1 h₁).1
    have b₂ := ((dense_offset _ _ _ _).1 h₂).1
    constructor
    · intro e
      subst e
      have := hinj is₁ is₂ b₁ b₂ (d₁ is₁ h₁) (d₂ is₂ h₂) (dense_inj h₁' h₂')
      subst this
      rw [h₁] at h₂
      exact Except.ok.inj h₂
    · intro e
      subst e
      have := dense_inj h₁ h₂
      subst this
      rw [h₁'] at h₂'
      exact Except.ok.inj h₂'

/-- total version: `D = fun _ => True` -/
theorem geom_of_inj_total {szs szs' : List Int} {f : List Int → List Int}
    (hmap : ∀ is, InB szs is → InB szs' (f is))
    (hinj : ∀ is₁ is₂, InB szs is₁ → InB szs is₂ → f is₁ = f is₂ → is₁ = is₂) :
    ReidxGeom (denseDims szs) (denseDims szs') (szs.foldl (· * ·) 1).toNat
      (szs'.foldl (· * ·) 1).toNat f (fun _ => True) :=
  geom_mono (geom_of_inj (P := fun _ => True) (fun is h _ => hmap is h)
    (fun a b ha hb _ _ e => hinj a b ha hb e)) (fun _ _ _ _ => trivial)

/-- offsets are preserved: the strongest form of geometry (`divide_dim`, adjacent `mult_dim`) -/
theorem geom_of_offset_eq {szs szs' : List Int} {f : List Int → List Int}
    (h : ∀ is o, viewOffset (denseDims szs) is 0 = .ok o →
      viewOffset (denseDims szs') (f is) 0 = .ok o) :
    ReidxGeom (denseDims szs) (denseDims szs') (szs.foldl (· * ·) 1).toNat
      (szs'.foldl (· * ·) 1).toNat f (fun _ => True) := by
  refine ⟨fun is o h => dense_range h, ?_, ?_⟩
  · intro is o ho _
    exact ⟨o, h is o ho, dense_range (h is o ho)⟩
  · intro is₁ is₂ o₁ o₂ o₁' o₂' h₁ h₂ _ _ h₁' h₂'
    rw [h is₁ o₁ h₁] at h₁'
    rw [h is₂ o₂ h₂] at h₂'
    rw [← Except.ok.inj h₁', ← Except.ok.inj h₂']

/-! ## 0. evaluation of index lists -/

theorem evalCs_cons_ok {s : State V} {e : Expr} {r : List Expr} {is : List Int} :
    evalCs s (e :: r) = .ok is ↔
      ∃ i is', evalC s e = .ok i ∧ evalCs s r = .ok is' ∧ is = i :: is' := by
  simp only [evalCs, bind, Except.bind, pure, Except.pure]
  cases evalC s e with
  | error x => simp
  | ok i =>
    cases evalCs s r with
    | error x => simp
    | ok is' => simp [eq_comm]

theorem evalCs_nil_ok {s : State V} {is : List Int} : evalCs s [] = .ok is ↔ is = [] := by
  simp [evalCs, pure, Except.pure, eq_comm]

theorem evalCs_length {s : State V} : ∀ {idx : List Expr} {is : List Int},
    evalCs s idx = .ok is → is.length = idx.length
  | [], is, h => by rw [evalCs_nil_ok.1 h]; rfl
  | e :: r, is, h => by
    obtain ⟨i, is', _, h2, rfl⟩ := evalCs_cons_ok.1 h
    simp [evalCs_length h2]

theorem evalCs_getElem? {s : State V} : ∀ {idx : List Expr} {is : List Int},
    evalCs s idx = .ok is → ∀ (k : Nat) (e : Expr), idx[k]? = some e →
      ∃ i, is[k]? = some i ∧ evalC s e = .ok i
  | [], is, h, k, e, hk => by simp at hk
  | a :: r, is, h, k, e, hk => by
    obtain ⟨i, is', h1, h2, rfl⟩ := evalCs_cons_ok.1 h
    cases k with
    | zero =>
      simp only [List.getElem?_cons_zero, Option.some.injEq] at hk
      subst hk
      exact ⟨i, by simp, h1⟩
    | succ k =>
      simp only [List.getElem?_cons_succ] at hk ⊢
      exact evalCs_getElem? h2 k e hk

theorem evalCs_getElem?' {s : State V} {idx : List Expr} {is : List Int}
    (h : evalCs s idx = .ok is) (k : Nat) (i : Int) (hk : is[k]? = some i) :
    ∃ e, idx[k]? = some e ∧ evalC s e = .ok i := by
  obtain ⟨hlt, _⟩ := List.getElem?_eq_some_iff.1 hk
  rw [evalCs_length h] at hlt
  obtain ⟨i', h1, h2⟩ := evalCs_getElem? h k idx[k] (List.getElem?_eq_getElem hlt)
  rw [hk] at h1
  cases h1
  exact ⟨idx[k], List.getElem?_eq_getElem hlt, h2⟩

theorem evalCs_getElem?_none {s : State V} {idx : List Expr} {is : List Int}
    (h : evalCs s idx = .ok is) (k : Nat) : idx[k]? = none ↔ is[k]? = none := by
  rw [List.getElem?_eq_none_iff, List.getElem?_eq_none_iff, evalCs_length h]

theorem evalCs_append {s : State V} : ∀ {a b : List Expr} {x y : List Int},
    evalCs s a = .ok x → evalCs s b = .ok y → evalCs s (a ++ b) = .ok (x ++ y)
  | [], b, x, y, h1, h2 => by rw [evalCs_nil_ok.1 h1]; simpa using h2
  | e :: r, b, x, y, h1, h2 => by
    obtain ⟨i, is', h3, h4, rfl⟩ := evalCs_cons_ok.1 h1
    simp only [List.cons_append]
    exact evalCs_cons_ok.2 ⟨i, _, h3, evalCs_append h4 h2, rfl⟩

theorem evalCs_take {s : State V} : ∀ {idx : List Expr} {is : List Int} (k : Nat),
    evalCs s idx = .ok is → evalCs s (idx.take k) = .ok (is.take k)
  | _, _, 0, _ => by simp [evalCs, pure, Except.pure]
  | [], is, k + 1, h => by rw [evalCs_nil_ok.1 h]; simp [evalCs, pure, Except.pure]
  | e :: r, is, k + 1, h => by
    obtain ⟨i, is', h3, h4, rfl⟩ := evalCs_cons_ok.1 h
    simp only [List.take_succ_cons]
    exact evalCs_cons_ok.2 ⟨i, _, h3, evalCs_take k h4, rfl⟩

theorem evalCs_drop {s : State V} : ∀ {idx : List Expr} {is : List Int} (k : Nat),
    evalCs s idx = .ok is → evalCs s (idx.drop k) = .ok (is.drop k)
  | _, _, 0, h => by simpa using h
  | [], is, k + 1, h => by rw [evalCs_nil_ok.1 h]; simp [evalCs, pure, Except.pure]
  | e :: r, is, k + 1, h => by
    obtain ⟨i, is', h3, h4, rfl⟩ := evalCs_cons_ok.1 h
    simp only [List.drop_succ_cons]
    exact evalCs_drop k h4

theorem evalCs_set {s : State V} : ∀ {idx : List Expr} {is : List Int} (k : Nat) {e : Expr}
    {i : Int}, evalCs s idx = .ok is → evalC s e = .ok i →
    evalCs s (idx.set k e) = .ok (is.set k i)
  | [], is, k, e, i, h, _ => by rw [evalCs_nil_ok.1 h]; simp [evalCs, pure, Except.pure]
  | a :: r, is, 0, e, i, h, he => by
    obtain ⟨j, is', h3, h4, rfl⟩ := evalCs_cons_ok.1 h
    simp only [List.set_cons_zero]
    exact evalCs_cons_ok.2 ⟨i, _, he, h4, rfl⟩
  | a :: r, is, k + 1, e, i, h, he => by
    obtain ⟨j, is', h3, h4, rfl⟩ := evalCs_cons_ok.1 h
    simp only [List.set_cons_succ]
    exact evalCs_cons_ok.2 ⟨j, _, h3, evalCs_set k h4 he, rfl⟩

theorem evalCs_eraseIdx {s : State V} : ∀ {idx : List Expr} {is : List Int} (k : Nat),
    evalCs s idx = .ok is → evalCs s (idx.eraseIdx k) = .ok (is.eraseIdx k)
  | [], is, k, h => by rw [evalCs_nil_ok.1 h]; simp [evalCs, pure, Except.pure]
  | a :: r, is, 0, h => by
    obtain ⟨j, is', h3, h4, rfl⟩ := evalCs_cons_ok.1 h
    simpa using h4
  | a :: r, is, k + 1, h => by
    obtain ⟨j, is', h3, h4, rfl⟩ := evalCs_cons_ok.1 h
    simp only [List.eraseIdx_cons_succ]
    exact evalCs_cons_ok.2 ⟨j, _, h3, evalCs_eraseIdx k h4, rfl⟩

theorem mem_namesEs {y : Sym} : ∀ {es : List Expr}, y ∈ namesEs es ↔ ∃ e ∈ es, y ∈ e.names
  | [] => by simp [namesEs]
  | e :: r => by simp [namesEs, mem_namesEs (es := r)]

theorem evalC_binop_lit {s : State V} (op : BinOp) {e : Expr} {i c r : Int}
    (h : evalC s e = .ok i) (hop : ctrlOp op i c = .ok r) :
    evalC s (.binop op e (Rw.litI c)) = .ok r := by
  simp only [evalC, Rw.litI, h, bind, Except.bind, pure, Except.pure]
  exact hop

theorem names_binop_lit (op : BinOp) (e : Expr) (c : Int) :
    (Expr.binop op e (Rw.litI c)).names = e.names := by
  simp [Expr.names, Rw.litI]

/-! ## 1. `divide_dim` -/

theorem evalC_div_lit {s : State V} {e : Expr} {i q : Int} (hq : 0 < q)
    (h : evalC s e = .ok i) : evalC s (.binop .div e (Rw.litI q)) = .ok (i / q) :=
  evalC_binop_lit .div h (by simp [ctrlOp, Int.not_le.2 hq, pure, Except.pure])

theorem evalC_mod_lit {s : State V} {e : Expr} {i q : Int} (hq : 0 < q)
    (h : evalC s e = .ok i) : evalC s (.binop .mod e (Rw.litI q)) = .ok (i % q) :=
  evalC_binop_lit .mod h (by simp [ctrlOp, Int.not_le.2 hq, pure, Except.pure])

/-- `Rw.divideIdx d q` computes `Rw.divideIdxI d q` (`q > 0`: the division does not fail) -/
theorem divide_syn_eval {d : Nat} {q : Int} (hq : 0 < q) {s : State V} {idx : List Expr}
    {is : List Int} (h : evalCs s idx = .ok is) :
    evalCs s (Rw.divideIdx d q idx) = .ok (Rw.divideIdxI d q is) := by
  unfold Rw.divideIdx Rw.divideIdxI
  cases hd : idx[d]? with
  | none =>
    have hn : is[d]? = none := (evalCs_getElem?_none h d).1 hd
    simp only [hn]
    exact h
  | some e =>
    obtain ⟨i, hi, he⟩ := evalCs_getElem? h d e hd
    simp only [hi]
    exact evalCs_append (evalCs_append (evalCs_take d h)
      (evalCs_cons_ok.2 ⟨_, _, evalC_div_lit hq he,
        evalCs_cons_ok.2 ⟨_, _, evalC_mod_lit hq he, evalCs_nil_ok.2 rfl, rfl⟩, rfl⟩))
      (evalCs_drop (d + 1) h)

theorem divide_syn_names (d : Nat) (q : Int) (idx : List Expr) (y : Sym)
    (h : y ∈ namesEs (Rw.divideIdx d q idx)) : y ∈ namesEs idx := by
  unfold Rw.divideIdx at h
  cases hd : idx[d]? with
  | none => simpa only [hd] using h
  | some e =>
    simp only [hd] at h
    obtain ⟨e', he', hy⟩ := mem_namesEs.1 h
    simp only [List.mem_append, List.mem_cons, List.not_mem_nil, or_false] at he'
    have hmem : e ∈ idx := List.mem_of_getElem? hd
    rcases he' with (he' | rfl | rfl) | he'
    · exact mem_namesEs.2 ⟨e', List.mem_of_mem_take he', hy⟩
    · exact mem_namesEs.2 ⟨e, hmem, by simpa only [names_binop_lit] using hy⟩
    · exact mem_namesEs.2 ⟨e, hmem, by simpa only [names_binop_lit] using hy⟩
    · exact mem_namesEs.2 ⟨e', List.mem_of_mem_drop he', hy⟩

/-- the syntactic half of the `divide_dim` instance -/
theorem divide_syn (d : Nat) {q : Int} (hq : 0 < q) :
    ReidxSyn (Rw.divideIdx d q) (Rw.divideIdxI d q) :=
  ⟨fun _ _ _ _ h => divide_syn_eval hq h, divide_syn_names d q⟩

theorem divide_arith {q n i : Int} (hq : 0 < q) (hdiv : n % q = 0) (hi : 0 ≤ i ∧ i < n) :
    n / q * q = n ∧ (0 ≤ i / q ∧ i / q < n / q) ∧ (0 ≤ i % q ∧ i % q < q) ∧
      q * (i / q) + i % q = i := by
  have hnq : n / q * q = n := Int.ediv_mul_cancel_of_emod_eq_zero hdiv
  refine ⟨hnq, ⟨Int.ediv_nonneg hi.1 (by omega), Int.ediv_lt_of_lt_mul hq (by rw [hnq]; exact hi.2)⟩,
    ⟨Int.emod_nonneg _ (by omega), Int.emod_lt_of_pos _ hq⟩, Int.mul_ediv_add_emod i q⟩

/-- `divide_dim` does not move any cell: the offset of the re-written tuple in the new layout is
    the offset of the original tuple in the old layout -/
theorem divide_offset_eq {szs : List Int} {d : Nat} {q n : Int} (hq : 0 < q)
    (hn : szs[d]? = some n) (hdiv : n % q = 0) (is : List Int) (o : Int)
    (h : viewOffset (denseDims szs) is 0 = .ok o) :
    viewOffset (denseDims (szs.take d ++ [n / q, q] ++ szs.drop (d + 1)))
      (Rw.divideIdxI d q is) 0 = .ok o := by
  have hlen := ((dense_offset _ _ _ _).1 h).1.length
  obtain ⟨hdl, _⟩ := List.getElem?_eq_some_iff.1 hn
  have hi : is[d]? = some is[d] := List.getElem?_eq_getElem (by omega)
  obtain ⟨⟨bA, bi, bB⟩, ho⟩ := (dense_offset_split hn hi o).1 h
  obtain ⟨hnq, b1, b2, hdm⟩ := divide_arith hq hdiv bi
  unfold Rw.divideIdxI
  simp only [hi]
  rw [dense_offset]
  have lA : (is.take d).length = (szs.take d).length := by
    simp only [List.length_take]; omega
  simp only [List.append_assoc, List.cons_append, List.nil_append]
  rw [InB_append _ _ lA, lin_append _ _ lA]
  simp only [InB_cons_cons, lin_cons_cons, prodL]
  refine ⟨⟨bA, b1, b2, bB⟩, ?_⟩
  rw [ho]
  have h1 : n / q * (q * prodL (szs.drop (d + 1))) = n * prodL (szs.drop (d + 1)) := by
    rw [← Int.mul_assoc, hnq]
  have h2 : is[d] / q * (q * prodL (szs.drop (d + 1))) + is[d] % q * prodL (szs.drop (d + 1))
      = is[d] * prodL (szs.drop (d + 1)) := by
    rw [← Int.mul_assoc, ← Int.add_mul, Int.mul_comm (is[d] / q) q, hdm]
  rw [h1]
  omega

theorem divide_geom {szs : List Int} {d : Nat} {q n : Int} (hq : 0 < q)
    (hn : szs[d]? = some n) (hdiv : n % q = 0) :
    ReidxGeom (denseDims szs) (denseDims (szs.take d ++ [n / q, q] ++ szs.drop (d + 1)))
      (szs.foldl (· * ·) 1).toNat
      ((szs.take d ++ [n / q, q] ++ szs.drop (d + 1)).foldl (· * ·) 1).toNat
      (Rw.divideIdxI d q) (fun _ => True) :=
  geom_of_offset_eq (divide_offset_eq hq hn hdiv)

theorem evalC_divideExtent {s : State V} {e : Expr} {q n : Int} (hq : 0 < q)
    (h : evalC s e = .ok n) : evalC s (Rw.divideExtent e q) = .ok (n / q) := by
  unfold Rw.divideExtent
  split
  · rename_i m
    simp only [evalC, pure, Except.pure, Except.ok.injEq] at h
    subst h
    split
    · simp [Rw.litI, evalC, pure, Except.pure]
    · exact evalC_div_lit hq (by simp [evalC, pure, Except.pure])
  · exact evalC_div_lit hq h

/-- the new shape evaluates to the new extents (whether or not `divide_expr` folds the literal) -/
theorem divide_shape_eval {s : State V} {sh : List Expr} {szs : List Int} {d : Nat} {q n : Int}
    (hq : 0 < q) (h : evalCs s sh = .ok szs) (hn : szs[d]? = some n) :
    evalCs s (Rw.divideShape d q sh) = .ok (szs.take d ++ [n / q, q] ++ szs.drop (d + 1)) := by
  obtain ⟨e, he, hv⟩ := evalCs_getElem?' h d n hn
  unfold Rw.divideShape
  simp only [he]
  exact evalCs_append (evalCs_append (evalCs_take d h)
    (evalCs_cons_ok.2 ⟨_, _, evalC_divideExtent hq hv,
      evalCs_cons_ok.2 ⟨_, _, by simp [Rw.litI, evalC, pure, Except.pure],
        evalCs_nil_ok.2 rfl, rfl⟩, rfl⟩))
    (evalCs_drop (d + 1) h)

theorem divide_sizes_prod {szs : List Int} {d : Nat} {q n : Int} (hq : 0 < q)
    (hn : szs[d]? = some n) (hdiv : n % q = 0) :
    (szs.take d ++ [n / q, q] ++ szs.drop (d + 1)).foldl (· * ·) 1 = szs.foldl (· * ·) 1 := by
  have hnq : n / q * q = n := Int.ediv_mul_cancel_of_emod_eq_zero hdiv
  rw [foldl_one, foldl_one]
  conv => rhs; rw [(split_at hn).1]
  simp only [prodL_append, prodL, Int.mul_one, hnq, Int.mul_assoc]

theorem divide_checkSizes {szs : List Int} {d : Nat} {q n : Int} (hq : 0 < q)
    (hn : szs[d]? = some n) (hdiv : n % q = 0) (hcs : checkSizes szs = .ok ()) :
    checkSizes (szs.take d ++ [n / q, q] ++ szs.drop (d + 1)) = .ok () := by
  rw [checkSizes_iff] at hcs ⊢
  have hnpos : 0 < n := hcs n (List.mem_of_getElem? hn)
  have hnq : n / q * q = n := Int.ediv_mul_cancel_of_emod_eq_zero hdiv
  intro e he
  simp only [List.mem_append, List.mem_cons, List.not_mem_nil, or_false] at he
  rcases he with (he | rfl | rfl) | he
  · exact hcs e (List.mem_of_mem_take he)
  · exact Int.pos_of_mul_pos_left (by rw [hnq]; exact hnpos) (by omega)
  · exact hq
  · exact hcs e (List.mem_of_mem_drop he)

/-- `divide_dim`, packaged for `reindex_local` (explicit new extents) -/
theorem divide_inst' {s : State V} {sh : List Expr} {szs : List Int} {d : Nat} {q n : Int}
    (hq : 0 < q) (hn : szs[d]? = some n) (hdiv : n % q = 0)
    (hsh : evalCs s sh = .ok szs) (hcs : checkSizes szs = .ok ()) :
    evalCs s (Rw.divideShape d q sh) = .ok (szs.take d ++ [n / q, q] ++ szs.drop (d + 1)) ∧
    checkSizes (szs.take d ++ [n / q, q] ++ szs.drop (d + 1)) = .ok () ∧
    (szs.take d ++ [n / q, q] ++ szs.drop (d + 1)).foldl (· * ·) 1 = szs.foldl (· * ·) 1 ∧
    ReidxGeom (denseDims szs) (denseDims (szs.take d ++ [n / q, q] ++ szs.drop (d + 1)))
      (szs.foldl (· * ·) 1).toNat
      ((szs.take d ++ [n / q, q] ++ szs.drop (d + 1)).foldl (· * ·) 1).toNat
      (Rw.divideIdxI d q) (fun _ => True) :=
  ⟨divide_shape_eval hq hsh hn, divide_checkSizes hq hn hdiv hcs, divide_sizes_prod hq hn hdiv,
   divide_geom hq hn hdiv⟩

/-- `divide_dim`, packaged for `reindex_local` -/
theorem divide_inst {s : State V} {sh : List Expr} {szs : List Int} {d : Nat} {q n : Int}
    (hq : 0 < q) (hn : szs[d]? = some n) (hdiv : n % q = 0)
    (hsh : evalCs s sh = .ok szs) (hcs : checkSizes szs = .ok ()) :
    ∃ szs', evalCs s (Rw.divideShape d q sh) = .ok szs' ∧ checkSizes szs' = .ok () ∧
      ReidxGeom (denseDims szs) (denseDims szs') (szs.foldl (· * ·) 1).toNat
        (szs'.foldl (· * ·) 1).toNat (Rw.divideIdxI d q) (fun _ => True) :=
  ⟨_, divide_shape_eval hq hsh hn, divide_checkSizes hq hn hdiv hcs, divide_geom hq hn hdiv⟩

/-! ## 2. `mult_dim` (arbitrary positions `hi ≠ lo`) -/

theorem InB_set : ∀ {szs is : List Int} (d : Nat) {e v : Int}, InB szs is → (0 ≤ v ∧ v < e) →
    InB (szs.set d e) (is.set d v)
  | [], [], d, _, _, h, _ => by simp
  | [], _ :: _, _, _, _, h, _ => h.elim
  | _ :: _, [], _, _, _, h, _ => h.elim
  | a :: r, i :: is, 0, e, v, h, hv => by
    simp only [List.set_cons_zero, InB_cons_cons]; exact ⟨hv, h.2⟩
  | a :: r, i :: is, d + 1, e, v, h, hv => by
    simp only [List.set_cons_succ, InB_cons_cons]; exact ⟨h.1, InB_set d h.2 hv⟩

theorem InB_eraseIdx : ∀ {szs is : List Int} (d : Nat), InB szs is →
    InB (szs.eraseIdx d) (is.eraseIdx d)
  | [], [], d, h => by simp
  | [], _ :: _, _, h => h.elim
  | _ :: _, [], _, h => h.elim
  | a :: r, i :: is, 0, h => by simpa using h.2
  | a :: r, i :: is, d + 1, h => by
    simp only [List.eraseIdx_cons_succ, InB_cons_cons]; exact ⟨h.1, InB_eraseIdx d h.2⟩

theorem getElem?_of_eraseIdx_eq {α : Type} {a b : List α} {lo : Nat}
    (h : a.eraseIdx lo = b.eraseIdx lo) (k : Nat) (hk : k ≠ lo) : a[k]? = b[k]? := by
  by_cases hlt : k < lo
  · have := congrArg (fun l => l[k]?) h
    simp only [List.getElem?_eraseIdx, if_pos hlt] at this
    exact this
  · have := congrArg (fun l => l[k - 1]?) h
    simp only [List.getElem?_eraseIdx, if_neg (by omega : ¬ k - 1 < lo)] at this
    rwa [show k - 1 + 1 = k by omega] at this

/-- `Rw.multIdx hi lo c` computes `Rw.multIdxI hi lo c` -/
theorem mult_syn_eval (hi lo : Nat) (c : Int) {s : State V} {idx : List Expr} {is : List Int}
    (h : evalCs s idx = .ok is) :
    evalCs s (Rw.multIdx hi lo c idx) = .ok (Rw.multIdxI hi lo c is) := by
  unfold Rw.multIdx Rw.multIdxI
  cases h1 : idx[hi]? with
  | none =>
    have hn : is[hi]? = none := (evalCs_getElem?_none h hi).1 h1
    simp only [hn]
    exact h
  | some eh =>
    obtain ⟨vh, hvh, heh⟩ := evalCs_getElem? h hi eh h1
    cases h2 : idx[lo]? with
    | none =>
      have hn : is[lo]? = none := (evalCs_getElem?_none h lo).1 h2
      simp only [hvh, hn]
      exact h
    | some el =>
      obtain ⟨vl, hvl, hel⟩ := evalCs_getElem? h lo el h2
      simp only [hvh, hvl]
      refine evalCs_eraseIdx lo (evalCs_set hi h ?_)
      simp only [evalC, Rw.litI, heh, hel, bind, Except.bind, pure, Except.pure, ctrlOp]

theorem mult_syn_names (hi lo : Nat) (c : Int) (idx : List Expr) (y : Sym)
    (h : y ∈ namesEs (Rw.multIdx hi lo c idx)) : y ∈ namesEs idx := by
  unfold Rw.multIdx at h
  cases h1 : idx[hi]? with
  | none => simp only [h1] at h; exact h
  | some eh =>
    cases h2 : idx[lo]? with
    | none => simp only [h1, h2] at h; exact h
    | some el =>
      simp only [h1, h2] at h
      obtain ⟨e', he', hy⟩ := mem_namesEs.1 h
      rcases List.mem_or_eq_of_mem_set (List.mem_of_mem_eraseIdx he') with he' | rfl
      · exact mem_namesEs.2 ⟨e', he', hy⟩
      · simp only [Expr.names, Rw.litI, List.mem_append, List.not_mem_nil, false_or] at hy
        rcases hy with hy | hy
        · exact mem_namesEs.2 ⟨eh, List.mem_of_getElem? h1, hy⟩
        · exact mem_namesEs.2 ⟨el, List.mem_of_getElem? h2, hy⟩

/-- the syntactic half of the `mult_dim` instance (no condition on `hi`, `lo`, `c`) -/
theorem mult_syn (hi lo : Nat) (c : Int) :
    ReidxSyn (Rw.multIdx hi lo c) (Rw.multIdxI hi lo c) :=
  ⟨fun _ _ _ _ h => mult_syn_eval hi lo c h, mult_syn_names hi lo c⟩

theorem mult_arith {c H h l : Int} (hh : 0 ≤ h ∧ h < H) (hl : 0 ≤ l ∧ l < c) :
    0 ≤ c * h + l ∧ c * h + l < c * H := by
  have hc : 0 ≤ c := by omega
  have a : 0 ≤ c * h := Int.mul_nonneg hc hh.1
  have b : c * (h + 1) ≤ c * H := Int.mul_le_mul_of_nonneg_left (by omega) hc
  rw [Int.mul_add, Int.mul_one] at b
  omega

/-- the new extents of `mult_dim` are `(szs.set hi (c * H)).eraseIdx lo` -/
theorem mult_InB {szs is : List Int} {hi lo : Nat} {c H : Int} (hH : szs[hi]? = some H)
    (hc : szs[lo]? = some c) (hb : InB szs is) :
    InB ((szs.set hi (c * H)).eraseIdx lo) (Rw.multIdxI hi lo c is) := by
  obtain ⟨hl, hk⟩ := (InB_iff_getElem _ _).1 hb
  obtain ⟨l1, _⟩ := List.getElem?_eq_some_iff.1 hH
  obtain ⟨l2, _⟩ := List.getElem?_eq_some_iff.1 hc
  have e1 : is[hi]? = some is[hi] := List.getElem?_eq_getElem (by omega)
  have e2 : is[lo]? = some is[lo] := List.getElem?_eq_getElem (by omega)
  unfold Rw.multIdxI
  simp only [e1, e2]
  exact InB_eraseIdx lo (InB_set hi hb (mult_arith (hk hi _ _ e1 hH) (hk lo _ _ e2 hc)))

theorem mult_inj {szs is₁ is₂ : List Int} {hi lo : Nat} {c H : Int} (hne : hi ≠ lo)
    (hH : szs[hi]? = some H) (hc : szs[lo]? = some c) (hb₁ : InB szs is₁) (hb₂ : InB szs is₂)
    (h : Rw.multIdxI hi lo c is₁ = Rw.multIdxI hi lo c is₂) : is₁ = is₂ := by
  obtain ⟨hl₁, hk₁⟩ := (InB_iff_getElem _ _).1 hb₁
  obtain ⟨hl₂, hk₂⟩ := (InB_iff_getElem _ _).1 hb₂
  obtain ⟨l1, _⟩ := List.getElem?_eq_some_iff.1 hH
  obtain ⟨l2, _⟩ := List.getElem?_eq_some_iff.1 hc
  have a1 : is₁[hi]? = some is₁[hi] := List.getElem?_eq_getElem (by omega)
  have a2 : is₁[lo]? = some is₁[lo] := List.getElem?_eq_getElem (by omega)
  have b1 : is₂[hi]? = some is₂[hi] := List.getElem?_eq_getElem (by omega)
  have b2 : is₂[lo]? = some is₂[lo] := List.getElem?_eq_getElem (by omega)
  unfold Rw.multIdxI at h
  simp only [a1, a2, b1, b2] at h
  have key := getElem?_of_eraseIdx_eq h
  -- the merged coordinate determines both original coordinates
  have khi := key hi hne
  simp only [List.getElem?_set, if_true, show hi < is₁.length by omega,
    show hi < is₂.length by omega, Option.some.injEq] at khi
  have hu : is₁[hi] = is₂[hi] ∧ is₁[lo] = is₂[lo] :=
    divmod_unique (P := c) (hk₁ lo _ _ a2 hc) (hk₂ lo _ _ b2 hc)
      (by rw [Int.mul_comm is₁[hi] c, Int.mul_comm is₂[hi] c]; exact khi)
  apply List.ext_getElem?
  intro k
  by_cases hk : k = lo
  · subst hk; rw [a2, b2, hu.2]
  · by_cases hk' : k = hi
    · subst hk'; rw [a1, b1, hu.1]
    · have := key k hk
      simpa only [List.getElem?_set, if_neg (Ne.symm hk')] using this

theorem mult_geom {szs : List Int} {hi lo : Nat} {c H : Int} (hne : hi ≠ lo)
    (hH : szs[hi]? = some H) (hc : szs[lo]? = some c) :
    ReidxGeom (denseDims szs) (denseDims ((szs.set hi (c * H)).eraseIdx lo))
      (szs.foldl (· * ·) 1).toNat (((szs.set hi (c * H)).eraseIdx lo).foldl (· * ·) 1).toNat
      (Rw.multIdxI hi lo c) (fun _ => True) :=
  geom_of_inj_total (fun is hb => mult_InB hH hc hb)
    (fun a b ha hb e => mult_inj hne hH hc ha hb e)

/-- the new shape `shp[hi] := lo_dim * hi_dim; del shp[lo]` evaluates to the new extents -/
theorem mult_shape_eval {s : State V} {sh : List Expr} {szs : List Int} {hi lo : Nat} {c H : Int}
    (h : evalCs s sh = .ok szs) (hH : szs[hi]? = some H) (hc : szs[lo]? = some c) :
    evalCs s (Rw.multShape hi lo sh) = .ok ((szs.set hi (c * H)).eraseIdx lo) := by
  obtain ⟨eh, h1, v1⟩ := evalCs_getElem?' h hi H hH
  obtain ⟨el, h2, v2⟩ := evalCs_getElem?' h lo c hc
  unfold Rw.multShape
  simp only [h1, h2]
  refine evalCs_eraseIdx lo (evalCs_set hi h ?_)
  simp only [evalC, v1, v2, bind, Except.bind, ctrlOp]
  rfl

theorem mult_checkSizes {szs : List Int} {hi lo : Nat} {c H : Int}
    (hH : szs[hi]? = some H) (hc : szs[lo]? = some c) (hcs : checkSizes szs = .ok ()) :
    checkSizes ((szs.set hi (c * H)).eraseIdx lo) = .ok () := by
  rw [checkSizes_iff] at hcs ⊢
  intro e he
  rcases List.mem_or_eq_of_mem_set (List.mem_of_mem_eraseIdx he) with he | rfl
  · exact hcs e he
  · exact Int.mul_pos (hcs c (List.mem_of_getElem? hc)) (hcs H (List.mem_of_getElem? hH))

/-- `mult_dim`, packaged for `reindex_local`: `c` is the (literal) extent of dimension `lo`, `H`
    the extent of dimension `hi`; the new extents are `(szs.set hi (c * H)).eraseIdx lo` -/
theorem mult_inst {s : State V} {sh : List Expr} {szs : List Int} {hi lo : Nat} {c H : Int}
    (hne : hi ≠ lo) (hH : szs[hi]? = some H) (hc : szs[lo]? = some c)
    (hsh : evalCs s sh = .ok szs) (hcs : checkSizes szs = .ok ()) :
    ∃ szs', evalCs s (Rw.multShape hi lo sh) = .ok szs' ∧ checkSizes szs' = .ok () ∧
      ReidxGeom (denseDims szs) (denseDims szs') (szs.foldl (· * ·) 1).toNat
        (szs'.foldl (· * ·) 1).toNat (Rw.multIdxI hi lo c) (fun _ => True) :=
  ⟨_, mult_shape_eval hsh hH hc, mult_checkSizes hH hc hcs, mult_geom hne hH hc⟩

/-! ### `mult_dim`: the buffer keeps its number of cells; adjacent dimensions: no cell moves -/

theorem prodL_eraseIdx : ∀ {l : List Int} {k : Nat} {x : Int}, l[k]? = some x →
    prodL l = x * prodL (l.eraseIdx k)
  | [], _, _, h => by simp at h
  | a :: r, 0, x, h => by
    simp only [List.getElem?_cons_zero, Option.some.injEq] at h
    subst h
    simp only [List.eraseIdx_cons_zero, prodL]
  | a :: r, k + 1, x, h => by
    simp only [List.getElem?_cons_succ] at h
    simp only [List.eraseIdx_cons_succ, prodL, prodL_eraseIdx h]
    rw [← Int.mul_assoc, ← Int.mul_assoc, Int.mul_comm a x]

theorem mult_sizes_prod {szs : List Int} {hi lo : Nat} {c H : Int} (hne : hi ≠ lo)
    (hH : szs[hi]? = some H) (hc : szs[lo]? = some c) (hcpos : 0 < c) :
    ((szs.set hi (c * H)).eraseIdx lo).foldl (· * ·) 1 = szs.foldl (· * ·) 1 := by
  rw [foldl_one, foldl_one]
  obtain ⟨l1, _⟩ := List.getElem?_eq_some_iff.1 hH
  have s1 : (szs.set hi (c * H))[lo]? = some c := by rw [List.getElem?_set_ne hne]; exact hc
  have s2 : (szs.set hi (c * H))[hi]? = some (c * H) := by
    rw [List.getElem?_set]; simp only [if_true, l1]
  have p1 := prodL_eraseIdx s1
  have p2 := prodL_eraseIdx s2
  rw [List.eraseIdx_set_eq] at p2
  have p3 := prodL_eraseIdx hH
  apply Int.eq_of_mul_eq_mul_left (a := c) (by omega)
  rw [← p1, p2, p3, Int.mul_assoc]

theorem mult_adj_lin : ∀ (szs is : List Int) (hi : Nat) {H c h l : Int},
    szs[hi]? = some H → szs[hi + 1]? = some c → is[hi]? = some h → is[hi + 1]? = some l →
    lin ((szs.set hi (c * H)).eraseIdx (hi + 1)) ((is.set hi (c * h + l)).eraseIdx (hi + 1))
        = lin szs is ∧
      prodL ((szs.set hi (c * H)).eraseIdx (hi + 1)) = prodL szs
  | [], _, _, _, _, _, _, h1, _, _, _ => by simp at h1
  | _ :: _, [], _, _, _, _, _, _, _, h3, _ => by simp at h3
  | a :: r, i :: is, 0, H, c, h, l, h1, h2, h3, h4 => by
    simp only [List.getElem?_cons_zero, Option.some.injEq] at h1 h3
    subst h1 h3
    cases r with
    | nil => simp at h2
    | cons c' B =>
      cases is with
      | nil => simp at h4
      | cons l' Y =>
        simp only [List.getElem?_cons_succ, List.getElem?_cons_zero, Option.some.injEq,
          Nat.zero_add] at h2 h4
        subst h2 h4
        simp only [List.set_cons_zero, List.eraseIdx_cons_succ, List.eraseIdx_cons_zero,
          Nat.zero_add, lin_cons_cons, prodL]
        constructor
        · rw [Int.add_mul, Int.mul_comm c' i, Int.mul_assoc]; omega
        · rw [Int.mul_comm c' a, Int.mul_assoc]
  | a :: r, i :: is, hi + 1, H, c, h, l, h1, h2, h3, h4 => by
    simp only [List.getElem?_cons_succ] at h1 h2 h3 h4
    obtain ⟨e1, e2⟩ := mult_adj_lin r is hi h1 h2 h3 h4
    simp only [List.set_cons_succ, List.eraseIdx_cons_succ, lin_cons_cons, prodL]
    constructor
    · rw [e2, e1]
    · rw [e2]

/-- ADJACENT dimensions (`lo = hi + 1`): `mult_dim` does not move any cell -/
theorem mult_offset_eq_adj {szs : List Int} {hi : Nat} {c H : Int} (hH : szs[hi]? = some H)
    (hc : szs[hi + 1]? = some c) (is : List Int) (o : Int)
    (h : viewOffset (denseDims szs) is 0 = .ok o) :
    viewOffset (denseDims ((szs.set hi (c * H)).eraseIdx (hi + 1)))
      (Rw.multIdxI hi (hi + 1) c is) 0 = .ok o := by
  obtain ⟨hb, ho⟩ := (dense_offset _ _ _ _).1 h
  have hl := hb.length
  obtain ⟨l1, _⟩ := List.getElem?_eq_some_iff.1 hH
  obtain ⟨l2, _⟩ := List.getElem?_eq_some_iff.1 hc
  have e1 : is[hi]? = some is[hi] := List.getElem?_eq_getElem (by omega)
  have e2 : is[hi + 1]? = some is[hi + 1] := List.getElem?_eq_getElem (by omega)
  rw [dense_offset]
  refine ⟨mult_InB hH hc hb, ?_⟩
  unfold Rw.multIdxI
  simp only [e1, e2]
  rw [(mult_adj_lin szs is hi hH hc e1 e2).1]
  exact ho

/-! ### non-vacuity: the instances on a concrete buffer `x : R[2, 6, 5]` -/

example : ∃ szs', evalCs (V := Unit) ⟨[], [], [], []⟩
      (Rw.divideShape 1 3 [Rw.litI 2, Rw.litI 6, Rw.litI 5]) = .ok szs' ∧
    checkSizes szs' = .ok () ∧
    ReidxGeom (denseDims [2, 6, 5]) (denseDims szs') (([2, 6, 5] : List Int).foldl (· * ·) 1).toNat
      (szs'.foldl (· * ·) 1).toNat (Rw.divideIdxI 1 3) (fun _ => True) :=
  divide_inst (n := 6) (by decide) rfl (by decide) rfl rfl

example : Rw.divideIdxI 1 3 [1, 5, 4] = [1, 1, 2, 4] := by decide

example : ∃ szs', evalCs (V := Unit) ⟨[], [], [], []⟩
      (Rw.multShape 0 2 [Rw.litI 2, Rw.litI 6, Rw.litI 5]) = .ok szs' ∧
    checkSizes szs' = .ok () ∧
    ReidxGeom (denseDims [2, 6, 5]) (denseDims szs') (([2, 6, 5] : List Int).foldl (· * ·) 1).toNat
      (szs'.foldl (· * ·) 1).toNat (Rw.multIdxI 0 2 5) (fun _ => True) :=
  mult_inst (H := 2) (by decide) rfl rfl rfl rfl

example : Rw.multIdxI 0 2 5 [1, 5, 4] = [9, 5] := by decide

end Exo.ReidxInst
