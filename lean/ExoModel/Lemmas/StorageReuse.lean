/-
  `reuse_buffer` (`DoReuseBuffer`), part 2: identity step, RENAME mode, the state-level theorem
  `reuse_buffer_state_partial`, and kernel-checked counter-examples.

  PARTIAL: the guard `Rw.reuseOkL y rest` allows `y` only as the buffer of data reads and as
  assign/reduce target (no window of `y`, no call argument `y`, no `stride(y,_)`); deadness of `x`
  is the syntactic `x ∉ namesL rest`.  The conclusion is the cross relation `XR` on the final states
  of the UNSCOPED runs of `alloc y sh :: rest` and `alloc y sh :: renameL y x rest` (same-layout
  trick; the allocation of `y` on the right is dead: `Rw.names_renameL` + `dead_alloc_refW`).
  A `BlockRefW` statement of the local rewrite is FALSE (buffer `bx` of `x` survives the block with
  different contents: old values of `x` on the left, values of `y` on the right).
-/
import ExoModel.Lemmas.StorageReuse1

set_option linter.unusedSectionVars false
set_option linter.unusedVariables false

namespace Exo.Stg.Reuse
open Exo Exo.Rw
variable {V : Type}

/-- `s'` with the buffers selected by `S` (and env, views) taken from `s` -/
def midSt (s s' : State V) (S : Nat → Prop) [DecidablePred S] : State V :=
  { env := s.env, views := s.views, heap := mix s.heap s'.heap S, cfg := s'.cfg }

theorem forall2_none : ∀ (l : List (Option V)),
    Forall₂ CellRefines (List.replicate l.length (none : Option V)) l
  | [] => .nil
  | a :: r => by
    rw [List.length_cons, List.replicate_succ]
    exact .cons (Or.inl rfl) (forall2_none r)

section
variable [DataAlg V] (ext : String → List V → V)
variable {x y : Sym} {N bx : Nat} {off : Int} {dims : List (Int × Int)}

/-- **identity step**: a statement that mentions neither `x` nor `y` -/
theorem XR.idStep {s s' : State V} (h : XR x y N bx off dims s s') (a : Stmt)
    (hn : ∀ z ∈ a.names, z ≠ x ∧ z ≠ y) :
    Fwd (XR x y N bx off dims) (execS ext a s) (execS ext a s') := by
  intro t ht
  obtain ⟨bo, be, hbo, hbe, hcr⟩ := h.cross
  have hN' : N < s'.heap.length := by rw [h.len]; exact h.hN
  obtain ⟨abx, hAbx⟩ : ∃ abx, s.heap[bx]? = some abx := ⟨_, List.getElem?_eq_getElem h.hbx⟩
  obtain ⟨bN, hBN⟩ : ∃ bN, s'.heap[N]? = some bN := ⟨_, List.getElem?_eq_getElem hN'⟩
  have r1 : Ref s (midSt s s' (fun i => i = N ∨ i = bx)) := by
    refine ⟨rfl, Nat.zero_le _, ?_, ?_, ViewsRel.refl 0 _ s.views, h.cfg⟩
    · show (mix _ _ _).length = s.heap.length + 0
      rw [mix_length, h.len]; rfl
    · intro b buf hb
      rw [shiftB_zero]
      show ∃ buf', (mix _ _ _)[b]? = some buf' ∧ _
      rw [mix_get _ h.len]
      by_cases hS : b = N ∨ b = bx
      · rw [if_pos hS]; exact ⟨buf, hb, Forall₂.refl CellRefines.refl buf⟩
      · rw [if_neg hS]
        exact h.bufs b buf (fun e => hS (Or.inl e)) (fun e => hS (Or.inr e)) hb
  have r2 : Reidx.Rel (fun z => z = y) N (fun p q => p = bo ∧ q = bN)
      { buf := N, off := off, dims := dims } { buf := N, off := off, dims := dims }
      (midSt s s' (fun i => i = N ∨ i = bx)) (midSt s s' (fun i => i = bx)) := by
    refine ⟨rfl, rfl, ⟨?_, ?_, ?_⟩, fun _ _ => rfl, ?_, ?_⟩
    · show (mix _ _ _).length = (mix _ _ _).length
      rw [mix_length, mix_length]
    · intro b hb
      show (mix _ _ _)[b]? = (mix _ _ _)[b]?
      rw [mix_get _ h.len, mix_get _ h.len]
      by_cases hbx : b = bx
      · rw [if_pos hbx, if_pos (Or.inr hbx)]
      · rw [if_neg hbx, if_neg (fun e => e.elim hb hbx)]
    · refine ⟨bo, bN, ?_, ?_, rfl, rfl⟩
      · show (mix _ _ _)[N]? = _
        rw [mix_get _ h.len, if_pos (Or.inl rfl)]; exact hbo
      · show (mix _ _ _)[N]? = _
        rw [mix_get _ h.len, if_neg h.ne]; exact hBN
    · intro z v hz hl
      have hl : lookupSym z s.views = some v := hl
      by_cases hzx : z = x
      · subst hzx
        rw [h.lx] at hl
        cases hl
        exact fun e => h.ne e.symm
      · exact (h.hid z v hzx hz hl).1
    · intro z hz
      subst hz
      exact ⟨h.ly, h.ly⟩
  have r3 : Reidx.Rel (fun z => z = x) bx (fun p q => p = abx ∧ q = be)
      { buf := bx, off := off, dims := dims } { buf := bx, off := off, dims := dims }
      (midSt s s' (fun i => i = bx)) s' := by
    refine ⟨h.env, rfl, ⟨?_, ?_, ?_⟩, fun z _ => h.views z, ?_, ?_⟩
    · show s'.heap.length = (mix _ _ _).length
      rw [mix_length]
    · intro b hb
      show s'.heap[b]? = (mix _ _ _)[b]?
      rw [mix_get _ h.len, if_neg hb]
    · refine ⟨abx, be, ?_, hbe, rfl, rfl⟩
      show (mix _ _ _)[bx]? = _
      rw [mix_get _ h.len, if_pos rfl]; exact hAbx
    · intro z v hz hl
      have hl : lookupSym z s.views = some v := hl
      by_cases hzy : z = y
      · subst hzy
        rw [h.ly] at hl
        cases hl
        exact h.ne
      · exact (h.hid z v hz hzy hl).2
    · intro z hz
      subst hz
      exact ⟨h.lx, h.lx'⟩
  obtain ⟨tm, htm, q1⟩ := (execS_mono ext a r1).ok_left ht
  obtain ⟨tm1, htm1, q2⟩ := (Reidx.execS_id ext N _ _ _ a _ _ _ (fun z hz => (hn z hz).2) r2).ok_left htm
  obtain ⟨t', ht', q3⟩ := (Reidx.execS_id ext bx _ _ _ a _ _ _ (fun z hz => (hn z hz).1) r3).ok_left htm1
  refine ⟨t', ht', ?_⟩
  have v1 : tm.views = t.views := q1.views_eq
  have lk2 : ∀ z, lookupSym z tm1.views = lookupSym z tm.views := fun z => by
    by_cases hz : z = y
    · have := q2.px z hz; rw [this.1, this.2]
    · exact q2.other z hz
  have lk3 : ∀ z, lookupSym z t'.views = lookupSym z tm1.views := fun z => by
    by_cases hz : z = x
    · have := q3.px z hz; rw [this.1, this.2]
    · exact q3.other z hz
  obtain ⟨c1, c2, hc1, hc2, hc3, hc4⟩ := q2.heap.big
  obtain ⟨d1, d2, hd1, hd2, hd3, hd4⟩ := q3.heap.big
  have L1 : t.heap.length = tm.heap.length := q1.heapLen
  have L2 : tm1.heap.length = tm.heap.length := q2.heap.len
  have L3 : t'.heap.length = tm1.heap.length := q3.heap.len
  have hNt : N < tm.heap.length := q2.heap.lt
  have hbxt : bx < tm1.heap.length := q3.heap.lt
  refine ⟨?_, ?_, ?_, ?_, ?_, ?_, h.ne, ?_, ?_, ?_, ?_, ?_⟩
  · rw [q3.env, q2.env, q1.env]
  · intro z; rw [lk3, lk2, v1]
  · have := q1.sim.cfg
    rw [q3.cfg, q2.cfg]; exact this
  · omega
  · omega
  · omega
  · intro b buf hb1 hb2 hb
    obtain ⟨buf', e1, e2⟩ := q1.sim.bufs b buf hb
    rw [shiftB_zero] at e1
    exact ⟨buf', by rw [q3.heap.other b hb2, q2.heap.other b hb1]; exact e1, e2⟩
  · have hNt' : N < t.heap.length := by omega
    obtain ⟨tN, e0⟩ : ∃ tN, t.heap[N]? = some tN := ⟨_, List.getElem?_eq_getElem hNt'⟩
    obtain ⟨bo', e1, e2⟩ := q1.sim.bufs N _ e0
    rw [shiftB_zero, hc1] at e1
    cases e1
    subst hc3
    subst hd4
    exact ⟨_, d2, e0, hd2, Forall₂.trans (R := CellRefines) (S := CellRefines) (T := CellRefines) (fun _ _ _ h1 h2 => cellRefines_trans h1 h2) e2 hcr⟩
  · rw [← v1, ← lk2]; exact (q3.px x rfl).1
  · rw [← v1]; exact (q2.px y rfl).1
  · intro z v hzx hzy hl
    rw [← v1] at hl
    exact ⟨q2.nb z v hzy hl, q3.nb z v hzx (by rw [lk2]; exact hl)⟩

mutual
/-- **RENAME mode**: `a` on the left, `renameS y x a` on the right -/
theorem execS_ren (x y : Sym) (N bx : Nat) (off : Int) (dims : List (Int × Int)) :
    ∀ (a : Stmt) (s s' : State V), reuseOkS y a = true → (∀ z ∈ a.names, z ≠ x) →
    XR x y N bx off dims s s' →
    Fwd (XR x y N bx off dims) (execS ext a s) (execS ext (renameS y x a) s')
  | .assign z idx rhs, s, s', hk, hn, h => by
    simp only [reuseOkS, Bool.and_eq_true] at hk
    simp only [renameS, execS]
    rw [renameEs_notin y x idx (notIn_iff.1 hk.1)]
    exact Fwd.bind (evalD_ren ext h rhs hk.2 (fun w hw => hn w (by simp [Stmt.names, hw])))
      (fun v v' _ _ hv => writeCell_ren h z idx (hn z (by simp [Stmt.names])) (fun _ _ _ => hv))
  | .reduce z idx rhs, s, s', hk, hn, h => by
    simp only [reuseOkS, Bool.and_eq_true] at hk
    simp only [renameS, execS]
    rw [renameEs_notin y x idx (notIn_iff.1 hk.1)]
    exact Fwd.bind (evalD_ren ext h rhs hk.2 (fun w hw => hn w (by simp [Stmt.names, hw])))
      (fun v v' _ _ hv => writeCell_ren h z idx (hn z (by simp [Stmt.names]))
        (fun a a' ha => CellRel.refines.lift2 _ _ _ _ _ ha hv))
  | .writecfg c f rhs true, s, s', hk, hn, h => by
    simp only [renameS, execS, ↓reduceIte]
    exact Fwd.bind (evalD_ren ext h rhs (by simpa [reuseOkS] using hk)
        (fun w hw => hn w (by simpa [Stmt.names] using hw)))
      (fun v v' _ _ hv => Fwd.ofPure
        (h.cfgWrite (c, f) (show CfgRel CellRefines (.data v) (.data v') from hv)))
  | .writecfg c f rhs false, s, s', hk, hn, h => by
    simp only [renameS, execS, Bool.false_eq_true, ↓reduceIte]
    rw [renameE_notin y x rhs (notIn_iff.1 (by simpa [reuseOkS] using hk)), evalC_xr h rhs]
    exact Fwd.bind_eq (fun v _ => Fwd.ofPure
      (h.cfgWrite (c, f) (show CfgRel CellRefines (.ctrl v) (.ctrl v) from rfl)))
  | .pass, s, s', _, _, h => by
    simp only [renameS, execS]; exact Fwd.ofPure h
  | .free _, s, s', _, _, h => by
    simp only [renameS, execS]; exact Fwd.ofPure h
  | .ite c t e, s, s', hk, hn, h => by
    simp only [reuseOkS, Bool.and_eq_true] at hk
    simp only [renameS, execS]
    rw [renameE_notin y x c (notIn_iff.1 hk.1), evalC_xr h c]
    refine Fwd.bind_eq (fun b _ => Fwd.ite (fun _ => ?_) (fun _ => ?_))
    · exact Fwd.map
        (execL_ren x y N bx off dims t s s' hk.2.1 (fun w hw => hn w (by simp [Stmt.names, hw])) h)
        (fun a b ha _ hab => h.leave hab (execL_scope ext t s a ha).2.1)
    · exact Fwd.map
        (execL_ren x y N bx off dims e s s' hk.2.2 (fun w hw => hn w (by simp [Stmt.names, hw])) h)
        (fun a b ha _ hab => h.leave hab (execL_scope ext e s a ha).2.1)
  | .loop i lo hi body par, s, s', hk, hn, h => by
    simp only [reuseOkS, Bool.and_eq_true] at hk
    have hi' := notIn_iff.1 hk.1
    simp only [renameS, execS]
    rw [renameE_notin y x lo (fun u hu => hi' u (by simp [hu])),
      renameE_notin y x hi (fun u hu => hi' u (by simp [hu])), evalC_xr h lo, evalC_xr h hi]
    refine Fwd.bind_eq (fun l _ => Fwd.bind_eq (fun hh _ =>
      Fwd.ite (fun _ => Fwd.ofThrowBind) (fun _ => ?_)))
    exact iterate_fwd (XR x y N bx off dims) _ _
      (fun v a b hab => Fwd.map
        (execL_ren x y N bx off dims body _ _ hk.2
          (fun w hw => hn w (by simp [Stmt.names, hw])) (hab.bind i v))
        (fun a1 b1 ha1 _ h1 => hab.leave h1 (execL_scope ext body _ a1 ha1).2.1))
      _ _ s s' h
  | .alloc z sh, s, s', hk, hn, h => by
    have hi := notIn_iff.1 (by simpa [reuseOkS] using hk)
    simp only [renameS]
    exact h.idStep ext _ (fun w hw => ⟨hn w hw, hi w (by simpa [Stmt.names] using hw)⟩)
  | .call f args, s, s', hk, hn, h => by
    have hi := notIn_iff.1 (by simpa [reuseOkS] using hk)
    simp only [renameS]
    rw [renameEs_notin y x args hi]
    exact h.idStep ext _ (fun w hw => ⟨hn w hw, hi w (by simpa [Stmt.names] using hw)⟩)
  | .window w rhs, s, s', hk, hn, h => by
    have hi := notIn_iff.1 (by simpa [reuseOkS] using hk)
    simp only [renameS]
    rw [renameE_notin y x rhs (fun u hu => hi u (by simp [hu]))]
    exact h.idStep ext _ (fun u hu => ⟨hn u hu, hi u (by simpa [Stmt.names] using hu)⟩)
theorem execL_ren (x y : Sym) (N bx : Nat) (off : Int) (dims : List (Int × Int)) :
    ∀ (ss : List Stmt) (s s' : State V), reuseOkL y ss = true → (∀ z ∈ namesL ss, z ≠ x) →
    XR x y N bx off dims s s' →
    Fwd (XR x y N bx off dims) (execL ext ss s) (execL ext (renameL y x ss) s')
  | [], s, s', _, _, h => by
    simp only [renameL, execL]; exact Fwd.ofPure h
  | a :: r, s, s', hk, hn, h => by
    simp only [reuseOkL, Bool.and_eq_true] at hk
    simp only [renameL, execL]
    exact Fwd.bind (execS_ren x y N bx off dims a s s' hk.1 (fun w hw => hn w (by simp [namesL, hw])) h)
      (fun s1 s1' _ _ h1 =>
        execL_ren x y N bx off dims r s1 s1' hk.2 (fun w hw => hn w (by simp [namesL, hw])) h1)
end

/-- **reuse_buffer, state level** (PARTIAL guard, see the file header): `x` is bound to the only
    view into its buffer `bx`, which has exactly the layout a fresh `y : T[sh]` gets; `x` is not
    mentioned in `rest`.  Every successful run of `alloc y sh :: rest` is matched by a run of
    `alloc y sh :: rest[y ↦ x]` (whose allocation is dead), final states related by `XR`: all
    buffers other than `y`'s (left, popped at the end of the block) and `bx` are refined, and the
    left contents of `y`'s buffer are refined by the right contents of `bx`. -/
theorem reuse_buffer_state_partial (x y : Sym) (sh : List Expr) (rest : List Stmt) (hxy : x ≠ y)
    (hx : ∀ z ∈ namesL rest, z ≠ x) (hok : reuseOkL y rest = true)
    {s s' t : State V} (hr : WRef s s') (bx : Nat) (szs : List Int) (b : List (Option V))
    (hlx : lookupSym x s.views = some { buf := bx, off := 0, dims := denseDims szs })
    (hsz : evalCs s sh = .ok szs)
    (hb : s.heap[bx]? = some b) (hbl : b.length = (szs.foldl (· * ·) 1).toNat)
    (hh : Hidden bx (fun z => z = x) s)
    (ht : execL ext (.alloc y sh :: rest) s = .ok t) :
    ∃ t', execL ext (.alloc y sh :: renameL y x rest) s' = .ok t' ∧
      XR x y s.heap.length bx 0 (denseDims szs) t t' := by
  simp only [execL] at ht ⊢
  obtain ⟨sa, hsa, ht⟩ := except_bind_ok_inv ht
  obtain ⟨szs', hsz', hpos⟩ := execS_alloc_ok ext hsa
  rw [hsz] at hsz'
  cases hsz'
  have hsz2 : evalCs s' sh = .ok szs := by
    rw [evalCs_sim hr.ref.sim sh (fun _ _ hx => hx)]; exact hsz
  rw [execS_alloc ext y sh s szs hsz hpos] at hsa
  cases hsa
  rw [execS_alloc ext y sh s' szs hsz2 hpos]
  have hlen : s'.heap.length = s.heap.length := hr.ref.heapLen.symm
  have hbx : bx < s.heap.length := (List.getElem?_eq_some_iff.1 hb).1
  obtain ⟨b', hb', hbb⟩ := hr.ref.sim.bufs bx b hb
  rw [shiftB_zero] at hb'
  refine execL_ren ext x y s.heap.length bx 0 (denseDims szs) rest _ _ hok hx ?_ t ht
  refine ⟨hr.ref.env, ?_, hr.ref.sim.cfg, ?_, ?_, ?_, fun e => by omega, ?_, ?_, ?_, ?_, ?_⟩
  · intro z
    simp only [lookupSym, hlen, hr.ref.views_eq]
  · simp [hlen]
  · simp
  · simp; omega
  · intro c buf hc1 hc2 hc
    simp only at hc ⊢
    have hlt : c < s.heap.length := by
      have := (List.getElem?_eq_some_iff.1 hc).1
      simp at this; omega
    rw [List.getElem?_append_left hlt] at hc
    obtain ⟨buf', e1, e2⟩ := hr.ref.sim.bufs c buf hc
    rw [shiftB_zero] at e1
    exact ⟨buf', by rw [List.getElem?_append_left (by omega)]; exact e1, e2⟩
  · refine ⟨List.replicate (szs.foldl (· * ·) 1).toNat none, b', ?_, ?_, ?_⟩
    · simp only
      rw [List.getElem?_append_right (Nat.le_refl _)]; simp
    · simp only
      rw [List.getElem?_append_left (by omega)]; exact hb'
    · have : (szs.foldl (· * ·) 1).toNat = b'.length := by rw [← hbb.length, hbl]
      rw [this]; exact forall2_none b'
  · simp only [lookupSym, if_neg hxy]; exact hlx
  · simp only [lookupSym, if_true]
  · intro z v hzx hzy hl
    simp only [lookupSym, if_neg hzy] at hl
    exact ⟨by have := hr.ok (z, v) (lookupSym_mem hl); simp at this; omega, hh.lookup hl hzx⟩

end

end Exo.Stg.Reuse

/-! ### kernel-checked counter-examples -/
namespace Exo.Stg
open Exo Exo.Rw

/-- second half of the same-layout trick: after the renaming the allocation of `y` is dead -/
theorem reuse_buffer_dead_alloc (x y : Sym) (sh : List Expr) (rest : List Stmt) (hxy : x ≠ y)
    (hok : reuseOkL y rest = true) :
    BlockRefW (.alloc y sh :: renameL y x rest) (renameL y x rest) :=
  dead_alloc_refW y sh _ (names_renameL hxy rest hok)

def ruX : Sym := ⟨"x", 1⟩
def ruY : Sym := ⟨"y", 2⟩
def ruZ : Sym := ⟨"z", 3⟩
def ruI : Sym := ⟨"i", 4⟩
def ruσ : State Int :=
  { env := [], views := [(ruZ, ⟨0, 0, [(1, 1)]⟩)], heap := [[some 0]], cfg := [] }

/-- the part of the block after `y : R` -/
def ruLiveRest : List Stmt :=
  [.assign ruY [] (.lit (.data 1 1)),
   .assign ruZ [.lit (.int 0)] (.binop .add (.read ruX []) (.read ruY []))]
/-- `x : R ; x = 5.0 ; y : R ; y = 1.0 ; z[0] = x + y` -/
def ruLiveBefore : List Stmt :=
  [.alloc ruX [], .assign ruX [] (.lit (.data 5 1)), .alloc ruY []] ++ ruLiveRest
/-- `x : R ; x = 5.0 ; x = 1.0 ; z[0] = x + x` -/
def ruLiveAfter : List Stmt :=
  [.alloc ruX [], .assign ruX [] (.lit (.data 5 1))] ++ renameL ruY ruX ruLiveRest

example : ruLiveAfter =
    [.alloc ruX [], .assign ruX [] (.lit (.data 5 1)), .assign ruX [] (.lit (.data 1 1)),
     .assign ruZ [.lit (.int 0)] (.binop .add (.read ruX []) (.read ruX []))] := by rfl
/-- the guard on `y` holds: only deadness of `x` fails -/
example : reuseOkL ruY ruLiveRest = true := by decide

/-- (a) `x` still LIVE after the allocation of `y`: `z[0]` is `6` before and `2` after -/
theorem reuse_buffer_live_unsound : ¬ BlockRefW ruLiveBefore ruLiveAfter := by
  intro h
  have h1 : (execB (fun _ _ => (0 : Int)) ruLiveBefore ruσ).toOption.map
      (fun o => heapGet o.heap (0, 0)) = some (some 6) := by decide
  have h2 : (execB (fun _ _ => (0 : Int)) ruLiveAfter ruσ).toOption.map
      (fun o => heapGet o.heap (0, 0)) = some (some 2) := by decide
  cases ho : execB (fun _ _ => (0 : Int)) ruLiveBefore ruσ with
  | error e => rw [ho] at h1; simp [Except.toOption] at h1
  | ok o =>
    obtain ⟨o', ho', r⟩ := h Int (fun _ _ => 0) ruσ ruσ o
      (WRef.refl (by unfold ViewsOk; decide)) ho
    rw [ho] at h1
    rw [ho'] at h2
    simp only [Except.toOption, Option.map_some, Option.some.injEq] at h1 h2
    have := r.ref.cells (0, 0)
    rw [h1, h2] at this
    revert this
    unfold CellRefines
    decide

def ruScopeRest : List Stmt :=
  [.assign ruY [] (.lit (.data 2 1)), .assign ruZ [.lit (.int 0)] (.read ruY [])]
/-- `for i in 0..1: (x : R ; x = 1.0) ; y : R ; y = 2.0 ; z[0] = y` -/
def ruScopeBefore : List Stmt :=
  [.loop ruI (.lit (.int 0)) (.lit (.int 1))
     [.alloc ruX [], .assign ruX [] (.lit (.data 1 1))] false, .alloc ruY []] ++ ruScopeRest
/-- `for i in 0..1: (x : R ; x = 1.0) ; x = 2.0 ; z[0] = x` -/
def ruScopeAfter : List Stmt :=
  [.loop ruI (.lit (.int 0)) (.lit (.int 1))
     [.alloc ruX [], .assign ruX [] (.lit (.data 1 1))] false] ++ renameL ruY ruX ruScopeRest

/-- (b) finding `reuse_buffer:target-allocation-in-another-scope`: the allocation of `x` sits in
    a deeper scope; after the renaming `x` is not in scope at the uses (the run fails with a scope
    error, the original succeeds) -/
theorem reuse_buffer_scope_unsound : ¬ BlockRefW ruScopeBefore ruScopeAfter := by
  intro h
  have h1 : (execB (fun _ _ => (0 : Int)) ruScopeBefore ruσ).toOption.isSome = true := by decide
  have h2 : (execB (fun _ _ => (0 : Int)) ruScopeAfter ruσ).toOption.isSome = false := by decide
  cases ho : execB (fun _ _ => (0 : Int)) ruScopeBefore ruσ with
  | error e => rw [ho] at h1; simp [Except.toOption] at h1
  | ok o =>
    obtain ⟨o', ho', _⟩ := h Int (fun _ _ => 0) ruσ ruσ o
      (WRef.refl (by unfold ViewsOk; decide)) ho
    rw [ho'] at h2
    simp [Except.toOption] at h2

end Exo.Stg

/-! ### the BLOCK form: `x` allocated at the head of the same block -/
namespace Exo.Stg.Reuse
open Exo Exo.Rw
variable {V : Type}

/-- leaving a scope that was entered below both special buffers: `XR` gives plain refinement -/
theorem XR.leave_ref {x y : Sym} {N bx : Nat} {off : Int} {dims : List (Int × Int)}
    {s s' t t' : State V} (h : XR x y N bx off dims t t') (hr : Ref s s')
    (h1 : s.heap.length ≤ bx) (h2 : s.heap.length ≤ N) :
    Ref (State.leave s t) (State.leave s' t') := by
  have hl : s'.heap.length = s.heap.length := hr.heapLen.symm
  refine ⟨hr.env, Nat.zero_le _, ?_, ?_, hr.sim.views, h.cfg⟩
  · show (t'.heap.take s'.heap.length).length = (t.heap.take s.heap.length).length + 0
    rw [List.length_take, List.length_take, hl, h.len]; rfl
  · intro b buf hb
    have hb : (t.heap.take s.heap.length)[b]? = some buf := hb
    rw [List.getElem?_take] at hb
    split at hb
    · rename_i hlt
      obtain ⟨buf', e1, e2⟩ := h.bufs b buf (by omega) (by omega) hb
      refine ⟨buf', ?_, e2⟩
      rw [shiftB_zero]
      show (t'.heap.take s'.heap.length)[b]? = some buf'
      rw [List.getElem?_take, hl, if_pos hlt]; exact e1
    · cases hb

end Exo.Stg.Reuse

namespace Exo.Stg
open Exo Exo.Rw

/-- **reuse_buffer, block form** (PARTIAL guard on `rest`, see the file header): `x` is allocated
    at the head of the block with positive literal extents, `mid` defines nothing at its top level
    (so at the allocation of `y` the only view into `x`'s buffer is `x` itself, whatever `mid` does
    with `x`), `x` is not mentioned after the allocation of `y`. -/
theorem reuse_buffer_block_partial (x y : Sym) (sh : List Expr) (mid rest : List Stmt)
    (hlit : posLits sh = true) (hxy : x ≠ y) (hmid : noDefs mid = true)
    (hx : ∀ z ∈ namesL rest, z ≠ x) (hok : reuseOkL y rest = true) :
    BlockRefW (.alloc x sh :: mid ++ .alloc y sh :: rest)
      (.alloc x sh :: mid ++ renameL y x rest) := by
  intro V _ ext s s' t hr ht
  obtain ⟨szs, hsz, hpos⟩ := posLits_eval sh hlit
  obtain ⟨t1, h1, rfl⟩ := execB_ok_inv ext ht
  have e1 : (Stmt.alloc x sh :: mid ++ Stmt.alloc y sh :: rest)
      = (Stmt.alloc x sh :: mid) ++ (Stmt.alloc y sh :: rest) := rfl
  rw [e1, execL_append] at h1
  obtain ⟨s1, hA, h2⟩ := except_bind_ok_inv h1
  obtain ⟨s1', hA', hr1⟩ := (exec_monoW ext _ hr).ok_left hA
  -- the state at the allocation of `y`
  have hA2 := hA
  simp only [execL] at hA2
  obtain ⟨sa, hsa, hm⟩ := except_bind_ok_inv hA2
  rw [execS_alloc ext x sh s szs (hsz V s) hpos] at hsa
  cases hsa
  have sc := (execL_scope ext mid _ s1 hm).2.2 (by simp [hmid])
  have hlx : lookupSym x s1.views
      = some { buf := s.heap.length, off := 0, dims := denseDims szs } := by
    rw [sc.1]; simp [lookupSym]
  have hshape := execL_shape ext mid _ s1 hm s.heap.length (by simp)
  rw [List.getElem?_append_right (Nat.le_refl _)] at hshape
  simp only [Nat.sub_self, List.getElem?_cons_zero, Option.map_some, List.length_replicate]
    at hshape
  have hh : Hidden s.heap.length (fun z => z = x) s1 := by
    intro p hp hbuf
    rw [sc.1] at hp
    rcases List.mem_cons.1 hp with rfl | hp
    · rfl
    · have := hr.ok p hp; omega
  cases hb : s1.heap[s.heap.length]? with
  | none => rw [hb] at hshape; cases hshape
  | some b =>
    rw [hb] at hshape
    have hbl : b.length = (szs.foldl (· * ·) 1).toNat := by simpa using hshape
    obtain ⟨t1', ht1', hX⟩ := Reuse.reuse_buffer_state_partial ext x y sh rest hxy hx hok hr1
      s.heap.length szs b hlx (hsz V s1) hb hbl hh h2
    -- the allocation of `y` on the right is dead
    obtain ⟨t2', ht2', hr2⟩ := reuse_buffer_dead_alloc x y sh rest hxy hok V ext s1' s1' _
      (WRef.refl hr1.ok') (execB_ok ext ht1')
    obtain ⟨t2, ht2, rfl⟩ := execB_ok_inv ext ht2'
    have hrun : execL ext (.alloc x sh :: mid ++ renameL y x rest) s' = .ok t2 := by
      have e2 : (Stmt.alloc x sh :: mid ++ renameL y x rest)
          = (Stmt.alloc x sh :: mid) ++ renameL y x rest := rfl
      rw [e2, execL_append, hA']; exact ht2
    have l1 := (execL_scope ext _ s s1 hA).2.1
    have l1' := (execL_scope ext _ s' s1' hA').2.1
    have l2 := (execL_scope ext _ s1 t1 h2).2.1
    have l2' := (execL_scope ext _ s1' t1' ht1').2.1
    refine ⟨State.leave s' t2, execB_ok ext hrun, ?_, hr.ok.leave (Nat.le_trans l1 l2)⟩
    have a1 : Ref (State.leave s t1) (State.leave s' t1') :=
      hX.leave_ref hr.ref (Nat.le_refl _) l1
    have a2 : Ref (State.leave s' (State.leave s1' t1')) (State.leave s' (State.leave s1' t2)) :=
      (Ref.refl s').leave hr2.ref (by rw [leave_heap_length s1' t1' l2']; exact l1')
    rw [leave_leave s' s1' t1' l1', leave_leave s' s1' t2 l1'] at a2
    exact a1.trans a2

end Exo.Stg

/-! ### the guarded local rewrite and the procedure-level corollary -/
namespace Exo.Rw
open Exo

/-- equal lists of integer literals (`Expr` has no `DecidableEq`) -/
def sameLits : List Expr → List Expr → Bool
  | [], [] => true
  | .lit (.int a) :: r, .lit (.int b) :: r' => decide (a = b) && sameLits r r'
  | _, _ => false

theorem sameLits_eq : ∀ (sh' sh : List Expr), sameLits sh' sh = true → sh' = sh := by
  intro sh'
  induction sh' with
  | nil =>
    intro sh h
    cases sh with
    | nil => rfl
    | cons _ _ => simp [sameLits] at h
  | cons e r ih =>
    intro sh h
    cases sh with
    | nil => cases e <;> simp [sameLits] at h
    | cons e' r' =>
      unfold sameLits at h
      split at h
      · rename_i h1 _; cases h1
      · rename_i a r1 b r2 h1 h2
        simp only [List.cons.injEq] at h1 h2
        obtain ⟨rfl, rfl⟩ := h1
        obtain ⟨rfl, rfl⟩ := h2
        simp only [Bool.and_eq_true, decide_eq_true_eq] at h
        rw [h.1, ih _ h.2]
      · simp at h

def reuseBufferGuard (x y : Sym) (sh sh' : List Expr) (mid rest : List Stmt) : Bool :=
  sameLits sh' sh && posLits sh && decide (x ≠ y) && noDefs mid && notIn x (namesL rest)
    && reuseOkL y rest

/-- acts on the block suffix that starts at `x : T[sh]`; `k` = number of statements between the
    allocation of `x` and the allocation `y : T[sh]` that is deleted -/
def reuseBufferBlock (k : Nat) : Local
  | .alloc x sh :: tl =>
    match tl.drop k with
    | .alloc y sh' :: rest =>
      if reuseBufferGuard x y sh sh' (tl.take k) rest then
        some (.alloc x sh :: tl.take k ++ renameL y x rest)
      else none
    | _ => none
  | _ => none

end Exo.Rw

namespace Exo.Stg
open Exo Exo.Rw

theorem reuseBufferBlock_sound (k : Nat) :
    ∀ ss r, reuseBufferBlock k ss = some r → BlockRefW ss r := by
  intro ss r h
  unfold reuseBufferBlock at h
  split at h
  · rename_i x sh tl
    split at h
    · rename_i y sh' rest hd
      split at h
      · rename_i hg
        cases h
        simp only [reuseBufferGuard, Bool.and_eq_true, decide_eq_true_eq] at hg
        obtain ⟨⟨⟨⟨⟨e, hlit⟩, hxy⟩, hmid⟩, hx⟩, hok⟩ := hg
        have e := sameLits_eq _ _ e
        subst e
        have := reuse_buffer_block_partial x y sh' (tl.take k) rest hlit hxy hmid
          (notIn_iff.1 hx) hok
        rw [← hd, List.cons_append, List.take_append_drop] at this
        exact this
      · cases h
    · cases h
  · cases h

/-- **reuse_buffer at any address** (PARTIAL guard) -/
theorem reuse_buffer_anywhere_partial (k : Nat) (path : Rw.Path) (body body' : List Stmt)
    (h : Rw.rewriteAt (reuseBufferBlock k) path body = some body') : BlockRefW body body' :=
  rewriteAt_refW _ (reuseBufferBlock_sound k) path body body' h

theorem reuse_buffer_equiv_partial (k : Nat) (path : Rw.Path) (body body' : List Stmt)
    (h : Rw.rewriteAt (reuseBufferBlock k) path body = some body') (nm : String)
    (args : List FnArg) (preds : List Expr) :
    EquivOn WellScoped (fun _ => False) (.mk nm args preds body) (.mk nm args preds body') :=
  equivOn_of_blockRefW (reuse_buffer_anywhere_partial k path body body' h) nm args preds

/-! non-vacuity: inside a loop body, `x : R[2]; x[0] = 1.0; z[0] = x[0]; y : R[2]; y[1] = 2.0;
    z[0] += y[1]` -/
def ruOkBody : List Stmt :=
  [.alloc ruX [.lit (.int 2)],
   .assign ruX [.lit (.int 0)] (.lit (.data 1 1)),
   .assign ruZ [.lit (.int 0)] (.read ruX [.lit (.int 0)]),
   .alloc ruY [.lit (.int 2)],
   .assign ruY [.lit (.int 1)] (.lit (.data 2 1)),
   .reduce ruZ [.lit (.int 0)] (.read ruY [.lit (.int 1)])]
def ruOkBody' : List Stmt :=
  [.alloc ruX [.lit (.int 2)],
   .assign ruX [.lit (.int 0)] (.lit (.data 1 1)),
   .assign ruZ [.lit (.int 0)] (.read ruX [.lit (.int 0)]),
   .assign ruX [.lit (.int 1)] (.lit (.data 2 1)),
   .reduce ruZ [.lit (.int 0)] (.read ruX [.lit (.int 1)])]
def ruOk : List Stmt := [.pass, .loop ruI (.lit (.int 0)) (.lit (.int 1)) ruOkBody false]
def ruOk' : List Stmt := [.pass, .loop ruI (.lit (.int 0)) (.lit (.int 1)) ruOkBody' false]

theorem ruOk_rewrites :
    Rw.rewriteAt (reuseBufferBlock 2) [.body 1, .body 0] ruOk = some ruOk' := by rfl

example : EquivOn WellScoped (fun _ => False) (.mk "p" [] [] ruOk) (.mk "p" [] [] ruOk') :=
  reuse_buffer_equiv_partial 2 _ _ _ ruOk_rewrites "p" [] []

/-- the original run succeeds on a concrete well-scoped state (the theorem is not vacuous there) -/
example : (execB (fun _ _ => (0 : Int)) ruOk ruσ).toOption.map (fun o => heapGet o.heap (0, 0))
    = some (some 3) := by decide

end Exo.Stg
