/-
  stage_mem, part 8: non-vacuity of the DENSE instance — a rank-2 buffer `x : R[3, 4]`, the window
  `x[1, 1:3]` (one point and one interval coordinate: the staging buffer has rank 1), a block that
  reads and writes the window; `stage_mem_dense_fwd_partial` instantiated at a concrete state with
  every hypothesis discharged.
-/
import ExoModel.Lemmas.StorageStage7

set_option linter.unusedSectionVars false
set_option linter.unusedVariables false

namespace Exo.Stg
open Exo Exo.ReidxInst
variable {V : Type}

theorem dc_dense_of {off : Int} {xszs : List Int} {wv : List WVal} {is : List Int} {c : Nat}
    (hb : InB xszs is) (hw : InW wv is) (hc : (c : Int) = off + lin xszs is) :
    DC (Cdense off xszs wv) (c : Int) := by
  unfold DC
  have e : ((c : Int)).toNat = c := by omega
  rw [e, cdense_some hb hw hc]
  rfl

theorem accIn_of_accInB' {M : Nat} {D : Int → Prop} {p : Nat → Bool} {t : List (Fp.Ev V)}
    (h : accInB M p t = true) (hp : ∀ c, p c = true → D (c : Int)) : AccIn M D t := by
  intro e he
  have aux : ∀ c : Nat × Nat, (c.1 != M || p c.2) = true → c.1 = M → D (c.2 : Int) := by
    intro c h1 hc
    simp only [hc, bne_self_eq_false, Bool.false_or] at h1
    exact hp c.2 h1
  cases e with
  | rd c => exact aux c (List.all_eq_true.1 h (.rd c) he)
  | wr c v => exact aux c (List.all_eq_true.1 h (.wr c v) he)
  | red c v => exact aux c (List.all_eq_true.1 h (.red c v) he)
  | crd _ => trivial
  | cwr _ _ => trivial

end Exo.Stg

namespace Exo.Stg.StageEx
open Exo Exo.ReidxInst

/-- the window `x[1, 1:3]` -/
def win2 : List WAcc := [.point (lit 1), .interval (lit 1) (lit 3)]
def wv2 : List WVal := [.pt 1, .iv 1 3]

/-- `y[0] = x[1,1] + x[1,2] ; x[1,2] = y[0]` -/
def ex2Before : List Stmt :=
  [.assign sY [lit 0] (.binop .add (.read sX [lit 1, lit 1]) (.read sX [lit 1, lit 2])),
   .assign sX [lit 1, lit 2] (.read sY [lit 0])]

def σ2 : State Int :=
  { env := [], views := [(sX, ⟨0, 0, [(3, 4), (4, 1)]⟩), (sY, ⟨1, 0, [(1, 1)]⟩)],
    heap := [[some 0, some 1, some 2, some 3, some 4, some 5, some 6, some 7, some 8, some 9,
              some 10, some 11], [none]], cfg := [] }

def ex2After : List Stmt :=
  (Rw.stageMemAll sX sXs win2 2 [sJ] false true true none none ex2Before).getD []

example : (execB ext0 ex2Before σ2).toOption.map (·.heap)
    = some [[some 0, some 1, some 2, some 3, some 4, some 5, some 11, some 7, some 8, some 9,
             some 10, some 11], [some 11]] := by decide +kernel

example : (execB ext0 ex2After σ2).toOption.map (·.heap)
    = some [[some 0, some 1, some 2, some 3, some 4, some 5, some 11, some 7, some 8, some 9,
             some 10, some 11], [some 11]] := by decide +kernel

theorem ex2_guard : Rw.stageGuard sX sXs win2 ex2Before = true := by decide

theorem ex2_syn : NestSyn win2 [sJ] := ⟨by decide, rfl, by decide, by decide⟩

theorem ex2_hyp : StageDenseHyp ext0 sX sXs win2 ex2Before σ2 ⟨0, 0, [(3, 4), (4, 1)]⟩ [3, 4] wv2 := by
  refine ⟨rfl, rfl, by decide, ?_, ?_, .pt rfl (.iv rfl rfl .nil), ?_, ?_, ?_⟩
  · intro b hb
    have e : b = [some 0, some 1, some 2, some 3, some 4, some 5, some 6, some 7, some 8, some 9,
        some 10, some 11] := (Option.some.inj hb).symm
    subst e
    decide
  · intro y v hy hl
    simp only [σ2, lookupSym] at hl
    split at hl
    · rename_i e; exact absurd e hy
    · split at hl
      · cases hl; decide
      · cases hl
  · exact ⟨⟨by decide, by decide⟩, ⟨by decide, by decide, by decide⟩, trivial⟩
  · intro L hL
    have hL' : L ∈ [(3 : Int) - 1] := hL
    simp only [List.mem_singleton] at hL'
    omega
  · refine accIn_of_accInB' (p := fun c => c == 5 || c == 6) (by decide +kernel) ?_
    intro c hc
    simp only [Bool.or_eq_true, beq_iff_eq] at hc
    rcases hc with rfl | rfl
    · exact dc_dense_of (is := [1, 1]) ⟨⟨by decide, by decide⟩, ⟨by decide, by decide⟩, trivial⟩
        ⟨rfl, ⟨by decide, by decide⟩, trivial⟩ (by decide)
    · exact dc_dense_of (is := [1, 2]) ⟨⟨by decide, by decide⟩, ⟨by decide, by decide⟩, trivial⟩
        ⟨rfl, ⟨by decide, by decide⟩, trivial⟩ (by decide)

/-- the dense block theorem instantiated (rank 2, point + interval, every hypothesis discharged) -/
theorem ex2_stage_fwd :
    Fwd Eq (execB ext0 (.alloc sXs (Rw.stageShape win2) :: (ex2Before ++ [])) σ2)
      (execB ext0 (.alloc sXs (Rw.stageShape win2) ::
        (Rw.stageLoad sX sXs win2 [sJ] false none ++
          (Rw.stageL sX sXs win2 ex2Before ++
            (Rw.stageStore sX sXs win2 [sJ] false none ++ [])))) σ2) :=
  stage_mem_dense_fwd_partial ext0 sX sXs win2 [sJ] ex2Before [] σ2
    (by unfold ViewsOk; decide) ex2_guard ex2_syn (fun _ h => by cases h) _ [3, 4] wv2 ex2_hyp

end Exo.Stg.StageEx
