/-
  Lock-step simulation of the reference semantics under a change of heap layout and of the
  poison level of cells (the machinery behind lift_alloc / sink_alloc / delete_buffer and behind
  refinement-based congruence).

  `Sim R N k X s s'` : `s'` is `s` with `k` extra buffers inserted at heap position `N` (buffer
  ids `≥ N` are shifted by `k`), possibly extra view bindings of names in `X`, cell contents and
  data configuration values related by `R`.

  Main theorem `execS_sim / execL_sim / execP_sim`: a statement that does not mention a name of
  `X` runs in lock step from `Sim`-related states (both runs fail, or both succeed with
  `Sim`-related results).  Instance `exec_mono`: `Ref = Sim CellRefines 0 0 (fun _ => False)`.
-/
import ExoModel.Equiv
import ExoModel.Lemmas.Exec
import ExoModel.Lemmas.Rewrites

set_option linter.unusedSectionVars false
set_option linter.unusedVariables false
namespace Exo
variable {V : Type}

/-! ### pointwise relation of two lists (core has no `List.Forall₂`) -/

inductive Forall₂ {α β : Type} (R : α → β → Prop) : List α → List β → Prop
  | nil : Forall₂ R [] []
  | cons {a b l l'} : R a b → Forall₂ R l l' → Forall₂ R (a :: l) (b :: l')

theorem Forall₂.length {α β : Type} {R : α → β → Prop} {l : List α} {l' : List β}
    (h : Forall₂ R l l') : l.length = l'.length := by
  induction h with
  | nil => rfl
  | cons _ _ ih => simp [ih]

theorem Forall₂.refl {α : Type} {R : α → α → Prop} (hr : ∀ a, R a a) : ∀ l : List α, Forall₂ R l l
  | [] => .nil
  | a :: l => .cons (hr a) (Forall₂.refl hr l)

theorem Forall₂.trans {α β γ : Type} {R : α → β → Prop} {S : β → γ → Prop} {T : α → γ → Prop}
    (hT : ∀ a b c, R a b → S b c → T a c) {l : List α} {l' : List β} {l'' : List γ}
    (h : Forall₂ R l l') (h' : Forall₂ S l' l'') : Forall₂ T l l'' := by
  induction h generalizing l'' with
  | nil => cases h'; exact .nil
  | cons hab _ ih =>
    cases h' with
    | cons hbc hl => exact .cons (hT _ _ _ hab hbc) (ih hl)

theorem Forall₂.imp {α β : Type} {R S : α → β → Prop} (hRS : ∀ a b, R a b → S a b)
    {l : List α} {l' : List β} (h : Forall₂ R l l') : Forall₂ S l l' := by
  induction h with
  | nil => exact .nil
  | cons hab _ ih => exact .cons (hRS _ _ hab) ih

theorem Forall₂.replicate {α β : Type} {R : α → β → Prop} {a : α} {b : β} (h : R a b) :
    ∀ n, Forall₂ R (List.replicate n a) (List.replicate n b)
  | 0 => .nil
  | n + 1 => by
    rw [List.replicate_succ, List.replicate_succ]
    exact .cons h (Forall₂.replicate h n)

theorem Forall₂.set {α β : Type} {R : α → β → Prop} {l : List α} {l' : List β}
    (h : Forall₂ R l l') {a : α} {b : β} (hab : R a b) (i : Nat) :
    Forall₂ R (l.set i a) (l'.set i b) := by
  induction h generalizing i with
  | nil => exact .nil
  | cons h1 h2 ih =>
    cases i with
    | zero => exact .cons hab h2
    | succ i => exact .cons h1 (ih i)

theorem Forall₂.get_join {R : Option V → Option V → Prop} (h0 : R none none)
    {l l' : List (Option V)} (h : Forall₂ R l l') (i : Nat) :
    R (l[i]?).join (l'[i]?).join := by
  induction h generalizing i with
  | nil => simpa using h0
  | cons h1 _ ih =>
    cases i with
    | zero => simpa using h1
    | succ i => simpa using ih i

/-! ### relations on cell contents -/

/-- relation on cell contents that is closed under everything data evaluation does -/
structure CellRel (R : Option V → Option V → Prop) : Prop where
  none_none : R none none
  some_refl : ∀ v, R (some v) (some v)
  lift2 : ∀ (f : V → V → V) a a' b b', R a a' → R b b' → R (lift2 f a b) (lift2 f a' b')
  map : ∀ (g : V → V) a a', R a a' → R (a.map g) (a'.map g)
  allSome : ∀ (F : List V → V) vs vs', Forall₂ R vs vs' →
    R ((allSome vs).map F) ((allSome vs').map F)

theorem CellRel.eq : CellRel (V := V) Eq := by
  refine ⟨rfl, fun _ => rfl, ?_, ?_, ?_⟩
  · intro f a a' b b' h1 h2; rw [h1, h2]
  · intro g a a' h; rw [h]
  · intro F vs vs' h
    have : vs = vs' := by
      induction h with
      | nil => rfl
      | cons h1 _ ih => rw [h1, ih]
    rw [this]

theorem allSome_refines {vs vs' : List (Option V)} (h : Forall₂ CellRefines vs vs') :
    allSome vs = none ∨ vs = vs' := by
  induction h with
  | nil => right; rfl
  | @cons a b l l' h1 _ ih =>
    rcases h1 with h1 | h1
    · left; subst h1; rfl
    · subst h1
      rcases ih with ih | ih
      · left
        cases a with
        | none => rfl
        | some v => simp [allSome, ih]
      · right; rw [ih]

theorem CellRel.refines : CellRel (V := V) CellRefines := by
  refine ⟨Or.inr rfl, fun _ => Or.inr rfl, ?_, ?_, ?_⟩
  · intro f a a' b b' h1 h2
    rcases h1 with h1 | h1
    · left; subst h1; cases b <;> rfl
    · subst h1
      rcases h2 with h2 | h2
      · left; subst h2; cases a <;> rfl
      · subst h2; right; rfl
  · intro g a a' h
    rcases h with h | h
    · left; subst h; rfl
    · subst h; right; rfl
  · intro F vs vs' h
    rcases allSome_refines h with h | h
    · left; rw [h]; rfl
    · right; rw [h]

theorem allSome_refinedBy {vs vs' : List (Option V)}
    (h : Forall₂ (fun a b => CellRefines b a) vs vs') : allSome vs' = none ∨ vs' = vs := by
  induction h with
  | nil => right; rfl
  | @cons a b l l' h1 _ ih =>
    rcases h1 with h1 | h1
    · left; subst h1; rfl
    · subst h1
      rcases ih with ih | ih
      · left
        cases b with
        | none => rfl
        | some v => simp [allSome, ih]
      · right; rw [ih]

theorem CellRel.refinedBy : CellRel (V := V) (fun a b => CellRefines b a) := by
  refine ⟨Or.inr rfl, fun _ => Or.inr rfl, ?_, ?_, ?_⟩
  · intro f a a' b b' h1 h2
    rcases h1 with h1 | h1
    · left; subst h1; cases b' <;> rfl
    · subst h1
      rcases h2 with h2 | h2
      · left; subst h2; cases a' <;> rfl
      · subst h2; right; rfl
  · intro g a a' h
    rcases h with h | h
    · left; subst h; rfl
    · subst h; right; rfl
  · intro F vs vs' h
    rcases allSome_refinedBy h with h | h
    · left; rw [h]; rfl
    · right; rw [h]

/-! ### shifting buffer ids -/

/-- buffer ids `≥ N` move up by `k` -/
def shiftB (N k b : Nat) : Nat := if b < N then b else b + k

def View.shift (N k : Nat) (v : View) : View := { v with buf := shiftB N k v.buf }

@[simp] theorem View.shift_buf (N k : Nat) (v : View) : (v.shift N k).buf = shiftB N k v.buf := rfl
@[simp] theorem View.shift_off (N k : Nat) (v : View) : (v.shift N k).off = v.off := rfl
@[simp] theorem View.shift_dims (N k : Nat) (v : View) : (v.shift N k).dims = v.dims := rfl

theorem shiftB_inj {N k a b : Nat} : shiftB N k a = shiftB N k b ↔ a = b := by
  unfold shiftB; split <;> split <;> omega

theorem shiftB_lt_of_lt {N k b L : Nat} (h : b < L) : shiftB N k b < L + k := by
  unfold shiftB; split <;> omega

theorem shiftB_len {N k L : Nat} (h : N ≤ L) : shiftB N k L = L + k := by
  unfold shiftB; split <;> omega

theorem shiftB_ge {N k L b : Nat} (hN : N ≤ L) (h : L ≤ b) : L + k ≤ shiftB N k b := by
  unfold shiftB; split <;> omega

@[simp] theorem shiftB_zero (N b : Nat) : shiftB N 0 b = b := by
  unfold shiftB; split <;> omega

@[simp] theorem View.shift_zero (N : Nat) (v : View) : v.shift N 0 = v := by
  cases v; simp [View.shift]

/-- the right-hand views are the left-hand ones with shifted buffer ids, plus possibly extra
    bindings of names in `X` -/
inductive ViewsRel (N k : Nat) (X : Sym → Prop) : List (Sym × View) → List (Sym × View) → Prop
  | nil : ViewsRel N k X [] []
  | cons (y v) {vs vs'} : ViewsRel N k X vs vs' →
      ViewsRel N k X ((y, v) :: vs) ((y, v.shift N k) :: vs')
  | extra (x vx) {vs vs'} : X x → ViewsRel N k X vs vs' → ViewsRel N k X vs ((x, vx) :: vs')

theorem ViewsRel.lookup {N k : Nat} {X : Sym → Prop} {vs vs' : List (Sym × View)}
    (h : ViewsRel N k X vs vs') {y : Sym} (hy : ¬ X y) :
    lookupSym y vs' = (lookupSym y vs).map (View.shift N k) := by
  induction h with
  | nil => rfl
  | cons z v _ ih =>
    simp only [lookupSym]
    by_cases hz : y = z
    · simp [hz]
    · simp [hz, ih]
  | extra x vx hx _ ih =>
    simp only [lookupSym]
    have : y ≠ x := fun e => hy (e ▸ hx)
    simp [this, ih]

def shiftViews (N k : Nat) (cv : List (Sym × View)) : List (Sym × View) :=
  cv.map (fun p => (p.1, p.2.shift N k))

theorem ViewsRel.shiftViews (N k : Nat) (X : Sym → Prop) :
    ∀ cv : List (Sym × View), ViewsRel N k X cv (shiftViews N k cv)
  | [] => .nil
  | (y, v) :: r => .cons y v (ViewsRel.shiftViews N k X r)

theorem ViewsRel.refl (N : Nat) (X : Sym → Prop) : ∀ vs : List (Sym × View), ViewsRel N 0 X vs vs
  | [] => .nil
  | (y, v) :: r => by
    have := ViewsRel.cons (N := N) (k := 0) (X := X) y v (ViewsRel.refl N X r)
    rwa [View.shift_zero] at this

theorem ViewsRel.eq_of_false {N : Nat} {vs vs' : List (Sym × View)}
    (h : ViewsRel N 0 (fun _ => False) vs vs') : vs' = vs := by
  induction h with
  | nil => rfl
  | cons y v _ ih => rw [ih, View.shift_zero]
  | extra x vx hx _ _ => exact hx.elim

theorem noAlias_shiftViews (N k : Nat) : ∀ cv : List (Sym × View),
    noAlias (shiftViews N k cv) = noAlias cv
  | [] => rfl
  | (y, v) :: r => by
    have ih := noAlias_shiftViews N k r
    simp only [shiftViews, List.map_cons, noAlias] at ih ⊢
    rw [ih]
    congr 1
    rw [List.all_map]
    congr 1
    funext w
    simp [shiftB_inj]

/-! ### configuration -/

def CfgRel (R : Option V → Option V → Prop) : CfgVal V → CfgVal V → Prop
  | .ctrl a, .ctrl b => a = b
  | .data a, .data b => R a b
  | _, _ => False

abbrev CfgsRel (R : Option V → Option V → Prop)
    (c c' : List ((String × String) × CfgVal V)) : Prop :=
  Forall₂ (fun a b => a.1 = b.1 ∧ CfgRel R a.2 b.2) c c'

theorem lookupCfg_rel {R : Option V → Option V → Prop} {c c' : List ((String × String) × CfgVal V)}
    (h : CfgsRel R c c') (key : String × String) :
    (lookupCfg key c = none ∧ lookupCfg key c' = none) ∨
      ∃ v v', lookupCfg key c = some v ∧ lookupCfg key c' = some v' ∧ CfgRel R v v' := by
  induction h with
  | nil => left; exact ⟨rfl, rfl⟩
  | @cons a b l l' hab _ ih =>
    obtain ⟨k1, v1⟩ := a
    obtain ⟨k2, v2⟩ := b
    obtain ⟨hk, hv⟩ := hab
    simp only at hk hv
    subst hk
    simp only [lookupCfg]
    by_cases hkk : key = k1
    · right; exact ⟨v1, v2, by simp [hkk], by simp [hkk], hv⟩
    · simp only [if_neg hkk]; exact ih

theorem setCfg_rel {R : Option V → Option V → Prop} {c c' : List ((String × String) × CfgVal V)}
    (h : CfgsRel R c c') (key : String × String) {v v' : CfgVal V} (hv : CfgRel R v v') :
    CfgsRel R (setCfg key v c) (setCfg key v' c') := by
  induction h with
  | nil => exact .cons ⟨rfl, hv⟩ .nil
  | @cons a b l l' hab hl ih =>
    obtain ⟨k1, v1⟩ := a
    obtain ⟨k2, v2⟩ := b
    obtain ⟨hk, hv1⟩ := hab
    simp only at hk hv1
    subst hk
    simp only [setCfg]
    by_cases hkk : key = k1
    · rw [if_pos hkk, if_pos hkk]; exact .cons ⟨rfl, hv⟩ hl
    · rw [if_neg hkk, if_neg hkk]; exact .cons ⟨rfl, hv1⟩ ih

/-! ### the simulation relation -/

/-- `s'` is `s` with `k` extra buffers inserted at heap position `N`, contents related by `R` -/
structure Sim (R : Option V → Option V → Prop) (N k : Nat) (X : Sym → Prop) (s s' : State V) :
    Prop where
  env : s'.env = s.env
  le : N ≤ s.heap.length
  len : s'.heap.length = s.heap.length + k
  bufs : ∀ b buf, s.heap[b]? = some buf →
    ∃ buf', s'.heap[shiftB N k b]? = some buf' ∧ Forall₂ R buf buf'
  views : ViewsRel N k X s.views s'.views
  cfg : Forall₂ (fun a b => a.1 = b.1 ∧ CfgRel R a.2 b.2) s.cfg s'.cfg

/-- both fail, or both succeed with related results -/
def Lock {α β : Type} (Q : α → β → Prop) : Except Err α → Except Err β → Prop
  | .ok a, .ok b => Q a b
  | .error _, .error _ => True
  | _, _ => False

section LockLemmas
variable {α β γ δ : Type} {Q : α → β → Prop} {Q' : γ → δ → Prop}

theorem Lock.ofPure {a : α} {b : β} (h : Q a b) : Lock Q (pure a) (pure b) := h

theorem Lock.ofThrow {e e' : Err} : Lock Q (throw e) (throw e') := trivial

theorem Lock.ofError {e e' : Err} : Lock Q (.error e) (.error e') := trivial

theorem Lock.ofThrowBind {e e' : Err} {f : γ → Except Err α} {g : δ → Except Err β} :
    Lock Q (throw e >>= f) (throw e' >>= g) := trivial

theorem Lock.bind {r : Except Err α} {r' : Except Err β} {f : α → Except Err γ}
    {g : β → Except Err δ} (h : Lock Q r r')
    (hf : ∀ a b, r = .ok a → r' = .ok b → Q a b → Lock Q' (f a) (g b)) :
    Lock Q' (r >>= f) (r' >>= g) := by
  cases r with
  | error e =>
    cases r' with
    | error e' => exact trivial
    | ok b => exact False.elim h
  | ok a =>
    cases r' with
    | error e' => exact False.elim h
    | ok b => exact hf a b rfl rfl h

theorem Lock.bind_eq {r : Except Err α} {f : α → Except Err γ} {g : α → Except Err δ}
    (hf : ∀ a, r = .ok a → Lock Q' (f a) (g a)) : Lock Q' (r >>= f) (r >>= g) := by
  cases r with
  | error e => exact trivial
  | ok a => exact hf a rfl

theorem Lock.map {r : Except Err α} {r' : Except Err β} {f : α → γ} {g : β → δ}
    (h : Lock Q r r') (hf : ∀ a b, r = .ok a → r' = .ok b → Q a b → Q' (f a) (g b)) :
    Lock Q' (r.map f) (r'.map g) := by
  cases r with
  | error e =>
    cases r' with
    | error e' => exact trivial
    | ok b => exact False.elim h
  | ok a =>
    cases r' with
    | error e' => exact False.elim h
    | ok b => exact hf a b rfl rfl h

theorem Lock.ite {c : Prop} [Decidable c] {a b : Except Err α} {a' b' : Except Err β}
    (h1 : c → Lock Q a a') (h2 : ¬ c → Lock Q b b') :
    Lock Q (if c then a else b) (if c then a' else b') := by
  by_cases hc : c
  · rw [if_pos hc, if_pos hc]; exact h1 hc
  · rw [if_neg hc, if_neg hc]; exact h2 hc

theorem Lock.of_map {r : Except Err α} (f : α → β) : Lock (fun a b => b = f a) r (r.map f) := by
  cases r with
  | error e => exact trivial
  | ok a => exact rfl

theorem Lock.ok_left {r : Except Err α} {r' : Except Err β} (h : Lock Q r r') {a : α}
    (ha : r = .ok a) : ∃ b, r' = .ok b ∧ Q a b := by
  subst ha
  cases r' with
  | error e => exact False.elim h
  | ok b => exact ⟨b, rfl, h⟩

theorem Lock.ok_right {r : Except Err α} {r' : Except Err β} (h : Lock Q r r') {b : β}
    (hb : r' = .ok b) : ∃ a, r = .ok a ∧ Q a b := by
  subst hb
  cases r with
  | error e => exact False.elim h
  | ok a => exact ⟨a, rfl, h⟩

theorem Lock.imp {Q₂ : α → β → Prop} {r : Except Err α} {r' : Except Err β} (h : Lock Q r r')
    (hq : ∀ a b, Q a b → Q₂ a b) : Lock Q₂ r r' := by
  cases r with
  | error e =>
    cases r' with
    | error e' => exact trivial
    | ok b => exact False.elim h
  | ok a =>
    cases r' with
    | error e' => exact False.elim h
    | ok b => exact hq a b h

end LockLemmas

end Exo

/-! ### names mentioned by expressions and statements -/
namespace Exo

mutual
/-- every `Sym` occurring in the expression -/
def Expr.names : Expr → List Sym
  | .read x idx => x :: namesEs idx
  | .lit _ => []
  | .usub e => e.names
  | .binop _ a b => a.names ++ b.names
  | .extern _ args => namesEs args
  | .win x acc => x :: namesWs acc
  | .stride x _ => [x]
  | .readcfg _ _ => []
def namesEs : List Expr → List Sym
  | [] => []
  | e :: r => e.names ++ namesEs r
def WAcc.names : WAcc → List Sym
  | .interval lo hi => lo.names ++ hi.names
  | .point e => e.names
def namesWs : List WAcc → List Sym
  | [] => []
  | a :: r => a.names ++ namesWs r
end

/-- names occurring in call arguments -/
abbrev namesOfArgs (args : List Expr) : List Sym := namesEs args

mutual
/-- every `Sym` a statement mentions (callee bodies are not entered) -/
def Stmt.names : Stmt → List Sym
  | .assign x idx rhs => x :: (namesEs idx ++ rhs.names)
  | .reduce x idx rhs => x :: (namesEs idx ++ rhs.names)
  | .writecfg _ _ rhs _ => rhs.names
  | .pass => []
  | .ite c t e => c.names ++ (namesL t ++ namesL e)
  | .loop i lo hi body _ => i :: (lo.names ++ (hi.names ++ namesL body))
  | .alloc x shape => x :: namesEs shape
  | .free x => [x]
  | .call _ args => namesEs args
  | .window x rhs => x :: rhs.names
def namesL : List Stmt → List Sym
  | [] => []
  | s :: r => s.names ++ namesL r
end

theorem namesL_append (a b : List Stmt) : namesL (a ++ b) = namesL a ++ namesL b := by
  induction a with
  | nil => rfl
  | cons s r ih => simp [namesL, ih]

end Exo

/-! ### evaluators under `Sim` -/
namespace Exo
variable {V : Type} {R : Option V → Option V → Prop} {N k : Nat} {X : Sym → Prop}
  {s s' : State V}

theorem Sim.lookup (h : Sim R N k X s s') {y : Sym} (hy : ¬ X y) :
    lookupSym y s'.views = (lookupSym y s.views).map (View.shift N k) :=
  h.views.lookup hy

theorem Sim.heap_none (h : Sim R N k X s s') {b : Nat} (hb : s.heap[b]? = none) :
    s'.heap[shiftB N k b]? = none := by
  rw [List.getElem?_eq_none_iff] at hb ⊢
  have h1 := h.len
  have h2 := h.le
  unfold shiftB; split <;> omega

theorem Sim.bind (h : Sim R N k X s s') (i : Sym) (v : Int) :
    Sim R N k X (s.bind i v) (s'.bind i v) :=
  ⟨by simp [State.bind, h.env], h.le, h.len, h.bufs, h.views, h.cfg⟩

theorem Sim.bindView (h : Sim R N k X s s') (x : Sym) (v : View) :
    Sim R N k X (s.bindView x v) (s'.bindView x (v.shift N k)) :=
  ⟨h.env, h.le, h.len, h.bufs, ViewsRel.cons x v h.views, h.cfg⟩

/-- only the control environment differs -/
theorem Sim.withEnv {a a' b b' : State V} (h : Sim R N k X a a') (he : b'.env = b.env)
    (hv : b.views = a.views) (hv' : b'.views = a'.views) (hh : b.heap = a.heap)
    (hh' : b'.heap = a'.heap) (hc : b.cfg = a.cfg) (hc' : b'.cfg = a'.cfg) :
    Sim R N k X b b' := by
  refine ⟨he, ?_, ?_, ?_, ?_, ?_⟩
  · rw [hh]; exact h.le
  · rw [hh, hh']; exact h.len
  · rw [hh, hh']; exact h.bufs
  · rw [hv, hv']; exact h.views
  · rw [hc, hc']; exact h.cfg

theorem Sim.leave {Y : Sym → Prop} {σ σ' t t' : State V} (hin : Sim R N k X σ σ')
    (hout : Sim R N k Y t t') (hle : σ.heap.length ≤ t.heap.length) :
    Sim R N k X (State.leave σ t) (State.leave σ' t') := by
  refine ⟨hin.env, ?_, ?_, ?_, hin.views, hout.cfg⟩
  · show N ≤ (t.heap.take σ.heap.length).length
    rw [List.length_take]; have := hin.le; omega
  · show (t'.heap.take σ'.heap.length).length = (t.heap.take σ.heap.length).length + k
    rw [List.length_take, List.length_take, hin.len, hout.len]; omega
  · intro b buf hb
    have hb' : (t.heap.take σ.heap.length)[b]? = some buf := hb
    rw [List.getElem?_take] at hb'
    split at hb'
    · rename_i hlt
      obtain ⟨buf', h1, h2⟩ := hout.bufs b buf hb'
      refine ⟨buf', ?_, h2⟩
      show (t'.heap.take σ'.heap.length)[shiftB N k b]? = some buf'
      rw [List.getElem?_take, hin.len, if_pos (shiftB_lt_of_lt hlt)]; exact h1
    · cases hb'

theorem Sim.alloc (hR : CellRel R) (h : Sim R N k X s s') (x : Sym) (n : Nat)
    (ds : List (Int × Int)) :
    Sim R N k X
      { s with heap := s.heap ++ [List.replicate n none],
               views := (x, { buf := s.heap.length, off := 0, dims := ds }) :: s.views }
      { s' with heap := s'.heap ++ [List.replicate n none],
                views := (x, { buf := s'.heap.length, off := 0, dims := ds }) :: s'.views } := by
  refine ⟨h.env, ?_, ?_, ?_, ?_, h.cfg⟩
  · have := h.le; simp only [List.length_append, List.length_cons, List.length_nil]; omega
  · have := h.len; simp only [List.length_append, List.length_cons, List.length_nil]; omega
  · intro b buf hb
    simp only at hb ⊢
    by_cases hlt : b < s.heap.length
    · rw [List.getElem?_append_left hlt] at hb
      obtain ⟨buf', h1, h2⟩ := h.bufs b buf hb
      refine ⟨buf', ?_, h2⟩
      rw [List.getElem?_append_left (by rw [h.len]; exact shiftB_lt_of_lt hlt)]; exact h1
    · have hge : s.heap.length ≤ b := Nat.le_of_not_lt hlt
      rw [List.getElem?_append_right hge] at hb
      cases hd : b - s.heap.length with
      | succ m => rw [hd] at hb; simp at hb
      | zero =>
        rw [hd] at hb
        simp at hb
        subst hb
        have hbe : b = s.heap.length := by omega
        subst hbe
        refine ⟨List.replicate n none, ?_, Forall₂.replicate hR.none_none n⟩
        rw [shiftB_len h.le, ← h.len, List.getElem?_append_right (Nat.le_refl _)]; simp
  · have e : ({ buf := s'.heap.length, off := 0, dims := ds } : View)
        = View.shift N k { buf := s.heap.length, off := 0, dims := ds } := by
      simp [View.shift, shiftB_len h.le, h.len]
    show ViewsRel N k X (_ :: s.views) (_ :: s'.views)
    rw [e]; exact ViewsRel.cons x _ h.views

theorem Sim.heapWrite (h : Sim R N k X s s') (c : Nat × Nat) {v v' : Option V} (hv : R v v') :
    Sim R N k X { s with heap := heapSet s.heap c v }
      { s' with heap := heapSet s'.heap (shiftB N k c.1, c.2) v' } := by
  refine ⟨h.env, ?_, ?_, ?_, h.views, h.cfg⟩
  · show N ≤ (heapSet s.heap c v).length
    simp only [heapSet, List.length_modify]; exact h.le
  · show (heapSet s'.heap (shiftB N k c.1, c.2) v').length = (heapSet s.heap c v).length + k
    simp only [heapSet, List.length_modify]; exact h.len
  · intro b buf hb
    simp only [heapSet, List.getElem?_modify] at hb ⊢
    cases hsb : s.heap[b]? with
    | none => rw [hsb] at hb; simp at hb
    | some buf0 =>
      rw [hsb] at hb
      obtain ⟨buf0', h1, h2⟩ := h.bufs b buf0 hsb
      rw [h1]
      by_cases hcb : c.1 = b
      · have : shiftB N k c.1 = shiftB N k b := by rw [hcb]
        simp [hcb] at hb ⊢
        subst hb
        exact h2.set hv _
      · have : ¬ shiftB N k c.1 = shiftB N k b := fun e => hcb (shiftB_inj.1 e)
        simp [hcb, this] at hb ⊢
        subst hb
        exact h2

theorem Sim.cfgWrite (h : Sim R N k X s s') (key : String × String) {v v' : CfgVal V}
    (hv : CfgRel R v v') :
    Sim R N k X { s with cfg := setCfg key v s.cfg } { s' with cfg := setCfg key v' s'.cfg } :=
  ⟨h.env, h.le, h.len, h.bufs, h.views, setCfg_rel h.cfg key hv⟩

theorem heapGet_sim (hR : CellRel R) (h : Sim R N k X s s') (c : Nat × Nat) :
    R (heapGet s.heap c) (heapGet s'.heap (shiftB N k c.1, c.2)) := by
  unfold heapGet
  cases hb : s.heap[c.1]? with
  | none => simp only [h.heap_none hb]; exact hR.none_none
  | some buf =>
    obtain ⟨buf', h1, h2⟩ := h.bufs _ _ hb
    simp only [h1]
    exact h2.get_join hR.none_none _

theorem cellOf_sim (h : Sim R N k X s s') (v : View) (is : List Int) :
    Lock (fun c c' => c' = (shiftB N k c.1, c.2)) (cellOf s.heap v is)
      (cellOf s'.heap (v.shift N k) is) := by
  simp only [cellOf, View.shift_dims, View.shift_off, View.shift_buf]
  refine Lock.bind_eq (fun o _ => ?_)
  cases hb : s.heap[v.buf]? with
  | none => simp only [h.heap_none hb]; exact Lock.ofThrow
  | some buf =>
    obtain ⟨buf', h1, h2⟩ := h.bufs _ _ hb
    simp only [h1, ← h2.length]
    exact Lock.ite (fun _ => rfl) (fun _ => Lock.ofThrow)

theorem evalC_sim (h : Sim R N k X s s') : ∀ (e : Expr), (∀ y ∈ e.names, ¬ X y) →
    evalC s' e = evalC s e
  | .read x [], _ => by simp [evalC, h.env]
  | .read x (_ :: _), _ => by simp [evalC]
  | .lit (.int n), _ => by simp [evalC]
  | .lit (.bool n), _ => by simp [evalC]
  | .lit (.data _ _), _ => by simp [evalC]
  | .usub e, hn => by
    simp only [evalC]
    rw [evalC_sim h e (fun y hy => hn y (by simpa [Expr.names] using hy))]
  | .binop op a b, hn => by
    simp only [evalC]
    rw [evalC_sim h a (fun y hy => hn y (by simp [Expr.names, hy])),
        evalC_sim h b (fun y hy => hn y (by simp [Expr.names, hy]))]
  | .stride x d, hn => by
    simp only [evalC]
    rw [h.lookup (hn x (by simp [Expr.names]))]
    cases lookupSym x s.views <;> simp
  | .readcfg c f, _ => by
    simp only [evalC]
    rcases lookupCfg_rel h.cfg (c, f) with ⟨h1, h2⟩ | ⟨v, v', h1, h2, hr⟩
    · rw [h1, h2]
    · rw [h1, h2]
      cases v with
      | ctrl a =>
        cases v' with
        | ctrl b => have : a = b := hr; subst this; rfl
        | data b => exact False.elim hr
      | data a =>
        cases v' with
        | ctrl b => exact False.elim hr
        | data b => rfl
  | .extern _ _, _ => by simp [evalC]
  | .win _ _, _ => by simp [evalC]

theorem evalCs_sim (h : Sim R N k X s s') : ∀ (es : List Expr), (∀ y ∈ namesEs es, ¬ X y) →
    evalCs s' es = evalCs s es
  | [], _ => rfl
  | e :: r, hn => by
    simp only [evalCs]
    rw [evalC_sim h e (fun y hy => hn y (by simp [namesEs, hy])),
        evalCs_sim h r (fun y hy => hn y (by simp [namesEs, hy]))]

theorem applyAcc_sim (h : Sim R N k X s s') : ∀ (acc : List WAcc) (ds : List (Int × Int))
    (off : Int), (∀ y ∈ namesWs acc, ¬ X y) → applyAcc s' acc ds off = applyAcc s acc ds off
  | [], [], _, _ => rfl
  | [], _ :: _, _, _ => rfl
  | .point e :: as, [], off, _ => rfl
  | .interval lo hi :: as, [], off, _ => rfl
  | .point e :: as, (ext, st) :: ds, off, hn => by
    simp only [applyAcc]
    rw [evalC_sim h e (fun y hy => hn y (by simp [namesWs, WAcc.names, hy]))]
    refine bind_congr (fun i => ?_)
    split
    · exact applyAcc_sim h as ds _ (fun y hy => hn y (by simp [namesWs, hy]))
    · rfl
  | .interval lo hi :: as, (ext, st) :: ds, off, hn => by
    simp only [applyAcc]
    rw [evalC_sim h lo (fun y hy => hn y (by simp [namesWs, WAcc.names, hy])),
        evalC_sim h hi (fun y hy => hn y (by simp [namesWs, WAcc.names, hy]))]
    refine bind_congr (fun l => bind_congr (fun hh => ?_))
    split
    · rw [applyAcc_sim h as ds _ (fun y hy => hn y (by simp [namesWs, hy]))]
    · rfl

theorem evalView_sim (h : Sim R N k X s s') : ∀ (e : Expr), (∀ y ∈ e.names, ¬ X y) →
    evalView s' e = (evalView s e).map (View.shift N k)
  | .read x [], hn => by
    simp only [evalView]
    rw [h.lookup (hn x (by simp [Expr.names]))]
    cases lookupSym x s.views <;> rfl
  | .read x (i :: r), hn => by
    simp only [evalView]
    rw [h.lookup (hn x (by simp [Expr.names])),
      evalCs_sim h (i :: r) (fun y hy => hn y (by simp [Expr.names, hy]))]
    cases lookupSym x s.views with
    | none => rfl
    | some v =>
      simp only [Option.map, View.shift_dims, View.shift_off, View.shift_buf]
      cases evalCs s (i :: r) with
      | error e => rfl
      | ok is =>
        simp only [bind, Except.bind]
        cases viewOffset v.dims is v.off <;> rfl
  | .win x acc, hn => by
    simp only [evalView]
    rw [h.lookup (hn x (by simp [Expr.names]))]
    cases lookupSym x s.views with
    | none => rfl
    | some v =>
      simp only [Option.map, View.shift_dims, View.shift_off, View.shift_buf]
      rw [applyAcc_sim h acc _ _ (fun y hy => hn y (by simp [Expr.names, hy]))]
      cases applyAcc s acc v.dims v.off <;> rfl
  | .lit _, _ => rfl
  | .usub _, _ => rfl
  | .binop _ _ _, _ => rfl
  | .extern _ _, _ => rfl
  | .stride _ _, _ => rfl
  | .readcfg _ _, _ => rfl

theorem bindArgs_sim (h : Sim R N k X s s') : ∀ (fs : List FnArg) (as : List Expr)
    (ce : List (Sym × Int)) (cv : List (Sym × View)), (∀ y ∈ namesEs as, ¬ X y) →
    bindArgs s' fs as ce (shiftViews N k cv)
      = (bindArgs s fs as ce cv).map (fun p => (p.1, shiftViews N k p.2))
  | [], [], _, _, _ => rfl
  | [], _ :: _, _, _, _ => rfl
  | ⟨_, .ctrl _⟩ :: _, [], _, _, _ => rfl
  | ⟨_, .scalar⟩ :: _, [], _, _, _ => rfl
  | ⟨_, .tensor _ _⟩ :: _, [], _, _, _ => rfl
  | ⟨x, .ctrl kd⟩ :: fs, a :: as, ce, cv, hn => by
    simp only [bindArgs]
    rw [evalC_sim h a (fun y hy => hn y (by simp [namesEs, hy]))]
    cases evalC s a with
    | error e => rfl
    | ok v =>
      simp only [bind, Except.bind]
      split
      · rfl
      · exact bindArgs_sim h fs as _ cv (fun y hy => hn y (by simp [namesEs, hy]))
  | ⟨x, .scalar⟩ :: fs, a :: as, ce, cv, hn => by
    simp only [bindArgs]
    rw [evalView_sim h a (fun y hy => hn y (by simp [namesEs, hy]))]
    cases evalView s a with
    | error e => rfl
    | ok v =>
      exact bindArgs_sim h fs as ce ((x, v) :: cv) (fun y hy => hn y (by simp [namesEs, hy]))
  | ⟨x, .tensor _ _⟩ :: fs, a :: as, ce, cv, hn => by
    simp only [bindArgs]
    rw [evalView_sim h a (fun y hy => hn y (by simp [namesEs, hy]))]
    cases evalView s a with
    | error e => rfl
    | ok v =>
      exact bindArgs_sim h fs as ce ((x, v) :: cv) (fun y hy => hn y (by simp [namesEs, hy]))

theorem checkShapes_sim (h : Sim R N k (fun _ => False) s s') : ∀ (fs : List FnArg),
    checkShapes s' fs = checkShapes s fs
  | [] => rfl
  | ⟨x, .tensor shape _⟩ :: fs => by
    simp only [checkShapes]
    rw [evalCs_sim h shape (fun _ _ hx => hx), h.lookup (fun hx => hx), checkShapes_sim h fs]
    cases lookupSym x s.views <;> rfl
  | ⟨x, .scalar⟩ :: fs => by
    simp only [checkShapes]
    rw [h.lookup (fun hx => hx), checkShapes_sim h fs]
    cases lookupSym x s.views <;> rfl
  | ⟨x, .ctrl _⟩ :: fs => by
    simp only [checkShapes]
    exact checkShapes_sim h fs

theorem checkPreds_sim (h : Sim R N k (fun _ => False) s s') : ∀ (ps : List Expr),
    checkPreds s' ps = checkPreds s ps
  | [] => rfl
  | p :: ps => by
    simp only [checkPreds]
    rw [evalC_sim h p (fun _ _ hx => hx), checkPreds_sim h ps]

section
variable [DataAlg V] (ext : String → List V → V)

theorem dataOp_sim (hR : CellRel R) (op : BinOp) {x x' y y' : Option V} (hx : R x x')
    (hy : R y y') : Lock R (dataOp op x y) (dataOp op x' y') := by
  cases op <;> first
    | exact Lock.ofPure (hR.lift2 _ _ _ _ _ hx hy)
    | exact Lock.ofThrow

mutual
theorem evalD_sim (hR : CellRel R) (h : Sim R N k X s s') : ∀ (e : Expr),
    (∀ y ∈ e.names, ¬ X y) → Lock R (evalD ext s e) (evalD ext s' e)
  | .read x idx, hn => by
    simp only [evalD]
    rw [h.lookup (hn x (by simp [Expr.names])),
      evalCs_sim h idx (fun y hy => hn y (by simp [Expr.names, hy]))]
    cases lookupSym x s.views with
    | none => exact Lock.ofThrow
    | some v =>
      simp only [Option.map]
      refine Lock.bind_eq (fun is _ => Lock.bind (cellOf_sim h v is) (fun c c' _ _ hc => ?_))
      subst hc
      exact Lock.ofPure (heapGet_sim hR h c)
  | .lit (.data n d), _ => by simp only [evalD]; exact Lock.ofPure (hR.some_refl _)
  | .lit (.int n), _ => by simp only [evalD]; exact Lock.ofPure (hR.some_refl _)
  | .lit (.bool _), _ => by simp only [evalD]; exact Lock.ofThrow
  | .usub e, hn => by
    simp only [evalD]
    exact Lock.bind (evalD_sim hR h e (fun y hy => hn y (by simpa [Expr.names] using hy)))
      (fun v v' _ _ hv => Lock.ofPure (hR.map _ _ _ hv))
  | .binop op a b, hn => by
    simp only [evalD]
    exact Lock.bind (evalD_sim hR h a (fun y hy => hn y (by simp [Expr.names, hy])))
      (fun x x' _ _ hx =>
        Lock.bind (evalD_sim hR h b (fun y hy => hn y (by simp [Expr.names, hy])))
          (fun y y' _ _ hy => dataOp_sim hR op hx hy))
  | .extern f args, hn => by
    simp only [evalD]
    exact Lock.bind (evalDs_sim hR h args (fun y hy => hn y (by simpa [Expr.names] using hy)))
      (fun vs vs' _ _ hvs => Lock.ofPure (hR.allSome _ _ _ hvs))
  | .readcfg c f, _ => by
    simp only [evalD]
    rcases lookupCfg_rel h.cfg (c, f) with ⟨h1, h2⟩ | ⟨v, v', h1, h2, hr⟩
    · rw [h1, h2]; exact Lock.ofThrow
    · rw [h1, h2]
      cases v with
      | ctrl a =>
        cases v' with
        | ctrl b => exact Lock.ofThrow
        | data b => exact False.elim hr
      | data a =>
        cases v' with
        | ctrl b => exact False.elim hr
        | data b => exact Lock.ofPure hr
  | .win _ _, _ => by simp only [evalD]; exact Lock.ofThrow
  | .stride _ _, _ => by simp only [evalD]; exact Lock.ofThrow
theorem evalDs_sim (hR : CellRel R) (h : Sim R N k X s s') : ∀ (es : List Expr),
    (∀ y ∈ namesEs es, ¬ X y) → Lock (Forall₂ R) (evalDs ext s es) (evalDs ext s' es)
  | [], _ => by simp only [evalDs]; exact Lock.ofPure Forall₂.nil
  | e :: r, hn => by
    simp only [evalDs]
    exact Lock.bind (evalD_sim hR h e (fun y hy => hn y (by simp [namesEs, hy])))
      (fun v v' _ _ hv =>
        Lock.bind (evalDs_sim hR h r (fun y hy => hn y (by simp [namesEs, hy])))
          (fun vs vs' _ _ hvs => Lock.ofPure (Forall₂.cons hv hvs)))
end

theorem writeCell_sim (hR : CellRel R) (h : Sim R N k X s s') (x : Sym) (idx : List Expr)
    (hx : ¬ X x) (hidx : ∀ y ∈ namesEs idx, ¬ X y) {f f' : Option V → Option V}
    (hf : ∀ a a', R a a' → R (f a) (f' a')) :
    Lock (Sim R N k X) (writeCell s x idx f) (writeCell s' x idx f') := by
  simp only [writeCell]
  rw [h.lookup hx, evalCs_sim h idx hidx]
  cases lookupSym x s.views with
  | none => exact Lock.ofThrow
  | some v =>
    simp only [Option.map]
    refine Lock.bind_eq (fun is _ => Lock.bind (cellOf_sim h v is) (fun c c' _ _ hc => ?_))
    subst hc
    exact Lock.ofPure (h.heapWrite c (hf _ _ (heapGet_sim hR h c)))

theorem iterate_lock (Q : State V → State V → Prop) (f g : Int → State V → Except Err (State V))
    (hfg : ∀ v a b, Q a b → Lock Q (f v a) (g v b)) :
    ∀ (n : Nat) (lo : Int) (a b : State V), Q a b → Lock Q (iterate f n lo a) (iterate g n lo b)
  | 0, _, _, _, h => Lock.ofPure h
  | n + 1, lo, a, b, h => by
    simp only [iterate]
    exact Lock.bind (hfg lo a b h) (fun a1 b1 _ _ h1 => iterate_lock Q f g hfg n (lo + 1) a1 b1 h1)

end

end Exo

/-! ### the simulation theorem -/
namespace Exo
variable {V : Type} {R : Option V → Option V → Prop}

theorem Lock.bind_map {α β γ δ : Type} {Q' : γ → δ → Prop} {r : Except Err α} {m : α → β}
    {f : α → Except Err γ} {g : β → Except Err δ}
    (hf : ∀ a, r = .ok a → Lock Q' (f a) (g (m a))) : Lock Q' (r >>= f) (r.map m >>= g) := by
  cases r with
  | error e => exact trivial
  | ok a => exact hf a rfl

section
variable [DataAlg V] (ext : String → List V → V)

mutual
/-- a statement that mentions no name of `X` runs in lock step from `Sim`-related states -/
theorem execS_sim (hR : CellRel R) : ∀ (a : Stmt) (N k : Nat) (X : Sym → Prop) (s s' : State V),
    (∀ y ∈ a.names, ¬ X y) → Sim R N k X s s' →
    Lock (Sim R N k X) (execS ext a s) (execS ext a s')
  | .assign x idx rhs, N, k, X, s, s', hn, h => by
    simp only [execS]
    exact Lock.bind (evalD_sim ext hR h rhs (fun y hy => hn y (by simp [Stmt.names, hy])))
      (fun v v' _ _ hv => writeCell_sim hR h x idx (hn x (by simp [Stmt.names]))
        (fun y hy => hn y (by simp [Stmt.names, hy])) (fun _ _ _ => hv))
  | .reduce x idx rhs, N, k, X, s, s', hn, h => by
    simp only [execS]
    exact Lock.bind (evalD_sim ext hR h rhs (fun y hy => hn y (by simp [Stmt.names, hy])))
      (fun v v' _ _ hv => writeCell_sim hR h x idx (hn x (by simp [Stmt.names]))
        (fun y hy => hn y (by simp [Stmt.names, hy]))
        (fun a a' ha => hR.lift2 _ _ _ _ _ ha hv))
  | .writecfg c f rhs true, N, k, X, s, s', hn, h => by
    simp only [execS, ↓reduceIte]
    exact Lock.bind (evalD_sim ext hR h rhs (fun y hy => hn y (by simpa [Stmt.names] using hy)))
      (fun v v' _ _ hv => Lock.ofPure
        (h.cfgWrite (c, f) (show CfgRel R (.data v) (.data v') from hv)))
  | .writecfg c f rhs false, N, k, X, s, s', hn, h => by
    simp only [execS, Bool.false_eq_true, ↓reduceIte]
    rw [evalC_sim h rhs (fun y hy => hn y (by simpa [Stmt.names] using hy))]
    exact Lock.bind_eq (fun v _ => Lock.ofPure
      (h.cfgWrite (c, f) (show CfgRel R (.ctrl v) (.ctrl v) from rfl)))
  | .pass, N, k, X, s, s', _, h => by
    simp only [execS]; exact Lock.ofPure h
  | .free _, N, k, X, s, s', _, h => by
    simp only [execS]; exact Lock.ofPure h
  | .ite c t e, N, k, X, s, s', hn, h => by
    simp only [execS]
    rw [evalC_sim h c (fun y hy => hn y (by simp [Stmt.names, hy]))]
    refine Lock.bind_eq (fun b _ => Lock.ite (fun _ => ?_) (fun _ => ?_))
    · exact Lock.map
        (execL_sim hR t N k X s s' (fun y hy => hn y (by simp [Stmt.names, hy])) h)
        (fun a b ha _ hab => h.leave hab (execL_scope ext t s a ha).2.1)
    · exact Lock.map
        (execL_sim hR e N k X s s' (fun y hy => hn y (by simp [Stmt.names, hy])) h)
        (fun a b ha _ hab => h.leave hab (execL_scope ext e s a ha).2.1)
  | .loop i lo hi body par, N, k, X, s, s', hn, h => by
    simp only [execS]
    rw [evalC_sim h lo (fun y hy => hn y (by simp [Stmt.names, hy])),
        evalC_sim h hi (fun y hy => hn y (by simp [Stmt.names, hy]))]
    refine Lock.bind_eq (fun l _ => Lock.bind_eq (fun hh _ =>
      Lock.ite (fun _ => Lock.ofThrowBind) (fun _ => ?_)))
    exact iterate_lock (Sim R N k X) _ _
      (fun v a b hab => Lock.map
        (execL_sim hR body N k X _ _ (fun y hy => hn y (by simp [Stmt.names, hy])) (hab.bind i v))
        (fun a1 b1 ha1 _ h1 => hab.leave h1 (execL_scope ext body _ a1 ha1).2.1))
      _ _ s s' h
  | .alloc x shape, N, k, X, s, s', hn, h => by
    simp only [execS]
    rw [evalCs_sim h shape (fun y hy => hn y (by simp [Stmt.names, hy]))]
    exact Lock.bind_eq (fun sh _ => Lock.bind_eq (fun _ _ => Lock.ofPure (Sim.alloc hR h x _ _)))
  | .call f args, N, k, X, s, s', hn, h => by
    simp only [execS]
    exact execP_sim hR f args N k X s s' (fun y hy => hn y (by simpa [Stmt.names] using hy)) h
  | .window x rhs, N, k, X, s, s', hn, h => by
    simp only [execS]
    rw [evalView_sim h rhs (fun y hy => hn y (by simp [Stmt.names, hy]))]
    cases evalView s rhs with
    | error e => exact trivial
    | ok v => exact Lock.ofPure (h.bindView x v)
theorem execL_sim (hR : CellRel R) : ∀ (ss : List Stmt) (N k : Nat) (X : Sym → Prop)
    (s s' : State V), (∀ y ∈ namesL ss, ¬ X y) → Sim R N k X s s' →
    Lock (Sim R N k X) (execL ext ss s) (execL ext ss s')
  | [], N, k, X, s, s', _, h => by
    simp only [execL]; exact Lock.ofPure h
  | a :: r, N, k, X, s, s', hn, h => by
    simp only [execL]
    exact Lock.bind (execS_sim hR a N k X s s' (fun y hy => hn y (by simp [namesL, hy])) h)
      (fun s1 s1' _ _ h1 =>
        execL_sim hR r N k X s1 s1' (fun y hy => hn y (by simp [namesL, hy])) h1)
theorem execP_sim (hR : CellRel R) : ∀ (p : Proc) (args : List Expr) (N k : Nat)
    (X : Sym → Prop) (s s' : State V), (∀ y ∈ namesOfArgs args, ¬ X y) → Sim R N k X s s' →
    Lock (Sim R N k X) (execP ext p args s) (execP ext p args s')
  | .mk nm fargs preds body, args, N, k, X, s, s', hn, h => by
    simp only [execP]
    have hb : bindArgs s' fargs args [] []
        = (bindArgs s fargs args [] []).map (fun p => (p.1, shiftViews N k p.2)) :=
      bindArgs_sim h fargs args [] [] hn
    rw [hb]
    refine Lock.bind_map (fun p hp => ?_)
    simp only [noAlias_shiftViews]
    refine Lock.ite (fun _ => Lock.ofThrowBind) (fun _ => ?_)
    have hc : Sim R N k (fun _ => False)
        { env := p.1, views := p.2, heap := s.heap, cfg := s.cfg }
        { env := p.1, views := shiftViews N k p.2, heap := s'.heap, cfg := s'.cfg } :=
      ⟨rfl, h.le, h.len, h.bufs, ViewsRel.shiftViews N k _ p.2, h.cfg⟩
    rw [checkShapes_sim hc fargs, checkPreds_sim hc preds]
    exact Lock.bind_eq (fun _ _ => Lock.bind_eq (fun _ _ =>
      Lock.bind (execL_sim hR body N k (fun _ => False) _ _ (fun _ _ hx => hx) hc)
        (fun t t' ht _ htt => Lock.ofPure (h.leave htt (execL_scope ext body _ t ht).2.1))))
end

end

/-! ### the instance used for refinement: same layout, poison may become defined -/

theorem CfgRel.refl' {R : Option V → Option V → Prop} (hr : ∀ a, R a a) (v : CfgVal V) :
    CfgRel R v v := by
  cases v with
  | ctrl a => exact rfl
  | data a => exact hr a

theorem cfgRel_refines (a b : CfgVal V) : CfgRel CellRefines a b ↔ CfgValRefines a b := by
  cases a <;> cases b <;> exact Iff.rfl

/-- `s'` refines `s`: same scope and layout, undefined cells / data fields may be defined -/
def Ref (s s' : State V) : Prop := Sim CellRefines 0 0 (fun _ => False) s s'

theorem Ref.sim {s s' : State V} (h : Ref s s') : Sim CellRefines 0 0 (fun _ => False) s s' := h

theorem Ref.refl (s : State V) : Ref s s :=
  ⟨rfl, Nat.zero_le _, rfl,
    fun b buf hb => ⟨buf, by rw [shiftB_zero]; exact hb, Forall₂.refl CellRefines.refl buf⟩,
    ViewsRel.refl 0 _ s.views,
    Forall₂.refl (fun a => ⟨rfl, CfgRel.refl' CellRefines.refl a.2⟩) s.cfg⟩

theorem Ref.trans {a b c : State V} (h : Ref a b) (h' : Ref b c) : Ref a c := by
  have h : Sim CellRefines 0 0 (fun _ => False) a b := h
  have h' : Sim CellRefines 0 0 (fun _ => False) b c := h'
  refine ⟨h'.env.trans h.env, Nat.zero_le _, ?_, ?_, ?_, ?_⟩
  · have := h.len; have := h'.len; omega
  · intro i buf hb
    obtain ⟨buf', h1, h2⟩ := h.bufs i buf hb
    rw [shiftB_zero] at h1
    obtain ⟨buf'', h3, h4⟩ := h'.bufs i buf' h1
    exact ⟨buf'', h3, Forall₂.trans (R := CellRefines) (S := CellRefines) (T := CellRefines)
      (fun _ _ _ => CellRefines.trans) h2 h4⟩
  · have e1 := ViewsRel.eq_of_false h.views
    have e2 := ViewsRel.eq_of_false h'.views
    rw [e2, e1]; exact ViewsRel.refl 0 _ _
  · exact Forall₂.trans (fun x y z hxy hyz => ⟨hxy.1.trans hyz.1,
      (cfgRel_refines _ _).2 (CfgValRefines.trans ((cfgRel_refines _ _).1 hxy.2)
        ((cfgRel_refines _ _).1 hyz.2))⟩) h.cfg h'.cfg

theorem Ref.env {s s' : State V} (h : Ref s s') : s'.env = s.env := h.sim.env
theorem Ref.views_eq {s s' : State V} (h : Ref s s') : s'.views = s.views :=
  ViewsRel.eq_of_false h.sim.views
theorem Ref.heapLen {s s' : State V} (h : Ref s s') : s.heap.length = s'.heap.length := by
  have := h.sim.len; omega

theorem Ref.cells {s s' : State V} (h : Ref s s') (c : Nat × Nat) :
    CellRefines (heapGet s.heap c) (heapGet s'.heap c) := by
  have := heapGet_sim CellRel.refines h.sim c
  simpa using this

theorem Ref.cfgLookup {s s' : State V} (h : Ref s s') (key : String × String) (v : CfgVal V)
    (hv : lookupCfg key s.cfg = some v) :
    ∃ v', lookupCfg key s'.cfg = some v' ∧ CfgValRefines v v' := by
  rcases lookupCfg_rel h.sim.cfg key with ⟨h1, _⟩ | ⟨w, w', h1, h2, hr⟩
  · rw [h1] at hv; cases hv
  · rw [h1] at hv; cases hv; exact ⟨w', h2, (cfgRel_refines _ _).1 hr⟩

theorem Ref.refines {s s' : State V} (h : Ref s s') : Refines (fun _ => False) s s' :=
  ⟨h.heapLen, h.cells, fun key _ v hv => h.cfgLookup key v hv⟩

theorem Ref.bind {s s' : State V} (h : Ref s s') (i : Sym) (v : Int) :
    Ref (s.bind i v) (s'.bind i v) := Sim.bind h i v

theorem Ref.leave {σ σ' t t' : State V} (hin : Ref σ σ') (hout : Ref t t')
    (hle : σ.heap.length ≤ t.heap.length) : Ref (State.leave σ t) (State.leave σ' t') :=
  Sim.leave hin hout hle

section
variable [DataAlg V] (ext : String → List V → V)

/-- monotonicity of execution in the poison order (`k = 0`, `N = 0`, no extra names) -/
theorem exec_mono (ss : List Stmt) {s s' : State V} (h : Ref s s') :
    Lock Ref (execL ext ss s) (execL ext ss s') :=
  execL_sim ext CellRel.refines ss 0 0 (fun _ => False) s s' (fun _ _ hx => hx) h

theorem execS_mono (a : Stmt) {s s' : State V} (h : Ref s s') :
    Lock Ref (execS ext a s) (execS ext a s') :=
  execS_sim ext CellRel.refines a 0 0 (fun _ => False) s s' (fun _ _ hx => hx) h

theorem execP_mono (p : Proc) (args : List Expr) {s s' : State V} (h : Ref s s') :
    Lock Ref (execP ext p args s) (execP ext p args s') :=
  execP_sim ext CellRel.refines p args 0 0 (fun _ => False) s s' (fun _ _ hx => hx) h

/-- control evaluation is the same in refined states -/
theorem evalC_ref {s s' : State V} (h : Ref s s') (e : Expr) : evalC s' e = evalC s e :=
  evalC_sim h.sim e (fun _ _ hx => hx)

end

end Exo
