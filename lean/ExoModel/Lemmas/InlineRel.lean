/-
  The simulation relation between the state inside a call (`σc`: formals bound to the values of
  the actuals, nothing else in scope) and the caller's state (`σ`), and its basic properties.
-/
import ExoModel.Inline
import ExoModel.Equiv
import ExoModel.Lemmas.Exec
import ExoModel.Lemmas.InlineNorm

set_option linter.unusedSectionVars false
set_option linter.unusedVariables false
namespace Exo.Inline
open Exo

/-! ### `Sim`: both sides succeed with related results, or the callee side alone trips `oob` -/

/-- `rc` (callee side) and `r` (caller side) succeed together with related results; if `W`
    (a formal is bound to a proper window), the callee side may fail with `oob` where the caller
    side succeeds (an access inside the caller's buffer but outside the window) -/
def Sim (W : Prop) {α β : Type} (R : α → β → Prop) (rc : Except Err α) (r : Except Err β) : Prop :=
  (∀ a, rc = .ok a → ∃ b, r = .ok b ∧ R a b) ∧
  (∀ b, r = .ok b → (∃ a, rc = .ok a ∧ R a b) ∨ (W ∧ rc = .error .oob))

variable {W : Prop} {α β γ δ : Type}

theorem Sim.bind {R : α → β → Prop} {R' : γ → δ → Prop} {rc : Except Err α} {r : Except Err β}
    {f : α → Except Err γ} {g : β → Except Err δ}
    (h : Sim W R rc r) (hf : ∀ a b, R a b → Sim W R' (f a) (g b)) :
    Sim W R' (rc >>= f) (r >>= g) := by
  constructor
  · intro c hc
    cases rc with
    | error e => cases hc
    | ok a =>
      obtain ⟨b, hb, hR⟩ := h.1 a rfl
      subst hb
      exact (hf a b hR).1 c hc
  · intro d hd
    cases r with
    | error e => cases hd
    | ok b =>
      have hd' : g b = .ok d := hd
      rcases h.2 b rfl with ⟨a, ha, hR⟩ | ⟨hw, he⟩
      · subst ha
        rcases (hf a b hR).2 d hd' with ⟨c, hc, hR'⟩ | ⟨hw, he⟩
        · exact Or.inl ⟨c, hc, hR'⟩
        · exact Or.inr ⟨hw, he⟩
      · subst he
        exact Or.inr ⟨hw, rfl⟩

theorem Sim.pure {R : α → β → Prop} {a : α} {b : β} (h : R a b) :
    Sim W R (Except.ok a : Except Err α) (Except.ok b : Except Err β) :=
  ⟨fun a' ha => by cases ha; exact ⟨b, rfl, h⟩, fun b' hb => by cases hb; exact Or.inl ⟨a, rfl, h⟩⟩

theorem Sim.of_exEq {rc r : Except Err α} (h : ExEq rc r) : Sim W Eq rc r :=
  ⟨fun a ha => ⟨a, exEq_ok_left h ha, rfl⟩, fun b hb => Or.inl ⟨b, exEq_ok_right h hb, rfl⟩⟩

theorem Sim.of_eq {rc r : Except Err α} (h : rc = r) : Sim W Eq rc r := by
  subst h; exact Sim.of_exEq (ExEq.refl _)

theorem Sim.mono {R R' : α → β → Prop} {rc : Except Err α} {r : Except Err β}
    (h : Sim W R rc r) (hR : ∀ a b, R a b → R' a b) : Sim W R' rc r :=
  ⟨fun a ha => by obtain ⟨b, hb, hr⟩ := h.1 a ha; exact ⟨b, hb, hR _ _ hr⟩,
   fun b hb => by
    rcases h.2 b hb with ⟨a, ha, hr⟩ | h'
    · exact Or.inl ⟨a, ha, hR _ _ hr⟩
    · exact Or.inr h'⟩

theorem Sim.weaken {W' : Prop} {R : α → β → Prop} {rc : Except Err α} {r : Except Err β}
    (h : Sim W R rc r) (hw : W → W') : Sim W' R rc r :=
  ⟨h.1, fun b hb => by
    rcases h.2 b hb with h' | ⟨w, e⟩
    · exact Or.inl h'
    · exact Or.inr ⟨hw w, e⟩⟩

theorem Sim.map {R : α → β → Prop} {R' : γ → δ → Prop} {rc : Except Err α} {r : Except Err β}
    (f : α → γ) (g : β → δ) (h : Sim W R rc r) (hf : ∀ a b, R a b → R' (f a) (g b)) :
    Sim W R' (rc.map f) (r.map g) := by
  have e1 : rc.map f = (rc >>= fun a => Except.ok (f a)) := by cases rc <;> rfl
  have e2 : r.map g = (r >>= fun b => Except.ok (g b)) := by cases r <;> rfl
  rw [e1, e2]
  exact h.bind (fun a b hr => Sim.pure (hf a b hr))

/-- both sides fail -/
theorem Sim.error {R : α → β → Prop} (e e' : Err) :
    Sim W R (Except.error e : Except Err α) (Except.error e' : Except Err β) :=
  by constructor <;> intro _ h <;> cases h

theorem Sim.eq_ok {rc r : Except Err α} (h : Sim W Eq rc r) {a : α} (ha : rc = .ok a) : r = .ok a := by
  obtain ⟨b, hb, rfl⟩ := h.1 a ha; exact hb

theorem Sim.toExEq {rc r : Except Err α} (h : Sim False Eq rc r) : ExEq rc r := by
  cases hrc : rc with
  | ok a => rw [h.eq_ok hrc]; exact ExEq.refl _
  | error e =>
    cases hr : r with
    | error e' => rfl
    | ok b =>
      rcases h.2 b hr with ⟨a, ha, _⟩ | ⟨f, _⟩
      · rw [hrc] at ha; cases ha
      · exact f.elim

/-! ### a symbol that does not occur does not matter -/

variable {V : Type}

/-- the two states give the same meaning to the symbol `y` -/
def SameSym (σ σ' : State V) (y : Sym) : Prop :=
  lookupSym y σ'.env = lookupSym y σ.env ∧ lookupSym y σ'.views = lookupSym y σ.views

theorem evalC_congr (σ σ' : State V) : ∀ (e : Expr), (noCfgE e = true ∨ σ'.cfg = σ.cfg) →
    (∀ y, mentionsE y e = true → SameSym σ σ' y) → evalC σ' e = evalC σ e
  | .read x [], _, h => by
    have := (h x (by simp [mentionsE])).1
    simp [evalC, this]
  | .read x (_ :: _), _, _ => by simp [evalC]
  | .lit (.int n), _, _ => by simp [evalC]
  | .lit (.bool n), _, _ => by simp [evalC]
  | .lit (.data _ _), _, _ => by simp [evalC]
  | .usub e, hn, h => by
    simp only [evalC]
    rw [evalC_congr σ σ' e (by simpa [noCfgE] using hn) (fun y hy => h y (by simpa [mentionsE] using hy))]
  | .binop op a b, hn, h => by
    simp only [noCfgE, Bool.and_eq_true] at hn
    simp only [evalC]
    rw [evalC_congr σ σ' a (hn.imp (·.1) id) (fun y hy => h y (by simp [mentionsE, hy])),
      evalC_congr σ σ' b (hn.imp (·.2) id) (fun y hy => h y (by simp [mentionsE, hy]))]
  | .stride x d, _, h => by
    have := (h x (by simp [mentionsE])).2
    simp [evalC, this]
  | .readcfg _ _, hn, _ => by
    rcases hn with hn | hn
    · simp [noCfgE] at hn
    · simp [evalC, hn]
  | .extern _ _, _, _ => by simp [evalC]
  | .win _ _, _, _ => by simp [evalC]

theorem applyAcc_congr (σ σ' : State V) : ∀ (acc : List WAcc) (dims : List (Int × Int)) (off : Int),
    (noCfgWs acc = true ∨ σ'.cfg = σ.cfg) → (∀ y, mentionsWs y acc = true → SameSym σ σ' y) →
    applyAcc σ' acc dims off = applyAcc σ acc dims off
  | [], [], _, _, _ => by simp [applyAcc]
  | [], _ :: _, _, _, _ => by simp [applyAcc]
  | .point e :: as, [], _, _, _ => by simp [applyAcc]
  | .interval _ _ :: as, [], _, _, _ => by simp [applyAcc]
  | .point e :: as, (ext, st) :: ds, off, hn, h => by
    simp only [noCfgWs, noCfgW, Bool.and_eq_true] at hn
    simp only [applyAcc]
    rw [evalC_congr σ σ' e (hn.imp (·.1) id) (fun y hy => h y (by simp [mentionsWs, mentionsW, hy]))]
    refine bind_congr (fun i => ?_)
    split
    · exact applyAcc_congr σ σ' as ds _ (hn.imp (·.2) id) (fun y hy => h y (by simp [mentionsWs, hy]))
    · rfl
  | .interval lo hi :: as, (ext, st) :: ds, off, hn, h => by
    simp only [noCfgWs, noCfgW, Bool.and_eq_true] at hn
    simp only [applyAcc]
    rw [evalC_congr σ σ' lo (hn.imp (·.1.1) id) (fun y hy => h y (by simp [mentionsWs, mentionsW, hy])),
      evalC_congr σ σ' hi (hn.imp (·.1.2) id) (fun y hy => h y (by simp [mentionsWs, mentionsW, hy]))]
    refine bind_congr (fun l => bind_congr (fun hh => ?_))
    split
    · rw [applyAcc_congr σ σ' as ds _ (hn.imp (·.2) id) (fun y hy => h y (by simp [mentionsWs, hy]))]
    · rfl

/-- the view a buffer target denotes in the caller's state -/
def viewOf (σ : State V) (y : Sym) : Option (List WAcc) → Except Err View
  | none => match lookupSym y σ.views with
      | some v => pure v
      | none => throw .scope
  | some acc => evalView σ (.win y acc)

/-- what it means for the callee name `x` to stand for target `t` -/
def Holds (t : Target) (x : Sym) (σc σ : State V) : Prop :=
  match t with
  | .ctrl e => ∃ v, lookupSym x σc.env = some v ∧ evalC σ e = .ok v
  | .buf y acc => ∃ v, lookupSym x σc.views = some v ∧ viewOf σ y acc = .ok v

theorem Holds.transport {t : Target} {x : Sym} {σc σ σc' σ' : State V} (h : Holds t x σc σ)
    (hp : t.noCfg = true ∨ σ'.cfg = σ.cfg) (hx : SameSym σc σc' x)
    (hm : ∀ y, t.mentions y = true → SameSym σ σ' y) : Holds t x σc' σ' := by
  cases t with
  | ctrl e =>
    obtain ⟨v, h1, h2⟩ := h
    refine ⟨v, by rw [hx.1]; exact h1, ?_⟩
    rw [evalC_congr σ σ' e (hp.imp (by simpa [Target.noCfg] using id) id)
      (fun y hy => hm y (by simpa [Target.mentions] using hy))]; exact h2
  | buf y acc =>
    obtain ⟨v, h1, h2⟩ := h
    refine ⟨v, by rw [hx.2]; exact h1, ?_⟩
    cases acc with
    | none =>
      have := (hm y (by simp [Target.mentions])).2
      simp only [viewOf] at h2 ⊢
      rw [this]; exact h2
    | some acc =>
      have hy := (hm y (by simp [Target.mentions])).2
      simp only [viewOf, evalView] at h2 ⊢
      rw [hy]
      cases hl : lookupSym y σ.views with
      | none => rw [hl] at h2; cases h2
      | some vy =>
        rw [hl] at h2
        simp only [] at h2 ⊢
        rw [applyAcc_congr σ σ' acc _ _ (hp.imp (by simpa [Target.noCfg] using id) id)
          (fun z hz => hm z (by simp [Target.mentions, hz]))]
        exact h2

/-- the simulation invariant -/
structure Rel (θ : Subst) (σc σ : State V) : Prop where
  heap : σc.heap = σ.heap
  cfg : σc.cfg = σ.cfg
  holds : ∀ x t, lookupSym x θ = some t → Holds t x σc σ

theorem fresh_lookup {s : Sym} : ∀ {θ : Subst} {x : Sym} {t : Target}, fresh s θ = true →
    lookupSym x θ = some t → t.mentions s = false
  | [], _, _, _, h => by simp [lookupSym] at h
  | (z, t') :: r, x, t, hf, h => by
    simp only [fresh, Bool.and_eq_true, Bool.not_eq_true'] at hf
    simp only [lookupSym] at h
    split at h
    · cases h; exact hf.1
    · exact fresh_lookup hf.2 h

theorem pure_lookup : ∀ {θ : Subst} {x : Sym} {t : Target}, pureSubst θ = true →
    lookupSym x θ = some t → t.noCfg = true
  | [], _, _, _, h => by simp [lookupSym] at h
  | (z, t') :: r, x, t, hf, h => by
    simp only [pureSubst, Bool.and_eq_true] at hf
    simp only [lookupSym] at h
    split at h
    · cases h; exact hf.1
    · exact pure_lookup hf.2 h

theorem hasWin_lookup : ∀ {θ : Subst} {x y : Sym} {acc : List WAcc},
    lookupSym x θ = some (.buf y (some acc)) → hasWin θ = true
  | [], _, _, _, h => by simp [lookupSym] at h
  | (z, t') :: r, x, y, acc, h => by
    simp only [lookupSym] at h
    split at h
    · cases h; simp [hasWin]
    · have := hasWin_lookup h
      cases t' with
      | ctrl e => simpa [hasWin] using this
      | buf y' a' => cases a' <;> simp [hasWin, this]

/-- states that differ from related ones only in names nobody looks at -/
theorem Rel.transport {θ : Subst} {σc σ σc' σ' : State V} (h : Rel θ σc σ)
    (hp : pureSubst θ = true)
    (hc : ∀ x t, lookupSym x θ = some t → SameSym σc σc' x)
    (hs : ∀ x t y, lookupSym x θ = some t → t.mentions y = true → SameSym σ σ' y)
    (hheap : σc'.heap = σ'.heap) (hcfg : σc'.cfg = σ'.cfg) : Rel θ σc' σ' :=
  ⟨hheap, hcfg, fun x t hl =>
    (h.holds x t hl).transport (Or.inl (pure_lookup hp hl)) (hc x t hl) (fun y hy => hs x t y hl hy)⟩

/-- same scope, other heap and configuration -/
theorem Rel.sameScope {θ : Subst} {σc σ σc' σ' : State V} (h : Rel θ σc σ)
    (hp : pureSubst θ = true)
    (h1 : σc'.env = σc.env) (h2 : σc'.views = σc.views) (h3 : σ'.env = σ.env)
    (h4 : σ'.views = σ.views) (hheap : σc'.heap = σ'.heap) (hcfg : σc'.cfg = σ'.cfg) :
    Rel θ σc' σ' :=
  h.transport hp (fun _ _ _ => ⟨by rw [h1], by rw [h2]⟩) (fun _ _ _ _ _ => ⟨by rw [h3], by rw [h4]⟩)
    hheap hcfg

/-- a new name on both sides -/
theorem Rel.cons {θ : Subst} {σc σ σc' σ' : State V} (h : Rel θ σc σ) (hp : pureSubst θ = true)
    (x0 : Sym) (t0 : Target) (h0 : Holds t0 x0 σc' σ')
    (hc : ∀ x, x ≠ x0 → SameSym σc σc' x)
    (hs : ∀ x t y, lookupSym x θ = some t → t.mentions y = true → SameSym σ σ' y)
    (hheap : σc'.heap = σ'.heap) (hcfg : σc'.cfg = σ'.cfg) : Rel ((x0, t0) :: θ) σc' σ' := by
  refine ⟨hheap, hcfg, fun x t hl => ?_⟩
  simp only [lookupSym] at hl
  split at hl
  · rename_i hx; cases hl; subst hx; exact h0
  · rename_i hx
    exact (h.holds x t hl).transport (Or.inl (pure_lookup hp hl)) (hc x hx) (fun y hy => hs x t y hl hy)

theorem lookupSym_cons_ne {α : Type} {x y : Sym} (v : α) (l : List (Sym × α)) (h : x ≠ y) :
    lookupSym x ((y, v) :: l) = lookupSym x l := by
  simp [lookupSym, h]

theorem lookupSym_cons_self {α : Type} {x : Sym} (v : α) (l : List (Sym × α)) :
    lookupSym x ((x, v) :: l) = some v := by
  simp [lookupSym]

/-- entering a loop: the callee's iteration variable `i` is the caller's `i'` -/
theorem Rel.bindCtrl {θ : Subst} {σc σ : State V} (h : Rel θ σc σ) (hp : pureSubst θ = true)
    (i i' : Sym) (v : Int) (hf : fresh i' θ = true) :
    Rel ((i, .ctrl (.read i' [])) :: θ) (σc.bind i v) (σ.bind i' v) := by
  refine h.cons hp i _ ⟨v, by simp [State.bind, lookupSym], by simp [evalC, State.bind, lookupSym, pure, Except.pure]⟩
    (fun x hx => ⟨by simp [State.bind, lookupSym, hx], rfl⟩)
    (fun x t y hl hy => ?_) h.heap h.cfg
  have hne : y ≠ i' := by
    intro e; subst e
    rw [fresh_lookup hf hl] at hy; cases hy
  exact ⟨by simp [State.bind, lookupSym, hne], rfl⟩

end Exo.Inline
