/-
  Soundness of `unroll_buffer` (`DoUnrollBuffer`, model `Rw.unrollBuffer d names`, RewriteStorage.lean):

      x : T[sh] ; rest     ⟶     x_{k1} : T[sh - d] ; … ; x_{ku} : T[sh - d] ; unrollL x d nm rest

  (`sh[d]` a literal; one allocation per USED literal index, in the order `Rw.unrollOrder` gives; every
  access `x[…, k, …]` with the literal `k` at position `d` becomes `x_k[…]` with index `d` deleted).
  ANY dimension `d`, ANY number `u` of used indices, calls allowed in `rest` (not with `x` as argument).

  ARCHITECTURE.
  * `u = 0` (the buffer is never mentioned): the unrolled block is `rest` itself (`unrollL_id`) and the
    rewrite is the deletion of a dead allocation (`dead_alloc_refW`).
  * `u ≥ 1`, same-layout trick: `x : T[sh] ; rest  ⊑  x : T[sh] ; x_{k2} : T[sh-d] ; … ; x_{ku} : T[sh-d] ; rest`
    (insertion of `u - 1` dead allocations, `dead_allocs_insert_refW`, by induction from
    `dead_alloc_insert_refW`); now both runs have buffers `N … N+u-1` at the same positions.  Then the
    relation `Unroll.Rel` with the range `[N, N+u)` of special buffers and the joint predicate
    `Unroll.UQ` (StorageUnroll1/2.lean), unroll mode `Unroll.execL_unroll`, and `Rel.leave_eq`: the two
    final states are EQUAL (`unroll_buffer_fwd_partial`).
  * `unroll_buffer_refW_partial` (`BlockRefW`), the guarded `Local` `Rw.unrollBufferChecked`, its
    soundness, and `unroll_buffer_anywhere_partial` (`rewriteAt` at any address ⇒ `EquivOn WellScoped`).

  `_partial`: (1) guard `Rw.unrollOkL` (see StorageUnroll2.lean: `x` only as the buffer of data reads and
  `assign`/`reduce` targets; window expressions of `x`, `stride(x, _)`, `x` as a call argument / window
  right-hand side / inside index or control expressions, re-binding of `x` are excluded); (2) the extents
  are expressions over control variables and integer literals (`Expr.envOnly`: no `stride`, no
  configuration read) — their values are the same after every allocation; that they are POSITIVE follows
  from the success of the original run, in the state of which the dead allocations are inserted
  (`dead_allocs_insert_sem`); (3) the emission order is whatever `Rw.unrollOrder` computes
  (the replay of CPython's set order): the theorem only needs that every used literal is in it, which the
  guard checks (`litOk`), and that `names` has its length.

  At the end: a concrete non-vacuity example and the kernel-checked counter-example for finding S3
  (`stride(t, 1)` left on the removed symbol).
-/
import ExoModel.Lemmas.StorageUnroll2

set_option linter.unusedSectionVars false
set_option linter.unusedVariables false

namespace Exo.Stg.Unroll
open Exo Exo.ReidxInst
variable {V : Type}

/-! ### the state after a sequence of allocations of the same (closed) shape -/

/-- the state after `y : T[sh']` for every `y` of `ys`, the extents having the values `szs` -/
def allocsSt (σ : State V) : List Sym → List Int → State V
  | [], _ => σ
  | y :: r, szs => allocsSt (allocSt σ y szs) r szs

theorem allocsSt_env (szs : List Int) : ∀ (ys : List Sym) (σ : State V),
    (allocsSt σ ys szs).env = σ.env
  | [], _ => rfl
  | y :: r, σ => by simp only [allocsSt]; rw [allocsSt_env szs r]; rfl

theorem allocsSt_cfg (szs : List Int) : ∀ (ys : List Sym) (σ : State V),
    (allocsSt σ ys szs).cfg = σ.cfg
  | [], _ => rfl
  | y :: r, σ => by simp only [allocsSt]; rw [allocsSt_cfg szs r]; rfl

theorem allocsSt_heap (szs : List Int) : ∀ (ys : List Sym) (σ : State V),
    (allocsSt σ ys szs).heap
      = σ.heap ++ List.replicate ys.length (List.replicate (prodL szs).toNat none)
  | [], σ => by simp [allocsSt]
  | y :: r, σ => by
    simp only [allocsSt]
    rw [allocsSt_heap szs r]
    simp only [allocSt, foldl_one, List.length_cons, List.replicate_succ, List.append_assoc,
      List.singleton_append]

theorem allocsSt_lookup_notin (szs : List Int) (y : Sym) : ∀ (ys : List Sym) (σ : State V),
    y ∉ ys → lookupSym y (allocsSt σ ys szs).views = lookupSym y σ.views
  | [], _, _ => rfl
  | z :: r, σ, h => by
    simp only [allocsSt]
    rw [allocsSt_lookup_notin szs y r _ (fun hm => h (List.mem_cons_of_mem _ hm))]
    have hne : ¬ y = z := fun e => h (e ▸ List.mem_cons_self ..)
    simp only [allocSt, lookupSym, if_neg hne]

theorem allocsSt_lookup_in (szs : List Int) : ∀ (ys : List Sym) (σ : State V), ys.Nodup →
    ∀ (j : Nat) (hj : j < ys.length), lookupSym ys[j] (allocsSt σ ys szs).views
      = some { buf := σ.heap.length + j, off := 0, dims := denseDims szs }
  | [], _, _, j, hj => by simp at hj
  | z :: r, σ, hnd, 0, _ => by
    simp only [List.getElem_cons_zero, allocsSt]
    rw [allocsSt_lookup_notin szs z r _ (List.nodup_cons.1 hnd).1]
    simp only [allocSt, lookupSym, if_true, Nat.add_zero]
  | z :: r, σ, hnd, j + 1, hj => by
    simp only [List.getElem_cons_succ, allocsSt]
    rw [allocsSt_lookup_in szs r _ (List.nodup_cons.1 hnd).2 j (by simpa using hj)]
    have e : (allocSt σ z szs).heap.length + j = σ.heap.length + (j + 1) := by
      simp only [allocSt, List.length_append, List.length_cons, List.length_nil]; omega
    rw [e]

section
variable [DataAlg V] (ext : String → List V → V)

theorem execL_allocs (sh' : List Expr) (szs' : List Int) (e0 : List (Sym × Int))
    (hsz : ∀ s : State V, s.env = e0 → evalCs s sh' = .ok szs') (hpos : checkSizes szs' = .ok ()) :
    ∀ (ys : List Sym) (r : List Stmt) (σ : State V), σ.env = e0 →
      execL ext (ys.map (fun y => Stmt.alloc y sh') ++ r) σ = execL ext r (allocsSt σ ys szs')
  | [], r, σ, _ => rfl
  | y :: ys, r, σ, he => by
    simp only [List.map_cons, List.cons_append, allocsSt]
    rw [Exo.execL_cons_ok ext (execS_alloc ext y sh' σ szs' (hsz σ he) hpos)]
    exact execL_allocs sh' szs' e0 hsz hpos ys r _ he

end

/-! ### literal shapes -/

theorem posLits_eraseIdx (sh : List Expr) (d : Nat) (h : posLits sh = true) :
    posLits (sh.eraseIdx d) = true := by
  unfold posLits at h ⊢
  rw [List.all_eq_true] at h ⊢
  intro e he
  exact h e (List.mem_of_mem_eraseIdx he)

theorem posLits_names : ∀ (sh : List Expr), posLits sh = true → namesEs sh = []
  | [], _ => rfl
  | e :: r, h => by
    simp only [posLits, List.all_cons, Bool.and_eq_true] at h
    have ih := posLits_names r (by unfold posLits; exact h.2)
    cases e with
    | lit c => simp [namesEs, Expr.names, ih]
    | read _ _ => simp [Expr.posLit] at h
    | usub _ => simp [Expr.posLit] at h
    | binop _ _ _ => simp [Expr.posLit] at h
    | extern _ _ => simp [Expr.posLit] at h
    | win _ _ => simp [Expr.posLit] at h
    | stride _ _ => simp [Expr.posLit] at h
    | readcfg _ _ => simp [Expr.posLit] at h

theorem namesL_allocs (sh' : List Expr) (h0 : namesEs sh' = []) : ∀ (ys : List Sym) (z : Sym),
    z ∈ namesL (ys.map (fun y => Stmt.alloc y sh')) → z ∈ ys
  | [], z, h => by simp [namesL] at h
  | y :: ys, z, h => by
    simp only [List.map_cons, namesL, Stmt.names, h0, List.cons_append, List.nil_append,
      List.mem_cons] at h
    rcases h with rfl | h
    · exact List.mem_cons_self ..
    · exact List.mem_cons_of_mem _ (namesL_allocs sh' h0 ys z h)

theorem envOnly_eraseIdx {sh : List Expr} (d : Nat) (h : ∀ e ∈ sh, e.envOnly = true) :
    ∀ e ∈ sh.eraseIdx d, e.envOnly = true := fun e he => h e (List.mem_of_mem_eraseIdx he)

theorem checkSizes_eraseIdx {szs : List Int} (d : Nat) (h : checkSizes szs = .ok ()) :
    checkSizes (szs.eraseIdx d) = .ok () :=
  (checkSizes_iff _).2 (fun e he => (checkSizes_iff _).1 h e (List.mem_of_mem_eraseIdx he))

theorem namesL_allocs' (sh' : List Expr) : ∀ (ys : List Sym) (z : Sym),
    z ∈ namesL (ys.map (fun y => Stmt.alloc y sh')) → z ∈ ys ∨ z ∈ namesEs sh'
  | [], z, h => by simp [namesL] at h
  | y :: ys, z, h => by
    simp only [List.map_cons, namesL, Stmt.names, List.cons_append, List.mem_cons,
      List.mem_append] at h
    rcases h with rfl | h | h
    · exact Or.inl (List.mem_cons_self ..)
    · exact Or.inr h
    · rcases namesL_allocs' sh' ys z h with h | h
      · exact Or.inl (List.mem_cons_of_mem _ h)
      · exact Or.inr h

/-- insertion of several dead allocations in front of a block, in ONE state in which the extents
    have positive values (no condition on the form of the extents) -/
theorem dead_allocs_insert_sem [DataAlg V] (ext : String → List V → V) (sh' : List Expr)
    (rest : List Stmt) (σ : State V) (hvo : ViewsOk σ) (szs' : List Int)
    (hsz : evalCs σ sh' = .ok szs') (hpos : checkSizes szs' = .ok ()) :
    ∀ (ys : List Sym), ys.Nodup → (∀ y ∈ namesEs sh' ++ namesL rest, y ∉ ys) →
      ∀ o, execB ext rest σ = .ok o →
        ∃ o', execB ext (ys.map (fun y => Stmt.alloc y sh') ++ rest) σ = .ok o' ∧ Ref o o'
  | [], _, _, o, ho => ⟨o, ho, Ref.refl o⟩
  | y :: ys, hnd, hx, o, ho => by
    obtain ⟨o1, ho1, r1⟩ := dead_allocs_insert_sem ext sh' rest σ hvo szs' hsz hpos ys
      (List.nodup_cons.1 hnd).2 (fun z hz hm => hx z hz (List.mem_cons_of_mem _ hm)) o ho
    have hl := dead_alloc_lock ext CellRel.refines y sh'
      (ys.map (fun y => Stmt.alloc y sh') ++ rest) σ σ (Ref.refl σ).sim hvo szs' hsz hpos (by
        intro z hz e
        subst e
        rw [namesL_append] at hz
        rcases List.mem_append.1 hz with hz | hz
        · rcases namesL_allocs' sh' ys z hz with hm | hm
          · exact (List.nodup_cons.1 hnd).1 hm
          · exact hx z (List.mem_append_left _ hm) (List.mem_cons_self ..)
        · exact hx z (List.mem_append_right _ hz) (List.mem_cons_self ..))
    obtain ⟨o2, ho2, r2⟩ := hl.ok_left ho1
    exact ⟨o2, ho2, r1.trans r2⟩

/-- insertion of several dead allocations with positive literal extents -/
theorem dead_allocs_insert_refW (sh' : List Expr) (hlit : posLits sh' = true) (rest : List Stmt) :
    ∀ (ys : List Sym), ys.Nodup → (∀ y ∈ namesL rest, y ∉ ys) →
      BlockRefW rest (ys.map (fun y => Stmt.alloc y sh') ++ rest)
  | [], _, _ => BlockRefW.refl rest
  | y :: ys, hnd, hx => by
    have ih := dead_allocs_insert_refW sh' hlit rest ys (List.nodup_cons.1 hnd).2
      (fun z hz hm => hx z hz (List.mem_cons_of_mem _ hm))
    refine ih.trans ?_
    simp only [List.map_cons, List.cons_append]
    refine dead_alloc_insert_refW y sh' _ hlit ?_
    intro z hz e
    rw [namesL_append] at hz
    rcases List.mem_append.1 hz with hz | hz
    · have hm := namesL_allocs sh' (posLits_names sh' hlit) ys z hz
      subst e
      exact (List.nodup_cons.1 hnd).1 hm
    · exact hx z hz (e ▸ List.mem_cons_self ..)

/-! ### the two states after the allocations are related -/

section
variable (σ : State V) (x : Sym) (d : Nat) (szs : List Int) (order : List Nat) (n0 : Sym)
  (nt : List Sym)

/-- left: `x : T[szs]`, then the dead allocations `nt`; right: the allocations `n0 :: nt` -/
theorem rel_init (hvo : ViewsOk σ) (hlen : (n0 :: nt).length = order.length)
    (hxn : x ∉ n0 :: nt) :
    Rel (fun y => y = x ∨ y ∈ n0 :: nt) σ.heap.length (nt.length + 1)
      (UQ d szs order (fun k => order.idxOf k))
      (fun y => lookupSym y (allocsSt (allocSt σ x szs) nt (szs.eraseIdx d)).views)
      (fun y => lookupSym y (allocsSt σ (n0 :: nt) (szs.eraseIdx d)).views)
      (allocsSt (allocSt σ x szs) nt (szs.eraseIdx d))
      (allocsSt σ (n0 :: nt) (szs.eraseIdx d)) := by
  have hL : (allocsSt (allocSt σ x szs) nt (szs.eraseIdx d)).heap
      = σ.heap ++ ([List.replicate (prodL szs).toNat none] ++
          List.replicate nt.length (List.replicate (prodL (szs.eraseIdx d)).toNat none)) := by
    rw [allocsSt_heap]
    simp only [allocSt, foldl_one, List.append_assoc]
  have hR : (allocsSt σ (n0 :: nt) (szs.eraseIdx d)).heap
      = σ.heap ++ List.replicate (nt.length + 1)
          (List.replicate (prodL (szs.eraseIdx d)).toNat none) := by
    rw [allocsSt_heap]; rfl
  refine ⟨?_, ?_, ?_, ?_, ?_, fun y _ => ⟨rfl, rfl⟩⟩
  · rw [allocsSt_env, allocsSt_env]; rfl
  · rw [allocsSt_cfg, allocsSt_cfg]; rfl
  · rw [hL, hR]
    refine ⟨by simp, by simp only [List.length_append, List.length_cons, List.length_nil,
      List.length_replicate]; omega, ?_, ?_⟩
    · intro b hb
      rcases hb with hb | hb
      · rw [List.getElem?_append_left hb, List.getElem?_append_left hb]
      · rw [List.getElem?_eq_none_iff.2 (by simp; omega), List.getElem?_eq_none_iff.2 (by simp; omega)]
    · refine ⟨[List.replicate (prodL szs).toNat none] ++
          List.replicate nt.length (List.replicate (prodL (szs.eraseIdx d)).toNat none),
        List.replicate (nt.length + 1) (List.replicate (prodL (szs.eraseIdx d)).toNat none),
        by simp, by simp, fun j _ => ?_, fun j _ => ?_, ?_⟩
      · rw [List.getElem?_append_right (Nat.le_add_right _ _), Nat.add_sub_cancel_left]
      · rw [List.getElem?_append_right (Nat.le_add_right _ _), Nat.add_sub_cancel_left]
      · refine ⟨List.replicate (prodL szs).toNat none, by simp, by simp, ?_⟩
        intro k hk
        have hj : order.idxOf k < nt.length + 1 := by
          have := List.idxOf_lt_length_of_mem hk
          simp only [List.length_cons] at hlen
          omega
        refine ⟨List.replicate (prodL (szs.eraseIdx d)).toNat none,
          by rw [List.getElem?_replicate, if_pos hj], by simp, ?_⟩
        intro is o o' h1 _ h2
        obtain ⟨p0, p1⟩ := dense_bounds h1
        obtain ⟨q0, q1⟩ := dense_bounds h2
        rw [List.getElem?_replicate, List.getElem?_replicate, if_pos (by omega), if_pos (by omega)]
  · intro y hy
    have hyx : ¬ y = x := fun e => hy (Or.inl e)
    have hyn : y ∉ n0 :: nt := fun e => hy (Or.inr e)
    rw [allocsSt_lookup_notin _ _ _ _ hyn,
      allocsSt_lookup_notin _ _ _ _ (fun hm => hyn (List.mem_cons_of_mem _ hm))]
    simp only [allocSt, lookupSym, if_neg hyx]
  · intro y v hy hl
    have hyx : ¬ y = x := fun e => hy (Or.inl e)
    have hyn : y ∉ n0 :: nt := fun e => hy (Or.inr e)
    rw [allocsSt_lookup_notin _ _ _ _ (fun hm => hyn (List.mem_cons_of_mem _ hm))] at hl
    simp only [allocSt, lookupSym, if_neg hyx] at hl
    exact Or.inl (hvo (y, v) (lookupSym_mem hl))

theorem ctx_init (hlen : (n0 :: nt).length = order.length) (hnd : (n0 :: nt).Nodup)
    (hxn : x ∉ n0 :: nt) :
    UCtx x d order (fun k => (n0 :: nt).getD (order.idxOf k) x) (fun y => y ∈ n0 :: nt)
      σ.heap.length (nt.length + 1) szs (fun k => order.idxOf k)
      (fun y => lookupSym y (allocsSt (allocSt σ x szs) nt (szs.eraseIdx d)).views)
      (fun y => lookupSym y (allocsSt σ (n0 :: nt) (szs.eraseIdx d)).views) := by
  have hj : ∀ k, k ∈ order → order.idxOf k < (n0 :: nt).length := fun k hk => by
    rw [hlen]; exact List.idxOf_lt_length_of_mem hk
  have hget : ∀ k (hk : k ∈ order),
      (n0 :: nt).getD (order.idxOf k) x = (n0 :: nt)[order.idxOf k]'(hj k hk) := fun k hk => by
    rw [List.getD_eq_getElem?_getD, List.getElem?_eq_getElem (hj k hk)]; rfl
  refine ⟨Nat.succ_pos _, ?_, ?_, ?_, ?_, ?_⟩
  · show lookupSym x (allocsSt (allocSt σ x szs) nt (szs.eraseIdx d)).views = _
    rw [allocsSt_lookup_notin _ _ _ _ (fun hm => hxn (List.mem_cons_of_mem _ hm))]
    simp only [allocSt, lookupSym, if_true]
  · intro k hk
    show lookupSym ((n0 :: nt).getD (order.idxOf k) x) _ = _
    rw [hget k hk]
    exact allocsSt_lookup_in _ _ σ hnd _ (hj k hk)
  · intro k hk
    show (n0 :: nt).getD (order.idxOf k) x ∈ n0 :: nt
    rw [hget k hk]
    exact List.getElem_mem _
  · intro k hk
    have := hj k hk
    simpa using this
  · intro k₁ k₂ h1 h2 e
    have a : order[order.idxOf k₁]? = some k₁ := by
      rw [List.getElem?_eq_getElem (List.idxOf_lt_length_of_mem h1), List.getElem_idxOf]
    have b : order[order.idxOf k₂]? = some k₂ := by
      rw [List.getElem?_eq_getElem (List.idxOf_lt_length_of_mem h2), List.getElem_idxOf]
    have e' : order.idxOf k₁ = order.idxOf k₂ := e
    rw [e'] at a
    exact Option.some.inj (a.symm.trans b)

end

end Exo.Stg.Unroll

namespace Exo.Rw
open Exo

/-- the executable side condition of `unroll_buffer` on `x : T[sh] ; r` with emission order `order`:
    the extents are expressions over control variables and integer literals (`Expr.envOnly`: no
    `stride`, no configuration read); distinct new names, different from `x`, occurring nowhere in `sh`,
    `r`; if no index is used `x` does not occur in `r` at all, otherwise the access guard `unrollOkL` -/
def unrollGuard (x : Sym) (d : Nat) (sh : List Expr) (order : List Nat) (names : List Sym)
    (r : List Stmt) : Bool :=
  sh.all Expr.envOnly && decide names.Nodup && !names.contains x &&
    names.all (fun y => notIn y (namesEs sh ++ namesL r)) &&
    (if order.isEmpty then notIn x (namesL r) else unrollOkL x d order r)

/-- `unroll_buffer` with the guard -/
def unrollBufferChecked (d : Nat) (names : List Sym) : Local
  | .alloc x sh :: r =>
    match unrollOrder x d sh r with
    | some order =>
      if unrollGuard x d sh order names r then unrollBuffer d names (.alloc x sh :: r) else none
    | none => none
  | _ => none

end Exo.Rw

namespace Exo.Stg
open Exo Exo.ReidxInst Exo.Stg.Unroll
variable {V : Type}

section
variable [DataAlg V] (ext : String → List V → V)

/-- **unroll_buffer, state level, one-directional.**  In a well-scoped state, for extents over control
    variables and literals, distinct new names `n0 :: nt` (one per element of `order`), under the guard:
    whenever `x : T[sh] ; x_{k2} : T[sh-d] ; … ; x_{ku} : T[sh-d] ; rest` (the original block followed by
    the `u - 1` dead allocations of the same-layout trick) succeeds, the unrolled block succeeds with the
    SAME final state.  (That the extents are positive and that every used literal is `< sh[d]` follows
    from the success of the left run.) -/
theorem unroll_buffer_fwd_partial (x : Sym) (d : Nat) (sh : List Expr) (order : List Nat)
    (n0 : Sym) (nt : List Sym) (rest : List Stmt) (σ : State V) (hvo : ViewsOk σ)
    (henv : ∀ e ∈ sh, e.envOnly = true) (hlen : (n0 :: nt).length = order.length)
    (hnd : (n0 :: nt).Nodup) (hxn : x ∉ n0 :: nt)
    (hg : Rw.unrollOkL x d order rest = true) (hnew : ∀ y ∈ namesL rest, y ∉ n0 :: nt) :
    Fwd Eq
      (execB ext (.alloc x sh :: (nt.map (fun y => Stmt.alloc y (sh.eraseIdx d)) ++ rest)) σ)
      (execB ext ((n0 :: nt).map (fun y => Stmt.alloc y (sh.eraseIdx d)) ++
        Rw.unrollL x d (fun k => (n0 :: nt).getD (order.idxOf k) x) rest) σ) := by
  intro o ho
  obtain ⟨t1, ht1, rfl⟩ := execB_ok_inv ext ho
  simp only [execL] at ht1
  obtain ⟨σ1, hal, hrun⟩ := except_bind_ok_inv ht1
  obtain ⟨szs, hsz, hpos⟩ := execS_alloc_ok ext hal
  have hal1 := execS_alloc ext x sh σ szs hsz hpos
  have e1 := Except.ok.inj (hal.symm.trans hal1)
  subst e1
  have hsz' : ∀ s : State V, s.env = σ.env → evalCs s (sh.eraseIdx d) = .ok (szs.eraseIdx d) :=
    fun s he => by
      rw [Stage.evalCs_env_eq _ (envOnly_eraseIdx d henv) σ s he]
      exact evalCs_eraseIdx d hsz
  have hpos' := checkSizes_eraseIdx d hpos
  have hrun : execL ext (nt.map (fun y => Stmt.alloc y (sh.eraseIdx d)) ++ rest) (allocSt σ x szs)
      = .ok t1 := hrun
  rw [execL_allocs ext _ _ σ.env hsz' hpos' nt rest (allocSt σ x szs) rfl] at hrun
  obtain ⟨t1', ht1', hrel⟩ :=
    execL_unroll ext (ctx_init σ x d szs order n0 nt hlen hnd hxn) rest _ _ hg hnew
      (rel_init σ x d szs order n0 nt hvo hlen hxn) t1 hrun
  refine ⟨State.leave σ t1', ?_, (hrel.leave_eq σ rfl).symm⟩
  unfold execB
  rw [execL_allocs ext _ _ σ.env hsz' hpos' (n0 :: nt) _ σ rfl, ht1']
  rfl

end

/-- **unroll_buffer as a refinement between well-scoped states** (`u ≥ 1` used indices).  The `u - 1`
    dead allocations are inserted in the state after `x : T[sh]` of the run at hand
    (`dead_allocs_insert_sem`), where the extents are known to be positive. -/
theorem unroll_buffer_refW_partial (x : Sym) (d : Nat) (sh : List Expr) (order : List Nat)
    (n0 : Sym) (nt : List Sym) (rest : List Stmt)
    (henv : ∀ e ∈ sh, e.envOnly = true) (hlen : (n0 :: nt).length = order.length)
    (hnd : (n0 :: nt).Nodup) (hxn : x ∉ n0 :: nt)
    (hg : Rw.unrollOkL x d order rest = true)
    (hnew : ∀ y ∈ namesEs sh ++ namesL rest, y ∉ n0 :: nt) :
    BlockRefW (.alloc x sh :: rest)
      ((n0 :: nt).map (fun y => Stmt.alloc y (sh.eraseIdx d)) ++
        Rw.unrollL x d (fun k => (n0 :: nt).getD (order.idxOf k) x) rest) := by
  intro V _ ext s s' t hr ht
  obtain ⟨t1, ht1, hr1⟩ := BlockRefW.refl (.alloc x sh :: rest) V ext s s' t hr ht
  obtain ⟨u1, hu1, rfl⟩ := execB_ok_inv ext ht1
  simp only [execL] at hu1
  obtain ⟨s1, hal, hrest⟩ := except_bind_ok_inv hu1
  obtain ⟨szs, hsz, hpos⟩ := execS_alloc_ok ext hal
  have hok1 : ViewsOk s1 := execS_viewsOk ext _ s' s1 hal hr.ok'
  have hal1 := execS_alloc ext x sh s' szs hsz hpos
  have e1 := Except.ok.inj (hal.symm.trans hal1)
  subst e1
  have hsz1 : evalCs (allocSt s' x szs) (sh.eraseIdx d) = .ok (szs.eraseIdx d) := by
    rw [Stage.evalCs_env_eq _ (envOnly_eraseIdx d henv) s' (allocSt s' x szs) rfl]
    exact evalCs_eraseIdx d hsz
  have hnsh : ∀ y ∈ namesEs (sh.eraseIdx d) ++ namesL rest, y ∉ nt := by
    intro y hy hm
    refine hnew y ?_ (List.mem_cons_of_mem _ hm)
    rcases List.mem_append.1 hy with hy | hy
    · obtain ⟨e, he, hye⟩ := mem_namesEs.1 hy
      exact List.mem_append_left _ (mem_namesEs.2 ⟨e, List.mem_of_mem_eraseIdx he, hye⟩)
    · exact List.mem_append_right _ hy
  obtain ⟨o', ho', rr⟩ := dead_allocs_insert_sem ext (sh.eraseIdx d) rest (allocSt s' x szs) hok1 _
    hsz1 (checkSizes_eraseIdx d hpos) nt (List.nodup_cons.1 hnd).2 hnsh _ (execB_ok ext hrest)
  obtain ⟨u2, hu2, rfl⟩ := execB_ok_inv ext ho'
  have hmid : execB ext (.alloc x sh :: (nt.map (fun y => Stmt.alloc y (sh.eraseIdx d)) ++ rest)) s'
      = .ok (State.leave s' u2) := by
    unfold execB
    rw [Exo.execL_cons_ok ext hal1]
    show (execL ext _ (allocSt s' x szs)).map _ = _
    rw [hu2]
    rfl
  obtain ⟨t', ht', e'⟩ :=
    unroll_buffer_fwd_partial ext x d sh order n0 nt rest s' hr.ok' henv hlen hnd hxn hg
      (fun y hy => hnew y (List.mem_append_right _ hy)) _ hmid
  subst e'
  have hle : s'.heap.length ≤ (allocSt s' x szs).heap.length := by
    simp only [allocSt, List.length_append, List.length_cons, List.length_nil]; omega
  have hle1 := (execL_scope ext rest _ u1 hrest).2.1
  refine ⟨_, ht', hr1.trans ⟨?_, hr.ok'.leave (Nat.le_trans hle hle1)⟩⟩
  have h3 := (Ref.refl s').leave rr (by
    have e := leave_heap_length (allocSt s' x szs) u1 hle1
    rw [e]; exact hle)
  rwa [leave_leave s' _ u1 hle, leave_leave s' _ u2 hle] at h3

/-- **unroll_buffer of a buffer that is never mentioned** (`u = 0`): NO allocation is left -/
theorem unroll_buffer_unused_refW (x : Sym) (d : Nat) (nm : Nat → Sym) (sh : List Expr)
    (rest : List Stmt) (hx : ∀ y ∈ namesL rest, y ≠ x) :
    BlockRefW (.alloc x sh :: rest) (Rw.unrollL x d nm rest) := by
  rw [unrollL_id x d nm rest hx]
  exact dead_alloc_refW x sh rest hx

/-- **the guarded `Local` is refinement-sound on every block suffix** -/
theorem unrollBufferChecked_sound (d : Nat) (names : List Sym) :
    ∀ ss r, Rw.unrollBufferChecked d names ss = some r → BlockRefW ss r := by
  intro ss r h
  cases ss with
  | nil => simp [Rw.unrollBufferChecked] at h
  | cons a rest =>
    cases a with
    | alloc x sh =>
      simp only [Rw.unrollBufferChecked] at h
      cases ho : Rw.unrollOrder x d sh rest with
      | none => rw [ho] at h; cases h
      | some order =>
        rw [ho] at h
        simp only [] at h
        split at h
        · rename_i hgd
          simp only [Rw.unrollBuffer, ho] at h
          split at h
          · rename_i hl
            have hl' : names.length = order.length := by simpa using hl
            have hr : names.map (fun y => Stmt.alloc y (sh.eraseIdx d)) ++
                Rw.unrollL x d (fun k => names.getD (order.idxOf k) x) rest = r :=
              Option.some.inj h
            subst hr
            simp only [Rw.unrollGuard, Bool.and_eq_true, decide_eq_true_eq, Bool.not_eq_true'] at hgd
            obtain ⟨⟨⟨⟨henv0, hnd⟩, hxn0⟩, hnew0⟩, hcase⟩ := hgd
            have henv : ∀ e ∈ sh, e.envOnly = true := List.all_eq_true.1 henv0
            have hxn : x ∉ names := by simpa using hxn0
            have hnew : ∀ y ∈ namesEs sh ++ namesL rest, y ∉ names := by
              intro y hy hm
              have := List.all_eq_true.1 hnew0 y hm
              exact Rw.notIn_iff.1 this y hy rfl
            cases order with
            | nil =>
              have hn : names = [] := List.eq_nil_of_length_eq_zero (by simpa using hl')
              subst hn
              simp only [List.isEmpty_nil, ↓reduceIte] at hcase
              simp only [List.map_nil, List.nil_append]
              exact unroll_buffer_unused_refW x d _ sh rest (Rw.notIn_iff.1 hcase)
            | cons k ks =>
              cases names with
              | nil => simp at hl'
              | cons n0 nt =>
                simp only [List.isEmpty_cons, Bool.false_eq_true, ↓reduceIte] at hcase
                exact unroll_buffer_refW_partial x d sh (k :: ks) n0 nt rest henv hl' hnd hxn hcase
                  hnew
          · cases h
        · cases h
    | _ => simp [Rw.unrollBufferChecked] at h

/-- **guarded `unroll_buffer` anywhere in a procedure**: applied by `rewriteAt` at any statement
    address, it preserves the behaviour on well-scoped initial states -/
theorem unroll_buffer_anywhere_partial (d : Nat) (names : List Sym)
    (path : Rw.Path) (nm : String) (args : List FnArg) (preds : List Expr)
    (body body' : List Stmt)
    (h : Rw.rewriteAt (Rw.unrollBufferChecked d names) path body = some body') :
    EquivOn WellScoped (fun _ => False) (.mk nm args preds body) (.mk nm args preds body') :=
  equivOn_of_blockRefW (rewriteAt_refW _ (unrollBufferChecked_sound d names) path body body' h)
    nm args preds

end Exo.Stg

/-! ### a concrete instance, and the counter-example for finding S3 -/
namespace Exo.Stg.UnrollEx
open Exo

def sT : Sym := ⟨"t", 9⟩
def sT0 : Sym := ⟨"t_0", 10⟩
def sT1 : Sym := ⟨"t_1", 11⟩
def sA : Sym := ⟨"a", 1⟩
def sY : Sym := ⟨"y", 2⟩
def lit (k : Int) : Expr := .lit (.int k)
def ext0 : String → List Int → Int := fun _ _ => 0

/-- `t : R[2,3] ; t[0,1] = a[0] ; t[1,2] = a[1] ; y[0] = t[0,1] + t[1,2]` -/
def before : List Stmt :=
  [.alloc sT [lit 2, lit 3],
   .assign sT [lit 0, lit 1] (.read sA [lit 0]),
   .assign sT [lit 1, lit 2] (.read sA [lit 1]),
   .assign sY [lit 0] (.binop .add (.read sT [lit 0, lit 1]) (.read sT [lit 1, lit 2]))]

/-- `t_0 : R[3] ; t_1 : R[3] ; t_0[1] = a[0] ; t_1[2] = a[1] ; y[0] = t_0[1] + t_1[2]` -/
def after : List Stmt :=
  [.alloc sT0 [lit 3], .alloc sT1 [lit 3],
   .assign sT0 [lit 1] (.read sA [lit 0]),
   .assign sT1 [lit 2] (.read sA [lit 1]),
   .assign sY [lit 0] (.binop .add (.read sT0 [lit 1]) (.read sT1 [lit 2]))]

def σ0 : State Int :=
  { env := [], views := [(sA, ⟨0, 0, [(2, 1)]⟩), (sY, ⟨1, 0, [(1, 1)]⟩)],
    heap := [[some 5, some 7], [none]], cfg := [] }

theorem ex_order : Rw.unrollOrder sT 0 [lit 2, lit 3] before.tail = some [0, 1] := by rfl

theorem ex_shape : Rw.unrollBuffer 0 [sT0, sT1] before = some after := by rfl

theorem ex_rewrite : Rw.unrollBufferChecked 0 [sT0, sT1] before = some after := by rfl

theorem ex_refW : BlockRefW before after := unrollBufferChecked_sound 0 _ _ _ ex_rewrite

example : (execB ext0 before σ0).toOption.map (·.heap) = some [[some 5, some 7], [some 12]] := by
  decide +kernel

example : (execB ext0 after σ0).toOption.map (·.heap) = some [[some 5, some 7], [some 12]] := by
  decide +kernel

/-- the same for the trailing dimension (`d = 1`): `t[0,1]`, `t[1,2]` become `t_1[0]`, `t_2[1]`
    (the names are given in emission order `[1, 2]`) -/
theorem ex_rewrite_d1 : Rw.unrollBufferChecked 1 [sT0, sT1] before = some
    [.alloc sT0 [lit 2], .alloc sT1 [lit 2],
     .assign sT0 [lit 0] (.read sA [lit 0]),
     .assign sT1 [lit 1] (.read sA [lit 1]),
     .assign sY [lit 0] (.binop .add (.read sT0 [lit 0]) (.read sT1 [lit 1]))] := by rfl

/-! #### a symbolic extent and an emission order that is not ascending

`t : R[10, n] ; t[9,0] = a[0] ; t[1,1] = a[1] ; y[0] = t[9,0] + t[1,1]`: the Python set `{9, 1}` iterates
as `9, 1` (both keys hash to slot 1 of the 8-slot table), so the allocation of `t_9` comes FIRST. -/

def sN : Sym := ⟨"n", 3⟩
def sT9 : Sym := ⟨"t_9", 12⟩

def before2 : List Stmt :=
  [.alloc sT [lit 10, .read sN []],
   .assign sT [lit 9, lit 0] (.read sA [lit 0]),
   .assign sT [lit 1, lit 1] (.read sA [lit 1]),
   .assign sY [lit 0] (.binop .add (.read sT [lit 9, lit 0]) (.read sT [lit 1, lit 1]))]

def after2 : List Stmt :=
  [.alloc sT9 [.read sN []], .alloc sT1 [.read sN []],
   .assign sT9 [lit 0] (.read sA [lit 0]),
   .assign sT1 [lit 1] (.read sA [lit 1]),
   .assign sY [lit 0] (.binop .add (.read sT9 [lit 0]) (.read sT1 [lit 1]))]

theorem ex2_order : Rw.unrollOrder sT 0 [lit 10, .read sN []] before2.tail = some [9, 1] := by rfl

theorem ex2_rewrite : Rw.unrollBufferChecked 0 [sT9, sT1] before2 = some after2 := by rfl

theorem ex2_refW : BlockRefW before2 after2 := unrollBufferChecked_sound 0 _ _ _ ex2_rewrite

example : (execB ext0 before2 { σ0 with env := [(sN, 2)] }).toOption.map (·.heap)
    = some [[some 5, some 7], [some 12]] := by decide +kernel

example : (execB ext0 after2 { σ0 with env := [(sN, 2)] }).toOption.map (·.heap)
    = some [[some 5, some 7], [some 12]] := by decide +kernel

/-! #### finding S3: `stride(t, 1)` is left on the removed symbol -/

/-- `t : R[2,4] ; t[0,0] = 1.0 ; c.f = stride(t, 1)` -/
def s3Before : List Stmt :=
  [.alloc sT [lit 2, lit 4],
   .assign sT [lit 0, lit 0] (.lit (.data 1 1)),
   .writecfg "c" "f" (.stride sT 1) false]

/-- what `DoUnrollBuffer` produces: `t_0 : R[4] ; t_0[0] = 1.0 ; c.f = stride(t, 1)` -/
def s3After : List Stmt :=
  [.alloc sT0 [lit 4],
   .assign sT0 [lit 0] (.lit (.data 1 1)),
   .writecfg "c" "f" (.stride sT 1) false]

def σ3 : State Int := { env := [], views := [], heap := [], cfg := [] }

theorem s3_shape : Rw.unrollBuffer 0 [sT0] s3Before = some s3After := by rfl

/-- the guard rejects it -/
theorem s3_guard : Rw.unrollBufferChecked 0 [sT0] s3Before = none := by rfl

/-- **finding S3, kernel-checked**: the original block runs (`c.f = 1`), the unrolled block fails with a
    scope error (`t` is no longer allocated) -/
theorem unroll_buffer_stride_unsound : ¬ BlockRefW s3Before s3After := by
  intro h
  have h1 : (execB ext0 s3Before σ3).toOption.isSome = true := by decide +kernel
  have h2 : (execB ext0 s3After σ3).toOption.isSome = false := by decide +kernel
  cases ho : execB ext0 s3Before σ3 with
  | error e => rw [ho] at h1; simp [Except.toOption] at h1
  | ok o =>
    obtain ⟨o', ho', _⟩ := h Int ext0 σ3 σ3 o (WRef.refl (by unfold ViewsOk; decide)) ho
    rw [ho'] at h2
    simp [Except.toOption] at h2

end Exo.Stg.UnrollEx
