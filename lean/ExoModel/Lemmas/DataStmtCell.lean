/-
  Helpers for Props/C01DataStmt.lean: assignments and reductions as "evaluate, locate the cell,
  set the cell"; algebra of setting a cell.  (Private namespace `Exo.Ctx3`.)
-/
import ExoModel.Equiv
import ExoModel.DataLaws
import ExoModel.Lemmas.Exec
import ExoModel.Lemmas.Rewrites
import ExoModel.Lemmas.DataWrites

set_option linter.unusedSectionVars false
namespace Exo.Ctx3
open Exo Exo.C01
variable {V : Type} [DataAlg V] (ext : String → List V → V)

/-- the heap cell an access `x[idx]` denotes in `σ` -/
def cellAt (σ : State V) (x : Sym) (idx : List Expr) : Except Err (Nat × Nat) :=
  match lookupSym x σ.views with
  | some v => do
      let is ← evalCs σ idx
      cellOf σ.heap v is
  | none => throw .scope

/-- `σ` with cell `c` set to `v` -/
def setCell (σ : State V) (c : Nat × Nat) (v : Option V) : State V :=
  { σ with heap := heapSet σ.heap c v }

omit [DataAlg V] in
theorem writeCell_eq (σ : State V) (x : Sym) (idx : List Expr) (f : Option V → Option V) :
    writeCell σ x idx f
      = (cellAt σ x idx >>= fun c => pure (setCell σ c (f (heapGet σ.heap c)))) := by
  unfold writeCell cellAt
  cases lookupSym x σ.views with
  | none => rfl
  | some v =>
    simp only [bind, Except.bind]
    cases evalCs σ idx with
    | error e => rfl
    | ok is =>
      simp only []
      cases cellOf σ.heap v is <;> rfl

theorem execS_assign_eq (x : Sym) (idx : List Expr) (e : Expr) (σ : State V) :
    execS ext (.assign x idx e) σ
      = (evalD ext σ e >>= fun v => cellAt σ x idx >>= fun c => pure (setCell σ c v)) := by
  simp only [execS, writeCell_eq]

theorem execS_reduce_eq (x : Sym) (idx : List Expr) (e : Expr) (σ : State V) :
    execS ext (.reduce x idx e) σ
      = (evalD ext σ e >>= fun v => cellAt σ x idx >>= fun c =>
          pure (setCell σ c (lift2 DataAlg.add (heapGet σ.heap c) v))) := by
  simp only [execS, writeCell_eq]

theorem cellAt_setCell (σ : State V) (c : Nat × Nat) (v : Option V) (x : Sym) (idx : List Expr) :
    cellAt (setCell σ c v) x idx = cellAt σ x idx := by
  unfold cellAt setCell
  simp only []
  cases lookupSym x σ.views with
  | none => rfl
  | some w =>
    simp only []
    rw [evalCs_heap]
    cases evalCs σ idx with
    | error e => rfl
    | ok is => simp only [bind, Except.bind]; rw [cellOf_heapSet]

theorem setCell_setCell (σ : State V) (c : Nat × Nat) (v w : Option V) :
    setCell (setCell σ c v) c w = setCell σ c w := by
  simp [setCell, heapSet_heapSet]

omit [DataAlg V] in
/-- a located cell lies inside its buffer -/
theorem cellOf_valid {h : List (List (Option V))} {w : View} {is : List Int} {c : Nat × Nat}
    (hc : cellOf h w is = .ok c) : ∃ b, h[c.1]? = some b ∧ c.2 < b.length := by
  unfold cellOf at hc
  cases ho : viewOffset w.dims is w.off with
  | error e => rw [ho] at hc; cases hc
  | ok o =>
    rw [ho] at hc
    simp only [bind, Except.bind] at hc
    cases hb : h[w.buf]? with
    | none => rw [hb] at hc; cases hc
    | some b =>
      rw [hb] at hc
      simp only [] at hc
      split at hc
      · rename_i hlt
        cases hc
        exact ⟨b, hb, by omega⟩
      · cases hc

omit [DataAlg V] in
theorem cellAt_valid {σ : State V} {x : Sym} {idx : List Expr} {c : Nat × Nat}
    (hc : cellAt σ x idx = .ok c) : ∃ b, σ.heap[c.1]? = some b ∧ c.2 < b.length := by
  unfold cellAt at hc
  cases hl : lookupSym x σ.views with
  | none => rw [hl] at hc; cases hc
  | some w =>
    rw [hl] at hc
    simp only [bind, Except.bind] at hc
    cases hi : evalCs σ idx with
    | error e => rw [hi] at hc; cases hc
    | ok is => rw [hi] at hc; exact cellOf_valid hc

omit [DataAlg V] in
/-- reading back a cell that was just set -/
theorem heapGet_heapSet_same (h : List (List (Option V))) (c : Nat × Nat) (v : Option V)
    (hv : ∃ b, h[c.1]? = some b ∧ c.2 < b.length) : heapGet (heapSet h c v) c = v := by
  obtain ⟨b, hb, hlt⟩ := hv
  unfold heapGet heapSet
  rw [List.getElem?_modify]
  simp [hb, hlt]

omit [DataAlg V] in
theorem heapGet_setCell {σ : State V} {x : Sym} {idx : List Expr} {c : Nat × Nat}
    (hc : cellAt σ x idx = .ok c) (v : Option V) : heapGet (setCell σ c v).heap c = v :=
  heapGet_heapSet_same σ.heap c v (cellAt_valid hc)

omit [DataAlg V] in
@[simp] theorem setCell_env (σ : State V) (c v) : (setCell σ c v).env = σ.env := rfl
omit [DataAlg V] in
@[simp] theorem setCell_views (σ : State V) (c v) : (setCell σ c v).views = σ.views := rfl
omit [DataAlg V] in
@[simp] theorem setCell_cfg (σ : State V) (c v) : (setCell σ c v).cfg = σ.cfg := rfl

/-- inversion of a successful assignment -/
theorem assign_ok {x : Sym} {idx : List Expr} {e : Expr} {σ o : State V}
    (h : execS ext (.assign x idx e) σ = .ok o) :
    ∃ v c, evalD ext σ e = .ok v ∧ cellAt σ x idx = .ok c ∧ o = setCell σ c v := by
  rw [execS_assign_eq] at h
  cases hv : evalD ext σ e with
  | error err => rw [hv] at h; cases h
  | ok v =>
    rw [hv] at h
    simp only [bind, Except.bind] at h
    cases hc : cellAt σ x idx with
    | error err => rw [hc] at h; cases h
    | ok c => rw [hc] at h; cases h; exact ⟨v, c, rfl, rfl, rfl⟩

theorem reduce_ok {x : Sym} {idx : List Expr} {e : Expr} {σ o : State V}
    (h : execS ext (.reduce x idx e) σ = .ok o) :
    ∃ v c, evalD ext σ e = .ok v ∧ cellAt σ x idx = .ok c ∧
      o = setCell σ c (lift2 DataAlg.add (heapGet σ.heap c) v) := by
  rw [execS_reduce_eq] at h
  cases hv : evalD ext σ e with
  | error err => rw [hv] at h; cases h
  | ok v =>
    rw [hv] at h
    simp only [bind, Except.bind] at h
    cases hc : cellAt σ x idx with
    | error err => rw [hc] at h; cases h
    | ok c => rw [hc] at h; cases h; exact ⟨v, c, rfl, rfl, rfl⟩

theorem assign_of {x : Sym} {idx : List Expr} {e : Expr} {σ : State V} {v : Option V} {c : Nat × Nat}
    (hv : evalD ext σ e = .ok v) (hc : cellAt σ x idx = .ok c) :
    execS ext (.assign x idx e) σ = .ok (setCell σ c v) := by
  rw [execS_assign_eq, hv]; simp only [bind, Except.bind, hc]; rfl

theorem reduce_of {x : Sym} {idx : List Expr} {e : Expr} {σ : State V} {v : Option V} {c : Nat × Nat}
    (hv : evalD ext σ e = .ok v) (hc : cellAt σ x idx = .ok c) :
    execS ext (.reduce x idx e) σ = .ok (setCell σ c (lift2 DataAlg.add (heapGet σ.heap c) v)) := by
  rw [execS_reduce_eq, hv]; simp only [bind, Except.bind, hc]; rfl

/-- inversion of a successful pair of statements -/
theorem pair_ok {a b : Stmt} {σ o : State V} (h : execL ext [a, b] σ = .ok o) :
    ∃ σ1, execS ext a σ = .ok σ1 ∧ execS ext b σ1 = .ok o := by
  simp only [execL, bind, Except.bind] at h
  cases h1 : execS ext a σ with
  | error e => rw [h1] at h; cases h
  | ok σ1 =>
    rw [h1] at h
    simp only [] at h
    cases h2 : execS ext b σ1 with
    | error e => rw [h2] at h; cases h
    | ok o' => rw [h2] at h; simp only [pure, Except.pure] at h; cases h; exact ⟨σ1, rfl, h2⟩

theorem pair_of {a b : Stmt} {σ σ1 o : State V} (h1 : execS ext a σ = .ok σ1)
    (h2 : execS ext b σ1 = .ok o) : execL ext [a, b] σ = .ok o := by
  simp only [execL, bind, Except.bind, h1, h2]; rfl

theorem evalD_add {a b : Expr} {σ : State V} {va vb : Option V}
    (ha : evalD ext σ a = .ok va) (hb : evalD ext σ b = .ok vb) :
    evalD ext σ (.binop .add a b) = .ok (lift2 DataAlg.add va vb) := by
  simp only [evalD, ha, hb, bind, Except.bind, dataOp, pure, Except.pure]

theorem evalD_add_ok {a b : Expr} {σ : State V} {v : Option V}
    (h : evalD ext σ (.binop .add a b) = .ok v) :
    ∃ va vb, evalD ext σ a = .ok va ∧ evalD ext σ b = .ok vb ∧ v = lift2 DataAlg.add va vb := by
  simp only [evalD, bind, Except.bind] at h
  cases ha : evalD ext σ a with
  | error e => rw [ha] at h; cases h
  | ok va =>
    rw [ha] at h
    simp only [] at h
    cases hb : evalD ext σ b with
    | error e => rw [hb] at h; cases h
    | ok vb =>
      rw [hb] at h
      simp only [dataOp, pure, Except.pure, Except.ok.injEq] at h
      exact ⟨va, vb, rfl, rfl, h.symm⟩

end Exo.Ctx3

namespace Exo.Ctx3
open Exo
variable {V : Type} [DataAlg V] (ext : String → List V → V)

/-- the value of the data expression `b` in `σ` does not depend on the content of the cell that
    the access `x[idx]` denotes (through whatever view `b` might reach it) -/
def IndepOfCell (σ : State V) (x : Sym) (idx : List Expr) (b : Expr) : Prop :=
  ∀ c w, cellAt σ x idx = .ok c → evalD ext (setCell σ c w) b = evalD ext σ b

end Exo.Ctx3
