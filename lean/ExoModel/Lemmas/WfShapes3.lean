/-
  Well-formedness depends only on the names a block MENTIONS (`wfL_congr`), hence a block stays
  well formed when names it does not mention leave the scope (`strengthen_block`).  Consequences:
  the syntactic forms of the side conditions of `fission` (the tail mentions no name the head
  defines) and `reorder_stmts` (the second statement mentions no name the first defines).
-/
import ExoModel.Lemmas.WfShapes2

namespace Exo.WfShapes
open Exo Exo.Wf Exo.Rw

/-! ### expressions -/

section
variable {Γ₁ Γ₂ : Env}

theorem isCtrl_congr (x : Sym) (h : lookup x Γ₁ = lookup x Γ₂) : isCtrl Γ₁ x = isCtrl Γ₂ x := by
  simp [isCtrl, h]
theorem rankOf_congr (x : Sym) (h : lookup x Γ₁ = lookup x Γ₂) : rankOf Γ₁ x = rankOf Γ₂ x := by
  simp [rankOf, h]
theorem fresh_congr (x : Sym) (h : lookup x Γ₁ = lookup x Γ₂) : fresh Γ₁ x = fresh Γ₂ x := by
  simp [fresh, h]

theorem wfC_congr : ∀ (c : Expr), (∀ y ∈ symsE c, lookup y Γ₁ = lookup y Γ₂) →
    wfC Γ₁ c = wfC Γ₂ c
  | .read x idx, h => by
    simp only [wfC]
    rw [isCtrl_congr x (h x (by simp [symsE]))]
  | .lit (.int _), _ => by simp [wfC]
  | .lit (.bool _), _ => by simp [wfC]
  | .lit (.data _ _), _ => by simp [wfC]
  | .usub a, h => by
    simp only [wfC]
    exact wfC_congr a (fun y hy => h y (by simpa [symsE] using hy))
  | .binop op a b, h => by
    simp only [wfC]
    rw [wfC_congr a (fun y hy => h y (by simp [symsE, hy])),
        wfC_congr b (fun y hy => h y (by simp [symsE, hy]))]
  | .stride x d, h => by
    simp only [wfC]
    rw [rankOf_congr x (h x (by simp [symsE]))]
  | .readcfg _ _, _ => by simp [wfC]
  | .extern _ _, _ => by simp [wfC]
  | .win _ _, _ => by simp [wfC]

theorem wfCs_congr : ∀ (cs : List Expr), (∀ y ∈ symsEs cs, lookup y Γ₁ = lookup y Γ₂) →
    wfCs Γ₁ cs = wfCs Γ₂ cs
  | [], _ => by simp [wfCs]
  | c :: r, h => by
    simp only [wfCs]
    rw [wfC_congr c (fun y hy => h y (by simp [symsEs, hy])),
        wfCs_congr r (fun y hy => h y (by simp [symsEs, hy]))]

mutual
theorem wfD_congr : ∀ (c : Expr), (∀ y ∈ symsE c, lookup y Γ₁ = lookup y Γ₂) →
    wfD Γ₁ c = wfD Γ₂ c
  | .read x idx, h => by
    simp only [wfD]
    rw [rankOf_congr x (h x (by simp [symsE])),
        wfCs_congr idx (fun y hy => h y (by simp [symsE, hy]))]
  | .lit (.data _ _), _ => by simp [wfD]
  | .lit (.int _), _ => by simp [wfD]
  | .lit (.bool _), _ => by simp [wfD]
  | .usub a, h => by
    simp only [wfD]
    exact wfD_congr a (fun y hy => h y (by simpa [symsE] using hy))
  | .binop op a b, h => by
    simp only [wfD]
    rw [wfD_congr a (fun y hy => h y (by simp [symsE, hy])),
        wfD_congr b (fun y hy => h y (by simp [symsE, hy]))]
  | .extern f args, h => by
    simp only [wfD]
    exact wfDs_congr args (fun y hy => h y (by simpa [symsE] using hy))
  | .readcfg _ _, _ => by simp [wfD]
  | .win _ _, _ => by simp [wfD]
  | .stride _ _, _ => by simp [wfD]
theorem wfDs_congr : ∀ (cs : List Expr), (∀ y ∈ symsEs cs, lookup y Γ₁ = lookup y Γ₂) →
    wfDs Γ₁ cs = wfDs Γ₂ cs
  | [], _ => by simp [wfDs]
  | c :: r, h => by
    simp only [wfDs]
    rw [wfD_congr c (fun y hy => h y (by simp [symsEs, hy])),
        wfDs_congr r (fun y hy => h y (by simp [symsEs, hy]))]
end

theorem wfAccs_congr : ∀ (acc : List WAcc), (∀ y ∈ symsWs acc, lookup y Γ₁ = lookup y Γ₂) →
    wfAccs Γ₁ acc = wfAccs Γ₂ acc
  | [], _ => by simp [wfAccs]
  | .point c :: r, h => by
    simp only [wfAccs, wfAcc]
    rw [wfC_congr c (fun y hy => h y (by simp [symsWs, symsW, hy])),
        wfAccs_congr r (fun y hy => h y (by simp [symsWs, hy]))]
  | .interval lo hi :: r, h => by
    simp only [wfAccs, wfAcc]
    rw [wfC_congr lo (fun y hy => h y (by simp [symsWs, symsW, hy])),
        wfC_congr hi (fun y hy => h y (by simp [symsWs, symsW, hy])),
        wfAccs_congr r (fun y hy => h y (by simp [symsWs, hy]))]

theorem viewRank_congr (c : Expr) (h : ∀ y ∈ symsE c, lookup y Γ₁ = lookup y Γ₂) :
    viewRank Γ₁ c = viewRank Γ₂ c := by
  cases c with
  | read x idx =>
    cases idx with
    | nil => simp only [viewRank]; exact rankOf_congr x (h x (by simp [symsE]))
    | cons a l =>
      simp only [viewRank]
      rw [rankOf_congr x (h x (by simp [symsE])),
          wfCs_congr (a :: l) (fun y hy => h y (by simp [symsE, hy]))]
  | win x acc =>
    simp only [viewRank]
    rw [rankOf_congr x (h x (by simp [symsE])),
        wfAccs_congr acc (fun y hy => h y (by simp [symsE, hy]))]
  | lit _ => simp [viewRank]
  | usub _ => simp [viewRank]
  | binop _ _ _ => simp [viewRank]
  | extern _ _ => simp [viewRank]
  | stride _ _ => simp [viewRank]
  | readcfg _ _ => simp [viewRank]

theorem wfCallArgs_congr : ∀ (fs : List FnArg) (as : List Expr),
    (∀ y ∈ symsEs as, lookup y Γ₁ = lookup y Γ₂) → wfCallArgs Γ₁ fs as = wfCallArgs Γ₂ fs as
  | [], [], _ => by simp [wfCallArgs]
  | ⟨x, .ctrl k⟩ :: fs, a :: as, h => by
    simp only [wfCallArgs]
    rw [wfC_congr a (fun y hy => h y (by simp [symsEs, hy])),
        wfCallArgs_congr fs as (fun y hy => h y (by simp [symsEs, hy]))]
  | ⟨x, .scalar⟩ :: fs, a :: as, h => by
    simp only [wfCallArgs]
    rw [viewRank_congr a (fun y hy => h y (by simp [symsEs, hy])),
        wfCallArgs_congr fs as (fun y hy => h y (by simp [symsEs, hy]))]
  | ⟨x, .tensor sh w⟩ :: fs, a :: as, h => by
    simp only [wfCallArgs]
    rw [viewRank_congr a (fun y hy => h y (by simp [symsEs, hy])),
        wfCallArgs_congr fs as (fun y hy => h y (by simp [symsEs, hy]))]
  | [], _ :: _, _ => by simp [wfCallArgs]
  | ⟨_, .ctrl _⟩ :: _, [], _ => by simp [wfCallArgs]
  | ⟨_, .scalar⟩ :: _, [], _ => by simp [wfCallArgs]
  | ⟨_, .tensor _ _⟩ :: _, [], _ => by simp [wfCallArgs]

end

/-! ### statements and blocks -/

theorem agree_cons {Γ₁ Γ₂ : Env} (z : Sym) (k : Option Nat) (y : Sym)
    (h : lookup y Γ₁ = lookup y Γ₂) : lookup y ((z, k) :: Γ₁) = lookup y ((z, k) :: Γ₂) := by
  simp only [lookup_cons, h]

mutual
theorem wfS_congr : ∀ (s : Stmt) (Γ₁ Γ₂ Γ₁' : Env), (∀ y ∈ symsS s, lookup y Γ₁ = lookup y Γ₂) →
    wfS Γ₁ s = some Γ₁' → ∃ D : Env, Γ₁' = D ++ Γ₁ ∧ wfS Γ₂ s = some (D ++ Γ₂) ∧
      D.map Prod.fst = defName s
  | .assign x idx rhs, Γ₁, Γ₂, Γ₁', h, hw => by
    have e : wfS Γ₂ (.assign x idx rhs) = (wfS Γ₁ (.assign x idx rhs)).map (fun _ => Γ₂) := by
      simp only [wfS]
      rw [rankOf_congr x (h x (by simp [symsS])),
          wfCs_congr idx (fun y hy => h y (by simp [symsS, hy])),
          wfD_congr rhs (fun y hy => h y (by simp [symsS, hy]))]
      cases rankOf Γ₂ x with
      | none => rfl
      | some n => simp only []; split <;> rfl
    obtain ⟨D, e1, hn, _⟩ := wfS_shape Γ₁ Γ₁' _ hw
    have hD : D = [] := by simpa [defName] using hn
    subst hD
    exact ⟨[], e1, by rw [e, hw]; rfl, rfl⟩
  | .reduce x idx rhs, Γ₁, Γ₂, Γ₁', h, hw => by
    have e : wfS Γ₂ (.reduce x idx rhs) = (wfS Γ₁ (.reduce x idx rhs)).map (fun _ => Γ₂) := by
      simp only [wfS]
      rw [rankOf_congr x (h x (by simp [symsS])),
          wfCs_congr idx (fun y hy => h y (by simp [symsS, hy])),
          wfD_congr rhs (fun y hy => h y (by simp [symsS, hy]))]
      cases rankOf Γ₂ x with
      | none => rfl
      | some n => simp only []; split <;> rfl
    obtain ⟨D, e1, hn, _⟩ := wfS_shape Γ₁ Γ₁' _ hw
    have hD : D = [] := by simpa [defName] using hn
    subst hD
    exact ⟨[], e1, by rw [e, hw]; rfl, rfl⟩
  | .writecfg c f rhs d, Γ₁, Γ₂, Γ₁', h, hw => by
    have e : wfS Γ₂ (.writecfg c f rhs d) = (wfS Γ₁ (.writecfg c f rhs d)).map (fun _ => Γ₂) := by
      simp only [wfS]
      rw [wfC_congr rhs (fun y hy => h y (by simpa [symsS] using hy)),
          wfD_congr rhs (fun y hy => h y (by simpa [symsS] using hy))]
      split <;> (split <;> rfl)
    obtain ⟨D, e1, hn, _⟩ := wfS_shape Γ₁ Γ₁' _ hw
    have hD : D = [] := by simpa [defName] using hn
    subst hD
    exact ⟨[], e1, by rw [e, hw]; rfl, rfl⟩
  | .pass, Γ₁, Γ₂, Γ₁', _, hw => by
    simp only [wfS, Option.some.injEq] at hw
    subst hw
    exact ⟨[], rfl, by simp [wfS], rfl⟩
  | .free x, Γ₁, Γ₂, Γ₁', h, hw => by
    have e : wfS Γ₂ (.free x) = (wfS Γ₁ (.free x)).map (fun _ => Γ₂) := by
      simp only [wfS]
      rw [rankOf_congr x (h x (by simp [symsS]))]
      split <;> rfl
    obtain ⟨D, e1, hn, _⟩ := wfS_shape Γ₁ Γ₁' _ hw
    have hD : D = [] := by simpa [defName] using hn
    subst hD
    exact ⟨[], e1, by rw [e, hw]; rfl, rfl⟩
  | .call f args, Γ₁, Γ₂, Γ₁', h, hw => by
    have e : wfS Γ₂ (.call f args) = (wfS Γ₁ (.call f args)).map (fun _ => Γ₂) := by
      simp only [wfS]
      rw [wfCallArgs_congr f.args args (fun y hy => h y (by simpa [symsS] using hy))]
      split <;> rfl
    obtain ⟨D, e1, hn, _⟩ := wfS_shape Γ₁ Γ₁' _ hw
    have hD : D = [] := by simpa [defName] using hn
    subst hD
    exact ⟨[], e1, by rw [e, hw]; rfl, rfl⟩
  | .ite c t el, Γ₁, Γ₂, Γ₁', h, hw => by
    have hw' : (wfL Γ₁ (.ite c t el :: [])).isSome = true := by simp [wfL, hw]
    obtain ⟨hc, ht, he, _⟩ := ite_inv hw'
    obtain ⟨Γt, hΓt⟩ := Option.isSome_iff_exists.1 ht
    obtain ⟨Γe, hΓe⟩ := Option.isSome_iff_exists.1 he
    obtain ⟨_, _, ht2⟩ := wfL_congr t Γ₁ Γ₂ Γt (fun y hy => h y (by simp [symsS, hy])) hΓt
    obtain ⟨_, _, he2⟩ := wfL_congr el Γ₁ Γ₂ Γe (fun y hy => h y (by simp [symsS, hy])) hΓe
    obtain ⟨D, e1, hn, _⟩ := wfS_shape Γ₁ Γ₁' _ hw
    have hD : D = [] := by simpa [defName] using hn
    subst hD
    refine ⟨[], e1, ?_, rfl⟩
    rw [wfC_congr c (fun y hy => h y (by simp [symsS, hy]))] at hc
    simp [wfS, hc, ht2, he2]
  | .loop i lo hi b par, Γ₁, Γ₂, Γ₁', h, hw => by
    have hw' : (wfL Γ₁ (.loop i lo hi b par :: [])).isSome = true := by simp [wfL, hw]
    obtain ⟨hf, hlo, hhi, hb, _⟩ := loop_inv hw'
    obtain ⟨Γb, hΓb⟩ := Option.isSome_iff_exists.1 hb
    obtain ⟨_, _, hb2⟩ := wfL_congr b ((i, none) :: Γ₁) ((i, none) :: Γ₂) Γb
      (fun y hy => agree_cons i none y (h y (by simp [symsS, hy]))) hΓb
    obtain ⟨D, e1, hn, _⟩ := wfS_shape Γ₁ Γ₁' _ hw
    have hD : D = [] := by simpa [defName] using hn
    subst hD
    refine ⟨[], e1, ?_, rfl⟩
    rw [fresh_congr i (h i (by simp [symsS]))] at hf
    rw [wfC_congr lo (fun y hy => h y (by simp [symsS, hy]))] at hlo
    rw [wfC_congr hi (fun y hy => h y (by simp [symsS, hy]))] at hhi
    simp [wfS, hf, hlo, hhi, hb2]
  | .alloc x sh, Γ₁, Γ₂, Γ₁', h, hw => by
    simp only [wfS] at hw
    split at hw
    · rename_i hc
      simp only [Bool.and_eq_true] at hc
      cases hw
      refine ⟨[(x, some sh.length)], rfl, ?_, rfl⟩
      rw [fresh_congr x (h x (by simp [symsS]))] at hc
      rw [wfCs_congr sh (fun y hy => h y (by simp [symsS, hy]))] at hc
      simp [wfS, hc.1, hc.2]
    · cases hw
  | .window x rhs, Γ₁, Γ₂, Γ₁', h, hw => by
    simp only [wfS] at hw
    cases hv : viewRank Γ₁ rhs with
    | none => simp [hv] at hw
    | some n =>
      rw [hv] at hw
      simp only [] at hw
      split at hw
      · rename_i hf
        cases hw
        refine ⟨[(x, some n)], rfl, ?_, rfl⟩
        rw [viewRank_congr rhs (fun y hy => h y (by simp [symsS, hy]))] at hv
        rw [fresh_congr x (h x (by simp [symsS]))] at hf
        simp [wfS, hv, hf]
      · cases hw
theorem wfL_congr : ∀ (ss : List Stmt) (Γ₁ Γ₂ Γ₁' : Env),
    (∀ y ∈ symsL ss, lookup y Γ₁ = lookup y Γ₂) → wfL Γ₁ ss = some Γ₁' →
    ∃ D : Env, Γ₁' = D ++ Γ₁ ∧ wfL Γ₂ ss = some (D ++ Γ₂)
  | [], Γ₁, Γ₂, Γ₁', _, hw => by
    simp only [wfL, Option.some.injEq] at hw
    subst hw
    exact ⟨[], rfl, by simp [wfL]⟩
  | s :: r, Γ₁, Γ₂, Γ₁', h, hw => by
    simp only [wfL] at hw
    cases h1 : wfS Γ₁ s with
    | none => rw [h1] at hw; cases hw
    | some Γa =>
      rw [h1] at hw
      obtain ⟨D1, e1, hs, _⟩ := wfS_congr s Γ₁ Γ₂ Γa (fun y hy => h y (by simp [symsL, hy])) h1
      subst e1
      have hagree : ∀ y ∈ symsL r, lookup y (D1 ++ Γ₁) = lookup y (D1 ++ Γ₂) := by
        intro y hy
        cases hl : lookup y D1 with
        | none =>
          rw [lookup_append_none D1 Γ₁ y hl, lookup_append_none D1 Γ₂ y hl]
          exact h y (by simp [symsL, hy])
        | some k => rw [lookup_append_some D1 Γ₁ y k hl, lookup_append_some D1 Γ₂ y k hl]
      obtain ⟨D2, e2, hr⟩ := wfL_congr r (D1 ++ Γ₁) (D1 ++ Γ₂) Γ₁' hagree hw
      refine ⟨D2 ++ D1, by rw [e2, List.append_assoc], ?_⟩
      simp only [wfL, hs, List.append_assoc]
      exact hr
end

/-- names a block does not mention may leave the scope -/
theorem strengthen_block {Γ : Env} (D : Env) {ss : List Stmt}
    (hw : (wfL (D ++ Γ) ss).isSome = true) (hD : ∀ y ∈ D.map Prod.fst, y ∉ symsL ss) :
    (wfL Γ ss).isSome = true := by
  obtain ⟨Γ', hΓ'⟩ := Option.isSome_iff_exists.1 hw
  obtain ⟨D', _, h2⟩ := wfL_congr ss (D ++ Γ) Γ Γ' (by
    intro y hy
    have : lookup y D = none := lookup_none_of_not_mem D y (fun hm => hD y hm hy)
    exact lookup_append_none D Γ y this) hΓ'
  simp [h2]

/-! ### fission: the syntactic side condition -/

/-- if the tail of a well-formed loop body mentions no name that the head defines at top level
    (allocation or window), the tail alone is well formed in the loop's environment — the
    hypothesis of `fission_second_ok` -/
theorem fission_tail_wf {Γ : Env} {b : List Stmt} (k : Nat) (hb : (wfL Γ b).isSome = true)
    (hd : disj (defNames (b.take k)) (symsL (b.drop k)) = true) :
    (wfL Γ (b.drop k)).isSome = true := by
  have e : b = b.take k ++ b.drop k := (List.take_append_drop _ _).symm
  rw [e] at hb
  obtain ⟨Γa, h1, h2⟩ := append_inv hb
  obtain ⟨D, e1, hn, _⟩ := wfL_shape _ Γ Γa h1
  subst e1
  exact strengthen_block D h2 (fun y hy => (disj_iff _ _).1 hd y (hn y hy))

/-! ### every mentioned name is in scope or bound in the block (for the converse) -/

theorem mem_names_of_lookup {Γ : Env} {y : Sym} (h : lookup y Γ ≠ none) : y ∈ Γ.map Prod.fst := by
  cases hl : lookup y Γ with
  | none => exact absurd hl h
  | some k => exact mem_of_lookup_some Γ y k hl

section
variable {Γ : Env}

theorem wfC_syms : ∀ (c : Expr), wfC Γ c = true → ∀ y ∈ symsE c, lookup y Γ ≠ none
  | .read x [], h, y, hy => by
    simp only [symsE, symsEs, List.mem_singleton] at hy
    subst hy
    simp only [wfC, List.isEmpty_nil, Bool.and_true, isCtrl_iff] at h
    rw [h]; simp
  | .read x (_ :: _), h, _, _ => by simp [wfC] at h
  | .lit _, _, y, hy => by simp [symsE] at hy
  | .usub a, h, y, hy => by
    simp only [wfC] at h
    exact wfC_syms a h y (by simpa [symsE] using hy)
  | .binop op a b, h, y, hy => by
    simp only [wfC, Bool.and_eq_true] at h
    simp only [symsE, List.mem_append] at hy
    rcases hy with hy | hy
    · exact wfC_syms a h.1 y hy
    · exact wfC_syms b h.2 y hy
  | .stride x d, h, y, hy => by
    simp only [symsE, List.mem_singleton] at hy
    subst hy
    simp only [wfC] at h
    cases hr : rankOf Γ y with
    | none => simp [hr] at h
    | some n => rw [rankOf_iff] at hr; rw [hr]; simp
  | .readcfg _ _, _, y, hy => by simp [symsE] at hy
  | .extern _ _, h, _, _ => by simp [wfC] at h
  | .win _ _, h, _, _ => by simp [wfC] at h

theorem wfCs_syms : ∀ (cs : List Expr), wfCs Γ cs = true → ∀ y ∈ symsEs cs, lookup y Γ ≠ none
  | [], _, y, hy => by simp [symsEs] at hy
  | c :: r, h, y, hy => by
    simp only [wfCs, Bool.and_eq_true] at h
    simp only [symsEs, List.mem_append] at hy
    rcases hy with hy | hy
    · exact wfC_syms c h.1 y hy
    · exact wfCs_syms r h.2 y hy

mutual
theorem wfD_syms : ∀ (c : Expr), wfD Γ c = true → ∀ y ∈ symsE c, lookup y Γ ≠ none
  | .read x idx, h, y, hy => by
    simp only [wfD] at h
    cases hr : rankOf Γ x with
    | none => simp [hr] at h
    | some n =>
      rw [hr] at h
      simp only [Bool.and_eq_true] at h
      simp only [symsE, List.mem_cons] at hy
      rcases hy with hy | hy
      · subst hy; rw [rankOf_iff] at hr; rw [hr]; simp
      · exact wfCs_syms idx h.2 y hy
  | .lit _, _, y, hy => by simp [symsE] at hy
  | .usub a, h, y, hy => by
    simp only [wfD] at h
    exact wfD_syms a h y (by simpa [symsE] using hy)
  | .binop op a b, h, y, hy => by
    simp only [wfD, Bool.and_eq_true] at h
    simp only [symsE, List.mem_append] at hy
    rcases hy with hy | hy
    · exact wfD_syms a h.1.2 y hy
    · exact wfD_syms b h.2 y hy
  | .extern f args, h, y, hy => by
    simp only [wfD] at h
    exact wfDs_syms args h y (by simpa [symsE] using hy)
  | .readcfg _ _, _, y, hy => by simp [symsE] at hy
  | .win _ _, h, _, _ => by simp [wfD] at h
  | .stride _ _, h, _, _ => by simp [wfD] at h
theorem wfDs_syms : ∀ (cs : List Expr), wfDs Γ cs = true → ∀ y ∈ symsEs cs, lookup y Γ ≠ none
  | [], _, y, hy => by simp [symsEs] at hy
  | c :: r, h, y, hy => by
    simp only [wfDs, Bool.and_eq_true] at h
    simp only [symsEs, List.mem_append] at hy
    rcases hy with hy | hy
    · exact wfD_syms c h.1 y hy
    · exact wfDs_syms r h.2 y hy
end

theorem wfAccs_syms : ∀ (acc : List WAcc), wfAccs Γ acc = true →
    ∀ y ∈ symsWs acc, lookup y Γ ≠ none
  | [], _, y, hy => by simp [symsWs] at hy
  | .point c :: r, h, y, hy => by
    simp only [wfAccs, wfAcc, Bool.and_eq_true] at h
    simp only [symsWs, symsW, List.mem_append] at hy
    rcases hy with hy | hy
    · exact wfC_syms c h.1 y hy
    · exact wfAccs_syms r h.2 y hy
  | .interval lo hi :: r, h, y, hy => by
    simp only [wfAccs, wfAcc, Bool.and_eq_true] at h
    simp only [symsWs, symsW, List.mem_append] at hy
    rcases hy with (hy | hy) | hy
    · exact wfC_syms lo h.1.1 y hy
    · exact wfC_syms hi h.1.2 y hy
    · exact wfAccs_syms r h.2 y hy

theorem viewRank_syms (c : Expr) (n : Nat) (h : viewRank Γ c = some n) :
    ∀ y ∈ symsE c, lookup y Γ ≠ none := by
  intro y hy
  cases c with
  | read x idx =>
    simp only [symsE, List.mem_cons] at hy
    cases idx with
    | nil =>
      simp only [viewRank] at h
      rcases hy with hy | hy
      · subst hy; rw [rankOf_iff] at h; rw [h]; simp
      · simp [symsEs] at hy
    | cons a l =>
      simp only [viewRank] at h
      cases hr : rankOf Γ x with
      | none => simp [hr] at h
      | some k =>
        rw [hr] at h
        simp only [] at h
        split at h
        · rename_i hc
          simp only [Bool.and_eq_true] at hc
          rcases hy with hy | hy
          · subst hy; rw [rankOf_iff] at hr; rw [hr]; simp
          · exact wfCs_syms _ hc.2 y hy
        · cases h
  | win x acc =>
    simp only [symsE, List.mem_cons] at hy
    simp only [viewRank] at h
    cases hr : rankOf Γ x with
    | none => simp [hr] at h
    | some k =>
      rw [hr] at h
      simp only [] at h
      split at h
      · rename_i hc
        simp only [Bool.and_eq_true] at hc
        rcases hy with hy | hy
        · subst hy; rw [rankOf_iff] at hr; rw [hr]; simp
        · exact wfAccs_syms _ hc.2 y hy
      · cases h
  | lit _ => simp [viewRank] at h
  | usub _ => simp [viewRank] at h
  | binop _ _ _ => simp [viewRank] at h
  | extern _ _ => simp [viewRank] at h
  | stride _ _ => simp [viewRank] at h
  | readcfg _ _ => simp [viewRank] at h

theorem wfCallArgs_syms : ∀ (fs : List FnArg) (as : List Expr), wfCallArgs Γ fs as = true →
    ∀ y ∈ symsEs as, lookup y Γ ≠ none
  | [], [], _, y, hy => by simp [symsEs] at hy
  | ⟨x, .ctrl k⟩ :: fs, a :: as, h, y, hy => by
    simp only [wfCallArgs, Bool.and_eq_true] at h
    simp only [symsEs, List.mem_append] at hy
    rcases hy with hy | hy
    · exact wfC_syms a h.1 y hy
    · exact wfCallArgs_syms fs as h.2 y hy
  | ⟨x, .scalar⟩ :: fs, a :: as, h, y, hy => by
    simp only [wfCallArgs, Bool.and_eq_true, beq_iff_eq, argRank] at h
    simp only [symsEs, List.mem_append] at hy
    rcases hy with hy | hy
    · exact viewRank_syms a 0 h.1 y hy
    · exact wfCallArgs_syms fs as h.2 y hy
  | ⟨x, .tensor sh w⟩ :: fs, a :: as, h, y, hy => by
    simp only [wfCallArgs, Bool.and_eq_true, beq_iff_eq, argRank] at h
    simp only [symsEs, List.mem_append] at hy
    rcases hy with hy | hy
    · exact viewRank_syms a sh.length h.1 y hy
    · exact wfCallArgs_syms fs as h.2 y hy
  | [], _ :: _, h, _, _ => by simp [wfCallArgs] at h
  | ⟨_, .ctrl _⟩ :: _, [], h, _, _ => by simp [wfCallArgs] at h
  | ⟨_, .scalar⟩ :: _, [], h, _, _ => by simp [wfCallArgs] at h
  | ⟨_, .tensor _ _⟩ :: _, [], h, _, _ => by simp [wfCallArgs] at h

end

theorem lookup_cons_ne_none {Γ : Env} {z y : Sym} {k : Option Nat}
    (h : lookup y ((z, k) :: Γ) ≠ none) : y = z ∨ lookup y Γ ≠ none := by
  simp only [lookup_cons] at h
  by_cases hyz : y = z
  · exact Or.inl hyz
  · simp only [hyz, if_false] at h; exact Or.inr h

mutual
/-- every name a well-formed statement mentions is in scope or bound by the statement -/
theorem wfS_syms : ∀ (s : Stmt) (Γ Γ' : Env), wfS Γ s = some Γ' →
    ∀ y ∈ symsS s, lookup y Γ ≠ none ∨ y ∈ bindS s
  | .assign x idx rhs, Γ, Γ', h, y, hy => by
    simp only [wfS] at h
    cases hr : rankOf Γ x with
    | none => simp [hr] at h
    | some n =>
      rw [hr] at h
      simp only [] at h
      split at h
      · rename_i hc
        simp only [Bool.and_eq_true] at hc
        simp only [symsS, List.mem_cons, List.mem_append] at hy
        left
        rcases hy with hy | hy | hy
        · subst hy; rw [rankOf_iff] at hr; rw [hr]; simp
        · exact wfCs_syms idx hc.1.2 y hy
        · exact wfD_syms rhs hc.2 y hy
      · cases h
  | .reduce x idx rhs, Γ, Γ', h, y, hy => by
    simp only [wfS] at h
    cases hr : rankOf Γ x with
    | none => simp [hr] at h
    | some n =>
      rw [hr] at h
      simp only [] at h
      split at h
      · rename_i hc
        simp only [Bool.and_eq_true] at hc
        simp only [symsS, List.mem_cons, List.mem_append] at hy
        left
        rcases hy with hy | hy | hy
        · subst hy; rw [rankOf_iff] at hr; rw [hr]; simp
        · exact wfCs_syms idx hc.1.2 y hy
        · exact wfD_syms rhs hc.2 y hy
      · cases h
  | .writecfg c f rhs d, Γ, Γ', h, y, hy => by
    simp only [symsS] at hy
    left
    cases d with
    | true =>
      simp only [wfS, if_true] at h
      cases hc : wfD Γ rhs with
      | false => rw [hc] at h; simp at h
      | true => exact wfD_syms rhs hc y hy
    | false =>
      simp only [wfS, Bool.false_eq_true, if_false] at h
      cases hc : wfC Γ rhs with
      | false => rw [hc] at h; simp at h
      | true => exact wfC_syms rhs hc y hy
  | .pass, _, _, _, y, hy => by simp [symsS] at hy
  | .free x, Γ, Γ', h, y, hy => by
    simp only [symsS, List.mem_singleton] at hy
    subst hy
    simp only [wfS] at h
    split at h
    · rename_i hc
      obtain ⟨n, hn⟩ := Option.isSome_iff_exists.1 hc
      rw [rankOf_iff] at hn
      left; rw [hn]; simp
    · cases h
  | .call f args, Γ, Γ', h, y, hy => by
    simp only [symsS] at hy
    simp only [wfS] at h
    split at h
    · rename_i hc
      simp only [Bool.and_eq_true] at hc
      exact Or.inl (wfCallArgs_syms f.args args hc.2 y hy)
    · cases h
  | .ite c t el, Γ, Γ', h, y, hy => by
    have h' : (wfL Γ (.ite c t el :: [])).isSome = true := by simp [wfL, h]
    obtain ⟨hc, ht, he, _⟩ := ite_inv h'
    obtain ⟨Γt, hΓt⟩ := Option.isSome_iff_exists.1 ht
    obtain ⟨Γe, hΓe⟩ := Option.isSome_iff_exists.1 he
    simp only [symsS, List.mem_append] at hy
    simp only [bindS, List.mem_append]
    rcases hy with hy | hy | hy
    · exact Or.inl (wfC_syms c hc y hy)
    · rcases wfL_syms t Γ Γt hΓt y hy with h1 | h1
      · exact Or.inl h1
      · exact Or.inr (Or.inl h1)
    · rcases wfL_syms el Γ Γe hΓe y hy with h1 | h1
      · exact Or.inl h1
      · exact Or.inr (Or.inr h1)
  | .loop i lo hi b par, Γ, Γ', h, y, hy => by
    have h' : (wfL Γ (.loop i lo hi b par :: [])).isSome = true := by simp [wfL, h]
    obtain ⟨_, hlo, hhi, hb, _⟩ := loop_inv h'
    obtain ⟨Γb, hΓb⟩ := Option.isSome_iff_exists.1 hb
    simp only [symsS, List.mem_cons, List.mem_append] at hy
    simp only [bindS, List.mem_cons]
    rcases hy with hy | hy | hy | hy
    · exact Or.inr (Or.inl hy)
    · exact Or.inl (wfC_syms lo hlo y hy)
    · exact Or.inl (wfC_syms hi hhi y hy)
    · rcases wfL_syms b _ Γb hΓb y hy with h1 | h1
      · rcases lookup_cons_ne_none h1 with h2 | h2
        · exact Or.inr (Or.inl h2)
        · exact Or.inl h2
      · exact Or.inr (Or.inr h1)
  | .alloc x sh, Γ, Γ', h, y, hy => by
    simp only [wfS] at h
    split at h
    · rename_i hc
      simp only [Bool.and_eq_true] at hc
      simp only [symsS, List.mem_cons] at hy
      rcases hy with hy | hy
      · exact Or.inr (by simp [bindS, hy])
      · exact Or.inl (wfCs_syms sh hc.2 y hy)
    · cases h
  | .window x rhs, Γ, Γ', h, y, hy => by
    simp only [wfS] at h
    cases hv : viewRank Γ rhs with
    | none => simp [hv] at h
    | some n =>
      simp only [symsS, List.mem_cons] at hy
      rcases hy with hy | hy
      · exact Or.inr (by simp [bindS, hy])
      · exact Or.inl (viewRank_syms rhs n hv y hy)
theorem wfL_syms : ∀ (ss : List Stmt) (Γ Γ' : Env), wfL Γ ss = some Γ' →
    ∀ y ∈ symsL ss, lookup y Γ ≠ none ∨ y ∈ bindL ss
  | [], _, _, _, y, hy => by simp [symsL] at hy
  | s :: r, Γ, Γ', h, y, hy => by
    simp only [wfL] at h
    cases h1 : wfS Γ s with
    | none => rw [h1] at h; cases h
    | some Γ1 =>
      rw [h1] at h
      simp only [symsL, List.mem_append] at hy
      simp only [bindL, List.mem_append]
      rcases hy with hy | hy
      · rcases wfS_syms s Γ Γ1 h1 y hy with h2 | h2
        · exact Or.inl h2
        · exact Or.inr (Or.inl h2)
      · obtain ⟨D, e1, hn, _⟩ := wfS_shape Γ Γ1 s h1
        subst e1
        rcases wfL_syms r _ Γ' h y hy with h2 | h2
        · cases hl : lookup y D with
          | none => rw [lookup_append_none D Γ y hl] at h2; exact Or.inl h2
          | some k =>
            have := mem_of_lookup_some D y k hl
            rw [hn] at this
            exact Or.inr (Or.inl (defName_sub_bindS s y this))
        · exact Or.inr (Or.inr h2)
end

theorem lookup_ne_none_of_mem : ∀ (D : Env) (z : Sym), z ∈ D.map Prod.fst → lookup z D ≠ none
  | [], _, h => by simp at h
  | (y, k) :: D, z, h => by
    simp only [List.map_cons, List.mem_cons] at h
    simp only [lookup_cons]
    by_cases hzy : z = y
    · simp [hzy]
    · simp only [hzy, if_false]
      rcases h with h | h
      · exact absurd h hzy
      · exact lookup_ne_none_of_mem D z h

theorem lookup_append_ne_none (D Γ : Env) (z : Sym) (h : lookup z Γ ≠ none) :
    lookup z (D ++ Γ) ≠ none := by
  cases hl : lookup z D with
  | none => rw [lookup_append_none D Γ z hl]; exact h
  | some k => rw [lookup_append_some D Γ z k hl]; simp

/-- the names a well-formed block defines at top level were fresh before it and are in scope
    after it -/
theorem defNames_in_env : ∀ (ss : List Stmt) (Γ Γ' : Env), wfL Γ ss = some Γ' →
    ∀ x ∈ defNames ss, lookup x Γ' ≠ none ∧ lookup x Γ = none
  | [], _, _, _, x, hx => by simp [defNames] at hx
  | s :: r, Γ, Γ', h, x, hx => by
    refine ⟨?_, wfL_bind_fresh (s :: r) Γ Γ' h x (defNames_sub_bindL _ x hx)⟩
    simp only [wfL] at h
    cases h1 : wfS Γ s with
    | none => rw [h1] at h; cases h
    | some Γ1 =>
      rw [h1] at h
      simp only [defNames, List.mem_append] at hx
      rcases hx with hx | hx
      · obtain ⟨D1, e1, hn, _⟩ := wfS_shape Γ Γ1 s h1
        obtain ⟨D2, e2, _, _⟩ := wfL_shape r Γ1 Γ' h
        subst e1; subst e2
        apply lookup_append_ne_none
        apply lookup_ne_none_of_mem
        simp only [List.map_append, List.mem_append]
        left; rw [hn]; exact hx
      · exact (defNames_in_env r Γ1 Γ' h x hx).1

/-- **the side condition of fission is exact**: for a well-formed loop body, the tail is well
    formed on its own (in the environment of the body) IF AND ONLY IF it mentions no name that
    the head defines at top level -/
theorem fission_tail_iff {Γ : Env} {b : List Stmt} (k : Nat) (hb : (wfL Γ b).isSome = true) :
    (wfL Γ (b.drop k)).isSome = true ↔ disj (defNames (b.take k)) (symsL (b.drop k)) = true := by
  constructor
  · intro htail
    rw [disj_iff]
    intro x hx hmem
    have e : b = b.take k ++ b.drop k := (List.take_append_drop _ _).symm
    rw [e] at hb
    obtain ⟨Γa, h1, h2⟩ := append_inv hb
    obtain ⟨D, e1, _, hfr⟩ := wfL_shape _ Γ Γa h1
    subst e1
    -- the head's definitions are fresh in `Γ` and in scope after the head
    have hx2 : lookup x (D ++ Γ) ≠ none ∧ lookup x Γ = none :=
      defNames_in_env _ Γ (D ++ Γ) h1 x hx
    obtain ⟨Γt, hΓt⟩ := Option.isSome_iff_exists.1 htail
    obtain ⟨Γt2, hΓt2⟩ := Option.isSome_iff_exists.1 h2
    rcases wfL_syms _ Γ Γt hΓt x hmem with h3 | h3
    · exact h3 hx2.2
    · exact hx2.1 (wfL_bind_fresh _ _ Γt2 hΓt2 x h3)
  · exact fission_tail_wf k hb

/-- `add_loop` / `specialize`: the statements after `s` are well formed without what `s` defines
    IF AND ONLY IF they mention no name `s` defines -/
theorem addLoop_rest_iff {Γ : Env} {s : Stmt} {rest : List Stmt}
    (hw : (wfL Γ (s :: rest)).isSome = true) :
    (wfL Γ rest).isSome = true ↔ disj (defName s) (symsL rest) = true := by
  have := fission_tail_iff (b := s :: rest) 1 hw
  simpa [defNames] using this

/-- `reorder_stmts`: if the second statement mentions no name the first one defines, it is well
    formed before the first one (the semantic side condition of `reorderStmtsOk`) -/
theorem reorder_second_wf {Γ : Env} {a b : Stmt} {rest : List Stmt}
    (hw : (wfL Γ (a :: b :: rest)).isSome = true) (hd : disj (defName a) (symsS b) = true) :
    (wfS Γ b).isSome = true := by
  have h1 : (wfL Γ [a, b]).isSome = true := by
    have e : a :: b :: rest = [a, b] ++ rest := rfl
    rw [e] at hw
    obtain ⟨Γab, h, _⟩ := append_inv hw
    rw [h]; rfl
  have h2 := fission_tail_wf (b := [a, b]) 1 h1
    (by simpa [defNames, symsL] using hd)
  simp only [List.drop_succ_cons, List.drop_zero, wfL] at h2
  cases hb : wfS Γ b with
  | none => rw [hb] at h2; simp at h2
  | some _ => rfl

end Exo.WfShapes
