/-
  Lemmas for C02 wave 2, part 4: control expressions (`comp_e` on index / bool / stride / config
  typed expressions).
-/
import ExoModel.Lemmas.CSimAccess

namespace Exo.CompileS
open Exo Exo.CIndex Exo.CSem
open Exo.Range (IExpr Op Val Inside)

variable {V : Type}

theorem nnOf_of_isNonNeg {renv : Range.Env} {e : IExpr}
    (h : Range.isNonNeg renv.lookup e = .ok true) : nnOf renv e = true := by
  simp [nnOf, h]

theorem ctrlOp_div {x y v : Int} (h : ctrlOp .div x y = .ok v) : 0 < y ∧ v = x / y := by
  simp only [ctrlOp] at h
  split at h
  · cases h
  · simp only [pure, Except.pure, Except.ok.injEq] at h
    exact ⟨by omega, h.symm⟩

theorem ctrlOp_mod {x y v : Int} (h : ctrlOp .mod x y = .ok v) : 0 < y ∧ v = x % y := by
  simp only [ctrlOp] at h
  split at h
  · cases h
  · simp only [pure, Except.pure, Except.ok.injEq] at h
    exact ⟨by omega, h.symm⟩

/-- the strict operators other than `/`, `%`, `&&`, `||` mean in C what they mean in `ctrlOp` -/
theorem cArith_eq_ctrlOp {op : BinOp} (h1 : op ≠ .div) (h2 : op ≠ .mod) {x y v : Int}
    (h : ctrlOp op x y = .ok v) : cArith op x y = .ok v := by
  cases op <;> first | exact absurd rfl h1 | exact absurd rfl h2 | (simp only [ctrlOp, pure, Except.pure, Except.ok.injEq] at h; subst h; rfl)

theorem evalCI_bin_strict {c : CState V} {op : BinOp} {a b : CI} {x y : Int} (h1 : op ≠ .and)
    (h2 : op ≠ .or) (ha : evalCI c a = .ok x) (hb : evalCI c b = .ok y) :
    evalCI c (.bin op a b) = cArith op x y := by
  cases op <;> first | exact absurd rfl h1 | exact absurd rfl h2 | (simp only [evalCI, ha, hb]; rfl)

theorem evalCI_floorDiv {c : CState V} {a b : CI} {x y : Int} (ha : evalCI c a = .ok x)
    (hb : evalCI c b = .ok y) (hy : y ≠ 0) :
    evalCI c (.floorDiv a b) = .ok (exoFloorDiv x y) := by
  simp only [evalCI, ha, hb]
  show (if y = 0 then _ else _) = _
  rw [if_neg hy]; rfl

theorem evalCI_and {c : CState V} {a b : CI} {x y : Int} (ha : evalCI c a = .ok x)
    (hb : evalCI c b = .ok y) : evalCI c (.bin .and a b) = .ok (b2i (x ≠ 0 ∧ y ≠ 0)) := by
  simp only [evalCI, ha, hb]
  show (if x = 0 then _ else _) = _
  by_cases hx0 : x = 0
  · rw [if_pos hx0]; simp [b2i, hx0, pure, Except.pure]
  · rw [if_neg hx0]; simp [b2i, hx0]; rfl

theorem evalCI_or {c : CState V} {a b : CI} {x y : Int} (ha : evalCI c a = .ok x)
    (hb : evalCI c b = .ok y) : evalCI c (.bin .or a b) = .ok (b2i (x ≠ 0 ∨ y ≠ 0)) := by
  simp only [evalCI, ha, hb]
  show (if x ≠ 0 then _ else _) = _
  by_cases hx0 : x = 0
  · rw [if_neg (by simpa using hx0)]; simp [b2i, hx0]; rfl
  · rw [if_pos hx0]; simp [b2i, hx0, pure, Except.pure]

theorem compC_sim {Γ : CEnv} {σ : State V} {c : CState V} (hr : Rep Γ σ c) (ib : Bool) :
    ∀ (e : Expr) {e' : CI} {k : Bool} {v : Int},
    compC Γ ib e = .ok (e', k) → k = true → evalC σ e = .ok v → evalCI c e' = .ok v
  | .read x [], e', k, v, hc, _, he => by
      simp only [compC] at hc
      split at hc
      · simp only [pure, Except.pure, Except.ok.injEq, Prod.mk.injEq] at hc
        obtain ⟨rfl, _⟩ := hc
        simp only [evalC] at he
        split at he
        · rename_i w hw
          simp only [pure, Except.pure, Except.ok.injEq] at he; subst he
          simp [evalCI, ρOf, ρOfL, hr.ints, hw, pure, Except.pure]
        · cases he
      · cases hc
      · cases hc
  | .read _ (_ :: _), _, _, _, hc, _, _ => by simp [compC, throw, throwThe, MonadExceptOf.throw] at hc
  | .lit (.int n), e', k, v, hc, _, he => by
      simp only [compC, pure, Except.pure, Except.ok.injEq, Prod.mk.injEq] at hc
      obtain ⟨rfl, _⟩ := hc
      simp only [evalC, pure, Except.pure, Except.ok.injEq] at he; subst he; rfl
  | .lit (.bool b), e', k, v, hc, _, he => by
      simp only [compC, pure, Except.pure, Except.ok.injEq, Prod.mk.injEq] at hc
      obtain ⟨rfl, _⟩ := hc
      simp only [evalC, pure, Except.pure, Except.ok.injEq] at he; subst he; rfl
  | .lit (.data _ _), _, _, _, hc, _, _ => by simp [compC, throw, throwThe, MonadExceptOf.throw] at hc
  | .usub a, e', k, v, hc, hk, he => by
      simp only [compC] at hc
      obtain ⟨⟨a', k1⟩, ha, hc⟩ := bind_ok hc
      simp only [pure, Except.pure, Except.ok.injEq, Prod.mk.injEq] at hc
      obtain ⟨rfl, rfl⟩ := hc
      simp only [evalC] at he
      obtain ⟨w, hw, he⟩ := bind_ok he
      simp only [pure, Except.pure, Except.ok.injEq] at he; subst he
      simp only [evalCI, compC_sim hr ib a ha hk hw]; rfl
  | .binop op a b, e', k, v, hc, hk, he => by
      simp only [compC] at hc
      obtain ⟨⟨a', ka⟩, ha, hc⟩ := bind_ok hc
      obtain ⟨⟨b', kb⟩, hb, hc⟩ := bind_ok hc
      have he0 := he
      simp only [evalC] at he
      obtain ⟨x, hx, he⟩ := bind_ok he
      obtain ⟨y, hy, he⟩ := bind_ok he
      by_cases hdiv : op = .div
      · subst hdiv
        simp only [] at hc
        split at hc
        · cases hc
        · rename_i hno
          simp only [Bool.not_eq_true, Bool.not_eq_false'] at hno
          have hno' : noOther (toIE Γ.typ (.binop .div a b)) = true := by
            cases h : noOther (toIE Γ.typ (.binop .div a b)) <;> simp_all
          have te := toIE_eval Γ.typ σ _ v he0 hno'
          have hd := ctrlOp_div he
          split at hc
          · rename_i hnn
            simp only [pure, Except.pure, Except.ok.injEq, Prod.mk.injEq] at hc
            obtain ⟨rfl, rfl⟩ := hc
            rw [Bool.and_eq_true] at hk
            have hq := nnOf_sound hr.rng te.2 (nnOf_of_isNonNeg hnn)
            rw [te.1, hd.2] at hq
            have hx0 : 0 ≤ x := (Int.ediv_nonneg_iff_of_pos hd.1).1 hq
            rw [evalCI_bin_strict (by decide) (by decide) (compC_sim hr ib a ha hk.1 hx)
              (compC_sim hr ib b hb hk.2 hy)]
            have : y ≠ 0 := by omega
            simp [cArith, this, pure, Except.pure, hd.2, Int.tdiv_eq_ediv_of_nonneg hx0]
          · simp only [pure, Except.pure, Except.ok.injEq, Prod.mk.injEq] at hc
            obtain ⟨rfl, rfl⟩ := hc
            rw [Bool.and_eq_true] at hk
            have : y ≠ 0 := by omega
            rw [evalCI_floorDiv (compC_sim hr ib a ha hk.1 hx) (compC_sim hr ib b hb hk.2 hy) this,
              hd.2, CIndex_exoFloorDiv_eq_floor x y hd.1]
          · cases hc
      · by_cases hmod : op = .mod
        · subst hmod
          simp only [pure, Except.pure, Except.ok.injEq, Prod.mk.injEq] at hc
          obtain ⟨rfl, rfl⟩ := hc
          simp only [Bool.and_eq_true] at hk
          obtain ⟨⟨⟨hka, hkb⟩, hno⟩, hnn⟩ := hk
          have te := toIE_eval Γ.typ σ a x hx hno
          have hx0 := nnOf_sound hr.rng te.2 hnn
          rw [te.1] at hx0
          have hd := ctrlOp_mod he
          rw [evalCI_bin_strict (by decide) (by decide) (compC_sim hr ib a ha hka hx)
            (compC_sim hr ib b hb hkb hy)]
          have : y ≠ 0 := by omega
          simp [cArith, this, pure, Except.pure, hd.2, Int.tmod_eq_emod_of_nonneg hx0]
        · have hc' : e' = .bin op a' b' ∧ k = (ka && kb) := by
            cases op <;> simp_all [pure, Except.pure]
          obtain ⟨rfl, rfl⟩ := hc'
          rw [Bool.and_eq_true] at hk
          have iha := compC_sim hr ib a ha hk.1 hx
          have ihb := compC_sim hr ib b hb hk.2 hy
          by_cases hand : op = .and
          · subst hand
            rw [evalCI_and iha ihb]
            simp only [ctrlOp, pure, Except.pure, Except.ok.injEq] at he; subst he; rfl
          · by_cases hor : op = .or
            · subst hor
              rw [evalCI_or iha ihb]
              simp only [ctrlOp, pure, Except.pure, Except.ok.injEq] at he; subst he; rfl
            · rw [evalCI_bin_strict hand hor iha ihb]
              exact cArith_eq_ctrlOp hdiv hmod he
  | .stride x d, e', k, v, hc, hk, he => by
      simp only [compC] at hc
      obtain ⟨ty, hty, hc⟩ := bind_ok hc
      split at hc
      · cases hc
      · rename_i st hst
        obtain ⟨s', hs', hc⟩ := bind_ok hc
        simp only [pure, Except.pure, Except.ok.injEq, Prod.mk.injEq] at hc
        obtain ⟨rfl, rfl⟩ := hc
        have hsimp : simplify st = .ok s' := by
          unfold simp at hs'
          split at hs'
          · simp only [pure, Except.pure, Except.ok.injEq] at hs'; subst hs'; assumption
          · cases hs'
        simp only [evalC] at he
        split at he
        · rename_i vw hx
          obtain ⟨cv, hcv, hv⟩ := hr.vals x vw hx
          have gs := strides_sim hr hcv hv hty hk
          have hmem : st ∈ getStrides x ty := List.mem_of_getElem? hst
          have hev := evalIx_comp (c := c) hsimp (gs.2.1 st hmem)
          simp only [evalCI, hev]
          split at he
          · rename_i ex sv hd
            simp only [pure, Except.pure, Except.ok.injEq] at he; subst he
            have h1 : ((getStrides x ty).map (·.eval (ρOf c) (σOf c)))[d]? =
                some (st.eval (ρOf c) (σOf c)) := by simp [hst]
            rw [gs.1] at h1
            simp only [List.getElem?_map, hd, Option.map_some, Option.some.injEq] at h1
            rw [← h1]
          · cases he
        · cases he
  | .readcfg cf f, e', k, v, hc, _, he => by
      simp only [compC] at hc
      split at hc
      · cases hc
      · simp only [pure, Except.pure, Except.ok.injEq, Prod.mk.injEq] at hc
        obtain ⟨rfl, _⟩ := hc
        simp only [evalC] at he
        simp only [evalCI, hr.cfg]
        split at he
        · rename_i n hn
          simp only [pure, Except.pure, Except.ok.injEq] at he; subst he
          simp only [hn]; rfl
        · cases he
        · cases he
  | .extern _ _, _, _, _, hc, _, _ => by simp [compC, throw, throwThe, MonadExceptOf.throw] at hc
  | .win _ _, _, _, _, hc, _, _ => by simp [compC, throw, throwThe, MonadExceptOf.throw] at hc

end Exo.CompileS
