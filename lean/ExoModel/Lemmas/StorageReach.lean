/-
  Conditional congruence for refinement-sound rewrites of a block SUFFIX: a rewrite `B ↦ B'` that
  is refinement-sound (between well-scoped states) on the states in which control reaches its
  position is refinement-sound for the whole body — the `WRef` analogue of `ctx_le_reach`.
  The hole must be at the end of its block (`Ctx.tail`): the rewritten suffix may leave extra
  buffers and names behind, which only disappear when the block is left.
-/
import ExoModel.Lemmas.StorageViews
import ExoModel.Lemmas.Reach

set_option linter.unusedSectionVars false
set_option linter.unusedVariables false
namespace Exo

/-- the hole is at the end of every block on the way down -/
def Ctx.tail : Ctx → Bool
  | .hole => true
  | .seq _ c post => post.isEmpty && c.tail
  | .loop _ _ _ _ c => c.tail
  | .iteT _ c _ => c.tail
  | .iteE _ _ c => c.tail

variable {V : Type}

theorem iterate_fwd_reach (Q : State V → State V → Prop)
    (f g : Int → State V → Except Err (State V)) :
    ∀ (n : Nat) (l : Int) (σ₀ σ₀' : State V), Q σ₀ σ₀' →
      (∀ (k : Nat) (s s' : State V), k < n → iterate f k l σ₀ = .ok s → Q s s' →
          Fwd Q (f (l + k) s) (g (l + k) s')) →
      Fwd Q (iterate f n l σ₀) (iterate g n l σ₀')
  | 0, _, _, _, hq, _ => Fwd.ofPure hq
  | n + 1, l, σ₀, σ₀', hq, h => by
    have h0 := h 0 σ₀ σ₀' (by omega) rfl hq
    simp only [Int.natCast_zero, Int.add_zero] at h0
    simp only [iterate]
    refine Fwd.bind h0 (fun s1 s1' hs hs' hq1 => ?_)
    refine iterate_fwd_reach Q f g n (l + 1) s1 s1' hq1 (fun k s s' hk hit hqs => ?_)
    have := h (k + 1) s s' (by omega) (by
      simp only [iterate, bind, Except.bind, hs]; exact hit) hqs
    have e : l + ((k + 1 : Nat) : Int) = l + 1 + (k : Int) := by omega
    rw [e] at this
    exact this

section
variable [DataAlg V] (ext : String → List V → V)

theorem execB_singleton (s : Stmt) (σ : State V) :
    execB ext [s] σ = (execS ext s σ).map (State.leave σ) := by
  unfold execB; rw [execL_singleton]

/-- **conditional congruence for suffix rewrites** -/
theorem ctx_fwd_reach (B B' : List Stmt) : ∀ (C : Ctx), C.tail = true →
    ∀ (σ₀ σ₀' : State V), WRef σ₀ σ₀' →
    (∀ σ σ', Reach ext C B σ₀ σ → WRef σ σ' → Fwd WRef (execB ext B σ) (execB ext B' σ')) →
    Fwd WRef (execB ext (C.fill B) σ₀) (execB ext (C.fill B') σ₀')
  | .hole, _, σ₀, σ₀', hr, h => h σ₀ σ₀' (Reach.hole B σ₀) hr
  | .seq pre c post, ht, σ₀, σ₀', hr, h => by
    simp only [Ctx.tail, Bool.and_eq_true] at ht
    have hp : post = [] := List.isEmpty_iff.1 ht.1
    subst hp
    simp only [Ctx.fill, List.append_nil]
    intro t htt
    obtain ⟨t2, h2, rfl⟩ := execB_ok_inv ext htt
    rw [execL_append] at h2
    cases hA : execL ext pre σ₀ with
    | error e => rw [hA] at h2; simp [bind, Except.bind] at h2
    | ok s1 =>
      rw [hA] at h2
      have h2 : execL ext (c.fill B) s1 = .ok t2 := h2
      obtain ⟨s1', hA', hr1⟩ := (exec_monoW ext pre hr).ok_left hA
      have ih := ctx_fwd_reach B B' c ht.2 s1 s1' hr1
        (fun σ σ' hre hw => h σ σ' (Reach.seq pre [] c B σ₀ s1 σ hA hre) hw)
      obtain ⟨t', ht', hrr⟩ := ih _ (execB_ok ext h2)
      obtain ⟨t2', h2', rfl⟩ := execB_ok_inv ext ht'
      have hrun : execL ext (pre ++ c.fill B') σ₀' = .ok t2' := by
        rw [execL_append, hA']; exact h2'
      refine ⟨State.leave σ₀' t2', execB_ok ext hrun, ?_⟩
      have l1 := (execL_scope ext pre σ₀ s1 hA).2.1
      have l1' := (execL_scope ext pre σ₀' s1' hA').2.1
      have l2 := (execL_scope ext (c.fill B) s1 t2 h2).2.1
      have := hr.leave hrr.ref (by rw [leave_heap_length s1 t2 l2]; exact l1)
      rwa [leave_leave σ₀ s1 t2 l1, leave_leave σ₀' s1' t2' l1'] at this
  | .loop i lo hi par c, ht, σ₀, σ₀', hr, h => by
    simp only [Ctx.tail] at ht
    simp only [Ctx.fill]
    rw [execB_singleton, execB_singleton]
    intro t htt
    obtain ⟨t1, h1, rfl⟩ := map_leave_ok htt
    simp only [execS, bind, Except.bind] at h1 ⊢
    rw [evalC_ref hr.ref lo, evalC_ref hr.ref hi]
    cases hl : evalC σ₀ lo with
    | error e => rw [hl] at h1; cases h1
    | ok l =>
      rw [hl] at h1
      simp only [] at h1 ⊢
      cases hh : evalC σ₀ hi with
      | error e => rw [hh] at h1; cases h1
      | ok hv =>
        rw [hh] at h1
        simp only [] at h1 ⊢
        by_cases hlt : hv < l
        · simp [hlt] at h1
        · simp only [hlt, if_false] at h1 ⊢
          have hit := iterate_fwd_reach WRef
            (fun v s => (execL ext (c.fill B) (s.bind i v)).map (State.leave s))
            (fun v s => (execL ext (c.fill B') (s.bind i v)).map (State.leave s))
            (hv - l).toNat l σ₀ σ₀' hr (fun k s s' hk hiter hss => by
              intro u hu
              obtain ⟨u1, hu1, rfl⟩ := map_leave_ok hu
              have ih := ctx_fwd_reach B B' c ht (s.bind i (l + k)) (s'.bind i (l + k))
                (hss.bind i (l + k))
                (fun σ σ' hre hw => h σ σ'
                  (Reach.loop i lo hi par c B σ₀ s σ l hv k hl hh (by omega) hiter hre) hw)
              obtain ⟨u', hu', hrr⟩ := ih _ (execB_ok ext hu1)
              obtain ⟨u1', hu1', rfl⟩ := execB_ok_inv ext hu'
              refine ⟨State.leave s' u1', by rw [hu1']; rfl, ?_, ?_⟩
              · exact Sim.withEnv hrr.ref.sim hss.ref.env rfl rfl rfl rfl rfl rfl
              · exact hss.ok.leave (execL_scope ext _ (s.bind i (l + k)) u1 hu1).2.1)
          obtain ⟨t1', h1', hrr⟩ := hit t1 h1
          rw [h1']
          refine ⟨State.leave σ₀' t1', rfl, ?_⟩
          have hle : σ₀.heap.length ≤ t1.heap.length := by
            have := iterate_heapLen _ (fun v s s' hs => by
              obtain ⟨s2, h2, rfl⟩ := map_leave_ok hs
              have := (execL_scope ext (c.fill B) (s.bind i v) s2 h2).2.1
              exact ⟨leave_heap_length s s2 this, rfl, rfl⟩) _ _ _ _ h1
            omega
          exact hr.leave hrr.ref hle
  | .iteT cond c e, ht, σ₀, σ₀', hr, h => by
    simp only [Ctx.tail] at ht
    simp only [Ctx.fill]
    rw [execB_singleton, execB_singleton]
    intro t htt
    obtain ⟨t1, h1, rfl⟩ := map_leave_ok htt
    simp only [execS, bind, Except.bind] at h1 ⊢
    rw [evalC_ref hr.ref cond]
    cases hc : evalC σ₀ cond with
    | error err => rw [hc] at h1; cases h1
    | ok b =>
      rw [hc] at h1
      simp only [] at h1 ⊢
      by_cases hb : b = 0
      · simp only [hb, ne_eq, not_true_eq_false, if_false] at h1 ⊢
        obtain ⟨t', ht', hrr⟩ := BlockRefW.refl e V ext σ₀ σ₀' t1 hr h1
        unfold execB at ht'
        rw [ht']
        refine ⟨State.leave σ₀' t', rfl, ?_⟩
        obtain ⟨u, hu, rfl⟩ := map_leave_ok h1
        have hle : σ₀.heap.length ≤ (State.leave σ₀ u).heap.length := by
          rw [leave_heap_length σ₀ u (execL_scope ext e σ₀ u hu).2.1]; exact Nat.le_refl _
        exact hr.leave hrr.ref hle
      · simp only [hb, ne_eq, not_false_eq_true, if_true] at h1 ⊢
        have ih := ctx_fwd_reach B B' c ht σ₀ σ₀' hr
          (fun σ σ' hre hw => h σ σ' (Reach.iteT cond c e B σ₀ σ b hc hb hre) hw)
        obtain ⟨t', ht', hrr⟩ := ih t1 h1
        unfold execB at ht'
        rw [ht']
        refine ⟨State.leave σ₀' t', rfl, ?_⟩
        obtain ⟨u, hu, rfl⟩ := map_leave_ok h1
        have hle : σ₀.heap.length ≤ (State.leave σ₀ u).heap.length := by
          rw [leave_heap_length σ₀ u (execL_scope ext _ σ₀ u hu).2.1]; exact Nat.le_refl _
        exact hr.leave hrr.ref hle
  | .iteE cond tb c, ht, σ₀, σ₀', hr, h => by
    simp only [Ctx.tail] at ht
    simp only [Ctx.fill]
    rw [execB_singleton, execB_singleton]
    intro t htt
    obtain ⟨t1, h1, rfl⟩ := map_leave_ok htt
    simp only [execS, bind, Except.bind] at h1 ⊢
    rw [evalC_ref hr.ref cond]
    cases hc : evalC σ₀ cond with
    | error err => rw [hc] at h1; cases h1
    | ok b =>
      rw [hc] at h1
      simp only [] at h1 ⊢
      by_cases hb : b = 0
      · subst hb
        simp only [ne_eq, not_true_eq_false, if_false] at h1 ⊢
        have ih := ctx_fwd_reach B B' c ht σ₀ σ₀' hr
          (fun σ σ' hre hw => h σ σ' (Reach.iteE cond tb c B σ₀ σ hc hre) hw)
        obtain ⟨t', ht', hrr⟩ := ih t1 h1
        unfold execB at ht'
        rw [ht']
        refine ⟨State.leave σ₀' t', rfl, ?_⟩
        obtain ⟨u, hu, rfl⟩ := map_leave_ok h1
        have hle : σ₀.heap.length ≤ (State.leave σ₀ u).heap.length := by
          rw [leave_heap_length σ₀ u (execL_scope ext _ σ₀ u hu).2.1]; exact Nat.le_refl _
        exact hr.leave hrr.ref hle
      · simp only [hb, ne_eq, not_false_eq_true, if_true] at h1 ⊢
        obtain ⟨t', ht', hrr⟩ := BlockRefW.refl tb V ext σ₀ σ₀' t1 hr h1
        unfold execB at ht'
        rw [ht']
        refine ⟨State.leave σ₀' t', rfl, ?_⟩
        obtain ⟨u, hu, rfl⟩ := map_leave_ok h1
        have hle : σ₀.heap.length ≤ (State.leave σ₀ u).heap.length := by
          rw [leave_heap_length σ₀ u (execL_scope ext tb σ₀ u hu).2.1]; exact Nat.le_refl _
        exact hr.leave hrr.ref hle

end

/-- … lifted to procedures: a suffix rewrite that is refinement-sound on the states reaching its
    position yields an equivalent procedure on well-scoped inputs -/
theorem equivOn_of_reach_refW (C : Ctx) (hC : C.tail = true) (B B' : List Stmt) (nm : String)
    (args : List FnArg) (preds : List Expr)
    (h : ∀ (V : Type) [DataAlg V] (ext : String → List V → V) (σ₀ σ σ' : State V),
        Reach ext C B σ₀ σ → WRef σ σ' → Fwd WRef (execB ext B σ) (execB ext B' σ')) :
    EquivOn WellScoped (fun _ => False)
      (.mk nm args preds (C.fill B)) (.mk nm args preds (C.fill B')) := by
  intro V _ ext σ o hσ ho
  simp only [Proc.body] at ho ⊢
  obtain ⟨o', ho', hr⟩ := ctx_fwd_reach ext B B' C hC σ σ (WRef.refl hσ)
    (fun s s' hre hw => h V ext σ s s' hre hw) o ho
  exact ⟨o', ho', hr.ref.refines⟩

end Exo
