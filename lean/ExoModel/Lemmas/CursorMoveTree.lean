/-
  `Block._move`, part 4: statement and gap cursors are forwarded coherently.
  The new tree is the composition of a deletion and an insertion (in the order `_is_before`
  chooses); their coherence is already proved, `move_before_paths` / `move_after_paths` tie
  `_forward_move` to the composed forwarding.
-/
import ExoModel.Lemmas.CursorMoveAfter

namespace Exo.Cursor

theorem forwardReplace_node (bp : Path) (a : Attr) (lo hi nIns : Nat) (p : Path) :
    forwardReplace bp a lo hi nIns (.node p) =
      match lfNode bp a (replFn lo hi nIns) p with
      | .ok p' => .ok (.node p')
      | .error e => .error e := rfl

theorem forwardInsert_node (E : Path) (a : Attr) (i : Nat) (ty : GapType) (len : Nat) (p : Path) :
    forwardInsert (E ++ [(a, i)]) ty len (.node p) =
      match lfNode E a (insFn (insertionIndex (E ++ [(a, i)]) ty) len) p with
      | .ok p' => .ok (.node p')
      | .error e => .error e := by
  rw [forwardInsert_eq]; rfl

/-- where an inserted statement (and everything below it) is found -/
theorem get?_inserted {t₀ n₀ : Tree} {gp : Path} {ga : Attr} {gi : Nat} (nodes : List Tree)
    (hgp : t₀.get? gp = some n₀) (hgi : gi ≤ (n₀.children ga).length) (off : Nat) (rest : Path) :
    (t₀.modBlock (insList gi nodes) ga gp).get? (gp ++ (ga, gi + off) :: rest) =
      ((nodes ++ (n₀.children ga).drop gi)[off]?).bind (fun c => c.get? rest) := by
  rw [Tree.get?_modBlock_append hgp, Tree.get?_cons, Tree.children_setChildren_same, insList,
    getElem?_splice_mid _ _ _ gi off hgi]

theorem getElem?_moved_nodes (l : List Tree) (lo hi i : Nat) (h1 : lo ≤ i) (h2 : i < hi) (post : List Tree) :
    (((l.drop lo).take (hi - lo)) ++ post)[i - lo]? = l[i]? ∨ l[i]? = none := by
  by_cases hl : i < l.length
  · left
    have hlen : i - lo < ((l.drop lo).take (hi - lo)).length := by
      simp; omega
    rw [List.getElem?_append_left hlen, List.getElem?_take]
    have : i - lo < hi - lo := by omega
    simp only [this, if_true, List.getElem?_drop]
    congr 1; omega
  · right
    exact List.getElem?_eq_none (by omega)

theorem length_moved_nodes (l : List Tree) (lo hi : Nat) (h1 : lo ≤ hi) (h2 : hi ≤ l.length) :
    ((l.drop lo).take (hi - lo)).length = hi - lo := by
  simp; omega

section assembly

variable {t n : Tree} {bp : Path} {ba : Attr} {lo hi : Nat} {gp : Path} {ga : Attr} {gj : Nat}

/-- `target in self` is false -/
theorem move_not_inSelf (hP1 : ∀ i s, lo ≤ i → i < hi → gp ++ [(ga, gj)] ≠ bp ++ (ba, i) :: s) :
    (decide (parentPath (gp ++ [(ga, gj)]) = bp) && decide (gp ++ [(ga, gj)] ≠ []) &&
      decide (lastAttr (gp ++ [(ga, gj)]) = ba) && decide (lo ≤ lastIdx (gp ++ [(ga, gj)])) &&
      decide (lastIdx (gp ++ [(ga, gj)]) < hi)) = false := by
  cases h : (decide (parentPath (gp ++ [(ga, gj)]) = bp) && decide (gp ++ [(ga, gj)] ≠ []) &&
      decide (lastAttr (gp ++ [(ga, gj)]) = ba) && decide (lo ≤ lastIdx (gp ++ [(ga, gj)])) &&
      decide (lastIdx (gp ++ [(ga, gj)]) < hi)) with
  | false => rfl
  | true =>
    exfalso
    simp only [parentPath_snoc, lastAttr_snoc, lastIdx_snoc, Bool.and_eq_true, decide_eq_true_eq] at h
    obtain ⟨⟨⟨⟨h1, _⟩, h3⟩, h4⟩, h5⟩ := h
    subst h1 h3
    exact hP1 gj [] h4 h5 rfl

theorem gapPathOf_snoc (gp : Path) (ga : Attr) (gj : Nat) (ty : GapType) :
    gapPathOf (gp ++ [(ga, gj)]) ty = gp ++ [(ga, insertionIndex (gp ++ [(ga, gj)]) ty)] := by
  simp [gapPathOf]

theorem insertionIndex_cases (gp : Path) (ga : Attr) (gj : Nat) (ty : GapType) :
    insertionIndex (gp ++ [(ga, gj)]) ty = gj ∨ insertionIndex (gp ++ [(ga, gj)]) ty = gj + 1 := by
  rw [insertionIndex_snoc]; cases ty <;> simp

/-- `_forward_move` forwards gaps through their anchors -/
theorem forwardMove_gapCoh (bp : Path) (ba : Attr) (lo hi : Nat) (gapPath : Path) :
    GapCoh (forwardMove bp ba lo hi gapPath) := by
  intro p ty
  simp [forwardMove]

/-- statement cursors under `_move` -/
theorem move_nodeCoh (gTy : GapType) (pass : Tree)
    (hn : t.get? bp = some n) (hlt : lo < hi) (hhi : hi ≤ (n.children ba).length)
    (hg : ValidNode t (gp ++ [(ga, gj)]))
    (hP1 : ∀ i s, lo ≤ i → i < hi → gp ++ [(ga, gj)] ≠ bp ++ (ba, i) :: s)
    (hbug : moveBug (bp ++ [(ba, lo)]) (gapPathOf (gp ++ [(ga, gj)]) gTy) = false) :
    NodeCoh t (move t bp ba lo hi (gp ++ [(ga, gj)]) gTy pass).1
      (move t bp ba lo hi (gp ++ [(ga, gj)]) gTy pass).2 := by
  have hgne : gp ++ [(ga, gj)] ≠ [] := by simp
  have hle : lo ≤ hi := Nat.le_of_lt hlt
  -- unfold `move`
  have hns := move_not_inSelf hP1
  simp only [move, hns, Bool.false_eq_true, if_false, hn]
  generalize hnodes : ((n.children ba).drop lo).take (hi - lo) = nodes
  have hnl : nodes.length = hi - lo := by rw [← hnodes]; exact length_moved_nodes _ _ _ hle hhi
  rw [gapPathOf_snoc] at hbug ⊢
  generalize hgi : insertionIndex (gp ++ [(ga, gj)]) gTy = gi at hbug ⊢
  have hgi' : gi = gj ∨ gi = gj + 1 := by rw [← hgi]; exact insertionIndex_cases gp ga gj gTy
  -- the gap's parent in the old tree
  obtain ⟨c0, hc0⟩ := Option.isSome_iff_exists.mp hg
  have hfwdIns : ∀ (p : Path), forwardInsert (gp ++ [(ga, gj)]) gTy nodes.length (.node p) =
      match lfNode gp ga (insFn gi (hi - lo)) p with
      | .ok p' => .ok (.node p')
      | .error e => .error e := by
    intro p; rw [forwardInsert_node, hgi, hnl]
  intro p m hp
  right
  by_cases hb : isBeforeAux (gp ++ [(ga, gi)]) (bp ++ [(ba, lo)]) = true
  · -- delete first, then insert
    simp only [hb, if_true]
    obtain ⟨B1, B2, B3⟩ := move_before_paths bp ba lo hi gp ga gi gj hlt hgi' hb hP1
    have c₁ := delete_coherent_aux t n bp ba lo hi pass hn hle hhi
    -- the gap anchor is still there after the deletion
    have hgA : ValidNode (deleteBlock t bp ba lo hi pass).1 (gp ++ [(ga, gj)]) := by
      rcases c₁.node _ c0 hc0 with hinv | ⟨p', n', hf, hg', _, _⟩
      · rw [show (deleteBlock t bp ba lo hi pass).2 = forwardReplace bp ba lo hi 0 from rfl,
          forwardReplace_node, B3] at hinv
        cases hinv
      · rw [show (deleteBlock t bp ba lo hi pass).2 = forwardReplace bp ba lo hi 0 from rfl,
          forwardReplace_node, B3] at hf
        cases hf
        simp [ValidNode, hg']
    have c₂ := insert_coherent_aux (deleteBlock t bp ba lo hi pass).1 (gp ++ [(ga, gj)]) gTy nodes hgne hgA
    by_cases hmoved : ∃ i rest, p = bp ++ (ba, i) :: rest ∧ lo ≤ i ∧ i < hi
    · obtain ⟨i, rest, rfl, h1, h2⟩ := hmoved
      refine ⟨gp ++ (ga, gi + (i - lo)) :: rest, m, by simp [forwardMove, B2 i rest h1 h2], ?_, rfl, by simp⟩
      -- the inserted copy
      obtain ⟨cA, hcA⟩ := Option.isSome_iff_exists.mp hgA
      rw [Tree.get?_append] at hcA
      cases hgp : (deleteBlock t bp ba lo hi pass).1.get? gp with
      | none => simp [hgp] at hcA
      | some n₁ =>
        simp only [hgp, Option.bind_some] at hcA
        obtain ⟨c, hc, _⟩ := base_get_through hcA
        have hlen := getElem?_lt_length hc
        rw [insert_tree_eq gTy nodes hgp hc, hgi, get?_inserted nodes hgp (by omega)]
        rw [Tree.get?_append_of_get? hn, Tree.get?_cons] at hp
        rcases getElem?_moved_nodes (n.children ba) lo hi i h1 h2 ((n₁.children ga).drop gi) with h | h
        · rw [← hnodes, h]; exact hp
        · rw [h] at hp; simp at hp
    · have hnm : ∀ i rest, p = bp ++ (ba, i) :: rest → ¬ (lo ≤ i ∧ i < hi) :=
        fun i rest h1 h2 => hmoved ⟨i, rest, h1, h2.1, h2.2⟩
      obtain ⟨p₁, hd, hi'⟩ := B1 p hnm
      rcases c₁.node p m hp with hinv | ⟨p', n', hf, hg', hl', hne'⟩
      · rw [show (deleteBlock t bp ba lo hi pass).2 = forwardReplace bp ba lo hi 0 from rfl,
          forwardReplace_node, hd] at hinv
        cases hinv
      · rw [show (deleteBlock t bp ba lo hi pass).2 = forwardReplace bp ba lo hi 0 from rfl,
          forwardReplace_node, hd] at hf
        cases hf
        rcases c₂.node p₁ n' hg' with hinv | ⟨p'', n'', hf2, hg2, hl2, hne2⟩
        · rw [show (insert (deleteBlock t bp ba lo hi pass).1 (gp ++ [(ga, gj)]) gTy nodes).2 =
            forwardInsert (gp ++ [(ga, gj)]) gTy nodes.length from rfl, hfwdIns, hi'] at hinv
          cases hinv
        · rw [show (insert (deleteBlock t bp ba lo hi pass).1 (gp ++ [(ga, gj)]) gTy nodes).2 =
            forwardInsert (gp ++ [(ga, gj)]) gTy nodes.length from rfl, hfwdIns, hi'] at hf2
          cases hf2
          exact ⟨_, n'', by simp [forwardMove], hg2, by rw [hl2, hl'], fun h => hne2 (hne' h)⟩
  · -- insert first, then delete
    have hb' : isBeforeAux (gp ++ [(ga, gi)]) (bp ++ [(ba, lo)]) = false := by
      cases h : isBeforeAux (gp ++ [(ga, gi)]) (bp ++ [(ba, lo)]) with
      | true => exact absurd h hb
      | false => rfl
    simp only [hb', Bool.false_eq_true, if_false]
    obtain ⟨A1, A2, A3, A4⟩ := move_after_paths bp ba lo hi gp ga gi gj hlt hgi' hb' hP1 hbug
    have c₁ := insert_coherent_aux t (gp ++ [(ga, gj)]) gTy nodes hgne hg
    -- the block is still at its path after the insertion
    have hlast : ∃ cl, t.get? (bp ++ [(ba, hi - 1)]) = some cl := by
      rw [Tree.get?_append_of_get? hn, Tree.get?_cons]
      have : hi - 1 < (n.children ba).length := by omega
      simp [List.getElem?_eq_getElem this]
    obtain ⟨cl, hcl⟩ := hlast
    have hblk : ∃ n₁, (insert t (gp ++ [(ga, gj)]) gTy nodes).1.get? bp = some n₁ ∧
        hi ≤ (n₁.children ba).length := by
      rcases c₁.node _ cl hcl with hinv | ⟨p', n', hf, hg', _, _⟩
      · rw [show (insert t (gp ++ [(ga, gj)]) gTy nodes).2 =
          forwardInsert (gp ++ [(ga, gj)]) gTy nodes.length from rfl, hfwdIns, A4 (hi - 1) (by omega) (by omega)] at hinv
        cases hinv
      · rw [show (insert t (gp ++ [(ga, gj)]) gTy nodes).2 =
          forwardInsert (gp ++ [(ga, gj)]) gTy nodes.length from rfl, hfwdIns, A4 (hi - 1) (by omega) (by omega)] at hf
        cases hf
        rw [Tree.get?_append] at hg'
        cases hbp : (insert t (gp ++ [(ga, gj)]) gTy nodes).1.get? bp with
        | none => simp [hbp] at hg'
        | some n₁ =>
          simp only [hbp, Option.bind_some] at hg'
          obtain ⟨c, hc, _⟩ := base_get_through hg'
          exact ⟨n₁, rfl, by have := getElem?_lt_length hc; omega⟩
    obtain ⟨n₁, hn₁, hhi₁⟩ := hblk
    have c₂ := delete_coherent_aux (insert t (gp ++ [(ga, gj)]) gTy nodes).1 n₁ bp ba lo hi pass hn₁ hle hhi₁
    have hfwdDel : ∀ q, (deleteBlock (insert t (gp ++ [(ga, gj)]) gTy nodes).1 bp ba lo hi pass).2 (.node q) =
        match lfNode bp ba (replFn lo hi 0) q with
        | .ok p' => .ok (.node p')
        | .error e => .error e := fun q => rfl
    by_cases hmoved : ∃ i rest, p = bp ++ (ba, i) :: rest ∧ lo ≤ i ∧ i < hi
    · obtain ⟨i, rest, rfl, h1, h2⟩ := hmoved
      -- the inserted copy in the intermediate tree
      rw [Tree.get?_append] at hc0
      cases hgp : t.get? gp with
      | none => simp [hgp] at hc0
      | some n₀ =>
        simp only [hgp, Option.bind_some] at hc0
        obtain ⟨c, hc, _⟩ := base_get_through hc0
        have hlen := getElem?_lt_length hc
        have hq : (insert t (gp ++ [(ga, gj)]) gTy nodes).1.get? (gp ++ (ga, gi + (i - lo)) :: rest) = some m := by
          rw [insert_tree_eq gTy nodes hgp hc, hgi, get?_inserted nodes hgp (by omega)]
          rw [Tree.get?_append_of_get? hn, Tree.get?_cons] at hp
          rcases getElem?_moved_nodes (n.children ba) lo hi i h1 h2 ((n₀.children ga).drop gi) with h | h
          · rw [← hnodes, h]; exact hp
          · rw [h] at hp; simp at hp
        rcases c₂.node _ m hq with hinv | ⟨p', n', hf, hg', hl', hne'⟩
        · rw [hfwdDel, A2 i rest h1 h2] at hinv
          cases hinv
        · rw [hfwdDel, A2 i rest h1 h2] at hf
          cases hf
          exact ⟨_, n', by simp [forwardMove], hg', hl', fun _ => hne' (by simp)⟩
    · have hnm : ∀ i rest, p = bp ++ (ba, i) :: rest → ¬ (lo ≤ i ∧ i < hi) :=
        fun i rest h1 h2 => hmoved ⟨i, rest, h1, h2.1, h2.2⟩
      obtain ⟨p₁, hi', hd⟩ := A1 p hnm
      rcases c₁.node p m hp with hinv | ⟨p', n', hf, hg', hl', hne'⟩
      · rw [show (insert t (gp ++ [(ga, gj)]) gTy nodes).2 =
          forwardInsert (gp ++ [(ga, gj)]) gTy nodes.length from rfl, hfwdIns, hi'] at hinv
        cases hinv
      · rw [show (insert t (gp ++ [(ga, gj)]) gTy nodes).2 =
          forwardInsert (gp ++ [(ga, gj)]) gTy nodes.length from rfl, hfwdIns, hi'] at hf
        cases hf
        rcases c₂.node p₁ n' hg' with hinv | ⟨p'', n'', hf2, hg2, hl2, hne2⟩
        · rw [hfwdDel, hd] at hinv
          cases hinv
        · rw [hfwdDel, hd] at hf2
          cases hf2
          exact ⟨_, n'', by simp [forwardMove], hg2, by rw [hl2, hl'], fun h => hne2 (hne' h)⟩

end assembly

end Exo.Cursor
