/-
  Lemmas for C12, part 6: the statement layer.  Both passes leave the trace of observed index
  tuples and the final configuration unchanged —
    * `_DoNormalize.map_s` under a range oracle that is sound for the valuations reachable in each scope,
    * `DoSimplify.map_s` under: no name clash when a loop binds its iterator, and no config write inside
      a then-branch (the branch's fact may mention the configuration).
-/
import ExoModel.Lemmas.SimplifyScope
import ExoModel.Lemmas.SimplifyFold

namespace Exo.Simplify
open Exo (Sym)

/-! ### predicates on programs -/

mutual
def Stmt.WF : Stmt → Prop
  | .obs es => ∀ e ∈ es, e.WF
  | .wcfg _ _ e => e.WF
  | .ite c t e => c.WF ∧ t.WF ∧ e.WF
  | .loop _ lo hi b => lo.WF ∧ hi.WF ∧ b.WF
  | .pass => True
def Block.WF : Block → Prop
  | .nil => True
  | .cons s b => s.WF ∧ b.WF
end

mutual
/-- scoping discipline the fact table needs: every expression is over the symbols in scope `V`;
    a loop iterator's *name* is not the name of any symbol in scope (no shadowing, no clash);
    `locked` (= we are inside a then-branch) forbids config writes -/
def Stmt.Scoped (V : List Sym) (locked : Bool) : Stmt → Prop
  | .obs es => ∀ e ∈ es, Over V e
  | .wcfg _ _ e => locked = false ∧ Over V e
  | .ite c t e => Over V c ∧ t.Scoped V true ∧ e.Scoped V locked
  | .loop i lo hi b => Over V lo ∧ Over V hi ∧ (∀ s ∈ V, s.name ≠ i.name) ∧ b.Scoped (i :: V) locked
  | .pass => True
def Block.Scoped (V : List Sym) (locked : Bool) : Block → Prop
  | .nil => True
  | .cons s b => s.Scoped V locked ∧ b.Scoped V locked
end

/-- the valuations that can reach a point whose enclosing loops are `sc` (innermost first),
    starting from a valuation of the arguments satisfying `P`; the configuration may change freely -/
inductive Reach (P : Val → Prop) : Scope → Val → Prop
  | base {ρ : Val} : P ρ → Reach P [] ρ
  | cfg {sc : Scope} {ρ : Val} (σ' : CfgSt) : Reach P sc ρ → Reach P sc ⟨ρ.sym, σ'⟩
  | bind {sc : Scope} {ρ : Val} (i : Sym) (lo hi : Expr) (v : Int) :
      Reach P sc ρ → eval ρ lo ≤ v → v < eval ρ hi →
      Reach P ((i, lo, hi) :: sc) ⟨setSym ρ.sym i v, ρ.cfg⟩

/-! ### small facts about the semantics -/

theorem eval_noCfg (r : Sym → Int) (σ σ' : CfgSt) : ∀ (e : Expr), e.hasCfg = false →
    eval ⟨r, σ⟩ e = eval ⟨r, σ'⟩ e
  | .var _, _ => rfl
  | .const _, _ => rfl
  | .bconst _, _ => rfl
  | .usub e, h => by simp only [eval]; rw [eval_noCfg r σ σ' e (by simpa [Expr.hasCfg] using h)]
  | .bin op l r', h => by
    simp only [Expr.hasCfg, Bool.or_eq_false_iff] at h
    simp only [eval]; rw [eval_noCfg r σ σ' l h.1, eval_noCfg r σ σ' r' h.2]
  | .cfg _ _, h => by simp [Expr.hasCfg] at h

theorem eval_setSym_notin (r : Sym → Int) (σ : CfgSt) (i : Sym) (v : Int) : ∀ (e : Expr), i ∉ e.syms →
    eval ⟨setSym r i v, σ⟩ e = eval ⟨r, σ⟩ e
  | .var s, h => by
    have : s ≠ i := by intro e; subst e; simp [Expr.syms] at h
    simp [eval, setSym, this]
  | .const _, _ => rfl
  | .bconst _, _ => rfl
  | .cfg _ _, _ => rfl
  | .usub e, h => by simp only [eval]; rw [eval_setSym_notin r σ i v e h]
  | .bin op l r', h => by
    simp only [Expr.syms, List.mem_append, not_or] at h
    simp only [eval]; rw [eval_setSym_notin r σ i v l h.1, eval_setSym_notin r σ i v r' h.2]

theorem iter_congr (I : CfgSt → Prop) (f g : Int → CfgSt → Trace × CfgSt) :
    ∀ (n : Nat) (k : Int) (σ : CfgSt), I σ →
      (∀ v σ', I σ' → k ≤ v → v < k + n → f v σ' = g v σ' ∧ I (g v σ').2) →
      iter f n k σ = iter g n k σ
  | 0, _, _, _, _ => rfl
  | n + 1, k, σ, hI, h => by
    obtain ⟨e1, i1⟩ := h k σ hI (by omega) (by omega)
    simp only [iter, e1]
    rw [iter_congr I f g n (k + 1) _ i1 (fun v σ' hi h1 h2 => h v σ' hi (by omega) (by omega))]

theorem execB_append : ∀ (a b : Block) (r : Sym → Int) (σ : CfgSt),
    execB (a.append b) r σ = ((execB a r σ).1 ++ (execB b r (execB a r σ).2).1, (execB b r (execB a r σ).2).2)
  | .nil, b, r, σ => by simp [Block.append, execB]
  | .cons s a, b, r, σ => by
    simp only [Block.append, execB, execB_append a b r _, List.append_assoc]

theorem execB_orPass (orig res : Block) (r : Sym → Int) (σ : CfgSt) :
    execB (orig.orPass res) r σ = execB res r σ := by
  unfold Block.orPass
  split
  · simp [execB, execS]
  · rfl

theorem mapMOpt_eval (ρ : Val) (Q : Expr → Prop) (f : Expr → Option Expr)
    (hf : ∀ e e', Q e → f e = some e' → eval ρ e' = eval ρ e) :
    ∀ (es es' : List Expr), (∀ e ∈ es, Q e) → mapMOpt f es = some es' →
      es'.map (eval ρ) = es.map (eval ρ)
  | [], es', _, h => by simp only [mapMOpt, Option.some.injEq] at h; subst h; rfl
  | e :: r, es', hq, h => by
    simp only [mapMOpt] at h
    split at h
    · rename_i e1 r1 h1 h2
      simp only [Option.some.injEq] at h; subst h
      simp only [List.map_cons]
      rw [hf _ _ (hq _ (by simp)) h1, mapMOpt_eval ρ Q f hf r r1 (fun x hx => hq x (by simp [hx])) h2]
    · cases h

theorem mapMOpt_over (V : List Sym) (f : Expr → Option Expr)
    (hf : ∀ e e', Over V e → f e = some e' → Over V e') :
    ∀ (es es' : List Expr), (∀ e ∈ es, Over V e) → mapMOpt f es = some es' → ∀ e ∈ es', Over V e
  | [], es', _, h => by simp only [mapMOpt, Option.some.injEq] at h; subst h; intro e he; cases he
  | e :: r, es', hq, h => by
    simp only [mapMOpt] at h
    split at h
    · rename_i e1 r1 h1 h2
      simp only [Option.some.injEq] at h; subst h
      intro x hx
      simp only [List.mem_cons] at hx
      cases hx with
      | inl e2 => subst e2; exact hf _ _ (hq _ (by simp)) h1
      | inr e2 => exact mapMOpt_over V f hf r r1 (fun y hy => hq y (by simp [hy])) h2 x e2
    · cases h

/-! ### pass 1: `_DoNormalize` -/

section pass1
variable (O : OracleS) (P : Val → Prop)
variable (hS : ∀ sc, (O sc).Sound (Reach P sc))
include hS

theorem normE_eval (sc : Scope) (r : Sym → Int) (σ : CfgSt) (hR : Reach P sc ⟨r, σ⟩) (e e' : Expr)
    (hw : e.WF) (h : normE (O sc) e = some e') : eval ⟨r, σ⟩ e' = eval ⟨r, σ⟩ e :=
  (normE_sound_WF (O sc) (Reach P sc) (hS sc) ⟨r, σ⟩ hR e e' hw h).1

mutual
theorem normS_sound : ∀ (s : Stmt) (sc : Scope) (s' : Stmt), s.WF → normS O sc s = some s' →
    ∀ (r : Sym → Int) (σ : CfgSt), Reach P sc ⟨r, σ⟩ → execS s' r σ = execS s r σ
  | .obs es, sc, s', hw, h, r, σ, hR => by
    simp only [normS, Option.map_eq_some_iff] at h
    obtain ⟨es', hes, rfl⟩ := h
    simp only [execS]
    rw [mapMOpt_eval ⟨r, σ⟩ Expr.WF (normE (O sc))
      (fun e e' hq he => normE_eval O P hS sc r σ hR e e' hq he) es es' hw hes]
  | .wcfg c f e, sc, s', hw, h, r, σ, hR => by
    simp only [normS, Option.map_eq_some_iff] at h
    obtain ⟨e', he, rfl⟩ := h
    simp only [execS]
    rw [normE_eval O P hS sc r σ hR e e' hw he]
  | .ite c t e, sc, s', hw, h, r, σ, hR => by
    simp only [normS] at h
    split at h
    · rename_i c' t' e' hc ht he
      simp only [Option.some.injEq] at h; subst h
      simp only [execS]
      rw [normE_eval O P hS sc r σ hR c c' hw.1 hc,
        normB_sound t sc t' hw.2.1 ht r σ hR, normB_sound e sc e' hw.2.2 he r σ hR]
    · cases h
  | .loop i lo hi b, sc, s', hw, h, r, σ, hR => by
    simp only [normS] at h
    split at h
    · rename_i lo' hi' hlo hhi
      split at h
      · cases h
      · rename_i hcfg
        simp only [Bool.or_eq_true, not_or, Bool.not_eq_true] at hcfg
        split at h
        · rename_i b' hb
          simp only [Option.some.injEq] at h; subst h
          have elo := normE_eval O P hS sc r σ hR lo lo' hw.1 hlo
          have ehi := normE_eval O P hS sc r σ hR hi hi' hw.2.1 hhi
          simp only [execS, elo, ehi]
          apply iter_congr (fun _ => True) _ _ _ _ _ trivial
          intro v σ' _ h1 h2
          refine ⟨?_, trivial⟩
          apply normB_sound b _ b' hw.2.2 hb
          have hR' : Reach P sc ⟨r, σ'⟩ := Reach.cfg σ' hR
          have := Reach.bind (P := P) i lo' hi' v hR'
            (by rw [← eval_noCfg r σ σ' lo' hcfg.1, elo]; exact h1)
            (by rw [← eval_noCfg r σ σ' hi' hcfg.2, ehi]; omega)
          exact this
        · cases h
    · cases h
  | .pass, sc, s', _, h, r, σ, _ => by
    simp only [normS, Option.some.injEq] at h; subst h; rfl
theorem normB_sound : ∀ (b : Block) (sc : Scope) (b' : Block), b.WF → normB O sc b = some b' →
    ∀ (r : Sym → Int) (σ : CfgSt), Reach P sc ⟨r, σ⟩ → execB b' r σ = execB b r σ
  | .nil, sc, b', _, h, r, σ, _ => by
    simp only [normB, Option.some.injEq] at h; subst h; rfl
  | .cons s b, sc, b', hw, h, r, σ, hR => by
    simp only [normB] at h
    split at h
    · rename_i s1 b1 hs hb
      simp only [Option.some.injEq] at h; subst h
      simp only [execB]
      rw [normS_sound s sc s1 hw.1 hs r σ hR]
      rw [normB_sound b sc b1 hw.2 hb r _ (Reach.cfg _ hR)]
    · cases h
end

end pass1

/-! pass 1 keeps the scoping discipline -/
mutual
theorem normS_scoped (O : OracleS) (V : List Sym) (locked : Bool) : ∀ (s : Stmt) (sc : Scope) (s' : Stmt),
    s.Scoped V locked → normS O sc s = some s' → s'.Scoped V locked
  | .obs es, sc, s', hs, h => by
    simp only [normS, Option.map_eq_some_iff] at h
    obtain ⟨es', hes, rfl⟩ := h
    exact mapMOpt_over V _ (fun e e' ho he => normE_over V (O sc) e e' ho he) es es' hs hes
  | .wcfg c f e, sc, s', hs, h => by
    simp only [normS, Option.map_eq_some_iff] at h
    obtain ⟨e', he, rfl⟩ := h
    exact ⟨hs.1, normE_over V (O sc) e e' hs.2 he⟩
  | .ite c t e, sc, s', hs, h => by
    simp only [normS] at h
    split at h
    · rename_i c' t' e' hc ht he
      simp only [Option.some.injEq] at h; subst h
      exact ⟨normE_over V (O sc) c c' hs.1 hc, normB_scoped O V true t sc t' hs.2.1 ht,
        normB_scoped O V locked e sc e' hs.2.2 he⟩
    · cases h
  | .loop i lo hi b, sc, s', hs, h => by
    simp only [normS] at h
    split at h
    · rename_i lo' hi' hlo hhi
      split at h
      · cases h
      · split at h
        · rename_i b' hb
          simp only [Option.some.injEq] at h; subst h
          exact ⟨normE_over V (O sc) lo lo' hs.1 hlo, normE_over V (O sc) hi hi' hs.2.1 hhi, hs.2.2.1,
            normB_scoped O (i :: V) locked b _ b' hs.2.2.2 hb⟩
        · cases h
    · cases h
  | .pass, sc, s', _, h => by
    simp only [normS, Option.some.injEq] at h; subst h; trivial
theorem normB_scoped (O : OracleS) (V : List Sym) (locked : Bool) : ∀ (b : Block) (sc : Scope) (b' : Block),
    b.Scoped V locked → normB O sc b = some b' → b'.Scoped V locked
  | .nil, sc, b', _, h => by
    simp only [normB, Option.some.injEq] at h; subst h; trivial
  | .cons s b, sc, b', hs, h => by
    simp only [normB] at h
    split at h
    · rename_i s1 b1 h1 h2
      simp only [Option.some.injEq] at h; subst h
      exact ⟨normS_scoped O V locked s sc s1 hs.1 h1, normB_scoped O V locked b sc b1 hs.2 h2⟩
    · cases h
end

/-! ### pass 2: `DoSimplify` -/

/-- inside a then-branch (`locked`) the facts hold at the current configuration, which cannot change
    there; outside they hold whatever the configuration is -/
def FInv (V : List Sym) (locked : Bool) (F : Facts) (r : Sym → Int) (σ : CfgSt) : Prop :=
  if locked then FactsOK V ⟨r, σ⟩ F else ∀ σ', FactsOK V ⟨r, σ'⟩ F

theorem FInv.now {V : List Sym} {locked : Bool} {F : Facts} {r : Sym → Int} {σ : CfgSt}
    (h : FInv V locked F r σ) : FactsOK V ⟨r, σ⟩ F := by
  unfold FInv at h
  split at h
  · exact h
  · exact h σ

theorem FInv.lock {V : List Sym} {locked : Bool} {F : Facts} {r : Sym → Int} {σ : CfgSt}
    (h : FInv V locked F r σ) : FInv V true F r σ := by
  simp only [FInv, if_true]; exact h.now

mutual
theorem locked_cfg_S (V : List Sym) : ∀ (s : Stmt) (r : Sym → Int) (σ : CfgSt), s.Scoped V true →
    (execS s r σ).2 = σ
  | .obs _, _, _, _ => rfl
  | .wcfg _ _ _, _, _, h => by simp [Stmt.Scoped] at h
  | .ite c t e, r, σ, h => by
    simp only [execS]
    split
    · exact locked_cfg_B V t r σ h.2.1
    · exact locked_cfg_B V e r σ h.2.2
  | .loop i lo hi b, r, σ, h => by
    simp only [execS]
    generalize (eval ⟨r, σ⟩ hi - eval ⟨r, σ⟩ lo).toNat = n
    generalize eval ⟨r, σ⟩ lo = k
    induction n generalizing k σ with
    | zero => rfl
    | succ n ih =>
      simp only [iter]
      rw [locked_cfg_B (i :: V) b _ σ h.2.2.2]
      exact ih σ (k + 1)
  | .pass, _, _, _ => rfl
theorem locked_cfg_B (V : List Sym) : ∀ (b : Block) (r : Sym → Int) (σ : CfgSt), b.Scoped V true →
    (execB b r σ).2 = σ
  | .nil, _, _, _ => rfl
  | .cons s b, r, σ, h => by
    simp only [execB]
    rw [locked_cfg_S V s r σ h.1]
    exact locked_cfg_B V b r σ h.2
end

theorem FactsOK.bind {V : List Sym} {r : Sym → Int} {σ : CfgSt} {F : Facts} (h : FactsOK V ⟨r, σ⟩ F)
    (i : Sym) (v : Int) (hi : i ∉ V) : FactsOK (i :: V) ⟨setSym r i v, σ⟩ F := by
  intro k w hm
  obtain ⟨⟨e0, ho, hk, he⟩, hw⟩ := h k w hm
  have n0 : i ∉ e0.syms := fun hc => hi (ho i hc)
  have nw : i ∉ w.syms := fun hc => hi (hw i hc)
  refine ⟨⟨e0, ho.mono (fun s hs => List.mem_cons_of_mem _ hs), hk, ?_⟩, hw.mono (fun s hs => List.mem_cons_of_mem _ hs)⟩
  rw [eval_setSym_notin r σ i v e0 n0, eval_setSym_notin r σ i v w nw, he]

theorem FInv.bind {V : List Sym} {locked : Bool} {F : Facts} {r : Sym → Int} {σ : CfgSt}
    (h : FInv V locked F r σ) (i : Sym) (v : Int) (hi : i ∉ V) : FInv (i :: V) locked F (setSym r i v) σ := by
  unfold FInv at *
  split
  · rename_i hl; simp only [hl, if_true] at h; exact h.bind i v hi
  · rename_i hl; simp only [hl] at h; exact fun σ' => (h σ').bind i v hi

theorem FInv.step {V : List Sym} {locked : Bool} {F : Facts} {r : Sym → Int} {σ σ1 : CfgSt}
    (h : FInv V locked F r σ) (hσ : locked = true → σ1 = σ) : FInv V locked F r σ1 := by
  unfold FInv at *
  split
  · rename_i hl; rw [hσ hl]; simpa [hl] using h
  · rename_i hl; simpa [hl] using h

theorem NoClash.cons {V : List Sym} (h : NoClash V) (i : Sym) (hi : ∀ s ∈ V, s.name ≠ i.name) : NoClash (i :: V) := by
  intro a ha b hb hn
  simp only [List.mem_cons] at ha hb
  cases ha with
  | inl ea =>
    cases hb with
    | inl eb => rw [ea, eb]
    | inr eb => subst ea; exact absurd hn.symm (hi b eb)
  | inr ea =>
    cases hb with
    | inl eb => subst eb; exact absurd hn (hi a ea)
    | inr eb => exact h a ea b eb hn

theorem fresh_not_mem {V : List Sym} (i : Sym) (hi : ∀ s ∈ V, s.name ≠ i.name) : i ∉ V :=
  fun hm => hi i hm rfl

theorem constCond_eval (ρ : Val) (c : Expr) (b : Bool) (h : constCond c = some b) :
    (eval ρ c ≠ 0) ↔ b = true := by
  cases c <;> simp [constCond] at h
  · rename_i v; subst h; simp [eval]
  · subst h; rename_i b; cases b <;> simp [eval, b2i]

theorem constEq_eval (ρ : Val) (a b : Expr) (h : constEq a b = true) : eval ρ a = eval ρ b := by
  cases a <;> cases b <;> simp [constEq] at h
  subst h; rfl

section pass2
variable (nodeEq : Expr → Expr → Bool) (hEq : ∀ a b, nodeEq a b = true → a = b)
include hEq

theorem simpE_eval (V : List Sym) (hV : NoClash V) (locked : Bool) (F : Facts) (r : Sym → Int) (σ : CfgSt)
    (hF : FInv V locked F r σ) (e e' : Expr) (ho : Over V e) (h : simpE nodeEq F e = some e') :
    eval ⟨r, σ⟩ e' = eval ⟨r, σ⟩ e ∧ Over V e' :=
  simpE_sound nodeEq hEq V hV ⟨r, σ⟩ F hF.now e e' ho h

mutual
theorem simpS_sound : ∀ (s : Stmt) (V : List Sym) (locked : Bool) (F : Facts) (b' : Block),
    NoClash V → s.Scoped V locked → simpS nodeEq F s = some b' →
    ∀ (r : Sym → Int) (σ : CfgSt), FInv V locked F r σ → execB b' r σ = execS s r σ
  | .obs es, V, locked, F, b', hV, hs, h, r, σ, hF => by
    simp only [simpS, Option.map_eq_some_iff] at h
    obtain ⟨es', hes, rfl⟩ := h
    simp only [execB, execS, List.append_nil]
    rw [mapMOpt_eval ⟨r, σ⟩ (Over V) (simpE nodeEq F)
      (fun e e' hq he => (simpE_eval nodeEq hEq V hV locked F r σ hF e e' hq he).1) es es' hs hes]
  | .wcfg c f e, V, locked, F, b', hV, hs, h, r, σ, hF => by
    simp only [simpS, Option.map_eq_some_iff] at h
    obtain ⟨e', he, rfl⟩ := h
    simp only [execB, execS, List.append_nil]
    rw [(simpE_eval nodeEq hEq V hV locked F r σ hF e e' hs.2 he).1]
  | .ite c t e, V, locked, F, b', hV, hs, h, r, σ, hF => by
    simp only [simpS] at h
    split at h
    · cases h
    · rename_i c' hc
      obtain ⟨ec, oc⟩ := simpE_eval nodeEq hEq V hV locked F r σ hF c c' hs.1 hc
      split at h
      · -- condition is a true constant: the body is spliced in
        rename_i hcc
        have : eval ⟨r, σ⟩ c ≠ 0 := by rw [← ec]; exact (constCond_eval _ c' true hcc).mpr rfl
        simp only [execS, this, ne_eq, not_false_eq_true, if_true]
        exact simpL_sound t V true F b' hV hs.2.1 h r σ hF.lock
      · rename_i hcc
        have : ¬ (eval ⟨r, σ⟩ c ≠ 0) := by
          rw [← ec]; intro hne
          have := (constCond_eval _ c' false hcc).mp hne
          cases this
        simp only [execS, this, if_false]
        exact simpL_sound e V locked F b' hV hs.2.2 h r σ hF
      · split at h
        · rename_i t' e' ht he
          simp only [Option.some.injEq] at h; subst h
          simp only [execB, execS, List.append_nil, ec]
          split
          · rename_i hne
            rw [execB_orPass]
            have hF' : FInv V true (addFact c' F) r σ := by
              simp only [FInv, if_true]
              exact addFact_ok V ⟨r, σ⟩ F hF.now c' oc (by rw [ec]; exact hne)
            rw [simpL_sound t V true (addFact c' F) t' hV hs.2.1 ht r σ hF']
          · rw [execB_orPass]
            rw [simpL_sound e V locked F e' hV hs.2.2 he r σ hF]
        · cases h
  | .loop i lo hi b, V, locked, F, b', hV, hs, h, r, σ, hF => by
    simp only [simpS] at h
    split at h
    · rename_i lo' hi' hlo hhi
      obtain ⟨elo, _⟩ := simpE_eval nodeEq hEq V hV locked F r σ hF lo lo' hs.1 hlo
      obtain ⟨ehi, _⟩ := simpE_eval nodeEq hEq V hV locked F r σ hF hi hi' hs.2.1 hhi
      split at h
      · -- both bounds are the same constant: the loop never runs
        rename_i hce
        simp only [Option.some.injEq] at h; subst h
        have := constEq_eval ⟨r, σ⟩ lo' hi' hce
        rw [elo, ehi] at this
        simp [execB, execS, this, iter]
      · split at h
        · rename_i b1 hb
          simp only [Option.some.injEq] at h; subst h
          simp only [execB, execS, List.append_nil, elo, ehi]
          have hfresh := fresh_not_mem i hs.2.2.1
          have hV' := hV.cons i hs.2.2.1
          have key := iter_congr (fun σ' => FInv V locked F r σ')
            (fun v σ' => execB (b.orPass b1) (setSym r i v) σ') (fun v σ' => execB b (setSym r i v) σ')
            (eval ⟨r, σ⟩ hi - eval ⟨r, σ⟩ lo).toNat (eval ⟨r, σ⟩ lo) σ hF
            (by
              intro v σ' hI _ _
              refine ⟨?_, ?_⟩
              · simp only [execB_orPass]
                exact simpL_sound b (i :: V) locked F b1 hV' hs.2.2.2 hb _ σ' (hI.bind i v hfresh)
              · exact hI.step (fun hl => by subst hl; exact locked_cfg_B (i :: V) b _ σ' hs.2.2.2))
          simp only [key]
        · cases h
    · cases h
  | .pass, V, locked, F, b', _, _, h, r, σ, _ => by
    simp only [simpS, Option.some.injEq] at h; subst h; rfl
theorem simpL_sound : ∀ (b : Block) (V : List Sym) (locked : Bool) (F : Facts) (b' : Block),
    NoClash V → b.Scoped V locked → simpL nodeEq F b = some b' →
    ∀ (r : Sym → Int) (σ : CfgSt), FInv V locked F r σ → execB b' r σ = execB b r σ
  | .nil, V, locked, F, b', _, _, h, r, σ, _ => by
    simp only [simpL, Option.some.injEq] at h; subst h; rfl
  | .cons s b, V, locked, F, b', hV, hs, h, r, σ, hF => by
    simp only [simpL] at h
    split at h
    · rename_i s1 b1 h1 h2
      simp only [Option.some.injEq] at h; subst h
      have e1 := simpS_sound s V locked F s1 hV hs.1 h1 r σ hF
      rw [execB_append, e1]
      simp only [execB]
      have hF1 : FInv V locked F r (execS s r σ).2 :=
        hF.step (fun hl => by subst hl; exact locked_cfg_S V s r σ hs.1)
      rw [simpL_sound b V locked F b1 hV hs.2 h2 r _ hF1]
    · cases h
end

end pass2

end Exo.Simplify
