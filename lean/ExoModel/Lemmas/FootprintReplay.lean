/-
  Lemmas about dynamic footprints, part 2: REPLAY for the whole statement language — a successful
  run of a statement / block / call changes the pre-existing buffers and the configuration exactly
  as its event list says (mutual induction over statements, blocks and procedures).
-/
import ExoModel.Lemmas.Footprint

set_option linter.unusedSectionVars false
set_option linter.unusedVariables false
namespace Exo.Fp
open Exo

variable {V : Type} [DataAlg V] (ext : String → List V → V)

mutual
theorem replayS : ∀ (a : Stmt) (σ σ' : State V), execS ext a σ = .ok σ' →
    Replay σ σ' (evS ext a σ)
  | .assign x idx rhs, σ, σ', h => by
    simp only [execS, bind, Except.bind] at h
    cases hv : evalD ext σ rhs with
    | error e => rw [hv] at h; cases h
    | ok v =>
      rw [hv] at h
      simp only [] at h
      rw [writeCell_eq] at h
      cases hc : target σ x idx with
      | error e => rw [hc] at h; cases h
      | ok c =>
        rw [hc] at h
        simp only [Except.map, Except.ok.injEq] at h
        subst h
        simp only [evS, hv, hc, onOk_ok]
        exact Replay.pure_left (allPure_append (allPure_evD _ _) (allPure_crds _))
          (Replay.write σ c v (target_valid hc))
  | .reduce x idx rhs, σ, σ', h => by
    simp only [execS, bind, Except.bind] at h
    cases hv : evalD ext σ rhs with
    | error e => rw [hv] at h; cases h
    | ok v =>
      rw [hv] at h
      simp only [] at h
      rw [writeCell_eq] at h
      cases hc : target σ x idx with
      | error e => rw [hc] at h; cases h
      | ok c =>
        rw [hc] at h
        simp only [Except.map, Except.ok.injEq] at h
        subst h
        simp only [evS, hv, hc, onOk_ok]
        exact Replay.pure_left (allPure_append (allPure_evD _ _) (allPure_crds _))
          (Replay.reduce σ c v (target_valid hc))
  | .writecfg c f rhs isData, σ, σ', h => by
    simp only [execS] at h
    cases isData with
    | true =>
      simp only [↓reduceIte, bind, Except.bind] at h
      cases hv : evalD ext σ rhs with
      | error e => rw [hv] at h; cases h
      | ok v =>
        rw [hv] at h
        simp only [pure, Except.pure, Except.ok.injEq] at h
        subst h
        simp only [evS, ↓reduceIte, hv, onOk_ok]
        exact Replay.pure_left (allPure_evD _ _) (Replay.setCfg σ (c, f) (.data v))
    | false =>
      simp only [Bool.false_eq_true, ↓reduceIte, bind, Except.bind] at h
      cases hv : evalC σ rhs with
      | error e => rw [hv] at h; cases h
      | ok v =>
        rw [hv] at h
        simp only [pure, Except.pure, Except.ok.injEq] at h
        subst h
        simp only [evS, Bool.false_eq_true, ↓reduceIte, hv, onOk_ok]
        exact Replay.pure_left (allPure_crds _) (Replay.setCfg σ (c, f) (.ctrl v))
  | .pass, σ, σ', h => by
    simp only [execS, pure, Except.pure, Except.ok.injEq] at h
    subst h
    simp only [evS]
    exact Replay.pure_same allPure_nil rfl rfl
  | .free _, σ, σ', h => by
    simp only [execS, pure, Except.pure, Except.ok.injEq] at h
    subst h
    simp only [evS]
    exact Replay.pure_same allPure_nil rfl rfl
  | .ite c t e, σ, σ', h => by
    simp only [execS, bind, Except.bind] at h
    cases hb : evalC σ c with
    | error err => rw [hb] at h; cases h
    | ok b =>
      rw [hb] at h
      simp only [] at h
      simp only [evS, hb, onOk_ok]
      by_cases hz : b = 0
      · simp only [hz, ne_eq, not_true_eq_false, if_false] at h ⊢
        obtain ⟨s2, h2, rfl⟩ := map_leave_ok h
        exact Replay.pure_left (allPure_crds _) (Replay.leave (replayL e σ s2 h2) rfl rfl)
      · simp only [hz, ne_eq, not_false_eq_true, if_true] at h ⊢
        obtain ⟨s2, h2, rfl⟩ := map_leave_ok h
        exact Replay.pure_left (allPure_crds _) (Replay.leave (replayL t σ s2 h2) rfl rfl)
  | .loop i lo hi body par, σ, σ', h => by
    simp only [execS, bind, Except.bind] at h
    cases hl : evalC σ lo with
    | error e => rw [hl] at h; cases h
    | ok l =>
      rw [hl] at h
      simp only [] at h
      cases hh : evalC σ hi with
      | error e => rw [hh] at h; cases h
      | ok hv =>
        rw [hh] at h
        simp only [] at h
        by_cases hlt : hv < l
        · simp [hlt] at h
        · simp only [hlt, if_false] at h
          simp only [evS, hl, hh, onOk_ok, hlt, if_false]
          refine Replay.pure_left (allPure_crds _)
            (replay_iterate _ _ (fun v s s' hs => ?_) _ _ _ _ h)
          obtain ⟨s2, h2, rfl⟩ := map_leave_ok hs
          exact Replay.leave (replayL body (s.bind i v) s2 h2) rfl rfl
  | .alloc x shape, σ, σ', h => by
    simp only [execS, bind, Except.bind] at h
    cases hs : evalCs σ shape with
    | error e => rw [hs] at h; cases h
    | ok sh =>
      rw [hs] at h
      simp only [] at h
      cases hk : checkSizes sh with
      | error e => rw [hk] at h; cases h
      | ok u =>
        rw [hk] at h
        simp only [pure, Except.pure, Except.ok.injEq] at h
        subst h
        simp only [evS]
        exact Replay.trans (Replay.alloc σ _ _) (Replay.pure_same (allPure_crds _) rfl rfl)
  | .call f args, σ, σ', h => by
    simp only [execS] at h
    simp only [evS]
    exact replayP f args σ σ' h
  | .window x rhs, σ, σ', h => by
    simp only [execS, bind, Except.bind] at h
    cases hv : evalView σ rhs with
    | error e => rw [hv] at h; cases h
    | ok v =>
      rw [hv] at h
      simp only [pure, Except.pure, Except.ok.injEq] at h
      subst h
      simp only [evS]
      exact Replay.pure_same (allPure_crds _) rfl rfl
theorem replayL : ∀ (ss : List Stmt) (σ σ' : State V), execL ext ss σ = .ok σ' →
    Replay σ σ' (evL ext ss σ)
  | [], σ, σ', h => by
    simp only [execL, pure, Except.pure, Except.ok.injEq] at h
    subst h
    simp only [evL]
    exact Replay.pure_same allPure_nil rfl rfl
  | s :: r, σ, σ', h => by
    simp only [execL, bind, Except.bind] at h
    cases h1 : execS ext s σ with
    | error e => rw [h1] at h; cases h
    | ok s1 =>
      rw [h1] at h
      simp only [evL, h1, onOk_ok]
      exact Replay.trans (replayS s σ s1 h1) (replayL r s1 σ' h)
theorem replayP : ∀ (p : Proc) (args : List Expr) (σ σ' : State V),
    execP ext p args σ = .ok σ' → Replay σ σ' (evP ext p args σ)
  | .mk nm fargs preds body, args, σ, σ', h => by
    simp only [execP, bind, Except.bind] at h
    simp only [evP]
    cases hb : bindArgs σ fargs args [] [] with
    | error e => rw [hb] at h; cases h
    | ok cecv =>
      rw [hb] at h
      obtain ⟨ce, cv⟩ := cecv
      simp only [onOk_ok] at h ⊢
      cases hna : noAlias cv with
      | false => simp [hna] at h
      | true =>
        simp only [hna, Bool.not_true, Bool.false_eq_true, ↓reduceIte] at h ⊢
        cases hs : checkShapes ({ env := ce, views := cv, heap := σ.heap, cfg := σ.cfg } : State V) fargs with
        | error e => rw [hs] at h; cases h
        | ok u1 =>
          rw [hs] at h
          simp only [onOk_ok] at h ⊢
          cases hp : checkPreds ({ env := ce, views := cv, heap := σ.heap, cfg := σ.cfg } : State V) preds with
          | error e => rw [hp] at h; cases h
          | ok u2 =>
            rw [hp] at h
            simp only [onOk_ok] at h ⊢
            cases h2 : execL ext body ({ env := ce, views := cv, heap := σ.heap, cfg := σ.cfg } : State V) with
            | error e => rw [h2] at h; cases h
            | ok s2 =>
              rw [h2] at h
              simp only [pure, Except.pure, Except.ok.injEq] at h
              subst h
              exact Replay.pure_left (allPure_append (allPure_crds _) (allPure_crds _))
                (Replay.leave (replayL body _ s2 h2) rfl rfl)
end

end Exo.Fp
