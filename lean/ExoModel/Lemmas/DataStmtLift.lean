/-
  Helpers for `lift_reduce_constant` (Props/C01DataStmt.lean): a loop whose body is one scaled
  reduction into a fixed cell, run side by side with the unscaled loop.  (Namespace `Exo.Ctx3`.)
-/
import ExoModel.Lemmas.DataStmtCell

set_option linter.unusedSectionVars false
namespace Exo.Ctx3
open Exo Exo.C01
variable {V : Type} [DataAlg V] (ext : String → List V → V)

theorem evalD_read_eq (x : Sym) (idx : List Expr) (σ : State V) :
    evalD ext σ (.read x idx) = (cellAt σ x idx >>= fun c => pure (heapGet σ.heap c)) := by
  unfold cellAt
  simp only [evalD]
  cases lookupSym x σ.views with
  | none => rfl
  | some v =>
    simp only [bind, Except.bind]
    cases evalCs σ idx with
    | error e => rfl
    | ok is => first | rfl | (simp only []; cases cellOf σ.heap v is <;> rfl)

omit [DataAlg V] in
theorem bind_setCell (σ : State V) (c : Nat × Nat) (w : Option V) (i : Sym) (v : Int) :
    (setCell σ c w).bind i v = setCell (σ.bind i v) c w := rfl

theorem leave_setCell (σ : State V) (c c' : Nat × Nat) (w w' : Option V) (i : Sym) (v : Int) :
    State.leave (setCell σ c w) (setCell (setCell (σ.bind i v) c w) c' w') = setCell (setCell σ c w) c' w' := by
  simp only [State.leave, setCell, State.bind, State.mk.injEq, true_and, and_true]
  exact List.take_of_length_le (by simp)

/-- one iteration of `for i: x[idx] += r` from a state in which the cell `X = x[idx]` holds `w` -/
theorem reduce_step (i x : Sym) (idx : List Expr) (r : Expr) (σ : State V) (X : Nat × Nat)
    (_hσ : cellAt σ x idx = .ok X) (v : Int) (hX : cellAt (σ.bind i v) x idx = .ok X)
    (w : Option V) :
    loopStep ext i [.reduce x idx r] v (setCell σ X w)
      = (evalD ext ((setCell σ X w).bind i v) r >>= fun vr =>
          pure (setCell σ X (lift2 DataAlg.add w vr))) := by
  unfold loopStep
  rw [execL_singleton]
  cases hr : evalD ext ((setCell σ X w).bind i v) r with
  | error e => simp [execS_reduce_eq, hr, bind, Except.bind, Except.map]
  | ok vr =>
    have hc : cellAt ((setCell σ X w).bind i v) x idx = .ok X := by
      rw [bind_setCell, cellAt_setCell]; exact hX
    rw [reduce_of ext hr hc]
    simp only [Except.map, bind, Except.bind, pure, Except.pure]
    congr 1
    rw [bind_setCell, leave_setCell, setCell_setCell]
    congr 1
    exact congrArg (fun t => lift2 DataAlg.add t vr)
      (heapGet_heapSet_same (σ.bind i v).heap X w (cellAt_valid hX))

theorem lift2_mul_add [DataLaws V] (c a b : Option V) :
    lift2 DataAlg.mul c (lift2 DataAlg.add a b)
      = lift2 DataAlg.add (lift2 DataAlg.mul c a) (lift2 DataAlg.mul c b) := by
  cases c <;> cases a <;> cases b <;> simp [lift2, DataLaws.mul_add]

/-- the scaled and the unscaled loop side by side: if the cell holds `c * w'` on the scaled side
    and `w'` on the other, the same holds after any number of iterations -/
theorem scaled_iterate [DataLaws V] (i x : Sym) (idx : List Expr) (c e : Expr) (σ : State V)
    (X : Nat × Nat) (vc : Option V) (hσ : cellAt σ x idx = .ok X)
    (hX : ∀ v, cellAt (σ.bind i v) x idx = .ok X)
    (hc : ∀ v w, evalD ext ((setCell σ X w).bind i v) c = .ok vc)
    (he : ∀ v w w', evalD ext ((setCell σ X w).bind i v) e = evalD ext ((setCell σ X w').bind i v) e) :
    ∀ (n : Nat) (k : Int) (w' : Option V) (o : State V),
      iterate (loopStep ext i [.reduce x idx (.binop .mul c e)]) n k (setCell σ X (lift2 DataAlg.mul vc w')) = .ok o →
      ∃ w2', iterate (loopStep ext i [.reduce x idx e]) n k (setCell σ X w') = .ok (setCell σ X w2') ∧
        o = setCell σ X (lift2 DataAlg.mul vc w2')
  | 0, _, w', o, h => by
    simp only [iterate, pure, Except.pure, Except.ok.injEq] at h
    exact ⟨w', rfl, h.symm⟩
  | n + 1, k, w', o, h => by
    simp only [iterate] at h ⊢
    rw [reduce_step ext i x idx _ σ X hσ k (hX k)] at h
    rw [reduce_step ext i x idx _ σ X hσ k (hX k)]
    cases hev : evalD ext ((setCell σ X w').bind i k) e with
    | error err =>
      have : evalD ext ((setCell σ X (lift2 DataAlg.mul vc w')).bind i k) (.binop .mul c e) = .error err := by
        simp only [evalD, hc, bind, Except.bind, he k _ w', hev]
      rw [this] at h
      cases h
    | ok ve =>
      have : evalD ext ((setCell σ X (lift2 DataAlg.mul vc w')).bind i k) (.binop .mul c e)
          = .ok (lift2 DataAlg.mul vc ve) := by
        simp only [evalD, hc, bind, Except.bind, he k _ w', hev, dataOp, pure, Except.pure]
      rw [this] at h
      simp only [bind, Except.bind, pure, Except.pure] at h ⊢
      rw [← lift2_mul_add] at h
      exact scaled_iterate i x idx c e σ X vc hσ hX hc he n (k + 1) _ o h

end Exo.Ctx3
