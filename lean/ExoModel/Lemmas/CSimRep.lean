/-
  Lemmas for C02 wave 2, part 2: the representation relation `Rep` between a reference state
  (`Exo.State`) and a C state (`Exo.CSem.CState`) under the compiler's environment, and the
  access / expression simulation.
-/
import ExoModel.Lemmas.CSimExpr

namespace Exo.CompileS
open Exo Exo.CIndex Exo.CSem
open Exo.Range (IExpr Op Val Inside)

variable {V : Type}

/-- extents and strides are non-negative (true of every view an Exo program can build) -/
def DimsOK (ds : List (Int × Int)) : Prop := ∀ d ∈ ds, 0 ≤ d.1 ∧ 0 ≤ d.2

/-- the C value `cv` of symbol `x` represents the view `v` the way the compiler's environment
    says `x` is stored -/
def RepVal (Γ : CEnv) (env : List (Sym × Int)) (x : Sym) (v : View) (cv : CVal) : Prop :=
  DimsOK v.dims ∧ (Γ.refs.contains x = true → lookupSym x Γ.typ = some .scalar) ∧
  match lookupSym x Γ.typ with
  | some (.tensor sh) =>
      cv = .ptr v.buf v.off ∧
      (∀ e ∈ sh, PosDivisorsE (ρOfL env) e ∧ ∀ y ∈ e.vars, (lookupSym y env).isSome = true) ∧
      v.dims = denseDims (sh.map (fun e => Range.eval e (ρOfL env)))
  | some (.window n) =>
      cv = .win v.buf v.off (v.dims.map (·.2)) ∧ v.dims.length = n ∧
      ∀ d k, lookupKnown d (knownOf x Γ.known) = some k → (v.dims.map (·.2))[d]? = some k
  | some .scalar => cv = .ptr v.buf v.off ∧ v.dims = []
  | _ => False

/-- the representation relation -/
structure Rep (Γ : CEnv) (σ : State V) (c : CState V) : Prop where
  ints : c.ints = σ.env
  heap : c.heap = σ.heap
  cfg : c.cfg = σ.cfg
  vals : ∀ x v, lookupSym x σ.views = some v →
    ∃ cv, lookupSym x c.vals = some cv ∧ RepVal Γ σ.env x v cv
  rng : Inside (ρS σ) Γ.renv.lookup

theorem Rep.rho {Γ : CEnv} {σ : State V} {c : CState V} (h : Rep Γ σ c) : ρOf c = ρS σ := by
  simp [ρOf, ρS, h.ints]

/-! ## small facts about the reference semantics -/

theorem evalCs_all2 {σ : State V} : ∀ {es : List Expr} {vs : List Int}, evalCs σ es = .ok vs →
    All2 (fun e v => evalC σ e = .ok v) es vs
  | [], vs, h => by simp only [evalCs, pure, Except.pure, Except.ok.injEq] at h; subst h; exact .nil
  | e :: r, vs, h => by
      simp only [evalCs] at h
      obtain ⟨v, hv, h⟩ := bind_ok h
      obtain ⟨ws, hws, h⟩ := bind_ok h
      simp only [pure, Except.pure, Except.ok.injEq] at h; subst h
      exact .cons hv (evalCs_all2 hws)

theorem viewOffset_nonneg : ∀ {ds : List (Int × Int)} {is : List Int} {off r : Int},
    viewOffset ds is off = .ok r → (∀ i ∈ is, 0 ≤ i) ∧ is.length = ds.length
  | [], [], _, _, _ => by simp
  | [], _ :: _, _, _, h => by simp [viewOffset, throw, throwThe, MonadExceptOf.throw] at h
  | _ :: _, [], _, _, h => by simp [viewOffset, throw, throwThe, MonadExceptOf.throw] at h
  | (ext, st) :: ds, i :: is, off, r, h => by
      simp only [viewOffset] at h
      split at h
      · rename_i hb
        have ih := viewOffset_nonneg h
        refine ⟨?_, by simp [ih.2]⟩
        intro j hj
        simp only [List.mem_cons] at hj
        rcases hj with rfl | hj
        · exact hb.1
        · exact ih.1 j hj
      · simp [throw, throwThe, MonadExceptOf.throw] at h

theorem denseDims_fst : ∀ (ns : List Int), (denseDims ns).map (·.1) = ns
  | [] => rfl
  | n :: r => by simp [denseDims, denseDims_fst r]

/-! ## strides -/

theorem good_prodR {ρ : Val} {σ : Sym → Nat → Int} : ∀ (r : List CIR) (d : CIR),
    (Good ρ σ d ∧ 0 ≤ d.eval ρ σ) → (∀ c ∈ r, Good ρ σ c ∧ 0 ≤ c.eval ρ σ) →
    Good ρ σ (prodR cirMul d r) ∧ 0 ≤ (prodR cirMul d r).eval ρ σ
  | [], _, hd, _ => hd
  | e :: r, d, hd, hr => by
      have ih := good_prodR r e (hr e (by simp)) (fun c hc => hr c (by simp [hc]))
      have h0 : 0 ≤ d.eval ρ σ * (prodR cirMul e r).eval ρ σ := Int.mul_nonneg hd.2 ih.2
      exact ⟨good_mul hd.1 ih.1 h0, by simpa [prodR, cirMul_eval] using h0⟩

theorem good_tensorStridesC {ρ : Val} {σ : Sym → Nat → Int} : ∀ (cs : List CIR),
    (∀ c ∈ cs, Good ρ σ c ∧ 0 ≤ c.eval ρ σ) →
    ∀ s ∈ tensorStridesC cs, Good ρ σ s ∧ 0 ≤ s.eval ρ σ
  | [], _, s, hs => by simp [tensorStridesC, tensorStridesG] at hs
  | [_], _, s, hs => by
      simp only [tensorStridesC, tensorStridesG, List.mem_singleton] at hs
      subst hs; exact ⟨good_const _ _ _, by simp [CIR.eval]⟩
  | _ :: d :: r, h, s, hs => by
      simp only [tensorStridesC, tensorStridesG, List.mem_cons] at hs
      rcases hs with rfl | hs
      · exact good_prodR r d (h d (by simp)) (fun c hc => h c (by simp [hc]))
      · exact good_tensorStridesC (d :: r) (fun c hc => h c (by simp [hc])) s
          (by simpa [tensorStridesC] using hs)

theorem good_offsetFold {ρ : Val} {σ : Sym → Nat → Int} : ∀ (is ss : List CIR) (acc : CIR),
    (Good ρ σ acc ∧ 0 ≤ acc.eval ρ σ) → (∀ c ∈ is, Good ρ σ c ∧ 0 ≤ c.eval ρ σ) →
    (∀ c ∈ ss, Good ρ σ c ∧ 0 ≤ c.eval ρ σ) →
    Good ρ σ (offsetFold cirAdd cirMul acc is ss)
  | [], _, _, ha, _, _ => by simpa [offsetFold] using ha.1
  | _ :: _, [], _, ha, _, _ => by simpa [offsetFold] using ha.1
  | i :: is, s :: ss, acc, ha, hi, hs => by
      simp only [offsetFold]
      have h1 := hi i (by simp)
      have h2 := hs s (by simp)
      have hm : 0 ≤ i.eval ρ σ * s.eval ρ σ := Int.mul_nonneg h1.2 h2.2
      have gm := good_mul h1.1 h2.1 hm
      have hsum : 0 ≤ acc.eval ρ σ + (cirMul i s).eval ρ σ := by
        rw [cirMul_eval]; omega
      exact good_offsetFold is ss _ ⟨good_add ha.1 gm hsum, by simpa [cirAdd_eval] using hsum⟩
        (fun c hc => hi c (by simp [hc])) (fun c hc => hs c (by simp [hc]))

theorem good_getIdxOffset {ρ : Val} {σ : Sym → Nat → Int} {x : Sym} {ty : BufTy}
    {idx : List CIR} {off : CIR} (h : getIdxOffset x ty idx = some off)
    (hi : ∀ c ∈ idx, Good ρ σ c ∧ 0 ≤ c.eval ρ σ)
    (hs : ∀ c ∈ getStrides x ty, Good ρ σ c ∧ 0 ≤ c.eval ρ σ) : Good ρ σ off := by
  unfold getIdxOffset idxOffsetG at h
  split at h
  · rename_i i is s ss hss
    split at h
    · simp only [Option.some.injEq] at h; subst h
      rw [hss] at hs
      have h1 := hi i (by simp)
      have h2 := hs s (by simp)
      have hm : 0 ≤ i.eval ρ σ * s.eval ρ σ := Int.mul_nonneg h1.2 h2.2
      exact good_offsetFold is ss _ ⟨good_mul h1.1 h2.1 hm, by simpa [cirMul_eval] using hm⟩
        (fun c hc => hi c (by simp [hc])) (fun c hc => hs c (by simp [hc]))
    · cases h
  · cases h

/-- lifted shapes: every element is `Good` and evaluates to the extent -/
theorem liftShape_good {renv : Range.Env} {ρ : Val} {σ : Sym → Nat → Int}
    (hin : Inside ρ renv.lookup) : ∀ {sh : List IExpr} {cs : List CIR},
    liftShape renv sh = .ok cs → (∀ e ∈ sh, PosDivisorsE ρ e) → sh.all (modNumOK renv) = true →
    (∀ c ∈ cs, Good ρ σ c) ∧ cs.map (·.eval ρ σ) = sh.map (fun e => Range.eval e ρ)
  | [], cs, h, _, _ => by
      simp only [liftShape, mapM', pure, Except.pure, Except.ok.injEq] at h; subst h; simp
  | e :: r, cs, h, hp, hm => by
      simp only [liftShape, mapM'] at h
      obtain ⟨c, hc, h⟩ := bind_ok h
      obtain ⟨cr, hcr, h⟩ := bind_ok h
      simp only [pure, Except.pure, Except.ok.injEq] at h; subst h
      simp only [List.all_cons, Bool.and_eq_true] at hm
      have ih := liftShape_good (σ := σ) hin (sh := r) (cs := cr) hcr (fun e he => hp e (by simp [he])) hm.2
      have hl : lift (nnOf renv) e = some c := by
        split at hc
        · simp only [pure, Except.pure, Except.ok.injEq] at hc; subst hc; assumption
        · cases hc
      have g := good_lift (σ := σ) hin (hp e (by simp)) hm.1 hl
      refine ⟨?_, by simp [g.2, ih.2]⟩
      intro c' hc'
      simp only [List.mem_cons] at hc'
      rcases hc' with rfl | hc'
      · exact g.1
      · exact ih.1 c' hc'

theorem getD_map_snd (ds : List (Int × Int)) (i : Nat) (h : i < ds.length) :
    (ds.map (·.2)).getD i 0 = (ds.map (·.2))[i]'(by simpa using h) := by
  simp [List.getD, h]

/-- what `get_strides` yields for a represented symbol: `Good` expressions that evaluate to the
    strides of the view -/
theorem strides_sim {Γ : CEnv} {σ : State V} {c : CState V} (hr : Rep Γ σ c) {x : Sym} {v : View}
    {cv : CVal} (hc : lookupSym x c.vals = some cv) (hv : RepVal Γ σ.env x v cv) {ty : BufTy}
    (ht : bufTy Γ x = .ok ty) (hk : shapeOK Γ x = true) :
    (getStrides x ty).map (·.eval (ρOf c) (σOf c)) = v.dims.map (·.2) ∧
    (∀ s ∈ getStrides x ty, Good (ρOf c) (σOf c) s) ∧
    ((isWinTy ty = false ∧ cv = .ptr v.buf v.off) ∨
     (isWinTy ty = true ∧ cv = .win v.buf v.off (v.dims.map (·.2)))) := by
  obtain ⟨hd, _, hm⟩ := hv
  have hρ : ρOf c = ρOfL σ.env := hr.rho
  rw [hρ]
  unfold bufTy at ht
  unfold shapeOK at hk
  split at hm
  · -- tensor
    rename_i sh hty
    rw [hty] at ht hk
    obtain ⟨cs, hcs, ht⟩ := bind_ok ht
    simp only [pure, Except.pure, Except.ok.injEq] at ht; subst ht
    obtain ⟨hcv, hsh, hdims⟩ := hm
    have g := liftShape_good (σ := σOf c) hr.rng hcs (fun e he => (hsh e he).1) hk
    have hext : ∀ k ∈ cs, 0 ≤ k.eval (ρOfL σ.env) (σOf c) := by
      intro k hk'
      have h1 : k.eval (ρOfL σ.env) (σOf c) ∈ cs.map (·.eval (ρOfL σ.env) (σOf c)) :=
        List.mem_map.2 ⟨k, hk', rfl⟩
      have h2 : cs.map (·.eval (ρOfL σ.env) (σOf c)) = v.dims.map (·.1) := by
        rw [hdims, denseDims_fst]; exact g.2
      rw [h2] at h1
      obtain ⟨d, hd', hd''⟩ := List.mem_map.1 h1
      rw [← hd'']; exact (hd d hd').1
    refine ⟨?_, ?_, Or.inl ⟨rfl, hcv⟩⟩
    · simp only [getStrides]
      rw [CIndex_tensorStridesC_eval]
      have : cs.map (·.eval (ρOfL σ.env) (σOf c)) = sh.map (fun e => Range.eval e (ρOfL σ.env)) := g.2
      rw [this, CIndex_tensorStrides_eq_denseDims, ← hdims]
    · intro s hs
      exact (good_tensorStridesC cs (fun k hk' => ⟨g.1 k hk', hext k hk'⟩) s hs).1
  · -- window
    rename_i n hty
    rw [hty] at ht
    simp only [pure, Except.pure, Except.ok.injEq] at ht; subst ht
    obtain ⟨hcv, hlen, hkn⟩ := hm
    refine ⟨?_, ?_, Or.inr ⟨rfl, hcv⟩⟩
    · simp only [getStrides]
      apply List.ext_getElem
      · simp [hlen]
      · intro i h1 h2
        simp only [List.getElem_map, List.getElem_range]
        have hi : i < v.dims.length := by simpa using h2
        cases hl : lookupKnown i (knownOf x Γ.known) with
        | some k =>
            have := hkn i k hl
            rw [List.getElem?_eq_getElem (by simpa using hi)] at this
            simp only [Option.some.injEq] at this
            simpa [CIR.eval] using this.symm
        | none =>
            simp only [CIR.eval, σOf, σOfL, hc, hcv]
            simp [List.getD, hi]
    · intro s hs
      simp only [getStrides, List.mem_map, List.mem_range] at hs
      obtain ⟨i, _, rfl⟩ := hs
      split
      · exact good_const _ _ _
      · exact good_stride _ _ _ _
  · -- scalar
    rename_i hty
    rw [hty] at ht; cases ht
  · rename_i h1 h2 h3
    exact absurd hm (by simp)

end Exo.CompileS
