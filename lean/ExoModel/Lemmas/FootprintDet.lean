/-
  Lemmas about dynamic footprints, part 3: DETERMINACY ON THE FOOTPRINT — two states with the same
  scope and heap shape that agree on a set `P` of cells and a set `Pk` of configuration fields run a
  fragment in lock step (same events, both fail or both succeed in states that agree again) as long
  as every read of the run lies in `P` / `Pk`.
-/
import ExoModel.Lemmas.Footprint

set_option linter.unusedSectionVars false
set_option linter.unusedVariables false
namespace Exo.Fp
open Exo

variable {V : Type}

structure Agree (P : Cell → Prop) (Pk : Key → Prop) (s s' : State V) : Prop where
  env : s'.env = s.env
  views : s'.views = s.views
  shape : s'.heap.map List.length = s.heap.map List.length
  cells : ∀ c, P c → heapGet s'.heap c = heapGet s.heap c
  cfg : ∀ k, Pk k → lookupCfg k s'.cfg = lookupCfg k s.cfg

def Ev.okRead (P : Cell → Prop) (Pk : Key → Prop) : Ev V → Prop
  | .rd c => P c
  | .crd k => Pk k
  | _ => True

/-- every read of the event list lies in `P` / `Pk` -/
def ReadsIn (P : Cell → Prop) (Pk : Key → Prop) (t : List (Ev V)) : Prop := ∀ e ∈ t, e.okRead P Pk

def LockA (P : Cell → Prop) (Pk : Key → Prop) :
    Except Err (State V) → Except Err (State V) → Prop
  | .ok t, .ok t' => Agree P Pk t t'
  | .error _, .error _ => True
  | _, _ => False

variable {P : Cell → Prop} {Pk : Key → Prop}

theorem LockA.err {e e' : Err} : LockA (V := V) P Pk (.error e) (.error e') := by
  unfold LockA; trivial

theorem LockA.ok {t t' : State V} (h : Agree P Pk t t') : LockA P Pk (.ok t) (.ok t') := by
  unfold LockA; exact h

theorem readsIn_append {t₁ t₂ : List (Ev V)} :
    ReadsIn P Pk (t₁ ++ t₂) ↔ ReadsIn P Pk t₁ ∧ ReadsIn P Pk t₂ := by
  unfold ReadsIn; exact List.forall_mem_append

theorem readsIn_crds {ks : List Key} : ReadsIn (V := V) P Pk (crds ks) ↔ ∀ k ∈ ks, Pk k := by
  unfold ReadsIn crds
  constructor
  · intro h k hk
    exact h (Ev.crd k) (List.mem_map.2 ⟨k, hk, rfl⟩)
  · intro h e he
    obtain ⟨k, hk, rfl⟩ := List.mem_map.1 he
    exact h k hk

theorem readsIn_nil : ReadsIn (V := V) P Pk [] := fun _ h => by cases h

/-! ### evaluators under agreement -/

theorem lookupCfg_setCfg {α : Type} (k k' : Key) (v : α) :
    ∀ c : List (Key × α), lookupCfg k' (setCfg k v c) = if k' = k then some v else lookupCfg k' c
  | [] => by
    simp only [setCfg, lookupCfg]
  | (k0, v0) :: r => by
    simp only [setCfg]
    by_cases h0 : k = k0
    · subst h0
      simp only [if_true, lookupCfg]
      by_cases h1 : k' = k <;> simp [h1]
    · simp only [h0, if_false, lookupCfg]
      by_cases h1 : k' = k0
      · subst h1
        have : ¬ k' = k := fun h => h0 h.symm
        simp [this]
      · simp only [h1, if_false]
        exact lookupCfg_setCfg k k' v r

theorem evalC_agree {s s' : State V} (he : s'.env = s.env) (hv : s'.views = s.views) :
    ∀ e : Expr, (∀ k ∈ cfgC e, lookupCfg k s'.cfg = lookupCfg k s.cfg) → evalC s' e = evalC s e
  | .read x [], _ => by simp [evalC, he]
  | .read x (_ :: _), _ => by simp [evalC]
  | .lit (.int n), _ => by simp [evalC]
  | .lit (.bool n), _ => by simp [evalC]
  | .lit (.data _ _), _ => by simp [evalC]
  | .usub e, h => by
    simp only [evalC]
    rw [evalC_agree he hv e (fun k hk => h k (by simpa [cfgC] using hk))]
  | .binop op a b, h => by
    simp only [evalC]
    rw [evalC_agree he hv a (fun k hk => h k (by simp [cfgC, hk])),
        evalC_agree he hv b (fun k hk => h k (by simp [cfgC, hk]))]
  | .stride x d, _ => by simp [evalC, hv]
  | .readcfg c f, h => by
    simp only [evalC]
    rw [h (c, f) (by simp [cfgC])]
  | .extern _ _, _ => by simp [evalC]
  | .win _ _, _ => by simp [evalC]

theorem evalCs_agree {s s' : State V} (he : s'.env = s.env) (hv : s'.views = s.views) :
    ∀ es : List Expr, (∀ k ∈ cfgCs es, lookupCfg k s'.cfg = lookupCfg k s.cfg) →
      evalCs s' es = evalCs s es
  | [], _ => rfl
  | e :: r, h => by
    simp only [evalCs]
    rw [evalC_agree he hv e (fun k hk => h k (by simp [cfgCs, hk])),
        evalCs_agree he hv r (fun k hk => h k (by simp [cfgCs, hk]))]

theorem cellOf_shape {h h' : List (List (Option V))}
    (hs : h'.map List.length = h.map List.length) (v : View) (is : List Int) :
    cellOf h' v is = cellOf h v is := by
  have hb : (h'[v.buf]?).map List.length = (h[v.buf]?).map List.length := by
    have := congrArg (fun l => l[v.buf]?) hs
    simpa [List.getElem?_map] using this
  unfold cellOf
  cases viewOffset v.dims is v.off with
  | error e => rfl
  | ok o =>
    simp only [bind, Except.bind]
    cases h1 : h'[v.buf]? <;> cases h2 : h[v.buf]? <;> simp [h1, h2] at hb ⊢
    simp [hb]

theorem valid_of_shape {h h' : List (List (Option V))}
    (hs : h'.map List.length = h.map List.length) {c : Cell} (hv : Valid h c) : Valid h' c := by
  obtain ⟨b, hb, hlt⟩ := hv
  have h1 : (h'[c.1]?).map List.length = (h[c.1]?).map List.length := by
    have := congrArg (fun l => l[c.1]?) hs
    simpa [List.getElem?_map] using this
  rw [hb] at h1
  cases h2 : h'[c.1]? with
  | none => rw [h2] at h1; cases h1
  | some b2 =>
    rw [h2] at h1
    simp only [Option.map_some, Option.some.injEq] at h1
    exact ⟨b2, h2, by omega⟩

theorem Agree.evalC (hA : Agree P Pk s s') (e : Expr) (h : ∀ k ∈ cfgC e, Pk k) :
    evalC s' e = evalC s e :=
  evalC_agree hA.env hA.views e (fun k hk => hA.cfg k (h k hk))

theorem Agree.evalCs (hA : Agree P Pk s s') (es : List Expr) (h : ∀ k ∈ cfgCs es, Pk k) :
    evalCs s' es = evalCs s es :=
  evalCs_agree hA.env hA.views es (fun k hk => hA.cfg k (h k hk))

theorem Agree.target (hA : Agree P Pk s s') (x : Sym) (idx : List Expr)
    (h : ∀ k ∈ cfgCs idx, Pk k) : target s' x idx = target s x idx := by
  unfold Fp.target
  rw [hA.views, hA.evalCs idx h]
  cases lookupSym x s.views with
  | none => rfl
  | some v =>
    simp only []
    refine bind_congr (fun is => ?_)
    exact cellOf_shape hA.shape v is

section
variable [DataAlg V] (ext : String → List V → V)

mutual
theorem Agree.evalD (hA : Agree P Pk s s') : ∀ e : Expr, ReadsIn P Pk (evD s e) →
    evalD ext s' e = evalD ext s e ∧ evD s' e = evD s e
  | .read x idx, hR => by
    simp only [evD] at hR ⊢
    rw [readsIn_append] at hR
    have et := hA.target x idx (readsIn_crds.1 hR.1)
    rw [evalD_read, evalD_read, et]
    refine ⟨?_, rfl⟩
    cases hc : Fp.target s x idx with
    | error e => rfl
    | ok c =>
      have := hR.2
      rw [hc] at this
      have hp : P c := this (Ev.rd c) (by simp)
      simp only [Except.map]
      rw [hA.cells c hp]
  | .lit (.data n d), _ => ⟨by simp [Exo.evalD], rfl⟩
  | .lit (.int n), _ => ⟨by simp [Exo.evalD], rfl⟩
  | .lit (.bool _), _ => ⟨by simp [Exo.evalD], rfl⟩
  | .usub e, hR => by
    simp only [evD] at hR ⊢
    obtain ⟨e1, e2⟩ := Agree.evalD hA e hR
    simp only [Exo.evalD]
    rw [e1]
    exact ⟨rfl, e2⟩
  | .binop op a b, hR => by
    simp only [evD] at hR ⊢
    rw [readsIn_append] at hR
    obtain ⟨a1, a2⟩ := Agree.evalD hA a hR.1
    obtain ⟨b1, b2⟩ := Agree.evalD hA b hR.2
    simp only [Exo.evalD]
    rw [a1, b1, a2, b2]
    exact ⟨rfl, rfl⟩
  | .extern f args, hR => by
    simp only [evD] at hR ⊢
    obtain ⟨e1, e2⟩ := Agree.evalDs hA args hR
    simp only [Exo.evalD]
    rw [e1]
    exact ⟨rfl, e2⟩
  | .readcfg c f, hR => by
    simp only [evD] at hR ⊢
    have hp : Pk (c, f) := hR (Ev.crd (c, f)) (by simp)
    simp only [Exo.evalD]
    rw [hA.cfg (c, f) hp]
    exact ⟨rfl, trivial⟩
  | .win _ _, _ => ⟨by simp [Exo.evalD], rfl⟩
  | .stride _ _, _ => ⟨by simp [Exo.evalD], rfl⟩
theorem Agree.evalDs (hA : Agree P Pk s s') : ∀ es : List Expr, ReadsIn P Pk (evDs s es) →
    evalDs ext s' es = evalDs ext s es ∧ evDs s' es = evDs s es
  | [], _ => ⟨rfl, rfl⟩
  | e :: r, hR => by
    simp only [evDs] at hR ⊢
    rw [readsIn_append] at hR
    obtain ⟨a1, a2⟩ := Agree.evalD hA e hR.1
    obtain ⟨b1, b2⟩ := Agree.evalDs hA r hR.2
    simp only [Exo.evalDs]
    rw [a1, b1, a2, b2]
    exact ⟨rfl, rfl⟩
end

end

theorem applyAcc_agree {s s' : State V} (he : s'.env = s.env) (hv : s'.views = s.views) :
    ∀ (acc : List WAcc) (ds : List (Int × Int)) (off : Int),
      (∀ k ∈ cfgWs acc, lookupCfg k s'.cfg = lookupCfg k s.cfg) →
      applyAcc s' acc ds off = applyAcc s acc ds off
  | [], [], _, _ => rfl
  | [], _ :: _, _, _ => rfl
  | .point e :: as, [], off, _ => rfl
  | .interval lo hi :: as, [], off, _ => rfl
  | .point e :: as, (ext, st) :: ds, off, h => by
    simp only [applyAcc]
    rw [evalC_agree he hv e (fun k hk => h k (by simp [cfgWs, cfgW, hk]))]
    refine bind_congr (fun i => ?_)
    split
    · exact applyAcc_agree he hv as ds _ (fun k hk => h k (by simp [cfgWs, hk]))
    · rfl
  | .interval lo hi :: as, (ext, st) :: ds, off, h => by
    simp only [applyAcc]
    rw [evalC_agree he hv lo (fun k hk => h k (by simp [cfgWs, cfgW, hk])),
        evalC_agree he hv hi (fun k hk => h k (by simp [cfgWs, cfgW, hk]))]
    refine bind_congr (fun l => bind_congr (fun hh => ?_))
    split
    · rw [applyAcc_agree he hv as ds _ (fun k hk => h k (by simp [cfgWs, hk]))]
    · rfl

theorem evalView_agree {s s' : State V} (he : s'.env = s.env) (hv : s'.views = s.views) :
    ∀ e : Expr, (∀ k ∈ cfgView e, lookupCfg k s'.cfg = lookupCfg k s.cfg) →
      evalView s' e = evalView s e
  | .read x [], _ => by simp [evalView, hv]
  | .read x (i :: r), h => by
    simp only [evalView, hv]
    rw [evalCs_agree he hv (i :: r) (fun k hk => h k (by simpa [cfgView] using hk))]
  | .win x acc, h => by
    simp only [evalView, hv]
    split
    · rw [applyAcc_agree he hv acc _ _ (fun k hk => h k (by simpa [cfgView] using hk))]
    · rfl
  | .lit _, _ => rfl
  | .usub _, _ => rfl
  | .binop _ _ _, _ => rfl
  | .extern _ _, _ => rfl
  | .stride _ _, _ => rfl
  | .readcfg _ _, _ => rfl

theorem bindArgs_agree {s s' : State V} (he : s'.env = s.env) (hv : s'.views = s.views) :
    ∀ (fs : List FnArg) (as : List Expr) (ce : List (Sym × Int)) (cv : List (Sym × View)),
      (∀ k ∈ cfgArgs as, lookupCfg k s'.cfg = lookupCfg k s.cfg) →
      bindArgs s' fs as ce cv = bindArgs s fs as ce cv
  | [], [], _, _, _ => rfl
  | [], _ :: _, _, _, _ => rfl
  | _ :: _, [], _, _, _ => by simp [bindArgs]
  | ⟨x, .ctrl k⟩ :: fs, a :: as, ce, cv, h => by
    simp only [bindArgs]
    rw [evalC_agree he hv a (fun k hk => h k (by simp [cfgArgs, hk]))]
    refine bind_congr (fun v => ?_)
    split
    · rfl
    · exact bindArgs_agree he hv fs as _ _ (fun k hk => h k (by simp [cfgArgs, hk]))
  | ⟨x, .scalar⟩ :: fs, a :: as, ce, cv, h => by
    simp only [bindArgs]
    rw [evalView_agree he hv a (fun k hk => h k (by simp [cfgArgs, hk]))]
    exact bind_congr (fun v => bindArgs_agree he hv fs as _ _ (fun k hk => h k (by simp [cfgArgs, hk])))
  | ⟨x, .tensor _ _⟩ :: fs, a :: as, ce, cv, h => by
    simp only [bindArgs]
    rw [evalView_agree he hv a (fun k hk => h k (by simp [cfgArgs, hk]))]
    exact bind_congr (fun v => bindArgs_agree he hv fs as _ _ (fun k hk => h k (by simp [cfgArgs, hk])))

theorem checkShapes_agree {s s' : State V} (he : s'.env = s.env) (hv : s'.views = s.views) :
    ∀ (fs : List FnArg), (∀ k ∈ cfgShapes fs, lookupCfg k s'.cfg = lookupCfg k s.cfg) →
      checkShapes s' fs = checkShapes s fs
  | [], _ => rfl
  | ⟨x, .tensor shape w⟩ :: fs, h => by
    simp only [checkShapes, hv]
    rw [evalCs_agree he hv shape (fun k hk => h k (by simp [cfgShapes, hk]))]
    refine bind_congr (fun sh => ?_)
    split
    · split
      · exact checkShapes_agree he hv fs (fun k hk => h k (by simp [cfgShapes, hk]))
      · rfl
    · rfl
  | ⟨x, .scalar⟩ :: fs, h => by
    simp only [checkShapes, hv]
    split
    · split
      · exact checkShapes_agree he hv fs (fun k hk => h k (by simpa [cfgShapes] using hk))
      · rfl
    · rfl
  | ⟨x, .ctrl _⟩ :: fs, h => by
    simp only [checkShapes]
    exact checkShapes_agree he hv fs (fun k hk => h k (by simpa [cfgShapes] using hk))

theorem checkPreds_agree {s s' : State V} (he : s'.env = s.env) (hv : s'.views = s.views) :
    ∀ (ps : List Expr), (∀ k ∈ cfgCs ps, lookupCfg k s'.cfg = lookupCfg k s.cfg) →
      checkPreds s' ps = checkPreds s ps
  | [], _ => rfl
  | p :: ps, h => by
    simp only [checkPreds]
    rw [evalC_agree he hv p (fun k hk => h k (by simp [cfgCs, hk]))]
    refine bind_congr (fun v => ?_)
    split
    · rfl
    · exact checkPreds_agree he hv ps (fun k hk => h k (by simp [cfgCs, hk]))

/-! ### agreement is preserved by the state operations -/

theorem Agree.len (hA : Agree P Pk s s') : s'.heap.length = s.heap.length := by
  have := congrArg List.length hA.shape
  simpa using this

theorem shape_heapSet (h : List (List (Option V))) (c : Cell) (v : Option V) :
    (heapSet h c v).map List.length = h.map List.length := by
  apply List.ext_getElem?
  intro i
  rw [List.getElem?_map, List.getElem?_map]
  exact heapSet_len_at h c v i

theorem Agree.write (hA : Agree P Pk s s') {c : Cell} (hv : Valid s.heap c) (v v' : Option V)
    (hvv : P c → v' = v) :
    Agree P Pk { s with heap := heapSet s.heap c v } { s' with heap := heapSet s'.heap c v' } := by
  refine ⟨hA.env, hA.views, ?_, fun c' hp => ?_, hA.cfg⟩
  · simp only [shape_heapSet]; exact hA.shape
  · simp only []
    by_cases hcc : c = c'
    · subst hcc
      rw [heapGet_heapSet_eq _ _ _ hv, heapGet_heapSet_eq _ _ _ (valid_of_shape hA.shape hv)]
      exact hvv hp
    · rw [heapGet_heapSet_ne _ _ _ _ hcc, heapGet_heapSet_ne _ _ _ _ hcc]
      exact hA.cells c' hp

theorem Agree.bind (hA : Agree P Pk s s') (i : Sym) (v : Int) :
    Agree P Pk (s.bind i v) (s'.bind i v) :=
  ⟨by simp only [State.bind]; rw [hA.env], hA.views, hA.shape, hA.cells, hA.cfg⟩

theorem Agree.leave (hA : Agree P Pk s s') {t t' : State V} (hT : Agree P Pk t t') :
    Agree P Pk (State.leave s t) (State.leave s' t') := by
  refine ⟨hA.env, hA.views, ?_, fun c hp => ?_, hT.cfg⟩
  · simp only [State.leave, List.map_take, hA.len, hT.shape]
  · simp only [State.leave, hA.len]
    by_cases hlt : c.1 < s.heap.length
    · rw [heapGet_take _ _ _ hlt, heapGet_take _ _ _ hlt]
      exact hT.cells c hp
    · rw [heapGet_out, heapGet_out]
      · simp only [List.length_take]; omega
      · simp only [List.length_take]; omega

theorem lockA_map_leave (hA : Agree P Pk s s') {r r' : Except Err (State V)}
    (h : LockA P Pk r r') : LockA P Pk (r.map (State.leave s)) (r'.map (State.leave s')) := by
  cases r with
  | error e =>
    cases r' with
    | error e' => exact LockA.err
    | ok t' => unfold LockA at h; exact h.elim
  | ok t =>
    cases r' with
    | error e' => unfold LockA at h; exact h.elim
    | ok t' =>
      unfold LockA at h
      exact LockA.ok (hA.leave h)

theorem Agree.alloc (hA : Agree P Pk s s') (x : Sym) (b : List (Option V)) (ds : List (Int × Int)) :
    Agree P Pk
      { s with heap := s.heap ++ [b],
               views := (x, { buf := s.heap.length, off := 0, dims := ds }) :: s.views }
      { s' with heap := s'.heap ++ [b],
                views := (x, { buf := s'.heap.length, off := 0, dims := ds }) :: s'.views } := by
  refine ⟨hA.env, ?_, ?_, fun c hp => ?_, hA.cfg⟩
  · simp only [hA.len, hA.views]
  · simp only [List.map_append, hA.shape]
  · simp only []
    by_cases hlt : c.1 < s.heap.length
    · rw [heapGet_append_left _ _ _ hlt, heapGet_append_left _ _ _ (by rw [hA.len]; exact hlt)]
      exact hA.cells c hp
    · have h1 : s'.heap.length ≤ c.1 := by rw [hA.len]; omega
      have h2 : s.heap.length ≤ c.1 := by omega
      unfold heapGet
      rw [List.getElem?_append_right h1, List.getElem?_append_right h2, hA.len]

theorem Agree.setCfg (hA : Agree P Pk s s') (k : Key) (v : CfgVal V) :
    Agree P Pk { s with cfg := setCfg k v s.cfg } { s' with cfg := setCfg k v s'.cfg } := by
  refine ⟨hA.env, hA.views, hA.shape, hA.cells, fun k' hp => ?_⟩
  simp only [lookupCfg_setCfg]
  by_cases h : k' = k
  · simp [h]
  · simp only [h, if_false]; exact hA.cfg k' hp

theorem Agree.bindView (hA : Agree P Pk s s') (x : Sym) (v : View) :
    Agree P Pk (s.bindView x v) (s'.bindView x v) :=
  ⟨hA.env, by simp only [State.bindView]; rw [hA.views], hA.shape, hA.cells, hA.cfg⟩

/-! ### loops -/

theorem det_iterate (g : Int → State V → List (Ev V)) (f : Int → State V → Except Err (State V))
    (hstep : ∀ v s s', Agree P Pk s s' → ReadsIn P Pk (g v s) →
      g v s' = g v s ∧ LockA P Pk (f v s) (f v s')) :
    ∀ (n : Nat) (lo : Int) (s s' : State V), Agree P Pk s s' → ReadsIn P Pk (evIter g f n lo s) →
      evIter g f n lo s' = evIter g f n lo s ∧ LockA P Pk (iterate f n lo s) (iterate f n lo s')
  | 0, lo, s, s', hA, _ => ⟨rfl, by simp only [iterate, pure, Except.pure]; exact LockA.ok hA⟩
  | n + 1, lo, s, s', hA, hR => by
    simp only [evIter] at hR ⊢
    rw [readsIn_append] at hR
    obtain ⟨h1, h2⟩ := hR
    obtain ⟨e1, l1⟩ := hstep lo s s' hA h1
    rw [e1]
    simp only [iterate, bind, Except.bind]
    cases hs : f lo s with
    | error e =>
      cases hs' : f lo s' with
      | error e' => exact ⟨rfl, LockA.err⟩
      | ok t' => rw [hs, hs'] at l1; unfold LockA at l1; exact l1.elim
    | ok t =>
      cases hs' : f lo s' with
      | error e' => rw [hs, hs'] at l1; unfold LockA at l1; exact l1.elim
      | ok t' =>
        rw [hs, hs'] at l1
        unfold LockA at l1
        rw [hs] at h2
        simp only [onOk_ok] at h2 ⊢
        obtain ⟨e2, l2⟩ := det_iterate g f hstep n (lo + 1) t t' l1 h2
        rw [e2]
        exact ⟨rfl, l2⟩

end Exo.Fp
