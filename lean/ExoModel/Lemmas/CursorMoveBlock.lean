/-
  Block cursors under `Block._move` when the move happens inside ONE statement list
  (`reorder_stmts`, the moves of `reorder_loops`/`lift_scope` inside a body): the forwarding is an
  explicit permutation `sigma` of the indices of that list.
-/
import ExoModel.CursorSpec
import ExoModel.Lemmas.CursorMoveTree

namespace Exo.Cursor

/-- where index `i` of the list goes when `[lo, hi)` is moved to insertion index `gi`
    (`gi` in the coordinates of the list BEFORE the move) — read off `_forward_move` -/
def sigma (lo hi gi i : Nat) : Nat :=
  if lo ≤ i ∧ i < hi then (if lo < gi then gi - (hi - lo) else gi) + (i - lo)
  else if gi ≤ i then (if hi ≤ i then i - (hi - lo) else i) + (hi - lo)
  else (if hi ≤ i then i - (hi - lo) else i)

theorem newGapPath_same (n : Nat) (ba : Attr) (lo gi : Nat) : ∀ (bp : Path),
    newGapPath n (bp ++ [(ba, lo)]) (bp ++ [(ba, gi)]) =
      bp ++ [(ba, if lo < gi then gi - n else gi)]
  | [] => by
    by_cases h : lo = gi
    · subst h; simp [newGapPath]
    · by_cases h2 : lo < gi <;> simp [newGapPath, h, h2]
  | x :: bp => by
    simp only [List.cons_append, newGapPath_cons_same, newGapPath_same n ba lo gi bp]

theorem moveBug_same (ba : Attr) (lo gi : Nat) : ∀ (bp : Path),
    moveBug (bp ++ [(ba, lo)]) (bp ++ [(ba, gi)]) = false
  | [] => by simp [moveBug]
  | x :: bp => by simp only [List.cons_append, moveBug_cons_same, moveBug_same ba lo gi bp]

/-- a path through the list: only its index in the list changes, by `sigma` -/
theorem fwdMove_same (bp : Path) (ba : Attr) (lo hi gi i : Nat) (rest : Path) :
    fwdMoveNode bp ba lo hi (bp ++ [(ba, gi)]) (bp ++ (ba, i) :: rest) =
      bp ++ (ba, sigma lo hi gi i) :: rest := by
  rw [fwdMoveNode_view]
  simp only [viewThrough_append]
  by_cases hmv : ¬ hi ≤ i ∧ lo ≤ i
  · have h2 : lo ≤ i ∧ i < hi := ⟨hmv.2, by omega⟩
    simp only [hmv, not_false_eq_true, and_self, if_true, Nat.le_refl, newGapPath_same,
      List.dropLast_concat, getLastD_snoc, sigma, h2, List.append_assoc, List.singleton_append]
  · have h2 : ¬ (lo ≤ i ∧ i < hi) := by omega
    simp only [hmv, if_false, sigma, h2]
    by_cases h3 : hi ≤ i <;> by_cases h4 : gi ≤ i <;> simp [h3, h4, setIdx_through]

/-- a path that does not go through the list is not changed -/
theorem fwdMove_same_none (bp : Path) (ba : Attr) (lo hi gi : Nat) (cur : Path)
    (h : viewThrough bp ba cur = none) :
    fwdMoveNode bp ba lo hi (bp ++ [(ba, gi)]) cur = cur := by
  rw [fwdMoveNode_view]
  simp [h]

theorem covers_through (anchor : Path) (a : Attr) (lo hi j : Nat) (rest : Path) :
    Covers anchor a lo hi (anchor ++ (a, j) :: rest) ↔ lo ≤ j ∧ j < hi := by
  constructor
  · rintro ⟨j', rest', h1, h2, h3⟩
    have := List.append_cancel_left h3
    simp only [List.cons.injEq, Prod.mk.injEq] at this
    obtain ⟨⟨_, rfl⟩, _⟩ := this
    exact ⟨h1, h2⟩
  · rintro ⟨h1, h2⟩
    exact ⟨j, rest, h1, h2, rfl⟩

theorem not_covers_of_view_none {anchor : Path} {a : Attr} {lo hi : Nat} {q : Path}
    (h : viewThrough anchor a q = none) : ¬ Covers anchor a lo hi q := by
  rintro ⟨j, rest, _, _, h3⟩
  rw [viewThrough_eq_some.mpr h3] at h
  cases h

/-- the block of the list is forwarded to the block between the images of its end points -/
theorem forwardMove_block_same (bp : Path) (ba : Attr) (lo hi gi rlo rhi : Nat)
    (hlt : lo < hi) (hr : rlo < rhi)
    (hns : ((rhi ≤ lo ∨ hi ≤ rlo) ∧ (gi ≤ rlo ∨ rhi ≤ gi)) ∨ (lo ≤ rlo ∧ rhi ≤ hi))
    (hgi : gi ≤ lo ∨ hi ≤ gi) :
    forwardMove bp ba lo hi (bp ++ [(ba, gi)]) (.block bp ba rlo rhi) =
      .ok (.block bp ba (sigma lo hi gi rlo) (sigma lo hi gi (rhi - 1) + 1)) := by
  have hip : intersectsPartially rlo rhi lo hi = false := by
    simp only [intersectsPartially, Bool.or_eq_false_iff, Bool.and_eq_false_iff,
      decide_eq_false_iff_not]
    omega
  have hs := fwdMove_same bp ba lo hi gi rlo []
  have he := fwdMove_same bp ba lo hi gi (rhi - 1) []
  have hmono : sigma lo hi gi rlo ≤ sigma lo hi gi (rhi - 1) := by
    simp only [sigma]
    repeat' split
    all_goals omega
  simp only [forwardMove, hip, Bool.false_eq_true, and_false, if_false, hs, he,
    List.dropLast_concat, ne_eq, not_true_eq_false, lastAttr_snoc, lastIdx_snoc, hmono,
    not_true_eq_false]

theorem sigma_covers_d1 (lo hi gi rlo rhi i : Nat) (hlt : lo < hi) (hr : rlo < rhi)
    (hns : (rhi ≤ lo ∨ hi ≤ rlo) ∧ (gi ≤ rlo ∨ rhi ≤ gi)) (hgi : gi ≤ lo) :
    (sigma lo hi gi rlo ≤ sigma lo hi gi i ∧ sigma lo hi gi i < sigma lo hi gi (rhi - 1) + 1) ↔
      (rlo ≤ i ∧ i < rhi) := by
  simp only [sigma]
  repeat' split
  all_goals omega

theorem sigma_covers_d2 (lo hi gi rlo rhi i : Nat) (hlt : lo < hi) (hr : rlo < rhi)
    (hns : (rhi ≤ lo ∨ hi ≤ rlo) ∧ (gi ≤ rlo ∨ rhi ≤ gi)) (hgi : hi ≤ gi) :
    (sigma lo hi gi rlo ≤ sigma lo hi gi i ∧ sigma lo hi gi i < sigma lo hi gi (rhi - 1) + 1) ↔
      (rlo ≤ i ∧ i < rhi) := by
  simp only [sigma]
  repeat' split
  all_goals omega

theorem sigma_covers_i1 (lo hi gi rlo rhi i : Nat) (hlt : lo < hi) (hr : rlo < rhi)
    (hns : lo ≤ rlo ∧ rhi ≤ hi) (hgi : gi ≤ lo) :
    (sigma lo hi gi rlo ≤ sigma lo hi gi i ∧ sigma lo hi gi i < sigma lo hi gi (rhi - 1) + 1) ↔
      (rlo ≤ i ∧ i < rhi) := by
  simp only [sigma]
  repeat' split
  all_goals omega

theorem sigma_covers_i2 (lo hi gi rlo rhi i : Nat) (hlt : lo < hi) (hr : rlo < rhi)
    (hns : lo ≤ rlo ∧ rhi ≤ hi) (hgi : hi ≤ gi) :
    (sigma lo hi gi rlo ≤ sigma lo hi gi i ∧ sigma lo hi gi i < sigma lo hi gi (rhi - 1) + 1) ↔
      (rlo ≤ i ∧ i < rhi) := by
  simp only [sigma]
  repeat' split
  all_goals omega

/-- `sigma` is a bijection that keeps the order inside a non-straddling block -/
theorem sigma_covers (lo hi gi rlo rhi i : Nat) (hlt : lo < hi) (hr : rlo < rhi)
    (hns : ((rhi ≤ lo ∨ hi ≤ rlo) ∧ (gi ≤ rlo ∨ rhi ≤ gi)) ∨ (lo ≤ rlo ∧ rhi ≤ hi))
    (hgi : gi ≤ lo ∨ hi ≤ gi) :
    (sigma lo hi gi rlo ≤ sigma lo hi gi i ∧ sigma lo hi gi i < sigma lo hi gi (rhi - 1) + 1) ↔
      (rlo ≤ i ∧ i < rhi) := by
  rcases hns with h | h <;> rcases hgi with g | g
  · exact sigma_covers_d1 lo hi gi rlo rhi i hlt hr h g
  · exact sigma_covers_d2 lo hi gi rlo rhi i hlt hr h g
  · exact sigma_covers_i1 lo hi gi rlo rhi i hlt hr h g
  · exact sigma_covers_i2 lo hi gi rlo rhi i hlt hr h g

end Exo.Cursor
