/-
  Static well-formedness is sound for scoping, configuration reads included: a well-formed program
  never fails with `Err.scope` when the configuration state of the input holds every field the
  program (callees, their shapes and their predicates included) reads.  Extends
  `ExoModel.Lemmas.WfSound` (which covers the programs that read no configuration field at all:
  the special case `F = []`, see `simpleL_readsInL`).

  The additional invariant is `CfgHas F σ`: the domain of `σ.cfg` only grows during execution
  (`setCfg` keeps every key, `State.leave a b` keeps `b.cfg`, `writeCell` keeps `cfg`, a call runs
  its body on a state with `cfg := σ.cfg`).
-/
import ExoModel.Lemmas.WfSound

set_option linter.unusedSectionVars false
namespace Exo.Wf
open Exo
variable {V : Type}

/-- a set of configuration fields `(config name, field name)` -/
abbrev Fields := List (String × String)

/-- the configuration state holds a value for every field of `F` -/
def CfgHas (F : Fields) (σ : State V) : Prop :=
  ∀ k, k ∈ F → (lookupCfg k σ.cfg).isSome = true

theorem lookupCfg_setCfg_isSome {α : Type} (k k' : String × String) (v : α) :
    ∀ (l : List ((String × String) × α)),
      (lookupCfg k l).isSome = true → (lookupCfg k (setCfg k' v l)).isSome = true
  | [], h => by simp [lookupCfg] at h
  | (k'', v') :: r, h => by
    simp only [setCfg]
    by_cases h1 : k' = k''
    · subst h1
      simp only [if_true, lookupCfg] at h ⊢
      by_cases h2 : k = k'
      · simp [h2]
      · simpa [h2] using h
    · simp only [h1, if_false, lookupCfg] at h ⊢
      by_cases h2 : k = k''
      · simp [h2]
      · simp only [h2, if_false] at h ⊢
        exact lookupCfg_setCfg_isSome k k' v r h

theorem CfgHas.nil (σ : State V) : CfgHas [] σ := by
  intro k hk; cases hk

theorem CfgHas.of_cfg_eq {F : Fields} {σ σ' : State V} (hF : CfgHas F σ) (h : σ'.cfg = σ.cfg) :
    CfgHas F σ' := by
  intro k hk; rw [h]; exact hF k hk

theorem CfgHas.setCfg {F : Fields} {σ : State V} (hF : CfgHas F σ) (k : String × String)
    (v : CfgVal V) : CfgHas F { σ with cfg := setCfg k v σ.cfg } := by
  intro k' hk'
  exact lookupCfg_setCfg_isSome k' k v σ.cfg (hF k' hk')

theorem CfgHas.leave {F : Fields} {s s2 : State V} (h2 : CfgHas F s2) :
    CfgHas F (State.leave s s2) :=
  fun k hk => h2 k hk

theorem CfgHas.bind {F : Fields} {s : State V} (h : CfgHas F s) (i : Sym) (v : Int) :
    CfgHas F (s.bind i v) :=
  fun k hk => h k hk

theorem CfgHas.mono {F F' : Fields} {σ : State V} (h : CfgHas F' σ) (hsub : ∀ k, k ∈ F → k ∈ F') :
    CfgHas F σ :=
  fun k hk => h k (hsub k hk)

/-! Part 1: expressions -/

/-- every configuration field a control expression reads is in `F` -/
def cfgInC (F : Fields) : Expr → Bool
  | .readcfg c f => decide ((c, f) ∈ F)
  | .usub e => cfgInC F e
  | .binop _ a b => cfgInC F a && cfgInC F b
  | _ => true

theorem evalC_noScope_cfg (F : Fields) (Γ : Env) (σ : State V) (hA : Agree Γ σ) (hF : CfgHas F σ) :
    ∀ (e : Expr), wfC Γ e = true → cfgInC F e = true → NoScope (evalC σ e)
  | .read x [], hw, _ => by
    simp only [wfC, isCtrl, Bool.and_eq_true, beq_iff_eq, List.isEmpty_nil] at hw
    obtain ⟨v, hv⟩ := (hA x).1 hw.1
    simp only [evalC, hv]
    exact NoScope.ok v
  | .read x (_ :: _), hw, _ => by simp [wfC] at hw
  | .lit (.int n), _, _ => NoScope.ok _
  | .lit (.bool b), _, _ => NoScope.ok _
  | .lit (.data _ _), hw, _ => by simp [wfC] at hw
  | .usub e, hw, hc => by
    simp only [evalC]
    exact NoScope.bind (evalC_noScope_cfg F Γ σ hA hF e (by simpa [wfC] using hw)
      (by simpa [cfgInC] using hc)) (fun _ _ => NoScope.ok _)
  | .binop op a b, hw, hc => by
    simp only [wfC, Bool.and_eq_true] at hw
    simp only [cfgInC, Bool.and_eq_true] at hc
    simp only [evalC]
    exact NoScope.bind (evalC_noScope_cfg F Γ σ hA hF a hw.1 hc.1) (fun _ _ =>
      NoScope.bind (evalC_noScope_cfg F Γ σ hA hF b hw.2 hc.2) (fun _ _ => ctrlOp_noScope _ _ _))
  | .stride x d, hw, _ => by
    simp only [wfC, rankOf] at hw
    cases hl : lookup x Γ with
    | none => simp [hl] at hw
    | some k =>
      cases k with
      | none => simp [hl] at hw
      | some n =>
        obtain ⟨w, hwv, hlen, _⟩ := (hA x).2 n hl
        simp only [hl, Option.join] at hw
        simp only [evalC, hwv]
        have : d < w.dims.length := by rw [hlen]; simpa using hw
        cases hd : w.dims[d]? with
        | none => simp at hd; omega
        | some p => exact NoScope.ok _
  | .readcfg c f, _, hc => by
    simp only [cfgInC, decide_eq_true_eq] at hc
    have hk := hF (c, f) hc
    simp only [evalC]
    cases hl : lookupCfg (c, f) σ.cfg with
    | none => rw [hl] at hk; cases hk
    | some cv =>
      cases cv with
      | ctrl n => exact NoScope.ok _
      | data v => intro h; cases h
  | .extern _ _, hw, _ => by simp [wfC] at hw
  | .win _ _, hw, _ => by simp [wfC] at hw

def cfgInCs (F : Fields) : List Expr → Bool
  | [] => true
  | e :: r => cfgInC F e && cfgInCs F r

theorem evalCs_noScope_cfg (F : Fields) (Γ : Env) (σ : State V) (hA : Agree Γ σ)
    (hF : CfgHas F σ) : ∀ (es : List Expr),
    wfCs Γ es = true → cfgInCs F es = true → NoScope (evalCs σ es)
  | [], _, _ => NoScope.ok _
  | e :: r, hw, hc => by
    simp only [wfCs, Bool.and_eq_true] at hw
    simp only [cfgInCs, Bool.and_eq_true] at hc
    simp only [evalCs]
    exact NoScope.bind (evalC_noScope_cfg F Γ σ hA hF e hw.1 hc.1) (fun _ _ =>
      NoScope.bind (evalCs_noScope_cfg F Γ σ hA hF r hw.2 hc.2) (fun _ _ => NoScope.ok _))

mutual
/-- every configuration field a data expression reads is in `F` -/
def cfgInD (F : Fields) : Expr → Bool
  | .read _ idx => cfgInCs F idx
  | .usub e => cfgInD F e
  | .binop _ a b => cfgInD F a && cfgInD F b
  | .extern _ args => cfgInDs F args
  | .readcfg c f => decide ((c, f) ∈ F)
  | _ => true
def cfgInDs (F : Fields) : List Expr → Bool
  | [] => true
  | e :: r => cfgInD F e && cfgInDs F r
end

mutual
theorem evalD_noScope_cfg [DataAlg V] (ext : String → List V → V) (F : Fields) (Γ : Env)
    (σ : State V) (hA : Agree Γ σ) (hF : CfgHas F σ) : ∀ (e : Expr),
    wfD Γ e = true → cfgInD F e = true → NoScope (evalD ext σ e)
  | .read x idx, hw, hc => by
    simp only [wfD, rankOf] at hw
    cases hl : lookup x Γ with
    | none => simp [hl] at hw
    | some k =>
      cases k with
      | none => simp [hl] at hw
      | some n =>
        obtain ⟨w, hwv, _, hbuf⟩ := (hA x).2 n hl
        simp only [hl, Option.join, Option.bind_some, id, Bool.and_eq_true] at hw
        simp only [evalD, hwv]
        exact NoScope.bind (evalCs_noScope_cfg F Γ σ hA hF idx hw.2 (by simpa [cfgInD] using hc))
          (fun _ _ => NoScope.bind (cellOf_noScope σ.heap w _ hbuf) (fun _ _ => NoScope.ok _))
  | .lit (.data _ _), _, _ => NoScope.ok _
  | .lit (.int _), _, _ => NoScope.ok _
  | .lit (.bool _), hw, _ => by simp [wfD] at hw
  | .usub e, hw, hc => by
    simp only [evalD]
    exact NoScope.bind (evalD_noScope_cfg ext F Γ σ hA hF e (by simpa [wfD] using hw)
      (by simpa [cfgInD] using hc)) (fun _ _ => NoScope.ok _)
  | .binop op a b, hw, hc => by
    simp only [wfD, Bool.and_eq_true] at hw
    simp only [cfgInD, Bool.and_eq_true] at hc
    simp only [evalD]
    exact NoScope.bind (evalD_noScope_cfg ext F Γ σ hA hF a hw.1.2 hc.1) (fun _ _ =>
      NoScope.bind (evalD_noScope_cfg ext F Γ σ hA hF b hw.2 hc.2) (fun _ _ => dataOp_noScope _ _ _))
  | .extern f args, hw, hc => by
    simp only [evalD]
    exact NoScope.bind (evalDs_noScope_cfg ext F Γ σ hA hF args (by simpa [wfD] using hw)
      (by simpa [cfgInD] using hc)) (fun _ _ => NoScope.ok _)
  | .readcfg c f, _, hc => by
    simp only [cfgInD, decide_eq_true_eq] at hc
    have hk := hF (c, f) hc
    simp only [evalD]
    cases hl : lookupCfg (c, f) σ.cfg with
    | none => rw [hl] at hk; cases hk
    | some cv =>
      cases cv with
      | ctrl n => intro h; cases h
      | data v => exact NoScope.ok _
  | .win _ _, hw, _ => by simp [wfD] at hw
  | .stride _ _, hw, _ => by simp [wfD] at hw
theorem evalDs_noScope_cfg [DataAlg V] (ext : String → List V → V) (F : Fields) (Γ : Env)
    (σ : State V) (hA : Agree Γ σ) (hF : CfgHas F σ) : ∀ (es : List Expr),
    wfDs Γ es = true → cfgInDs F es = true → NoScope (evalDs ext σ es)
  | [], _, _ => NoScope.ok _
  | e :: r, hw, hc => by
    simp only [wfDs, Bool.and_eq_true] at hw
    simp only [cfgInDs, Bool.and_eq_true] at hc
    simp only [evalDs]
    exact NoScope.bind (evalD_noScope_cfg ext F Γ σ hA hF e hw.1 hc.1) (fun _ _ =>
      NoScope.bind (evalDs_noScope_cfg ext F Γ σ hA hF r hw.2 hc.2) (fun _ _ => NoScope.ok _))
end

/-! Part 2: statements -/

def cfgInAcc (F : Fields) : List WAcc → Bool
  | [] => true
  | .point e :: r => cfgInC F e && cfgInAcc F r
  | .interval lo hi :: r => cfgInC F lo && cfgInC F hi && cfgInAcc F r

def cfgInV (F : Fields) : Expr → Bool
  | .read _ idx => cfgInCs F idx
  | .win _ acc => cfgInAcc F acc
  | _ => true

def cfgInArgs (F : Fields) : List FnArg → List Expr → Bool
  | ⟨_, .ctrl _⟩ :: fs, a :: as => cfgInC F a && cfgInArgs F fs as
  | _ :: fs, a :: as => cfgInV F a && cfgInArgs F fs as
  | _, _ => true

def cfgInShapes (F : Fields) : List FnArg → Bool
  | [] => true
  | ⟨_, .tensor sh _⟩ :: r => cfgInCs F sh && cfgInShapes F r
  | _ :: r => cfgInShapes F r

mutual
/-- every configuration field read anywhere in the statement, callees (their shapes and
    predicates) included, is in `F` -/
def readsInS (F : Fields) : Stmt → Bool
  | .assign _ idx e => cfgInCs F idx && cfgInD F e
  | .reduce _ idx e => cfgInCs F idx && cfgInD F e
  | .writecfg _ _ e isData => if isData then cfgInD F e else cfgInC F e
  | .pass => true
  | .ite c t e => cfgInC F c && readsInL F t && readsInL F e
  | .loop _ lo hi b _ => cfgInC F lo && cfgInC F hi && readsInL F b
  | .alloc _ sh => cfgInCs F sh
  | .free _ => true
  | .call f args => readsInP F f && cfgInArgs F f.args args
  | .window _ e => cfgInV F e
def readsInL (F : Fields) : List Stmt → Bool
  | [] => true
  | s :: r => readsInS F s && readsInL F r
def readsInP (F : Fields) : Proc → Bool
  | .mk _ fargs preds body => cfgInCs F preds && cfgInShapes F fargs && readsInL F body
end

theorem applyAcc_noScope_cfg (F : Fields) (Γ : Env) (σ : State V) (hA : Agree Γ σ)
    (hF : CfgHas F σ) : ∀ (acc : List WAcc)
    (ds : List (Int × Int)) (off : Int), wfAccs Γ acc = true → cfgInAcc F acc = true →
    NoScope (applyAcc σ acc ds off)
  | [], [], _, _, _ => NoScope.ok _
  | .point e :: as, (ext, st) :: ds, off, hw, hc => by
    simp only [wfAccs, wfAcc, Bool.and_eq_true] at hw
    simp only [cfgInAcc, Bool.and_eq_true] at hc
    simp only [applyAcc]
    refine NoScope.bind (evalC_noScope_cfg F Γ σ hA hF e hw.1 hc.1) (fun i _ => ?_)
    split
    · exact applyAcc_noScope_cfg F Γ σ hA hF as ds _ hw.2 hc.2
    · intro h; cases h
  | .interval lo hi :: as, (ext, st) :: ds, off, hw, hc => by
    simp only [wfAccs, wfAcc, Bool.and_eq_true] at hw
    simp only [cfgInAcc, Bool.and_eq_true] at hc
    simp only [applyAcc]
    refine NoScope.bind (evalC_noScope_cfg F Γ σ hA hF lo hw.1.1 hc.1.1) (fun l _ =>
      NoScope.bind (evalC_noScope_cfg F Γ σ hA hF hi hw.1.2 hc.1.2) (fun h _ => ?_))
    split
    · exact NoScope.bind (applyAcc_noScope_cfg F Γ σ hA hF as ds _ hw.2 hc.2)
        (fun _ _ => NoScope.ok _)
    · intro h'; cases h'
  | [], _ :: _, _, _, _ => by intro h; cases h
  | .point _ :: _, [], _, _, _ => by intro h; simp only [applyAcc] at h; cases h
  | .interval _ _ :: _, [], _, _, _ => by intro h; simp only [applyAcc] at h; cases h

theorem evalView_noScope_cfg (F : Fields) (Γ : Env) (σ : State V) (hA : Agree Γ σ)
    (hF : CfgHas F σ) (e : Expr) (n : Nat)
    (hr : viewRank Γ e = some n) (hc : cfgInV F e = true) : NoScope (evalView σ e) := by
  cases e with
  | read x idx =>
    cases idx with
    | nil =>
      simp only [viewRank, rankOf] at hr
      cases hl : lookup x Γ with
      | none => simp [hl] at hr
      | some k =>
        cases k with
        | none => simp [hl] at hr
        | some m =>
          obtain ⟨w, hw, _, _⟩ := (hA x).2 m hl
          simp only [evalView, hw]
          exact NoScope.ok _
    | cons i is =>
      simp only [viewRank, rankOf] at hr
      cases hl : lookup x Γ with
      | none => simp [hl] at hr
      | some k =>
        cases k with
        | none => simp [hl] at hr
        | some m =>
          obtain ⟨w, hw, _, _⟩ := (hA x).2 m hl
          simp only [hl, Option.join, Option.bind_some, id] at hr
          split at hr
          · rename_i hcond
            simp only [Bool.and_eq_true] at hcond
            simp only [evalView, hw]
            exact NoScope.bind (evalCs_noScope_cfg F Γ σ hA hF _ hcond.2 (by simpa [cfgInV] using hc))
              (fun _ _ => NoScope.bind (viewOffset_noScope _ _ _) (fun _ _ => NoScope.ok _))
          · cases hr
  | win x acc =>
    simp only [viewRank, rankOf] at hr
    cases hl : lookup x Γ with
    | none => simp [hl] at hr
    | some k =>
      cases k with
      | none => simp [hl] at hr
      | some m =>
        obtain ⟨w, hw, _, _⟩ := (hA x).2 m hl
        simp only [hl, Option.join, Option.bind_some, id] at hr
        split at hr
        · rename_i hcond
          simp only [Bool.and_eq_true] at hcond
          simp only [evalView, hw]
          exact NoScope.bind (applyAcc_noScope_cfg F Γ σ hA hF acc _ _ hcond.2
            (by simpa [cfgInV] using hc)) (fun _ _ => NoScope.ok _)
        · cases hr
  | lit _ => simp [viewRank] at hr
  | usub _ => simp [viewRank] at hr
  | binop _ _ _ => simp [viewRank] at hr
  | extern _ _ => simp [viewRank] at hr
  | stride _ _ => simp [viewRank] at hr
  | readcfg _ _ => simp [viewRank] at hr

theorem writeCell_noScope_cfg (F : Fields) (Γ : Env) (σ : State V) (hA : Agree Γ σ)
    (hF : CfgHas F σ) (x : Sym) (idx : List Expr)
    (f : Option V → Option V) (n : Nat) (hr : rankOf Γ x = some n) (hw : wfCs Γ idx = true)
    (hc : cfgInCs F idx = true) : NoScope (writeCell σ x idx f) := by
  simp only [rankOf] at hr
  cases hl : lookup x Γ with
  | none => simp [hl] at hr
  | some k =>
    cases k with
    | none => simp [hl] at hr
    | some m =>
      obtain ⟨w, hwv, _, hb⟩ := (hA x).2 m hl
      simp only [writeCell, hwv]
      exact NoScope.bind (evalCs_noScope_cfg F Γ σ hA hF idx hw hc) (fun _ _ =>
        NoScope.bind (cellOf_noScope σ.heap w _ hb) (fun _ _ => NoScope.ok _))

theorem writeCell_cfgHas [DataAlg V] (F : Fields) (σ σ' : State V) (hF : CfgHas F σ) (x : Sym)
    (idx : List Expr) (f : Option V → Option V) (h : writeCell σ x idx f = .ok σ') :
    CfgHas F σ' :=
  hF.of_cfg_eq (writeCell_scope h).2.2.2

theorem bindArgs_spec_cfg (F : Fields) (Γ : Env) (σ : State V) (hA : Agree Γ σ)
    (hF : CfgHas F σ) : ∀ (fs : List FnArg) (as : List Expr)
    (ce : List (Sym × Int)) (cv : List (Sym × View)),
    distinctFormals fs = true → wfCallArgs Γ fs as = true → cfgInArgs F fs as = true →
    NoScope (bindArgs σ fs as ce cv) ∧
    ∀ ce' cv', bindArgs σ fs as ce cv = .ok (ce', cv') →
      (∀ x, (∀ fa ∈ fs, fa.name ≠ x) → lookupSym x ce' = lookupSym x ce ∧ lookupSym x cv' = lookupSym x cv) ∧
      (∀ fa ∈ fs, BoundOk σ fa ce' cv')
  | [], [], ce, cv, _, _, _ => by
    refine ⟨NoScope.ok _, fun ce' cv' h => ?_⟩
    simp only [bindArgs, pure, Except.pure, Except.ok.injEq, Prod.mk.injEq] at h
    obtain ⟨rfl, rfl⟩ := h
    exact ⟨fun _ _ => ⟨rfl, rfl⟩, fun fa hfa => by cases hfa⟩
  | ⟨x, .ctrl k⟩ :: fs, a :: as, ce, cv, hd, hw, hc => by
    simp only [distinctFormals, Bool.and_eq_true] at hd
    simp only [wfCallArgs, Bool.and_eq_true] at hw
    simp only [cfgInArgs, Bool.and_eq_true] at hc
    have ih := fun v => bindArgs_spec_cfg F Γ σ hA hF fs as ((x, v) :: ce) cv hd.2 hw.2 hc.2
    simp only [bindArgs]
    constructor
    · refine NoScope.bind (evalC_noScope_cfg F Γ σ hA hF a hw.1 hc.1) (fun v _ => ?_)
      split
      · intro h; cases h
      · exact (ih v).1
    · intro ce' cv' h
      simp only [bind, Except.bind] at h
      cases h1 : evalC σ a with
      | error _ => rw [h1] at h; cases h
      | ok v =>
        rw [h1] at h
        simp only [] at h
        split at h
        · cases h
        · obtain ⟨hpres, hb⟩ := (ih v).2 ce' cv' h
          have hxtail : ∀ fa ∈ fs, fa.name ≠ x := by
            intro fa hfa
            have := List.all_eq_true.1 hd.1 fa hfa
            simpa using this
          constructor
          · intro y hy
            have hy' : ∀ fa ∈ fs, fa.name ≠ y := fun fa hfa => hy fa (List.mem_cons_of_mem _ hfa)
            have hyx : y ≠ x := fun e => hy ⟨x, .ctrl k⟩ (List.mem_cons_self ..) e.symm
            have := hpres y hy'
            exact ⟨by rw [this.1]; simp [lookupSym_cons', hyx], this.2⟩
          · intro fa hfa
            rcases List.mem_cons.1 hfa with rfl | hfa
            · have := hpres x hxtail
              exact ⟨v, by rw [this.1]; simp [lookupSym_cons']⟩
            · exact hb fa hfa
  | ⟨x, .scalar⟩ :: fs, a :: as, ce, cv, hd, hw, hc => by
    simp only [distinctFormals, Bool.and_eq_true] at hd
    simp only [wfCallArgs, Bool.and_eq_true, beq_iff_eq] at hw
    simp only [cfgInArgs, Bool.and_eq_true] at hc
    have ih := fun w => bindArgs_spec_cfg F Γ σ hA hF fs as ce ((x, w) :: cv) hd.2 hw.2 hc.2
    simp only [bindArgs]
    constructor
    · exact NoScope.bind (evalView_noScope_cfg F Γ σ hA hF a _ hw.1 hc.1) (fun w _ => (ih w).1)
    · intro ce' cv' h
      simp only [bind, Except.bind] at h
      cases h1 : evalView σ a with
      | error _ => rw [h1] at h; cases h
      | ok w =>
        rw [h1] at h
        obtain ⟨hpres, hb⟩ := (ih w).2 ce' cv' h
        have hvw := evalView_rank Γ σ hA a _ w hw.1 h1
        have hxtail : ∀ fa ∈ fs, fa.name ≠ x := by
          intro fa hfa
          have := List.all_eq_true.1 hd.1 fa hfa
          simpa using this
        constructor
        · intro y hy
          have hy' : ∀ fa ∈ fs, fa.name ≠ y := fun fa hfa => hy fa (List.mem_cons_of_mem _ hfa)
          have hyx : y ≠ x := fun e => hy ⟨x, .scalar⟩ (List.mem_cons_self ..) e.symm
          have := hpres y hy'
          exact ⟨this.1, by rw [this.2]; simp [lookupSym_cons', hyx]⟩
        · intro fa hfa
          rcases List.mem_cons.1 hfa with rfl | hfa
          · have := hpres x hxtail
            exact ⟨w, by rw [this.2]; simp [lookupSym_cons'], by simp [argRank, hvw.1], hvw.2⟩
          · exact hb fa hfa
  | ⟨x, .tensor sh isw⟩ :: fs, a :: as, ce, cv, hd, hw, hc => by
    simp only [distinctFormals, Bool.and_eq_true] at hd
    simp only [wfCallArgs, Bool.and_eq_true, beq_iff_eq] at hw
    simp only [cfgInArgs, Bool.and_eq_true] at hc
    have ih := fun w => bindArgs_spec_cfg F Γ σ hA hF fs as ce ((x, w) :: cv) hd.2 hw.2 hc.2
    simp only [bindArgs]
    constructor
    · exact NoScope.bind (evalView_noScope_cfg F Γ σ hA hF a _ hw.1 hc.1) (fun w _ => (ih w).1)
    · intro ce' cv' h
      simp only [bind, Except.bind] at h
      cases h1 : evalView σ a with
      | error _ => rw [h1] at h; cases h
      | ok w =>
        rw [h1] at h
        obtain ⟨hpres, hb⟩ := (ih w).2 ce' cv' h
        have hvw := evalView_rank Γ σ hA a _ w hw.1 h1
        have hxtail : ∀ fa ∈ fs, fa.name ≠ x := by
          intro fa hfa
          have := List.all_eq_true.1 hd.1 fa hfa
          simpa using this
        constructor
        · intro y hy
          have hy' : ∀ fa ∈ fs, fa.name ≠ y := fun fa hfa => hy fa (List.mem_cons_of_mem _ hfa)
          have hyx : y ≠ x := fun e => hy ⟨x, .tensor sh isw⟩ (List.mem_cons_self ..) e.symm
          have := hpres y hy'
          exact ⟨this.1, by rw [this.2]; simp [lookupSym_cons', hyx]⟩
        · intro fa hfa
          rcases List.mem_cons.1 hfa with rfl | hfa
          · have := hpres x hxtail
            exact ⟨w, by rw [this.2]; simp [lookupSym_cons'], by simp [argRank, hvw.1], hvw.2⟩
          · exact hb fa hfa
  | [], _ :: _, _, _, _, hw, _ => by simp [wfCallArgs] at hw
  | ⟨_, .ctrl _⟩ :: _, [], _, _, _, hw, _ => by simp [wfCallArgs] at hw
  | ⟨_, .scalar⟩ :: _, [], _, _, _, hw, _ => by simp [wfCallArgs] at hw
  | ⟨_, .tensor _ _⟩ :: _, [], _, _, _, hw, _ => by simp [wfCallArgs] at hw

theorem checkShapes_noScope_cfg (F : Fields) (fsAll : List FnArg) (σc : State V)
    (hA : Agree (formalsEnv fsAll) σc) (hF : CfgHas F σc) :
    ∀ (fs : List FnArg), (∀ fa ∈ fs, ∃ k, lookup fa.name (formalsEnv fsAll) = some k ∧ (∀ n, argRank fa.ty = some n → k = some n)) →
      wfFormalShapes (formalsEnv fsAll) fs = true → cfgInShapes F fs = true → NoScope (checkShapes σc fs)
  | [], _, _, _ => NoScope.ok _
  | ⟨x, .tensor sh isw⟩ :: r, hmem, hw, hc => by
    simp only [wfFormalShapes, Bool.and_eq_true] at hw
    simp only [cfgInShapes, Bool.and_eq_true] at hc
    obtain ⟨k, hk, hkr⟩ := hmem ⟨x, .tensor sh isw⟩ (List.mem_cons_self ..)
    have hk2 := hkr sh.length (by simp [argRank])
    subst hk2
    obtain ⟨w, hwv, _, _⟩ := (hA x).2 _ hk
    simp only [checkShapes]
    refine NoScope.bind (evalCs_noScope_cfg F _ σc hA hF sh hw.1 hc.1) (fun vs _ => ?_)
    simp only [hwv]
    split
    · exact checkShapes_noScope_cfg F fsAll σc hA hF r
        (fun fa hfa => hmem fa (List.mem_cons_of_mem _ hfa)) hw.2 hc.2
    · intro h; cases h
  | ⟨x, .scalar⟩ :: r, hmem, hw, hc => by
    simp only [wfFormalShapes] at hw
    simp only [cfgInShapes] at hc
    obtain ⟨k, hk, hkr⟩ := hmem ⟨x, .scalar⟩ (List.mem_cons_self ..)
    have hk2 := hkr 0 (by simp [argRank])
    subst hk2
    obtain ⟨w, hwv, _, _⟩ := (hA x).2 _ hk
    simp only [checkShapes, hwv]
    split
    · exact checkShapes_noScope_cfg F fsAll σc hA hF r
        (fun fa hfa => hmem fa (List.mem_cons_of_mem _ hfa)) hw hc
    · intro h; cases h
  | ⟨x, .ctrl k⟩ :: r, hmem, hw, hc => by
    simp only [wfFormalShapes] at hw
    simp only [cfgInShapes] at hc
    simp only [checkShapes]
    exact checkShapes_noScope_cfg F fsAll σc hA hF r
      (fun fa hfa => hmem fa (List.mem_cons_of_mem _ hfa)) hw hc

theorem checkPreds_noScope_cfg (F : Fields) (Γ : Env) (σc : State V) (hA : Agree Γ σc)
    (hF : CfgHas F σc) : ∀ (ps : List Expr),
    wfCs Γ ps = true → cfgInCs F ps = true → NoScope (checkPreds σc ps)
  | [], _, _ => NoScope.ok _
  | p :: r, hw, hc => by
    simp only [wfCs, Bool.and_eq_true] at hw
    simp only [cfgInCs, Bool.and_eq_true] at hc
    simp only [checkPreds]
    refine NoScope.bind (evalC_noScope_cfg F Γ σc hA hF p hw.1 hc.1) (fun v _ => ?_)
    split
    · intro h; cases h
    · exact checkPreds_noScope_cfg F Γ σc hA hF r hw.2 hc.2

section
variable [DataAlg V] (ext : String → List V → V)

mutual
theorem execS_noScope_cfg (F : Fields) : ∀ (s : Stmt) (Γ Γ' : Env) (σ : State V), Agree Γ σ →
    CfgHas F σ → wfS Γ s = some Γ' → readsInS F s = true →
    NoScope (execS ext s σ) ∧ ∀ σ', execS ext s σ = .ok σ' → Agree Γ' σ' ∧ CfgHas F σ'
  | .assign x idx rhs, Γ, Γ', σ, hA, hF, hw, hs => by
    simp only [wfS] at hw
    cases hr : rankOf Γ x with
    | none => simp [hr] at hw
    | some n =>
      simp only [hr] at hw
      split at hw
      · rename_i hcond
        simp only [Bool.and_eq_true] at hcond
        cases hw
        simp only [readsInS, Bool.and_eq_true] at hs
        simp only [execS]
        constructor
        · exact NoScope.bind (evalD_noScope_cfg ext F Γ σ hA hF rhs hcond.2 hs.2) (fun _ _ =>
            writeCell_noScope_cfg F Γ σ hA hF x idx _ n hr hcond.1.2 hs.1)
        · intro σ' h
          simp only [bind, Except.bind] at h
          cases hv : evalD ext σ rhs with
          | error e => rw [hv] at h; cases h
          | ok v =>
            rw [hv] at h
            exact ⟨writeCell_agree Γ σ σ' hA x idx _ h, writeCell_cfgHas F σ σ' hF x idx _ h⟩
      · cases hw
  | .reduce x idx rhs, Γ, Γ', σ, hA, hF, hw, hs => by
    simp only [wfS] at hw
    cases hr : rankOf Γ x with
    | none => simp [hr] at hw
    | some n =>
      simp only [hr] at hw
      split at hw
      · rename_i hcond
        simp only [Bool.and_eq_true] at hcond
        cases hw
        simp only [readsInS, Bool.and_eq_true] at hs
        simp only [execS]
        constructor
        · exact NoScope.bind (evalD_noScope_cfg ext F Γ σ hA hF rhs hcond.2 hs.2) (fun _ _ =>
            writeCell_noScope_cfg F Γ σ hA hF x idx _ n hr hcond.1.2 hs.1)
        · intro σ' h
          simp only [bind, Except.bind] at h
          cases hv : evalD ext σ rhs with
          | error e => rw [hv] at h; cases h
          | ok v =>
            rw [hv] at h
            exact ⟨writeCell_agree Γ σ σ' hA x idx _ h, writeCell_cfgHas F σ σ' hF x idx _ h⟩
      · cases hw
  | .writecfg c f rhs isData, Γ, Γ', σ, hA, hF, hw, hs => by
    cases isData with
    | true =>
      simp only [wfS, if_true] at hw
      simp only [readsInS, if_true] at hs
      cases hcond : wfD Γ rhs with
      | false => simp [hcond] at hw
      | true =>
        simp only [hcond, if_true, Option.some.injEq] at hw
        subst hw
        simp only [execS, if_true]
        constructor
        · exact NoScope.bind (evalD_noScope_cfg ext F Γ σ hA hF rhs hcond hs) (fun _ _ => NoScope.ok _)
        · intro σ' h
          simp only [bind, Except.bind] at h
          cases hv : evalD ext σ rhs with
          | error e => rw [hv] at h; cases h
          | ok v =>
            rw [hv] at h
            simp only [pure, Except.pure, Except.ok.injEq] at h
            subst h
            exact ⟨fun y => hA y, hF.setCfg _ _⟩
    | false =>
      simp only [wfS, Bool.false_eq_true, if_false] at hw
      simp only [readsInS, Bool.false_eq_true, if_false] at hs
      cases hcond : wfC Γ rhs with
      | false => simp [hcond] at hw
      | true =>
        simp only [hcond, if_true, Option.some.injEq] at hw
        subst hw
        simp only [execS, Bool.false_eq_true, if_false]
        constructor
        · exact NoScope.bind (evalC_noScope_cfg F Γ σ hA hF rhs hcond hs) (fun _ _ => NoScope.ok _)
        · intro σ' h
          simp only [bind, Except.bind] at h
          cases hv : evalC σ rhs with
          | error e => rw [hv] at h; cases h
          | ok v =>
            rw [hv] at h
            simp only [pure, Except.pure, Except.ok.injEq] at h
            subst h
            exact ⟨fun y => hA y, hF.setCfg _ _⟩
  | .pass, Γ, Γ', σ, hA, hF, hw, _ => by
    simp only [wfS, Option.some.injEq] at hw
    subst hw
    exact ⟨NoScope.ok _, fun σ' h => by
      simp [execS, pure, Except.pure] at h; subst h; exact ⟨hA, hF⟩⟩
  | .free x, Γ, Γ', σ, hA, hF, hw, _ => by
    simp only [wfS] at hw
    split at hw
    · cases hw
      exact ⟨NoScope.ok _, fun σ' h => by
        simp [execS, pure, Except.pure] at h; subst h; exact ⟨hA, hF⟩⟩
    · cases hw
  | .ite c t e, Γ, Γ', σ, hA, hF, hw, hs => by
    simp only [wfS] at hw
    split at hw
    · rename_i hcond
      simp only [Bool.and_eq_true] at hcond
      cases hw
      simp only [readsInS, Bool.and_eq_true] at hs
      obtain ⟨Γt, hΓt⟩ := Option.isSome_iff_exists.1 hcond.1.2
      obtain ⟨Γe, hΓe⟩ := Option.isSome_iff_exists.1 hcond.2
      have ht := execL_noScope_cfg F t Γ Γt σ hA hF hΓt hs.1.2
      have he := execL_noScope_cfg F e Γ Γe σ hA hF hΓe hs.2
      simp only [execS]
      constructor
      · refine NoScope.bind (evalC_noScope_cfg F Γ σ hA hF c hcond.1.1 hs.1.1) (fun b _ => ?_)
        split
        · cases h1 : execL ext t σ with
          | error err => intro h; simp [Except.map] at h; subst h; exact ht.1 h1
          | ok s2 => exact NoScope.ok _
        · cases h1 : execL ext e σ with
          | error err => intro h; simp [Except.map] at h; subst h; exact he.1 h1
          | ok s2 => exact NoScope.ok _
      · intro σ' h
        simp only [bind, Except.bind] at h
        cases hb : evalC σ c with
        | error err => rw [hb] at h; cases h
        | ok b =>
          rw [hb] at h
          simp only [] at h
          split at h
          · obtain ⟨s2, h2, rfl⟩ := map_leave_ok h
            exact ⟨Agree.leave hA (execL_scope ext t σ s2 h2).2.1, (ht.2 s2 h2).2.leave⟩
          · obtain ⟨s2, h2, rfl⟩ := map_leave_ok h
            exact ⟨Agree.leave hA (execL_scope ext e σ s2 h2).2.1, (he.2 s2 h2).2.leave⟩
    · cases hw
  | .loop i lo hi b par, Γ, Γ', σ, hA, hF, hw, hs => by
    simp only [wfS] at hw
    split at hw
    · rename_i hcond
      simp only [Bool.and_eq_true] at hcond
      obtain ⟨⟨⟨hfr, hlo⟩, hhi⟩, hb⟩ := hcond
      cases hw
      simp only [readsInS, Bool.and_eq_true] at hs
      obtain ⟨Γb, hΓb⟩ := Option.isSome_iff_exists.1 hb
      have hstep : ∀ v (s : State V), (Agree Γ s ∧ CfgHas F s) →
          NoScope ((execL ext b (s.bind i v)).map (State.leave s)) ∧
          ∀ s', (execL ext b (s.bind i v)).map (State.leave s) = .ok s' →
            (Agree Γ s' ∧ CfgHas F s') := by
        intro v s hAs
        have hb' := execL_noScope_cfg F b ((i, none) :: Γ) Γb (s.bind i v)
          (Agree.bind hAs.1 i v hfr) (hAs.2.bind i v) hΓb hs.2
        constructor
        · cases h1 : execL ext b (s.bind i v) with
          | error err => intro h; simp [Except.map] at h; subst h; exact hb'.1 h1
          | ok s2 => exact NoScope.ok _
        · intro s' h
          obtain ⟨s2, h2, rfl⟩ := map_leave_ok h
          exact ⟨Agree.leave hAs.1 (execL_scope ext b (s.bind i v) s2 h2).2.1,
            (hb'.2 s2 h2).2.leave⟩
      simp only [execS]
      constructor
      · refine NoScope.bind (evalC_noScope_cfg F Γ σ hA hF lo hlo hs.1.1) (fun l _ =>
          NoScope.bind (evalC_noScope_cfg F Γ σ hA hF hi hhi hs.1.2) (fun h _ => ?_))
        split
        · intro h'; cases h'
        · exact (iterate_noScope (fun s => Agree Γ s ∧ CfgHas F s) _ hstep _ _ σ ⟨hA, hF⟩).1
      · intro σ' h
        simp only [bind, Except.bind] at h
        cases h1 : evalC σ lo with
        | error err => rw [h1] at h; cases h
        | ok l =>
          rw [h1] at h
          cases h2 : evalC σ hi with
          | error err => rw [h2] at h; cases h
          | ok hv =>
            rw [h2] at h
            simp only [] at h
            split at h
            · cases h
            · exact (iterate_noScope (fun s => Agree Γ s ∧ CfgHas F s) _ hstep _ _ σ ⟨hA, hF⟩).2 σ' h
    · cases hw
  | .alloc x sh, Γ, Γ', σ, hA, hF, hw, hs => by
    simp only [wfS] at hw
    split at hw
    · rename_i hcond
      simp only [Bool.and_eq_true] at hcond
      cases hw
      simp only [readsInS] at hs
      simp only [execS]
      constructor
      · exact NoScope.bind (evalCs_noScope_cfg F Γ σ hA hF sh hcond.2 hs) (fun _ _ =>
          NoScope.bind (checkSizes_noScope _) (fun _ _ => NoScope.ok _))
      · intro σ' h
        simp only [bind, Except.bind] at h
        cases h1 : evalCs σ sh with
        | error err => rw [h1] at h; cases h
        | ok vs =>
          rw [h1] at h
          simp only [] at h
          cases h2 : checkSizes vs with
          | error err => rw [h2] at h; cases h
          | ok u =>
            rw [h2] at h
            simp only [pure, Except.pure, Except.ok.injEq] at h
            subst h
            have hfr := hcond.1
            simp only [fresh, Option.isNone_iff_eq_none] at hfr
            refine ⟨?_, fun k hk => hF k hk⟩
            intro y
            by_cases hy : y = x
            · subst hy
              refine ⟨fun hh => by simp [lookup_cons] at hh, fun n hn => ?_⟩
              simp only [lookup_cons, if_true, Option.some.injEq] at hn
              refine ⟨{ buf := σ.heap.length, off := 0, dims := denseDims vs }, by simp [lookupSym_cons'], ?_, by simp⟩
              rw [denseDims_length, evalCs_length σ sh vs h1]
              exact hn
            · refine ⟨fun hh => ?_, fun n hn => ?_⟩
              · simp only [lookup_cons, hy, if_false] at hh
                exact (hA y).1 hh
              · simp only [lookup_cons, hy, if_false] at hn
                obtain ⟨w, hwv, hd, hbuf⟩ := (hA y).2 n hn
                exact ⟨w, by simp [lookupSym_cons', hy, hwv], hd, by simp; omega⟩
    · cases hw
  | .call f args, Γ, Γ', σ, hA, hF, hw, hs => by
    simp only [wfS] at hw
    split at hw
    · rename_i hcond
      simp only [Bool.and_eq_true] at hcond
      cases hw
      simp only [readsInS, Bool.and_eq_true] at hs
      simp only [execS]
      exact execP_noScope_cfg F f args Γ σ hA hF hcond.1 hcond.2 hs.1 hs.2
    · cases hw
  | .window x rhs, Γ, Γ', σ, hA, hF, hw, hs => by
    simp only [wfS] at hw
    cases hr : viewRank Γ rhs with
    | none => simp [hr] at hw
    | some n =>
      simp only [hr] at hw
      split at hw
      · rename_i hfr
        cases hw
        simp only [readsInS] at hs
        simp only [execS]
        constructor
        · exact NoScope.bind (evalView_noScope_cfg F Γ σ hA hF rhs n hr hs) (fun _ _ => NoScope.ok _)
        · intro σ' h
          simp only [bind, Except.bind] at h
          cases h1 : evalView σ rhs with
          | error err => rw [h1] at h; cases h
          | ok w =>
            rw [h1] at h
            simp only [pure, Except.pure, Except.ok.injEq] at h
            subst h
            have hvw := evalView_rank Γ σ hA rhs n w hr h1
            simp only [fresh, Option.isNone_iff_eq_none] at hfr
            refine ⟨?_, fun k hk => hF k hk⟩
            intro y
            by_cases hy : y = x
            · subst hy
              refine ⟨fun hh => by simp [lookup_cons] at hh, fun m hm => ?_⟩
              simp only [lookup_cons, if_true, Option.some.injEq] at hm
              subst hm
              exact ⟨w, by simp [State.bindView, lookupSym_cons'], hvw.1, hvw.2⟩
            · refine ⟨fun hh => ?_, fun m hm => ?_⟩
              · simp only [lookup_cons, hy, if_false] at hh
                exact (hA y).1 hh
              · simp only [lookup_cons, hy, if_false] at hm
                obtain ⟨w', hwv, hd, hbuf⟩ := (hA y).2 m hm
                exact ⟨w', by simp [State.bindView, lookupSym_cons', hy, hwv], hd, hbuf⟩
      · cases hw
theorem execP_noScope_cfg (F : Fields) : ∀ (f : Proc) (args : List Expr) (Γ : Env) (σ : State V),
    Agree Γ σ → CfgHas F σ →
    wfP f = true → wfCallArgs Γ f.args args = true → readsInP F f = true →
    cfgInArgs F f.args args = true →
    NoScope (execP ext f args σ) ∧ ∀ σ', execP ext f args σ = .ok σ' → Agree Γ σ' ∧ CfgHas F σ'
  | .mk nm fargs preds body, args, Γ, σ, hA, hF, hwf, hwa, hsp, hca => by
    simp only [wfP, Bool.and_eq_true] at hwf
    obtain ⟨⟨⟨hdist, hshp⟩, hpw⟩, hbw⟩ := hwf
    simp only [readsInP, Bool.and_eq_true] at hsp
    simp only [Proc.args] at hwa hca
    obtain ⟨Γb, hΓb⟩ := Option.isSome_iff_exists.1 hbw
    have hbind := bindArgs_spec_cfg F Γ σ hA hF fargs args [] [] hdist hwa hca
    have hmem : ∀ fa ∈ fargs, ∃ k, lookup fa.name (formalsEnv fargs) = some k ∧
        (∀ n, argRank fa.ty = some n → k = some n) :=
      fun fa hfa => ⟨argRank fa.ty, lookup_formalsEnv_mem fargs hdist fa hfa, fun n hn => hn⟩
    have hFc : ∀ (ce : List (Sym × Int)) (cv : List (Sym × View)),
        CfgHas F ({ env := ce, views := cv, heap := σ.heap, cfg := σ.cfg } : State V) :=
      fun _ _ k hk => hF k hk
    have hbody := fun (ce : List (Sym × Int)) (cv : List (Sym × View))
        (hAc : Agree (formalsEnv fargs)
          ({ env := ce, views := cv, heap := σ.heap, cfg := σ.cfg } : State V)) =>
      execL_noScope_cfg F body (formalsEnv fargs) Γb _ hAc (hFc ce cv) hΓb hsp.2
    simp only [execP]
    constructor
    · refine NoScope.bind hbind.1 (fun p hp => ?_)
      obtain ⟨ce, cv⟩ := p
      have hAc := agree_of_bound σ fargs ce cv ((hbind.2 ce cv hp).2)
      simp only []
      split
      · intro h; cases h
      · refine NoScope.bind (checkShapes_noScope_cfg F fargs _ hAc (hFc ce cv) fargs hmem hshp hsp.1.2)
          (fun _ _ => NoScope.bind (checkPreds_noScope_cfg F _ _ hAc (hFc ce cv) preds hpw hsp.1.1)
            (fun _ _ => ?_))
        exact NoScope.bind (hbody ce cv hAc).1 (fun _ _ => NoScope.ok _)
    · intro σ' h
      simp only [bind, Except.bind] at h
      cases h1 : bindArgs σ fargs args [] [] with
      | error _ => rw [h1] at h; cases h
      | ok p =>
        rw [h1] at h
        obtain ⟨ce, cv⟩ := p
        have hAc := agree_of_bound σ fargs ce cv ((hbind.2 ce cv h1).2)
        simp only [] at h
        split at h
        · cases h
        · cases h2 : checkShapes ({ env := ce, views := cv, heap := σ.heap, cfg := σ.cfg } : State V) fargs with
          | error _ => rw [h2] at h; cases h
          | ok u =>
            rw [h2] at h
            simp only [] at h
            cases h3 : checkPreds ({ env := ce, views := cv, heap := σ.heap, cfg := σ.cfg } : State V) preds with
            | error _ => rw [h3] at h; cases h
            | ok u2 =>
              rw [h3] at h
              simp only [] at h
              cases h4 : execL ext body ({ env := ce, views := cv, heap := σ.heap, cfg := σ.cfg } : State V) with
              | error _ => rw [h4] at h; cases h
              | ok s2 =>
                rw [h4] at h
                simp only [pure, Except.pure, Except.ok.injEq] at h
                subst h
                have := (execL_scope ext body _ s2 h4).2.1
                exact ⟨Agree.leave hA this, ((hbody ce cv hAc).2 s2 h4).2.leave⟩
theorem execL_noScope_cfg (F : Fields) : ∀ (ss : List Stmt) (Γ Γ' : Env) (σ : State V),
    Agree Γ σ → CfgHas F σ →
    wfL Γ ss = some Γ' → readsInL F ss = true →
    NoScope (execL ext ss σ) ∧ ∀ σ', execL ext ss σ = .ok σ' → Agree Γ' σ' ∧ CfgHas F σ'
  | [], Γ, Γ', σ, hA, hF, hw, _ => by
    simp only [wfL, Option.some.injEq] at hw
    subst hw
    exact ⟨NoScope.ok _, fun σ' h => by
      simp [execL, pure, Except.pure] at h; subst h; exact ⟨hA, hF⟩⟩
  | s :: r, Γ, Γ', σ, hA, hF, hw, hs => by
    simp only [wfL] at hw
    cases h1 : wfS Γ s with
    | none => rw [h1] at hw; cases hw
    | some Γ1 =>
      rw [h1] at hw
      simp only [readsInL, Bool.and_eq_true] at hs
      have hs1 := execS_noScope_cfg F s Γ Γ1 σ hA hF h1 hs.1
      simp only [execL]
      constructor
      · exact NoScope.bind hs1.1 (fun a ha =>
          (execL_noScope_cfg F r Γ1 Γ' a (hs1.2 a ha).1 (hs1.2 a ha).2 hw hs.2).1)
      · intro σ' h
        simp only [bind, Except.bind] at h
        cases hx : execS ext s σ with
        | error err => rw [hx] at h; cases h
        | ok a =>
          rw [hx] at h
          exact (execL_noScope_cfg F r Γ1 Γ' a (hs1.2 a hx).1 (hs1.2 a hx).2 hw hs.2).2 σ' h
end
end

/-- a well-formed block run in a fresh scope never fails on scoping, provided the configuration
    state of the input holds every field the block reads -/
theorem wf_noScope_cfg_core (V : Type) [DataAlg V] (ext : String → List V → V) (F : Fields)
    (Γ Γ' : Env) (body : List Stmt) (σ : State V) (hA : Agree Γ σ) (hF : CfgHas F σ)
    (hw : wfL Γ body = some Γ') (hr : readsInL F body = true) :
    execB ext body σ ≠ .error .scope := by
  have h := (execL_noScope_cfg ext F body Γ Γ' σ hA hF hw hr).1
  unfold execB
  cases h1 : execL ext body σ with
  | error e => intro h2; simp [Except.map] at h2; subst h2; exact h h1
  | ok s => intro h2; cases h2

/-! Part 3: the configuration-free fragment of `WfSound` is the case `F = []` -/

theorem noCfgC_cfgInC (F : Fields) : ∀ (e : Expr), noCfgC e = true → cfgInC F e = true
  | .readcfg _ _, h => by simp [noCfgC] at h
  | .usub e, h => by
    simp only [noCfgC] at h
    simp only [cfgInC]
    exact noCfgC_cfgInC F e h
  | .binop _ a b, h => by
    simp only [noCfgC, Bool.and_eq_true] at h
    simp only [cfgInC, Bool.and_eq_true]
    exact ⟨noCfgC_cfgInC F a h.1, noCfgC_cfgInC F b h.2⟩
  | .read _ _, _ => by simp [cfgInC]
  | .lit _, _ => by simp [cfgInC]
  | .extern _ _, _ => by simp [cfgInC]
  | .win _ _, _ => by simp [cfgInC]
  | .stride _ _, _ => by simp [cfgInC]

theorem noCfgCs_cfgInCs (F : Fields) : ∀ (es : List Expr), noCfgCs es = true → cfgInCs F es = true
  | [], _ => rfl
  | e :: r, h => by
    simp only [noCfgCs, Bool.and_eq_true] at h
    simp only [cfgInCs, Bool.and_eq_true]
    exact ⟨noCfgC_cfgInC F e h.1, noCfgCs_cfgInCs F r h.2⟩

mutual
theorem noCfgD_cfgInD (F : Fields) : ∀ (e : Expr), noCfgD e = true → cfgInD F e = true
  | .read _ idx, h => by
    simp only [noCfgD] at h
    simp only [cfgInD]
    exact noCfgCs_cfgInCs F idx h
  | .usub e, h => by
    simp only [noCfgD] at h
    simp only [cfgInD]
    exact noCfgD_cfgInD F e h
  | .binop _ a b, h => by
    simp only [noCfgD, Bool.and_eq_true] at h
    simp only [cfgInD, Bool.and_eq_true]
    exact ⟨noCfgD_cfgInD F a h.1, noCfgD_cfgInD F b h.2⟩
  | .extern _ args, h => by
    simp only [noCfgD] at h
    simp only [cfgInD]
    exact noCfgDs_cfgInDs F args h
  | .readcfg _ _, h => by simp [noCfgD] at h
  | .lit _, _ => by simp [cfgInD]
  | .win _ _, _ => by simp [cfgInD]
  | .stride _ _, _ => by simp [cfgInD]
theorem noCfgDs_cfgInDs (F : Fields) : ∀ (es : List Expr), noCfgDs es = true → cfgInDs F es = true
  | [], _ => by simp [cfgInDs]
  | e :: r, h => by
    simp only [noCfgDs, Bool.and_eq_true] at h
    simp only [cfgInDs, Bool.and_eq_true]
    exact ⟨noCfgD_cfgInD F e h.1, noCfgDs_cfgInDs F r h.2⟩
end

theorem noCfgAcc_cfgInAcc (F : Fields) : ∀ (acc : List WAcc), noCfgAcc acc = true → cfgInAcc F acc = true
  | [], _ => rfl
  | .point e :: r, h => by
    simp only [noCfgAcc, Bool.and_eq_true] at h
    simp only [cfgInAcc, Bool.and_eq_true]
    exact ⟨noCfgC_cfgInC F e h.1, noCfgAcc_cfgInAcc F r h.2⟩
  | .interval lo hi :: r, h => by
    simp only [noCfgAcc, Bool.and_eq_true] at h
    simp only [cfgInAcc, Bool.and_eq_true]
    exact ⟨⟨noCfgC_cfgInC F lo h.1.1, noCfgC_cfgInC F hi h.1.2⟩, noCfgAcc_cfgInAcc F r h.2⟩

theorem noCfgV_cfgInV (F : Fields) (e : Expr) (h : noCfgV e = true) : cfgInV F e = true := by
  cases e with
  | read x idx =>
    simp only [noCfgV] at h
    simp only [cfgInV]
    exact noCfgCs_cfgInCs F idx h
  | win x acc =>
    simp only [noCfgV] at h
    simp only [cfgInV]
    exact noCfgAcc_cfgInAcc F acc h
  | _ => simp [cfgInV]

theorem noCfgArgs_cfgInArgs (F : Fields) : ∀ (fs : List FnArg) (as : List Expr),
    noCfgArgs fs as = true → cfgInArgs F fs as = true
  | [], _, _ => by simp [cfgInArgs]
  | ⟨_, .ctrl _⟩ :: _, [], _ => by simp [cfgInArgs]
  | ⟨_, .scalar⟩ :: _, [], _ => by simp [cfgInArgs]
  | ⟨_, .tensor _ _⟩ :: _, [], _ => by simp [cfgInArgs]
  | ⟨_, .ctrl _⟩ :: fs, a :: as, h => by
    simp only [noCfgArgs, Bool.and_eq_true] at h
    simp only [cfgInArgs, Bool.and_eq_true]
    exact ⟨noCfgC_cfgInC F a h.1, noCfgArgs_cfgInArgs F fs as h.2⟩
  | ⟨_, .scalar⟩ :: fs, a :: as, h => by
    simp only [noCfgArgs, Bool.and_eq_true] at h
    simp only [cfgInArgs, Bool.and_eq_true]
    exact ⟨noCfgV_cfgInV F a h.1, noCfgArgs_cfgInArgs F fs as h.2⟩
  | ⟨_, .tensor _ _⟩ :: fs, a :: as, h => by
    simp only [noCfgArgs, Bool.and_eq_true] at h
    simp only [cfgInArgs, Bool.and_eq_true]
    exact ⟨noCfgV_cfgInV F a h.1, noCfgArgs_cfgInArgs F fs as h.2⟩

theorem noCfgShapes_cfgInShapes (F : Fields) : ∀ (fs : List FnArg),
    noCfgShapes fs = true → cfgInShapes F fs = true
  | [], _ => rfl
  | ⟨_, .tensor sh _⟩ :: r, h => by
    simp only [noCfgShapes, Bool.and_eq_true] at h
    simp only [cfgInShapes, Bool.and_eq_true]
    exact ⟨noCfgCs_cfgInCs F sh h.1, noCfgShapes_cfgInShapes F r h.2⟩
  | ⟨_, .scalar⟩ :: r, h => by
    simp only [noCfgShapes] at h
    simp only [cfgInShapes]
    exact noCfgShapes_cfgInShapes F r h
  | ⟨_, .ctrl _⟩ :: r, h => by
    simp only [noCfgShapes] at h
    simp only [cfgInShapes]
    exact noCfgShapes_cfgInShapes F r h

mutual
theorem simpleS_readsInS (F : Fields) : ∀ (s : Stmt), simpleS s = true → readsInS F s = true
  | .assign _ idx e, h => by
    simp only [simpleS, Bool.and_eq_true] at h
    simp only [readsInS, Bool.and_eq_true]
    exact ⟨noCfgCs_cfgInCs F idx h.1, noCfgD_cfgInD F e h.2⟩
  | .reduce _ idx e, h => by
    simp only [simpleS, Bool.and_eq_true] at h
    simp only [readsInS, Bool.and_eq_true]
    exact ⟨noCfgCs_cfgInCs F idx h.1, noCfgD_cfgInD F e h.2⟩
  | .writecfg _ _ e isData, h => by
    cases isData with
    | true =>
      simp only [simpleS, if_true] at h
      simp only [readsInS, if_true]
      exact noCfgD_cfgInD F e h
    | false =>
      simp only [simpleS, Bool.false_eq_true, if_false] at h
      simp only [readsInS, Bool.false_eq_true, if_false]
      exact noCfgC_cfgInC F e h
  | .pass, _ => by simp [readsInS]
  | .ite c t e, h => by
    simp only [simpleS, Bool.and_eq_true] at h
    simp only [readsInS, Bool.and_eq_true]
    exact ⟨⟨noCfgC_cfgInC F c h.1.1, simpleL_readsInL F t h.1.2⟩, simpleL_readsInL F e h.2⟩
  | .loop _ lo hi b _, h => by
    simp only [simpleS, Bool.and_eq_true] at h
    simp only [readsInS, Bool.and_eq_true]
    exact ⟨⟨noCfgC_cfgInC F lo h.1.1, noCfgC_cfgInC F hi h.1.2⟩, simpleL_readsInL F b h.2⟩
  | .alloc _ sh, h => by
    simp only [simpleS] at h
    simp only [readsInS]
    exact noCfgCs_cfgInCs F sh h
  | .free _, _ => by simp [readsInS]
  | .call f args, h => by
    simp only [simpleS, Bool.and_eq_true] at h
    simp only [readsInS, Bool.and_eq_true]
    exact ⟨simpleP_readsInP F f h.1, noCfgArgs_cfgInArgs F f.args args h.2⟩
  | .window _ e, h => by
    simp only [simpleS] at h
    simp only [readsInS]
    exact noCfgV_cfgInV F e h
theorem simpleL_readsInL (F : Fields) : ∀ (ss : List Stmt), simpleL ss = true → readsInL F ss = true
  | [], _ => by simp [readsInL]
  | s :: r, h => by
    simp only [simpleL, Bool.and_eq_true] at h
    simp only [readsInL, Bool.and_eq_true]
    exact ⟨simpleS_readsInS F s h.1, simpleL_readsInL F r h.2⟩
theorem simpleP_readsInP (F : Fields) : ∀ (p : Proc), simpleP p = true → readsInP F p = true
  | .mk _ fargs preds body, h => by
    simp only [simpleP, Bool.and_eq_true] at h
    simp only [readsInP, Bool.and_eq_true]
    exact ⟨⟨noCfgCs_cfgInCs F preds h.1.1, noCfgShapes_cfgInShapes F fargs h.1.2⟩,
      simpleL_readsInL F body h.2⟩
end

/-- the fragment of `execL_noScope` / `wf_noScope_partial` is the special case `F = []`
    (and `CfgHas [] σ` holds of every state: `CfgHas.nil`) -/
theorem simpleL_readsInL_nil (ss : List Stmt) (h : simpleL ss = true) : readsInL [] ss = true :=
  simpleL_readsInL [] ss h

/-! Part 4: the set of fields a program reads; `readsInL F ss ↔ cfgReadsL ss ⊆ F` -/

def cfgReadsC : Expr → Fields
  | .readcfg c f => [(c, f)]
  | .usub e => cfgReadsC e
  | .binop _ a b => cfgReadsC a ++ cfgReadsC b
  | _ => []

def cfgReadsCs : List Expr → Fields
  | [] => []
  | e :: r => cfgReadsC e ++ cfgReadsCs r

mutual
def cfgReadsD : Expr → Fields
  | .read _ idx => cfgReadsCs idx
  | .usub e => cfgReadsD e
  | .binop _ a b => cfgReadsD a ++ cfgReadsD b
  | .extern _ args => cfgReadsDs args
  | .readcfg c f => [(c, f)]
  | _ => []
def cfgReadsDs : List Expr → Fields
  | [] => []
  | e :: r => cfgReadsD e ++ cfgReadsDs r
end

def cfgReadsAcc : List WAcc → Fields
  | [] => []
  | .point e :: r => cfgReadsC e ++ cfgReadsAcc r
  | .interval lo hi :: r => cfgReadsC lo ++ cfgReadsC hi ++ cfgReadsAcc r

def cfgReadsV : Expr → Fields
  | .read _ idx => cfgReadsCs idx
  | .win _ acc => cfgReadsAcc acc
  | _ => []

def cfgReadsArgs : List FnArg → List Expr → Fields
  | ⟨_, .ctrl _⟩ :: fs, a :: as => cfgReadsC a ++ cfgReadsArgs fs as
  | _ :: fs, a :: as => cfgReadsV a ++ cfgReadsArgs fs as
  | _, _ => []

def cfgReadsShapes : List FnArg → Fields
  | [] => []
  | ⟨_, .tensor sh _⟩ :: r => cfgReadsCs sh ++ cfgReadsShapes r
  | _ :: r => cfgReadsShapes r

mutual
/-- all configuration fields read by the statement, callees (shapes, predicates) included -/
def cfgReadsS : Stmt → Fields
  | .assign _ idx e => cfgReadsCs idx ++ cfgReadsD e
  | .reduce _ idx e => cfgReadsCs idx ++ cfgReadsD e
  | .writecfg _ _ e isData => if isData then cfgReadsD e else cfgReadsC e
  | .pass => []
  | .ite c t e => cfgReadsC c ++ cfgReadsL t ++ cfgReadsL e
  | .loop _ lo hi b _ => cfgReadsC lo ++ cfgReadsC hi ++ cfgReadsL b
  | .alloc _ sh => cfgReadsCs sh
  | .free _ => []
  | .call f args => cfgReadsP f ++ cfgReadsArgs f.args args
  | .window _ e => cfgReadsV e
def cfgReadsL : List Stmt → Fields
  | [] => []
  | s :: r => cfgReadsS s ++ cfgReadsL r
def cfgReadsP : Proc → Fields
  | .mk _ fargs preds body => cfgReadsCs preds ++ cfgReadsShapes fargs ++ cfgReadsL body
end

theorem cfgInC_iff (F : Fields) : ∀ (e : Expr),
    cfgInC F e = true ↔ ∀ k, k ∈ cfgReadsC e → k ∈ F
  | .readcfg c f => by simp [cfgInC, cfgReadsC]
  | .usub e => by simp only [cfgInC, cfgReadsC]; exact cfgInC_iff F e
  | .binop _ a b => by
    simp only [cfgInC, cfgReadsC, Bool.and_eq_true, List.mem_append, cfgInC_iff F a, cfgInC_iff F b]
    exact ⟨fun h k hk => hk.elim (h.1 k) (h.2 k),
      fun h => ⟨fun k hk => h k (Or.inl hk), fun k hk => h k (Or.inr hk)⟩⟩
  | .read _ _ => by simp [cfgInC, cfgReadsC]
  | .lit _ => by simp [cfgInC, cfgReadsC]
  | .extern _ _ => by simp [cfgInC, cfgReadsC]
  | .win _ _ => by simp [cfgInC, cfgReadsC]
  | .stride _ _ => by simp [cfgInC, cfgReadsC]

theorem and_sub_iff {A B F : Fields} :
    ((∀ k, k ∈ A → k ∈ F) ∧ (∀ k, k ∈ B → k ∈ F)) ↔ ∀ k, k ∈ A ++ B → k ∈ F := by
  simp only [List.mem_append]
  exact ⟨fun h k hk => hk.elim (h.1 k) (h.2 k),
    fun h => ⟨fun k hk => h k (Or.inl hk), fun k hk => h k (Or.inr hk)⟩⟩

theorem cfgInCs_iff (F : Fields) : ∀ (es : List Expr),
    cfgInCs F es = true ↔ ∀ k, k ∈ cfgReadsCs es → k ∈ F
  | [] => by simp [cfgInCs, cfgReadsCs]
  | e :: r => by
    simp only [cfgInCs, cfgReadsCs, Bool.and_eq_true, cfgInC_iff F e, cfgInCs_iff F r]
    exact and_sub_iff

mutual
theorem cfgInD_iff (F : Fields) : ∀ (e : Expr),
    cfgInD F e = true ↔ ∀ k, k ∈ cfgReadsD e → k ∈ F
  | .read _ idx => by simp only [cfgInD, cfgReadsD]; exact cfgInCs_iff F idx
  | .usub e => by simp only [cfgInD, cfgReadsD]; exact cfgInD_iff F e
  | .binop _ a b => by
    simp only [cfgInD, cfgReadsD, Bool.and_eq_true, cfgInD_iff F a, cfgInD_iff F b]
    exact and_sub_iff
  | .extern _ args => by simp only [cfgInD, cfgReadsD]; exact cfgInDs_iff F args
  | .readcfg c f => by simp [cfgInD, cfgReadsD]
  | .lit _ => by simp [cfgInD, cfgReadsD]
  | .win _ _ => by simp [cfgInD, cfgReadsD]
  | .stride _ _ => by simp [cfgInD, cfgReadsD]
theorem cfgInDs_iff (F : Fields) : ∀ (es : List Expr),
    cfgInDs F es = true ↔ ∀ k, k ∈ cfgReadsDs es → k ∈ F
  | [] => by simp [cfgInDs, cfgReadsDs]
  | e :: r => by
    simp only [cfgInDs, cfgReadsDs, Bool.and_eq_true, cfgInD_iff F e, cfgInDs_iff F r]
    exact and_sub_iff
end

theorem cfgInAcc_iff (F : Fields) : ∀ (acc : List WAcc),
    cfgInAcc F acc = true ↔ ∀ k, k ∈ cfgReadsAcc acc → k ∈ F
  | [] => by simp [cfgInAcc, cfgReadsAcc]
  | .point e :: r => by
    simp only [cfgInAcc, cfgReadsAcc, Bool.and_eq_true, cfgInC_iff F e, cfgInAcc_iff F r]
    exact and_sub_iff
  | .interval lo hi :: r => by
    simp only [cfgInAcc, cfgReadsAcc, Bool.and_eq_true, cfgInC_iff F lo, cfgInC_iff F hi,
      cfgInAcc_iff F r]
    rw [and_sub_iff, and_sub_iff]

theorem cfgInV_iff (F : Fields) (e : Expr) :
    cfgInV F e = true ↔ ∀ k, k ∈ cfgReadsV e → k ∈ F := by
  cases e with
  | read x idx => simp only [cfgInV, cfgReadsV]; exact cfgInCs_iff F idx
  | win x acc => simp only [cfgInV, cfgReadsV]; exact cfgInAcc_iff F acc
  | _ => simp [cfgInV, cfgReadsV]

theorem cfgInArgs_iff (F : Fields) : ∀ (fs : List FnArg) (as : List Expr),
    cfgInArgs F fs as = true ↔ ∀ k, k ∈ cfgReadsArgs fs as → k ∈ F
  | [], _ => by simp [cfgInArgs, cfgReadsArgs]
  | ⟨_, .ctrl _⟩ :: _, [] => by simp [cfgInArgs, cfgReadsArgs]
  | ⟨_, .scalar⟩ :: _, [] => by simp [cfgInArgs, cfgReadsArgs]
  | ⟨_, .tensor _ _⟩ :: _, [] => by simp [cfgInArgs, cfgReadsArgs]
  | ⟨_, .ctrl _⟩ :: fs, a :: as => by
    simp only [cfgInArgs, cfgReadsArgs, Bool.and_eq_true, cfgInC_iff F a, cfgInArgs_iff F fs as]
    exact and_sub_iff
  | ⟨_, .scalar⟩ :: fs, a :: as => by
    simp only [cfgInArgs, cfgReadsArgs, Bool.and_eq_true, cfgInV_iff F a, cfgInArgs_iff F fs as]
    exact and_sub_iff
  | ⟨_, .tensor _ _⟩ :: fs, a :: as => by
    simp only [cfgInArgs, cfgReadsArgs, Bool.and_eq_true, cfgInV_iff F a, cfgInArgs_iff F fs as]
    exact and_sub_iff

theorem cfgInShapes_iff (F : Fields) : ∀ (fs : List FnArg),
    cfgInShapes F fs = true ↔ ∀ k, k ∈ cfgReadsShapes fs → k ∈ F
  | [] => by simp [cfgInShapes, cfgReadsShapes]
  | ⟨_, .tensor sh _⟩ :: r => by
    simp only [cfgInShapes, cfgReadsShapes, Bool.and_eq_true, cfgInCs_iff F sh, cfgInShapes_iff F r]
    exact and_sub_iff
  | ⟨_, .scalar⟩ :: r => by
    simp only [cfgInShapes, cfgReadsShapes]; exact cfgInShapes_iff F r
  | ⟨_, .ctrl _⟩ :: r => by
    simp only [cfgInShapes, cfgReadsShapes]; exact cfgInShapes_iff F r

mutual
theorem readsInS_iff (F : Fields) : ∀ (s : Stmt),
    readsInS F s = true ↔ ∀ k, k ∈ cfgReadsS s → k ∈ F
  | .assign _ idx e => by
    simp only [readsInS, cfgReadsS, Bool.and_eq_true, cfgInCs_iff F idx, cfgInD_iff F e]
    exact and_sub_iff
  | .reduce _ idx e => by
    simp only [readsInS, cfgReadsS, Bool.and_eq_true, cfgInCs_iff F idx, cfgInD_iff F e]
    exact and_sub_iff
  | .writecfg _ _ e isData => by
    cases isData with
    | true => simp only [readsInS, cfgReadsS, if_true]; exact cfgInD_iff F e
    | false =>
      simp only [readsInS, cfgReadsS, Bool.false_eq_true, if_false]; exact cfgInC_iff F e
  | .pass => by simp [readsInS, cfgReadsS]
  | .ite c t e => by
    simp only [readsInS, cfgReadsS, Bool.and_eq_true, cfgInC_iff F c, readsInL_iff F t,
      readsInL_iff F e]
    rw [and_sub_iff, and_sub_iff]
  | .loop _ lo hi b _ => by
    simp only [readsInS, cfgReadsS, Bool.and_eq_true, cfgInC_iff F lo, cfgInC_iff F hi,
      readsInL_iff F b]
    rw [and_sub_iff, and_sub_iff]
  | .alloc _ sh => by simp only [readsInS, cfgReadsS]; exact cfgInCs_iff F sh
  | .free _ => by simp [readsInS, cfgReadsS]
  | .call f args => by
    simp only [readsInS, cfgReadsS, Bool.and_eq_true, readsInP_iff F f,
      cfgInArgs_iff F f.args args]
    exact and_sub_iff
  | .window _ e => by simp only [readsInS, cfgReadsS]; exact cfgInV_iff F e
theorem readsInL_iff (F : Fields) : ∀ (ss : List Stmt),
    readsInL F ss = true ↔ ∀ k, k ∈ cfgReadsL ss → k ∈ F
  | [] => by simp [readsInL, cfgReadsL]
  | s :: r => by
    simp only [readsInL, cfgReadsL, Bool.and_eq_true, readsInS_iff F s, readsInL_iff F r]
    exact and_sub_iff
theorem readsInP_iff (F : Fields) : ∀ (p : Proc),
    readsInP F p = true ↔ ∀ k, k ∈ cfgReadsP p → k ∈ F
  | .mk _ fargs preds body => by
    simp only [readsInP, cfgReadsP, Bool.and_eq_true, cfgInCs_iff F preds,
      cfgInShapes_iff F fargs, readsInL_iff F body]
    rw [and_sub_iff, and_sub_iff]
end

/-- the fields collected by `cfgReadsL` are enough -/
theorem readsInL_cfgReads (ss : List Stmt) : readsInL (cfgReadsL ss) ss = true :=
  (readsInL_iff _ ss).2 (fun _ hk => hk)

/-- `readsInL` is monotone in the set of fields -/
theorem readsInL_mono {F F' : Fields} (hsub : ∀ k, k ∈ F → k ∈ F') (ss : List Stmt)
    (h : readsInL F ss = true) : readsInL F' ss = true :=
  (readsInL_iff F' ss).2 (fun k hk => hsub k ((readsInL_iff F ss).1 h k hk))

/-- a well-formed block never fails on scoping on a state that holds every field the block reads -/
theorem wf_noScope_cfgReads (V : Type) [DataAlg V] (ext : String → List V → V)
    (Γ Γ' : Env) (body : List Stmt) (σ : State V) (hA : Agree Γ σ)
    (hF : CfgHas (cfgReadsL body) σ) (hw : wfL Γ body = some Γ') :
    execB ext body σ ≠ .error .scope :=
  wf_noScope_cfg_core V ext (cfgReadsL body) Γ Γ' body σ hA hF hw (readsInL_cfgReads body)

end Exo.Wf
