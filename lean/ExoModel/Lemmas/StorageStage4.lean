/-
  stage_mem, part 4: the geometry of a window of ANY rank (interval and point coordinates) over a DENSE
  row-major view `vx = {bx, off, denseDims xszs}` (`0 ≤ off`).

  * `WVal` : an evaluated window coordinate (`iv l h` / `pt p`); `WM w wv` : the syntactic window `w`
    and the evaluated window `wv` have the same kinds of coordinates
  * `wShape`, `wLos`, `wIdx`, `wRIdx`, `InW`, `WIn` : extents of the staging buffer, lower ends, the
    staged tuple of a window tuple, the window tuple of a staged tuple, "tuple in the window",
    "window inside the extents"
  * `Cdense off xszs wv` : cell `off + lin xszs is` (`is` in bounds and in the window) ↦ cell
    `lin (wShape wv) (wIdx wv is)` of the staging buffer (well defined: `lin_inj`)
  * `stAcc_dense` : the access hypothesis `StAcc` for this geometry
-/
import ExoModel.Lemmas.StorageStage3
import ExoModel.Lemmas.StorageReindexInst1

set_option linter.unusedSectionVars false
set_option linter.unusedVariables false

namespace Exo.Stg
open Exo Exo.ReidxInst
variable {V : Type}

/-- an evaluated window coordinate -/
inductive WVal where
  | iv (l h : Int)
  | pt (p : Int)

/-- same kinds of coordinates -/
inductive WM : List WAcc → List WVal → Prop where
  | nil : WM [] []
  | iv (lo hi : Expr) (l h : Int) {w : List WAcc} {wv : List WVal} :
      WM w wv → WM (.interval lo hi :: w) (.iv l h :: wv)
  | pt (e : Expr) (p : Int) {w : List WAcc} {wv : List WVal} :
      WM w wv → WM (.point e :: w) (.pt p :: wv)

def wShape : List WVal → List Int
  | .iv l h :: r => (h - l) :: wShape r
  | .pt _ :: r => wShape r
  | [] => []

def wLos : List WVal → List Int
  | .iv l _ :: r => l :: wLos r
  | .pt _ :: r => wLos r
  | [] => []

/-- the tuple lies in the window -/
def InW : List WVal → List Int → Prop
  | [], [] => True
  | .iv l h :: r, i :: is => (l ≤ i ∧ i < h) ∧ InW r is
  | .pt p :: r, i :: is => i = p ∧ InW r is
  | _, _ => False

/-- the staged tuple of a window tuple -/
def wIdx : List WVal → List Int → List Int
  | .iv l _ :: r, i :: is => (i - l) :: wIdx r is
  | .pt _ :: r, _ :: is => wIdx r is
  | _, _ => []

/-- the window tuple of a staged tuple -/
def wRIdx : List WVal → List Int → List Int
  | .iv l _ :: r, j :: js => (j + l) :: wRIdx r js
  | .pt p :: r, js => p :: wRIdx r js
  | _, _ => []

/-- the window lies inside the extents -/
def WIn : List WVal → List Int → Prop
  | [], [] => True
  | .iv l h :: r, e :: es => (0 ≤ l ∧ l ≤ h ∧ h ≤ e) ∧ WIn r es
  | .pt p :: r, e :: es => (0 ≤ p ∧ p < e) ∧ WIn r es
  | _, _ => False

/-! ### window algebra -/

theorem wIdx_inB : ∀ (wv : List WVal) (is : List Int), InW wv is → InB (wShape wv) (wIdx wv is)
  | [], [], _ => trivial
  | .iv l h :: r, i :: is, hw => by
    obtain ⟨⟨h1, h2⟩, h3⟩ := hw
    show (0 ≤ i - l ∧ i - l < h - l) ∧ InB (wShape r) (wIdx r is)
    exact ⟨⟨by omega, by omega⟩, wIdx_inB r is h3⟩
  | .pt p :: r, i :: is, hw => wIdx_inB r is hw.2
  | [], _ :: _, hw => hw.elim
  | .iv _ _ :: _, [], hw => hw.elim
  | .pt _ :: _, [], hw => hw.elim

theorem wRIdx_wIdx : ∀ (wv : List WVal) (is : List Int), InW wv is → wRIdx wv (wIdx wv is) = is
  | [], [], _ => rfl
  | .iv l h :: r, i :: is, hw => by
    show (i - l + l) :: wRIdx r (wIdx r is) = i :: is
    rw [wRIdx_wIdx r is hw.2]
    congr 1
    omega
  | .pt p :: r, i :: is, hw => by
    show p :: wRIdx r (wIdx r is) = i :: is
    rw [wRIdx_wIdx r is hw.2, hw.1]
  | [], _ :: _, hw => hw.elim
  | .iv _ _ :: _, [], hw => hw.elim
  | .pt _ :: _, [], hw => hw.elim

/-- a staged tuple comes from a window tuple that is in bounds -/
theorem wRIdx_spec : ∀ (wv : List WVal) (xszs js : List Int), WIn wv xszs → InB (wShape wv) js →
    InB xszs (wRIdx wv js) ∧ InW wv (wRIdx wv js) ∧ wIdx wv (wRIdx wv js) = js
  | [], [], [], _, _ => ⟨trivial, trivial, rfl⟩
  | [], [], _ :: _, _, hb => hb.elim
  | [], _ :: _, _, hw, _ => hw.elim
  | .iv _ _ :: _, [], _, hw, _ => hw.elim
  | .pt _ :: _, [], _, hw, _ => hw.elim
  | .iv l h :: r, e :: es, [], _, hb => hb.elim
  | .iv l h :: r, e :: es, j :: js, hw, hb => by
    obtain ⟨⟨w1, w2, w3⟩, w4⟩ := hw
    have hb' : (0 ≤ j ∧ j < h - l) ∧ InB (wShape r) js := hb
    obtain ⟨⟨b1, b2⟩, b3⟩ := hb'
    obtain ⟨i1, i2, i3⟩ := wRIdx_spec r es js w4 b3
    refine ⟨?_, ?_, ?_⟩
    · show (0 ≤ j + l ∧ j + l < e) ∧ InB es (wRIdx r js)
      exact ⟨⟨by omega, by omega⟩, i1⟩
    · show (l ≤ j + l ∧ j + l < h) ∧ InW r (wRIdx r js)
      exact ⟨⟨by omega, by omega⟩, i2⟩
    · show (j + l - l) :: wIdx r (wRIdx r js) = j :: js
      rw [i3]
      congr 1
      omega
  | .pt p :: r, e :: es, js, hw, hb => by
    obtain ⟨⟨w1, w2⟩, w4⟩ := hw
    obtain ⟨i1, i2, i3⟩ := wRIdx_spec r es js w4 hb
    refine ⟨?_, ?_, ?_⟩
    · show (0 ≤ p ∧ p < e) ∧ InB es (wRIdx r js)
      exact ⟨⟨w1, w2⟩, i1⟩
    · show p = p ∧ InW r (wRIdx r js)
      exact ⟨rfl, i2⟩
    · show wIdx r (wRIdx r js) = js
      exact i3

/-! ### evaluation of the staged index -/

theorem evalCs_cons {s : State V} {e : Expr} {r : List Expr} {v : Int} {vs : List Int}
    (h1 : evalC s e = .ok v) (h2 : evalCs s r = .ok vs) : evalCs s (e :: r) = .ok (v :: vs) :=
  evalCs_cons_ok.2 ⟨v, vs, h1, h2, rfl⟩

theorem stageIdx_eval {s : State V} {w : List WAcc} {wv : List WVal} (hwm : WM w wv) :
    ∀ (idx : List Expr) (is : List Int), evalCs s (Rw.stageLos w) = .ok (wLos wv) →
    evalCs s idx = .ok is → InW wv is → evalCs s (Rw.stageIdx w idx) = .ok (wIdx wv is) := by
  induction hwm with
  | nil =>
    intro idx is _ _ hw
    cases is with
    | nil => cases idx <;> rfl
    | cons _ _ => exact hw.elim
  | iv lo hi l h _ ih =>
    intro idx is hlos hidx hw
    cases is with
    | nil => exact hw.elim
    | cons i is' =>
      cases idx with
      | nil => cases (evalCs_nil_ok.1 hidx)
      | cons e idx' =>
        obtain ⟨v, vs, hv, hvs, e1⟩ := evalCs_cons_ok.1 hidx
        cases e1
        obtain ⟨v', vs', hv', hvs', e2⟩ := evalCs_cons_ok.1
          (show evalCs s (lo :: Rw.stageLos _) = .ok (l :: wLos _) from hlos)
        cases e2
        show evalCs s (.binop .sub e lo :: Rw.stageIdx _ idx') = .ok ((i - l) :: wIdx _ is')
        exact evalCs_cons (evalC_sub hv hv') (ih idx' is' hvs' hvs hw.2)
  | pt e p _ ih =>
    intro idx is hlos hidx hw
    cases is with
    | nil => exact hw.elim
    | cons i is' =>
      cases idx with
      | nil => cases (evalCs_nil_ok.1 hidx)
      | cons e' idx' =>
        obtain ⟨v, vs, hv, hvs, e1⟩ := evalCs_cons_ok.1 hidx
        cases e1
        exact ih idx' is' hlos hvs hw.2

/-! ### the cell map -/

open Classical in
/-- window cell of the dense view ↦ cell of the staging buffer -/
noncomputable def Cdense (off : Int) (xszs : List Int) (wv : List WVal) : Nat → Option Nat :=
  fun c =>
    if h : ∃ is, InB xszs is ∧ InW wv is ∧ (c : Int) = off + lin xszs is then
      some (lin (wShape wv) (wIdx wv (Classical.choose h))).toNat
    else none

theorem cdense_inv {off : Int} {xszs : List Int} {wv : List WVal} {c c' : Nat}
    (h : Cdense off xszs wv c = some c') :
    ∃ is, InB xszs is ∧ InW wv is ∧ (c : Int) = off + lin xszs is ∧
      c' = (lin (wShape wv) (wIdx wv is)).toNat := by
  unfold Cdense at h
  split at h
  · rename_i hex
    have sp := Classical.choose_spec hex
    exact ⟨Classical.choose hex, sp.1, sp.2.1, sp.2.2, (Option.some.inj h).symm⟩
  · cases h

theorem cdense_some {off : Int} {xszs : List Int} {wv : List WVal} {is : List Int} {c : Nat}
    (hb : InB xszs is) (hw : InW wv is) (hc : (c : Int) = off + lin xszs is) :
    Cdense off xszs wv c = some (lin (wShape wv) (wIdx wv is)).toNat := by
  have hex : ∃ is, InB xszs is ∧ InW wv is ∧ (c : Int) = off + lin xszs is := ⟨is, hb, hw, hc⟩
  unfold Cdense
  rw [dif_pos hex]
  have sp := Classical.choose_spec hex
  have e : Classical.choose hex = is := lin_inj sp.1 hb (by have := sp.2.2; omega)
  rw [e]

/-- **the access geometry of a window of any rank over a dense view** -/
theorem stAcc_dense (V : Type) {w : List WAcc} {wv : List WVal} (hwm : WM w wv) (vx : View)
    (xszs : List Int) (hd : vx.dims = denseDims xszs) (N : Nat) :
    StAcc V w vx { buf := N, off := 0, dims := denseDims (wShape wv) }
      (Cdense vx.off xszs wv) (Rw.stageLos w) (wLos wv) := by
  constructor
  · intro a b c' ha hb
    obtain ⟨isa, a1, a2, a3, a4⟩ := cdense_inv ha
    obtain ⟨isb, b1, b2, b3, b4⟩ := cdense_inv hb
    have la := lin_bounds (wIdx_inB wv isa a2)
    have lb := lin_bounds (wIdx_inB wv isb b2)
    have e : wIdx wv isa = wIdx wv isb :=
      lin_inj (wIdx_inB wv isa a2) (wIdx_inB wv isb b2) (by omega)
    have e2 : isa = isb := by
      rw [← wRIdx_wIdx wv isa a2, ← wRIdx_wIdx wv isb b2, e]
    subst e2
    omega
  · intro s idx is o c' hlos hidx hvo ho0 hC
    rw [hd] at hvo
    obtain ⟨hb, ho⟩ := (dense_offset _ _ _ _).1 hvo
    obtain ⟨is', b1, b2, b3, b4⟩ := cdense_inv hC
    have e : is' = is := lin_inj b1 hb (by omega)
    subst e
    refine ⟨wIdx wv is', stageIdx_eval hwm idx is' hlos hidx b2, ?_⟩
    show viewOffset (denseDims (wShape wv)) (wIdx wv is') 0 = _
    have lb := lin_bounds (wIdx_inB wv is' b2)
    exact (dense_offset _ _ _ _).2 ⟨wIdx_inB wv is' b2, by omega⟩

end Exo.Stg
