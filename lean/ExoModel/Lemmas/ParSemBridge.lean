/-
  C09 on the LoopIR semantics, part 3: the bridge to the event model of ExoModel/Par.lean.
  The events `Fp.Ev` that the reference semantics produces for one iteration are mapped to
  `Par.Event`s over the cells `heap cell ⊕ configuration field`; memory maps heap cells to
  `Option V` and fields to `Option (CfgVal V)`.  The values written / added are the ones the
  Sem run computed (constant functions): by footprint determinacy an iteration computes exactly
  these values from every state that agrees with the loop-entry state on what it reads, which
  is the case in every interleaving when the iterations are disjoint.
  (Namespace `Exo.Ctx3`.)
-/
import ExoModel.Par
import ExoModel.Lemmas.ParSemRun

set_option linter.unusedSectionVars false
namespace Exo.Ctx3
open Exo Exo.Fp
variable {V : Type} [DataAlg V]

/-- cells of the event model -/
abbrev PCell := Cell ⊕ Key

/-- values of the event model: contents of a heap cell / of a configuration field -/
inductive PVal (V : Type) where
  | d (v : Option V)
  | c (v : Option (CfgVal V))

instance : Add (PVal V) :=
  ⟨fun a b => match a, b with
    | .d x, .d y => .d (lift2 DataAlg.add x y)
    | a, _ => a⟩

/-- one Sem event as an atomic event of the parallel model -/
def toPar : Ev V → Par.Event PCell (PVal V)
  | .rd c => .read (.inl c)
  | .wr c v => .write (.inl c) (fun _ => .d v)
  | .red c v => .reduce (.inl c) (fun _ => .d v)
  | .crd k => .read (.inr k)
  | .cwr k v => .write (.inr k) (fun _ => .c (some v))

/-- the memory of the event model that corresponds to heap contents `g` and configuration `cfg` -/
def memOf (g : Cell → Option V) (cfg : List (Key × CfgVal V)) : Par.Mem PCell (PVal V)
  | .inl c => .d (g c)
  | .inr k => .c (lookupCfg k cfg)

/-- running the mapped events of one iteration alone = replaying the Sem events -/
theorem solo_toPar : ∀ (t : List (Ev V)) (g : Cell → Option V) (cfg : List (Key × CfgVal V))
    (l : List (PVal V)),
    Par.solo (memOf g cfg) l (t.map toPar) = memOf (fun c => cellEff t c (g c)) (cfgEff t cfg)
  | [], _, _, _ => rfl
  | e :: r, g, cfg, l => by
    simp only [List.map_cons, Par.solo, cellEff_cons, cfgEff_cons]
    cases e with
    | rd c => exact solo_toPar r g cfg _
    | crd k => exact solo_toPar r g cfg _
    | wr c v =>
      have : (Par.stepEv (memOf g cfg) l (toPar (.wr c v))).1
          = memOf (fun c' => actOn c' (g c') (.wr c v)) (cfgAct cfg (.wr c v)) := by
        funext x
        cases x with
        | inl c' =>
          simp only [toPar, Par.stepEv, Par.upd, memOf, actOn, cfgAct, Sum.inl.injEq]
          by_cases h : c' = c
          · subst h; simp
          · have h' : ¬ c = c' := fun e => h e.symm
            simp [h, h']
        | inr k => simp [toPar, Par.stepEv, Par.upd, memOf, cfgAct]
      rw [this]
      exact solo_toPar r _ _ _
    | red c v =>
      have : (Par.stepEv (memOf g cfg) l (toPar (.red c v))).1
          = memOf (fun c' => actOn c' (g c') (.red c v)) (cfgAct cfg (.red c v)) := by
        funext x
        cases x with
        | inl c' =>
          simp only [toPar, Par.stepEv, Par.upd, memOf, actOn, cfgAct, Sum.inl.injEq]
          by_cases h : c' = c
          · subst h; simp [HAdd.hAdd, Add.add]
          · have h' : ¬ c = c' := fun e => h e.symm
            simp [h, h']
        | inr k => simp [toPar, Par.stepEv, Par.upd, memOf, cfgAct]
      rw [this]
      exact solo_toPar r _ _ _
    | cwr k v =>
      have : (Par.stepEv (memOf g cfg) l (toPar (.cwr k v))).1
          = memOf (fun c' => actOn c' (g c') (.cwr k v)) (cfgAct cfg (.cwr k v)) := by
        funext x
        cases x with
        | inl c' => simp [toPar, Par.stepEv, Par.upd, memOf, actOn]
        | inr k' =>
          simp only [toPar, Par.stepEv, Par.upd, memOf, cfgAct, lookupCfg_setCfg, Sum.inr.injEq]
          split <;> rfl
      rw [this]
      exact solo_toPar r _ _ _

/-- the threads of the event model: one per iteration of `L`, with the visible events of its
    Sem run from the loop-entry state (`T v`), no private values yet -/
def threadsOf (T : Int → List (Ev V)) (N : Nat) (L : List Int) :
    List (Par.Thread PCell (PVal V)) :=
  L.map (fun v => ⟨[], (visible N (T v)).map toPar⟩)

/-- heap contents / configuration after the iterations of `L`, one after the other, each
    replaying the events of its run from loop entry -/
def foldC (T : Int → List (Ev V)) (N : Nat) (c : Cell) : List Int → Option V → Option V
  | [], x => x
  | v :: r, x => foldC T N c r (cellEff (visible N (T v)) c x)

def foldK (T : Int → List (Ev V)) (N : Nat) : List Int → List (Key × CfgVal V) → List (Key × CfgVal V)
  | [], cfg => cfg
  | v :: r, cfg => foldK T N r (cfgEff (visible N (T v)) cfg)

theorem seqRun_threadsOf (T : Int → List (Ev V)) (N : Nat) : ∀ (L : List Int) (g : Cell → Option V)
    (cfg : List (Key × CfgVal V)),
    Par.seqRun (memOf g cfg) (threadsOf T N L) = memOf (fun c => foldC T N c L (g c)) (foldK T N L cfg)
  | [], _, _ => rfl
  | v :: r, g, cfg => by
    simp only [threadsOf, List.map_cons, Par.seqRun, solo_toPar]
    exact seqRun_threadsOf T N r _ _

/-! ### events on private cells do not matter for visible cells -/

theorem cellEff_visible (N : Nat) (c : Cell) (hc : c.1 < N) : ∀ (t : List (Ev V)) (x : Option V),
    cellEff (visible N t) c x = cellEff t c x
  | [], _ => rfl
  | e :: r, x => by
    by_cases hv : Ev.vis N e = true
    · have : visible N (e :: r) = e :: visible N r := by simp [visible, List.filter_cons, hv]
      rw [this, cellEff_cons, cellEff_cons]
      exact cellEff_visible N c hc r _
    · have : visible N (e :: r) = visible N r := by simp [visible, List.filter_cons, hv]
      rw [this, cellEff_cons, cellEff_visible N c hc r x]
      congr 1
      cases e with
      | rd _ => rfl
      | crd _ => simp [Ev.vis] at hv
      | cwr _ _ => simp [Ev.vis] at hv
      | wr c' v =>
        simp only [Ev.vis, decide_eq_true_eq] at hv
        have : c' ≠ c := fun e => hv (e ▸ hc)
        simp [actOn, this]
      | red c' v =>
        simp only [Ev.vis, decide_eq_true_eq] at hv
        have : c' ≠ c := fun e => hv (e ▸ hc)
        simp [actOn, this]

theorem cfgEff_visible (N : Nat) : ∀ (t : List (Ev V)) (cfg : List (Key × CfgVal V)),
    cfgEff (visible N t) cfg = cfgEff t cfg
  | [], _ => rfl
  | e :: r, cfg => by
    by_cases hv : Ev.vis N e = true
    · have : visible N (e :: r) = e :: visible N r := by simp [visible, List.filter_cons, hv]
      rw [this, cfgEff_cons, cfgEff_cons]
      exact cfgEff_visible N r _
    · have : visible N (e :: r) = visible N r := by simp [visible, List.filter_cons, hv]
      rw [this, cfgEff_cons, cfgEff_visible N r cfg]
      congr 1
      cases e with
      | rd _ => rfl
      | wr _ _ => rfl
      | red _ _ => rfl
      | crd _ => simp [Ev.vis] at hv
      | cwr _ _ => simp [Ev.vis] at hv

/-! ### what the sequential replay leaves in a cell / a field -/

theorem foldC_untouched (T : Int → List (Ev V)) (N : Nat) (c : Cell) (hc : c.1 < N) :
    ∀ (L : List Int) (x : Option V), (∀ v ∈ L, ¬ ModC (T v) c) → foldC T N c L x = x
  | [], _, _ => rfl
  | v :: r, x, h => by
    have hv := h v List.mem_cons_self
    simp only [foldC]
    rw [cellEff_visible N c hc, cellEff_untouched c _ _ (fun w => hv (Or.inl w)) (fun w => hv (Or.inr w))]
    exact foldC_untouched T N c hc r x (fun w hw => h w (List.mem_cons_of_mem _ hw))

theorem foldC_modifier (T : Int → List (Ev V)) (N : Nat) (c : Cell) (hc : c.1 < N) :
    ∀ (L : List Int) (x : Option V) (v : Int), v ∈ L → L.Nodup →
      (∀ a b, a ∈ L → b ∈ L → a ≠ b → Dis N (T a) (T b)) → ModC (T v) c →
      foldC T N c L x = cellEff (T v) c x
  | [], _, _, hv, _, _, _ => by cases hv
  | w :: r, x, v, hv, hn, hd, hm => by
    rw [List.nodup_cons] at hn
    simp only [foldC]
    rw [cellEff_visible N c hc]
    rcases List.mem_cons.1 hv with rfl | hvr
    · exact foldC_untouched T N c hc r _ (fun u hu hmu =>
        (hd v u List.mem_cons_self (List.mem_cons_of_mem _ hu) (fun e => hn.1 (e ▸ hu))).cells c hc hm
          hmu.allC)
    · have hne : v ≠ w := fun e => hn.1 (e ▸ hvr)
      have hnw : ¬ AllC (T w) c := (hd v w hv List.mem_cons_self hne).cells c hc hm
      rw [cellEff_untouched c _ _ (fun u => hnw (Or.inr (Or.inl u))) (fun u => hnw (Or.inr (Or.inr u)))]
      exact foldC_modifier T N c hc r x v hvr hn.2
        (fun a b ha hb => hd a b (List.mem_cons_of_mem _ ha) (List.mem_cons_of_mem _ hb)) hm

theorem foldK_untouched (T : Int → List (Ev V)) (N : Nat) (k : Key) :
    ∀ (L : List Int) (cfg : List (Key × CfgVal V)), (∀ v ∈ L, k ∉ cfgWrites (T v)) →
      lookupCfg k (foldK T N L cfg) = lookupCfg k cfg
  | [], _, _ => rfl
  | v :: r, cfg, h => by
    simp only [foldK]
    rw [foldK_untouched T N k r _ (fun w hw => h w (List.mem_cons_of_mem _ hw)), cfgEff_visible,
      lookup_cfgEff_untouched k _ _ (h v List.mem_cons_self)]

theorem foldK_writer (T : Int → List (Ev V)) (N : Nat) (k : Key) :
    ∀ (L : List Int) (cfg : List (Key × CfgVal V)) (v : Int), v ∈ L → L.Nodup →
      (∀ a b, a ∈ L → b ∈ L → a ≠ b → Dis N (T a) (T b)) → k ∈ cfgWrites (T v) →
      lookupCfg k (foldK T N L cfg) = lookupCfg k (cfgEff (T v) cfg)
  | [], _, _, hv, _, _, _ => by cases hv
  | w :: r, cfg, v, hv, hn, hd, hk => by
    rw [List.nodup_cons] at hn
    simp only [foldK]
    rw [cfgEff_visible]
    rcases List.mem_cons.1 hv with rfl | hvr
    · exact foldK_untouched T N k r _ (fun u hu hku =>
        (hd v u List.mem_cons_self (List.mem_cons_of_mem _ hu) (fun e => hn.1 (e ▸ hu))).keys k hk
          (Or.inr hku))
    · have hne : v ≠ w := fun e => hn.1 (e ▸ hvr)
      have hnw : ¬ AllK (T w) k := (hd v w hv List.mem_cons_self hne).keys k hk
      rw [foldK_writer T N k r _ v hvr hn.2
        (fun a b ha hb => hd a b (List.mem_cons_of_mem _ ha) (List.mem_cons_of_mem _ hb)) hk]
      exact lookup_cfgEff_congr k _ _ _ (lookup_cfgEff_untouched k _ _ (fun u => hnw (Or.inr u)))

/-! ### `Par.RaceFree` of the Sem-derived threads is `Disjoint_Memory` of the footprints -/

omit [DataAlg V] in
theorem mem_wr_toPar : ∀ (t : List (Ev V)) (x : PCell), x ∈ Par.wr (t.map toPar) →
    (∃ c, x = .inl c ∧ ModC t c) ∨ (∃ k, x = .inr k ∧ k ∈ cfgWrites t)
  | [], _, h => by cases h
  | e :: r, x, h => by
    have up : ((∃ c, x = .inl c ∧ ModC r c) ∨ (∃ k, x = .inr k ∧ k ∈ cfgWrites r)) →
        (∃ c, x = .inl c ∧ ModC (e :: r) c) ∨ (∃ k, x = .inr k ∧ k ∈ cfgWrites (e :: r)) := by
      rintro (⟨c, rfl, hm⟩ | ⟨k, rfl, hk⟩)
      · refine Or.inl ⟨c, rfl, ?_⟩
        rcases hm with hm | hm
        · obtain ⟨v, hv⟩ := mem_writes.1 hm
          exact Or.inl (mem_writes.2 ⟨v, List.mem_cons_of_mem _ hv⟩)
        · obtain ⟨v, hv⟩ := mem_reduces.1 hm
          exact Or.inr (mem_reduces.2 ⟨v, List.mem_cons_of_mem _ hv⟩)
      · obtain ⟨v, hv⟩ := mem_cfgWrites.1 hk
        exact Or.inr ⟨k, rfl, mem_cfgWrites.2 ⟨v, List.mem_cons_of_mem _ hv⟩⟩
    cases e with
    | rd c => exact up (mem_wr_toPar r x (by simpa [toPar, Par.wr] using h))
    | crd k => exact up (mem_wr_toPar r x (by simpa [toPar, Par.wr] using h))
    | wr c v =>
      simp only [List.map_cons, toPar, Par.wr, List.mem_cons] at h
      rcases h with rfl | h
      · exact Or.inl ⟨c, rfl, Or.inl (mem_writes.2 ⟨v, List.mem_cons_self⟩)⟩
      · exact up (mem_wr_toPar r x h)
    | red c v =>
      simp only [List.map_cons, toPar, Par.wr, List.mem_cons] at h
      rcases h with rfl | h
      · exact Or.inl ⟨c, rfl, Or.inr (mem_reduces.2 ⟨v, List.mem_cons_self⟩)⟩
      · exact up (mem_wr_toPar r x h)
    | cwr k v =>
      simp only [List.map_cons, toPar, Par.wr, List.mem_cons] at h
      rcases h with rfl | h
      · exact Or.inr ⟨k, rfl, mem_cfgWrites.2 ⟨v, List.mem_cons_self⟩⟩
      · exact up (mem_wr_toPar r x h)

omit [DataAlg V] in
theorem mem_acc_toPar (t : List (Ev V)) (x : PCell) (h : x ∈ Par.acc (t.map toPar)) :
    (∃ c, x = .inl c ∧ AllC t c) ∨ (∃ k, x = .inr k ∧ AllK t k) := by
  unfold Par.acc at h
  rw [List.map_map] at h
  obtain ⟨e, he, rfl⟩ := List.mem_map.1 h
  cases e with
  | rd c => exact Or.inl ⟨c, rfl, Or.inl (mem_reads.2 he)⟩
  | wr c v => exact Or.inl ⟨c, rfl, Or.inr (Or.inl (mem_writes.2 ⟨v, he⟩))⟩
  | red c v => exact Or.inl ⟨c, rfl, Or.inr (Or.inr (mem_reduces.2 ⟨v, he⟩))⟩
  | crd k => exact Or.inr ⟨k, rfl, Or.inl (mem_cfgReads.2 he)⟩
  | cwr k v => exact Or.inr ⟨k, rfl, Or.inr (mem_cfgWrites.2 ⟨v, he⟩)⟩

omit [DataAlg V] in
theorem modC_visible {N : Nat} {t : List (Ev V)} {c : Cell} (h : ModC (visible N t) c) :
    c.1 < N ∧ ModC t c := by
  rcases h with h | h
  · obtain ⟨v, hv⟩ := mem_writes.1 h
    obtain ⟨h1, h2⟩ := mem_visible.1 hv
    exact ⟨by simpa [Ev.vis] using h2, Or.inl (mem_writes.2 ⟨v, h1⟩)⟩
  · obtain ⟨v, hv⟩ := mem_reduces.1 h
    obtain ⟨h1, h2⟩ := mem_visible.1 hv
    exact ⟨by simpa [Ev.vis] using h2, Or.inr (mem_reduces.2 ⟨v, h1⟩)⟩

omit [DataAlg V] in
theorem allC_visible {N : Nat} {t : List (Ev V)} {c : Cell} (h : AllC (visible N t) c) : AllC t c := by
  rcases h with h | h | h
  · exact Or.inl (mem_reads.2 (mem_visible.1 (mem_reads.1 h)).1)
  · obtain ⟨v, hv⟩ := mem_writes.1 h
    exact Or.inr (Or.inl (mem_writes.2 ⟨v, (mem_visible.1 hv).1⟩))
  · obtain ⟨v, hv⟩ := mem_reduces.1 h
    exact Or.inr (Or.inr (mem_reduces.2 ⟨v, (mem_visible.1 hv).1⟩))

omit [DataAlg V] in
theorem allK_visible {N : Nat} {t : List (Ev V)} {k : Key} (h : AllK (visible N t) k) : AllK t k := by
  rcases h with h | h
  · exact Or.inl (vis_cfgReads.1 h)
  · exact Or.inr (vis_cfgWrites.1 h)

omit [DataAlg V] in
/-- the threads derived from pairwise disjoint footprints satisfy the hypothesis of
    `Par.C09.interleaving_eq_sequential` -/
theorem raceFree_threadsOf (T : Int → List (Ev V)) (N : Nat) (L : List Int) (hn : L.Nodup)
    (hd : ∀ a b, a ∈ L → b ∈ L → a ≠ b → Dis N (T a) (T b)) : Par.RaceFree (threadsOf T N L) := by
  intro i j hi hj hij x hx hacc
  have hiL : i < L.length := by simpa [threadsOf] using hi
  have hjL : j < L.length := by simpa [threadsOf] using hj
  have ei : (threadsOf T N L)[i].evs = (visible N (T L[i])).map toPar := by simp [threadsOf]
  have ej : (threadsOf T N L)[j].evs = (visible N (T L[j])).map toPar := by simp [threadsOf]
  rw [ei] at hx
  rw [ej] at hacc
  have hne : L[i] ≠ L[j] := by
    have hp := List.pairwise_iff_getElem.1 hn
    rcases Nat.lt_or_gt_of_ne hij with h | h
    · exact hp i j hiL hjL h
    · exact fun e => hp j i hjL hiL h e.symm
  have D := hd L[i] L[j] (List.getElem_mem hiL) (List.getElem_mem hjL) hne
  rcases mem_wr_toPar _ x hx with ⟨c, rfl, hm⟩ | ⟨k, rfl, hk⟩
  · obtain ⟨hc, hm'⟩ := modC_visible hm
    rcases mem_acc_toPar _ _ hacc with ⟨c', e, ha⟩ | ⟨k, e, _⟩
    · cases e
      exact D.cells c hc hm' (allC_visible ha)
    · cases e
  · rcases mem_acc_toPar _ _ hacc with ⟨c', e, _⟩ | ⟨k', e, ha⟩
    · cases e
    · cases e
      exact D.keys k (vis_cfgWrites.1 hk) (allK_visible ha)

/-! ### executable form of the hypothesis -/

/-- `Dis`, decidable -/
def disB (N : Nat) (ta tb : List (Ev V)) : Bool :=
  ((writes ta ++ reduces ta).all
    (fun c => decide (N ≤ c.1) || !(reads tb ++ writes tb ++ reduces tb).contains c)) &&
  (cfgWrites ta).all (fun k => !(cfgReads tb ++ cfgWrites tb).contains k)

omit [DataAlg V] in
theorem dis_of_disB {N : Nat} {ta tb : List (Ev V)} (h : disB N ta tb = true) : Dis N ta tb := by
  unfold disB at h
  simp only [Bool.and_eq_true, List.all_eq_true, Bool.or_eq_true, decide_eq_true_eq,
    Bool.not_eq_true', List.mem_append] at h
  refine ⟨fun c hc hm ha => ?_, fun k hk ha => ?_⟩
  · have := h.1 c hm
    rcases this with h1 | h1
    · omega
    · simp only [List.contains_eq_mem, List.mem_append, decide_eq_false_iff_not, not_or] at h1
      rcases ha with ha | ha | ha
      · exact h1.1.1 ha
      · exact h1.1.2 ha
      · exact h1.2 ha
  · have := h.2 k hk
    simp only [List.contains_eq_mem, List.mem_append, decide_eq_false_iff_not, not_or] at this
    rcases ha with ha | ha
    · exact this.1 ha
    · exact this.2 ha

end Exo.Ctx3
