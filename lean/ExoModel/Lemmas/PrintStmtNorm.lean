/-
  Lemmas for the statement-level round trip, part 4: without negative literals the
  normalisation `normS` is the identity.
-/
import ExoModel.Lemmas.PrintStmtProc

namespace Exo.PrintStmt
open Exo Exo.Print

def noNegAcc : WAcc → Bool
  | .pt e => noNegX e
  | .iv lo hi => noNegX lo && noNegX hi

def noNegAccs : List WAcc → Bool
  | [] => true
  | a :: as => noNegAcc a && noNegAccs as

def noNegArg : PArg → Bool
  | .e e => noNegX e
  | .win _ accs => noNegAccs accs

def noNegArgs : List PArg → Bool
  | [] => true
  | a :: as => noNegArg a && noNegArgs as

mutual
def noNegStmt : PStmt → Bool
  | .pass => true
  | .assign _ idx rhs => noNegXL idx && noNegX rhs
  | .reduce _ idx rhs => noNegXL idx && noNegX rhs
  | .writeCfg _ _ rhs => noNegX rhs
  | .alloc _ _ shape _ => noNegXL shape
  | .window _ _ accs => noNegAccs accs
  | .loop _ _ lo hi body => noNegX lo && noNegX hi && noNegS body
  | .ite c body orelse => noNegX c && noNegS body && noNegS orelse
  | .call _ args => noNegArgs args
def noNegS : List PStmt → Bool
  | [] => true
  | s :: ss => noNegStmt s && noNegS ss
end

theorem normAcc_id (a : WAcc) (h : noNegAcc a = true) : normAcc a = a := by
  cases a with
  | pt e => simp only [noNegAcc] at h; simp [normAcc, normX_id e h]
  | iv lo hi =>
    simp only [noNegAcc, Bool.and_eq_true] at h
    simp [normAcc, normX_id lo h.1, normX_id hi h.2]

theorem normAccs_id : ∀ as : List WAcc, noNegAccs as = true → normAccs as = as
  | [], _ => rfl
  | a :: as, h => by
    simp only [noNegAccs, Bool.and_eq_true] at h
    simp [normAccs, normAcc_id a h.1, normAccs_id as h.2]

theorem normArg_id (a : PArg) (h : noNegArg a = true) : normArg a = a := by
  cases a with
  | e e => simp only [noNegArg] at h; simp [normArg, normX_id e h]
  | win x accs => simp only [noNegArg] at h; simp [normArg, normAccs_id accs h]

theorem normArgs_id : ∀ as : List PArg, noNegArgs as = true → normArgs as = as
  | [], _ => rfl
  | a :: as, h => by
    simp only [noNegArgs, Bool.and_eq_true] at h
    simp [normArgs, normArg_id a h.1, normArgs_id as h.2]

mutual
theorem normStmt_id : ∀ s : PStmt, noNegStmt s = true → normStmt s = s
  | .pass, _ => rfl
  | .assign x idx rhs, h => by
    simp only [noNegStmt, Bool.and_eq_true] at h
    simp [normStmt, normXL_id idx h.1, normX_id rhs h.2]
  | .reduce x idx rhs, h => by
    simp only [noNegStmt, Bool.and_eq_true] at h
    simp [normStmt, normXL_id idx h.1, normX_id rhs h.2]
  | .writeCfg c f rhs, h => by
    simp only [noNegStmt] at h
    simp [normStmt, normX_id rhs h]
  | .alloc x ty shape mem, h => by
    simp only [noNegStmt] at h
    simp [normStmt, normXL_id shape h]
  | .window w x accs, h => by
    simp only [noNegStmt] at h
    simp [normStmt, normAccs_id accs h]
  | .loop par i lo hi body, h => by
    simp only [noNegStmt, Bool.and_eq_true] at h
    simp [normStmt, normX_id lo h.1.1, normX_id hi h.1.2, normS_id body h.2]
  | .ite c body orelse, h => by
    simp only [noNegStmt, Bool.and_eq_true] at h
    simp [normStmt, normX_id c h.1.1, normS_id body h.1.2, normS_id orelse h.2]
  | .call f args, h => by
    simp only [noNegStmt] at h
    simp [normStmt, normArgs_id args h]
theorem normS_id : ∀ ss : List PStmt, noNegS ss = true → normS ss = ss
  | [], _ => rfl
  | s :: ss, h => by
    simp only [noNegS, Bool.and_eq_true] at h
    simp [normS, normStmt_id s h.1, normS_id ss h.2]
end

end Exo.PrintStmt
