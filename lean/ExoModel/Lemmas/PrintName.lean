/-
  Lemmas about the `PrintEnv` model of `ExoModel.Print`: the generated names `nm_k` determine
  `nm` and `k`, the `while` loop of `get_name` finds a free candidate, the invariant kept by
  `get_name`/`push`/`pop`, and what it gives for injectivity.
-/
import ExoModel.Print
import Std.Data.String.ToNat

namespace Exo.Print
open Exo

/-! ### `f"{nm}_{k}"` determines `nm` and `k` -/

theorem split_underscore {a b d₁ d₂ : List Char} (h₁ : '_' ∉ d₁) (h₂ : '_' ∉ d₂)
    (h : a ++ '_' :: d₁ = b ++ '_' :: d₂) : a = b ∧ d₁ = d₂ := by
  induction a generalizing b with
  | nil =>
    cases b with
    | nil => simpa using h
    | cons c b =>
      simp only [List.nil_append, List.cons_append, List.cons.injEq] at h
      exact absurd (h.2 ▸ (by simp : '_' ∈ b ++ '_' :: d₂)) h₁
  | cons c a ih =>
    cases b with
    | nil =>
      simp only [List.nil_append, List.cons_append, List.cons.injEq] at h
      exact absurd (h.2 ▸ (by simp : '_' ∈ a ++ '_' :: d₁)) h₂
    | cons c' b =>
      simp only [List.cons_append, List.cons.injEq] at h
      obtain ⟨rfl, h⟩ := h
      obtain ⟨rfl, rfl⟩ := ih h
      exact ⟨rfl, rfl⟩

theorem candName_toList (nm : String) (k : Nat) :
    (candName nm k).toList = nm.toList ++ '_' :: Nat.toDigits 10 k := by
  have : toString k = Nat.repr k := rfl
  simp [candName, this, String.toList_append, Nat.toList_repr]

/-- the generated name determines both the base name and the counter -/
theorem candName_inj {a b : String} {j k : Nat} (h : candName a j = candName b k) :
    a = b ∧ j = k := by
  have h' := congrArg String.toList h
  rw [candName_toList, candName_toList] at h'
  obtain ⟨hab, hd⟩ := split_underscore (by simp) (by simp) h'
  refine ⟨String.toList_inj.mp hab, ?_⟩
  apply Nat.repr_injective
  apply String.toList_inj.mp
  simpa [Nat.toList_repr] using hd

/-! ### chain lookups are lookups in the concatenation -/

theorem findSome_lookup {α β} [BEq α] (E : List Frame) (g : Frame → List (α × β)) (k : α) :
    E.findSome? (fun f => (g f).lookup k) = (E.flatMap g).lookup k := by
  induction E with
  | nil => rfl
  | cons f rest ih =>
    simp only [List.findSome?_cons, List.flatMap_cons, List.lookup_append]
    cases h : (g f).lookup k <;> simp [ih]

theorem envGet_flat (E : PEnv) (s : Sym) : envGet E s = (flatEnv E).lookup s :=
  findSome_lookup E (·.env) s

theorem namesGet_flat (E : PEnv) (k : String) : namesGet E k = (flatNames E).lookup k :=
  findSome_lookup E (·.names) k

theorem lookup_isSome_mem {β} (L : List (String × β)) (k : String) :
    (L.lookup k).isSome = true → k ∈ L.map (·.1) := by
  induction L with
  | nil => simp
  | cons p L ih =>
    obtain ⟨a, b⟩ := p
    simp only [List.lookup_cons, List.map_cons, List.mem_cons]
    by_cases h : k = a
    · intro _; exact Or.inl h
    · have : (k == a) = false := by simpa using h
      simp only [this]
      intro hh; exact Or.inr (ih hh)

theorem lookup_some_mem {α β} [BEq α] [LawfulBEq α] (L : List (α × β)) (k : α) (v : β) :
    L.lookup k = some v → (k, v) ∈ L := by
  induction L with
  | nil => simp
  | cons p L ih =>
    obtain ⟨a, b⟩ := p
    simp only [List.lookup_cons, List.mem_cons, Prod.mk.injEq]
    by_cases h : k = a
    · subst h; simp only [beq_self_eq_true]; intro e; left; exact ⟨trivial, (Option.some.inj e).symm⟩
    · have : (k == a) = false := by simpa using h
      simp only [this]
      intro hh; exact Or.inr (ih hh)

theorem namesHas_mem (E : PEnv) (k : String) (h : namesHas E k = true) :
    k ∈ (flatNames E).map (·.1) := by
  unfold namesHas at h
  rw [namesGet_flat] at h
  exact lookup_isSome_mem _ _ h

theorem valuesHas_iff (E : PEnv) (r : String) :
    valuesHas E r = true ↔ ∃ s, (s, r) ∈ flatEnv E := by
  simp only [valuesHas, List.any_eq_true, beq_iff_eq]
  constructor
  · rintro ⟨⟨s, r'⟩, hm, rfl⟩; exact ⟨s, hm⟩
  · rintro ⟨s, hm⟩; exact ⟨(s, r), hm, rfl⟩

/-! ### the `while` loop finds a free candidate (pigeonhole) -/

theorem findNum_ge (has : String → Bool) (nm : String) (fuel num : Nat) :
    num ≤ findNum has nm fuel num := by
  induction fuel generalizing num with
  | zero => simp [findNum]
  | succ f ih =>
    simp only [findNum]
    split
    · exact Nat.le_trans (Nat.le_succ _) (ih (num + 1))
    · exact Nat.le_refl _

theorem findNum_free (has : String → Bool) (nm : String) (fuel num : Nat) (K : List String)
    (hK : ∀ j, num ≤ j → has (candName nm j) = true → candName nm j ∈ K)
    (hlen : K.length < fuel) :
    has (candName nm (findNum has nm fuel num)) = false := by
  induction fuel generalizing num K with
  | zero => omega
  | succ f ih =>
    simp only [findNum]
    by_cases h : has (candName nm num) = true
    · simp only [h, if_true]
      have hmem := hK num (Nat.le_refl _) h
      apply ih (num + 1) (K.erase (candName nm num))
      · intro j hj hh
        have := hK j (by omega) hh
        rw [List.mem_erase_of_ne]
        · exact this
        · intro e
          have := (candName_inj e).2
          omega
      · rw [List.length_erase_of_mem hmem]
        have : 0 < K.length := List.length_pos_of_mem hmem
        omega
    · simp only [h]
      simpa using h

/-! ### structure of a binding step -/

theorem flatEnv_writeFront (E : PEnv) (s r k n) :
    flatEnv (writeFront E s r k n) = (s, r) :: flatEnv E := by
  cases E <;> simp [writeFront, flatEnv]

theorem flatNames_writeFront (E : PEnv) (s r k n) :
    flatNames (writeFront E s r k n) = (k, n) :: flatNames E := by
  cases E <;> simp [writeFront, flatNames]

/-- the counter `names.get(nm, 1)` -/
def cnt (E : PEnv) (nm : String) : Nat := (namesGet E nm).getD 1

theorem cnt_writeFront (E : PEnv) (s r k n nm) :
    cnt (writeFront E s r k n) nm = if nm = k then n else cnt E nm := by
  simp only [cnt, namesGet_flat, flatNames_writeFront, List.lookup_cons]
  by_cases h : nm = k
  · simp [h]
  · have : (nm == k) = false := by simpa using h
    simp [this, h]

theorem namesHas_writeFront (E : PEnv) (s r k n nm) :
    namesHas (writeFront E s r k n) nm = (nm == k || namesHas E nm) := by
  simp only [namesHas, namesGet_flat, flatNames_writeFront, List.lookup_cons]
  by_cases h : nm = k
  · simp [h]
  · have : (nm == k) = false := by simpa using h
    simp [this]

/-- what a binding step returns: the printed name `r`, the counter `n` written for `s.name` -/
structure BindSpec (has : String → Bool) (E : PEnv) (s : Sym) (r : String) (E' : PEnv) : Prop where
  free : has r = false
  shape : (r = s.name ∧ has s.name = false) ∨
          (has s.name = true ∧ ∃ j, cnt E s.name ≤ j ∧ r = candName s.name j ∧
            E' = writeFront E s r s.name (j + 1))
  write : ∃ n, cnt E s.name ≤ n ∧ E' = writeFront E s r s.name n ∧
          (r = s.name ∨ ∃ j, j < n ∧ r = candName s.name j)

theorem bindWith_spec (has : String → Bool) (fuel : Nat) (E : PEnv) (s : Sym) (K : List String)
    (hK : ∀ c, has c = true → c ∈ K) (hlen : K.length < fuel) :
    BindSpec has E s (bindWith has fuel E s).1 (bindWith has fuel E s).2 := by
  unfold bindWith
  by_cases h : has s.name = true
  · simp only [h, if_true]
    have hfree := findNum_free has s.name fuel ((namesGet E s.name).getD 1) K
      (fun j _ hh => hK _ hh) hlen
    have hge := findNum_ge has s.name fuel ((namesGet E s.name).getD 1)
    refine ⟨hfree, Or.inr ⟨h, _, hge, rfl, rfl⟩, _, ?_, rfl, Or.inr ⟨_, Nat.lt_succ_self _, rfl⟩⟩
    exact Nat.le_succ_of_le hge
  · have h' : has s.name = false := by simpa using h
    simp only [h', Bool.false_eq_true, if_false]
    exact ⟨h', Or.inl ⟨rfl, h'⟩, _, Nat.le_refl _, rfl, Or.inl rfl⟩

/-- `get_name` either returns the resolved name unchanged or performs a binding step -/
theorem getName_cases (E : PEnv) (s : Sym) :
    (∃ r, (s, r) ∈ flatEnv E ∧ getName E s = (r, E)) ∨
    BindSpec (namesHas E) E s (getName E s).1 (getName E s).2 := by
  have hb := bindWith_spec (namesHas E) ((flatNames E).length + 1) E s ((flatNames E).map (·.1))
    (fun c hc => namesHas_mem E c hc) (by simp)
  unfold getName
  cases h : envGet E s with
  | none => exact Or.inr hb
  | some r =>
    by_cases he : r.isEmpty = true
    · simp only [he, if_true]; exact Or.inr hb
    · simp only [he]
      refine Or.inl ⟨r, ?_, rfl⟩
      rw [envGet_flat] at h
      exact lookup_some_mem _ _ _ h

theorem getNameFixed_cases (E : PEnv) (s : Sym) :
    (∃ r, (s, r) ∈ flatEnv E ∧ getNameFixed E s = (r, E)) ∨
    BindSpec (fun c => namesHas E c || valuesHas E c) E s (getNameFixed E s).1 (getNameFixed E s).2 := by
  have hb := bindWith_spec (fun c => namesHas E c || valuesHas E c)
    ((flatNames E).length + (flatEnv E).length + 1) E s
    ((flatNames E).map (·.1) ++ (flatEnv E).map (·.2))
    (fun c hc => by
      simp only [Bool.or_eq_true] at hc
      rcases hc with hc | hc
      · exact List.mem_append_left _ (namesHas_mem E c hc)
      · obtain ⟨s', hm⟩ := (valuesHas_iff E c).mp hc
        exact List.mem_append_right _ (List.mem_map.mpr ⟨(s', c), hm, rfl⟩))
    (by simp)
  unfold getNameFixed
  cases h : envGet E s with
  | none => exact Or.inr hb
  | some r =>
    by_cases he : r.isEmpty = true
    · simp only [he, if_true]; exact Or.inr hb
    · simp only [he]
      refine Or.inl ⟨r, ?_, rfl⟩
      rw [envGet_flat] at h
      exact lookup_some_mem _ _ _ h

/-! ### the invariant of the literal `get_name` -/

/-- a live entry `(s, r)`: `r` is the symbol's own name or a generated `name_k` with `k` below
    the current counter of that name; and the symbol's own name is a key of `names` -/
def Shape (E : PEnv) (p : Sym × String) : Prop :=
  (p.2 = p.1.name ∨ ∃ k, p.2 = candName p.1.name k ∧ k < cnt E p.1.name) ∧
  namesHas E p.1.name = true

def Inv : PEnv → Prop
  | [] => True
  | f :: rest => Inv rest ∧ (∀ nm, cnt rest nm ≤ cnt (f :: rest) nm) ∧
      ∀ p ∈ f.env, Shape (f :: rest) p

theorem namesHas_cons (f : Frame) (rest : PEnv) (nm : String) (h : namesHas rest nm = true) :
    namesHas (f :: rest) nm = true := by
  simp only [namesHas, namesGet, List.findSome?_cons] at *
  cases f.names.lookup nm <;> simp [h]

theorem shape_mono {E E' : PEnv} (hc : ∀ nm, cnt E nm ≤ cnt E' nm)
    (hn : ∀ nm, namesHas E nm = true → namesHas E' nm = true) {p} (h : Shape E p) : Shape E' p := by
  obtain ⟨h1, h2⟩ := h
  refine ⟨?_, hn _ h2⟩
  rcases h1 with h1 | ⟨k, hk, hlt⟩
  · exact Or.inl h1
  · exact Or.inr ⟨k, hk, Nat.lt_of_lt_of_le hlt (hc _)⟩

theorem inv_shape {E : PEnv} (h : Inv E) : ∀ p ∈ flatEnv E, Shape E p := by
  induction E with
  | nil => intro p hp; simp [flatEnv] at hp
  | cons f rest ih =>
    obtain ⟨hr, hm, hf⟩ := h
    intro p hp
    simp only [flatEnv, List.flatMap_cons, List.mem_append] at hp
    rcases hp with hp | hp
    · exact hf p hp
    · exact shape_mono hm (fun nm => namesHas_cons f rest nm) (ih hr p hp)

theorem inv_push {E : PEnv} (h : Inv E) : Inv (({} : Frame) :: E) := by
  refine ⟨h, fun nm => ?_, fun p hp => by simp at hp⟩
  simp [cnt, namesGet, List.findSome?_cons]

theorem inv_pop {E : PEnv} (h : Inv E) : Inv (popEnv E) := by
  match E, h with
  | [], h => exact h
  | [f], h => exact h
  | _ :: g :: rest, h => exact h.1

theorem inv_write {E : PEnv} (h : Inv E) (s : Sym) (r : String) (n : Nat)
    (hn : cnt E s.name ≤ n) (hr : r = s.name ∨ ∃ j, j < n ∧ r = candName s.name j) :
    Inv (writeFront E s r s.name n) := by
  have hcm : ∀ nm, cnt E nm ≤ cnt (writeFront E s r s.name n) nm := by
    intro nm; rw [cnt_writeFront]; split
    · subst_vars; exact hn
    · exact Nat.le_refl _
  have hnm : ∀ nm, namesHas E nm = true → namesHas (writeFront E s r s.name n) nm = true := by
    intro nm h'; rw [namesHas_writeFront]; simp [h']
  have hnew : Shape (writeFront E s r s.name n) (s, r) := by
    refine ⟨?_, by rw [namesHas_writeFront]; simp⟩
    rcases hr with hr | ⟨j, hj, hr⟩
    · exact Or.inl hr
    · refine Or.inr ⟨j, hr, ?_⟩
      rw [cnt_writeFront]; simpa using hj
  match E, h with
  | [], _ =>
    refine ⟨trivial, fun nm => ?_, fun p hp => ?_⟩
    · exact hcm nm
    · simp only [List.mem_singleton] at hp; subst hp; exact hnew
  | f :: rest, ⟨hrest, hm, hf⟩ =>
    refine ⟨hrest, fun nm => Nat.le_trans (hm nm) (hcm nm), fun p hp => ?_⟩
    simp only [List.mem_cons] at hp
    rcases hp with rfl | hp
    · exact hnew
    · exact shape_mono hcm hnm (hf p hp)

theorem inv_bind {has E s r E'} (h : Inv E) (hb : BindSpec has E s r E') : Inv E' := by
  obtain ⟨n, hn, rfl, hr⟩ := hb.write
  exact inv_write h s r n hn hr

theorem inv_step {E : PEnv} (h : Inv E) (op : Op) : Inv (step E op).1 := by
  cases op with
  | push => exact inv_push h
  | pop => exact inv_pop h
  | get s =>
    show Inv (getName E s).2
    rcases getName_cases E s with ⟨r, _, he⟩ | hb
    · rw [he]; exact h
    · exact inv_bind h hb

theorem inv_init : Inv PEnv.init := by
  refine ⟨trivial, fun nm => Nat.le_refl _, fun p hp => by simp at hp⟩

/-! ### injectivity -/

theorem injB_iff (E : PEnv) : injB E = true ↔ Inj E := by
  simp only [injB, List.all_eq_true, Bool.or_eq_true, Bool.not_eq_true', beq_eq_false_iff_ne,
    beq_iff_eq, Inj]
  constructor
  · intro h s₁ s₂ r h₁ h₂
    rcases h (s₁, r) h₁ (s₂, r) h₂ with h' | h'
    · exact absurd rfl h'
    · exact h'
  · intro h p hp q hq
    by_cases e : p.2 = q.2
    · right
      obtain ⟨a, b⟩ := p; obtain ⟨c, d⟩ := q
      simp only at e; subst e
      exact h a c b hp hq
    · left; exact e

theorem inj_push {E : PEnv} (h : Inj E) : Inj (({} : Frame) :: E) := by
  simpa [Inj, flatEnv] using h

theorem inj_pop {E : PEnv} (h : Inj E) : Inj (popEnv E) := by
  match E, h with
  | [], h => exact h
  | [f], h => exact h
  | f :: g :: rest, h =>
    intro s₁ s₂ r h₁ h₂
    have e : flatEnv (f :: g :: rest) = f.env ++ flatEnv (g :: rest) := by simp [flatEnv]
    apply h s₁ s₂ r
    · rw [e]; exact List.mem_append_right _ h₁
    · rw [e]; exact List.mem_append_right _ h₂

/-- adding `(s, r)` keeps injectivity when no other live symbol is shown as `r` -/
theorem inj_write {E : PEnv} (h : Inj E) (s : Sym) (r k n)
    (hnew : ∀ s₂, (s₂, r) ∈ flatEnv E → s₂ = s) : Inj (writeFront E s r k n) := by
  intro s₁ s₂ r' h₁ h₂
  rw [flatEnv_writeFront] at h₁ h₂
  simp only [List.mem_cons, Prod.mk.injEq] at h₁ h₂
  rcases h₁ with ⟨rfl, rfl⟩ | h₁ <;> rcases h₂ with ⟨rfl, e₂⟩ | h₂
  · rfl
  · exact (hnew _ h₂).symm
  · subst e₂; exact hnew _ h₁
  · exact h _ _ _ h₁ h₂

/-! ### the only way the literal `get_name` collides -/

/-- the step `get s` is harmless unless `s` is shown under its own name (its name is not a key
    of `names`) while that very text is the *generated* name of a live symbol -/
def StepOK (E : PEnv) : Op → Prop
  | .get s => namesHas E s.name = false → ∀ p ∈ flatEnv E, p.2 ≠ s.name
  | _ => True

instance (E : PEnv) (op : Op) : Decidable (StepOK E op) := by
  cases op <;> unfold StepOK <;> infer_instance

/-- no step of the run is of the colliding kind -/
def Safe : PEnv → List Op → Prop
  | _, [] => True
  | E, op :: ops => StepOK E op ∧ Safe (step E op).1 ops

instance instDecSafe : (E : PEnv) → (ops : List Op) → Decidable (Safe E ops)
  | _, [] => isTrue trivial
  | E, op :: ops =>
    have := instDecSafe (step E op).1 ops
    by unfold Safe; infer_instance

theorem inj_step {E : PEnv} (hI : Inv E) (h : Inj E) (op : Op) (ok : StepOK E op) :
    Inj (step E op).1 := by
  cases op with
  | push => exact inj_push h
  | pop => exact inj_pop h
  | get s =>
    show Inj (getName E s).2
    rcases getName_cases E s with ⟨r, _, he⟩ | hb
    · rw [he]; exact h
    · obtain ⟨n, _, hE', _⟩ := hb.write
      rw [hE']
      apply inj_write h
      intro s₂ hm
      exfalso
      obtain ⟨hs, hk⟩ := inv_shape hI _ hm
      simp only at hs hk
      rcases hs with hs | ⟨k₂, hs, hlt⟩
      · -- shown under its own name: that name is a key, the new candidate is not
        have := hb.free; rw [hs, hk] at this; exact absurd this (by simp)
      · rcases hb.shape with ⟨hr, hfree⟩ | ⟨_, j, hj, hr, _⟩
        · exact ok hfree _ hm (by simpa using hr)
        · rw [hr] at hs
          obtain ⟨hnm, hjk⟩ := candName_inj hs
          rw [← hnm] at hlt; omega

theorem inj_states {ops : List Op} : ∀ {E : PEnv}, Inv E → Inj E → Safe E ops →
    ∀ E' ∈ statesWith getName E ops, Inj E' := by
  induction ops with
  | nil => intro E _ h _ E' hm; simp only [statesWith, List.mem_singleton] at hm; exact hm ▸ h
  | cons op ops ih =>
    intro E hI h hs E' hm
    simp only [statesWith, List.mem_cons] at hm
    rcases hm with rfl | hm
    · exact h
    · exact ih (inv_step hI op) (inj_step hI h op hs.1) hs.2 E' hm

theorem inj_init : Inj PEnv.init := by
  intro s₁ s₂ r h; simp [PEnv.init, flatEnv] at h

theorem mem_lookup_ne_none {α β} [BEq α] [LawfulBEq α] (L : List (α × β)) (k : α) (v : β)
    (h : (k, v) ∈ L) : L.lookup k ≠ none := by
  induction L with
  | nil => simp at h
  | cons p L ih =>
    obtain ⟨a, b⟩ := p
    simp only [List.mem_cons, Prod.mk.injEq] at h
    simp only [List.lookup_cons]
    by_cases e : k = a
    · subst e; simp
    · have : (k == a) = false := by simpa using e
      simp only [this]
      rcases h with ⟨h, _⟩ | h
      · exact absurd h e
      · exact ih h

/-- necessity of `StepOK`: a step of the excluded kind does produce two live symbols with one name -/
theorem clash_step {E : PEnv} {s s₂ : Sym} (hs : envGet E s = none)
    (hn : namesHas E s.name = false) (hm : (s₂, s.name) ∈ flatEnv E) :
    ¬ Inj (step E (.get s)).1 := by
  intro h
  have hE : (step E (.get s)).1 = writeFront E s s.name s.name ((namesGet E s.name).getD 1) := by
    show (getName E s).2 = _
    simp [getName, hs, bindWith, hn]
  rw [hE] at h
  have e : s₂ = s := h s₂ s s.name (by rw [flatEnv_writeFront]; exact List.mem_cons_of_mem _ hm)
    (by rw [flatEnv_writeFront]; exact List.mem_cons_self)
  subst e
  rw [envGet_flat] at hs
  exact mem_lookup_ne_none _ _ _ hm hs

/-! ### a static sufficient condition -/

def opsSyms : List Op → List Sym
  | [] => []
  | .get s :: ops => s :: opsSyms ops
  | _ :: ops => opsSyms ops

/-- no symbol's own name is the generated form `name_k` of a symbol's name -/
def NoGenNames (S : List Sym) : Prop :=
  ∀ s ∈ S, ∀ s' ∈ S, ∀ k, s.name ≠ candName s'.name k

theorem flatEnv_popEnv_sub (E : PEnv) : ∀ p ∈ flatEnv (popEnv E), p ∈ flatEnv E := by
  match E with
  | [] => intro p h; exact h
  | [f] => intro p h; exact h
  | f :: g :: rest =>
    intro p h
    have e : flatEnv (f :: g :: rest) = f.env ++ flatEnv (g :: rest) := by simp [flatEnv]
    rw [e]; exact List.mem_append_right _ h

theorem safe_of_noGenNames {S : List Sym} (hS : NoGenNames S) {ops : List Op} :
    ∀ {E : PEnv}, Inv E → (∀ p ∈ flatEnv E, p.1 ∈ S) → (∀ s ∈ opsSyms ops, s ∈ S) → Safe E ops := by
  induction ops with
  | nil => intros; trivial
  | cons op ops ih =>
    intro E hI hE hO
    refine ⟨?_, ih (inv_step hI op) ?_ ?_⟩
    · cases op with
      | push => trivial
      | pop => trivial
      | get s =>
        intro hfree p hp he
        obtain ⟨hs, hk⟩ := inv_shape hI _ hp
        rcases hs with hs | ⟨k, hs, _⟩
        · rw [← hs, he, hfree] at hk; exact absurd hk (by simp)
        · exact hS s (hO s (by simp [opsSyms])) p.1 (hE p hp) k (by rw [← he, hs])
    · cases op with
      | push => simpa [step, stepWith, flatEnv] using hE
      | pop => intro p hp; exact hE p (flatEnv_popEnv_sub E p hp)
      | get s =>
        show ∀ p ∈ flatEnv (getName E s).2, p.1 ∈ S
        rcases getName_cases E s with ⟨r, _, he⟩ | hb
        · rw [he]; exact hE
        · obtain ⟨n, _, hE', _⟩ := hb.write
          rw [hE', flatEnv_writeFront]
          intro p hp
          simp only [List.mem_cons] at hp
          rcases hp with rfl | hp
          · exact hO s (by simp [opsSyms])
          · exact hE p hp
    · cases op with
      | push => exact hO
      | pop => exact hO
      | get s => intro s' hs'; exact hO s' (by simp [opsSyms, hs'])

/-! ### the repaired `get_name` -/

theorem inj_stepFixed {E : PEnv} (h : Inj E) (op : Op) : Inj (stepFixed E op).1 := by
  cases op with
  | push => exact inj_push h
  | pop => exact inj_pop h
  | get s =>
    show Inj (getNameFixed E s).2
    rcases getNameFixed_cases E s with ⟨r, _, he⟩ | hb
    · rw [he]; exact h
    · obtain ⟨n, _, hE', _⟩ := hb.write
      rw [hE']
      apply inj_write h
      intro s₂ hm
      exfalso
      have hf := hb.free
      simp only [Bool.or_eq_false_iff] at hf
      have := (valuesHas_iff E _).mpr ⟨s₂, hm⟩
      rw [hf.2] at this; exact absurd this (by simp)

theorem inj_statesFixed {ops : List Op} : ∀ {E : PEnv}, Inj E →
    ∀ E' ∈ statesWith getNameFixed E ops, Inj E' := by
  induction ops with
  | nil => intro E h E' hm; simp only [statesWith, List.mem_singleton] at hm; exact hm ▸ h
  | cons op ops ih =>
    intro E h E' hm
    simp only [statesWith, List.mem_cons] at hm
    rcases hm with rfl | hm
    · exact h
    · exact ih (inj_stepFixed h op) E' hm

end Exo.Print
