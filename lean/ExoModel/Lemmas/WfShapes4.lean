/-
  The "no name is bound twice" side conditions of the shapes (`disj (defNames …) (bindL …)`) follow
  from the discipline exo's front end establishes: every binder of a procedure body is a distinct
  `Sym` (`(bindL body).Nodup`).  The binders of any site are a sublist of the binders of the body.
-/
import ExoModel.Lemmas.WfShapes3

namespace Exo.WfShapes
open Exo Exo.Wf Exo.Rw

theorem bindL_decomp (ss : List Stmt) (k : Nat) (s : Stmt) (h : ss[k]? = some s) :
    bindL ss = bindL (ss.take k) ++ (bindS s ++ bindL (ss.drop (k + 1))) := by
  have e := decomp ss k s h
  have : bindL ss = bindL (ss.take k ++ s :: ss.drop (k + 1)) := by rw [← e]
  rw [this, bindL_append]
  simp [bindL]

/-- the binders of the site a path addresses are a sublist of the binders of the body -/
theorem siteAt_sublist : ∀ (path : Path) (Γ Γs : Env) (ss site : List Stmt),
    siteAt path Γ ss = some (Γs, site) → (bindL site).Sublist (bindL ss)
  | [], _, _, _, _, h => by simp [siteAt] at h
  | [st], Γ, Γs, ss, site, h => by
    simp only [siteAt, Option.map_eq_some_iff, Prod.mk.injEq] at h
    obtain ⟨_, _, _, rfl⟩ := h
    have e : ss = ss.take st.idx ++ ss.drop st.idx := (List.take_append_drop _ _).symm
    have : bindL ss = bindL (ss.take st.idx) ++ bindL (ss.drop st.idx) := by
      rw [← bindL_append, ← e]
    rw [this]
    exact List.sublist_append_right _ _
  | st :: nxt :: rest, Γ, Γs, ss, site, h => by
    simp only [siteAt] at h
    split at h
    · rename_i Γ1 i lo hi b par h1 hs
      split at h
      · have ih := siteAt_sublist _ _ _ _ _ h
        rw [bindL_decomp ss st.idx _ hs]
        refine List.Sublist.trans ih ?_
        refine List.Sublist.trans ?_ (List.sublist_append_right _ _)
        refine List.Sublist.trans ?_ (List.sublist_append_left _ _)
        simp only [bindS]
        exact List.sublist_cons_self _ _
      · cases h
    · rename_i Γ1 c t e h1 hs
      split at h
      · have ih := siteAt_sublist _ _ _ _ _ h
        rw [bindL_decomp ss st.idx _ hs]
        refine List.Sublist.trans ih ?_
        refine List.Sublist.trans ?_ (List.sublist_append_right _ _)
        refine List.Sublist.trans ?_ (List.sublist_append_left _ _)
        simp only [bindS]
        exact List.sublist_append_left _ _
      · have ih := siteAt_sublist _ _ _ _ _ h
        rw [bindL_decomp ss st.idx _ hs]
        refine List.Sublist.trans ih ?_
        refine List.Sublist.trans ?_ (List.sublist_append_right _ _)
        refine List.Sublist.trans ?_ (List.sublist_append_left _ _)
        simp only [bindS]
        exact List.sublist_append_right _ _
    · cases h

/-- distinct binders in the body ⇒ distinct binders at every site -/
theorem site_nodup (path : Path) (Γ Γs : Env) (ss site : List Stmt)
    (h : siteAt path Γ ss = some (Γs, site)) (hn : (bindL ss).Nodup) : (bindL site).Nodup :=
  List.Nodup.sublist (siteAt_sublist path Γ Γs ss site h) hn

theorem disj_of_nodup_append {a b : List Sym} (d : List Sym) (h : (a ++ b).Nodup)
    (hd : ∀ x ∈ d, x ∈ a) : disj d b = true := by
  rw [disj_iff]
  intro x hx hb
  have := (List.nodup_append.1 h).2.2 x (hd x hx) x hb
  exact this rfl

theorem deadCodeOk_of_nodup (keepThen : Bool) (site : List Stmt) (hn : (bindL site).Nodup) :
    deadCodeOk keepThen site = true := by
  unfold deadCodeOk
  split
  · rename_i c t e r
    simp only [bindL, bindS] at hn
    cases keepThen with
    | true =>
      simp only [if_true]
      exact disj_of_nodup_append _ hn (fun x hx => by
        simp only [List.mem_append]; exact Or.inl (defNames_sub_bindL t x hx))
    | false =>
      simp only [Bool.false_eq_true, if_false]
      exact disj_of_nodup_append _ hn (fun x hx => by
        simp only [List.mem_append]; exact Or.inr (defNames_sub_bindL e x hx))
  · rfl

theorem removeLoopOk_of_nodup (guarded : Bool) (i : Sym) (lo hi : Expr) (b : List Stmt) (par : Bool)
    (r : List Stmt) (ho : occL i b = false) (hn : (bindL (.loop i lo hi b par :: r)).Nodup) :
    removeLoopOk guarded (.loop i lo hi b par :: r) = true := by
  simp only [removeLoopOk, ho, Bool.not_false, Bool.true_and, Bool.or_eq_true]
  right
  simp only [bindL, bindS] at hn
  exact disj_of_nodup_append _ hn (fun x hx => by
    simp only [List.mem_cons]; exact Or.inr (defNames_sub_bindL b x hx))

theorem fuseIfsOk_of_nodup (site : List Stmt) (hn : (bindL site).Nodup) : fuseIfsOk site = true := by
  unfold fuseIfsOk
  split
  · rename_i c t e c2 t2 e2 r
    simp only [bindL, bindS] at hn
    simp only [Bool.and_eq_true, disj_iff]
    have h1 := List.nodup_append.1 hn
    constructor
    · intro x hx hx2
      exact h1.2.2 x (by simp [defNames_sub_bindL t x hx]) x (by simp [hx2]) rfl
    · intro x hx hx2
      exact h1.2.2 x (by simp [defNames_sub_bindL e x hx]) x (by simp [hx2]) rfl
  · rfl

end Exo.WfShapes
