/-
  `_local_forward` is coherent for `t ↦ t.modBlock f a E` whenever its `fwd_node` / `fwd_block`
  satisfy a specification at the level of the edited child list (`NodeSpec`, `BlockSpec`).
  Proof: `localForward (x :: E) = liftFwd x (localForward E)` and induction over the spine.
-/
import ExoModel.Lemmas.CursorLift

namespace Exo.Cursor

/-! ### `_local_forward` below a common first step -/

theorem lfNode_nil_nil (a : Attr) (fn : Attr → Nat → Except Err Path) : lfNode [] a fn [] = .ok [] := by
  simp [lfNode]

theorem lfNode_nil_cons (a : Attr) (fn : Attr → Nat → Except Err Path) (b : Attr) (i : Nat) (rest : Path) :
    lfNode [] a fn ((b, i) :: rest) =
      if b = a then (match fn a i with | .ok r => .ok (r ++ rest) | .error e => .error e)
      else .ok ((b, i) :: rest) := by
  by_cases h : b = a
  · subst h
    simp only [lfNode, startsWith, if_true]
    simp only [List.length_cons, List.length_nil, Nat.zero_add, Nat.lt_one_iff, Nat.add_eq_zero_iff,
      Nat.succ_ne_self, and_false, if_false, List.getElem?_cons_zero, List.isPrefixOf, and_self,
      not_true_eq_false, List.take_zero, List.nil_append, List.drop_succ_cons, List.drop_zero]
    cases fn b i <;> rfl
  · simp [lfNode, startsWith, h]

theorem lfNode_cons_nil (x : Step) (E : Path) (a : Attr) (fn : Attr → Nat → Except Err Path) :
    lfNode (x :: E) a fn [] = .ok [] := by
  simp [lfNode]

theorem lfNode_cons_cons (x y : Step) (E : Path) (a : Attr) (fn : Attr → Nat → Except Err Path) (p : Path) :
    lfNode (x :: E) a fn (y :: p) =
      if y = x then (match lfNode E a fn p with | .ok p' => .ok (x :: p') | .error e => .error e)
      else .ok (y :: p) := by
  by_cases hy : y = x
  · subst hy
    simp only [if_true]
    unfold lfNode
    simp only [List.length_cons, Nat.add_lt_add_iff_right, List.getElem?_cons_succ, startsWith,
      List.isPrefixOf, beq_self_eq_true, Bool.true_and, List.take_succ_cons, List.drop_succ_cons,
      List.cons_append]
    by_cases hlen : p.length < E.length + 1
    · simp [hlen]
    · simp only [hlen, if_false]
      cases hg : p[E.length]? with
      | none => simp
      | some s =>
        obtain ⟨oa, oi⟩ := s
        simp only []
        by_cases hc : (List.isPrefixOf E p = true ∧ oa = a)
        · simp only [hc, and_self, not_true_eq_false, if_false]
          cases fn a oi <;> simp
        · simp only [hc, not_false_eq_true, if_true]
  · simp only [hy, if_false]
    have hs : startsWith (y :: p) (x :: E) = false := by
      simp only [startsWith, List.isPrefixOf, Bool.and_eq_false_imp, beq_iff_eq]
      intro h; exact absurd h.symm hy
    unfold lfNode
    simp only [hs]
    split
    · rfl
    · split
      · rfl
      · simp

theorem localForward_cons (x : Step) (E : Path) (a : Attr) (fn : Attr → Nat → Except Err Path)
    (fb : Attr → Nat → Nat → Except Err BlockRes) (cur : Cursor) :
    localForward (x :: E) a fn fb cur = liftFwd x (localForward E a fn fb) cur := by
  cases cur with
  | node p =>
    cases p with
    | nil => simp [localForward, liftFwd, lfNode_cons_nil]
    | cons y p =>
      simp only [localForward, liftFwd, lfNode_cons_cons]
      by_cases hy : y = x
      · simp only [hy, if_true]
        cases lfNode E a fn p <;> simp [resPrepend, Cursor.prepend]
      · simp [hy]
  | gap p ty =>
    cases p with
    | nil => simp [localForward, liftFwd, lfNode_cons_nil]
    | cons y p =>
      simp only [localForward, liftFwd, lfNode_cons_cons]
      by_cases hy : y = x
      · simp only [hy, if_true]
        cases lfNode E a fn p <;> simp [resPrepend, Cursor.prepend]
      · simp [hy]
  | block anchor b lo hi =>
    cases anchor with
    | nil => simp [localForward, liftFwd, lfNode_cons_nil]
    | cons y anchor =>
      simp only [localForward, liftFwd, lfNode_cons_cons]
      by_cases hy : y = x
      · subst hy
        simp only [List.cons.injEq, true_and, if_true]
        by_cases hin : anchor = E ∧ b = a
        · simp only [hin, and_self, if_true]
          cases fb a lo hi with
          | error e => simp [resPrepend]
          | ok r =>
            obtain ⟨pre, a', lo', hi'⟩ := r
            simp [resPrepend, Cursor.prepend]
        · simp only [hin, if_false]
          cases lfNode E a fn anchor <;> simp [resPrepend, Cursor.prepend]
      · have : ¬ ((y :: anchor = x :: E) ∧ b = a) := by
          intro h; exact hy (List.cons.inj h.1).1
        simp [this, hy]

theorem localForward_gapCoh (E : Path) (a : Attr) (fn : Attr → Nat → Except Err Path)
    (fb : Attr → Nat → Nat → Except Err BlockRes) : GapCoh (localForward E a fn fb) := by
  intro p ty
  cases h : lfNode E a fn p with
  | error e => simp [localForward, h]
  | ok p' => simp [localForward, h]

/-! ### specification of `fwd_node` / `fwd_block` at the edited child list -/

/-- `n` is the node whose child list `a` is replaced by `l'` -/
structure NodeSpec (n : Tree) (a : Attr) (l' : List Tree) (fn : Attr → Nat → Except Err Path) : Prop where
  /-- never an AssertionError -/
  noCrash : ∀ i, fn a i ≠ .error .crash
  /-- the first new edge stays in list `a` -/
  head : ∀ i r, fn a i = .ok r → ∃ k r', r = (a, k) :: r'
  /-- a surviving child is found, unchanged, at its new place -/
  same : ∀ i c r, (n.children a)[i]? = some c → fn a i = .ok r → (n.setChildren a l').get? r = some c

/-- different surviving children get incomparable new places -/
def NodeInj (n : Tree) (a : Attr) (fn : Attr → Nat → Except Err Path) : Prop :=
  ∀ i₁ i₂ r₁ r₂ x y, i₁ < (n.children a).length → i₂ < (n.children a).length →
    fn a i₁ = .ok r₁ → fn a i₂ = .ok r₂ → r₁ ++ x = r₂ ++ y → i₁ = i₂

/-- `fwd_block` on the blocks `(lo, hi)` of the edited list that satisfy `Good` -/
def BlockSpec (n : Tree) (a : Attr) (l' : List Tree) (fn : Attr → Nat → Except Err Path)
    (fb : Attr → Nat → Nat → Except Err BlockRes) (Good : Nat → Nat → Prop) : Prop :=
  ∀ lo hi, lo < hi → hi ≤ (n.children a).length → Good lo hi →
    fb a lo hi = .error .invalid ∨
    ∃ pre a' lo' hi', fb a lo hi = .ok (pre, a', lo', hi') ∧
      (∃ m, (n.setChildren a l').get? pre = some m ∧ lo' < hi' ∧ hi' ≤ (m.children a').length) ∧
      (∀ j, ∃ k s, pre ++ [(a', j)] = (a, k) :: s) ∧
      ∀ i r rest, i < (n.children a).length → fn a i = .ok r →
        (Covers pre a' lo' hi' (r ++ rest) ↔ lo ≤ i ∧ i < hi)

/-! ### the edit happens at the root (`E = []`) -/

section base

variable {n : Tree} {a : Attr} {l' : List Tree} {fn : Attr → Nat → Except Err Path}
  {fb : Attr → Nat → Nat → Except Err BlockRes}

theorem base_get_through {i : Nat} {rest : Path} {m : Tree} (h : n.get? ((a, i) :: rest) = some m) :
    ∃ c, (n.children a)[i]? = some c ∧ c.get? rest = some m := by
  rw [Tree.get?_cons] at h
  cases hc : (n.children a)[i]? with
  | none => simp [hc] at h
  | some c => exact ⟨c, rfl, by simpa [hc] using h⟩

theorem base_nodeCoh (spec : NodeSpec n a l' fn) :
    NodeCoh n (n.setChildren a l') (localForward [] a fn fb) := by
  intro p m hp
  cases p with
  | nil =>
    simp at hp; subst hp
    exact Or.inr ⟨[], _, by simp [localForward, lfNode_nil_nil], rfl, by simp, by simp⟩
  | cons s rest =>
    obtain ⟨b, i⟩ := s
    by_cases hb : b = a
    · subst hb
      obtain ⟨c, hc, hcm⟩ := base_get_through hp
      cases hf : fn b i with
      | error e =>
        cases e with
        | invalid => left; simp [localForward, lfNode_nil_cons, hf]
        | crash => exact absurd hf (spec.noCrash i)
      | ok r =>
        right
        obtain ⟨k, r', hr⟩ := spec.head i r hf
        refine ⟨r ++ rest, m, by simp [localForward, lfNode_nil_cons, hf], ?_, rfl, by simp [hr]⟩
        rw [Tree.get?_append, spec.same i c r hc hf]
        exact hcm
    · right
      refine ⟨(b, i) :: rest, m, by simp [localForward, lfNode_nil_cons, hb], ?_, rfl, by simp⟩
      rw [Tree.get?_cons, Tree.children_setChildren_ne _ hb]
      rw [Tree.get?_cons] at hp
      exact hp

/-- what `localForward []` does to a node path, as a case split -/
theorem base_node_cases (spec : NodeSpec n a l' fn) (q q' : Path)
    (hf : localForward [] a fn fb (.node q) = .ok (.node q')) :
    (q = [] ∧ q' = []) ∨
    (∃ i rest r, q = (a, i) :: rest ∧ fn a i = .ok r ∧ q' = r ++ rest) ∨
    (∃ b i rest, b ≠ a ∧ q = (b, i) :: rest ∧ q' = q) := by
  cases q with
  | nil =>
    simp [localForward, lfNode_nil_nil] at hf
    exact Or.inl ⟨rfl, by first | exact hf | exact hf.symm⟩
  | cons s rest =>
    obtain ⟨b, i⟩ := s
    by_cases hb : b = a
    · subst hb
      right; left
      simp only [localForward, lfNode_nil_cons, if_true] at hf
      cases hfn : fn b i with
      | error e => simp [hfn] at hf
      | ok r =>
        simp only [hfn, Except.ok.injEq, Cursor.node.injEq] at hf
        exact ⟨i, rest, r, rfl, hfn, by first | exact hf | exact hf.symm⟩
    · right; right
      simp only [localForward, lfNode_nil_cons, hb, if_false, Except.ok.injEq, Cursor.node.injEq] at hf
      exact ⟨b, i, rest, hb, rfl, by first | exact hf | exact hf.symm⟩

theorem base_blockCohAt (spec : NodeSpec n a l' fn) (inj : NodeInj n a fn) {Good : Nat → Nat → Prop}
    (bspec : BlockSpec n a l' fn fb Good) {anchor : Path} {b : Attr} {lo hi : Nat}
    (hv : ValidBlock n anchor b lo hi) (hgood : anchor = [] → b = a → Good lo hi) :
    BlockCohAt n (n.setChildren a l') (localForward [] a fn fb) anchor b lo hi := by
  obtain ⟨m, hm, hlt, hle⟩ := hv
  cases anchor with
  | nil =>
    obtain rfl : n = m := by simpa using hm
    by_cases hb : b = a
    · -- the block is directly in edit scope
      subst hb
      rcases bspec lo hi hlt hle (hgood rfl rfl) with hinv | ⟨pre, a', lo', hi', hfb, hval, hhead, hcov⟩
      · left; simp [localForward, hinv]
      · right
        refine ⟨pre, a', lo', hi', by simp [localForward, hfb], ?_, ?_⟩
        · obtain ⟨m', hm', h1, h2⟩ := hval
          exact ⟨m', hm', h1, h2⟩
        · intro q q' hq hfq
          rcases base_node_cases spec q q' hfq with ⟨rfl, rfl⟩ | ⟨i, rest, r, rfl, hfn, rfl⟩ | ⟨b', i, rest, hb', rfl, rfl⟩
          · constructor <;> intro h <;> exact absurd h (not_covers_nil _ _ _ _)
          · have hi : i < (n.children b).length := by
              obtain ⟨c, hc, _⟩ := base_get_through (Option.isSome_iff_exists.mp hq).choose_spec
              exact getElem?_lt_length hc
            rw [hcov i r rest hi hfn, covers_nil_cons_iff]
            simp
          · rw [covers_nil_cons_iff]
            constructor
            · rintro ⟨j, s, _, _, h⟩
              obtain ⟨k, s', hk⟩ := hhead j
              have : pre ++ (a', j) :: s = (b, k) :: (s' ++ s) := by
                rw [← List.singleton_append, ← List.append_assoc, hk]; rfl
              rw [this] at h
              exact absurd (Prod.mk.inj (List.cons.inj h).1).1 hb'
            · rintro ⟨h, _⟩; exact absurd h hb'
    · right
      have hne : ¬ (([] : Path) = [] ∧ b = a) := fun h => hb h.2
      refine ⟨[], b, lo, hi, by simp [localForward, hb, lfNode_nil_nil], ?_, ?_⟩
      · exact ⟨_, rfl, hlt, by rw [Tree.children_setChildren_ne _ hb]; exact hle⟩
      · intro q q' _ hfq
        rcases base_node_cases spec q q' hfq with ⟨rfl, rfl⟩ | ⟨i, rest, r, rfl, hfn, rfl⟩ | ⟨b', i, rest, _, rfl, rfl⟩
        · exact Iff.rfl
        · obtain ⟨k, r', rfl⟩ := spec.head i r hfn
          rw [List.cons_append, covers_nil_cons_iff, covers_nil_cons_iff]
          simp only
          constructor <;> rintro ⟨h, _⟩ <;> exact absurd h.symm hb
        · exact Iff.rfl
  | cons s arest =>
    obtain ⟨b0, i0⟩ := s
    have hscope : ¬ ((b0, i0) :: arest = [] ∧ b = a) := by simp
    by_cases hb0 : b0 = a
    · subst hb0
      obtain ⟨c, hc, hcm⟩ := base_get_through hm
      cases hf : fn b0 i0 with
      | error e =>
        cases e with
        | invalid => left; simp [localForward, lfNode_nil_cons, hf]
        | crash => exact absurd hf (spec.noCrash i0)
      | ok r =>
        right
        refine ⟨r ++ arest, b, lo, hi, by simp [localForward, lfNode_nil_cons, hf], ?_, ?_⟩
        · refine ⟨m, ?_, hlt, hle⟩
          rw [Tree.get?_append, spec.same i0 c r hc hf]; exact hcm
        · intro q q' hq hfq
          have hi0 : i0 < (n.children b0).length := getElem?_lt_length hc
          rcases base_node_cases spec q q' hfq with ⟨rfl, rfl⟩ | ⟨i, rest, r2, rfl, hfn, rfl⟩ | ⟨b', i, rest, hb', rfl, rfl⟩
          · constructor <;> intro h <;> exact absurd h (not_covers_nil _ _ _ _)
          · have hi : i < (n.children b0).length := by
              obtain ⟨c2, hc2, _⟩ := base_get_through (Option.isSome_iff_exists.mp hq).choose_spec
              exact getElem?_lt_length hc2
            constructor
            · rintro ⟨j, s, h1, h2, h3⟩
              have h3' : r2 ++ rest = r ++ (arest ++ (b, j) :: s) := by simpa using h3
              have hii := inj i i0 r2 r _ _ hi hi0 hfn hf h3'
              subst hii
              rw [hf] at hfn
              cases hfn
              have := List.append_cancel_left h3'
              exact ⟨j, s, h1, h2, by simp [this]⟩
            · rintro ⟨j, s, h1, h2, h3⟩
              simp only [List.cons_append, List.cons.injEq, Prod.mk.injEq, true_and] at h3
              obtain ⟨rfl, rfl⟩ := h3
              rw [hf] at hfn
              cases hfn
              exact ⟨j, s, h1, h2, by simp⟩
          · constructor
            · rintro ⟨j, s, _, _, h⟩
              obtain ⟨k, r', rfl⟩ := spec.head i0 r hf
              simp only [List.cons_append, List.cons.injEq, Prod.mk.injEq] at h
              exact absurd h.1.1 hb'
            · rintro ⟨j, s, _, _, h⟩
              simp only [List.cons_append, List.cons.injEq, Prod.mk.injEq] at h
              exact absurd h.1.1 hb'
    · right
      refine ⟨(b0, i0) :: arest, b, lo, hi, by simp [localForward, lfNode_nil_cons, hb0], ?_, ?_⟩
      · refine ⟨m, ?_, hlt, hle⟩
        rw [Tree.get?_cons, Tree.children_setChildren_ne _ hb0]
        rw [Tree.get?_cons] at hm
        exact hm
      · intro q q' _ hfq
        rcases base_node_cases spec q q' hfq with ⟨rfl, rfl⟩ | ⟨i, rest, r, rfl, hfn, rfl⟩ | ⟨b', i, rest, _, rfl, rfl⟩
        · exact Iff.rfl
        · obtain ⟨k, r', rfl⟩ := spec.head i r hfn
          constructor
          · rintro ⟨j, s, _, _, h⟩
            simp only [List.cons_append, List.cons.injEq, Prod.mk.injEq] at h
            exact absurd h.1.1.symm hb0
          · rintro ⟨j, s, _, _, h⟩
            simp only [List.cons_append, List.cons.injEq, Prod.mk.injEq] at h
            exact absurd h.1.1.symm hb0
        · exact Iff.rfl

end base

/-! ### anywhere in the tree -/

theorem localForward_coherent {t n : Tree} {E : Path} {a : Attr} {f : List Tree → List Tree}
    {fn : Attr → Nat → Except Err Path} (fb : Attr → Nat → Nat → Except Err BlockRes)
    (hE : t.get? E = some n) (spec : NodeSpec n a (f (n.children a)) fn) :
    Coherent t (t.modBlock f a E) (localForward E a fn fb) := by
  refine ⟨?_, localForward_gapCoh E a fn fb⟩
  induction E generalizing t with
  | nil =>
    simp at hE; subst hE
    exact base_nodeCoh spec
  | cons x E ih =>
    obtain ⟨b, i⟩ := x
    rw [Tree.get?_cons] at hE
    cases hc : (t.children b)[i]? with
    | none => simp [hc] at hE
    | some c =>
      simp only [hc, Option.bind_some] at hE
      have := liftFwd_nodeCoh hc (ih hE)
      rw [Tree.modBlock_cons_eq_setChild hc]
      intro p m hp
      rw [localForward_cons]
      exact this p m hp

theorem localForward_blockCohAt {t n : Tree} {E : Path} {a : Attr} {f : List Tree → List Tree}
    {fn : Attr → Nat → Except Err Path} {fb : Attr → Nat → Nat → Except Err BlockRes}
    {Good : Nat → Nat → Prop}
    (hE : t.get? E = some n) (spec : NodeSpec n a (f (n.children a)) fn) (inj : NodeInj n a fn)
    (bspec : BlockSpec n a (f (n.children a)) fn fb Good)
    {anchor : Path} {b : Attr} {lo hi : Nat} (hv : ValidBlock t anchor b lo hi)
    (hgood : anchor = E → b = a → Good lo hi) :
    BlockCohAt t (t.modBlock f a E) (localForward E a fn fb) anchor b lo hi := by
  induction E generalizing t anchor with
  | nil =>
    simp at hE; subst hE
    exact base_blockCohAt spec inj bspec hv hgood
  | cons x E ih =>
    obtain ⟨b0, i0⟩ := x
    rw [Tree.get?_cons] at hE
    cases hc : (t.children b0)[i0]? with
    | none => simp [hc] at hE
    | some c =>
      simp only [hc, Option.bind_some] at hE
      have hcoh := localForward_coherent fb hE spec
      rw [Tree.modBlock_cons_eq_setChild hc]
      have key : BlockCohAt t (t.setChild b0 i0 (c.modBlock f a E))
          (liftFwd (b0, i0) (localForward E a fn fb)) anchor b lo hi := by
        cases anchor with
        | nil => exact liftFwd_blockCohAt_root hcoh.gap hv
        | cons y anchor =>
          by_cases hy : y = (b0, i0)
          · subst hy
            have hv' : ValidBlock c anchor b lo hi := by
              obtain ⟨m, hm, h1, h2⟩ := hv
              rw [Tree.get?_cons, hc] at hm
              exact ⟨m, hm, h1, h2⟩
            exact liftFwd_blockCohAt_below hc hcoh.gap
              (ih hE hv' (fun h1 h2 => hgood (by rw [h1]) h2))
          · exact liftFwd_blockCohAt_other hcoh.gap hy hv
      -- transport along `localForward_cons`
      rcases key with hinv | ⟨anchor', a', lo', hi', hf, hval, hiff⟩
      · left; rw [localForward_cons]; exact hinv
      · right
        refine ⟨anchor', a', lo', hi', by rw [localForward_cons]; exact hf, hval, ?_⟩
        intro q q' hq hfq
        rw [localForward_cons] at hfq
        exact hiff q q' hq hfq

end Exo.Cursor
