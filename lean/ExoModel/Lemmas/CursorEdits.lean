/-
  The atomic edits `insert`, `replaceBlock`/`deleteBlock`, `wrap`, `nodeReplace` in normal form
  (`modBlock` + `localForward`) and the list-level specifications of their `fwd_node`/`fwd_block`.
-/
import ExoModel.Lemmas.CursorLocal

namespace Exo.Cursor

/-! ### list splicing -/

theorem getElem?_splice_left {α} (l mid post : List α) (lo j : Nat) (h : j < lo) (hlo : lo ≤ l.length) :
    (l.take lo ++ mid ++ post)[j]? = l[j]? := by
  rw [List.append_assoc, List.getElem?_append_left (by simp; omega)]
  simp [List.getElem?_take, h]

theorem getElem?_splice_right {α} (l mid : List α) (lo hi j k : Nat) (hlo : lo ≤ l.length)
    (hk : k = lo + mid.length + (j - hi)) (h : hi ≤ j) :
    (l.take lo ++ mid ++ l.drop hi)[k]? = l[j]? := by
  subst hk
  have h1 : (l.take lo ++ mid).length = lo + mid.length := by simp; omega
  rw [List.getElem?_append_right (by omega), h1]
  simp only [List.getElem?_drop]
  congr 1
  omega

theorem getElem?_splice_mid {α} (l mid post : List α) (lo j : Nat) (hlo : lo ≤ l.length) :
    (l.take lo ++ mid ++ post)[lo + j]? = (mid ++ post)[j]? := by
  rw [List.append_assoc, List.getElem?_append_right (by simp; omega)]
  congr 1
  simp; omega

theorem length_splice {α} (l mid : List α) (lo hi : Nat) (h1 : lo ≤ hi) (h2 : hi ≤ l.length) :
    (l.take lo ++ mid ++ l.drop hi).length = lo + mid.length + (l.length - hi) := by
  simp; omega

/-! ### path bookkeeping -/

@[simp] theorem parentPath_snoc (E : Path) (x : Step) : parentPath (E ++ [x]) = E := by
  simp [parentPath]

@[simp] theorem lastAttr_snoc (E : Path) (a : Attr) (i : Nat) : lastAttr (E ++ [(a, i)]) = a := by
  simp [lastAttr]

@[simp] theorem lastIdx_snoc (E : Path) (a : Attr) (i : Nat) : lastIdx (E ++ [(a, i)]) = i := by
  simp [lastIdx]

theorem exists_snoc_of_ne_nil {p : Path} (h : p ≠ []) : ∃ E a i, p = E ++ [(a, i)] := by
  refine ⟨p.dropLast, (p.getLast h).1, (p.getLast h).2, ?_⟩
  exact (List.dropLast_concat_getLast h).symm

/-! ### `_rewrite` at a child: splice the result into the parent's list -/

def spliceAt (fn : Tree → List Tree) (i : Nat) (l : List Tree) : List Tree :=
  match l[i]? with
  | some c => l.take i ++ fn c ++ l.drop (i + 1)
  | none => l

theorem rewrite_snoc (fn : Tree → List Tree) (t : Tree) (E : Path) (a : Attr) (i : Nat)
    (hv : (t.get? (E ++ [(a, i)])).isSome) :
    t.rewrite fn (E ++ [(a, i)]) = [t.modBlock (spliceAt fn i) a E] := by
  induction E generalizing t with
  | nil =>
    simp only [List.nil_append, Tree.get?_cons] at hv
    cases hc : (t.children a)[i]? with
    | none => simp [hc] at hv
    | some c => simp [Tree.rewrite, hc, spliceAt]
  | cons s E ih =>
    obtain ⟨b, j⟩ := s
    simp only [List.cons_append, Tree.get?_cons] at hv
    cases hc : (t.children b)[j]? with
    | none => simp [hc] at hv
    | some c =>
      simp only [hc, Option.bind_some] at hv
      simp only [List.cons_append, Tree.rewrite, hc, Tree.modBlock, ih c hv]
      rw [Tree.take_append_cons_drop_eq_set _ _ _ _ hc]

theorem rewriteRoot_update (f : List Tree → List Tree) (a : Attr) (t : Tree) (p : Path)
    (hv : (t.get? p).isSome) :
    t.rewriteRoot p (fun n => [n.setChildren a (f (n.children a))]) = t.modBlock f a p := by
  simp [Tree.rewriteRoot, Tree.rewrite_update_eq_modBlock f a t p hv]

/-! ### `lfNode` never fails unless `fwd_node` does -/

theorem lfNode_error_iff (E : Path) (a : Attr) (fn : Attr → Nat → Except Err Path) (p : Path) (e : Err) :
    lfNode E a fn p = .error e ↔ ∃ i rest, p = E ++ (a, i) :: rest ∧ fn a i = .error e := by
  induction E generalizing p with
  | nil =>
    cases p with
    | nil => simp [lfNode_nil_nil]
    | cons s rest =>
      obtain ⟨b, i⟩ := s
      rw [lfNode_nil_cons]
      by_cases hb : b = a
      · subst hb
        simp only [if_true, List.nil_append, List.cons.injEq, Prod.mk.injEq, true_and]
        constructor
        · intro h
          cases hf : fn b i with
          | ok r => simp [hf] at h
          | error e' => simp [hf] at h; exact ⟨i, rest, ⟨rfl, rfl⟩, by rw [hf, h]⟩
        · rintro ⟨i', rest', ⟨rfl, rfl⟩, hf⟩
          simp [hf]
      · simp only [hb, if_false, List.nil_append, List.cons.injEq, Prod.mk.injEq]
        constructor
        · intro h; cases h
        · rintro ⟨_, _, ⟨⟨h, _⟩, _⟩, _⟩; first | exact absurd h hb | exact h.elim
  | cons x E ih =>
    cases p with
    | nil => simp [lfNode_cons_nil]
    | cons y p =>
      rw [lfNode_cons_cons]
      by_cases hy : y = x
      · subst hy
        simp only [if_true, List.cons_append, List.cons.injEq, true_and]
        rw [← ih p]
        cases lfNode E a fn p <;> simp
      · simp only [hy, if_false, List.cons_append, List.cons.injEq]
        constructor
        · intro h; cases h
        · rintro ⟨_, _, ⟨h, _⟩, _⟩; first | exact absurd h hy | exact h.elim

theorem lfNode_congr_offlist (E : Path) (a : Attr) (p : Path)
    (hnot : ¬ ∃ j rest, p = E ++ (a, j) :: rest) (fn₁ fn₂ : Attr → Nat → Except Err Path) :
    lfNode E a fn₁ p = lfNode E a fn₂ p := by
  induction E generalizing p with
  | nil =>
    cases p with
    | nil => simp [lfNode_nil_nil]
    | cons s rest =>
      obtain ⟨b, j⟩ := s
      have hb : b ≠ a := fun hb => hnot ⟨j, rest, by simp [hb]⟩
      simp [lfNode_nil_cons, hb]
  | cons x E ih =>
    cases p with
    | nil => simp [lfNode_cons_nil]
    | cons y p =>
      rw [lfNode_cons_cons, lfNode_cons_cons]
      by_cases hy : y = x
      · subst hy
        simp only [if_true]
        rw [ih p (fun ⟨j, rest, h⟩ => hnot ⟨j, rest, by simp [h]⟩)]
      · simp [hy]

theorem lfNode_id (E : Path) (a : Attr) (p : Path) :
    lfNode E a (fun a j => Except.ok [(a, j)]) p = .ok p := by
  induction E generalizing p with
  | nil =>
    cases p with
    | nil => simp [lfNode_nil_nil]
    | cons s rest =>
      obtain ⟨b, j⟩ := s
      rw [lfNode_nil_cons]
      by_cases hb : b = a
      · subst hb; simp
      · simp [hb]
  | cons x E ih =>
    cases p with
    | nil => simp [lfNode_cons_nil]
    | cons y p =>
      rw [lfNode_cons_cons, ih p]
      by_cases hy : y = x
      · subst hy; simp
      · simp [hy]

theorem lfNode_self_const (E : Path) (a : Attr) (i : Nat) :
    lfNode E a (fun _ _ => Except.ok [(a, i)]) (E ++ [(a, i)]) = .ok (E ++ [(a, i)]) := by
  induction E with
  | nil => simp [lfNode_nil_cons]
  | cons x E ih => simp [lfNode_cons_cons, ih]

/-! ### insert -/

def insList (k : Nat) (stmts l : List Tree) : List Tree := l.take k ++ stmts ++ l.drop k

def insFn (k len : Nat) : Attr → Nat → Except Err Path := fun a i => .ok [(a, insUpd k len i)]

def insFb (k len : Nat) : Attr → Nat → Nat → Except Err BlockRes := fun a lo hi =>
  .ok ([], a, insUpd k len lo, if hi = 0 then 0 else insUpd k len (hi - 1) + 1)

theorem forwardInsert_eq (E : Path) (a : Attr) (i : Nat) (ty : GapType) (len : Nat) :
    forwardInsert (E ++ [(a, i)]) ty len =
      localForward E a (insFn (insertionIndex (E ++ [(a, i)]) ty) len)
        (insFb (insertionIndex (E ++ [(a, i)]) ty) len) := by
  simp only [forwardInsert, parentPath_snoc, lastAttr_snoc]
  rfl

theorem insertionIndex_snoc (E : Path) (a : Attr) (i : Nat) (ty : GapType) :
    insertionIndex (E ++ [(a, i)]) ty = (match ty with | .before => i | .after => i + 1) := by
  cases ty <;> simp [insertionIndex]

theorem spliceAt_insert (ty : GapType) (stmts l : List Tree) (i : Nat) (c : Tree) (hc : l[i]? = some c) :
    spliceAt (fun a => match ty with | .before => stmts ++ [a] | .after => [a] ++ stmts) i l =
      insList (match ty with | .before => i | .after => i + 1) stmts l := by
  have hi := getElem?_lt_length hc
  have hci : l[i] = c := by
    have := List.getElem?_eq_getElem hi
    rw [hc] at this; exact (Option.some.inj this).symm
  cases ty with
  | before =>
    simp only [spliceAt, hc, insList]
    rw [List.drop_eq_getElem_cons hi, hci]
    simp
  | after =>
    simp only [spliceAt, hc, insList]
    rw [List.take_add_one, List.getElem?_eq_getElem hi, hci]
    simp

theorem insert_tree_eq {t : Tree} {E : Path} {a : Attr} {i : Nat} (ty : GapType) (stmts : List Tree) {n : Tree}
    (hE : t.get? E = some n) {c : Tree} (hc : (n.children a)[i]? = some c) :
    (insert t (E ++ [(a, i)]) ty stmts).1 =
      t.modBlock (insList (insertionIndex (E ++ [(a, i)]) ty) stmts) a E := by
  have hv : (t.get? (E ++ [(a, i)])).isSome := by
    rw [Tree.get?_append_of_get? hE, Tree.get?_cons, hc]; simp
  simp only [insert, Tree.rewriteRoot, rewrite_snoc _ t E a i hv, List.headD_cons]
  -- the two child-list functions agree on the actual child list
  have key : ∀ (t : Tree) (E : Path) (n : Tree), t.get? E = some n → ∀ f g : List Tree → List Tree,
      f (n.children a) = g (n.children a) → t.modBlock f a E = t.modBlock g a E := by
    intro t E
    induction E generalizing t with
    | nil => intro n h f g hfg; simp at h; subst h; simp [hfg]
    | cons s E ih =>
      intro n h f g hfg
      obtain ⟨b, j⟩ := s
      rw [Tree.get?_cons] at h
      cases hcb : (t.children b)[j]? with
      | none => simp [hcb] at h
      | some cb =>
        simp only [hcb, Option.bind_some] at h
        simp only [Tree.modBlock, hcb, ih cb n h f g hfg]
  apply key t E n hE
  rw [insertionIndex_snoc]
  exact spliceAt_insert ty stmts _ i c hc

theorem insUpd_lt_iff (k len i j : Nat) : insUpd k len i < insUpd k len j ↔ i < j := by
  unfold insUpd; split <;> split <;> omega

theorem insUpd_inj (k len i j : Nat) (h : insUpd k len i = insUpd k len j) : i = j := by
  unfold insUpd at h; split at h <;> split at h <;> omega

theorem insert_nodeSpec (n : Tree) (a : Attr) (k : Nat) (stmts : List Tree) (hk : k ≤ (n.children a).length) :
    NodeSpec n a (insList k stmts (n.children a)) (insFn k stmts.length) where
  noCrash := by intro i h; simp [insFn] at h
  head := by intro i r h; simp only [insFn, Except.ok.injEq] at h; exact ⟨_, [], h.symm⟩
  same := by
    intro i c r hc hf
    simp only [insFn, Except.ok.injEq] at hf
    subst hf
    rw [Tree.get?_cons, Tree.children_setChildren_same]
    simp only [Tree.get?_nil, insList, insUpd]
    split
    · rw [getElem?_splice_right _ _ k k i _ hk (by omega) (by omega), hc]; rfl
    · rw [getElem?_splice_left _ _ _ k i (by omega) hk, hc]; rfl

theorem insert_nodeInj (n : Tree) (a : Attr) (k len : Nat) : NodeInj n a (insFn k len) := by
  intro i₁ i₂ r₁ r₂ x y _ _ h1 h2 h
  simp only [insFn, Except.ok.injEq] at h1 h2
  subst h1 h2
  simp only [List.cons_append, List.nil_append, List.cons.injEq, Prod.mk.injEq, true_and] at h
  exact insUpd_inj _ _ _ _ h.1

theorem insert_blockSpec (n : Tree) (a : Attr) (k : Nat) (stmts : List Tree) (hk : k ≤ (n.children a).length) :
    BlockSpec n a (insList k stmts (n.children a)) (insFn k stmts.length) (insFb k stmts.length)
      (fun _ _ => True) := by
  intro lo hi hlt hle _
  right
  have hne : hi ≠ 0 := by omega
  refine ⟨[], a, insUpd k stmts.length lo, insUpd k stmts.length (hi - 1) + 1, by simp [insFb, hne], ?_, ?_, ?_⟩
  · refine ⟨_, rfl, ?_, ?_⟩
    · have : insUpd k stmts.length lo ≤ insUpd k stmts.length (hi - 1) := by
        unfold insUpd; split <;> split <;> omega
      omega
    · rw [Tree.children_setChildren_same, insList, length_splice _ _ k k (Nat.le_refl _) hk]
      unfold insUpd; split <;> omega
  · intro j; exact ⟨j, [], rfl⟩
  · intro i r rest _ hf
    simp only [insFn, Except.ok.injEq] at hf
    subst hf
    rw [List.cons_append, covers_nil_pair_iff]
    simp only [List.nil_append, true_and]
    unfold insUpd
    split <;> split <;> split <;> omega

/-! ### replace / delete -/

def replFn (lo hi nIns : Nat) : Attr → Nat → Except Err Path := fun a i =>
  if lo ≤ i ∧ i < hi then .error .invalid else .ok [(a, replUpd lo hi nIns i)]

def replFb (lo hi nIns : Nat) : Attr → Nat → Nat → Except Err BlockRes := fun a blo bhi =>
  if intersectsPartially blo bhi lo hi || isSubRange blo bhi lo hi then .error .invalid
  else .ok ([], a, replUpd lo hi nIns blo, replUpd lo hi nIns bhi)

theorem forwardReplace_eq (bp : Path) (a : Attr) (lo hi nIns : Nat) :
    forwardReplace bp a lo hi nIns = localForward bp a (replFn lo hi nIns) (replFb lo hi nIns) := rfl

theorem replaceBlock_tree_eq {t : Tree} {bp : Path} (a : Attr) (lo hi : Nat) (nodes ed : List Tree)
    (hv : (t.get? bp).isSome) :
    (replaceBlock t bp a lo hi nodes ed).1 = t.modBlock (fun l => replaceList l lo hi nodes ed) a bp := by
  simp only [replaceBlock]
  exact rewriteRoot_update (fun l => replaceList l lo hi nodes ed) a t bp hv

theorem replaceList_eq_of_survivor {l : List Tree} {lo hi : Nat} (nodes ed : List Tree) {j : Nat}
    (hj : j < l.length) (hout : ¬ (lo ≤ j ∧ j < hi)) (hlo : lo ≤ hi) (hhi : hi ≤ l.length) :
    replaceList l lo hi nodes ed = l.take lo ++ nodes ++ l.drop hi := by
  unfold replaceList
  have hlen := length_splice l nodes lo hi hlo hhi
  cases hc : l.take lo ++ nodes ++ l.drop hi with
  | nil => rw [hc] at hlen; simp at hlen; omega
  | cons x xs => simp

theorem intersectsPartially_iff (alo ahi blo bhi : Nat) :
    intersectsPartially alo ahi blo bhi = true ↔
      (alo < blo ∧ blo < ahi ∧ ahi < bhi) ∨ (blo < alo ∧ alo < bhi ∧ bhi < ahi) := by
  simp only [intersectsPartially, Bool.or_eq_true, Bool.and_eq_true, decide_eq_true_eq]
  omega

theorem isSubRange_iff (alo ahi blo bhi : Nat) :
    isSubRange alo ahi blo bhi = true ↔
      alo ≥ blo ∧ ahi ≤ bhi ∧ ¬ ((ahi ≤ alo ∧ bhi ≤ blo) ∨ (alo = blo ∧ ahi = bhi)) := by
  simp only [isSubRange, rangeEq, Bool.and_eq_true, Bool.or_eq_true, decide_eq_true_eq,
    Bool.not_eq_true', Bool.or_eq_false_iff, Bool.and_eq_false_iff, decide_eq_false_iff_not]
  omega

theorem replace_nodeSpec (n : Tree) (a : Attr) (lo hi : Nat) (nodes ed : List Tree) (hlo : lo ≤ hi)
    (hhi : hi ≤ (n.children a).length) :
    NodeSpec n a (replaceList (n.children a) lo hi nodes ed) (replFn lo hi nodes.length) where
  noCrash := by intro i h; simp only [replFn] at h; split at h <;> simp at h
  head := by
    intro i r h
    simp only [replFn] at h
    split at h
    · simp at h
    · simp only [Except.ok.injEq] at h; exact ⟨_, [], h.symm⟩
  same := by
    intro i c r hc hf
    have hi' := getElem?_lt_length hc
    simp only [replFn] at hf
    split at hf
    · simp at hf
    · rename_i hout
      simp only [Except.ok.injEq] at hf
      subst hf
      rw [Tree.get?_cons, Tree.children_setChildren_same,
        replaceList_eq_of_survivor nodes ed hi' hout hlo hhi]
      simp only [Tree.get?_nil, replUpd]
      split
      · rw [getElem?_splice_right _ _ lo hi i _ (by omega) (by omega) (by omega), hc]; rfl
      · rw [getElem?_splice_left _ _ _ lo i (by omega) (by omega), hc]; rfl

theorem replace_nodeInj (n : Tree) (a : Attr) (lo hi nIns : Nat) (hlo : lo ≤ hi) :
    NodeInj n a (replFn lo hi nIns) := by
  intro i₁ i₂ r₁ r₂ x y _ _ h1 h2 h
  simp only [replFn] at h1 h2
  split at h1
  · simp at h1
  · split at h2
    · simp at h2
    · simp only [Except.ok.injEq] at h1 h2
      subst h1 h2
      simp only [List.cons_append, List.nil_append, List.cons.injEq, Prod.mk.injEq, true_and] at h
      have := h.1
      unfold replUpd at this
      split at this <;> split at this <;> omega

/-- `fwd_block` of replace on every block except "equal to the deleted range, nothing inserted" -/
theorem replace_blockSpec (n : Tree) (a : Attr) (lo hi : Nat) (nodes ed : List Tree) (hlo : lo ≤ hi)
    (hhi : hi ≤ (n.children a).length) :
    BlockSpec n a (replaceList (n.children a) lo hi nodes ed) (replFn lo hi nodes.length)
      (replFb lo hi nodes.length) (fun blo bhi => ¬ (blo = lo ∧ bhi = hi ∧ nodes = [])) := by
  intro blo bhi hlt hle hgood
  by_cases hinv : (intersectsPartially blo bhi lo hi || isSubRange blo bhi lo hi) = true
  · left; simp [replFb, hinv]
  · right
    have hinv0 := hinv
    rw [Bool.or_eq_true, intersectsPartially_iff, isSubRange_iff] at hinv
    have hlen : nodes = [] → ¬ (blo = lo ∧ bhi = hi) := fun h1 h2 => hgood ⟨h2.1, h2.2, h1⟩
    have hnl : nodes.length = 0 → nodes = [] := List.eq_nil_of_length_eq_zero
    refine ⟨[], a, replUpd lo hi nodes.length blo, replUpd lo hi nodes.length bhi, by simp [replFb, hinv0], ?_, ?_, ?_⟩
    · -- the new range is a non-empty range of the new list
      have hsurv : ∃ j, j < (n.children a).length ∧ ¬ (lo ≤ j ∧ j < hi) ∨ nodes ≠ [] := by
        by_cases hn : nodes = []
        · have := hlen hn
          by_cases h1 : blo < lo
          · exact ⟨blo, Or.inl ⟨by omega, by omega⟩⟩
          · exact ⟨bhi - 1, Or.inl ⟨by omega, by omega⟩⟩
        · exact ⟨0, Or.inr hn⟩
      have hl' : (replaceList (n.children a) lo hi nodes ed).length =
          lo + nodes.length + ((n.children a).length - hi) := by
        obtain ⟨j, hj | hj⟩ := hsurv
        · rw [replaceList_eq_of_survivor nodes ed hj.1 hj.2 hlo hhi, length_splice _ _ _ _ hlo hhi]
        · unfold replaceList
          have : ((n.children a).take lo ++ nodes ++ (n.children a).drop hi).isEmpty = false := by
            cases nodes with
            | nil => exact absurd rfl hj
            | cons x xs => simp
          simp only [this, Bool.false_eq_true, if_false]
          exact length_splice _ _ _ _ hlo hhi
      refine ⟨_, rfl, ?_, ?_⟩
      · unfold replUpd
        by_cases hn : nodes.length = 0
        · have := hlen (hnl hn)
          split <;> split <;> omega
        · split <;> split <;> omega
      · rw [Tree.children_setChildren_same, hl']
        unfold replUpd
        split <;> omega
    · intro j; exact ⟨j, [], rfl⟩
    · intro i r rest hi' hf
      simp only [replFn] at hf
      split at hf
      · simp at hf
      · rename_i hout
        simp only [Except.ok.injEq] at hf
        subst hf
        rw [List.cons_append, covers_nil_pair_iff]
        simp only [List.nil_append, true_and]
        unfold replUpd
        split <;> split <;> split <;> omega

/-! ### wrap -/

def wrapFn (lo hi : Nat) (wa : Attr) : Attr → Nat → Except Err Path := fun a i =>
  if i ≥ hi then .ok [(a, wrapShift lo hi i)]
  else if i ≥ lo then .ok [(a, lo), (wa, i - lo)]
  else .ok [(a, i)]

def wrapFb (lo hi : Nat) (wa : Attr) : Attr → Nat → Nat → Except Err BlockRes := fun a blo bhi =>
  if blo ≥ hi then .ok ([], a, wrapShift lo hi blo, wrapShift lo hi bhi)
  else if bhi ≤ lo then .ok ([], a, blo, bhi)
  else if (lo ≤ blo ∧ blo < hi) ∧ (bhi ≠ 0 ∧ lo ≤ bhi - 1 ∧ bhi - 1 < hi) then
    .ok ([(a, lo)], wa, blo - lo, bhi - lo)
  else if (blo ≤ lo ∧ lo < bhi) ∧ (hi ≠ 0 ∧ blo ≤ hi - 1 ∧ hi - 1 < bhi) then
    .ok ([], a, blo, bhi + 1 - (hi - lo))
  else .error .invalid

theorem forwardWrap_eq (bp : Path) (a : Attr) (lo hi : Nat) (wa : Attr) :
    forwardWrap bp a lo hi wa = localForward bp a (wrapFn lo hi wa) (wrapFb lo hi wa) := rfl

theorem wrap_tree_eq {t : Tree} {bp : Path} (a : Attr) (lo hi : Nat) (ctor : List Tree → Tree) (wa : Attr)
    (hv : (t.get? bp).isSome) :
    (wrap t bp a lo hi ctor wa).1 = t.modBlock (fun l => wrapList l lo hi ctor) a bp := by
  simp only [wrap]
  exact rewriteRoot_update (fun l => wrapList l lo hi ctor) a t bp hv

theorem wrap_nodeSpec (n : Tree) (a : Attr) (lo hi : Nat) (ctor : List Tree → Tree) (wa : Attr)
    (hd : WrapDirect ctor wa) (hlo : lo ≤ hi) (hhi : hi ≤ (n.children a).length) :
    NodeSpec n a (wrapList (n.children a) lo hi ctor) (wrapFn lo hi wa) where
  noCrash := by intro i h; simp only [wrapFn] at h; split at h <;> (try split at h) <;> simp at h
  head := by
    intro i r h
    simp only [wrapFn] at h
    split at h
    · simp only [Except.ok.injEq] at h; exact ⟨_, [], h.symm⟩
    · split at h
      · simp only [Except.ok.injEq] at h; exact ⟨_, _, h.symm⟩
      · simp only [Except.ok.injEq] at h; exact ⟨_, [], h.symm⟩
  same := by
    intro i c r hc hf
    have hi' := getElem?_lt_length hc
    simp only [wrapFn] at hf
    split at hf
    · simp only [Except.ok.injEq] at hf
      subst hf
      rw [Tree.get?_cons, Tree.children_setChildren_same]
      simp only [Tree.get?_nil, wrapList, wrapShift]
      rw [getElem?_splice_right _ _ lo hi i _ (by omega) (by simp; omega) (by omega), hc]; rfl
    · split at hf
      · simp only [Except.ok.injEq] at hf
        subst hf
        rw [Tree.get?_cons, Tree.children_setChildren_same]
        have h0 : (wrapList (n.children a) lo hi ctor)[lo]? =
            some (ctor (((n.children a).drop lo).take (hi - lo))) := by
          have := getElem?_splice_mid (n.children a) [ctor (((n.children a).drop lo).take (hi - lo))]
            ((n.children a).drop hi) lo 0 (by omega)
          simpa [wrapList] using this
        rw [h0]
        simp only [Option.bind_some, Tree.get?_cons, hd _, Tree.get?_nil]
        have : (((n.children a).drop lo).take (hi - lo))[i - lo]? = (n.children a)[i]? := by
          rw [List.getElem?_take]
          have : i - lo < hi - lo := by omega
          simp only [this, if_true, List.getElem?_drop]
          congr 1; omega
        rw [this, hc]; rfl
      · simp only [Except.ok.injEq] at hf
        subst hf
        rw [Tree.get?_cons, Tree.children_setChildren_same]
        simp only [Tree.get?_nil, wrapList]
        rw [getElem?_splice_left _ _ _ lo i (by omega) (by omega), hc]; rfl

theorem wrap_nodeInj (n : Tree) (a : Attr) (lo hi : Nat) (wa : Attr) (hlo : lo ≤ hi) :
    NodeInj n a (wrapFn lo hi wa) := by
  intro i₁ i₂ r₁ r₂ x y _ _ h1 h2 h
  simp only [wrapFn, wrapShift] at h1 h2
  split at h1 <;> (try split at h1) <;> split at h2 <;> (try split at h2) <;>
    simp only [Except.ok.injEq] at h1 h2 <;> subst h1 h2 <;>
    simp only [List.cons_append, List.nil_append, List.cons.injEq, Prod.mk.injEq, true_and] at h <;>
    omega

/-- `fwd_block` of wrap, on every block of the edited list -/
theorem wrap_blockSpec (n : Tree) (a : Attr) (lo hi : Nat) (ctor : List Tree → Tree) (wa : Attr)
    (hd : WrapDirect ctor wa) (hlo : lo < hi) (hhi : hi ≤ (n.children a).length) :
    BlockSpec n a (wrapList (n.children a) lo hi ctor) (wrapFn lo hi wa) (wrapFb lo hi wa)
      (fun _ _ => True) := by
  intro blo bhi hlt hle _
  have hl' : (wrapList (n.children a) lo hi ctor).length = lo + 1 + ((n.children a).length - hi) := by
    simp only [wrapList]
    rw [length_splice _ _ _ _ (by omega) hhi]; rfl
  have hcov1 : ∀ (lo' hi' : Nat) (i : Nat) (r rest : Path), wrapFn lo hi wa a i = .ok r →
      (Covers [] a lo' hi' (r ++ rest) ↔
        lo' ≤ (if i ≥ hi then wrapShift lo hi i else if i ≥ lo then lo else i) ∧
        (if i ≥ hi then wrapShift lo hi i else if i ≥ lo then lo else i) < hi') := by
    intro lo' hi' i r rest hf
    simp only [wrapFn] at hf
    by_cases c1 : i ≥ hi
    · simp only [c1, if_true, Except.ok.injEq] at hf ⊢
      subst hf
      rw [List.cons_append, covers_nil_pair_iff]; simp only [true_and]
    · by_cases c2 : i ≥ lo
      · simp only [c1, c2, if_true, if_false, Except.ok.injEq] at hf ⊢
        subst hf
        rw [List.cons_append, covers_nil_pair_iff]; simp only [true_and]
      · simp only [c1, c2, if_false, Except.ok.injEq] at hf ⊢
        subst hf
        rw [List.cons_append, covers_nil_pair_iff]; simp only [true_and]
  by_cases h1 : blo ≥ hi
  · right
    refine ⟨[], a, wrapShift lo hi blo, wrapShift lo hi bhi, by simp [wrapFb, h1], ?_, ?_, ?_⟩
    · refine ⟨_, rfl, by unfold wrapShift; omega, ?_⟩
      rw [Tree.children_setChildren_same, hl']; unfold wrapShift; omega
    · intro j; exact ⟨j, [], rfl⟩
    · intro i r rest _ hf
      rw [hcov1 _ _ i r rest hf]
      unfold wrapShift
      split <;> (try split) <;> omega
  · by_cases h2 : bhi ≤ lo
    · right
      refine ⟨[], a, blo, bhi, by simp [wrapFb, h1, h2], ?_, ?_, ?_⟩
      · refine ⟨_, rfl, hlt, ?_⟩
        rw [Tree.children_setChildren_same, hl']; omega
      · intro j; exact ⟨j, [], rfl⟩
      · intro i r rest _ hf
        rw [hcov1 _ _ i r rest hf]
        unfold wrapShift
        split <;> (try split) <;> omega
    · by_cases h3 : (lo ≤ blo ∧ blo < hi) ∧ (bhi ≠ 0 ∧ lo ≤ bhi - 1 ∧ bhi - 1 < hi)
      · -- inside the wrapped range: below the wrapper, which sits at index `lo`
        right
        refine ⟨[(a, lo)], wa, blo - lo, bhi - lo, by simp [wrapFb, h1, h2, h3], ?_, ?_, ?_⟩
        · refine ⟨ctor (((n.children a).drop lo).take (hi - lo)), ?_, by omega, ?_⟩
          · rw [Tree.get?_cons, Tree.children_setChildren_same]
            have h0 : (wrapList (n.children a) lo hi ctor)[lo]? =
                some (ctor (((n.children a).drop lo).take (hi - lo))) := by
              have := getElem?_splice_mid (n.children a) [ctor (((n.children a).drop lo).take (hi - lo))]
                ((n.children a).drop hi) lo 0 (by omega)
              simpa [wrapList] using this
            rw [h0]; rfl
          · rw [hd]; simp; omega
        · intro j; exact ⟨lo, [(wa, j)], rfl⟩
        · intro i r rest _ hf
          simp only [wrapFn] at hf
          split at hf
          · simp only [Except.ok.injEq] at hf; subst hf
            constructor
            · rintro ⟨j, s, _, _, h⟩
              simp only [List.cons_append, List.nil_append, List.cons.injEq, Prod.mk.injEq, true_and] at h
              unfold wrapShift at h; omega
            · intro h; omega
          · split at hf
            · simp only [Except.ok.injEq] at hf; subst hf
              constructor
              · rintro ⟨j, s, h4, h5, h⟩
                simp only [List.cons_append, List.nil_append, List.cons.injEq, Prod.mk.injEq, true_and] at h
                omega
              · intro h
                exact ⟨i - lo, rest, by omega, by omega, by simp⟩
            · simp only [Except.ok.injEq] at hf; subst hf
              constructor
              · rintro ⟨j, s, _, _, h⟩
                simp only [List.cons_append, List.nil_append, List.cons.injEq, Prod.mk.injEq, true_and] at h
                omega
              · intro h; omega
      · by_cases h4 : (blo ≤ lo ∧ lo < bhi) ∧ (hi ≠ 0 ∧ blo ≤ hi - 1 ∧ hi - 1 < bhi)
        · right
          refine ⟨[], a, blo, bhi + 1 - (hi - lo), by simp [wrapFb, h1, h2, h3, h4], ?_, ?_, ?_⟩
          · refine ⟨_, rfl, by omega, ?_⟩
            rw [Tree.children_setChildren_same, hl']; omega
          · intro j; exact ⟨j, [], rfl⟩
          · intro i r rest _ hf
            rw [hcov1 _ _ i r rest hf]
            unfold wrapShift
            split <;> (try split) <;> omega
        · left; simp [wrapFb, h1, h2, h3, h4]

/-! ### assembled coherence of insert / replace (used again for `_move`) -/

theorem insert_coherent_aux (t : Tree) (anchor : Path) (ty : GapType) (stmts : List Tree)
    (hne : anchor ≠ []) (hv : ValidNode t anchor) :
    CoherentB t (insert t anchor ty stmts).1 (insert t anchor ty stmts).2 := by
  obtain ⟨E, a, i, rfl⟩ := exists_snoc_of_ne_nil hne
  obtain ⟨c0, hc0⟩ := Option.isSome_iff_exists.mp hv
  rw [Tree.get?_append] at hc0
  cases hE : t.get? E with
  | none => simp [hE] at hc0
  | some n =>
    simp only [hE, Option.bind_some] at hc0
    obtain ⟨c, hc, _⟩ := base_get_through hc0
    have hi := getElem?_lt_length hc
    have hk : insertionIndex (E ++ [(a, i)]) ty ≤ (n.children a).length := by
      rw [insertionIndex_snoc]; cases ty <;> simp <;> omega
    rw [insert_tree_eq ty stmts hE hc]
    show CoherentB t _ (forwardInsert (E ++ [(a, i)]) ty stmts.length)
    rw [forwardInsert_eq]
    have spec := insert_nodeSpec n a _ stmts hk
    refine { toCoherent := localForward_coherent _ hE spec, block := ?_ }
    intro anchor b lo hi hvb
    exact localForward_blockCohAt hE spec (insert_nodeInj n a _ _) (insert_blockSpec n a _ stmts hk) hvb
      (fun _ _ => trivial)

theorem replace_coherent_aux (t n : Tree) (bp : Path) (a : Attr) (lo hi : Nat) (nodes ed : List Tree)
    (hv : t.get? bp = some n) (hlo : lo ≤ hi) (hhi : hi ≤ (n.children a).length) :
    Coherent t (replaceBlock t bp a lo hi nodes ed).1 (replaceBlock t bp a lo hi nodes ed).2 := by
  rw [replaceBlock_tree_eq a lo hi nodes ed (by simp [hv])]
  show Coherent t _ (forwardReplace bp a lo hi nodes.length)
  rw [forwardReplace_eq]
  exact localForward_coherent _ hv (replace_nodeSpec n a lo hi nodes ed hlo hhi)

theorem delete_coherent_aux (t n : Tree) (bp : Path) (a : Attr) (lo hi : Nat) (pass : Tree)
    (hv : t.get? bp = some n) (hlo : lo ≤ hi) (hhi : hi ≤ (n.children a).length) :
    Coherent t (deleteBlock t bp a lo hi pass).1 (deleteBlock t bp a lo hi pass).2 :=
  replace_coherent_aux t n bp a lo hi [] [pass] hv hlo hhi

end Exo.Cursor
