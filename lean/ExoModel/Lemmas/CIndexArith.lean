/-
  ExoModel.Lemmas.CIndexArith — arithmetic of the emitted C index expressions
  (helper lemmas of C02, part A): `exo_floor_div`, C's truncating `/` and `%` against floor
  division, `comp_cir` / `simplify_cir` / `lift_to_cir` / the index part of `comp_e`.
  Core only (no Mathlib in this project).
-/
import ExoModel.CIndex

namespace Exo.CIndex
open Exo.Range (IExpr Op Val)

/-! ## integer facts -/

/-- uniqueness of quotient for a positive divisor -/
theorem CIndex_ediv_of_decomp {n q d r : Int} (hq : 0 < q) (h : r + q * d = n) (h0 : 0 ≤ r)
    (h1 : r < q) : n / q = d :=
  ((Int.ediv_emod_unique hq).2 ⟨h, h0, h1⟩).1

theorem CIndex_emod_of_decomp {n q d r : Int} (hq : 0 < q) (h : r + q * d = n) (h0 : 0 ≤ r)
    (h1 : r < q) : n % q = r :=
  ((Int.ediv_emod_unique hq).2 ⟨h, h0, h1⟩).2

/-- the C helper `exo_floor_div` (written on truncating division) is floor division for every
    numerator and every positive divisor -/
theorem CIndex_exoFloorDiv_eq_floor (n q : Int) (hq : 0 < q) : exoFloorDiv n q = n / q := by
  unfold exoFloorDiv
  by_cases hn : n ≥ 0
  · simp only [hn, if_true, Int.sub_zero]
    exact Int.tdiv_eq_ediv_of_nonneg hn
  · simp only [hn, if_false]
    have hm : n - (q - 1) = -(q - 1 - n) := by omega
    rw [hm, Int.neg_tdiv, Int.tdiv_eq_ediv_of_nonneg (by omega)]
    have hr0 := Int.emod_nonneg n (Int.ne_of_gt hq)
    have hr1 := Int.emod_lt_of_pos n hq
    have hd := Int.emod_add_mul_ediv n q
    have : (q - 1 - n) / q = -(n / q) := by
      apply CIndex_ediv_of_decomp hq (r := q - 1 - n % q) _ (by omega) (by omega)
      rw [Int.mul_neg]; omega
    rw [this, Int.neg_neg]

/-- for a negative divisor the helper is *not* floor division: it computes
    `trunc((n - q + 1) / q)` on negative numerators (the front end only accepts positive literal
    divisors, so this is unreachable) -/
theorem CIndex_exoFloorDiv_neg_witness :
    exoFloorDiv (-4) (-2) = 0 ∧ (-4 : Int) / (-2) = 2 ∧ Int.fdiv (-4) (-2) = 2 ∧
    exoFloorDiv 5 (-2) = -2 ∧ Int.fdiv 5 (-2) = -3 := by decide

theorem CIndex_c_div_eq_floor_iff (n q : Int) (hq : 0 < q) :
    Int.tdiv n q = n / q ↔ (0 ≤ n ∨ q ∣ n) := by
  rw [Int.tdiv_eq_ediv, Int.sign_eq_one_of_pos hq]
  by_cases h : 0 ≤ n ∨ q ∣ n
  · simp [h]
  · simp only [h, if_false, iff_false]; omega

theorem CIndex_c_mod_eq_floor_iff (n q : Int) (hq : 0 < q) :
    Int.tmod n q = n % q ↔ (0 ≤ n ∨ q ∣ n) := by
  rw [Int.tmod_eq_emod]
  by_cases h : 0 ≤ n ∨ q ∣ n
  · simp [h]
  · simp only [h, if_false, iff_false]
    have : (q.natAbs : Int) = q := Int.natAbs_of_nonneg (Int.le_of_lt hq)
    omega

theorem CIndex_fmod_eq_emod_of_pos (a : Int) {b : Int} (hb : 0 < b) : Int.fmod a b = a % b :=
  Int.fmod_eq_emod_of_nonneg a (Int.le_of_lt hb)

/-! ## predicates on CIR at a valuation -/

/-- every `read` / `bin` / `usub` node whose `is_non_neg` flag is set evaluates to a value ≥ 0 -/
def FlagsOK (ρ : Val) (σ : Sym → Nat → Int) : CIR → Prop
  | .read x nn => nn = true → 0 ≤ ρ x
  | .const _ => True
  | .bin op a b nn => FlagsOK ρ σ a ∧ FlagsOK ρ σ b ∧
      (nn = true → 0 ≤ (CIR.bin op a b nn).eval ρ σ)
  | .usub a nn => FlagsOK ρ σ a ∧ (nn = true → 0 ≤ (CIR.usub a nn).eval ρ σ)
  | .stride _ _ => True

/-- the right operand of every `/` and `%` evaluates to a positive value -/
def PosDivisors (ρ : Val) (σ : Sym → Nat → Int) : CIR → Prop
  | .bin op a b _ => PosDivisors ρ σ a ∧ PosDivisors ρ σ b ∧
      ((op = .div ∨ op = .mod) → 0 < b.eval ρ σ)
  | .usub a _ => PosDivisors ρ σ a
  | _ => True

/-- the left operand of every `%` evaluates to a non-negative value -/
def ModNumNonneg (ρ : Val) (σ : Sym → Nat → Int) : CIR → Prop
  | .bin op a b _ => ModNumNonneg ρ σ a ∧ ModNumNonneg ρ σ b ∧ (op = .mod → 0 ≤ a.eval ρ σ)
  | .usub a _ => ModNumNonneg ρ σ a
  | _ => True

/-- the same two side conditions on index expressions (for `comp_e`) -/
def PosDivisorsE (ρ : Val) : IExpr → Prop
  | .bin op a b => PosDivisorsE ρ a ∧ PosDivisorsE ρ b ∧
      ((op = .div ∨ op = .mod) → 0 < Exo.Range.eval b ρ)
  | .neg a => PosDivisorsE ρ a
  | _ => True

def ModNumNonnegE (ρ : Val) : IExpr → Prop
  | .bin op a b => ModNumNonnegE ρ a ∧ ModNumNonnegE ρ b ∧ (op = .mod → 0 ≤ Exo.Range.eval a ρ)
  | .neg a => ModNumNonnegE ρ a
  | _ => True

/-! ## `comp_cir` -/

theorem CIndex_divLhsNonNeg_sound {ρ : Val} {σ : Sym → Nat → Int} {a : CIR}
    (hf : FlagsOK ρ σ a) (h : divLhsNonNeg a = true) : 0 ≤ a.eval ρ σ := by
  cases a with
  | read x nn => simp only [divLhsNonNeg] at h; exact hf h
  | const n => simp only [divLhsNonNeg, decide_eq_true_eq] at h; simp only [CIR.eval]; omega
  | bin op a b nn => simp only [divLhsNonNeg] at h; exact hf.2.2 h
  | usub a nn => simp [divLhsNonNeg] at h
  | stride x d => simp [divLhsNonNeg] at h

theorem CIndex_compAst_correct {ρ : Val} {σ : Sym → Nat → Int} (c : CIR)
    (hf : FlagsOK ρ σ c) (hp : PosDivisors ρ σ c) (hm : ModNumNonneg ρ σ c) :
    cEval ρ σ (compAst c) = c.eval ρ σ := by
  induction c with
  | read x nn => rfl
  | const n => rfl
  | stride x d => rfl
  | usub a nn ih =>
      simp only [compAst, cEval, CIR.eval]
      rw [ih hf.1 hp hm]
  | bin op a b nn iha ihb =>
      have ea := iha hf.1 hp.1 hm.1
      have eb := ihb hf.2.1 hp.2.1 hm.2.1
      cases op with
      | add => simp [compAst, cEval, CIR.eval, Exo.Range.evalOp, ea, eb]
      | sub => simp [compAst, cEval, CIR.eval, Exo.Range.evalOp, ea, eb]
      | mul => simp [compAst, cEval, CIR.eval, Exo.Range.evalOp, ea, eb]
      | mod =>
          simp only [compAst, cEval, CIR.eval, Exo.Range.evalOp, ea, eb, reduceCtorEq, if_false]
          exact Int.tmod_eq_emod_of_nonneg (hm.2.2 rfl)
      | div =>
          have hb : 0 < b.eval ρ σ := hp.2.2 (Or.inl rfl)
          by_cases hd : divLhsNonNeg a = true
          · simp only [compAst, hd, if_true, cEval, CIR.eval, Exo.Range.evalOp, ea, eb]
            exact Int.tdiv_eq_ediv_of_nonneg (CIndex_divLhsNonNeg_sound hf.1 hd)
          · have hd' : divLhsNonNeg a = false := by simpa using hd
            simp only [compAst, hd', Bool.false_eq_true, if_true, if_false, cEval, CIR.eval,
              Exo.Range.evalOp, ea, eb]
            exact CIndex_exoFloorDiv_eq_floor _ _ hb

/-! ## `simplify_cir` -/

theorem CIndex_isConst_eq {c : CIR} {v : Int} (h : isConst c v = true) : c = .const v := by
  cases c <;> simp [isConst] at h
  subst h; rfl

/-- the four facts `simplify_correct` keeps about a pair (result, original value `v`, original
    flag facts) -/
structure SimpRel (ρ : Val) (σ : Sym → Nat → Int) (c c' : CIR) : Prop where
  eval_eq : c'.eval ρ σ = c.eval ρ σ
  flags : FlagsOK ρ σ c → FlagsOK ρ σ c'
  pos : PosDivisors ρ σ c'
  modnum : ModNumNonneg ρ σ c → ModNumNonneg ρ σ c'

theorem CIndex_simpNeg_rel {ρ : Val} {σ : Sym → Nat → Int} {a x : CIR} (nn : Bool)
    (h : SimpRel ρ σ a x) : SimpRel ρ σ (.usub a nn) (simpNeg x nn) := by
  obtain ⟨he, hf, hp, hm⟩ := h
  cases x with
  | usub b f =>
      refine ⟨?_, fun h => (hf h.1).1, hp, fun h => hm h⟩
      simp only [simpNeg, CIR.eval] at he ⊢; omega
  | const n =>
      refine ⟨?_, fun _ => trivial, trivial, fun _ => trivial⟩
      simp only [simpNeg, CIR.eval] at he ⊢; omega
  | read y f =>
      refine ⟨?_, fun h => ⟨hf h.1, fun hn => ?_⟩, hp, fun h => hm h⟩
      · simp only [simpNeg, CIR.eval] at he ⊢; omega
      · have := h.2 hn; simp only [CIR.eval] at he this ⊢; omega
  | bin op l r f =>
      refine ⟨?_, fun h => ⟨hf h.1, fun hn => ?_⟩, hp, fun h => hm h⟩
      · simp only [simpNeg, CIR.eval] at he ⊢; omega
      · have := h.2 hn; simp only [CIR.eval] at he this ⊢; omega
  | stride y d =>
      refine ⟨?_, fun h => ⟨hf h.1, fun hn => ?_⟩, hp, fun h => hm h⟩
      · simp only [simpNeg, CIR.eval] at he ⊢; omega
      · have := h.2 hn; simp only [CIR.eval] at he this ⊢; omega

/-- the generic (last) branch of `simpBin`: rebuild the node -/
theorem CIndex_simpBin_rebuild {ρ : Val} {σ : Sym → Nat → Int} {op : Op} {a b l r : CIR}
    (nn : Bool) (ha : SimpRel ρ σ a l) (hb : SimpRel ρ σ b r)
    (hpos : (op = .div ∨ op = .mod) → 0 < b.eval ρ σ) :
    SimpRel ρ σ (.bin op a b nn) (.bin op l r nn) := by
  refine ⟨?_, fun h => ⟨ha.flags h.1, hb.flags h.2.1, fun hn => ?_⟩,
    ⟨ha.pos, hb.pos, fun ho => ?_⟩, fun h => ⟨ha.modnum h.1, hb.modnum h.2.1, fun ho => ?_⟩⟩
  · simp only [CIR.eval, ha.eval_eq, hb.eval_eq]
  · have := h.2.2 hn; simpa only [CIR.eval, ha.eval_eq, hb.eval_eq] using this
  · rw [hb.eval_eq]; exact hpos ho
  · rw [ha.eval_eq]; exact h.2.2 ho

theorem CIndex_simpBin_rel {ρ : Val} {σ : Sym → Nat → Int} {op : Op} {a b l r c' : CIR}
    (nn : Bool) (ha : SimpRel ρ σ a l) (hb : SimpRel ρ σ b r)
    (hpos : (op = .div ∨ op = .mod) → 0 < b.eval ρ σ)
    (h : simpBin op l r nn = .ok c') : SimpRel ρ σ (.bin op a b nn) c' := by
  have triv : ∀ n : Int, n = Exo.Range.evalOp op (a.eval ρ σ) (b.eval ρ σ) →
      SimpRel ρ σ (.bin op a b nn) (.const n) := fun n hn =>
    ⟨by simp only [CIR.eval]; exact hn, fun _ => trivial, trivial, fun _ => trivial⟩
  have eqa := ha.eval_eq
  have eqb := hb.eval_eq
  -- transfer to one of the operands
  have toL : Exo.Range.evalOp op (a.eval ρ σ) (b.eval ρ σ) = a.eval ρ σ →
      SimpRel ρ σ (.bin op a b nn) l := fun hv =>
    ⟨by simp only [CIR.eval]; rw [hv]; exact eqa, fun h => ha.flags h.1, ha.pos,
     fun h => ha.modnum h.1⟩
  have toR : Exo.Range.evalOp op (a.eval ρ σ) (b.eval ρ σ) = b.eval ρ σ →
      SimpRel ρ σ (.bin op a b nn) r := fun hv =>
    ⟨by simp only [CIR.eval]; rw [hv]; exact eqb, fun h => hb.flags h.2.1, hb.pos,
     fun h => hb.modnum h.2.1⟩
  unfold simpBin at h
  split at h
  · -- two constants
    rename_i x y
    simp only [CIR.eval] at eqa eqb
    cases op with
    | add => simp only [foldOp, pure, Except.pure, Except.map, Except.ok.injEq] at h
             subst h; exact triv _ (by simp [Exo.Range.evalOp, eqa, eqb])
    | sub => simp only [foldOp, pure, Except.pure, Except.map, Except.ok.injEq] at h
             subst h; exact triv _ (by simp [Exo.Range.evalOp, eqa, eqb])
    | mul => simp only [foldOp, pure, Except.pure, Except.map, Except.ok.injEq] at h
             subst h; exact triv _ (by simp [Exo.Range.evalOp, eqa, eqb])
    | div => simp only [foldOp] at h; split at h <;> simp [throw, throwThe, MonadExceptOf.throw, Except.map] at h
    | mod =>
        have hy : 0 < y := by rw [eqb]; exact hpos (Or.inr rfl)
        simp only [foldOp] at h
        split at h
        · omega
        · simp only [pure, Except.pure, Except.map, Except.ok.injEq] at h
          subst h
          exact triv _ (by simp only [Exo.Range.evalOp, ← eqa, ← eqb]; exact CIndex_fmod_eq_emod_of_pos _ hy)
  · split at h
    · -- 0 + r
      rename_i hc
      simp only [Bool.and_eq_true, beq_iff_eq] at hc
      have hl := CIndex_isConst_eq hc.1; subst hl
      simp only [pure, Except.pure, Except.ok.injEq] at h; subst h
      simp only [CIR.eval] at eqa
      exact toR (by rw [hc.2]; simp [Exo.Range.evalOp, ← eqa])
    · split at h
      · -- 0 * r, 0 / r
        rename_i hc
        simp only [Bool.and_eq_true, Bool.or_eq_true, beq_iff_eq] at hc
        have hl := CIndex_isConst_eq hc.1; subst hl
        simp only [pure, Except.pure, Except.ok.injEq] at h; subst h
        simp only [CIR.eval] at eqa
        rcases hc.2 with ho | ho <;> subst ho <;> exact triv _ (by simp [Exo.Range.evalOp, ← eqa])
      · split at h
        · simp [throw, throwThe, MonadExceptOf.throw] at h
        · split at h
          · -- l + 0, l - 0
            rename_i hc
            simp only [Bool.and_eq_true, Bool.or_eq_true, beq_iff_eq] at hc
            have hr := CIndex_isConst_eq hc.1; subst hr
            simp only [pure, Except.pure, Except.ok.injEq] at h; subst h
            simp only [CIR.eval] at eqb
            rcases hc.2 with ho | ho <;> subst ho <;> exact toL (by simp [Exo.Range.evalOp, ← eqb])
          · split at h
            · -- l * 0
              rename_i hc
              simp only [Bool.and_eq_true, beq_iff_eq] at hc
              have hr := CIndex_isConst_eq hc.1; subst hr
              simp only [pure, Except.pure, Except.ok.injEq] at h; subst h
              simp only [CIR.eval] at eqb
              obtain ⟨_, ho⟩ := hc; subst ho
              exact triv _ (by simp [Exo.Range.evalOp, ← eqb])
            · split at h
              · simp [throw, throwThe, MonadExceptOf.throw] at h
              · split at h
                · -- 1 * r
                  rename_i hc
                  simp only [Bool.and_eq_true, beq_iff_eq] at hc
                  have hl := CIndex_isConst_eq hc.1; subst hl
                  simp only [pure, Except.pure, Except.ok.injEq] at h; subst h
                  simp only [CIR.eval] at eqa
                  exact toR (by rw [hc.2]; simp [Exo.Range.evalOp, ← eqa])
                · split at h
                  · -- l * 1, l / 1
                    rename_i hc
                    simp only [Bool.and_eq_true, Bool.or_eq_true, beq_iff_eq] at hc
                    have hr := CIndex_isConst_eq hc.1; subst hr
                    simp only [pure, Except.pure, Except.ok.injEq] at h; subst h
                    simp only [CIR.eval] at eqb
                    rcases hc.2 with ho | ho <;> subst ho <;>
                      exact toL (by simp [Exo.Range.evalOp, ← eqb])
                  · simp only [pure, Except.pure, Except.ok.injEq] at h; subst h
                    exact CIndex_simpBin_rebuild nn ha hb hpos

theorem CIndex_simplify_rel {ρ : Val} {σ : Sym → Nat → Int} (c : CIR) {c' : CIR}
    (h : simplify c = .ok c') (hp : PosDivisors ρ σ c) : SimpRel ρ σ c c' := by
  induction c generalizing c' with
  | read x nn =>
      simp only [simplify, pure, Except.pure, Except.ok.injEq] at h; subst h
      exact ⟨rfl, id, trivial, id⟩
  | const n =>
      simp only [simplify, pure, Except.pure, Except.ok.injEq] at h; subst h
      exact ⟨rfl, id, trivial, id⟩
  | stride x d =>
      simp only [simplify, pure, Except.pure, Except.ok.injEq] at h; subst h
      exact ⟨rfl, id, trivial, id⟩
  | usub a nn ih =>
      simp only [simplify] at h
      split at h
      · rename_i x hx
        simp only [pure, Except.pure, Except.ok.injEq] at h; subst h
        exact CIndex_simpNeg_rel nn (ih hx hp)
      · cases h
  | bin op a b nn iha ihb =>
      simp only [simplify] at h
      split at h
      · rename_i l r hl hr
        exact CIndex_simpBin_rel nn (iha hl hp.1) (ihb hr hp.2.1) hp.2.2 h
      · cases h
      · cases h

/-! ## `lift_to_cir` -/

theorem CIndex_lift_correct {nn : IExpr → Bool} {ρ : Val} {σ : Sym → Nat → Int} (e : IExpr)
    {c : CIR} (h : lift nn e = some c) : c.eval ρ σ = Exo.Range.eval e ρ := by
  induction e generalizing c with
  | var x => simp only [lift, Option.some.injEq] at h; subst h; rfl
  | const n => simp only [lift, Option.some.injEq] at h; subst h; rfl
  | other => simp [lift] at h
  | neg a ih =>
      simp only [lift] at h
      split at h
      · rename_i x hx
        simp only [Option.some.injEq] at h; subst h
        simp only [CIR.eval, Exo.Range.eval, ih hx]
      · cases h
  | bin op a b iha ihb =>
      simp only [lift] at h
      split at h
      · rename_i l r hl hr
        simp only [Option.some.injEq] at h; subst h
        simp only [CIR.eval, Exo.Range.eval, iha hl, ihb hr]
      · cases h

theorem CIndex_lift_flagsOK {nn : IExpr → Bool} {ρ : Val} {σ : Sym → Nat → Int}
    (hnn : ∀ e', nn e' = true → 0 ≤ Exo.Range.eval e' ρ) (e : IExpr)
    {c : CIR} (h : lift nn e = some c) : FlagsOK ρ σ c := by
  induction e generalizing c with
  | var x =>
      simp only [lift, Option.some.injEq] at h; subst h
      exact fun hf => hnn _ hf
  | const n => simp only [lift, Option.some.injEq] at h; subst h; trivial
  | other => simp [lift] at h
  | neg a ih =>
      have hl := h
      simp only [lift] at h
      split at h
      · rename_i x hx
        simp only [Option.some.injEq] at h; subst h
        refine ⟨ih (c := x) hx, fun hf => ?_⟩
        rw [CIndex_lift_correct (σ := σ) (.neg a) hl]; exact hnn _ hf
      · cases h
  | bin op a b iha ihb =>
      have hl := h
      simp only [lift] at h
      split at h
      · rename_i l r hl' hr
        simp only [Option.some.injEq] at h; subst h
        refine ⟨iha (c := l) hl', ihb (c := r) hr, fun hf => ?_⟩
        rw [CIndex_lift_correct (σ := σ) (.bin op a b) hl]; exact hnn _ hf
      · cases h

/-- `lift_to_cir` transports the side conditions from the expression to the CIR -/
theorem CIndex_lift_pos {nn : IExpr → Bool} {ρ : Val} {σ : Sym → Nat → Int} (e : IExpr)
    {c : CIR} (h : lift nn e = some c) (hp : PosDivisorsE ρ e) : PosDivisors ρ σ c := by
  induction e generalizing c with
  | var x => simp only [lift, Option.some.injEq] at h; subst h; trivial
  | const n => simp only [lift, Option.some.injEq] at h; subst h; trivial
  | other => simp [lift] at h
  | neg a ih =>
      simp only [lift] at h
      split at h
      · rename_i x hx
        simp only [Option.some.injEq] at h; subst h
        exact ih (c := x) hx hp
      · cases h
  | bin op a b iha ihb =>
      simp only [lift] at h
      split at h
      · rename_i l r hl hr
        simp only [Option.some.injEq] at h; subst h
        refine ⟨iha (c := l) hl hp.1, ihb (c := r) hr hp.2.1, fun ho => ?_⟩
        rw [CIndex_lift_correct (σ := σ) b hr]; exact hp.2.2 ho
      · cases h

theorem CIndex_lift_modnum {nn : IExpr → Bool} {ρ : Val} {σ : Sym → Nat → Int} (e : IExpr)
    {c : CIR} (h : lift nn e = some c) (hp : ModNumNonnegE ρ e) : ModNumNonneg ρ σ c := by
  induction e generalizing c with
  | var x => simp only [lift, Option.some.injEq] at h; subst h; trivial
  | const n => simp only [lift, Option.some.injEq] at h; subst h; trivial
  | other => simp [lift] at h
  | neg a ih =>
      simp only [lift] at h
      split at h
      · rename_i x hx
        simp only [Option.some.injEq] at h; subst h
        exact ih (c := x) hx hp
      · cases h
  | bin op a b iha ihb =>
      simp only [lift] at h
      split at h
      · rename_i l r hl hr
        simp only [Option.some.injEq] at h; subst h
        refine ⟨iha (c := l) hl hp.1, ihb (c := r) hr hp.2.1, fun ho => ?_⟩
        rw [CIndex_lift_correct (σ := σ) a hl]; exact hp.2.2 ho
      · cases h

/-! ## the index part of `comp_e` -/

theorem CIndex_compEAst_correct {nn : IExpr → Bool} {ρ : Val} {σ : Sym → Nat → Int}
    (hnn : ∀ e', nn e' = true → 0 ≤ Exo.Range.eval e' ρ) (e : IExpr)
    (hp : PosDivisorsE ρ e) (hm : ModNumNonnegE ρ e) :
    cEval ρ σ (compEAst nn e) = Exo.Range.eval e ρ := by
  induction e with
  | var x => rfl
  | const n => rfl
  | other => rfl
  | neg a ih => simp only [compEAst, cEval, Exo.Range.eval, ih hp hm]
  | bin op a b iha ihb =>
      have ea := iha hp.1 hm.1
      have eb := ihb hp.2.1 hm.2.1
      cases op with
      | add => simp [compEAst, cEval, Exo.Range.eval, Exo.Range.evalOp, ea, eb]
      | sub => simp [compEAst, cEval, Exo.Range.eval, Exo.Range.evalOp, ea, eb]
      | mul => simp [compEAst, cEval, Exo.Range.eval, Exo.Range.evalOp, ea, eb]
      | mod =>
          simp only [compEAst, cEval, Exo.Range.eval, Exo.Range.evalOp, ea, eb, reduceCtorEq,
            if_false]
          exact Int.tmod_eq_emod_of_nonneg (hm.2.2 rfl)
      | div =>
          have hb : 0 < Exo.Range.eval b ρ := hp.2.2 (Or.inl rfl)
          by_cases hd : nn (.bin .div a b) = true
          · simp only [compEAst, hd, if_true, cEval, Exo.Range.eval, Exo.Range.evalOp, ea, eb]
            have hq := hnn _ hd
            simp only [Exo.Range.eval, Exo.Range.evalOp] at hq
            exact Int.tdiv_eq_ediv_of_nonneg ((Int.ediv_nonneg_iff_of_pos hb).1 hq)
          · have hd' : nn (.bin .div a b) = false := by simpa using hd
            simp only [compEAst, hd', Bool.false_eq_true, if_true, if_false, cEval,
              Exo.Range.eval, Exo.Range.evalOp, ea, eb]
            exact CIndex_exoFloorDiv_eq_floor _ _ hb

end Exo.CIndex
