/-
  Lemmas for C02 wave 2 (Props/C02Stmt.lean), part 1: expressions.
  The index pipeline `lift_to_cir → get_idx_offset / tensor_strides → simplify_cir → comp_cir`
  evaluated in C (`cEval`, `evalIx`) equals the value `Exo.evalC` computes, given that the range
  environment of the compiler contains the run-time valuation (`Range.Inside`) and that no `%` has a
  possibly-negative numerator (`modNumOK`).
-/
import ExoModel.CompileS
import ExoModel.Lemmas.CIndexWindow
import ExoModel.Lemmas.RangeAnalysis

namespace Exo.CompileS
open Exo Exo.CIndex Exo.CSem
open Exo.Range (IExpr Op Val Inside)

variable {V : Type}

/-- the integer environment of a reference state as a valuation -/
def ρS (σ : State V) : Val := ρOfL σ.env

/-! ## Except plumbing -/

theorem bind_ok {ε α β : Type} {x : Except ε α} {f : α → Except ε β} {b : β}
    (h : (x >>= f) = .ok b) : ∃ a, x = .ok a ∧ f a = .ok b := by
  cases x with
  | error e => cases h
  | ok a => exact ⟨a, rfl, h⟩

inductive All2 {α β : Type} (R : α → β → Prop) : List α → List β → Prop
  | nil : All2 R [] []
  | cons {a b l r} : R a b → All2 R l r → All2 R (a :: l) (b :: r)

theorem All2.length {α β : Type} {R : α → β → Prop} {l : List α} {r : List β} (h : All2 R l r) :
    l.length = r.length := by
  induction h with
  | nil => rfl
  | cons _ _ ih => simp [ih]

theorem mapM'_ok {α β : Type} {f : α → M β} : ∀ {l : List α} {r : List β},
    mapM' f l = .ok r → All2 (fun a b => f a = .ok b) l r
  | [], r, h => by
      simp only [mapM', pure, Except.pure, Except.ok.injEq] at h; subst h; exact .nil
  | a :: l, r, h => by
      simp only [mapM'] at h
      obtain ⟨b, hb, h⟩ := bind_ok h
      obtain ⟨bs, hbs, h⟩ := bind_ok h
      simp only [pure, Except.pure, Except.ok.injEq] at h; subst h
      exact .cons hb (mapM'_ok hbs)

/-! ## `toIE` against `evalC` -/

theorem toOp_evalOp {op : BinOp} {o : Op} (h : toOp op = some o) {x y v : Int}
    (hv : ctrlOp op x y = .ok v) :
    Range.evalOp o x y = v ∧ ((o = .div ∨ o = .mod) → 0 < y) := by
  cases op <;> simp only [toOp, Option.some.injEq, reduceCtorEq] at h <;> subst h <;>
    simp only [ctrlOp, pure, Except.pure, Except.ok.injEq] at hv
  · exact ⟨hv, by simp⟩
  · exact ⟨hv, by simp⟩
  · exact ⟨hv, by simp⟩
  · split at hv
    · cases hv
    · simp only [Except.ok.injEq] at hv
      exact ⟨hv, fun _ => by omega⟩
  · split at hv
    · cases hv
    · simp only [Except.ok.injEq] at hv
      exact ⟨hv, fun _ => by omega⟩

/-- on `other`-free expressions the reference semantics computes `Range.eval`, and its success
    means that every divisor was positive -/
theorem toIE_eval (typ : List (Sym × Ty)) (σ : State V) : ∀ (e : Expr) (v : Int),
    evalC σ e = .ok v → noOther (toIE typ e) = true →
    Range.eval (toIE typ e) (ρS σ) = v ∧ PosDivisorsE (ρS σ) (toIE typ e)
  | .read x [], v, h, hn => by
      simp only [toIE] at hn ⊢
      split at hn
      · simp only [evalC] at h
        split at h
        · rename_i w hw
          simp only [pure, Except.pure, Except.ok.injEq] at h; subst h
          simp [Range.eval, ρS, ρOfL, hw, PosDivisorsE]
        · cases h
      · simp [noOther] at hn
  | .read _ (_ :: _), _, _, hn => by simp [toIE, noOther] at hn
  | .lit (.int n), v, h, _ => by
      simp only [evalC, pure, Except.pure, Except.ok.injEq] at h; subst h
      simp [toIE, Range.eval, PosDivisorsE]
  | .lit (.bool _), _, _, hn => by simp [toIE, noOther] at hn
  | .lit (.data _ _), _, _, hn => by simp [toIE, noOther] at hn
  | .usub a, v, h, hn => by
      simp only [evalC] at h
      obtain ⟨w, hw, h⟩ := bind_ok h
      simp only [pure, Except.pure, Except.ok.injEq] at h; subst h
      simp only [toIE, noOther] at hn
      have ih := toIE_eval typ σ a w hw hn
      simp [toIE, Range.eval, PosDivisorsE, ih.1, ih.2]
  | .binop op a b, v, h, hn => by
      simp only [evalC] at h
      obtain ⟨x, hx, h⟩ := bind_ok h
      obtain ⟨y, hy, h⟩ := bind_ok h
      simp only [toIE] at hn ⊢
      cases ho : toOp op with
      | none => simp [ho, noOther] at hn
      | some o =>
          simp only [ho, noOther, Bool.and_eq_true] at hn ⊢
          have iha := toIE_eval typ σ a x hx hn.1
          have ihb := toIE_eval typ σ b y hy hn.2
          have := toOp_evalOp ho h
          simp only [Range.eval, PosDivisorsE, iha.1, ihb.1]
          exact ⟨this.1, iha.2, ihb.2, this.2⟩
  | .extern _ _, _, _, hn => by simp [toIE, noOther] at hn
  | .win _ _, _, _, hn => by simp [toIE, noOther] at hn
  | .stride _ _, _, _, hn => by simp [toIE, noOther] at hn
  | .readcfg _ _, _, _, hn => by simp [toIE, noOther] at hn

/-- `lift_to_cir` succeeds only on `other`-free expressions -/
theorem lift_noOther {nn : IExpr → Bool} : ∀ {e : IExpr} {c : CIR}, lift nn e = some c →
    noOther e = true
  | .var _, _, _ => rfl
  | .const _, _, _ => rfl
  | .other, _, h => by simp [lift] at h
  | .neg a, c, h => by
      simp only [lift] at h
      split at h
      · rename_i x hx; simpa [noOther] using lift_noOther hx
      · cases h
  | .bin op a b, c, h => by
      simp only [lift] at h
      split at h
      · rename_i l r hl hr
        simp [noOther, lift_noOther hl, lift_noOther hr]
      · cases h

/-! ## soundness of the compiler's `is_non_neg` at run time (from C13) -/

theorem divOK_of_pos {env : Range.Look} {ρ : Val} (hin : Inside ρ env) :
    ∀ (e : IExpr), PosDivisorsE ρ e → Range.DivOK env e
  | .var _, _ => trivial
  | .const _, _ => trivial
  | .other, _ => trivial
  | .neg a, hp => divOK_of_pos hin a hp
  | .bin op a b, hp => by
      refine ⟨divOK_of_pos hin a hp.1, divOK_of_pos hin b hp.2.1, fun ho c hc => ?_⟩
      have hs := Range.analyze_sound b (divOK_of_pos hin b hp.2.1) hin
      rw [hc] at hs
      simp only [Range.Res.Sound] at hs
      have := hp.2.2 ho
      omega

theorem nnOf_sound {renv : Range.Env} {ρ : Val} (hin : Inside ρ renv.lookup) {e : IExpr}
    (hp : PosDivisorsE ρ e) (h : nnOf renv e = true) : 0 ≤ Range.eval e ρ := by
  unfold nnOf at h
  split at h
  · rename_i b hb
    subst h
    have := Range.checkExprBound_sound (e0 := .i 0) (e1 := .e e) trivial
      (divOK_of_pos hin e hp) hin hb
    simpa [Range.Cmp.holds, Range.EI.eval] using this
  · cases h

theorem modNumOK_sound {renv : Range.Env} {ρ : Val} (hin : Inside ρ renv.lookup) :
    ∀ (e : IExpr), PosDivisorsE ρ e → modNumOK renv e = true → ModNumNonnegE ρ e
  | .var _, _, _ => trivial
  | .const _, _, _ => trivial
  | .other, _, _ => trivial
  | .neg a, hp, h => modNumOK_sound hin a hp (by simpa [modNumOK] using h)
  | .bin op a b, hp, h => by
      simp only [modNumOK, Bool.and_eq_true, Bool.or_eq_true, bne_iff_ne, ne_eq] at h
      refine ⟨modNumOK_sound hin a hp.1 h.1.1, modNumOK_sound hin b hp.2.1 h.1.2, fun ho => ?_⟩
      rcases h.2 with h2 | h2
      · exact absurd ho h2
      · exact nnOf_sound hin hp.1 h2

/-! ## `Good`: the three side conditions of `compAst_correct_partial` together -/

def Good (ρ : Val) (σ : Sym → Nat → Int) (c : CIR) : Prop :=
  FlagsOK ρ σ c ∧ PosDivisors ρ σ c ∧ ModNumNonneg ρ σ c

theorem lift_flagsOK' {renv : Range.Env} {ρ : Val} {σ : Sym → Nat → Int}
    (hin : Inside ρ renv.lookup) : ∀ (e : IExpr) {c : CIR}, PosDivisorsE ρ e →
    lift (nnOf renv) e = some c → FlagsOK ρ σ c
  | .var x, c, hp, h => by
      simp only [lift, Option.some.injEq] at h; subst h
      exact fun hf => nnOf_sound (e := .var x) hin hp hf
  | .const n, c, _, h => by simp only [lift, Option.some.injEq] at h; subst h; trivial
  | .other, _, _, h => by simp [lift] at h
  | .neg a, c, hp, h => by
      have hl := h
      simp only [lift] at h
      split at h
      · rename_i x hx
        simp only [Option.some.injEq] at h; subst h
        refine ⟨lift_flagsOK' hin a hp hx, fun hf => ?_⟩
        rw [CIndex_lift_correct (σ := σ) (.neg a) hl]
        exact nnOf_sound (e := .neg a) hin hp hf
      · cases h
  | .bin op a b, c, hp, h => by
      have hl := h
      simp only [lift] at h
      split at h
      · rename_i l r hl' hr
        simp only [Option.some.injEq] at h; subst h
        refine ⟨lift_flagsOK' hin a hp.1 hl', lift_flagsOK' hin b hp.2.1 hr, fun hf => ?_⟩
        rw [CIndex_lift_correct (σ := σ) (.bin op a b) hl]
        exact nnOf_sound (e := .bin op a b) hin hp hf
      · cases h

theorem good_lift {renv : Range.Env} {ρ : Val} {σ : Sym → Nat → Int}
    (hin : Inside ρ renv.lookup) {e : IExpr} {c : CIR} (hp : PosDivisorsE ρ e)
    (hm : modNumOK renv e = true) (h : lift (nnOf renv) e = some c) :
    Good ρ σ c ∧ c.eval ρ σ = Range.eval e ρ :=
  ⟨⟨lift_flagsOK' hin e hp h, CIndex_lift_pos e h hp,
    CIndex_lift_modnum e h (modNumOK_sound hin e hp hm)⟩, CIndex_lift_correct e h⟩

theorem good_const (ρ : Val) (σ : Sym → Nat → Int) (n : Int) : Good ρ σ (.const n) :=
  ⟨trivial, trivial, trivial⟩

theorem good_stride (ρ : Val) (σ : Sym → Nat → Int) (x : Sym) (d : Nat) : Good ρ σ (.stride x d) :=
  ⟨trivial, trivial, trivial⟩

theorem good_mul {ρ : Val} {σ : Sym → Nat → Int} {a b : CIR} (ha : Good ρ σ a) (hb : Good ρ σ b)
    (h : 0 ≤ a.eval ρ σ * b.eval ρ σ) : Good ρ σ (cirMul a b) :=
  ⟨⟨ha.1, hb.1, fun _ => by simpa [CIR.eval, Range.evalOp] using h⟩,
   ⟨ha.2.1, hb.2.1, by simp⟩, ⟨ha.2.2, hb.2.2, by simp⟩⟩

theorem good_add {ρ : Val} {σ : Sym → Nat → Int} {a b : CIR} (ha : Good ρ σ a) (hb : Good ρ σ b)
    (h : 0 ≤ a.eval ρ σ + b.eval ρ σ) : Good ρ σ (cirAdd a b) :=
  ⟨⟨ha.1, hb.1, fun _ => by simpa [CIR.eval, Range.evalOp] using h⟩,
   ⟨ha.2.1, hb.2.1, by simp⟩, ⟨ha.2.2, hb.2.2, by simp⟩⟩

theorem cirMul_eval (ρ : Val) (σ : Sym → Nat → Int) (a b : CIR) :
    (cirMul a b).eval ρ σ = a.eval ρ σ * b.eval ρ σ := rfl

theorem cirAdd_eval (ρ : Val) (σ : Sym → Nat → Int) (a b : CIR) :
    (cirAdd a b).eval ρ σ = a.eval ρ σ + b.eval ρ σ := rfl

theorem good_simplify {ρ : Val} {σ : Sym → Nat → Int} {c s : CIR} (h : simplify c = .ok s)
    (hg : Good ρ σ c) : Good ρ σ s ∧ s.eval ρ σ = c.eval ρ σ :=
  let r := CIndex_simplify_rel c h hg.2.1
  ⟨⟨r.flags hg.1, r.pos, r.modnum hg.2.2⟩, r.eval_eq⟩

/-- the emitted expression has the intended value and divides by nothing that is 0 -/
theorem good_comp {ρ : Val} {σ : Sym → Nat → Int} : ∀ (c : CIR), Good ρ σ c →
    cEval ρ σ (compAst c) = c.eval ρ σ ∧ divSafe ρ σ (compAst c) = true
  | .read _ _, _ => ⟨rfl, rfl⟩
  | .const _, _ => ⟨rfl, rfl⟩
  | .stride _ _, _ => ⟨rfl, rfl⟩
  | .usub a nn, hg => by
      have ih := good_comp a ⟨hg.1.1, hg.2.1, hg.2.2⟩
      exact ⟨CIndex_compAst_correct _ hg.1 hg.2.1 hg.2.2, by simpa [compAst, divSafe] using ih.2⟩
  | .bin op a b nn, hg => by
      have iha := good_comp a ⟨hg.1.1, hg.2.1.1, hg.2.2.1⟩
      have ihb := good_comp b ⟨hg.1.2.1, hg.2.1.2.1, hg.2.2.2.1⟩
      refine ⟨CIndex_compAst_correct _ hg.1 hg.2.1 hg.2.2, ?_⟩
      have hb0 : (op = .div ∨ op = .mod) → cEval ρ σ (compAst b) ≠ 0 := by
        intro ho
        have := hg.2.1.2.2 ho
        rw [ihb.1]; omega
      by_cases hd : op = .div
      · subst hd
        by_cases hl : divLhsNonNeg a = true
        · simp [compAst, hl, divSafe, iha.2, ihb.2, hb0]
        · simp [compAst, hl, divSafe, iha.2, ihb.2, hb0]
      · by_cases hm : op = .mod
        · subst hm
          simp [compAst, divSafe, iha.2, ihb.2, hb0]
        · simp [compAst, hd, hm, divSafe, iha.2, ihb.2]

/-- `comp_cir(simplify_cir(c))` evaluated in a C state -/
theorem evalIx_comp {c : CState V} {k s : CIR} (h : simplify k = .ok s)
    (hg : Good (ρOf c) (σOf c) k) : evalIx c (compAst s) = .ok (k.eval (ρOf c) (σOf c)) := by
  have g := good_simplify h hg
  have r := good_comp s g.1
  simp [evalIx, r.2, r.1, g.2]

end Exo.CompileS
