/-
  Helpers for the schedule-level composition theorems of Props/C01Context.lean: `Equiv` is
  monotone in the set of configuration fields and depends on the bodies only.
-/
import ExoModel.Equiv
import ExoModel.Lemmas.Rewrites

set_option linter.unusedSectionVars false
namespace Exo
variable {V : Type}

theorem Refines.mono {K K' : String × String → Prop} (hK : ∀ k, K k → K' k) {o o' : State V}
    (h : Refines K o o') : Refines K' o o' :=
  ⟨h.heapLen, h.cells, fun k hk v hv => h.cfg k (fun hk' => hk (hK k hk')) v hv⟩

theorem Equiv.mono {K K' : String × String → Prop} (hK : ∀ k, K k → K' k) {p q : Proc}
    (h : Equiv K p q) : Equiv K' p q := by
  intro V _ ext σ o ho
  obtain ⟨o', ho', r⟩ := h V ext σ o ho
  exact ⟨o', ho', r.mono hK⟩

/-- `Equiv` observes the bodies only -/
theorem Equiv.of_bodies {K : String × String → Prop} {p q p' q' : Proc} (h : Equiv K p q)
    (hp : p'.body = p.body) (hq : q'.body = q.body) : Equiv K p' q' := by
  intro V _ ext σ o ho
  rw [hp] at ho
  obtain ⟨o', ho', r⟩ := h V ext σ o ho
  exact ⟨o', by rw [hq]; exact ho', r⟩

end Exo
