/-
  A sound local rewrite applied at any address gives a sound rewrite of the whole block.
-/
import ExoModel.Rewrite
import ExoModel.Lemmas.Rewrites

set_option linter.unusedSectionVars false
namespace Exo.Rw
open Exo

theorem decomp {α} (ss : List α) (k : Nat) (s : α) (h : ss[k]? = some s) :
    ss = ss.take k ++ s :: ss.drop (k + 1) := by
  induction ss generalizing k with
  | nil => simp at h
  | cons a r ih =>
    cases k with
    | zero => simp at h; simp [h]
    | succ k => simp at h; simp; exact ih k h

theorem BlockLe.cons_mid (pre post : List Stmt) (s s' : Stmt)
    (h : BlockLe [s] [s']) : BlockLe (pre ++ s :: post) (pre ++ s' :: post) := by
  have := BlockLe.seq h pre post
  simpa using this

/-- if the local rewrite only ever produces blocks that do at least what the original does, so
    does its application at an arbitrary address inside loops and branches -/
theorem rewriteAt_le (f : Local) (hf : ∀ ss r, f ss = some r → BlockLe ss r) :
    ∀ (path : Path) (ss ss' : List Stmt), rewriteAt f path ss = some ss' → BlockLe ss ss'
  | [], _, _, h => by simp [rewriteAt] at h
  | [st], ss, ss', h => by
    simp only [rewriteAt, Option.map_eq_some_iff] at h
    obtain ⟨r, hr, rfl⟩ := h
    have h1 := BlockLe.seq (hf _ _ hr) (ss.take st.idx) []
    simpa using h1
  | st :: nxt :: rest, ss, ss', h => by
    simp only [rewriteAt] at h
    split at h
    · rename_i i lo hi b par hs
      split at h
      · simp only [Option.map_eq_some_iff] at h
        obtain ⟨b', hb', rfl⟩ := h
        have ih := rewriteAt_le f hf _ b b' hb'
        have e0 := decomp ss st.idx _ hs
        have h2 := BlockLe.cons_mid (ss.take st.idx) (ss.drop (st.idx + 1)) _ _
          (BlockLe.loop ih i lo hi par)
        rw [← e0] at h2
        exact h2
      · cases h
    · rename_i c t e hs
      split at h
      · simp only [Option.map_eq_some_iff] at h
        obtain ⟨t', ht', rfl⟩ := h
        have ih := rewriteAt_le f hf _ t t' ht'
        have e0 := decomp ss st.idx _ hs
        have h2 := BlockLe.cons_mid (ss.take st.idx) (ss.drop (st.idx + 1)) _ _
          (BlockLe.iteT ih c e)
        rw [← e0] at h2
        exact h2
      · simp only [Option.map_eq_some_iff] at h
        obtain ⟨e', he', rfl⟩ := h
        have ih := rewriteAt_le f hf _ e e' he'
        have e0 := decomp ss st.idx _ hs
        have h2 := BlockLe.cons_mid (ss.take st.idx) (ss.drop (st.idx + 1)) _ _
          (BlockLe.iteE ih c t)
        rw [← e0] at h2
        exact h2
    · cases h

end Exo.Rw
