/-
  The call site: binding the arguments (`bindArgs`) establishes the simulation relation for the
  substitution `mkSubst` builds; the validator and the inliner are sound.
-/
import ExoModel.Lemmas.InlineStmt
import ExoModel.Lemmas.Rewrites
import ExoModel.ReplaceCheck

set_option linter.unusedSectionVars false
set_option linter.unusedVariables false
namespace Exo.Inline
open Exo

variable {V : Type}

/-- the state in which the callee's body runs -/
def calleeState (σ : State V) (ce : List (Sym × Int)) (cv : List (Sym × View)) : State V :=
  { env := ce, views := cv, heap := σ.heap, cfg := σ.cfg }

def AccRel (θ : Subst) (ce : List (Sym × Int)) (cv : List (Sym × View)) (σ : State V) : Prop :=
  ∀ x t, lookupSym x θ = some t → Holds t x (calleeState σ ce cv) σ

theorem viewTarget_holds {σ : State V} {a : Expr} {t : Target} {v : View}
    (ht : viewTarget a = some t) (hv : evalView σ a = .ok v) :
    ∃ y acc, t = .buf y acc ∧ viewOf σ y acc = .ok v := by
  unfold viewTarget at ht
  split at ht
  · cases ht; exact ⟨_, _, rfl, by rw [← hv]; rfl⟩
  · cases ht; exact ⟨_, _, rfl, hv⟩
  · cases ht

theorem AccRel.cons {θ : Subst} {ce ce' : List (Sym × Int)} {cv cv' : List (Sym × View)}
    {σ : State V} (h : AccRel θ ce cv σ) (x : Sym) (t : Target)
    (h0 : Holds t x (calleeState σ ce' cv') σ)
    (hc : ∀ z, z ≠ x → lookupSym z ce' = lookupSym z ce ∧ lookupSym z cv' = lookupSym z cv) :
    AccRel ((x, t) :: θ) ce' cv' σ := by
  intro z t' hl
  simp only [lookupSym] at hl
  split at hl
  · rename_i hz; cases hl; subst hz; exact h0
  · rename_i hz
    exact (h z t' hl).transport (Or.inr rfl) (hc z hz) (fun _ _ => ⟨rfl, rfl⟩)

theorem mkSubst_rel (σ : State V) : ∀ (fs : List FnArg) (as : List Expr) (θacc θ0 : Subst)
    (ce ce' : List (Sym × Int)) (cv cv' : List (Sym × View)),
    mkSubst fs as θacc = some θ0 → bindArgs σ fs as ce cv = .ok (ce', cv') →
    AccRel θacc ce cv σ → AccRel θ0 ce' cv' σ
  | [], [], θacc, θ0, ce, ce', cv, cv', hm, hb, h => by
    simp only [mkSubst, Option.some.injEq] at hm
    simp only [bindArgs, pure, Except.pure, Except.ok.injEq, Prod.mk.injEq] at hb
    obtain ⟨rfl, rfl⟩ := hb
    subst hm; exact h
  | [], _ :: _, _, _, _, _, _, _, hm, _, _ => by simp [mkSubst] at hm
  | ⟨x, .ctrl k⟩ :: fs, [], _, _, _, _, _, _, hm, _, _ => by simp [mkSubst] at hm
  | ⟨x, .scalar⟩ :: fs, [], _, _, _, _, _, _, hm, _, _ => by simp [mkSubst] at hm
  | ⟨x, .tensor _ _⟩ :: fs, [], _, _, _, _, _, _, hm, _, _ => by simp [mkSubst] at hm
  | ⟨x, .ctrl k⟩ :: fs, a :: as, θacc, θ0, ce, ce', cv, cv', hm, hb, h => by
    simp only [mkSubst] at hm
    simp only [bindArgs] at hb
    cases hv : evalC σ a with
    | error e => rw [hv] at hb; cases hb
    | ok v =>
      rw [hv] at hb
      have hb2 : (if k = CtrlKind.size ∧ v ≤ 0 then
            (do throw Err.nonPosSize; bindArgs σ fs as ((x, v) :: ce) cv)
          else bindArgs σ fs as ((x, v) :: ce) cv) = Except.ok (ce', cv') := hb
      by_cases hk : k = CtrlKind.size ∧ v ≤ 0
      · rw [if_pos hk] at hb2; cases hb2
      · rw [if_neg hk] at hb2
        refine mkSubst_rel σ fs as _ θ0 _ ce' cv cv' hm hb2 ?_
        exact h.cons x _ ⟨v, by simp [calleeState, lookupSym], hv⟩
          (fun z hz => ⟨by simp [lookupSym, hz], rfl⟩)
  | ⟨x, .scalar⟩ :: fs, a :: as, θacc, θ0, ce, ce', cv, cv', hm, hb, h => by
    simp only [mkSubst] at hm
    simp only [bindArgs] at hb
    split at hm
    · rename_i t ht
      cases hv : evalView σ a with
      | error e => rw [hv] at hb; cases hb
      | ok v =>
        rw [hv] at hb
        obtain ⟨y, acc, rfl, hvo⟩ := viewTarget_holds ht hv
        refine mkSubst_rel σ fs as _ θ0 ce ce' _ cv' hm hb ?_
        exact h.cons x _ ⟨v, by simp [calleeState, lookupSym], hvo⟩
          (fun z hz => ⟨rfl, by simp [lookupSym, hz]⟩)
    · cases hm
  | ⟨x, .tensor _ _⟩ :: fs, a :: as, θacc, θ0, ce, ce', cv, cv', hm, hb, h => by
    simp only [mkSubst] at hm
    simp only [bindArgs] at hb
    split at hm
    · rename_i t ht
      cases hv : evalView σ a with
      | error e => rw [hv] at hb; cases hb
      | ok v =>
        rw [hv] at hb
        obtain ⟨y, acc, rfl, hvo⟩ := viewTarget_holds ht hv
        refine mkSubst_rel σ fs as _ θ0 ce ce' _ cv' hm hb ?_
        exact h.cons x _ ⟨v, by simp [calleeState, lookupSym], hvo⟩
          (fun z hz => ⟨rfl, by simp [lookupSym, hz]⟩)
    · cases hm

theorem rel_of_bindArgs (σ : State V) (fs : List FnArg) (args : List Expr) (θ : Subst)
    (ce : List (Sym × Int)) (cv : List (Sym × View))
    (hθ : mkSubst fs args [] = some θ) (hb : bindArgs σ fs args [] [] = .ok (ce, cv)) :
    Rel θ (calleeState σ ce cv) σ :=
  ⟨rfl, rfl, mkSubst_rel σ fs args [] θ [] ce [] cv hθ hb (fun x t h => by simp [lookupSym] at h)⟩

/-! ### `execP` unfolded -/

variable [DataAlg V] (ext : String → List V → V)

theorem execP_ok_inv {f : Proc} {args : List Expr} {σ o : State V}
    (h : execP ext f args σ = .ok o) :
    ∃ ce cv σ', bindArgs σ f.args args [] [] = .ok (ce, cv) ∧ noAlias cv = true ∧
      checkShapes (calleeState σ ce cv) f.args = .ok () ∧
      checkPreds (calleeState σ ce cv) f.preds = .ok () ∧
      execL ext f.body (calleeState σ ce cv) = .ok σ' ∧ o = State.leave σ σ' := by
  obtain ⟨nm, fargs, preds, body⟩ := f
  simp only [execP, Proc.args, Proc.preds, Proc.body] at h ⊢
  cases hb : bindArgs σ fargs args [] [] with
  | error e => rw [hb] at h; cases h
  | ok p =>
    obtain ⟨ce, cv⟩ := p
    rw [hb] at h
    simp only [bind, Except.bind] at h
    cases hna : noAlias cv with
    | false => simp [hna] at h
    | true =>
      simp only [hna, Bool.not_true, Bool.false_eq_true, if_false] at h
      have h' : (checkShapes (calleeState σ ce cv) fargs >>= fun _ =>
          checkPreds (calleeState σ ce cv) preds >>= fun _ =>
          execL ext body (calleeState σ ce cv) >>= fun σ' => pure (State.leave σ σ')) = .ok o := h
      cases hs : checkShapes (calleeState σ ce cv) fargs with
      | error e => rw [hs] at h'; cases h'
      | ok u =>
        rw [hs] at h'
        cases hp : checkPreds (calleeState σ ce cv) preds with
        | error e => rw [hp] at h'; cases h'
        | ok u' =>
          rw [hp] at h'
          cases hx : execL ext body (calleeState σ ce cv) with
          | error e => rw [hx] at h'; cases h'
          | ok σ' =>
            rw [hx] at h'
            cases h'
            exact ⟨ce, cv, σ', rfl, hna, hs, hp, hx, rfl⟩

theorem execP_of_monitors {f : Proc} {args : List Expr} {σ : State V}
    {ce : List (Sym × Int)} {cv : List (Sym × View)}
    (hb : bindArgs σ f.args args [] [] = .ok (ce, cv)) (hna : noAlias cv = true)
    (hs : checkShapes (calleeState σ ce cv) f.args = .ok ())
    (hp : checkPreds (calleeState σ ce cv) f.preds = .ok ()) :
    execP ext f args σ = (execL ext f.body (calleeState σ ce cv)).map (State.leave σ) := by
  obtain ⟨nm, fargs, preds, body⟩ := f
  simp only [Proc.args, Proc.preds, Proc.body] at hb hs hp ⊢
  simp only [calleeState] at hs hp ⊢
  simp only [execP, hb, bind, Except.bind, hna, Bool.not_true, Bool.false_eq_true, if_false, hs, hp]
  cases execL ext body ({ env := ce, views := cv, heap := σ.heap, cfg := σ.cfg } : State V) <;> rfl

/-! ### soundness of the validator -/

theorem leave_eq_of_rel {θ : Subst} {σ a b : State V} (h : Rel θ a b) :
    State.leave σ a = State.leave σ b := by
  simp [State.leave, h.heap, h.cfg]

theorem checkReplace_inv {blk : List Stmt} {f : Proc} {args : List Expr}
    (h : checkReplace blk f args = true) :
    ∃ θ θ', mkSubst f.args args [] = some θ ∧ pureSubst θ = true ∧ matchL θ f.body blk = some θ' := by
  simp only [checkReplace] at h
  split at h
  · rename_i θ hθ
    simp only [Bool.and_eq_true] at h
    cases hm : matchL θ f.body blk with
    | none => rw [hm] at h; simp at h
    | some θ' => exact ⟨θ, θ', hθ, h.1, hm⟩
  · cases h

/-- (a) whatever the call does, the block did: a successful run of the call is a run of the block -/
theorem call_le_block {blk : List Stmt} {f : Proc} {args : List Expr}
    (hc : checkReplace blk f args = true) (σ : State V) :
    ExLe (execS ext (.call f args) σ) (execB ext blk σ) := by
  intro o ho
  simp only [execS] at ho
  obtain ⟨ce, cv, σ', hb, hna, hs, hp, hx, rfl⟩ := execP_ok_inv ext ho
  obtain ⟨θ, θ', hθ, hpure, hm⟩ := checkReplace_inv hc
  have hr := rel_of_bindArgs σ f.args args θ ce cv hθ hb
  have sim := matchL_sound (W := True) ext f.body blk θ θ' _ σ hpure (fun _ => trivial) hr hm
  obtain ⟨s', hs', hR⟩ := sim.1 σ' hx
  simp only [execB, hs', Except.map]
  rw [leave_eq_of_rel hR]

/-- (b) a successful run of the block is a run of the call, provided the call's monitors pass and
    the callee's body stays inside its windows -/
theorem block_le_call {blk : List Stmt} {f : Proc} {args : List Expr}
    (hc : checkReplace blk f args = true) (σ : State V)
    {ce : List (Sym × Int)} {cv : List (Sym × View)}
    (hb : bindArgs σ f.args args [] [] = .ok (ce, cv)) (hna : noAlias cv = true)
    (hs : checkShapes (calleeState σ ce cv) f.args = .ok ())
    (hp : checkPreds (calleeState σ ce cv) f.preds = .ok ())
    (hoob : execL ext f.body (calleeState σ ce cv) ≠ .error .oob) :
    ExLe (execB ext blk σ) (execS ext (.call f args) σ) := by
  intro o ho
  obtain ⟨s', hs', rfl⟩ := map_leave_ok ho
  obtain ⟨θ, θ', hθ, hpure, hm⟩ := checkReplace_inv hc
  have hr := rel_of_bindArgs σ f.args args θ ce cv hθ hb
  have sim := matchL_sound (W := True) ext f.body blk θ θ' _ σ hpure (fun _ => trivial) hr hm
  simp only [execS, execP_of_monitors ext hb hna hs hp]
  rcases sim.2 s' hs' with ⟨sc', hsc, hR⟩ | ⟨_, he⟩
  · simp only [hsc, Except.map]
    rw [leave_eq_of_rel hR]
  · exact (hoob he).elim

/-- the callee's assertions hold in the callee's state when their instances hold at the call -/
theorem checkPreds_of_obligations {θ : Subst} {σc σ : State V} (hr : Rel θ σc σ) :
    ∀ (ps : List Expr), ObligationsHold σ (predObl θ ps) → checkPreds σc ps = .ok ()
  | [], _ => rfl
  | p :: ps, h => by
    have h1 := h (orFalse (substC θ p)) (by simp [predObl])
    obtain ⟨v, hv, hne⟩ := h1
    cases hs : substC θ p with
    | none =>
      rw [hs] at hv
      have : v = 0 := by
        simp only [orFalse, evalC, b2i, pure, Except.pure, Bool.false_eq_true, if_false] at hv
        cases hv; rfl
      exact (hne this).elim
    | some p' =>
      rw [hs] at hv
      simp only [orFalse] at hv
      rw [substC_sound hr p p' hs] at hv
      simp only [checkPreds, hv, bind, Except.bind, hne, if_false]
      exact checkPreds_of_obligations hr ps (fun e he => h e (by simp [predObl, he]))

end Exo.Inline

/-! ### lifting through contexts: the rewritten procedure agrees or stops at a monitor -/

namespace Exo.Inline
open Exo

/-- whenever `r` succeeds, `r'` succeeds with the same value or fails -/
def ExLeF {α : Type} (r r' : Except Err α) : Prop :=
  ∀ a, r = .ok a → r' = .ok a ∨ ∃ e, r' = .error e

theorem ExLeF.refl {α} (r : Except Err α) : ExLeF r r := fun _ h => Or.inl h

theorem ExLeF.bind_congr {α β} {r r' : Except Err α} {f g : α → Except Err β}
    (h : ExLeF r r') (hf : ∀ a, ExLeF (f a) (g a)) : ExLeF (r >>= f) (r' >>= g) := by
  intro b hb
  cases r with
  | error e => cases hb
  | ok a =>
    rcases h a rfl with h' | ⟨e, h'⟩
    · rw [h']; exact hf a b hb
    · rw [h']; exact Or.inr ⟨e, rfl⟩

theorem ExLeF.map_congr {α β} {r r' : Except Err α} (f : α → β) (h : ExLeF r r') :
    ExLeF (r.map f) (r'.map f) := by
  intro b hb
  cases r with
  | error e => cases hb
  | ok a =>
    rcases h a rfl with h' | ⟨e, h'⟩
    · rw [h']; exact Or.inl hb
    · rw [h']; exact Or.inr ⟨e, rfl⟩

/-- `B'` does what `B` does or stops at a monitor -/
def BlockLeF (B B' : List Stmt) : Prop :=
  ∀ (V : Type) [DataAlg V] (ext : String → List V → V) (σ : State V),
    ExLeF (execL ext B σ) (execL ext B' σ)

variable {V : Type} [DataAlg V] (ext : String → List V → V)

theorem iterate_leF (f g : Int → State V → Except Err (State V))
    (h : ∀ v s, ExLeF (f v s) (g v s)) : ∀ (n : Nat) (lo : Int) (σ : State V),
    ExLeF (iterate f n lo σ) (iterate g n lo σ)
  | 0, _, _ => ExLeF.refl _
  | n + 1, lo, σ => by
    simp only [iterate]
    exact ExLeF.bind_congr (h lo σ) (fun a => iterate_leF f g h n (lo + 1) a)

theorem BlockLeF.seq {B B' : List Stmt} (h : BlockLeF B B') (pre post : List Stmt) :
    BlockLeF (pre ++ B ++ post) (pre ++ B' ++ post) := by
  intro V _ ext σ
  rw [execL_append, execL_append, execL_append, execL_append]
  exact ExLeF.bind_congr (ExLeF.bind_congr (ExLeF.refl _) (fun a => h V ext a)) (fun a => ExLeF.refl _)

theorem BlockLeF.loop {B B' : List Stmt} (h : BlockLeF B B') (i : Sym) (lo hi : Expr) (par : Bool) :
    BlockLeF [.loop i lo hi B par] [.loop i lo hi B' par] := by
  intro V _ ext σ
  rw [execL_singleton, execL_singleton]
  simp only [execS]
  refine ExLeF.bind_congr (ExLeF.refl _) (fun l => ExLeF.bind_congr (ExLeF.refl _) (fun hh => ?_))
  split
  · exact ExLeF.refl _
  · exact iterate_leF _ _ (fun v s => ExLeF.map_congr _ (h V ext _)) _ _ _

theorem BlockLeF.iteT {B B' : List Stmt} (h : BlockLeF B B') (c : Expr) (e : List Stmt) :
    BlockLeF [.ite c B e] [.ite c B' e] := by
  intro V _ ext σ
  rw [execL_singleton, execL_singleton]
  simp only [execS]
  refine ExLeF.bind_congr (ExLeF.refl _) (fun b => ?_)
  split
  · exact ExLeF.map_congr _ (h V ext σ)
  · exact ExLeF.refl _

theorem BlockLeF.iteE {B B' : List Stmt} (h : BlockLeF B B') (c : Expr) (t : List Stmt) :
    BlockLeF [.ite c t B] [.ite c t B'] := by
  intro V _ ext σ
  rw [execL_singleton, execL_singleton]
  simp only [execS]
  refine ExLeF.bind_congr (ExLeF.refl _) (fun b => ?_)
  split
  · exact ExLeF.refl _
  · exact ExLeF.map_congr _ (h V ext σ)

theorem ctx_leF {B B' : List Stmt} (h : BlockLeF B B') : ∀ (C : Ctx), BlockLeF (C.fill B) (C.fill B')
  | .hole => h
  | .seq pre c post => (ctx_leF h c).seq pre post
  | .loop i lo hi par c => (ctx_leF h c).loop i lo hi par
  | .iteT cond c e => (ctx_leF h c).iteT cond e
  | .iteE cond t c => (ctx_leF h c).iteE cond t

/-- the base case: a validated call in place of its block -/
theorem blockLeF_of_check {blk : List Stmt} {f : Proc} {args : List Expr}
    (hc : checkReplace blk f args = true) (hn : noDefs blk = true) :
    BlockLeF blk [.call f args] := by
  intro V _ ext σ o ho
  rw [execL_singleton]
  cases hcall : execS ext (.call f args) σ with
  | error e => exact Or.inr ⟨e, rfl⟩
  | ok o' =>
    have := call_le_block ext hc σ o' hcall
    rw [execB_of_noDefs ext hn σ, ho] at this
    cases this
    exact Or.inl rfl

end Exo.Inline
