/-
  Refinement-based congruence for path-addressed rewriting.

  `BlockRef B B'`: from refined states (`Ref`), a successful scoped run of `B` is matched by a
  successful scoped run of `B'` with a refined result.  Unlike `BlockLe` this lets the rewritten
  block leave more cells defined (lifted allocations keep old values), and it is still a
  congruence for `Rw.rewriteAt` because execution is monotone in the poison order (`exec_mono`).
-/
import ExoModel.Lemmas.StorageSim
import ExoModel.Rewrite
import ExoModel.Lemmas.RewriteAt

set_option linter.unusedSectionVars false
set_option linter.unusedVariables false
namespace Exo

/-! ### one-directional simulation of outcomes -/

/-- whenever `r` succeeds, `r'` succeeds with a `Q`-related value -/
def Fwd {α β : Type} (Q : α → β → Prop) (r : Except Err α) (r' : Except Err β) : Prop :=
  ∀ a, r = .ok a → ∃ b, r' = .ok b ∧ Q a b

section FwdLemmas
variable {α β γ δ : Type} {Q : α → β → Prop} {Q' : γ → δ → Prop}

theorem Fwd.of_lock {r : Except Err α} {r' : Except Err β} (h : Lock Q r r') : Fwd Q r r' :=
  fun _ ha => h.ok_left ha

theorem Fwd.ofPure {a : α} {b : β} (h : Q a b) : Fwd Q (pure a) (pure b) :=
  Fwd.of_lock (Lock.ofPure h)

theorem Fwd.ofThrowBind {e e' : Err} {f : γ → Except Err α} {g : δ → Except Err β} :
    Fwd Q (throw e >>= f) (throw e' >>= g) :=
  Fwd.of_lock Lock.ofThrowBind

theorem Fwd.bind {r : Except Err α} {r' : Except Err β} {f : α → Except Err γ}
    {g : β → Except Err δ} (h : Fwd Q r r')
    (hf : ∀ a b, r = .ok a → r' = .ok b → Q a b → Fwd Q' (f a) (g b)) :
    Fwd Q' (r >>= f) (r' >>= g) := by
  intro c hc
  cases r with
  | error e => simp [Bind.bind, Except.bind] at hc
  | ok a =>
    obtain ⟨b, hb, hq⟩ := h a rfl
    subst hb
    exact hf a b rfl rfl hq c hc

theorem Fwd.bind_eq {r : Except Err α} {f : α → Except Err γ} {g : α → Except Err δ}
    (hf : ∀ a, r = .ok a → Fwd Q' (f a) (g a)) : Fwd Q' (r >>= f) (r >>= g) := by
  intro c hc
  cases r with
  | error e => simp [Bind.bind, Except.bind] at hc
  | ok a => exact hf a rfl c hc

theorem Fwd.map {r : Except Err α} {r' : Except Err β} {f : α → γ} {g : β → δ}
    (h : Fwd Q r r') (hf : ∀ a b, r = .ok a → r' = .ok b → Q a b → Q' (f a) (g b)) :
    Fwd Q' (r.map f) (r'.map g) := by
  intro c hc
  cases r with
  | error e => simp [Except.map] at hc
  | ok a =>
    obtain ⟨b, hb, hq⟩ := h a rfl
    subst hb
    have : f a = c := Except.ok.inj hc
    subst this
    exact ⟨g b, rfl, hf a b rfl rfl hq⟩

theorem Fwd.ite {c : Prop} [Decidable c] {a b : Except Err α} {a' b' : Except Err β}
    (h1 : c → Fwd Q a a') (h2 : ¬ c → Fwd Q b b') :
    Fwd Q (if c then a else b) (if c then a' else b') := by
  by_cases hc : c
  · rw [if_pos hc, if_pos hc]; exact h1 hc
  · rw [if_neg hc, if_neg hc]; exact h2 hc

end FwdLemmas

variable {V : Type}

theorem iterate_fwd (Q : State V → State V → Prop) (f g : Int → State V → Except Err (State V))
    (hfg : ∀ v a b, Q a b → Fwd Q (f v a) (g v b)) :
    ∀ (n : Nat) (lo : Int) (a b : State V), Q a b → Fwd Q (iterate f n lo a) (iterate g n lo b)
  | 0, _, _, _, h => Fwd.ofPure h
  | n + 1, lo, a, b, h => by
    simp only [iterate]
    exact Fwd.bind (hfg lo a b h) (fun a1 b1 _ _ h1 => iterate_fwd Q f g hfg n (lo + 1) a1 b1 h1)

theorem leave_leave (σ σ₁ t : State V) (h : σ.heap.length ≤ σ₁.heap.length) :
    State.leave σ (State.leave σ₁ t) = State.leave σ t := by
  simp only [State.leave, List.take_take, Nat.min_eq_left h]

/-! ### refinement of blocks -/

/-- scoped refinement of blocks: from refined states, a successful scoped run of `B` is matched
    by a successful scoped run of `B'` with refined result -/
def BlockRef (B B' : List Stmt) : Prop :=
  ∀ (V : Type) [DataAlg V] (ext : String → List V → V) (s s' t : State V), Ref s s' →
    execB ext B s = .ok t → ∃ t', execB ext B' s' = .ok t' ∧ Ref t t'

/-- unscoped refinement of blocks (names and buffers introduced by the blocks stay visible) -/
def LRef (B B' : List Stmt) : Prop :=
  ∀ (V : Type) [DataAlg V] (ext : String → List V → V) (s s' t : State V), Ref s s' →
    execL ext B s = .ok t → ∃ t', execL ext B' s' = .ok t' ∧ Ref t t'

section
variable [DataAlg V] (ext : String → List V → V)

theorem execB_ok {B : List Stmt} {s t1 : State V} (h : execL ext B s = .ok t1) :
    execB ext B s = .ok (State.leave s t1) := by
  simp [execB, h, Except.map]

theorem execB_ok_inv {B : List Stmt} {s t : State V} (h : execB ext B s = .ok t) :
    ∃ t1, execL ext B s = .ok t1 ∧ t = State.leave s t1 := by
  unfold execB at h
  exact map_leave_ok h

/-- `BlockRef` in terms of the unscoped runs -/
theorem BlockRef.unscoped {B B' : List Stmt} (h : BlockRef B B') {s s' t1 : State V}
    (hr : Ref s s') (h1 : execL ext B s = .ok t1) :
    ∃ t1', execL ext B' s' = .ok t1' ∧ Ref (State.leave s t1) (State.leave s' t1') := by
  obtain ⟨t', ht', hrr⟩ := h V ext s s' _ hr (execB_ok ext h1)
  obtain ⟨t1', h1', rfl⟩ := execB_ok_inv ext ht'
  exact ⟨t1', h1', hrr⟩

/-- one loop iteration (the scope is left into `a`, not into `a.bind i v`) -/
theorem BlockRef.step {B B' : List Stmt} (h : BlockRef B B') {a a' : State V} (hr : Ref a a')
    (i : Sym) (v : Int) :
    Fwd Ref ((execL ext B (a.bind i v)).map (State.leave a))
      ((execL ext B' (a'.bind i v)).map (State.leave a')) := by
  intro t ht
  obtain ⟨t1, h1, rfl⟩ := map_leave_ok ht
  obtain ⟨t1', h1', hrr⟩ := h.unscoped ext (hr.bind i v) h1
  refine ⟨State.leave a' t1', by rw [h1']; rfl, ?_⟩
  exact Sim.withEnv hrr.sim hr.env rfl rfl rfl rfl rfl rfl

end

theorem blockRef_of_blockLe {B B' : List Stmt} (h : BlockLe B B') : BlockRef B B' := by
  intro V _ ext s s' t hr ht
  obtain ⟨t1, h1, rfl⟩ := execB_ok_inv ext ht
  obtain ⟨t1', h1', hrr⟩ := (exec_mono ext B hr).ok_left h1
  have h2 := h V ext s' t1' h1'
  exact ⟨State.leave s' t1', execB_ok ext h2, hr.leave hrr (execL_scope ext B s t1 h1).2.1⟩

theorem BlockRef.refl (B : List Stmt) : BlockRef B B := blockRef_of_blockLe (BlockLe.refl B)

theorem BlockRef.trans {A B C : List Stmt} (h : BlockRef A B) (h' : BlockRef B C) :
    BlockRef A C := by
  intro V _ ext s s' t hr ht
  obtain ⟨t', ht', hr1⟩ := h V ext s s' t hr ht
  obtain ⟨t'', ht'', hr2⟩ := h' V ext s' s' t' (Ref.refl s') ht'
  exact ⟨t'', ht'', hr1.trans hr2⟩

theorem LRef.refl (B : List Stmt) : LRef B B := by
  intro V _ ext s s' t hr ht
  exact (exec_mono ext B hr).ok_left ht

theorem LRef.trans {A B C : List Stmt} (h : LRef A B) (h' : LRef B C) : LRef A C := by
  intro V _ ext s s' t hr ht
  obtain ⟨t', ht', hr1⟩ := h V ext s s' t hr ht
  obtain ⟨t'', ht'', hr2⟩ := h' V ext s' s' t' (Ref.refl s') ht'
  exact ⟨t'', ht'', hr1.trans hr2⟩

theorem lRef_of_blockLe {B B' : List Stmt} (h : BlockLe B B') : LRef B B' := by
  intro V _ ext s s' t hr ht
  obtain ⟨t', ht', hrr⟩ := (exec_mono ext B hr).ok_left ht
  exact ⟨t', h V ext s' t' ht', hrr⟩

theorem LRef.append {A A' B B' : List Stmt} (h : LRef A A') (h' : LRef B B') :
    LRef (A ++ B) (A' ++ B') := by
  intro V _ ext s s' t hr ht
  rw [execL_append] at ht ⊢
  cases hA : execL ext A s with
  | error e => rw [hA] at ht; simp [bind, Except.bind] at ht
  | ok s1 =>
    rw [hA] at ht
    obtain ⟨s1', hA', hr1⟩ := h V ext s s' s1 hr hA
    rw [hA']
    exact h' V ext s1 s1' t hr1 ht

theorem LRef.toBlockRef {B B' : List Stmt} (h : LRef B B') : BlockRef B B' := by
  intro V _ ext s s' t hr ht
  obtain ⟨t1, h1, rfl⟩ := execB_ok_inv ext ht
  obtain ⟨t1', h1', hrr⟩ := h V ext s s' t1 hr h1
  exact ⟨State.leave s' t1', execB_ok ext h1', hr.leave hrr (execL_scope ext B s t1 h1).2.1⟩

/-- a refinement-sound replacement of a block *suffix* is refinement-sound for the block -/
theorem BlockRef.append {A A' B B' : List Stmt} (h : LRef A A') (h' : BlockRef B B') :
    BlockRef (A ++ B) (A' ++ B') := by
  intro V _ ext s s' t hr ht
  obtain ⟨t2, h2, rfl⟩ := execB_ok_inv ext ht
  rw [execL_append] at h2
  cases hA : execL ext A s with
  | error e => rw [hA] at h2; simp [bind, Except.bind] at h2
  | ok s1 =>
    rw [hA] at h2
    have h2 : execL ext B s1 = .ok t2 := h2
    obtain ⟨s1', hA', hr1⟩ := h V ext s s' s1 hr hA
    obtain ⟨t2', h2', hrr⟩ := h'.unscoped ext hr1 h2
    have hrun : execL ext (A' ++ B') s' = .ok t2' := by
      rw [execL_append, hA']; exact h2'
    refine ⟨State.leave s' t2', execB_ok ext hrun, ?_⟩
    have l1 := (execL_scope ext A s s1 hA).2.1
    have l1' := (execL_scope ext A' s' s1' hA').2.1
    have l2 := (execL_scope ext B s1 t2 h2).2.1
    have := hr.leave hrr (by rw [leave_heap_length s1 t2 l2]; exact l1)
    rwa [leave_leave s s1 t2 l1, leave_leave s' s1' t2' l1'] at this

theorem BlockRef.prefix (pre : List Stmt) {B B' : List Stmt} (h : BlockRef B B') :
    BlockRef (pre ++ B) (pre ++ B') :=
  BlockRef.append (LRef.refl pre) h

theorem LRef.loop {B B' : List Stmt} (h : BlockRef B B') (i : Sym) (lo hi : Expr) (par : Bool) :
    LRef [.loop i lo hi B par] [.loop i lo hi B' par] := by
  intro V _ ext s s' t hr
  rw [execL_singleton, execL_singleton]
  simp only [execS]
  rw [evalC_ref hr lo, evalC_ref hr hi]
  refine Fwd.bind_eq (fun l _ => Fwd.bind_eq (fun hh _ =>
    Fwd.ite (fun _ => Fwd.ofThrowBind) (fun _ => ?_))) t
  exact iterate_fwd Ref _ _ (fun v a a' haa => h.step ext haa i v) _ _ s s' hr

theorem LRef.iteT {B B' : List Stmt} (h : BlockRef B B') (c : Expr) (e : List Stmt) :
    LRef [.ite c B e] [.ite c B' e] := by
  intro V _ ext s s' t hr
  rw [execL_singleton, execL_singleton]
  simp only [execS]
  rw [evalC_ref hr c]
  refine Fwd.bind_eq (fun b _ => Fwd.ite (fun _ => ?_) (fun _ => ?_)) t
  · exact fun t ht => h V ext s s' t hr ht
  · exact fun t ht => BlockRef.refl e V ext s s' t hr ht

theorem LRef.iteE {B B' : List Stmt} (h : BlockRef B B') (c : Expr) (t : List Stmt) :
    LRef [.ite c t B] [.ite c t B'] := by
  intro V _ ext s s' o hr
  rw [execL_singleton, execL_singleton]
  simp only [execS]
  rw [evalC_ref hr c]
  refine Fwd.bind_eq (fun b _ => Fwd.ite (fun _ => ?_) (fun _ => ?_)) o
  · exact fun o ho => BlockRef.refl t V ext s s' o hr ho
  · exact fun o ho => h V ext s s' o hr ho

theorem BlockRef.cons_mid (pre post : List Stmt) {st st' : Stmt} (h : LRef [st] [st']) :
    BlockRef (pre ++ st :: post) (pre ++ st' :: post) :=
  (LRef.append (LRef.refl pre) (LRef.append h (LRef.refl post))).toBlockRef

/-- a local rewrite that is refinement-sound on every block suffix, applied by `Rw.rewriteAt` at
    any address, is refinement-sound for the body -/
theorem rewriteAt_ref (f : Rw.Local) (hf : ∀ ss r, f ss = some r → BlockRef ss r) :
    ∀ (path : Rw.Path) (body body' : List Stmt), Rw.rewriteAt f path body = some body' →
      BlockRef body body'
  | [], _, _, h => by simp [Rw.rewriteAt] at h
  | [st], ss, ss', h => by
    simp only [Rw.rewriteAt, Option.map_eq_some_iff] at h
    obtain ⟨r, hr, rfl⟩ := h
    have h1 := BlockRef.prefix (ss.take st.idx) (hf _ _ hr)
    rwa [List.take_append_drop] at h1
  | st :: nxt :: rest, ss, ss', h => by
    simp only [Rw.rewriteAt] at h
    split at h
    · rename_i i lo hi b par hs
      split at h
      · simp only [Option.map_eq_some_iff] at h
        obtain ⟨b', hb', rfl⟩ := h
        have ih := rewriteAt_ref f hf _ b b' hb'
        have e0 := Rw.decomp ss st.idx _ hs
        have h2 := BlockRef.cons_mid (ss.take st.idx) (ss.drop (st.idx + 1))
          (LRef.loop ih i lo hi par)
        rw [← e0] at h2
        exact h2
      · cases h
    · rename_i c t e hs
      split at h
      · simp only [Option.map_eq_some_iff] at h
        obtain ⟨t', ht', rfl⟩ := h
        have ih := rewriteAt_ref f hf _ t t' ht'
        have e0 := Rw.decomp ss st.idx _ hs
        have h2 := BlockRef.cons_mid (ss.take st.idx) (ss.drop (st.idx + 1))
          (LRef.iteT ih c e)
        rw [← e0] at h2
        exact h2
      · simp only [Option.map_eq_some_iff] at h
        obtain ⟨e', he', rfl⟩ := h
        have ih := rewriteAt_ref f hf _ e e' he'
        have e0 := Rw.decomp ss st.idx _ hs
        have h2 := BlockRef.cons_mid (ss.take st.idx) (ss.drop (st.idx + 1))
          (LRef.iteE ih c t)
        rw [← e0] at h2
        exact h2
    · cases h

theorem equiv_of_blockRef {B B' : List Stmt} (h : BlockRef B B') (nm : String)
    (args : List FnArg) (preds : List Expr) :
    Equiv (fun _ => False) (.mk nm args preds B) (.mk nm args preds B') := by
  intro V _ ext σ o ho
  simp only [Proc.body] at ho ⊢
  obtain ⟨o', ho', hr⟩ := h V ext σ σ o (Ref.refl σ) ho
  exact ⟨o', ho', hr.refines⟩

end Exo
