/-
  The reflective lane evaluator: what a `LaneLoop` computes, proved once for every trip count.

    exec_laneLoop   : a loop `for i in seq(0,n): [if i < N:] dst[i] (=|+=) e(i)` run in a state
                      in which dst and the operands read by `e` are placed in bounds, in distinct
                      buffers, dst with stride 1, ends in the state whose dst cells hold
                      `newLane j` (all right-hand sides evaluated in the INITIAL heap)
    exec_accLoop    : a loop `for i in seq(0,n): acc += e(i)` ends with acc = (…((acc+e0)+e1)…)
-/
import ExoModel.Lane
import ExoModel.Lemmas.LaneHeap
import ExoModel.Lemmas.Iterate

set_option linter.unusedSectionVars false
set_option linter.unusedVariables false
namespace Exo.Lane
open Exo.X86
variable {V : Type} [DataAlg V] (ext : String → List V → V)

/-! ### values of right-hand sides -/

def binVal (op : BinOp) (a b : Option V) : Option V :=
  match op with
  | .add => lift2 DataAlg.add a b
  | .sub => lift2 DataAlg.sub a b
  | .mul => lift2 DataAlg.mul a b
  | .div => lift2 DataAlg.div a b
  | _ => none

def isArith : BinOp → Bool
  | .add | .sub | .mul | .div => true
  | _ => false

/-- value of `e` at lane `j`, read off the heap of `σ` -/
def LExp.val (σ : State V) (j : Nat) : LExp → Option V
  | .lane x b => match lookupSym x σ.views with
      | some v => heapGet σ.heap (v.buf, v.off.toNat + (b + j))
      | none => none
  | .first x => match lookupSym x σ.views with
      | some v => heapGet σ.heap (v.buf, v.off.toNat)
      | none => none
  | .sc x => match lookupSym x σ.views with
      | some v => heapGet σ.heap (v.buf, v.off.toNat)
      | none => none
  | .lit n d => some (DataAlg.ofRat n d)
  | .neg a => (a.val σ j).map DataAlg.neg
  | .bin op a b => binVal op (a.val σ j) (b.val σ j)
  | .ext1 f a => (allSome [a.val σ j]).map (ext f)
  | .ext4 f a b c d => (allSome [a.val σ j, b.val σ j, c.val σ j, d.val σ j]).map (ext f)

/-- a stride-1 view with at least `need` lanes, inside its buffer -/
def vecOK (heap : Heap V) (v : View) (need : Int) : Prop :=
  ∃ m : Int, v.dims = [(m, 1)] ∧ need ≤ m ∧ 0 ≤ v.off ∧ v.off + m ≤ bufLen heap v.buf

/-- a view whose first element exists -/
def firstOK (heap : Heap V) (v : View) : Prop :=
  (v.dims = [] ∨ ∃ m s : Int, v.dims = [(m, s)] ∧ 0 < m) ∧ 0 ≤ v.off ∧ v.off < bufLen heap v.buf

/-- the operands `e` reads are placed so that lanes `0 ≤ j < act` can be read, outside buffer `bd` -/
def LExp.OK (σ : State V) (act : Int) (bd : Nat) : LExp → Prop
  | .lane x b => match lookupSym x σ.views with
      | some v => vecOK σ.heap v (b + act) ∧ v.buf ≠ bd
      | none => False
  | .first x => match lookupSym x σ.views with
      | some v => (∃ m s : Int, v.dims = [(m, s)] ∧ 0 < m) ∧ 0 ≤ v.off ∧ v.off < bufLen σ.heap v.buf ∧ v.buf ≠ bd
      | none => False
  | .sc x => match lookupSym x σ.views with
      | some v => v.dims = [] ∧ 0 ≤ v.off ∧ v.off < bufLen σ.heap v.buf ∧ v.buf ≠ bd
      | none => False
  | .lit _ _ => True
  | .neg a => a.OK σ act bd
  | .bin op a b => isArith op = true ∧ a.OK σ act bd ∧ b.OK σ act bd
  | .ext1 _ a => a.OK σ act bd
  | .ext4 _ a b c d => a.OK σ act bd ∧ b.OK σ act bd ∧ c.OK σ act bd ∧ d.OK σ act bd

theorem cellOf_1d {heap : Heap V} {v : View} {m s k : Int} (hd : v.dims = [(m, s)])
    (hk0 : 0 ≤ k) (hkm : k < m) (ho0 : 0 ≤ v.off + k * s) (ho1 : v.off + k * s < bufLen heap v.buf) :
    cellOf heap v [k] = .ok (v.buf, (v.off + k * s).toNat) := by
  have hp : 0 < bufLen heap v.buf := by omega
  obtain ⟨buf, hb, hl⟩ := bufLen_pos hp
  simp only [cellOf, viewOffset, hd, hk0, hkm, and_self, if_true, bind, Except.bind, pure, Except.pure, hb]
  rw [hl]
  simp [ho0, ho1]

theorem cellOf_0d {heap : Heap V} {v : View} (hd : v.dims = [])
    (ho0 : 0 ≤ v.off) (ho1 : v.off < bufLen heap v.buf) :
    cellOf heap v [] = .ok (v.buf, v.off.toNat) := by
  have hp : 0 < bufLen heap v.buf := by omega
  obtain ⟨buf, hb, hl⟩ := bufLen_pos hp
  simp only [cellOf, viewOffset, hd, bind, Except.bind, pure, Except.pure, hb]
  rw [hl]
  simp [ho0, ho1]

theorem evalC_laneIdx (σ : State V) (i : Sym) (j : Int) (hi : lookupSym i σ.env = some j) (b : Nat) :
    evalC σ (laneIdx i b) = .ok ((b : Int) + j) := by
  cases b with
  | zero => simp [laneIdx, evalC, hi, pure, Except.pure]
  | succ b => simp [laneIdx, evalC, hi, pure, Except.pure, bind, Except.bind, ctrlOp]

/-- evaluating the LoopIR of `e` at lane `j` in any heap that agrees with `σ`'s outside `bd` gives
    the value read off `σ`'s heap -/
theorem evalD_toExpr (σ : State V) (i : Sym) (act : Int) (bd : Nat) (j : Nat) (hj : (j : Int) < act)
    (env' : List (Sym × Int)) (henv : lookupSym i env' = some (j : Int))
    (h' : Heap V) (hag : AgreeOff bd σ.heap h') (cfg' : List ((String × String) × CfgVal V)) :
    ∀ (e : LExp), e.OK σ act bd →
      evalD ext { env := env', views := σ.views, heap := h', cfg := cfg' } (e.toExpr i) = .ok (e.val ext σ j)
  | .lane x b, hok => by
    simp only [LExp.OK] at hok
    simp only [LExp.toExpr, LExp.val, evalD]
    cases hv : lookupSym x σ.views with
    | none => simp [hv] at hok
    | some v =>
      simp only [hv] at hok ⊢
      obtain ⟨⟨m, hd, hneed, ho, hlen⟩, hbuf⟩ := hok
      have hidx := evalC_laneIdx ({ env := env', views := σ.views, heap := h', cfg := cfg' } : State V) i j henv b
      simp only [evalCs, hidx, bind, Except.bind, pure, Except.pure]
      have hbl : bufLen h' v.buf = bufLen σ.heap v.buf := hag.bufLen hbuf
      rw [cellOf_1d (k := (b : Int) + j) (s := 1) (m := m) hd (by omega) (by omega) (by omega) (by omega)]
      simp only []
      rw [hag.heapGet (c := (v.buf, _)) hbuf]
      congr 3
      omega
  | .first x, hok => by
    simp only [LExp.OK] at hok
    simp only [LExp.toExpr, LExp.val, evalD]
    cases hv : lookupSym x σ.views with
    | none => simp [hv] at hok
    | some v =>
      simp only [hv] at hok ⊢
      obtain ⟨⟨m, s, hd, hm⟩, ho, hlen, hbuf⟩ := hok
      simp only [evalCs, evalC, bind, Except.bind, pure, Except.pure]
      have hbl : bufLen h' v.buf = bufLen σ.heap v.buf := hag.bufLen hbuf
      rw [cellOf_1d (k := 0) (s := s) (m := m) hd (by omega) (by omega) (by omega) (by omega)]
      simp only []
      rw [hag.heapGet (c := (v.buf, _)) hbuf]
      congr 3
      omega
  | .sc x, hok => by
    simp only [LExp.OK] at hok
    simp only [LExp.toExpr, LExp.val, evalD]
    cases hv : lookupSym x σ.views with
    | none => simp [hv] at hok
    | some v =>
      simp only [hv] at hok ⊢
      obtain ⟨hd, ho, hlen, hbuf⟩ := hok
      simp only [evalCs, bind, Except.bind, pure, Except.pure]
      have hbl : bufLen h' v.buf = bufLen σ.heap v.buf := hag.bufLen hbuf
      rw [cellOf_0d hd (by omega) (by omega)]
      simp only []
      rw [hag.heapGet (c := (v.buf, _)) hbuf]
  | .lit n d, _ => by simp [LExp.toExpr, LExp.val, evalD, pure, Except.pure]
  | .neg a, hok => by
    simp only [LExp.OK] at hok
    simp only [LExp.toExpr, LExp.val, evalD, bind, Except.bind]
    rw [evalD_toExpr σ i act bd j hj env' henv h' hag cfg' a hok]
    rfl
  | .bin op a b, hok => by
    simp only [LExp.OK] at hok
    obtain ⟨hop, ha, hb⟩ := hok
    simp only [LExp.toExpr, LExp.val, evalD, bind, Except.bind]
    rw [evalD_toExpr σ i act bd j hj env' henv h' hag cfg' a ha,
        evalD_toExpr σ i act bd j hj env' henv h' hag cfg' b hb]
    cases op <;> simp [isArith] at hop <;> simp [dataOp, binVal, pure, Except.pure]
  | .ext1 f a, hok => by
    simp only [LExp.OK] at hok
    simp only [LExp.toExpr, LExp.val, evalD, evalDs, bind, Except.bind]
    rw [evalD_toExpr σ i act bd j hj env' henv h' hag cfg' a hok]
    simp [pure, Except.pure]
  | .ext4 f a b c d, hok => by
    simp only [LExp.OK] at hok
    obtain ⟨ha, hb, hc, hd⟩ := hok
    simp only [LExp.toExpr, LExp.val, evalD, evalDs, bind, Except.bind]
    rw [evalD_toExpr σ i act bd j hj env' henv h' hag cfg' a ha,
        evalD_toExpr σ i act bd j hj env' henv h' hag cfg' b hb,
        evalD_toExpr σ i act bd j hj env' henv h' hag cfg' c hc,
        evalD_toExpr σ i act bd j hj env' henv h' hag cfg' d hd]
    simp [pure, Except.pure]

/-! ### the loop -/

def guardAt (σ : State V) (g : Option Sym) (j : Nat) : Bool :=
  match g with
  | none => true
  | some N => match lookupSym N σ.env with
      | some nv => decide ((j : Int) < nv)
      | none => false

/-- number of lanes the loop touches (as an upper bound on the lane index) -/
def LaneLoop.active (L : LaneLoop) (σ : State V) : Int :=
  match L.guard with
  | none => L.n
  | some N => match lookupSym N σ.env with
      | some nv => min (L.n : Int) nv
      | none => 0

/-- contents of `dst[j]` after the loop -/
def LaneLoop.newLane (L : LaneLoop) (σ : State V) (vd : View) (j : Nat) : Option V :=
  if guardAt σ L.guard j then
    (if L.reduce then lift2 DataAlg.add (heapGet σ.heap (vd.buf, vd.off.toNat + j)) (L.rhs.val ext σ j)
     else L.rhs.val ext σ j)
  else heapGet σ.heap (vd.buf, vd.off.toNat + j)

theorem leave_same_len (s1 s2 : State V) (h : s2.heap.length = s1.heap.length) :
    State.leave s1 s2 = { env := s1.env, views := s1.views, heap := s2.heap, cfg := s2.cfg } := by
  simp [State.leave, ← h]

theorem take_heapSet (H : Heap V) (c : Nat × Nat) (v : Option V) :
    (heapSet H c v).take H.length = heapSet H c v := by
  rw [List.take_of_length_le]; simp

theorem execL_singleton (s : Stmt) (σ : State V) : execL ext [s] σ = execS ext s σ := by
  simp only [execL, bind, Except.bind, pure, Except.pure]
  cases execS ext s σ <;> rfl

theorem guardAt_lt_active (L : LaneLoop) (σ : State V) (j : Nat) (hj : j < L.n)
    (hg : guardAt σ L.guard j = true) : (j : Int) < L.active σ := by
  unfold LaneLoop.active
  unfold guardAt at hg
  cases hgd : L.guard with
  | none => simp; omega
  | some N =>
    simp only [hgd] at hg ⊢
    cases hN : lookupSym N σ.env with
    | none => simp [hN] at hg
    | some nv =>
      simp only [hN, decide_eq_true_eq] at hg ⊢
      omega

theorem execS_ite (c : Expr) (t e : List Stmt) (σ : State V) (b : Int) (hc : evalC σ c = .ok b) :
    execS ext (.ite c t e) σ =
      if b ≠ 0 then (execL ext t σ).map (State.leave σ) else (execL ext e σ).map (State.leave σ) := by
  simp only [execS, hc, bind, Except.bind]

/-- one statement `dst[i] (=|+=) rhs` at lane `k` -/
theorem execS_laneStmt (L : LaneLoop) (σ : State V) (hdl : L.dstLane = true)
    (vd : View) (hvd : lookupSym L.dst σ.views = some vd) (m : Int) (hd : vd.dims = [(m, 1)])
    (hoff : 0 ≤ vd.off) (hlen : vd.off + m ≤ bufLen σ.heap vd.buf)
    (hact : L.active σ ≤ m) (hrhs : L.rhs.OK σ (L.active σ) vd.buf)
    (k : Nat) (hk : (k : Int) < L.active σ)
    (H : Heap V) (hag : AgreeOff vd.buf σ.heap H) (hbl : bufLen H vd.buf = bufLen σ.heap vd.buf)
    (hold : heapGet H (vd.buf, vd.off.toNat + k) = heapGet σ.heap (vd.buf, vd.off.toNat + k)) :
    execS ext L.stmt { env := (L.i, (k : Int)) :: σ.env, views := σ.views, heap := H, cfg := σ.cfg } =
      .ok { env := (L.i, (k : Int)) :: σ.env, views := σ.views,
            heap := heapSet H (vd.buf, vd.off.toNat + k)
              (if L.reduce then lift2 DataAlg.add (heapGet σ.heap (vd.buf, vd.off.toNat + k)) (L.rhs.val ext σ k)
               else L.rhs.val ext σ k),
            cfg := σ.cfg } := by
  have henv : lookupSym L.i ((L.i, (k : Int)) :: σ.env) = some (k : Int) := by simp [lookupSym]
  have hev := evalD_toExpr ext σ L.i (L.active σ) vd.buf k hk ((L.i, (k : Int)) :: σ.env) henv H hag σ.cfg
    L.rhs hrhs
  have hcell : cellOf H vd [(k : Int)] = .ok (vd.buf, vd.off.toNat + k) := by
    rw [cellOf_1d (k := (k : Int)) (s := 1) (m := m) hd (by omega) (by omega) (by omega) (by omega)]
    congr 2
    omega
  unfold LaneLoop.stmt
  simp only [hdl, if_true]
  cases hr : L.reduce with
  | false =>
    simp only [Bool.false_eq_true, if_false, execS, bind, Except.bind, hev, writeCell, hvd, evalCs, evalC,
      henv, pure, Except.pure, hcell]
  | true =>
    simp only [if_true, execS, bind, Except.bind, hev, writeCell, hvd, evalCs, evalC,
      henv, pure, Except.pure, hcell, hold]

/-- the loop never shadows its guard and the guard is bound -/
def LaneLoop.guardOK (L : LaneLoop) (σ : State V) : Prop :=
  match L.guard with
  | none => True
  | some N => N ≠ L.i ∧ (lookupSym N σ.env).isSome = true

/-- one iteration, at lane `k`, started in a heap `H` that differs from `σ`'s only in cells
    `< k` of the dst buffer -/
theorem laneIter (L : LaneLoop) (σ : State V) (hdl : L.dstLane = true)
    (vd : View) (hvd : lookupSym L.dst σ.views = some vd) (m : Int) (hd : vd.dims = [(m, 1)])
    (hoff : 0 ≤ vd.off) (hlen : vd.off + m ≤ bufLen σ.heap vd.buf)
    (hact : L.active σ ≤ m) (hrhs : L.rhs.OK σ (L.active σ) vd.buf) (hg : L.guardOK σ)
    (k : Nat) (hk : k < L.n)
    (H : Heap V) (hag : AgreeOff vd.buf σ.heap H) (hbl : bufLen H vd.buf = bufLen σ.heap vd.buf)
    (hold : heapGet H (vd.buf, vd.off.toNat + k) = heapGet σ.heap (vd.buf, vd.off.toNat + k)) :
    (execL ext [L.inner]
        (State.bind { env := σ.env, views := σ.views, heap := H, cfg := σ.cfg } L.i (k : Int))).map
      (State.leave { env := σ.env, views := σ.views, heap := H, cfg := σ.cfg }) =
    .ok { env := σ.env, views := σ.views,
          heap := heapSet H (vd.buf, vd.off.toNat + k) (L.newLane ext σ vd k), cfg := σ.cfg } := by
  rw [execL_singleton]
  simp only [State.bind]
  unfold LaneLoop.inner
  cases hgd : L.guard with
  | none =>
    have hga : guardAt σ L.guard k = true := by simp [guardAt, hgd]
    have hka := guardAt_lt_active L σ k hk hga
    simp only []
    rw [execS_laneStmt ext L σ hdl vd hvd m hd hoff hlen hact hrhs k hka H hag hbl hold]
    simp only [Except.map, LaneLoop.newLane, hga, if_true]
    rw [leave_same_len _ _ (by simp)]
  | some N =>
    simp only []
    unfold LaneLoop.guardOK at hg
    simp only [hgd] at hg
    obtain ⟨hNi, hNs⟩ := hg
    cases hN : lookupSym N σ.env with
    | none => simp [hN] at hNs
    | some nv =>
      have hlk : lookupSym N ((L.i, (k : Int)) :: σ.env) = some nv := by
        simp [lookupSym, hNi, hN]
      have hli : lookupSym L.i ((L.i, (k : Int)) :: σ.env) = some (k : Int) := by simp [lookupSym]
      have hc : evalC ({ env := (L.i, (k : Int)) :: σ.env, views := σ.views, heap := H, cfg := σ.cfg } : State V)
          (.binop .lt (.read L.i []) (.read N [])) = .ok (b2i ((k : Int) < nv)) := by
        simp [evalC, hlk, hli, bind, Except.bind, pure, Except.pure, ctrlOp]
      rw [execS_ite ext _ _ _ _ _ hc]
      by_cases hlt : (k : Int) < nv
      · have hga : guardAt σ L.guard k = true := by simp [guardAt, hgd, hN, hlt]
        have hka := guardAt_lt_active L σ k hk hga
        have hb : b2i ((k : Int) < nv) ≠ 0 := by simp [b2i, hlt]
        rw [if_pos hb, execL_singleton,
          execS_laneStmt ext L σ hdl vd hvd m hd hoff hlen hact hrhs k hka H hag hbl hold]
        simp only [Except.map, LaneLoop.newLane, hga, if_true, State.leave, take_heapSet]
      · have hga : guardAt σ L.guard k = false := by simp [guardAt, hgd, hN, hlt]
        have hb : ¬ (b2i ((k : Int) < nv) ≠ 0) := by simp [b2i, hlt]
        rw [if_neg hb]
        simp only [execL, pure, Except.pure, Except.map, LaneLoop.newLane, hga, Bool.false_eq_true, if_false,
          State.leave, List.take_length]
        rw [← hold, heapSet_heapGet_self]

/-- dst cells after `k` lanes -/
def LaneLoop.heapAfter (L : LaneLoop) (σ : State V) (vd : View) (k : Nat) : Heap V :=
  setLanes σ.heap vd.buf vd.off.toNat ((List.range k).map (L.newLane ext σ vd))

theorem heapAfter_succ (L : LaneLoop) (σ : State V) (vd : View) (k : Nat) :
    L.heapAfter ext σ vd (k + 1) =
      heapSet (L.heapAfter ext σ vd k) (vd.buf, vd.off.toNat + k) (L.newLane ext σ vd k) := by
  unfold LaneLoop.heapAfter
  rw [List.range_succ, List.map_append, List.map_singleton, setLanes_snoc]
  simp

theorem iterate_lane (L : LaneLoop) (σ : State V) (hdl : L.dstLane = true)
    (vd : View) (hvd : lookupSym L.dst σ.views = some vd) (m : Int) (hd : vd.dims = [(m, 1)])
    (hoff : 0 ≤ vd.off) (hlen : vd.off + m ≤ bufLen σ.heap vd.buf)
    (hact : L.active σ ≤ m) (hrhs : L.rhs.OK σ (L.active σ) vd.buf) (hg : L.guardOK σ) :
    ∀ (r k : Nat), k + r = L.n →
      iterate (fun v s => (execL ext [L.inner] (s.bind L.i v)).map (State.leave s)) r (k : Int)
        { env := σ.env, views := σ.views, heap := L.heapAfter ext σ vd k, cfg := σ.cfg } =
      .ok { env := σ.env, views := σ.views, heap := L.heapAfter ext σ vd L.n, cfg := σ.cfg }
  | 0, k, hkr => by
    have : k = L.n := by omega
    subst this
    simp [iterate, pure, Except.pure]
  | r + 1, k, hkr => by
    simp only [iterate, bind, Except.bind]
    rw [laneIter ext L σ hdl vd hvd m hd hoff hlen hact hrhs hg k (by omega)
      (L.heapAfter ext σ vd k) (agreeOff_setLanes _ _ _ _) (bufLen_setLanes _ _ _ _ _)
      (heapGet_setLanes_outside _ _ _ _ _ (by simp))]
    simp only []
    rw [← heapAfter_succ]
    have := iterate_lane L σ hdl vd hvd m hd hoff hlen hact hrhs hg r (k + 1) (by omega)
    simpa using this

/-- **the lane evaluator**: a lane loop ends in the state whose dst cells hold `newLane` -/
theorem exec_laneLoop (L : LaneLoop) (σ : State V) (hdl : L.dstLane = true)
    (vd : View) (hvd : lookupSym L.dst σ.views = some vd) (m : Int) (hd : vd.dims = [(m, 1)])
    (hoff : 0 ≤ vd.off) (hlen : vd.off + m ≤ bufLen σ.heap vd.buf)
    (hact : L.active σ ≤ m) (hrhs : L.rhs.OK σ (L.active σ) vd.buf) (hg : L.guardOK σ) :
    execB ext L.toBody σ =
      .ok { env := σ.env, views := σ.views,
            heap := setLanes σ.heap vd.buf vd.off.toNat ((List.range L.n).map (L.newLane ext σ vd)),
            cfg := σ.cfg } := by
  unfold execB LaneLoop.toBody
  rw [execL_singleton]
  simp only [execS, evalC, bind, Except.bind, pure, Except.pure]
  have hn : ¬ ((L.n : Int) < 0) := by omega
  simp only [hn, if_false]
  have h0 : ((L.n : Int) - 0).toNat = L.n := by omega
  rw [h0]
  have hσ : σ = { env := σ.env, views := σ.views, heap := L.heapAfter ext σ vd 0, cfg := σ.cfg } := by
    cases σ; simp [LaneLoop.heapAfter, setLanes]
  have := iterate_lane ext L σ hdl vd hvd m hd hoff hlen hact hrhs hg L.n 0 (by omega)
  rw [← hσ] at this
  simp only [Int.natCast_zero] at this
  rw [this]
  simp only [Except.map, LaneLoop.heapAfter]
  rw [leave_same_len _ _ (by simp)]

/-! ### packaged form (everything determined by `L` and `σ`) -/

def LaneLoop.placed (L : LaneLoop) (σ : State V) : Prop :=
  match lookupSym L.dst σ.views with
  | some vd => match vd.dims with
      | [(m, s)] => s = 1 ∧ 0 ≤ vd.off ∧ vd.off + m ≤ bufLen σ.heap vd.buf ∧ L.active σ ≤ m ∧
          L.rhs.OK σ (L.active σ) vd.buf ∧ L.guardOK σ
      | _ => False
  | none => False

def LaneLoop.result (L : LaneLoop) (σ : State V) : State V :=
  match lookupSym L.dst σ.views with
  | some vd => { env := σ.env, views := σ.views,
                 heap := setLanes σ.heap vd.buf vd.off.toNat ((List.range L.n).map (L.newLane ext σ vd)),
                 cfg := σ.cfg }
  | none => σ

theorem exec_laneLoop' (L : LaneLoop) (σ : State V) (hdl : L.dstLane = true) (hp : L.placed σ) :
    execB ext L.toBody σ = .ok (L.result ext σ) := by
  unfold LaneLoop.placed at hp
  unfold LaneLoop.result
  cases hv : lookupSym L.dst σ.views with
  | none => simp [hv] at hp
  | some vd =>
    simp only [hv] at hp ⊢
    split at hp
    · rename_i m s hd
      obtain ⟨hs, hoff, hlen, hact, hrhs, hg⟩ := hp
      subst hs
      exact exec_laneLoop ext L σ hdl vd hv m hd hoff hlen hact hrhs hg
    · exact hp.elim

theorem vecOK_mk (heap : Heap V) (b : Nat) (o m s need : Int) :
    vecOK heap ⟨b, o, [(m, s)]⟩ need ↔ s = 1 ∧ need ≤ m ∧ 0 ≤ o ∧ o + m ≤ bufLen heap b := by
  unfold vecOK
  constructor
  · rintro ⟨m', hd, h1, h2, h3⟩
    simp only [List.cons.injEq, Prod.mk.injEq, and_true] at hd
    obtain ⟨rfl, rfl⟩ := hd
    exact ⟨rfl, h1, h2, h3⟩
  · rintro ⟨rfl, h1, h2, h3⟩
    exact ⟨m, rfl, h1, h2, h3⟩

theorem exists_dims_mk (m s : Int) :
    (∃ m' s' : Int, [(m, s)] = [(m', s')] ∧ 0 < m') ↔ 0 < m := by
  constructor
  · rintro ⟨m', s', hd, h⟩
    simp only [List.cons.injEq, Prod.mk.injEq, and_true] at hd
    obtain ⟨rfl, rfl⟩ := hd
    exact h
  · intro h
    exact ⟨m, s, rfl, h⟩

/-! ### accumulation into a scalar -/

/-- (…((old + e 0) + e 1)… + e (k-1)) -/
def LaneLoop.accAfter (L : LaneLoop) (σ : State V) (old : Option V) (k : Nat) : Option V :=
  (List.range k).foldl (fun a j => lift2 DataAlg.add a (L.rhs.val ext σ j)) old

theorem accAfter_succ (L : LaneLoop) (σ : State V) (old : Option V) (k : Nat) :
    L.accAfter ext σ old (k + 1) = lift2 DataAlg.add (L.accAfter ext σ old k) (L.rhs.val ext σ k) := by
  simp [LaneLoop.accAfter, List.range_succ]

theorem accIter (L : LaneLoop) (σ : State V) (hdl : L.dstLane = false) (hred : L.reduce = true)
    (hgd : L.guard = none)
    (vd : View) (hvd : lookupSym L.dst σ.views = some vd) (hd : vd.dims = [])
    (hoff : 0 ≤ vd.off) (hlen : vd.off < bufLen σ.heap vd.buf)
    (hrhs : L.rhs.OK σ (L.n : Int) vd.buf)
    (k : Nat) (hk : k < L.n) (a : Option V) :
    (execL ext [L.inner]
        (State.bind { env := σ.env, views := σ.views, heap := heapSet σ.heap (vd.buf, vd.off.toNat) a,
                      cfg := σ.cfg } L.i (k : Int))).map
      (State.leave { env := σ.env, views := σ.views, heap := heapSet σ.heap (vd.buf, vd.off.toNat) a,
                     cfg := σ.cfg }) =
    .ok { env := σ.env, views := σ.views,
          heap := heapSet σ.heap (vd.buf, vd.off.toNat) (lift2 DataAlg.add a (L.rhs.val ext σ k)),
          cfg := σ.cfg } := by
  rw [execL_singleton]
  simp only [State.bind]
  unfold LaneLoop.inner LaneLoop.stmt
  simp only [hgd, hdl, hred, if_true, Bool.false_eq_true, if_false]
  have henv : lookupSym L.i ((L.i, (k : Int)) :: σ.env) = some (k : Int) := by simp [lookupSym]
  have hag : AgreeOff vd.buf σ.heap (heapSet σ.heap (vd.buf, vd.off.toNat) a) :=
    fun b hb => heapSet_getElem?_ne _ _ _ b hb
  have hev := evalD_toExpr ext σ L.i (L.n : Int) vd.buf k (by omega) ((L.i, (k : Int)) :: σ.env) henv _ hag σ.cfg
    L.rhs hrhs
  have hcell : cellOf (heapSet σ.heap (vd.buf, vd.off.toNat) a) vd [] = .ok (vd.buf, vd.off.toNat) :=
    cellOf_0d hd hoff (by simp; exact hlen)
  have hget : heapGet (heapSet σ.heap (vd.buf, vd.off.toNat) a) (vd.buf, vd.off.toNat) = a :=
    heapGet_heapSet_eq _ _ _ _ (by omega)
  simp only [execS, bind, Except.bind, hev, writeCell, hvd, evalCs, pure, Except.pure, hcell, hget,
    Except.map, State.leave, heapSet_heapSet_same]
  rw [List.take_of_length_le (by simp)]

theorem iterate_acc (L : LaneLoop) (σ : State V) (hdl : L.dstLane = false) (hred : L.reduce = true)
    (hgd : L.guard = none)
    (vd : View) (hvd : lookupSym L.dst σ.views = some vd) (hd : vd.dims = [])
    (hoff : 0 ≤ vd.off) (hlen : vd.off < bufLen σ.heap vd.buf)
    (hrhs : L.rhs.OK σ (L.n : Int) vd.buf) (old : Option V) :
    ∀ (r k : Nat), k + r = L.n →
      iterate (fun v s => (execL ext [L.inner] (s.bind L.i v)).map (State.leave s)) r (k : Int)
        { env := σ.env, views := σ.views,
          heap := heapSet σ.heap (vd.buf, vd.off.toNat) (L.accAfter ext σ old k), cfg := σ.cfg } =
      .ok { env := σ.env, views := σ.views,
            heap := heapSet σ.heap (vd.buf, vd.off.toNat) (L.accAfter ext σ old L.n), cfg := σ.cfg }
  | 0, k, hkr => by
    have : k = L.n := by omega
    subst this
    simp [iterate, pure, Except.pure]
  | r + 1, k, hkr => by
    simp only [iterate, bind, Except.bind]
    rw [accIter ext L σ hdl hred hgd vd hvd hd hoff hlen hrhs k (by omega)]
    simp only []
    rw [← accAfter_succ]
    have := iterate_acc L σ hdl hred hgd vd hvd hd hoff hlen hrhs old r (k + 1) (by omega)
    simpa using this

def LaneLoop.accPlaced (L : LaneLoop) (σ : State V) : Prop :=
  match lookupSym L.dst σ.views with
  | some vd => vd.dims = [] ∧ 0 ≤ vd.off ∧ vd.off < bufLen σ.heap vd.buf ∧ L.rhs.OK σ (L.n : Int) vd.buf
  | none => False

def LaneLoop.accResult (L : LaneLoop) (σ : State V) : State V :=
  match lookupSym L.dst σ.views with
  | some vd => { env := σ.env, views := σ.views,
                 heap := setLanes σ.heap vd.buf vd.off.toNat
                   [L.accAfter ext σ (heapGet σ.heap (vd.buf, vd.off.toNat)) L.n],
                 cfg := σ.cfg }
  | none => σ

/-- **the lane evaluator, accumulating form**: `for i in seq(0,n): acc += e(i)` -/
theorem exec_accLoop' (L : LaneLoop) (σ : State V) (hdl : L.dstLane = false) (hred : L.reduce = true)
    (hgd : L.guard = none) (hp : L.accPlaced σ) :
    execB ext L.toBody σ = .ok (L.accResult ext σ) := by
  unfold LaneLoop.accPlaced at hp
  unfold LaneLoop.accResult
  cases hv : lookupSym L.dst σ.views with
  | none => simp [hv] at hp
  | some vd =>
    simp only [hv] at hp ⊢
    obtain ⟨hd, hoff, hlen, hrhs⟩ := hp
    unfold execB LaneLoop.toBody
    rw [execL_singleton]
    simp only [execS, evalC, bind, Except.bind, pure, Except.pure]
    have hn : ¬ ((L.n : Int) < 0) := by omega
    simp only [hn, if_false]
    have h0 : ((L.n : Int) - 0).toNat = L.n := by omega
    rw [h0]
    have hh : heapSet σ.heap (vd.buf, vd.off.toNat) (L.accAfter ext σ (heapGet σ.heap (vd.buf, vd.off.toNat)) 0)
        = σ.heap := by
      simp [LaneLoop.accAfter, heapSet_heapGet_self]
    have hσ : σ = { env := σ.env, views := σ.views, heap := heapSet σ.heap (vd.buf, vd.off.toNat) (L.accAfter ext σ (heapGet σ.heap (vd.buf, vd.off.toNat)) 0), cfg := σ.cfg } := by
      rw [hh]
    have := iterate_acc ext L σ hdl hred hgd vd hv hd hoff hlen hrhs
      (heapGet σ.heap (vd.buf, vd.off.toNat)) L.n 0 (by omega)
    rw [← hσ] at this
    simp only [Int.natCast_zero] at this
    rw [this]
    simp only [Except.map, setLanes, State.leave]
    rw [List.take_of_length_le (by simp)]

end Exo.Lane
