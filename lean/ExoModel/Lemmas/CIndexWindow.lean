/-
  ExoModel.Lemmas.CIndexWindow — strides, linearisation and window structs (helper lemmas of C02,
  parts B and C): `tensor_strides` against `Exo.denseDims`, the linearisation is a bijection
  between in-bounds index tuples and `[0, ∏ shape)`, the symbolic (CIR) strides / offsets evaluate
  to the numeric ones, and the values computed by the emitted window-struct expressions agree with
  the `View`s of the reference semantics (`viewOffset`, `applyAcc`, `evalView`, `cellOf`).
  Core only.
-/
import ExoModel.Lemmas.CIndexArith

namespace Exo.CIndex
open Exo.Range (IExpr Op Val)

/-! ## products and strides -/

/-- number of cells of a dense tensor of the given shape -/
def shapeProd (sh : List Int) : Int := sh.foldl (· * ·) 1

theorem CIndex_foldl_mul (a : Int) (l : List Int) :
    l.foldl (· * ·) a = a * l.foldl (· * ·) 1 := by
  induction l generalizing a with
  | nil => simp
  | cons d r ih => simp only [List.foldl_cons]; rw [ih (a * d), ih (1 * d)]; simp [Int.mul_assoc]

theorem CIndex_shapeProd_nil : shapeProd [] = 1 := rfl

theorem CIndex_shapeProd_cons (d : Int) (r : List Int) : shapeProd (d :: r) = d * shapeProd r := by
  simp only [shapeProd, List.foldl_cons]; rw [CIndex_foldl_mul]; simp

theorem CIndex_prodR_eq (d : Int) (r : List Int) : prodR (· * ·) d r = shapeProd (d :: r) := by
  induction r generalizing d with
  | nil => simp [prodR, shapeProd]
  | cons e r ih => simp only [prodR]; rw [ih e, CIndex_shapeProd_cons d (e :: r)]

theorem CIndex_tensorStrides_cons (d : Int) (r : List Int) :
    tensorStrides (d :: r) = shapeProd r :: tensorStrides r := by
  cases r with
  | nil => rfl
  | cons e r => simp only [tensorStrides, tensorStridesG]; rw [CIndex_prodR_eq]

theorem CIndex_tensorStrides_eq_denseDims (sh : List Int) :
    tensorStrides sh = (Exo.denseDims sh).map (·.2) := by
  induction sh with
  | nil => rfl
  | cons d r ih =>
      rw [CIndex_tensorStrides_cons, ih]
      simp [Exo.denseDims, shapeProd]

theorem CIndex_tensorStrides_length (sh : List Int) : (tensorStrides sh).length = sh.length := by
  induction sh with
  | nil => rfl
  | cons d r ih => rw [CIndex_tensorStrides_cons]; simp [ih]

/-! ## linearisation is a bijection onto `[0, ∏ shape)` -/

/-- index tuple within the shape: same length, `0 ≤ i < d` componentwise -/
def InBounds : List Int → List Int → Prop
  | [], [] => True
  | d :: sh, i :: is => 0 ≤ i ∧ i < d ∧ InBounds sh is
  | _, _ => False

theorem CIndex_linearise_nil : linearise [] [] = 0 := rfl

theorem CIndex_linearise_cons (d : Int) (sh : List Int) (i : Int) (is : List Int) :
    linearise (d :: sh) (i :: is) = i * shapeProd sh + linearise sh is := by
  simp only [linearise, CIndex_tensorStrides_cons, linOffset]

theorem CIndex_linearise_range {sh is : List Int} (h : InBounds sh is) :
    0 ≤ linearise sh is ∧ linearise sh is < shapeProd sh := by
  induction sh generalizing is with
  | nil =>
      cases is with
      | nil => simp [CIndex_linearise_nil, CIndex_shapeProd_nil]
      | cons i is => exact h.elim
  | cons d sh ih =>
      cases is with
      | nil => exact h.elim
      | cons i is =>
          obtain ⟨h0, h1, hr⟩ := h
          obtain ⟨l0, l1⟩ := ih hr
          rw [CIndex_linearise_cons, CIndex_shapeProd_cons]
          have hP : 0 ≤ shapeProd sh := by omega
          have a1 : 0 ≤ i * shapeProd sh := Int.mul_nonneg h0 hP
          have a2 : (i + 1) * shapeProd sh ≤ d * shapeProd sh :=
            Int.mul_le_mul_of_nonneg_right (by omega) hP
          rw [Int.add_mul, Int.one_mul] at a2
          omega

theorem CIndex_linearise_injective {sh is js : List Int} (hi : InBounds sh is)
    (hj : InBounds sh js) (h : linearise sh is = linearise sh js) : is = js := by
  induction sh generalizing is js with
  | nil =>
      cases is with
      | nil => cases js with
        | nil => rfl
        | cons j js => exact hj.elim
      | cons i is => exact hi.elim
  | cons d sh ih =>
      cases is with
      | nil => exact hi.elim
      | cons i is =>
        cases js with
        | nil => exact hj.elim
        | cons j js =>
          obtain ⟨_, _, hi'⟩ := hi
          obtain ⟨_, _, hj'⟩ := hj
          obtain ⟨a0, a1⟩ := CIndex_linearise_range hi'
          obtain ⟨b0, b1⟩ := CIndex_linearise_range hj'
          rw [CIndex_linearise_cons, CIndex_linearise_cons] at h
          have hP : 0 < shapeProd sh := by omega
          have e1 : (i * shapeProd sh + linearise sh is) / shapeProd sh = i :=
            CIndex_ediv_of_decomp hP (by rw [Int.mul_comm]; omega) a0 a1
          have e2 : (i * shapeProd sh + linearise sh is) / shapeProd sh = j := by
            rw [h]; exact CIndex_ediv_of_decomp hP (by rw [Int.mul_comm]; omega) b0 b1
          have hij : i = j := e1.symm.trans e2
          subst hij
          have := ih hi' hj' (by omega)
          rw [this]

theorem CIndex_linearise_surjective (sh : List Int) (hpos : ∀ d ∈ sh, 0 < d) (k : Int)
    (h0 : 0 ≤ k) (h1 : k < shapeProd sh) : ∃ is, InBounds sh is ∧ linearise sh is = k := by
  induction sh generalizing k with
  | nil =>
      refine ⟨[], trivial, ?_⟩
      rw [CIndex_shapeProd_nil] at h1; rw [CIndex_linearise_nil]; omega
  | cons d sh ih =>
      have hd : 0 < d := hpos d (by simp)
      have hsh : ∀ e ∈ sh, 0 < e := fun e he => hpos e (by simp [he])
      have hP : 0 < shapeProd sh := by
        clear ih h1
        induction sh with
        | nil => simp [CIndex_shapeProd_nil]
        | cons e r ihr =>
            rw [CIndex_shapeProd_cons]
            exact Int.mul_pos (hsh e (by simp))
              (ihr (fun x hx => by
                  rcases List.mem_cons.1 hx with hx | hx
                  · exact hpos x (by simp [hx])
                  · exact hpos x (by simp [hx]))
                (fun x hx => hsh x (by simp [hx])))
      rw [CIndex_shapeProd_cons] at h1
      obtain ⟨is, hb, hl⟩ := ih hsh (k % shapeProd sh) (Int.emod_nonneg _ (Int.ne_of_gt hP))
        (Int.emod_lt_of_pos _ hP)
      refine ⟨(k / shapeProd sh) :: is, ⟨Int.ediv_nonneg h0 (Int.le_of_lt hP),
        Int.ediv_lt_of_lt_mul hP h1, hb⟩, ?_⟩
      rw [CIndex_linearise_cons, hl, Int.mul_comm]
      exact Int.mul_ediv_add_emod k (shapeProd sh)

/-! ## symbolic strides and offsets evaluate to the numeric ones -/

theorem CIndex_prodR_map {α β : Type} (f : α → β) (mul : α → α → α) (mul' : β → β → β)
    (hm : ∀ a b, f (mul a b) = mul' (f a) (f b)) (d : α) (r : List α) :
    f (prodR mul d r) = prodR mul' (f d) (r.map f) := by
  induction r generalizing d with
  | nil => rfl
  | cons e r ih => simp only [prodR, List.map_cons, hm, ih]

theorem CIndex_tensorStridesG_map {α β : Type} (f : α → β) (one : α) (mul : α → α → α)
    (mul' : β → β → β) (hm : ∀ a b, f (mul a b) = mul' (f a) (f b)) (sh : List α) :
    (tensorStridesG one mul sh).map f = tensorStridesG (f one) mul' (sh.map f) := by
  induction sh with
  | nil => rfl
  | cons d r ih =>
      cases r with
      | nil => rfl
      | cons e r =>
          simp only [tensorStridesG, List.map_cons] at ih ⊢
          rw [ih, CIndex_prodR_map f mul mul' hm]

theorem CIndex_tensorStridesC_eval (ρ : Val) (σ : Sym → Nat → Int) (sh : List CIR) :
    (tensorStridesC sh).map (·.eval ρ σ) = tensorStrides (sh.map (·.eval ρ σ)) :=
  CIndex_tensorStridesG_map (·.eval ρ σ) (.const 1) cirMul (· * ·) (fun _ _ => rfl) sh

theorem CIndex_offsetFold_eval (ρ : Val) (σ : Sym → Nat → Int) (acc : CIR) (is ss : List CIR) :
    (offsetFold cirAdd cirMul acc is ss).eval ρ σ =
      acc.eval ρ σ + linOffset (is.map (·.eval ρ σ)) (ss.map (·.eval ρ σ)) := by
  induction is generalizing acc ss with
  | nil => simp [offsetFold, linOffset]
  | cons i is ih =>
      cases ss with
      | nil => simp [offsetFold, linOffset]
      | cons s ss =>
          simp only [offsetFold, List.map_cons, linOffset]
          rw [ih]
          simp only [cirAdd, cirMul, CIR.eval, Exo.Range.evalOp]
          omega

theorem CIndex_getIdxOffset_eval (ρ : Val) (σ : Sym → Nat → Int) {x : Sym} {ty : BufTy}
    {idx : List CIR} {c : CIR} (h : getIdxOffset x ty idx = some c) :
    c.eval ρ σ = linOffset (idx.map (·.eval ρ σ)) ((getStrides x ty).map (·.eval ρ σ)) := by
  unfold getIdxOffset idxOffsetG at h
  split at h
  · rename_i i is s ss hs
    split at h
    · simp only [Option.some.injEq] at h; subst h
      rw [hs, CIndex_offsetFold_eval]
      simp only [List.map_cons, linOffset, cirMul, CIR.eval, Exo.Range.evalOp]
    · cases h
  · cases h

/-- `get_idx_offset` succeeds exactly when there is at least one index and as many indices as
    strides -/
theorem CIndex_getIdxOffset_isSome (x : Sym) (ty : BufTy) (idx : List CIR) :
    (getIdxOffset x ty idx).isSome = true ↔
      (idx ≠ [] ∧ idx.length = (getStrides x ty).length) := by
  unfold getIdxOffset idxOffsetG
  cases idx with
  | nil => simp
  | cons i is =>
      cases hs : getStrides x ty with
      | nil => simp
      | cons s ss => by_cases hl : is.length = ss.length <;> simp [hl]

/-! ## windows against the reference semantics -/

end Exo.CIndex

/-- what the emitted C keeps of a `View`: the position of `data` and the strides (extents are not
    represented at run time) -/
def Exo.View.repr (v : Exo.View) : Exo.CIndex.CWin := ⟨v.off, v.dims.map (·.2)⟩

namespace Exo.CIndex
open Exo.Range (IExpr Op Val)

variable {V : Type}

/-- the window accesses as the emitted struct initialiser evaluates them: the point / the lower
    end of each access (`hi` does not occur in the struct) -/
def evalAcc (σ : State V) : List WAcc → Except Err (List WA)
  | [] => pure []
  | .point e :: r =>
      match evalC σ e, evalAcc σ r with
      | .ok i, .ok ws => pure (.pt i :: ws)
      | .error x, _ => .error x
      | _, .error x => .error x
  | .interval lo _ :: r =>
      match evalC σ lo, evalAcc σ r with
      | .ok l, .ok ws => pure (.iv l :: ws)
      | .error x, _ => .error x
      | _, .error x => .error x

theorem CIndex_viewOffset_eq_cAccess {ds : List (Int × Int)} {is : List Int} {off r : Int}
    (h : viewOffset ds is off = .ok r) : cAccess ⟨off, ds.map (·.2)⟩ is = r := by
  induction ds generalizing is off with
  | nil =>
      cases is with
      | nil => simp only [viewOffset, pure, Except.pure, Except.ok.injEq] at h
               simp [cAccess, linOffset, h]
      | cons i is => simp [viewOffset, throw, throwThe, MonadExceptOf.throw] at h
  | cons d ds ih =>
      obtain ⟨ext, st⟩ := d
      cases is with
      | nil => simp [viewOffset, throw, throwThe, MonadExceptOf.throw] at h
      | cons i is =>
          simp only [viewOffset] at h
          split at h
          · have := ih h
            simp only [cAccess, List.map_cons, linOffset] at this ⊢
            omega
          · simp [throw, throwThe, MonadExceptOf.throw] at h

/-- an in-bounds access succeeds, so `viewOffset` is *exactly* the C address computation guarded
    by the bounds check -/
theorem CIndex_viewOffset_ok_iff (ds : List (Int × Int)) (is : List Int) (off : Int) :
    (∃ r, viewOffset ds is off = .ok r) ↔ InBounds (ds.map (·.1)) is := by
  induction ds generalizing is off with
  | nil =>
      cases is with
      | nil => simp [viewOffset, InBounds, pure, Except.pure]
      | cons i is => simp [viewOffset, InBounds, throw, throwThe, MonadExceptOf.throw]
  | cons d ds ih =>
      obtain ⟨ext, st⟩ := d
      cases is with
      | nil => simp [viewOffset, InBounds, throw, throwThe, MonadExceptOf.throw]
      | cons i is =>
          simp only [viewOffset, List.map_cons, InBounds]
          by_cases hb : 0 ≤ i ∧ i < ext
          · simp only [hb, if_true, ih, true_and, and_self]
          · simp only [hb, if_false]
            constructor
            · rintro ⟨r, hr⟩; simp [throw, throwThe, MonadExceptOf.throw] at hr
            · rintro ⟨h0, h1, _⟩; exact absurd ⟨h0, h1⟩ hb

theorem CIndex_cellOf_eq_cAccess {heap : List (List (Option V))} {v : View} {is : List Int}
    {b k : Nat} (h : cellOf heap v is = .ok (b, k)) :
    b = v.buf ∧ cAccess v.repr is = (k : Int) := by
  unfold cellOf at h
  simp only [bind, Except.bind] at h
  split at h
  · cases h
  · rename_i o ho
    have hacc := CIndex_viewOffset_eq_cAccess ho
    split at h
    · simp [throw, throwThe, MonadExceptOf.throw] at h
    · split at h
      · rename_i hr
        simp only [pure, Except.pure, Except.ok.injEq, Prod.mk.injEq] at h
        obtain ⟨hb, hk⟩ := h
        refine ⟨hb.symm, ?_⟩
        rw [← hk, Int.toNat_of_nonneg hr.1]
        exact hacc
      · simp [throw, throwThe, MonadExceptOf.throw] at h

theorem CIndex_cWindow_pt (off st : Int) (ss : List Int) (i : Int) (ws : List WA) :
    cWindow ⟨off, st :: ss⟩ (.pt i :: ws) = cWindow ⟨off + i * st, ss⟩ ws := by
  simp [cWindow, linOffset, WA.lo, WA.isIv, Int.add_assoc]

theorem CIndex_cWindow_iv (off st : Int) (ss : List Int) (l : Int) (ws : List WA) :
    cWindow ⟨off, st :: ss⟩ (.iv l :: ws) =
      ⟨(cWindow ⟨off + l * st, ss⟩ ws).off, st :: (cWindow ⟨off + l * st, ss⟩ ws).strides⟩ := by
  simp [cWindow, linOffset, WA.lo, WA.isIv, Int.add_assoc]

theorem CIndex_applyAcc_eq_cWindow {σ : State V} {acc : List WAcc} {ds ds' : List (Int × Int)}
    {off o : Int} (h : applyAcc σ acc ds off = .ok (o, ds')) :
    ∃ was, evalAcc σ acc = .ok was ∧
      cWindow ⟨off, ds.map (·.2)⟩ was = ⟨o, ds'.map (·.2)⟩ := by
  induction acc generalizing ds ds' off o with
  | nil =>
      cases ds with
      | nil =>
          simp only [applyAcc, pure, Except.pure, Except.ok.injEq, Prod.mk.injEq] at h
          obtain ⟨h1, h2⟩ := h
          exact ⟨[], rfl, by simp [cWindow, linOffset, h1, ← h2]⟩
      | cons d ds => simp [applyAcc, throw, throwThe, MonadExceptOf.throw] at h
  | cons a as ih =>
      cases ds with
      | nil => cases a <;> simp [applyAcc, throw, throwThe, MonadExceptOf.throw] at h
      | cons d ds =>
          obtain ⟨ext, st⟩ := d
          cases a with
          | point e =>
              simp only [applyAcc, bind, Except.bind] at h
              split at h
              · cases h
              · rename_i i hi
                split at h
                · obtain ⟨was, hw, hc⟩ := ih h
                  refine ⟨.pt i :: was, ?_, ?_⟩
                  · simp only [evalAcc, hi, hw]; rfl
                  · rw [List.map_cons, CIndex_cWindow_pt]; exact hc
                · simp [throw, throwThe, MonadExceptOf.throw] at h
          | interval lo hi =>
              simp only [applyAcc, bind, Except.bind] at h
              split at h
              · cases h
              · rename_i l hl
                split at h
                · cases h
                · rename_i hv hh
                  split at h
                  · split at h
                    · cases h
                    · rename_i p hp
                      obtain ⟨o', r⟩ := p
                      simp only [pure, Except.pure, Except.ok.injEq, Prod.mk.injEq] at h
                      obtain ⟨h1, h2⟩ := h
                      obtain ⟨was, hw, hc⟩ := ih hp
                      refine ⟨.iv l :: was, ?_, ?_⟩
                      · simp only [evalAcc, hl, hw]; rfl
                      · rw [List.map_cons, CIndex_cWindow_iv, hc, ← h1, ← h2]; rfl
                  · simp [throw, throwThe, MonadExceptOf.throw] at h

theorem CIndex_evalView_win_eq_cWindow {σ : State V} {x : Sym} {acc : List WAcc} {v v' : View}
    (hx : lookupSym x σ.views = some v) (h : evalView σ (.win x acc) = .ok v') :
    ∃ was, evalAcc σ acc = .ok was ∧ v'.buf = v.buf ∧ cWindow v.repr was = v'.repr := by
  simp only [evalView, hx, bind, Except.bind] at h
  split at h
  · cases h
  · rename_i p hp
    obtain ⟨o, ds⟩ := p
    simp only [pure, Except.pure, Except.ok.injEq] at h
    obtain ⟨was, hw, hc⟩ := CIndex_applyAcc_eq_cWindow hp
    subst h
    exact ⟨was, hw, rfl, hc⟩

/-- the point access `x[i, j, …]` passed as a (scalar) argument: a view without dimensions whose
    `off` is the emitted `&x.data[Σ i·stride]` -/
theorem CIndex_evalView_read_eq_cAccess {σ : State V} {x : Sym} {i : Expr} {idx : List Expr}
    {v v' : View} (hx : lookupSym x σ.views = some v)
    (h : evalView σ (.read x (i :: idx)) = .ok v') :
    ∃ is, evalCs σ (i :: idx) = .ok is ∧ v'.buf = v.buf ∧ v'.repr = ⟨cAccess v.repr is, []⟩ := by
  simp only [evalView, hx, bind, Except.bind] at h
  split at h
  · cases h
  · rename_i is his
    split at h
    · cases h
    · rename_i o ho
      simp only [pure, Except.pure, Except.ok.injEq] at h
      subst h
      refine ⟨is, his, rfl, ?_⟩
      simp only [View.repr, List.map_nil]
      rw [← CIndex_viewOffset_eq_cAccess ho]

/-- a chain of window steps on the reference side … -/
def applyChain (σ : State V) : List (List WAcc) → Int × List (Int × Int) →
    Except Err (Int × List (Int × Int))
  | [], p => pure p
  | a :: r, p => match applyAcc σ a p.2 p.1 with
      | .ok q => applyChain σ r q
      | .error e => .error e

/-- … and the evaluated accesses of every step -/
def evalChain (σ : State V) : List (List WAcc) → Except Err (List (List WA))
  | [] => pure []
  | a :: r => match evalAcc σ a, evalChain σ r with
      | .ok w, .ok ws => pure (w :: ws)
      | .error e, _ => .error e
      | _, .error e => .error e

theorem CIndex_applyChain_eq_foldl {σ : State V} {accs : List (List WAcc)}
    {ds ds' : List (Int × Int)} {off o : Int}
    (h : applyChain σ accs (off, ds) = .ok (o, ds')) :
    ∃ wss, evalChain σ accs = .ok wss ∧
      wss.foldl cWindow ⟨off, ds.map (·.2)⟩ = ⟨o, ds'.map (·.2)⟩ := by
  induction accs generalizing ds off with
  | nil =>
      simp only [applyChain, pure, Except.pure, Except.ok.injEq, Prod.mk.injEq] at h
      obtain ⟨h1, h2⟩ := h
      exact ⟨[], rfl, by simp [h1, h2]⟩
  | cons a r ih =>
      simp only [applyChain] at h
      split at h
      · rename_i q hq
        obtain ⟨o1, d1⟩ := q
        obtain ⟨w, hw, hc⟩ := CIndex_applyAcc_eq_cWindow hq
        obtain ⟨ws, hws, hcs⟩ := ih h
        refine ⟨w :: ws, ?_, ?_⟩
        · simp only [evalChain, hw, hws]; rfl
        · rw [List.foldl_cons, hc]; exact hcs
      · cases h

end Exo.CIndex
