/-
  Soundness of the expression-level machinery of ExoModel.Inline:
  `eqE` decides equality, `lin`/`lfEq`/`eqC` preserve the value of control expressions
  (`ExEq`: same success, same value), a symbol that does not occur does not matter.
-/
import ExoModel.Inline
import ExoModel.Equiv

set_option linter.unusedSectionVars false
set_option linter.unusedVariables false
namespace Exo.Inline
open Exo

/-! ### `eqE` -/

mutual
theorem eqE_eq : ∀ (a b : Expr), eqE a b = true → a = b
  | .read x i, b, h => by
    cases b <;> simp [eqE] at h
    obtain ⟨h1, h2⟩ := h; subst h1; rw [eqEs_eq _ _ h2]
  | .lit a, b, h => by
    cases b <;> simp [eqE] at h
    rw [h]
  | .usub a, b, h => by
    cases b <;> simp [eqE] at h
    rw [eqE_eq _ _ h]
  | .binop o a1 a2, b, h => by
    cases b <;> simp [eqE] at h
    obtain ⟨⟨h1, h2⟩, h3⟩ := h
    subst h1; rw [eqE_eq _ _ h2, eqE_eq _ _ h3]
  | .extern f a, b, h => by
    cases b <;> simp [eqE] at h
    obtain ⟨h1, h2⟩ := h; subst h1; rw [eqEs_eq _ _ h2]
  | .win x a, b, h => by
    cases b <;> simp [eqE] at h
    obtain ⟨h1, h2⟩ := h; subst h1; rw [eqWs_eq _ _ h2]
  | .stride x d, b, h => by
    cases b <;> simp [eqE] at h
    obtain ⟨h1, h2⟩ := h; subst h1; subst h2; rfl
  | .readcfg c f, b, h => by
    cases b <;> simp [eqE] at h
    obtain ⟨h1, h2⟩ := h; subst h1; subst h2; rfl
theorem eqEs_eq : ∀ (a b : List Expr), eqEs a b = true → a = b
  | [], b, h => by cases b <;> simp [eqEs] at h; rfl
  | a :: r, b, h => by
    cases b <;> simp [eqEs] at h
    rw [eqE_eq _ _ h.1, eqEs_eq _ _ h.2]
theorem eqW_eq : ∀ (a b : WAcc), eqW a b = true → a = b
  | .interval a1 a2, b, h => by
    cases b <;> simp [eqW] at h
    rw [eqE_eq _ _ h.1, eqE_eq _ _ h.2]
  | .point a, b, h => by
    cases b <;> simp [eqW] at h
    rw [eqE_eq _ _ h]
theorem eqWs_eq : ∀ (a b : List WAcc), eqWs a b = true → a = b
  | [], b, h => by cases b <;> simp [eqWs] at h; rfl
  | a :: r, b, h => by
    cases b <;> simp [eqWs] at h
    rw [eqW_eq _ _ h.1, eqWs_eq _ _ h.2]
end

mutual
theorem eqE_refl : ∀ (a : Expr), eqE a a = true
  | .read x i => by simp [eqE, eqEs_refl i]
  | .lit a => by simp [eqE]
  | .usub a => by simp [eqE, eqE_refl a]
  | .binop o a b => by simp [eqE, eqE_refl a, eqE_refl b]
  | .extern f a => by simp [eqE, eqEs_refl a]
  | .win x a => by simp [eqE, eqWs_refl a]
  | .stride x d => by simp [eqE]
  | .readcfg c f => by simp [eqE]
theorem eqEs_refl : ∀ (a : List Expr), eqEs a a = true
  | [] => by simp [eqEs]
  | a :: r => by simp [eqEs, eqE_refl a, eqEs_refl r]
theorem eqW_refl : ∀ (a : WAcc), eqW a a = true
  | .interval a b => by simp [eqW, eqE_refl a, eqE_refl b]
  | .point a => by simp [eqW, eqE_refl a]
theorem eqWs_refl : ∀ (a : List WAcc), eqWs a a = true
  | [] => by simp [eqWs]
  | a :: r => by simp [eqWs, eqW_refl a, eqWs_refl r]
end

theorem eqArgTy_eq : ∀ (a b : ArgTy), eqArgTy a b = true → a = b
  | .ctrl k, b, h => by cases b <;> simp [eqArgTy] at h; rw [h]
  | .scalar, b, h => by cases b <;> simp [eqArgTy] at h; rfl
  | .tensor s w, b, h => by
    cases b <;> simp [eqArgTy] at h
    rw [eqEs_eq _ _ h.1, h.2]

theorem eqFnArgs_eq : ∀ (a b : List FnArg), eqFnArgs a b = true → a = b
  | [], b, h => by cases b <;> simp [eqFnArgs] at h; rfl
  | ⟨x, t⟩ :: r, b, h => by
    cases b with
    | nil => simp [eqFnArgs] at h
    | cons c s =>
      obtain ⟨y, u⟩ := c
      simp only [eqFnArgs, Bool.and_eq_true, beq_iff_eq] at h
      rw [h.1.1, eqArgTy_eq _ _ h.1.2, eqFnArgs_eq _ _ h.2]

mutual
theorem eqS_eq : ∀ (a b : Stmt), eqS a b = true → a = b
  | .assign x i r, b, h => by
    cases b <;> simp [eqS] at h
    rw [h.1.1, eqEs_eq _ _ h.1.2, eqE_eq _ _ h.2]
  | .reduce x i r, b, h => by
    cases b <;> simp [eqS] at h
    rw [h.1.1, eqEs_eq _ _ h.1.2, eqE_eq _ _ h.2]
  | .writecfg c f r d, b, h => by
    cases b <;> simp [eqS] at h
    rw [h.1.1.1, h.1.1.2, eqE_eq _ _ h.1.2, h.2]
  | .pass, b, h => by cases b <;> simp [eqS] at h; rfl
  | .ite c t e, b, h => by
    cases b <;> simp [eqS] at h
    rw [eqE_eq _ _ h.1.1, eqSs_eq _ _ h.1.2, eqSs_eq _ _ h.2]
  | .loop i lo hi bd p, b, h => by
    cases b <;> simp [eqS] at h
    rw [h.1.1.1.1, eqE_eq _ _ h.1.1.1.2, eqE_eq _ _ h.1.1.2, eqSs_eq _ _ h.1.2, h.2]
  | .alloc x sh, b, h => by
    cases b <;> simp [eqS] at h
    rw [h.1, eqEs_eq _ _ h.2]
  | .free x, b, h => by
    cases b <;> simp [eqS] at h
    rw [h]
  | .call f a, b, h => by
    cases b <;> simp [eqS] at h
    rw [eqP_eq _ _ h.1, eqEs_eq _ _ h.2]
  | .window x r, b, h => by
    cases b <;> simp [eqS] at h
    rw [h.1, eqE_eq _ _ h.2]
theorem eqSs_eq : ∀ (a b : List Stmt), eqSs a b = true → a = b
  | [], b, h => by cases b <;> simp [eqSs] at h; rfl
  | a :: r, b, h => by
    cases b <;> simp [eqSs] at h
    rw [eqS_eq _ _ h.1, eqSs_eq _ _ h.2]
theorem eqP_eq : ∀ (a b : Proc), eqP a b = true → a = b
  | .mk n a p bd, .mk n' a' p' bd', h => by
    simp only [eqP, Bool.and_eq_true, beq_iff_eq] at h
    rw [h.1.1.1, eqFnArgs_eq _ _ h.1.1.2, eqEs_eq _ _ h.1.2, eqSs_eq _ _ h.2]
end

theorem eqArgTy_refl : ∀ (a : ArgTy), eqArgTy a a = true
  | .ctrl k => by simp [eqArgTy]
  | .scalar => by simp [eqArgTy]
  | .tensor s w => by simp [eqArgTy, eqEs_refl]

theorem eqFnArgs_refl : ∀ (a : List FnArg), eqFnArgs a a = true
  | [] => rfl
  | ⟨x, t⟩ :: r => by simp [eqFnArgs, eqArgTy_refl, eqFnArgs_refl r]

mutual
theorem eqS_refl : ∀ (a : Stmt), eqS a a = true
  | .assign x i r => by simp [eqS, eqEs_refl, eqE_refl]
  | .reduce x i r => by simp [eqS, eqEs_refl, eqE_refl]
  | .writecfg c f r d => by simp [eqS, eqE_refl]
  | .pass => by simp [eqS]
  | .ite c t e => by simp [eqS, eqE_refl, eqSs_refl t, eqSs_refl e]
  | .loop i lo hi b p => by simp [eqS, eqE_refl, eqSs_refl b]
  | .alloc x sh => by simp [eqS, eqEs_refl]
  | .free x => by simp [eqS]
  | .call f a => by simp [eqS, eqP_refl f, eqEs_refl]
  | .window x r => by simp [eqS, eqE_refl]
theorem eqSs_refl : ∀ (a : List Stmt), eqSs a a = true
  | [] => rfl
  | a :: r => by simp [eqSs, eqS_refl a, eqSs_refl r]
theorem eqP_refl : ∀ (a : Proc), eqP a a = true
  | .mk n a p b => by simp [eqP, eqFnArgs_refl, eqEs_refl, eqSs_refl b]
end

/-! ### `ExEq` toolkit -/

theorem exEq_ok_left {α} {r r' : Except Err α} {a : α} (h : ExEq r r') (hr : r = .ok a) :
    r' = .ok a := (ExEq.ok_iff h a).1 hr

theorem exEq_ok_right {α} {r r' : Except Err α} {a : α} (h : ExEq r r') (hr : r' = .ok a) :
    r = .ok a := (ExEq.ok_iff h a).2 hr

/-- two independent computations may be run in either order -/
theorem exEq_bind_comm {α β γ} (A : Except Err α) (B : Except Err β) (f : α → β → Except Err γ) :
    ExEq (A >>= fun x => B >>= fun y => f x y) (B >>= fun y => A >>= fun x => f x y) := by
  cases A <;> cases B <;> simp [bind, Except.bind, ExEq, Except.toOption]

theorem exEq_error {α} (e e' : Err) : ExEq (Except.error e : Except Err α) (Except.error e') := rfl

/-! ### evaluation of linear forms -/

variable {V : Type}

def evalTerms (σ : State V) : List (Int × Expr) → Except Err Int
  | [] => pure 0
  | (c, t) :: r => do
      let v ← evalC σ t
      let s ← evalTerms σ r
      pure (c * v + s)

def evalLF (σ : State V) (l : LF) : Except Err Int := do
  let s ← evalTerms σ l.terms
  pure (l.const + s)

theorem evalTerms_append (σ : State V) (a b : List (Int × Expr)) :
    evalTerms σ (a ++ b) = (do let x ← evalTerms σ a; let y ← evalTerms σ b; pure (x + y)) := by
  induction a with
  | nil =>
    simp only [List.nil_append, evalTerms, pure, Except.pure, bind, Except.bind]
    cases evalTerms σ b <;> simp
  | cons p r ih =>
    obtain ⟨c, t⟩ := p
    simp only [List.cons_append, evalTerms, ih, bind, Except.bind, pure, Except.pure]
    cases evalC σ t with
    | error e => rfl
    | ok v =>
      cases evalTerms σ r with
      | error e => rfl
      | ok s =>
        cases evalTerms σ b with
        | error e => rfl
        | ok y => simp only []; congr 1; omega

theorem evalTerms_scale (σ : State V) (k : Int) (a : List (Int × Expr)) :
    evalTerms σ (scaleTerms k a) = (do let x ← evalTerms σ a; pure (k * x)) := by
  induction a with
  | nil => simp [scaleTerms, evalTerms, pure, Except.pure, bind, Except.bind]
  | cons p r ih =>
    obtain ⟨c, t⟩ := p
    simp only [scaleTerms, evalTerms, ih, bind, Except.bind, pure, Except.pure]
    cases evalC σ t with
    | error e => rfl
    | ok v =>
      cases evalTerms σ r with
      | error e => rfl
      | ok s => simp only []; congr 1; rw [Int.mul_add, Int.mul_assoc]

theorem evalLF_add (σ : State V) (a b : LF) :
    evalLF σ (a.add b) = (do let x ← evalLF σ a; let y ← evalLF σ b; pure (x + y)) := by
  simp only [evalLF, LF.add, evalTerms_append, bind, Except.bind, pure, Except.pure]
  cases evalTerms σ a.terms with
  | error e => rfl
  | ok x =>
    cases evalTerms σ b.terms with
    | error e => rfl
    | ok y => simp only []; congr 1; omega

theorem evalLF_scale (σ : State V) (k : Int) (a : LF) :
    evalLF σ (a.scale k) = (do let x ← evalLF σ a; pure (k * x)) := by
  simp only [evalLF, LF.scale, evalTerms_scale, bind, Except.bind, pure, Except.pure]
  cases evalTerms σ a.terms with
  | error e => rfl
  | ok x => simp only []; congr 1; rw [Int.mul_add]

theorem evalLF_const (σ : State V) (a : LF) (h : a.terms = []) : evalLF σ a = .ok a.const := by
  simp [evalLF, h, evalTerms, pure, Except.pure, bind, Except.bind]

theorem evalLF_atom (σ : State V) (e : Expr) :
    ExEq (evalLF σ ⟨0, [(1, e)]⟩) (evalC σ e) := by
  simp only [evalLF, evalTerms, bind, Except.bind, pure, Except.pure]
  cases evalC σ e with
  | error e => rfl
  | ok v => simp [ExEq]

theorem lin_sound (σ : State V) : ∀ (e : Expr), ExEq (evalLF σ (lin e)) (evalC σ e)
  | .lit (.int n) => by
    simp [lin, evalLF, evalTerms, evalC, pure, Except.pure, bind, Except.bind, ExEq]
  | .lit (.bool b) => by simpa [lin] using evalLF_atom σ _
  | .lit (.data n d) => by simpa [lin] using evalLF_atom σ _
  | .usub e => by
    have ih := lin_sound σ e
    simp only [lin, evalLF_scale, evalC]
    refine ExEq.bind_congr ih (fun a => ?_)
    simp only [pure, Except.pure, ExEq]; congr 2; omega
  | .binop .add a b => by
    have iha := lin_sound σ a
    have ihb := lin_sound σ b
    simp only [lin, evalLF_add, evalC, ctrlOp]
    exact ExEq.bind_congr iha (fun x => ExEq.bind_congr ihb (fun y => ExEq.refl _))
  | .binop .sub a b => by
    have iha := lin_sound σ a
    have ihb := lin_sound σ b
    simp only [lin, evalLF_add, evalLF_scale, evalC, ctrlOp]
    refine ExEq.bind_congr iha (fun x => ?_)
    rw [bind_assoc]
    refine ExEq.bind_congr ihb (fun y => ?_)
    simp only [pure, Except.pure, bind, Except.bind, ExEq]; congr 2; omega
  | .binop .mul a b => by
    have iha := lin_sound σ a
    have ihb := lin_sound σ b
    simp only [lin]
    split
    · rename_i h1
      rw [evalLF_const σ (lin a) h1] at iha
      have ha := exEq_ok_left iha rfl
      simp only [evalLF_scale, evalC, ha, ctrlOp, bind, Except.bind]
      exact ExEq.bind_congr ihb (fun y => ExEq.refl _)
    · rename_i h2 h1
      rw [evalLF_const σ (lin b) h2] at ihb
      have hb := exEq_ok_left ihb rfl
      simp only [evalLF_scale, evalC, hb, ctrlOp]
      refine ExEq.bind_congr iha (fun x => ?_)
      simp only [pure, Except.pure, bind, Except.bind, ExEq]; congr 2; exact Int.mul_comm _ _
    · exact evalLF_atom σ _
  | .binop .div a b => by simpa [lin] using evalLF_atom σ _
  | .binop .mod a b => by simpa [lin] using evalLF_atom σ _
  | .binop .lt a b => by simpa [lin] using evalLF_atom σ _
  | .binop .gt a b => by simpa [lin] using evalLF_atom σ _
  | .binop .le a b => by simpa [lin] using evalLF_atom σ _
  | .binop .ge a b => by simpa [lin] using evalLF_atom σ _
  | .binop .eq a b => by simpa [lin] using evalLF_atom σ _
  | .binop .and a b => by simpa [lin] using evalLF_atom σ _
  | .binop .or a b => by simpa [lin] using evalLF_atom σ _
  | .read x i => by simpa [lin] using evalLF_atom σ _
  | .extern f a => by simpa [lin] using evalLF_atom σ _
  | .win x a => by simpa [lin] using evalLF_atom σ _
  | .stride x d => by simpa [lin] using evalLF_atom σ _
  | .readcfg c f => by simpa [lin] using evalLF_atom σ _

/-! ### merging and permuting terms -/

theorem insertTerm_sound (σ : State V) (c : Int) (t : Expr) :
    ∀ (l : List (Int × Expr)), ExEq (evalTerms σ (insertTerm c t l)) (evalTerms σ ((c, t) :: l))
  | [] => ExEq.refl _
  | (c', t') :: r => by
    simp only [insertTerm]
    split
    · rename_i h
      have := eqE_eq _ _ h; subst this
      simp only [evalTerms, bind, Except.bind, pure, Except.pure]
      cases evalC σ t with
      | error e => rfl
      | ok v =>
        cases evalTerms σ r with
        | error e => rfl
        | ok s => simp only [ExEq, Except.toOption]; congr 1; rw [Int.add_mul]; omega
    · have ih := insertTerm_sound σ c t r
      have e1 : evalTerms σ ((c', t') :: insertTerm c t r)
          = (evalC σ t' >>= fun v' => evalTerms σ (insertTerm c t r) >>= fun s => pure (c' * v' + s)) := rfl
      have e2 : evalTerms σ ((c, t) :: (c', t') :: r)
          = (evalC σ t >>= fun v => evalC σ t' >>= fun v' => evalTerms σ r >>= fun s =>
              pure (c * v + (c' * v' + s))) := by
        simp only [evalTerms, bind, Except.bind, pure, Except.pure]
        cases evalC σ t with
        | error e => rfl
        | ok v =>
          cases evalC σ t' with
          | error e => rfl
          | ok v' => cases evalTerms σ r <;> rfl
      rw [e1, e2]
      refine ExEq.trans ?_ (exEq_bind_comm (evalC σ t') (evalC σ t) _)
      refine ExEq.bind_congr (ExEq.refl _) (fun v' => ?_)
      have e3 : (evalC σ t >>= fun v => evalTerms σ r >>= fun s => (pure (c * v + (c' * v' + s)) : Except Err Int))
          = (evalTerms σ ((c, t) :: r) >>= fun s => pure (c' * v' + s)) := by
        simp only [evalTerms, bind, Except.bind, pure, Except.pure]
        cases evalC σ t with
        | error e => rfl
        | ok v =>
          cases evalTerms σ r with
          | error e => rfl
          | ok s => simp only []; congr 1; omega
      rw [e3]
      exact ExEq.bind_congr ih (fun _ => ExEq.refl _)

theorem mergeTerms_sound (σ : State V) :
    ∀ (l : List (Int × Expr)), ExEq (evalTerms σ (mergeTerms l)) (evalTerms σ l)
  | [] => ExEq.refl _
  | (c, t) :: r => by
    simp only [mergeTerms]
    refine (insertTerm_sound σ c t _).trans ?_
    have ih := mergeTerms_sound σ r
    simp only [evalTerms]
    exact ExEq.bind_congr (ExEq.refl _) (fun v => ExEq.bind_congr ih (fun _ => ExEq.refl _))

theorem removeTerm_sound (σ : State V) (c : Int) (t : Expr) :
    ∀ (l l' : List (Int × Expr)), removeTerm c t l = some l' →
      ExEq (evalTerms σ l) (evalTerms σ ((c, t) :: l'))
  | [], _, h => by simp [removeTerm] at h
  | (c', t') :: r, l', h => by
    simp only [removeTerm] at h
    split at h
    · rename_i hc
      simp only [Bool.and_eq_true, beq_iff_eq] at hc
      have := eqE_eq _ _ hc.2
      cases h; subst this; rw [hc.1]; exact ExEq.refl _
    · split at h
      · rename_i r' hr
        cases h
        have ih := removeTerm_sound σ c t r r' hr
        have e1 : evalTerms σ ((c', t') :: r)
            = (evalC σ t' >>= fun v' => evalTerms σ r >>= fun s => pure (c' * v' + s)) := rfl
        have e2 : evalTerms σ ((c, t) :: (c', t') :: r')
            = (evalC σ t >>= fun v => evalC σ t' >>= fun v' => evalTerms σ r' >>= fun s =>
                pure (c * v + (c' * v' + s))) := by
          simp only [evalTerms, bind, Except.bind, pure, Except.pure]
          cases evalC σ t with
          | error e => rfl
          | ok v =>
            cases evalC σ t' with
            | error e => rfl
            | ok v' => cases evalTerms σ r' <;> rfl
        rw [e1, e2]
        refine ExEq.trans ?_ (exEq_bind_comm (evalC σ t') (evalC σ t) _)
        refine ExEq.bind_congr (ExEq.refl _) (fun v' => ?_)
        have e3 : (evalC σ t >>= fun v => evalTerms σ r' >>= fun s => (pure (c * v + (c' * v' + s)) : Except Err Int))
            = (evalTerms σ ((c, t) :: r') >>= fun s => pure (c' * v' + s)) := by
          simp only [evalTerms, bind, Except.bind, pure, Except.pure]
          cases evalC σ t with
          | error e => rfl
          | ok v =>
            cases evalTerms σ r' with
            | error e => rfl
            | ok s => simp only []; congr 1; omega
        rw [e3]
        exact ExEq.bind_congr ih (fun _ => ExEq.refl _)
      · cases h

theorem permTerms_sound (σ : State V) :
    ∀ (a b : List (Int × Expr)), permTerms a b = true → ExEq (evalTerms σ a) (evalTerms σ b)
  | [], [], _ => ExEq.refl _
  | [], _ :: _, h => by simp [permTerms] at h
  | (c, t) :: r, l, h => by
    simp only [permTerms] at h
    split at h
    · rename_i l' hl
      have ih := permTerms_sound σ r l' h
      refine ExEq.trans ?_ (removeTerm_sound σ c t l l' hl).symm
      simp only [evalTerms]
      exact ExEq.bind_congr (ExEq.refl _) (fun v => ExEq.bind_congr ih (fun _ => ExEq.refl _))
    · cases h

theorem lfEq_sound (σ : State V) (a b : LF) (h : lfEq a b = true) :
    ExEq (evalLF σ a) (evalLF σ b) := by
  simp only [lfEq, Bool.and_eq_true, beq_iff_eq] at h
  have h2 := ((mergeTerms_sound σ a.terms).symm.trans (permTerms_sound σ _ _ h.2)).trans
    (mergeTerms_sound σ b.terms)
  simp only [evalLF, h.1]
  exact ExEq.bind_congr h2 (fun _ => ExEq.refl _)

theorem lfEq_lin_sound (σ : State V) (a b : Expr) (h : lfEq (lin a) (lin b) = true) :
    ExEq (evalC σ a) (evalC σ b) :=
  ((lin_sound σ a).symm.trans (lfEq_sound σ _ _ h)).trans (lin_sound σ b)

/-! ### `eqC` -/

/-- an order comparison is the sign test of its `ineqDiff` -/
theorem ineqDiff_sound (σ : State V) (o : BinOp) (a b d : Expr) (h : ineqDiff o a b = some d) :
    ExEq (evalC σ (.binop o a b)) (evalC σ d >>= fun v => pure (b2i (0 < v))) := by
  cases o <;> simp [ineqDiff] at h <;> subst h <;>
    cases ha : evalC σ a <;> cases hb : evalC σ b <;>
    simp [evalC, ctrlOp, bind, Except.bind, pure, Except.pure, ha, hb, ExEq, Except.toOption, b2i]
  all_goals (split <;> split <;> first | rfl | omega)

theorem eqDiff_sound (σ : State V) (a b : Expr) :
    ExEq (evalC σ (.binop .eq a b)) (evalC σ (.binop .sub b a) >>= fun v => pure (b2i (0 = v))) := by
  cases ha : evalC σ a <;> cases hb : evalC σ b <;>
    simp [evalC, ctrlOp, bind, Except.bind, pure, Except.pure, ha, hb, ExEq, Except.toOption, b2i]
  all_goals (split <;> split <;> first | rfl | omega)

theorem eqC_sound (σ : State V) : ∀ (a b : Expr), eqC a b = true → ExEq (evalC σ a) (evalC σ b) := by
  intro a b
  fun_induction eqC a b with
  | case1 o a b o' a' b' d d' hd' hd =>
    intro h
    refine (ineqDiff_sound σ o a b d hd).trans (ExEq.trans ?_ (ineqDiff_sound σ o' a' b' d' hd').symm)
    exact ExEq.bind_congr (lfEq_lin_sound σ _ _ h) (fun _ => ExEq.refl _)
  | case2 o a b o' a' b' heq hno =>
    intro h
    simp only [Bool.and_eq_true, beq_iff_eq] at heq
    obtain ⟨h1, h2⟩ := heq
    subst h1; subst h2
    refine (eqDiff_sound σ a b).trans (ExEq.trans ?_ (eqDiff_sound σ a' b').symm)
    exact ExEq.bind_congr (lfEq_lin_sound σ _ _ h) (fun _ => ExEq.refl _)
  | case3 o a b o' a' b' hne hao hno ih1 ih2 =>
    intro h
    simp only [Bool.and_eq_true, beq_iff_eq] at hao h
    obtain ⟨_, h2⟩ := hao
    subst h2
    simp only [evalC]
    exact ExEq.bind_congr (ih1 h.1) (fun x => ExEq.bind_congr (ih2 h.2) (fun y => ExEq.refl _))
  | case4 o a b o' a' b' hno hne hao =>
    intro h
    exact lfEq_lin_sound σ _ _ h
  | case5 a b hnb =>
    intro h
    exact lfEq_lin_sound σ _ _ h

theorem eqCs_sound (σ : State V) : ∀ (a b : List Expr), eqCs a b = true →
    ExEq (evalCs σ a) (evalCs σ b)
  | [], [], _ => ExEq.refl _
  | [], _ :: _, h => by simp [eqCs] at h
  | _ :: _, [], h => by simp [eqCs] at h
  | a :: r, b :: s, h => by
    simp only [eqCs, Bool.and_eq_true] at h
    simp only [evalCs]
    exact ExEq.bind_congr (eqC_sound σ a b h.1)
      (fun _ => ExEq.bind_congr (eqCs_sound σ r s h.2) (fun _ => ExEq.refl _))

end Exo.Inline
