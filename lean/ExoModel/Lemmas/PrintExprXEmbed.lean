/-
  The expressions of `ExoModel.Print` inside the extended expressions: printing, well-formedness
  and normalisation commute with the embedding `ofPExpr`, so the extended round trip specialises to
  the statement of C17(b) on the embedded terms.
-/
import ExoModel.Lemmas.PrintExprX

namespace Exo.PrintStmt
open Exo Exo.Print

mutual
theorem ppX_ofPExpr : ∀ (p : Nat) (e : PExpr), ppX p (ofPExpr e) = (ppT p e).map STok.t
  | _, .var x [] => by simp [ofPExpr, ofPExprL, ppX, ppT]
  | _, .var x (i :: is) => by
    simp [ofPExpr, ofPExprL, ppX, ppT, ppX_ofPExpr 0 i, ppTailX_ofPExprL is]
  | _, .const false m => by simp [ofPExpr, ppX, ppT]
  | _, .const true m => by simp [ofPExpr, ppX, ppT]
  | _, .neg e => by simp [ofPExpr, ppX, ppT, ppX_ofPExpr precUSub e]
  | p, .bin o l r => by
    simp only [ofPExpr, ppX, ppT, ppX_ofPExpr (prec o) l, ppX_ofPExpr (prec o + 1) r]
    split <;> simp
theorem ppTailX_ofPExprL : ∀ es : List PExpr, ppTailX (ofPExprL es) = (ppTailT es).map STok.t
  | [] => by simp [ofPExprL, ppTailX, ppTailT]
  | e :: es => by simp [ofPExprL, ppTailX, ppTailT, ppX_ofPExpr 0 e, ppTailX_ofPExprL es]
end

theorem isCmpTopX_ofPExpr (e : PExpr) : isCmpTopX (ofPExpr e) = isCmpTop e := by
  cases e <;> simp [ofPExpr, isCmpTopX, isCmpTop]

mutual
theorem wfX_ofPExpr : ∀ e : PExpr, wfX (ofPExpr e) = wf e
  | .var x idx => by simp [ofPExpr, wfX, wf, wfXL_ofPExprL idx]
  | .const n m => by simp [ofPExpr, wfX, wf]
  | .neg e => by simp [ofPExpr, wfX, wf, wfX_ofPExpr e]
  | .bin o l r => by
    simp [ofPExpr, wfX, wf, wfX_ofPExpr l, wfX_ofPExpr r, isCmpTopX_ofPExpr]
theorem wfXL_ofPExprL : ∀ es : List PExpr, wfXL (ofPExprL es) = wfL es
  | [] => by simp [ofPExprL, wfXL, wfL]
  | e :: es => by simp [ofPExprL, wfXL, wfL, wfX_ofPExpr e, wfXL_ofPExprL es]
end

mutual
theorem normX_ofPExpr : ∀ e : PExpr, normX (ofPExpr e) = ofPExpr (norm e)
  | .var x idx => by simp [ofPExpr, normX, norm, normXL_ofPExprL idx]
  | .const false m => by simp [ofPExpr, normX, norm]
  | .const true m => by simp [ofPExpr, normX, norm]
  | .neg e => by simp [ofPExpr, normX, norm, normX_ofPExpr e]
  | .bin o l r => by simp [ofPExpr, normX, norm, normX_ofPExpr l, normX_ofPExpr r]
theorem normXL_ofPExprL : ∀ es : List PExpr, normXL (ofPExprL es) = ofPExprL (normL es)
  | [] => by simp [ofPExprL, normXL, normL]
  | e :: es => by simp [ofPExprL, normXL, normL, normX_ofPExpr e, normXL_ofPExprL es]
end

end Exo.PrintStmt
