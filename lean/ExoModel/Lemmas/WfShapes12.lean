/-
  reuse_buffer: renaming the accesses of a buffer `y` to a buffer `x` of the same rank that is in
  scope preserves well-formedness (`stride(y, _)`, later extents and `free y` are not renamed:
  side conditions).
-/
import ExoModel.Lemmas.WfShapes11

namespace Exo.WfShapes
open Exo Exo.Wf Exo.Rw

structure UInv (y x : Sym) (k : Nat) (Γ₁ Γ₂ : Env) : Prop where
  same : ∀ z, z ≠ y → lookup z Γ₂ = lookup z Γ₁
  y1 : lookup y Γ₁ = some (some k)
  x2 : lookup x Γ₂ = some (some k)

theorem UInv.cons {y x : Sym} {k : Nat} {Γ₁ Γ₂ : Env} (h : UInv y x k Γ₁ Γ₂) (z : Sym)
    (v : Option Nat) (hz : lookup z Γ₁ = none) : UInv y x k ((z, v) :: Γ₁) ((z, v) :: Γ₂) := by
  have hzy : z ≠ y := by intro e; rw [e, h.y1] at hz; cases hz
  have hzx : z ≠ x := by
    intro e
    have := h.same z hzy
    rw [hz, e, h.x2] at this; cases this
  refine ⟨fun w hw => ?_, ?_, ?_⟩
  · simp only [lookup_cons]; rw [h.same w hw]
  · simp [lookup_cons, Ne.symm hzy, h.y1]
  · simp [lookup_cons, Ne.symm hzx, h.x2]

theorem UInv.fresh {y x : Sym} {k : Nat} {Γ₁ Γ₂ : Env} (h : UInv y x k Γ₁ Γ₂) (z : Sym)
    (hz : lookup z Γ₁ = none) : lookup z Γ₂ = none := by
  have hzy : z ≠ y := by intro e; rw [e, h.y1] at hz; cases hz
  rw [h.same z hzy]; exact hz

theorem UInv.rank {y x : Sym} {k : Nat} {Γ₁ Γ₂ : Env} (h : UInv y x k Γ₁ Γ₂) (z : Sym) (n : Nat)
    (hr : rankOf Γ₁ z = some n) : rankOf Γ₂ (if z == y then x else z) = some n := by
  by_cases hz : z = y
  · subst hz
    have : rankOf Γ₁ z = some k := (rankOf_iff _ _ _).2 h.y1
    rw [this] at hr
    simp only [Option.some.injEq] at hr
    subst hr
    simpa using (rankOf_iff _ _ _).2 h.x2
  · have : (z == y) = false := by simpa using hz
    simp only [this, Bool.false_eq_true, if_false]
    simp only [rankOf, h.same z hz] at hr ⊢
    exact hr

section
variable {y x : Sym} {k : Nat} {Γ₁ Γ₂ : Env}

local notation "F" => (fun (_ : List Expr) => false)
local notation "FW" => (fun (_ : List WAcc) => false)
local notation "T" => (fun (_ : Nat) => true)

theorem reuseEs_length : ∀ (es : List Expr), (reuseEs y x es).length = es.length
  | [] => by simp [reuseEs]
  | e :: r => by simp [reuseEs, reuseEs_length r]

theorem reuseWs_length : ∀ (ws : List WAcc), (reuseWs y x ws).length = ws.length
  | [] => by simp [reuseWs]
  | w :: r => by simp [reuseWs, reuseWs_length r]

theorem reuseWs_accRank : ∀ (ws : List WAcc), accRank (reuseWs y x ws) = accRank ws
  | [] => by simp [reuseWs]
  | .point _ :: r => by simp [reuseWs, reuseW, accRank, reuseWs_accRank r]
  | .interval _ _ :: r => by simp [reuseWs, reuseW, accRank, reuseWs_accRank r]

theorem reuseC_wf (hI : UInv y x k Γ₁ Γ₂) : ∀ (c : Expr), wfC Γ₁ c = true →
    anyAccE y F FW T c = false → wfC Γ₂ (reuseE y x c) = true
  | .read z [], h, _ => by
    simp only [wfC, List.isEmpty_nil, Bool.and_true, isCtrl_iff] at h
    have hzy : z ≠ y := by intro e; rw [e, hI.y1] at h; cases h
    have : (z == y) = false := by simpa using hzy
    simp [reuseE, reuseEs, this, wfC, isCtrl_iff, hI.same z hzy, h]
  | .read z (_ :: _), h, _ => by simp [wfC] at h
  | .lit (.int _), _, _ => by simp [reuseE, wfC]
  | .lit (.bool _), _, _ => by simp [reuseE, wfC]
  | .lit (.data _ _), h, _ => by simp [wfC] at h
  | .usub a, h, ha => by
    simp only [wfC] at h
    simp only [anyAccE] at ha
    simp only [reuseE, wfC]
    exact reuseC_wf hI a h ha
  | .binop op a b, h, ha => by
    simp only [wfC, Bool.and_eq_true] at h
    simp only [anyAccE, Bool.or_eq_false_iff] at ha
    simp only [reuseE, wfC, Bool.and_eq_true]
    exact ⟨reuseC_wf hI a h.1 ha.1, reuseC_wf hI b h.2 ha.2⟩
  | .stride z d, h, ha => by
    simp only [anyAccE, Bool.and_true] at ha
    have hzy : z ≠ y := by simpa using ha
    simp only [wfC] at h
    simp only [reuseE, wfC, rankOf, hI.same z hzy]
    simpa [rankOf] using h
  | .readcfg _ _, _, _ => by simp [reuseE, wfC]
  | .extern _ _, h, _ => by simp [wfC] at h
  | .win _ _, h, _ => by simp [wfC] at h

theorem reuseCs_wf (hI : UInv y x k Γ₁ Γ₂) : ∀ (cs : List Expr), wfCs Γ₁ cs = true →
    anyAccEs y F FW T cs = false → wfCs Γ₂ (reuseEs y x cs) = true
  | [], _, _ => by simp [reuseEs, wfCs]
  | c :: r, h, ha => by
    simp only [wfCs, Bool.and_eq_true] at h
    simp only [anyAccEs, Bool.or_eq_false_iff] at ha
    simp only [reuseEs, wfCs, Bool.and_eq_true]
    exact ⟨reuseC_wf hI c h.1 ha.1, reuseCs_wf hI r h.2 ha.2⟩

mutual
theorem reuseD_wf (hI : UInv y x k Γ₁ Γ₂) : ∀ (c : Expr), wfD Γ₁ c = true →
    anyAccE y F FW T c = false → wfD Γ₂ (reuseE y x c) = true
  | .read z idx, h, ha => by
    simp only [wfD] at h
    simp only [anyAccE, Bool.or_eq_false_iff] at ha
    cases hr : rankOf Γ₁ z with
    | none => simp [hr] at h
    | some n =>
      rw [hr] at h
      simp only [Bool.and_eq_true] at h
      simp only [reuseE, wfD, hI.rank z n hr, reuseEs_length, h.1, reuseCs_wf hI idx h.2 ha.2,
        Bool.and_self]
  | .lit (.data _ _), _, _ => by simp [reuseE, wfD]
  | .lit (.int _), _, _ => by simp [reuseE, wfD]
  | .lit (.bool _), h, _ => by simp [wfD] at h
  | .usub a, h, ha => by
    simp only [wfD] at h
    simp only [anyAccE] at ha
    simp only [reuseE, wfD]
    exact reuseD_wf hI a h ha
  | .binop op a b, h, ha => by
    simp only [wfD, Bool.and_eq_true] at h
    simp only [anyAccE, Bool.or_eq_false_iff] at ha
    simp only [reuseE, wfD, Bool.and_eq_true]
    exact ⟨⟨h.1.1, reuseD_wf hI a h.1.2 ha.1⟩, reuseD_wf hI b h.2 ha.2⟩
  | .extern f args, h, ha => by
    simp only [wfD] at h
    simp only [anyAccE] at ha
    simp only [reuseE, wfD]
    exact reuseDs_wf hI args h ha
  | .readcfg _ _, _, _ => by simp [reuseE, wfD]
  | .win _ _, h, _ => by simp [wfD] at h
  | .stride _ _, h, _ => by simp [wfD] at h
theorem reuseDs_wf (hI : UInv y x k Γ₁ Γ₂) : ∀ (cs : List Expr), wfDs Γ₁ cs = true →
    anyAccEs y F FW T cs = false → wfDs Γ₂ (reuseEs y x cs) = true
  | [], _, _ => by simp [reuseEs, wfDs]
  | c :: r, h, ha => by
    simp only [wfDs, Bool.and_eq_true] at h
    simp only [anyAccEs, Bool.or_eq_false_iff] at ha
    simp only [reuseEs, wfDs, Bool.and_eq_true]
    exact ⟨reuseD_wf hI c h.1 ha.1, reuseDs_wf hI r h.2 ha.2⟩
end

theorem reuseWs_wf (hI : UInv y x k Γ₁ Γ₂) : ∀ (ws : List WAcc), wfAccs Γ₁ ws = true →
    anyAccWs y F FW T ws = false → wfAccs Γ₂ (reuseWs y x ws) = true
  | [], _, _ => by simp [reuseWs, wfAccs]
  | .point c :: r, h, ha => by
    simp only [wfAccs, wfAcc, Bool.and_eq_true] at h
    simp only [anyAccWs, anyAccW, Bool.or_eq_false_iff] at ha
    simp only [reuseWs, reuseW, wfAccs, wfAcc, Bool.and_eq_true]
    exact ⟨reuseC_wf hI c h.1 ha.1, reuseWs_wf hI r h.2 ha.2⟩
  | .interval a b :: r, h, ha => by
    simp only [wfAccs, wfAcc, Bool.and_eq_true] at h
    simp only [anyAccWs, anyAccW, Bool.or_eq_false_iff] at ha
    simp only [reuseWs, reuseW, wfAccs, wfAcc, Bool.and_eq_true]
    exact ⟨⟨reuseC_wf hI a h.1.1 ha.1.1, reuseC_wf hI b h.1.2 ha.1.2⟩, reuseWs_wf hI r h.2 ha.2⟩

theorem reuseV_wf (hI : UInv y x k Γ₁ Γ₂) (c : Expr) (n : Nat) (hv : viewRank Γ₁ c = some n)
    (ha : anyAccE y F FW T c = false) : viewRank Γ₂ (reuseE y x c) = some n := by
  cases c with
  | read z idx =>
    simp only [anyAccE, Bool.or_eq_false_iff] at ha
    cases idx with
    | nil =>
      simp only [viewRank] at hv
      simp only [reuseE, reuseEs, viewRank]
      exact hI.rank z n hv
    | cons a l =>
      simp only [viewRank] at hv
      cases hr : rankOf Γ₁ z with
      | none => simp [hr] at hv
      | some m =>
        rw [hr] at hv
        simp only [] at hv
        split at hv
        · rename_i hc
          simp only [Bool.and_eq_true] at hc
          have h2 := reuseCs_wf hI (a :: l) hc.2 ha.2
          have h3 : (reuseEs y x (a :: l)).length = (a :: l).length := reuseEs_length _
          simp only [reuseEs] at h2 h3
          simp only [reuseE, reuseEs, viewRank, hI.rank z m hr, h3, hc.1, h2, Bool.and_self, if_true]
          exact hv
        · cases hv
  | win z acc =>
    simp only [viewRank] at hv
    simp only [anyAccE, Bool.or_eq_false_iff] at ha
    cases hr : rankOf Γ₁ z with
    | none => simp [hr] at hv
    | some m =>
      rw [hr] at hv
      simp only [] at hv
      split at hv
      · rename_i hc
        simp only [Bool.and_eq_true] at hc
        simp only [reuseE, viewRank, hI.rank z m hr, reuseWs_length, hc.1, reuseWs_wf hI acc hc.2 ha.2,
          Bool.and_self, if_true, reuseWs_accRank]
        exact hv
      · cases hv
  | lit _ => simp [viewRank] at hv
  | usub _ => simp [viewRank] at hv
  | binop _ _ _ => simp [viewRank] at hv
  | extern _ _ => simp [viewRank] at hv
  | stride _ _ => simp [viewRank] at hv
  | readcfg _ _ => simp [viewRank] at hv

theorem reuseArgs_wf (hI : UInv y x k Γ₁ Γ₂) : ∀ (fs : List FnArg) (as : List Expr),
    wfCallArgs Γ₁ fs as = true → anyAccEs y F FW T as = false →
    wfCallArgs Γ₂ fs (reuseEs y x as) = true
  | [], [], _, _ => by simp [reuseEs, wfCallArgs]
  | ⟨_, .ctrl _⟩ :: fs, a :: as, h, ha => by
    simp only [wfCallArgs, Bool.and_eq_true] at h
    simp only [anyAccEs, Bool.or_eq_false_iff] at ha
    simp only [reuseEs, wfCallArgs, Bool.and_eq_true]
    exact ⟨reuseC_wf hI a h.1 ha.1, reuseArgs_wf hI fs as h.2 ha.2⟩
  | ⟨_, .scalar⟩ :: fs, a :: as, h, ha => by
    simp only [wfCallArgs, Bool.and_eq_true, beq_iff_eq, argRank] at h
    simp only [anyAccEs, Bool.or_eq_false_iff] at ha
    simp only [reuseEs, wfCallArgs, Bool.and_eq_true, beq_iff_eq, argRank]
    exact ⟨reuseV_wf hI a 0 h.1 ha.1, reuseArgs_wf hI fs as h.2 ha.2⟩
  | ⟨_, .tensor sh _⟩ :: fs, a :: as, h, ha => by
    simp only [wfCallArgs, Bool.and_eq_true, beq_iff_eq, argRank] at h
    simp only [anyAccEs, Bool.or_eq_false_iff] at ha
    simp only [reuseEs, wfCallArgs, Bool.and_eq_true, beq_iff_eq, argRank]
    exact ⟨reuseV_wf hI a sh.length h.1 ha.1, reuseArgs_wf hI fs as h.2 ha.2⟩
  | [], _ :: _, h, _ => by simp [wfCallArgs] at h
  | ⟨_, .ctrl _⟩ :: _, [], h, _ => by simp [wfCallArgs] at h
  | ⟨_, .scalar⟩ :: _, [], h, _ => by simp [wfCallArgs] at h
  | ⟨_, .tensor _ _⟩ :: _, [], h, _ => by simp [wfCallArgs] at h

end

theorem wfCs_congr_offU {y x : Sym} {k : Nat} {Γ₁ Γ₂ : Env} (hI : UInv y x k Γ₁ Γ₂)
    (sh : List Expr) (hx : (symsEs sh).contains y = false) : wfCs Γ₂ sh = wfCs Γ₁ sh := by
  apply wfCs_congr
  intro z hz
  have : z ≠ y := by
    intro e; subst e
    have : (symsEs sh).contains z = true := by simpa using hz
    rw [hx] at this; cases this
  exact hI.same z this

mutual
theorem reuseS_wf (y x : Sym) (k : Nat) : ∀ (s : Stmt) (Γ₁ Γ₂ Γ₁' : Env), UInv y x k Γ₁ Γ₂ →
    wfS Γ₁ s = some Γ₁' →
    anyAccS y (fun _ => false) (fun _ => false) (fun _ => true) s = false →
    allocMentionsS y s = false → freesS y s = false →
    ∃ D : Env, Γ₁' = D ++ Γ₁ ∧ wfS Γ₂ (reuseS y x s) = some (D ++ Γ₂) ∧
      (∀ z ∈ D.map Prod.fst, lookup z Γ₁ = none) ∧ D.length ≤ 1
  | .assign z idx rhs, Γ₁, Γ₂, Γ₁', hI, hw, ha, _, _ => by
    obtain ⟨h1, h2⟩ := (wfS_assign_iff Γ₁ Γ₁' z idx rhs).1 hw
    simp only [anyAccS, Bool.or_eq_false_iff] at ha
    unfold writeOk at h1
    cases hr : rankOf Γ₁ z with
    | none => rw [hr] at h1; cases h1
    | some n =>
      rw [hr] at h1
      simp only [Bool.and_eq_true, beq_iff_eq] at h1
      refine ⟨[], by simpa using h2, ?_, by simp, by simp⟩
      simp only [reuseS, List.nil_append]
      exact (wfS_assign_iff Γ₂ Γ₂ _ _ _).2
        ⟨writeOk_intro (hI.rank z n hr) (by rw [reuseEs_length]; exact h1.1.1)
          (reuseCs_wf hI idx h1.1.2 ha.1.2) (reuseD_wf hI rhs h1.2 ha.2), rfl⟩
  | .reduce z idx rhs, Γ₁, Γ₂, Γ₁', hI, hw, ha, _, _ => by
    obtain ⟨h1, h2⟩ := (wfS_reduce_iff Γ₁ Γ₁' z idx rhs).1 hw
    simp only [anyAccS, Bool.or_eq_false_iff] at ha
    unfold writeOk at h1
    cases hr : rankOf Γ₁ z with
    | none => rw [hr] at h1; cases h1
    | some n =>
      rw [hr] at h1
      simp only [Bool.and_eq_true, beq_iff_eq] at h1
      refine ⟨[], by simpa using h2, ?_, by simp, by simp⟩
      simp only [reuseS, List.nil_append]
      exact (wfS_reduce_iff Γ₂ Γ₂ _ _ _).2
        ⟨writeOk_intro (hI.rank z n hr) (by rw [reuseEs_length]; exact h1.1.1)
          (reuseCs_wf hI idx h1.1.2 ha.1.2) (reuseD_wf hI rhs h1.2 ha.2), rfl⟩
  | .writecfg c f rhs d, Γ₁, Γ₂, Γ₁', hI, hw, ha, _, _ => by
    simp only [anyAccS] at ha
    cases d with
    | true =>
      simp only [wfS, if_true] at hw
      cases hc : wfD Γ₁ rhs with
      | false => rw [hc] at hw; simp at hw
      | true =>
        rw [hc] at hw
        simp only [if_true, Option.some.injEq] at hw
        subst hw
        exact ⟨[], rfl, by simp [reuseS, wfS, reuseD_wf hI rhs hc ha], by simp, by simp⟩
    | false =>
      simp only [wfS, Bool.false_eq_true, if_false] at hw
      cases hc : wfC Γ₁ rhs with
      | false => rw [hc] at hw; simp at hw
      | true =>
        rw [hc] at hw
        simp only [if_true, Option.some.injEq] at hw
        subst hw
        exact ⟨[], rfl, by simp [reuseS, wfS, reuseC_wf hI rhs hc ha], by simp, by simp⟩
  | .pass, Γ₁, Γ₂, Γ₁', _, hw, _, _, _ => by
    simp only [wfS, Option.some.injEq] at hw
    subst hw
    exact ⟨[], rfl, by simp [reuseS, wfS], by simp, by simp⟩
  | .free z, Γ₁, Γ₂, Γ₁', hI, hw, _, _, hfz => by
    simp only [wfS] at hw
    split at hw
    · rename_i hc
      cases hw
      simp only [freesS] at hfz
      have hzy : z ≠ y := by simpa using hfz
      refine ⟨[], rfl, ?_, by simp, by simp⟩
      have hrk : rankOf Γ₂ z = rankOf Γ₁ z := by simp only [rankOf, hI.same z hzy]
      simp only [reuseS, wfS, hrk, hc, if_true, List.nil_append]
    · cases hw
  | .ite c t e, Γ₁, Γ₂, Γ₁', hI, hw, ha, hm, hfz => by
    have hw' : (wfL Γ₁ (.ite c t e :: [])).isSome = true := by simp [wfL, hw]
    obtain ⟨hc, ht, he, _⟩ := ite_inv hw'
    simp only [anyAccS, Bool.or_eq_false_iff] at ha
    simp only [allocMentionsS, Bool.or_eq_false_iff] at hm
    simp only [freesS, Bool.or_eq_false_iff] at hfz
    obtain ⟨Γt, hΓt⟩ := Option.isSome_iff_exists.1 ht
    obtain ⟨Γe, hΓe⟩ := Option.isSome_iff_exists.1 he
    obtain ⟨_, _, ht2⟩ := reuseL_wf y x k t Γ₁ Γ₂ Γt hI hΓt ha.1.2 hm.1 hfz.1
    obtain ⟨_, _, he2⟩ := reuseL_wf y x k e Γ₁ Γ₂ Γe hI hΓe ha.2 hm.2 hfz.2
    have hΓ : Γ₁' = Γ₁ := by
      obtain ⟨D, e1, hn', _⟩ := wfS_shape _ Γ₁' _ hw
      have : D = [] := by simpa [defName] using hn'
      subst this; simpa using e1
    exact ⟨[], by simpa using hΓ, by simp [reuseS, wfS, reuseC_wf hI c hc ha.1.1, ht2, he2], by simp, by simp⟩
  | .loop i lo hi b par, Γ₁, Γ₂, Γ₁', hI, hw, ha, hm, hfz => by
    have hw' : (wfL Γ₁ (.loop i lo hi b par :: [])).isSome = true := by simp [wfL, hw]
    obtain ⟨hf, hlo, hhi, hbw, _⟩ := loop_inv hw'
    simp only [anyAccS, Bool.or_eq_false_iff] at ha
    simp only [allocMentionsS] at hm
    simp only [freesS] at hfz
    have hi0 := (fresh_iff _ _).1 hf
    obtain ⟨Γb, hΓb⟩ := Option.isSome_iff_exists.1 hbw
    obtain ⟨_, _, hb2⟩ := reuseL_wf y x k b _ _ Γb (hI.cons i none hi0) hΓb ha.2 hm hfz
    have hΓ : Γ₁' = Γ₁ := by
      obtain ⟨D, e1, hn', _⟩ := wfS_shape _ Γ₁' _ hw
      have : D = [] := by simpa [defName] using hn'
      subst this; simpa using e1
    refine ⟨[], by simpa using hΓ, ?_, by simp, by simp⟩
    simp [reuseS, wfS, (fresh_iff _ _).2 (hI.fresh i hi0), reuseC_wf hI lo hlo ha.1.1,
      reuseC_wf hI hi hhi ha.1.2, hb2]
  | .alloc z sh, Γ₁, Γ₂, Γ₁', hI, hw, _, hm, _ => by
    simp only [wfS] at hw
    split at hw
    · rename_i hc
      simp only [Bool.and_eq_true] at hc
      cases hw
      simp only [allocMentionsS] at hm
      have hz0 := (fresh_iff _ _).1 hc.1
      refine ⟨[(z, some sh.length)], rfl, ?_, by intro w hw; simp at hw; subst hw; exact hz0, by simp⟩
      simp [reuseS, wfS, (fresh_iff _ _).2 (hI.fresh z hz0), wfCs_congr_offU hI sh hm, hc.2]
    · cases hw
  | .call f args, Γ₁, Γ₂, Γ₁', hI, hw, ha, _, _ => by
    simp only [wfS] at hw
    split at hw
    · rename_i hc
      simp only [Bool.and_eq_true] at hc
      cases hw
      simp only [anyAccS] at ha
      exact ⟨[], rfl, by simp [reuseS, wfS, hc.1, reuseArgs_wf hI f.args args hc.2 ha], by simp, by simp⟩
    · cases hw
  | .window z rhs, Γ₁, Γ₂, Γ₁', hI, hw, ha, _, _ => by
    simp only [wfS] at hw
    cases hv : viewRank Γ₁ rhs with
    | none => simp [hv] at hw
    | some n =>
      rw [hv] at hw
      simp only [] at hw
      split at hw
      · rename_i hf
        cases hw
        simp only [anyAccS] at ha
        have hz0 := (fresh_iff _ _).1 hf
        refine ⟨[(z, some n)], rfl, ?_, by intro w hw; simp at hw; subst hw; exact hz0, by simp⟩
        simp [reuseS, wfS, reuseV_wf hI rhs n hv ha, (fresh_iff _ _).2 (hI.fresh z hz0)]
      · cases hw
theorem reuseL_wf (y x : Sym) (k : Nat) : ∀ (ss : List Stmt) (Γ₁ Γ₂ Γ₁' : Env), UInv y x k Γ₁ Γ₂ →
    wfL Γ₁ ss = some Γ₁' →
    anyAccL y (fun _ => false) (fun _ => false) (fun _ => true) ss = false →
    allocMentionsL y ss = false → freesL y ss = false →
    ∃ D : Env, Γ₁' = D ++ Γ₁ ∧ (wfL Γ₂ (reuseL y x ss)).isSome = true
  | [], Γ₁, Γ₂, Γ₁', _, hw, _, _, _ => by
    simp only [wfL, Option.some.injEq] at hw
    subst hw
    exact ⟨[], rfl, by simp [reuseL, wfL]⟩
  | s :: r, Γ₁, Γ₂, Γ₁', hI, hw, ha, hm, hfz => by
    simp only [wfL] at hw
    cases h1 : wfS Γ₁ s with
    | none => rw [h1] at hw; cases hw
    | some Γa =>
      rw [h1] at hw
      simp only [anyAccL, Bool.or_eq_false_iff] at ha
      simp only [allocMentionsL, Bool.or_eq_false_iff] at hm
      simp only [freesL, Bool.or_eq_false_iff] at hfz
      obtain ⟨D, e1, hs, hfr, hlen⟩ := reuseS_wf y x k s Γ₁ Γ₂ Γa hI h1 ha.1 hm.1 hfz.1
      subst e1
      have hI2 : UInv y x k (D ++ Γ₁) (D ++ Γ₂) := by
        match D, hfr, hlen with
        | [], _, _ => simpa using hI
        | [(z, v)], hfr, _ => exact hI.cons z v (hfr z (by simp))
        | _ :: _ :: _, _, hlen => simp at hlen
      obtain ⟨D2, e2, hr⟩ := reuseL_wf y x k r (D ++ Γ₁) (D ++ Γ₂) Γ₁' hI2 hw ha.2 hm.2 hfz.2
      refine ⟨D2 ++ D, by rw [e2, List.append_assoc], ?_⟩
      simp only [reuseL, wfL, hs]
      exact hr
end

theorem reuseBuffer_local (x : Sym) (fill : Bool) (Γ : Env) (ss r : List Stmt)
    (hr : reuseBuffer x fill ss = some r) (hok : reuseBufferOk Γ x ss = true)
    (hw : (wfL Γ ss).isSome = true) : (wfL Γ r).isSome = true := by
  unfold reuseBuffer at hr
  split at hr
  · rename_i y shy rest
    simp only [Option.some.injEq] at hr
    subst hr
    simp only [reuseBufferOk, Bool.and_eq_true, Bool.not_eq_true', beq_iff_eq] at hok
    obtain ⟨⟨⟨hrk, ha⟩, hm⟩, hfz⟩ := hok
    obtain ⟨hf, _, hrest⟩ := alloc_inv hw
    split
    · simp [wfL, wfS]
    · obtain ⟨Γ', hΓ'⟩ := Option.isSome_iff_exists.1 hrest
      have hy0 := (fresh_iff _ _).1 hf
      have hI : UInv y x shy.length ((y, some shy.length) :: Γ) Γ :=
        ⟨fun z hz => by simp [lookup_cons, hz], by simp [lookup_cons], (rankOf_iff _ _ _).1 hrk⟩
      obtain ⟨_, _, h2⟩ := reuseL_wf y x shy.length rest _ Γ Γ' hI hΓ' ha hm hfz
      exact h2
  · cases hr

end Exo.WfShapes
