/-
  General re-indexing of one heap buffer, part 2: the "reindex mode".  A statement `a` on the left,
  `Rw.reidxS x ρ a` on the right, from `Rel (· = x)`-related states: `x` is bound to `{N, 0, ds}` on the
  left and to `{N, 0, ds'}` on the right; an access with evaluated index tuple `is` hits cell
  `o = viewOffset ds is 0` of the original buffer and cell `o' = viewOffset ds' (f is) 0` of the new
  one, and the two buffers agree on corresponding cells (`CellsRel`; cells of the new buffer that are
  not an image are unconstrained, and so are images of cells outside `D`).

  ONE-DIRECTIONAL (`Fwd`): if the left run succeeds (and every cell of buffer `N` it accesses lies in
  `D` — `AccIn`, threaded through the induction along the dynamic footprint `Fp.evS`), the right run
  succeeds in a related state.  Lock step is false in general (an out-of-bounds tuple may have an
  in-bounds image).

  FIRST VERSION (`Rw.reidxOkS`): `x` occurs only as the buffer of a data read `x[idx]` in a right-hand
  side / extern argument / data configuration write and as the target of `assign`/`reduce`; NOT in a
  `win`, NOT as `stride(x, _)`, NOT in a call argument, NOT in a `window` statement, not in any index
  or control expression, never re-bound.
-/
import ExoModel.Lemmas.StorageReindex1

set_option linter.unusedSectionVars false
set_option linter.unusedVariables false

namespace Exo.Rw
open Exo

mutual
/-- the statements the first version of the general re-indexing theorem is proved for (see the file
    header); data positions are checked by `Rw.okD` (StorageExpand2.lean): the indices of reads do not
    mention `x` -/
def reidxOkS (x : Sym) : Stmt → Bool
  | .assign _ idx rhs => notIn x (namesEs idx) && okD x rhs
  | .reduce _ idx rhs => notIn x (namesEs idx) && okD x rhs
  | .writecfg _ _ rhs d => if d then okD x rhs else notIn x rhs.names
  | .pass => true
  | .ite c t el => notIn x c.names && reidxOkL x t && reidxOkL x el
  | .loop _ lo hi b _ => notIn x lo.names && notIn x hi.names && reidxOkL x b
  | .alloc y sh => y != x && notIn x (namesEs sh)
  | .free _ => true
  | .call _ args => notIn x (namesEs args)
  | .window y rhs => y != x && notIn x rhs.names
def reidxOkL (x : Sym) : List Stmt → Bool
  | [] => true
  | s :: r => reidxOkS x s && reidxOkL x r
end

/-- executable syntactic side condition of a dimension rewrite of the local buffer `x` on the rest of
    its block -/
def reidxGuard (x : Sym) (rest : List Stmt) : Bool := reidxOkL x rest

end Exo.Rw

namespace Exo.Reidx
open Exo
variable {V : Type}

/-! ### the rewrite does nothing to expressions that do not mention `x` -/

mutual
theorem reidxE_id (x : Sym) (ρ : Rw.Reidx) : ∀ (a : Expr), (∀ y ∈ a.names, y ≠ x) →
    Rw.reidxE x ρ a = a
  | .read y idx, hn => by
    have hy : (y == x) = false := by simpa using hn y (by simp [Expr.names])
    simp only [Rw.reidxE, hy, Bool.false_eq_true, ↓reduceIte]
    rw [reidxEs_id x ρ idx (fun z hz => hn z (by simp [Expr.names, hz]))]
  | .lit c, _ => by simp only [Rw.reidxE]
  | .usub a, hn => by
    simp only [Rw.reidxE]
    rw [reidxE_id x ρ a (fun z hz => hn z (by simpa [Expr.names] using hz))]
  | .binop o a b, hn => by
    simp only [Rw.reidxE]
    rw [reidxE_id x ρ a (fun z hz => hn z (by simp [Expr.names, hz])),
        reidxE_id x ρ b (fun z hz => hn z (by simp [Expr.names, hz]))]
  | .extern g args, hn => by
    simp only [Rw.reidxE]
    rw [reidxEs_id x ρ args (fun z hz => hn z (by simpa [Expr.names] using hz))]
  | .win y acc, hn => by
    have hy : (y == x) = false := by simpa using hn y (by simp [Expr.names])
    simp only [Rw.reidxE, hy, Bool.false_eq_true, ↓reduceIte]
    rw [reidxWs_id x ρ acc (fun z hz => hn z (by simp [Expr.names, hz]))]
  | .stride y d, hn => by
    have hy : (y == x) = false := by simpa using hn y (by simp [Expr.names])
    simp only [Rw.reidxE, hy, Bool.false_eq_true, ↓reduceIte]
  | .readcfg c g, _ => by simp only [Rw.reidxE]
theorem reidxEs_id (x : Sym) (ρ : Rw.Reidx) : ∀ (as : List Expr), (∀ y ∈ namesEs as, y ≠ x) →
    Rw.reidxEs x ρ as = as
  | [], _ => by simp only [Rw.reidxEs]
  | a :: r, hn => by
    simp only [Rw.reidxEs]
    rw [reidxE_id x ρ a (fun z hz => hn z (by simp [namesEs, hz])),
        reidxEs_id x ρ r (fun z hz => hn z (by simp [namesEs, hz]))]
theorem reidxW_id (x : Sym) (ρ : Rw.Reidx) : ∀ (w : WAcc), (∀ y ∈ w.names, y ≠ x) →
    Rw.reidxW x ρ w = w
  | .interval a b, hn => by
    simp only [Rw.reidxW]
    rw [reidxE_id x ρ a (fun z hz => hn z (by simp [WAcc.names, hz])),
        reidxE_id x ρ b (fun z hz => hn z (by simp [WAcc.names, hz]))]
  | .point a, hn => by
    simp only [Rw.reidxW]
    rw [reidxE_id x ρ a (fun z hz => hn z (by simpa [WAcc.names] using hz))]
theorem reidxWs_id (x : Sym) (ρ : Rw.Reidx) : ∀ (ws : List WAcc), (∀ y ∈ namesWs ws, y ≠ x) →
    Rw.reidxWs x ρ ws = ws
  | [], _ => by simp only [Rw.reidxWs]
  | w :: r, hn => by
    simp only [Rw.reidxWs]
    rw [reidxW_id x ρ w (fun z hz => hn z (by simp [namesWs, hz])),
        reidxWs_id x ρ r (fun z hz => hn z (by simp [namesWs, hz]))]
end

/-! ### `AccIn` along concatenation -/

theorem accIn_append {N : Nat} {D : Int → Prop} {t₁ t₂ : List (Fp.Ev V)} :
    AccIn N D (t₁ ++ t₂) ↔ AccIn N D t₁ ∧ AccIn N D t₂ := by
  unfold AccIn
  constructor
  · intro h
    exact ⟨fun e he => h e (List.mem_append_left _ he), fun e he => h e (List.mem_append_right _ he)⟩
  · intro h e he
    rcases List.mem_append.1 he with he | he
    · exact h.1 e he
    · exact h.2 e he

theorem accIn_true {N : Nat} (t : List (Fp.Ev V)) : AccIn N (fun _ => True) t := by
  intro e _
  cases e <;> simp

/-- a one-directional simulation of loops that threads `AccIn` along the events of the left run -/
theorem iterate_fwd_acc {N : Nat} {D : Int → Prop} (Q : State V → State V → Prop)
    (f g : Int → State V → Except Err (State V)) (ev : Int → State V → List (Fp.Ev V))
    (hfg : ∀ v a b, Q a b → AccIn N D (ev v a) → Fwd Q (f v a) (g v b)) :
    ∀ (n : Nat) (lo : Int) (a b : State V), Q a b → AccIn N D (Fp.evIter ev f n lo a) →
      Fwd Q (iterate f n lo a) (iterate g n lo b)
  | 0, _, _, _, h, _ => Fwd.ofPure h
  | n + 1, lo, a, b, h, hacc => by
    simp only [iterate]
    simp only [Fp.evIter] at hacc
    obtain ⟨h1, h2⟩ := accIn_append.1 hacc
    exact Fwd.bind (hfg lo a b h h1) (fun a1 b1 ha1 _ hq => by
      rw [ha1] at h2
      exact iterate_fwd_acc Q f g ev hfg n (lo + 1) a1 b1 hq h2)

theorem Fwd.refl_eq {α : Type} (r : Except Err α) : Fwd Eq r r := fun a ha => ⟨a, ha, rfl⟩

/-! ### the relation between the two versions of the buffer -/

/-- `bo` (original, `m` cells, layout `ds`) and `be` (re-indexed, `m'` cells, layout `ds'`) agree on
    corresponding cells: the cell of the tuple `is` and the cell of the tuple `f is`, for tuples whose
    original cell lies in `D` -/
def CellsRel (ds ds' : List (Int × Int)) (m m' : Nat) (f : List Int → List Int) (D : Int → Prop)
    (bo be : List (Option V)) : Prop :=
  bo.length = m ∧ be.length = m' ∧
  ∀ is o o', viewOffset ds is 0 = .ok o → D o → viewOffset ds' (f is) 0 = .ok o' →
    be[o'.toNat]? = bo[o.toNat]?

/-- `c` is the cell of a tuple `is` in the original buffer and `c'` the cell of `f is` in the new one -/
def CellPair (N : Nat) (ds ds' : List (Int × Int)) (f : List Int → List Int) (D : Int → Prop)
    (c c' : Nat × Nat) : Prop :=
  ∃ is o o', viewOffset ds is 0 = .ok o ∧ D o ∧ viewOffset ds' (f is) 0 = .ok o' ∧
    c = (N, o.toNat) ∧ c' = (N, o'.toNat)

theorem cellOf_ok_inv {h : List (List (Option V))} {N : Nat} {ds : List (Int × Int)}
    {is : List Int} {c : Nat × Nat} {bo : List (Option V)} (hb : h[N]? = some bo)
    (hc : cellOf h { buf := N, off := 0, dims := ds } is = .ok c) :
    ∃ o, viewOffset ds is 0 = .ok o ∧ 0 ≤ o ∧ c = (N, o.toNat) := by
  simp only [cellOf] at hc
  obtain ⟨o, ho, hc⟩ := except_bind_ok_inv hc
  rw [hb] at hc
  simp only [] at hc
  split at hc
  · rename_i hr
    simp only [pure, Except.pure, Except.ok.injEq] at hc
    exact ⟨o, ho, hr.1, hc.symm⟩
  · cases hc

theorem cellOf_ok_intro {h : List (List (Option V))} {N : Nat} {ds : List (Int × Int)}
    {is : List Int} {o : Int} {bo : List (Option V)} (hb : h[N]? = some bo)
    (ho : viewOffset ds is 0 = .ok o) (h0 : 0 ≤ o) (h1 : o < bo.length) :
    cellOf h { buf := N, off := 0, dims := ds } is = .ok (N, o.toNat) := by
  simp only [cellOf, ho, hb, bind, Except.bind]
  rw [if_pos ⟨h0, h1⟩]; rfl

section
variable {x : Sym} {ρ : Rw.Reidx} {f : List Int → List Int} {D : Int → Prop} {N m m' : Nat}
  {ds ds' : List (Int × Int)} {s s' : State V}

theorem HRel.get_pair {h h' : List (List (Option V))}
    (H : HRel N (CellsRel ds ds' m m' f D) h h') {c c' : Nat × Nat}
    (hp : CellPair N ds ds' f D c c') : heapGet h' c' = heapGet h c := by
  obtain ⟨is, o, o', h1, hD, h2, rfl, rfl⟩ := hp
  obtain ⟨bo, be, hb, hb', _, _, hq⟩ := H.big
  simp only [heapGet, hb, hb', hq is o o' h1 hD h2]

/-- a write to the cell of `is` on the left, to the cell of `f is` on the right -/
theorem HRel.set_pair (G : ReidxGeom ds ds' m m' f D) {h h' : List (List (Option V))}
    (H : HRel N (CellsRel ds ds' m m' f D) h h') {c c' : Nat × Nat}
    (hp : CellPair N ds ds' f D c c') (v : Option V) :
    HRel N (CellsRel ds ds' m m' f D) (heapSet h c v) (heapSet h' c' v) := by
  obtain ⟨is, o, o', h1, hD, h2, rfl, rfl⟩ := hp
  obtain ⟨bo, be, hb, hb', hl, hl', hq⟩ := H.big
  obtain ⟨ho0, ho1⟩ := G.src is o h1
  obtain ⟨o'', h2', ho0', ho1'⟩ := G.map is o h1 hD
  have e0 : o'' = o' := Except.ok.inj (h2'.symm.trans h2)
  subst e0
  refine ⟨by simp only [heapSet, List.length_modify]; exact H.len, ?_, ?_⟩
  · intro b hbN
    have hbN' : ¬ N = b := fun e => hbN e.symm
    rw [getElem?_heapSet, getElem?_heapSet, if_neg hbN', if_neg hbN']
    exact H.other b hbN
  · refine ⟨bo.set o.toNat v, be.set o''.toNat v, ?_, ?_, ?_, ?_, ?_⟩
    · rw [getElem?_heapSet, if_pos rfl, hb]; rfl
    · rw [getElem?_heapSet, if_pos rfl, hb']; rfl
    · rw [List.length_set]; exact hl
    · rw [List.length_set]; exact hl'
    · intro is₂ o₂ o₂' g1 gD g2
      obtain ⟨p0, p1⟩ := G.src is₂ o₂ g1
      obtain ⟨o₃, g2', p0', p1'⟩ := G.map is₂ o₂ g1 gD
      have e1 : o₃ = o₂' := Except.ok.inj (g2'.symm.trans g2)
      subst e1
      have hinj := G.inj is is₂ o o₂ o'' o₃ h1 g1 hD gD h2 g2
      rw [List.getElem?_set, List.getElem?_set]
      by_cases hoo : o = o₂
      · have e2 : o'' = o₃ := hinj.2 hoo
        subst hoo; subst e2
        rw [if_pos rfl, if_pos rfl, if_pos (by omega), if_pos (by omega)]
      · have hne : o'' ≠ o₃ := fun e => hoo (hinj.1 e)
        rw [if_neg (by omega), if_neg (by omega)]
        exact hq is₂ o₂ o₃ g1 gD g2

/-- **the access lemma**: if `x[idx]` denotes a cell (in `D`) on the left, `x[φ idx]` denotes the
    corresponding cell on the right -/
theorem target_reidx (hsyn : ReidxSyn ρ.idx f) (G : ReidxGeom ds ds' m m' f D)
    (h : Rel (fun y => y = x) N (CellsRel ds ds' m m' f D) { buf := N, off := 0, dims := ds }
      { buf := N, off := 0, dims := ds' } s s')
    (idx : List Expr) (hidx : ∀ y ∈ namesEs idx, y ≠ x) (c : Nat × Nat)
    (hc : Fp.target s x idx = .ok c) (hD : c.1 = N → D (c.2 : Int)) :
    ∃ c', Fp.target s' x (ρ.idx idx) = .ok c' ∧ CellPair N ds ds' f D c c' := by
  unfold Fp.target at hc ⊢
  rw [(h.px x rfl).1] at hc
  rw [(h.px x rfl).2]
  simp only [] at hc ⊢
  obtain ⟨is, his, hc⟩ := except_bind_ok_inv hc
  have his' : evalCs s' idx = .ok is := by rw [evalCs_rel h idx hidx]; exact his
  rw [hsyn.eval V s' idx is his', ok_bind]
  obtain ⟨bo, be, hb, hb', hl, hl', hq⟩ := h.heap.big
  obtain ⟨o, ho, ho0, rfl⟩ := cellOf_ok_inv hb hc
  have hDo : D o := by
    have h1 : D ((o.toNat : Nat) : Int) := hD rfl
    rwa [Int.toNat_of_nonneg ho0] at h1
  obtain ⟨o', ho', h0', h1'⟩ := G.map is o ho hDo
  exact ⟨(N, o'.toNat), cellOf_ok_intro hb' ho' h0' (by rw [hl']; exact h1'),
    is, o, o', ho, hDo, ho', rfl, rfl⟩

/-- a write to `x[idx]` on the left, to `x[φ idx]` on the right -/
theorem writeCell_reidx (hsyn : ReidxSyn ρ.idx f) (G : ReidxGeom ds ds' m m' f D)
    (h : Rel (fun y => y = x) N (CellsRel ds ds' m m' f D) { buf := N, off := 0, dims := ds }
      { buf := N, off := 0, dims := ds' } s s')
    (idx : List Expr) (hidx : ∀ y ∈ namesEs idx, y ≠ x) (g : Option V → Option V)
    (hacc : ∀ c, Fp.target s x idx = .ok c → c.1 = N → D (c.2 : Int)) :
    Fwd (Rel (fun y => y = x) N (CellsRel ds ds' m m' f D) { buf := N, off := 0, dims := ds }
        { buf := N, off := 0, dims := ds' })
      (writeCell s x idx g) (writeCell s' x (ρ.idx idx) g) := by
  rw [Fp.writeCell_eq, Fp.writeCell_eq]
  intro t ht
  cases hc : Fp.target s x idx with
  | error e => rw [hc] at ht; cases ht
  | ok c =>
    rw [hc] at ht
    obtain ⟨c', hc', hp⟩ := target_reidx hsyn G h idx hidx c hc (hacc c hc)
    rw [hc']
    refine ⟨_, rfl, ?_⟩
    obtain rfl : { s with heap := heapSet s.heap c (g (heapGet s.heap c)) } = t := Except.ok.inj ht
    show Rel _ _ _ _ _ { s with heap := heapSet s.heap c (g (heapGet s.heap c)) }
      { s' with heap := heapSet s'.heap c' (g (heapGet s'.heap c')) }
    rw [h.heap.get_pair hp]
    exact h.heapWrite (h.heap.set_pair G hp _)

section
variable [DataAlg V] (ext : String → List V → V)

mutual
/-- data evaluation of `a` on the left and of `reidxE x ρ a` on the right -/
theorem evalD_reidx (hsyn : ReidxSyn ρ.idx f) (G : ReidxGeom ds ds' m m' f D)
    (h : Rel (fun y => y = x) N (CellsRel ds ds' m m' f D) { buf := N, off := 0, dims := ds }
      { buf := N, off := 0, dims := ds' } s s') :
    ∀ (a : Expr), Rw.okD x a = true → AccIn N D (Fp.evD s a) →
    Fwd Eq (evalD ext s a) (evalD ext s' (Rw.reidxE x ρ a))
  | .read y idx, hok, hacc => by
    have hidx : ∀ z ∈ namesEs idx, z ≠ x := Rw.notIn_iff.1 (by simpa [Rw.okD] using hok)
    by_cases hyx : y = x
    · have hb : (y == x) = true := by simp [hyx]
      simp only [Rw.reidxE, hb, ↓reduceIte]
      rw [reidxEs_id x ρ idx hidx, hyx, Fp.evalD_read, Fp.evalD_read]
      simp only [Fp.evD] at hacc
      rw [hyx] at hacc
      intro v hv
      cases hc : Fp.target s x idx with
      | error e => rw [hc] at hv; cases hv
      | ok c =>
        rw [hc] at hv hacc
        have hD : c.1 = N → D (c.2 : Int) := (accIn_append.1 hacc).2 (.rd c) (by simp)
        obtain ⟨c', hc', hp⟩ := target_reidx hsyn G h idx hidx c hc hD
        rw [hc']
        refine ⟨_, rfl, ?_⟩
        obtain rfl : heapGet s.heap c = v := Except.ok.inj hv
        exact (h.heap.get_pair hp).symm
    · have hb : (y == x) = false := by simpa using hyx
      simp only [Rw.reidxE, hb, Bool.false_eq_true, ↓reduceIte]
      rw [reidxEs_id x ρ idx hidx, evalD_rel ext h (.read y idx) (by
        intro z hz
        simp only [Expr.names, List.mem_cons] at hz
        rcases hz with rfl | hz
        · exact hyx
        · exact hidx z hz)]
      exact Fwd.refl_eq _
  | .lit c, _, _ => by
    simp only [Rw.reidxE]
    cases c <;> (simp only [evalD]; exact Fwd.refl_eq _)
  | .usub a, hok, hacc => by
    simp only [Rw.reidxE, evalD]
    exact Fwd.bind (evalD_reidx hsyn G h a (by simpa [Rw.okD] using hok)
        (by simpa only [Fp.evD] using hacc))
      (fun v v' _ _ hv => by subst hv; exact Fwd.refl_eq _)
  | .binop op a b, hok, hacc => by
    simp only [Rw.okD, Bool.and_eq_true] at hok
    simp only [Fp.evD] at hacc
    obtain ⟨ha1, ha2⟩ := accIn_append.1 hacc
    simp only [Rw.reidxE, evalD]
    exact Fwd.bind (evalD_reidx hsyn G h a hok.1 ha1) (fun v v' _ _ hv =>
      Fwd.bind (evalD_reidx hsyn G h b hok.2 ha2) (fun w w' _ _ hw => by
        subst hv; subst hw; exact Fwd.refl_eq _))
  | .extern g args, hok, hacc => by
    simp only [Rw.reidxE, evalD]
    exact Fwd.bind (evalDs_reidx hsyn G h args (by simpa [Rw.okD] using hok)
        (by simpa only [Fp.evD] using hacc))
      (fun vs vs' _ _ hvs => by subst hvs; exact Fwd.refl_eq _)
  | .readcfg c g, _, _ => by
    simp only [Rw.reidxE, evalD, h.cfg]
    exact Fwd.refl_eq _
  | .win y acc, _, _ => by
    simp only [Rw.reidxE, evalD]; exact Fwd.of_lock Lock.ofThrow
  | .stride y d, _, _ => by
    simp only [Rw.reidxE, evalD]; exact Fwd.of_lock Lock.ofThrow
theorem evalDs_reidx (hsyn : ReidxSyn ρ.idx f) (G : ReidxGeom ds ds' m m' f D)
    (h : Rel (fun y => y = x) N (CellsRel ds ds' m m' f D) { buf := N, off := 0, dims := ds }
      { buf := N, off := 0, dims := ds' } s s') :
    ∀ (as : List Expr), Rw.okDs x as = true → AccIn N D (Fp.evDs s as) →
    Fwd Eq (evalDs ext s as) (evalDs ext s' (Rw.reidxEs x ρ as))
  | [], _, _ => by
    simp only [Rw.reidxEs, evalDs]; exact Fwd.refl_eq _
  | a :: r, hok, hacc => by
    simp only [Rw.okDs, Bool.and_eq_true] at hok
    simp only [Fp.evDs] at hacc
    obtain ⟨ha1, ha2⟩ := accIn_append.1 hacc
    simp only [Rw.reidxEs, evalDs]
    exact Fwd.bind (evalD_reidx hsyn G h a hok.1 ha1) (fun v v' _ _ hv =>
      Fwd.bind (evalDs_reidx hsyn G h r hok.2 ha2) (fun w w' _ _ hw => by
        subst hv; subst hw; exact Fwd.refl_eq _))
end

end

end

section
variable {x : Sym} {ρ : Rw.Reidx} {f : List Int → List Int} {D : Int → Prop} {N m m' : Nat}
  {ds ds' : List (Int × Int)}
variable [DataAlg V] (ext : String → List V → V)

mutual
/-- **reindex mode**: if `a` succeeds (accessing only cells of buffer `N` that lie in `D`),
    `reidxS x ρ a` succeeds in a related state -/
theorem execS_reidx (hsyn : ReidxSyn ρ.idx f) (G : ReidxGeom ds ds' m m' f D) :
    ∀ (a : Stmt) (s s' : State V), Rw.reidxOkS x a = true →
    Rel (fun y => y = x) N (CellsRel ds ds' m m' f D) { buf := N, off := 0, dims := ds }
      { buf := N, off := 0, dims := ds' } s s' →
    AccIn N D (Fp.evS ext a s) →
    Fwd (Rel (fun y => y = x) N (CellsRel ds ds' m m' f D) { buf := N, off := 0, dims := ds }
        { buf := N, off := 0, dims := ds' })
      (execS ext a s) (execS ext (Rw.reidxS x ρ a) s')
  | .assign y idx rhs, s, s', hok, h, hacc => by
    simp only [Rw.reidxOkS, Bool.and_eq_true] at hok
    have hidx := Rw.notIn_iff.1 hok.1
    simp only [Fp.evS] at hacc
    rw [accIn_append, accIn_append] at hacc
    obtain ⟨⟨ha1, _⟩, ha3⟩ := hacc
    simp only [Rw.reidxS, execS]
    rw [reidxEs_id x ρ idx hidx]
    refine Fwd.bind (evalD_reidx ext hsyn G h rhs hok.2 ha1) (fun v v' hv _ hvv => ?_)
    subst hvv
    rw [hv] at ha3
    by_cases hyx : y = x
    · have hb : (y == x) = true := by simp [hyx]
      simp only [hb, ↓reduceIte]
      rw [hyx] at ha3 ⊢
      exact writeCell_reidx hsyn G h idx hidx _ (fun c hc => by
        rw [hc] at ha3
        exact ha3 (.wr c v) (by simp))
    · have hb : (y == x) = false := by simpa using hyx
      simp only [hb, Bool.false_eq_true, ↓reduceIte]
      exact Fwd.of_lock (writeCell_rel h y idx hyx hidx _)
  | .reduce y idx rhs, s, s', hok, h, hacc => by
    simp only [Rw.reidxOkS, Bool.and_eq_true] at hok
    have hidx := Rw.notIn_iff.1 hok.1
    simp only [Fp.evS] at hacc
    rw [accIn_append, accIn_append] at hacc
    obtain ⟨⟨ha1, _⟩, ha3⟩ := hacc
    simp only [Rw.reidxS, execS]
    rw [reidxEs_id x ρ idx hidx]
    refine Fwd.bind (evalD_reidx ext hsyn G h rhs hok.2 ha1) (fun v v' hv _ hvv => ?_)
    subst hvv
    rw [hv] at ha3
    by_cases hyx : y = x
    · have hb : (y == x) = true := by simp [hyx]
      simp only [hb, ↓reduceIte]
      rw [hyx] at ha3 ⊢
      exact writeCell_reidx hsyn G h idx hidx _ (fun c hc => by
        rw [hc] at ha3
        exact ha3 (.red c v) (by simp))
    · have hb : (y == x) = false := by simpa using hyx
      simp only [hb, Bool.false_eq_true, ↓reduceIte]
      exact Fwd.of_lock (writeCell_rel h y idx hyx hidx _)
  | .writecfg c fl rhs true, s, s', hok, h, hacc => by
    simp only [Rw.reidxOkS, ↓reduceIte] at hok
    simp only [Fp.evS, ↓reduceIte] at hacc
    simp only [Rw.reidxS, execS, ↓reduceIte]
    exact Fwd.bind (evalD_reidx ext hsyn G h rhs hok (accIn_append.1 hacc).1)
      (fun v v' _ _ hv => by subst hv; exact Fwd.ofPure (h.cfgWrite (c, fl) (.data v)))
  | .writecfg c fl rhs false, s, s', hok, h, _ => by
    simp only [Rw.reidxOkS, Bool.false_eq_true, ↓reduceIte] at hok
    have hr := Rw.notIn_iff.1 hok
    simp only [Rw.reidxS]
    rw [reidxE_id x ρ rhs hr]
    exact Fwd.of_lock (execS_id ext N _ _ _ (.writecfg c fl rhs false) _ s s'
      (fun z hz => hr z (by simpa [Stmt.names] using hz)) h)
  | .pass, s, s', _, h, _ => by
    simp only [Rw.reidxS, execS]; exact Fwd.ofPure h
  | .free _, s, s', _, h, _ => by
    simp only [Rw.reidxS, execS]; exact Fwd.ofPure h
  | .ite c t el, s, s', hok, h, hacc => by
    simp only [Rw.reidxOkS, Bool.and_eq_true] at hok
    obtain ⟨⟨hc, ht⟩, hel⟩ := hok
    have hc' := Rw.notIn_iff.1 hc
    simp only [Fp.evS] at hacc
    have hacc2 := (accIn_append.1 hacc).2
    simp only [Rw.reidxS, execS]
    rw [reidxE_id x ρ c hc', evalC_rel h c hc']
    refine Fwd.bind_eq (fun b hb => ?_)
    rw [hb] at hacc2
    simp only [Fp.onOk_ok] at hacc2
    refine Fwd.ite (fun hb0 => ?_) (fun hb0 => ?_)
    · rw [if_pos hb0] at hacc2
      exact Fwd.map (execL_reidx hsyn G t s s' ht h hacc2)
        (fun a b ha _ hab => h.leave hab (execL_scope ext t s a ha).2.1)
    · rw [if_neg hb0] at hacc2
      exact Fwd.map (execL_reidx hsyn G el s s' hel h hacc2)
        (fun a b ha _ hab => h.leave hab (execL_scope ext el s a ha).2.1)
  | .loop i lo hi body par, s, s', hok, h, hacc => by
    simp only [Rw.reidxOkS, Bool.and_eq_true] at hok
    obtain ⟨⟨hlo, hhi⟩, hb⟩ := hok
    have hlo' := Rw.notIn_iff.1 hlo
    have hhi' := Rw.notIn_iff.1 hhi
    simp only [Fp.evS] at hacc
    have hacc2 := (accIn_append.1 hacc).2
    simp only [Rw.reidxS, execS]
    rw [reidxE_id x ρ lo hlo', reidxE_id x ρ hi hhi', evalC_rel h lo hlo', evalC_rel h hi hhi']
    refine Fwd.bind_eq (fun l hl => Fwd.bind_eq (fun hh hhh => ?_))
    rw [hl, hhh] at hacc2
    simp only [Fp.onOk_ok] at hacc2
    refine Fwd.ite (fun _ => Fwd.ofThrowBind) (fun hlt => ?_)
    rw [if_neg hlt] at hacc2
    exact iterate_fwd_acc
      (Rel (fun y => y = x) N (CellsRel ds ds' m m' f D) { buf := N, off := 0, dims := ds }
        { buf := N, off := 0, dims := ds' }) _ _
      (fun v s => Fp.evL ext body (s.bind i v))
      (fun v a b hab hac => Fwd.map (execL_reidx hsyn G body _ _ hb (hab.bind i v) hac)
        (fun a1 b1 ha1 _ h1 => hab.leave h1 (execL_scope ext body _ a1 ha1).2.1))
      _ _ s s' h hacc2
  | .alloc y sh, s, s', hok, h, _ => by
    simp only [Rw.reidxOkS, Bool.and_eq_true, bne_iff_ne, ne_eq] at hok
    simp only [Rw.reidxS]
    exact Fwd.of_lock (execS_id ext N _ _ _ (.alloc y sh) _ s s'
      (names_cons_ne hok.1 (Rw.notIn_iff.1 hok.2)) h)
  | .call p args, s, s', hok, h, _ => by
    simp only [Rw.reidxOkS] at hok
    have hargs := Rw.notIn_iff.1 hok
    simp only [Rw.reidxS]
    rw [reidxEs_id x ρ args hargs]
    exact Fwd.of_lock (execS_id ext N _ _ _ (.call p args) _ s s'
      (fun z hz => hargs z (by simpa [Stmt.names] using hz)) h)
  | .window y rhs, s, s', hok, h, _ => by
    simp only [Rw.reidxOkS, Bool.and_eq_true, bne_iff_ne, ne_eq] at hok
    have hr := Rw.notIn_iff.1 hok.2
    simp only [Rw.reidxS]
    rw [reidxE_id x ρ rhs hr]
    exact Fwd.of_lock (execS_id ext N _ _ _ (.window y rhs) _ s s' (names_cons_ne hok.1 hr) h)
theorem execL_reidx (hsyn : ReidxSyn ρ.idx f) (G : ReidxGeom ds ds' m m' f D) :
    ∀ (ss : List Stmt) (s s' : State V), Rw.reidxOkL x ss = true →
    Rel (fun y => y = x) N (CellsRel ds ds' m m' f D) { buf := N, off := 0, dims := ds }
      { buf := N, off := 0, dims := ds' } s s' →
    AccIn N D (Fp.evL ext ss s) →
    Fwd (Rel (fun y => y = x) N (CellsRel ds ds' m m' f D) { buf := N, off := 0, dims := ds }
        { buf := N, off := 0, dims := ds' })
      (execL ext ss s) (execL ext (Rw.reidxL x ρ ss) s')
  | [], s, s', _, h, _ => by
    simp only [Rw.reidxL, execL]; exact Fwd.ofPure h
  | a :: r, s, s', hok, h, hacc => by
    simp only [Rw.reidxOkL, Bool.and_eq_true] at hok
    simp only [Fp.evL] at hacc
    obtain ⟨h1, h2⟩ := accIn_append.1 hacc
    simp only [Rw.reidxL, execL]
    exact Fwd.bind (execS_reidx hsyn G a s s' hok.1 h h1) (fun s1 s1' hs1 _ hr => by
      rw [hs1] at h2
      exact execL_reidx hsyn G r s1 s1' hok.2 hr h2)
end

end

end Exo.Reidx
