/-
  The output of the inliner's substitution matches the body it came from (`matchL θ body (substL θ body)`),
  provided the names bound in the body are fresh where they are bound.
-/
import ExoModel.Lemmas.InlineNorm
import ExoModel.ReplaceCheck
set_option linter.unusedVariables false
namespace Exo.Inline
open Exo

theorem permTerms_refl : ∀ (l : List (Int × Expr)), permTerms l l = true
  | [] => rfl
  | (c, t) :: r => by
    simp only [permTerms, removeTerm, beq_self_eq_true, eqE_refl, Bool.and_self, if_true]
    exact permTerms_refl r

theorem lfEq_refl (a : LF) : lfEq a a = true := by
  simp [lfEq, permTerms_refl]

theorem eqC_refl : ∀ (a : Expr), eqC a a = true
  | .binop o a b => by
    unfold eqC
    cases h : ineqDiff o a b with
    | some d => simp [lfEq_refl]
    | none =>
      simp only []
      split
      · exact lfEq_refl _
      · split
        · simp [eqC_refl a, eqC_refl b]
        · exact lfEq_refl _
  | .read _ _ => by unfold eqC; exact lfEq_refl _
  | .lit _ => by unfold eqC; exact lfEq_refl _
  | .usub _ => by unfold eqC; exact lfEq_refl _
  | .extern _ _ => by unfold eqC; exact lfEq_refl _
  | .win _ _ => by unfold eqC; exact lfEq_refl _
  | .stride _ _ => by unfold eqC; exact lfEq_refl _
  | .readcfg _ _ => by unfold eqC; exact lfEq_refl _

theorem matchC_of_subst {θ : Subst} {e e' : Expr} (h : substC θ e = some e') : matchC θ e e' = true := by
  simp [matchC, h, eqC_refl]

theorem matchCs_of_subst {θ : Subst} : ∀ {es es' : List Expr}, substCs θ es = some es' →
    matchCs θ es es' = true
  | [], es', h => by simp only [substCs, Option.some.injEq] at h; subst h; rfl
  | e :: r, es', h => by
    simp only [substCs] at h
    split at h
    · rename_i e' r' he hr
      cases h
      simp [matchCs, matchC_of_subst he, matchCs_of_subst hr]
    · cases h

theorem bufName_lookup {θ : Subst} {x y : Sym} (h : bufName θ x = some y) :
    lookupSym x θ = some (.buf y none) := by
  simp only [bufName] at h
  split at h
  · rename_i y' hl; cases h; exact hl
  · cases h

theorem matchAcc_of_subst {θ : Subst} {x y : Sym} {idx idx' : List Expr}
    (hb : bufName θ x = some y) (hi : substCs θ idx = some idx') : matchAcc θ x idx y idx' = true := by
  simp [matchAcc, bufName_lookup hb, matchCs_of_subst hi]

mutual
theorem matchD_of_subst {θ : Subst} : ∀ (e e' : Expr), substD θ e = some e' → matchD θ e e' = true
  | .read x idx, e', h => by
    simp only [substD] at h
    split at h
    · rename_i y idx' hb hi
      cases h
      simp only [matchD]
      exact matchAcc_of_subst hb hi
    · cases h
  | .lit (.data n d), e', h => by simp only [substD, Option.some.injEq] at h; subst h; simp [matchD]
  | .lit (.int n), e', h => by simp only [substD, Option.some.injEq] at h; subst h; simp [matchD]
  | .lit (.bool _), e', h => by simp [substD] at h
  | .usub a, e', h => by
    simp only [substD] at h
    split at h
    · rename_i a' ha; cases h; simp only [matchD]; exact matchD_of_subst a a' ha
    · cases h
  | .binop op a b, e', h => by
    simp only [substD] at h
    split at h
    · rename_i a' b' ha hb
      cases h
      simp [matchD, matchD_of_subst a a' ha, matchD_of_subst b b' hb]
    · cases h
  | .extern f as, e', h => by
    simp only [substD] at h
    split at h
    · rename_i as' has; cases h; simp [matchD, matchDs_of_subst as as' has]
    · cases h
  | .readcfg c f, e', h => by simp only [substD, Option.some.injEq] at h; subst h; simp [matchD]
  | .win _ _, e', h => by simp [substD] at h
  | .stride _ _, e', h => by simp [substD] at h
theorem matchDs_of_subst {θ : Subst} : ∀ (es es' : List Expr), substDs θ es = some es' →
    matchDs θ es es' = true
  | [], es', h => by simp only [substDs, Option.some.injEq] at h; subst h; rfl
  | e :: r, es', h => by
    simp only [substDs] at h
    split at h
    · rename_i e' r' he hr
      cases h
      simp [matchDs, matchD_of_subst e e' he, matchDs_of_subst r r' hr]
    · cases h
end

theorem matchWs_of_subst {θ : Subst} : ∀ {ws ws' : List WAcc}, substWs θ ws = some ws' →
    matchWs θ ws ws' = true
  | [], ws', h => by simp only [substWs, Option.some.injEq] at h; subst h; rfl
  | w :: r, ws', h => by
    simp only [substWs] at h
    split at h
    · rename_i w' r' hw hr
      cases h
      have hw' : matchW θ w w' = true := by
        cases w with
        | interval a b =>
          simp only [substW] at hw
          split at hw
          · rename_i a' b' ha hb; cases hw; simp [matchW, matchC_of_subst ha, matchC_of_subst hb]
          · cases hw
        | point a =>
          simp only [substW] at hw
          split at hw
          · rename_i a' ha; cases hw; simp [matchW, matchC_of_subst ha]
          · cases hw
      simp [matchWs, hw', matchWs_of_subst hr]
    · cases h

theorem matchV_of_subst {θ : Subst} {e e' : Expr} (h : substV θ e = some e') : matchV θ e e' = true := by
  unfold substV at h
  split at h
  · rename_i x idx
    split at h
    · rename_i y idx' hb hi
      cases h
      cases idx with
      | nil =>
        simp only [substCs, Option.some.injEq] at hi
        subst hi
        simp [matchV, bufName_lookup hb]
      | cons i is =>
        simp only [substCs] at hi
        split at hi
        · rename_i i' is' h1 h2
          cases hi
          simp only [matchV]
          exact matchAcc_of_subst hb (by simp [substCs, h1, h2])
        · cases hi
    · cases h
  · rename_i x acc
    split at h
    · rename_i y acc' hb hw
      cases h
      simp [matchV, bufName_lookup hb, matchWs_of_subst hw]
    · cases h
  · cases h

theorem matchArgs_of_subst {θ : Subst} : ∀ (fs : List FnArg) (as as' : List Expr),
    substArgs θ fs as = some as' → matchArgs θ fs as as' = true
  | [], [], as', h => by simp only [substArgs, Option.some.injEq] at h; subst h; rfl
  | [], _ :: _, _, h => by simp [substArgs] at h
  | ⟨x, .ctrl k⟩ :: fs, [], _, h => by simp [substArgs] at h
  | ⟨x, .scalar⟩ :: fs, [], _, h => by simp [substArgs] at h
  | ⟨x, .tensor _ _⟩ :: fs, [], _, h => by simp [substArgs] at h
  | ⟨x, .ctrl k⟩ :: fs, a :: as, as', h => by
    simp only [substArgs] at h
    split at h
    · rename_i a' r' ha hr
      cases h
      simp [matchArgs, matchC_of_subst ha, matchArgs_of_subst fs as r' hr]
    · cases h
  | ⟨x, .scalar⟩ :: fs, a :: as, as', h => by
    simp only [substArgs] at h
    split at h
    · rename_i a' r' ha hr
      cases h
      simp [matchArgs, matchV_of_subst ha, matchArgs_of_subst fs as r' hr]
    · cases h
  | ⟨x, .tensor _ _⟩ :: fs, a :: as, as', h => by
    simp only [substArgs] at h
    split at h
    · rename_i a' r' ha hr
      cases h
      simp [matchArgs, matchV_of_subst ha, matchArgs_of_subst fs as r' hr]
    · cases h

mutual
theorem matchS_of_subst : ∀ (s s' : Stmt) (θ θ1 θ2 : Subst), substS θ s = some (s', θ1) →
    bindersFreshS θ s = some θ2 → matchS θ s s' = some θ1 ∧ θ2 = θ1
  | .assign x idx rhs, s', θ, θ1, θ2, hs, hb => by
    simp only [substS] at hs
    split at hs
    · rename_i y idx' rhs' h1 h2 h3
      cases hs
      simp only [bindersFreshS, Option.some.injEq] at hb
      subst hb
      simp [matchS, matchD_of_subst rhs rhs' h3, matchAcc_of_subst h1 h2]
    · cases hs
  | .reduce x idx rhs, s', θ, θ1, θ2, hs, hb => by
    simp only [substS] at hs
    split at hs
    · rename_i y idx' rhs' h1 h2 h3
      cases hs
      simp only [bindersFreshS, Option.some.injEq] at hb
      subst hb
      simp [matchS, matchD_of_subst rhs rhs' h3, matchAcc_of_subst h1 h2]
    · cases hs
  | .writecfg c f rhs isData, s', θ, θ1, θ2, hs, hb => by
    simp only [substS] at hs
    split at hs
    · rename_i rhs' h1
      cases hs
      simp only [bindersFreshS, Option.some.injEq] at hb
      subst hb
      have : matchRhs θ isData rhs rhs' = true := by
        cases isData with
        | true => simp only [if_true] at h1; simp [matchRhs, matchD_of_subst rhs rhs' h1]
        | false => simp only [Bool.false_eq_true, if_false] at h1; simp [matchRhs, matchC_of_subst h1]
      simp [matchS, this]
    · cases hs
  | .pass, s', θ, θ1, θ2, hs, hb => by
    simp only [substS, Option.some.injEq, Prod.mk.injEq] at hs
    simp only [bindersFreshS, Option.some.injEq] at hb
    obtain ⟨rfl, rfl⟩ := hs
    subst hb
    simp [matchS]
  | .ite c t e, s', θ, θ1, θ2, hs, hb => by
    simp only [substS] at hs
    split at hs
    · rename_i c' t' e' h1 h2 h3
      cases hs
      simp only [bindersFreshS] at hb
      split at hb
      · rename_i hc
        simp only [Bool.and_eq_true] at hc
        cases hb
        obtain ⟨θt, ht⟩ := matchL_of_subst t t' θ h2 hc.1
        obtain ⟨θe, he⟩ := matchL_of_subst e e' θ h3 hc.2
        simp [matchS, matchC_of_subst h1, ht, he]
      · cases hb
    · cases hs
  | .loop i lo hi body par, s', θ, θ1, θ2, hs, hb => by
    simp only [substS] at hs
    split at hs
    · rename_i lo' hi' body' h1 h2 h3
      cases hs
      simp only [bindersFreshS] at hb
      split at hb
      · rename_i hc
        simp only [Bool.and_eq_true] at hc
        cases hb
        obtain ⟨θb, hbm⟩ := matchL_of_subst body body' _ h3 hc.2
        simp [matchS, matchC_of_subst h1, matchC_of_subst h2, hc.1, hbm]
      · cases hb
    · cases hs
  | .alloc x shape, s', θ, θ1, θ2, hs, hb => by
    simp only [substS] at hs
    split at hs
    · rename_i shape' h1
      cases hs
      simp only [bindersFreshS] at hb
      split at hb
      · rename_i hc
        cases hb
        simp [matchS, matchCs_of_subst h1, hc]
      · cases hb
    · cases hs
  | .free x, s', θ, θ1, θ2, hs, hb => by
    simp only [substS, Option.some.injEq, Prod.mk.injEq] at hs
    simp only [bindersFreshS, Option.some.injEq] at hb
    obtain ⟨rfl, rfl⟩ := hs
    subst hb
    simp [matchS]
  | .window x rhs, s', θ, θ1, θ2, hs, hb => by
    simp only [substS] at hs
    split at hs
    · rename_i rhs' h1
      cases hs
      simp only [bindersFreshS] at hb
      split at hb
      · rename_i hc
        cases hb
        simp [matchS, matchV_of_subst h1, hc]
      · cases hb
    · cases hs
  | .call g as, s', θ, θ1, θ2, hs, hb => by
    simp only [substS] at hs
    split at hs
    · rename_i as' h1
      cases hs
      simp only [bindersFreshS, Option.some.injEq] at hb
      subst hb
      simp [matchS, eqP_refl, matchArgs_of_subst g.args as as' h1]
    · cases hs
theorem matchL_of_subst : ∀ (ss ss' : List Stmt) (θ : Subst), substL θ ss = some ss' →
    bindersFreshL θ ss = true → ∃ θ', matchL θ ss ss' = some θ'
  | [], ss', θ, hs, _ => by
    simp only [substL, Option.some.injEq] at hs; subst hs; exact ⟨θ, rfl⟩
  | s :: r, ss', θ, hs, hb => by
    simp only [substL] at hs
    split at hs
    · rename_i s' θ1 h1
      split at hs
      · rename_i r' h2
        cases hs
        simp only [bindersFreshL] at hb
        split at hb
        · rename_i θ2 h3
          obtain ⟨hm, rfl⟩ := matchS_of_subst s s' θ θ1 θ2 h1 h3
          obtain ⟨θ', hr⟩ := matchL_of_subst r r' θ2 h2 hb
          exact ⟨θ', by simp [matchL, hm, hr]⟩
        · cases hb
      · cases hs
    · cases hs
end

end Exo.Inline
