/-
  Soundness of `bind_expr` (`Rw.bindExpr t e s'`, the shape `DoBindExpr` builds for ONE cursor):

      s ; r      ⟶      t : R ; t = e ; s' ; r

  where `s'` is `s` with some data-position occurrences of `e` replaced by `t` (`Rw.replS`).

  * `exprEq_nil_eq`          : alpha comparison under the empty renaming is syntactic equality
  * `replE_ind`              : induction principle following the cases of `Rw.replE`
  * `replE_lock`             : the evaluation lemma (general cell relation `R`; `replE_lock_eq` is
                               the instance `R = Eq` from the task statement)
  * `replE_ok`               : if an occurrence was replaced, `e` is a sub-expression that the
                               original evaluates: `evalD s a` succeeds ⇒ `evalD s e` succeeds
  * `bind_expr_lock`         : original and rewritten block run in LOCK STEP (both fail, or both
                               succeed with related states) — under the guard
  * `bind_expr_refW`         : the rewrite as `BlockRefW`
  * `Rw.bindExprChecked`, `Rw.bindExprChecked_sound`, `bind_expr_anywhere`
  * non-vacuity example and `bind_expr_call_unsound` (the excluded `call` case is a genuine
    defect: a callee that writes its scalar argument writes `t` instead of the buffer)
-/
import ExoModel.Lemmas.StorageLocal
import ExoModel.DataLaws

set_option linter.unusedSectionVars false
set_option linter.unusedVariables false

/-! ### `exprEq []` is syntactic equality -/
namespace Exo

theorem symEq_nil_eq {a b : Sym} (h : Rw.symEq [] a b = true) : a = b := by
  simpa [Rw.symEq] using h

theorem exprEq_nil_all :
    (∀ a b : Expr, Rw.exprEq [] a b = true → a = b) ∧
    (∀ a b : List WAcc, Rw.waccsEq [] a b = true → a = b) ∧
    (∀ a b : WAcc, Rw.waccEq [] a b = true → a = b) ∧
    (∀ a b : List Expr, Rw.exprsEq [] a b = true → a = b) := by
  refine Rw.exprEq.mutual_induct
    (fun a b => Rw.exprEq [] a b = true → a = b)
    (fun a b => Rw.waccsEq [] a b = true → a = b)
    (fun a b => Rw.waccEq [] a b = true → a = b)
    (fun a b => Rw.exprsEq [] a b = true → a = b)
    ?_ ?_ ?_ ?_ ?_ ?_ ?_ ?_ ?_ ?_ ?_ ?_ ?_ ?_ ?_ ?_ ?_ ?_
  · intro x i y j ih h
    simp only [Rw.exprEq, Bool.and_eq_true] at h
    rw [symEq_nil_eq h.1, ih h.2]
  · intro a b h
    simp only [Rw.exprEq, beq_iff_eq] at h
    rw [h]
  · intro a b ih h
    simp only [Rw.exprEq] at h
    rw [ih h]
  · intro o a b o' a' b' ih1 ih2 h
    simp only [Rw.exprEq, Bool.and_eq_true, beq_iff_eq] at h
    rw [h.1.1, ih1 h.1.2, ih2 h.2]
  · intro f a g b ih h
    simp only [Rw.exprEq, Bool.and_eq_true, beq_iff_eq] at h
    rw [h.1, ih h.2]
  · intro x a y b ih h
    simp only [Rw.exprEq, Bool.and_eq_true] at h
    rw [symEq_nil_eq h.1, ih h.2]
  · intro x d y d' h
    simp only [Rw.exprEq, Bool.and_eq_true, beq_iff_eq] at h
    rw [symEq_nil_eq h.1, h.2]
  · intro c f c' f' h
    simp only [Rw.exprEq, Bool.and_eq_true, beq_iff_eq] at h
    rw [h.1, h.2]
  · intro x x1 h1 h2 h3 h4 h5 h6 h7 h8 h
    rw [Rw.exprEq.eq_9] at h
    · cases h
    all_goals assumption
  · intro _; rfl
  · intro a r b r' ih1 ih2 h
    simp only [Rw.waccsEq, Bool.and_eq_true] at h
    rw [ih1 h.1, ih2 h.2]
  · intro x x1 h1 h2 h
    rw [Rw.waccsEq.eq_3] at h
    · cases h
    all_goals assumption
  · intro a b ih h
    simp only [Rw.waccEq] at h
    rw [ih h]
  · intro a b a' b' ih1 ih2 h
    simp only [Rw.waccEq, Bool.and_eq_true] at h
    rw [ih1 h.1, ih2 h.2]
  · intro x x1 h1 h2 h
    rw [Rw.waccEq.eq_3] at h
    · cases h
    all_goals assumption
  · intro _; rfl
  · intro a r b r' ih1 ih2 h
    simp only [Rw.exprsEq, Bool.and_eq_true] at h
    rw [ih1 h.1, ih2 h.2]
  · intro x x1 h1 h2 h
    rw [Rw.exprsEq.eq_3] at h
    · cases h
    all_goals assumption

/-- alpha comparison under the empty renaming is syntactic equality -/
theorem exprEq_nil_eq {a b : Expr} (h : Rw.exprEq [] a b = true) : a = b :=
  exprEq_nil_all.1 a b h

theorem waccsEq_nil_eq {a b : List WAcc} (h : Rw.waccsEq [] a b = true) : a = b :=
  exprEq_nil_all.2.1 a b h

theorem waccEq_nil_eq {a b : WAcc} (h : Rw.waccEq [] a b = true) : a = b :=
  exprEq_nil_all.2.2.1 a b h

theorem exprsEq_nil_eq {a b : List Expr} (h : Rw.exprsEq [] a b = true) : a = b :=
  exprEq_nil_all.2.2.2 a b h

/-! ### induction following the cases of `replE` -/

/-- to prove `P a a'` whenever `replE t e a a' = true`: the replaced occurrence, the unchanged
    expression, and the three congruence cases -/
theorem replE_ind {t : Sym} {e : Expr} {P : Expr → Expr → Prop}
    {Ps : List Expr → List Expr → Prop}
    (hit : P e (.read t []))
    (same : ∀ a, P a a)
    (usub : ∀ a a', P a a' → P (.usub a) (.usub a'))
    (binop : ∀ o a b a' b', P a a' → P b b' → P (.binop o a b) (.binop o a' b'))
    (extern : ∀ f xs ys, Ps xs ys → P (.extern f xs) (.extern f ys))
    (nil : Ps [] [])
    (cons : ∀ a a' r r', P a a' → Ps r r' → Ps (a :: r) (a' :: r')) :
    (∀ a a', Rw.replE t e a a' = true → P a a') ∧
    (∀ xs ys, Rw.replEs t e xs ys = true → Ps xs ys) := by
  refine Rw.replE.mutual_induct
    (fun a a' => Rw.replE t e a a' = true → P a a')
    (fun xs ys => Rw.replEs t e xs ys = true → Ps xs ys)
    ?_ ?_ ?_ ?_ ?_ ?_ ?_ ?_
  · intro a a' ih h
    simp only [Rw.replE] at h
    exact usub a a' (ih h)
  · intro o a b o' a' b' ih1 ih2 h
    simp only [Rw.replE, Bool.and_eq_true, beq_iff_eq] at h
    obtain ⟨⟨ho, h1⟩, h2⟩ := h
    subst ho
    exact binop o a b a' b' (ih1 h1) (ih2 h2)
  · intro f xs g ys ih h
    simp only [Rw.replE, Bool.and_eq_true, beq_iff_eq] at h
    obtain ⟨hf, h1⟩ := h
    subst hf
    exact extern f xs ys (ih h1)
  · intro a y h
    rw [Rw.replE.eq_4] at h
    simp only [Bool.or_eq_true, Bool.and_eq_true, beq_iff_eq] at h
    rcases h with ⟨hy, ha⟩ | ha
    · rw [hy, exprEq_nil_eq ha]; exact hit
    · rw [exprEq_nil_eq ha]; exact same _
  · intro a a' h1 h2 h3 h4 h
    rw [Rw.replE.eq_5] at h
    · rw [exprEq_nil_eq h]; exact same _
    all_goals assumption
  · intro _; exact nil
  · intro a r a' r' ih1 ih2 h
    simp only [Rw.replEs, Bool.and_eq_true] at h
    exact cons a a' r r' (ih1 h.1) (ih2 h.2)
  · intro x x1 h1 h2 h
    rw [Rw.replEs.eq_3] at h
    · cases h
    all_goals assumption

end Exo

/-! ### evaluation of the rewritten expression -/
namespace Exo

theorem except_bind_ok_inv {α β : Type} {r : Except Err α} {f : α → Except Err β} {b : β}
    (h : (r >>= f) = .ok b) : ∃ a, r = .ok a ∧ f a = .ok b := by
  cases r with
  | error e => simp [bind, Except.bind] at h
  | ok a => exact ⟨a, rfl, h⟩

variable {V : Type} {R : Option V → Option V → Prop} {N k : Nat} {X : Sym → Prop}
  {s s' : State V}

section
variable [DataAlg V] (ext : String → List V → V)

/-- **the evaluation lemma.**  `s'` is `s` with extra buffers and extra bindings for the names of
    `X` (cells related by `R`); in `s'` the name `t` reads a value `v'` related to the value `v` of
    `e` in `s`.  Then an expression `a` (not mentioning a name of `X`) and the expression `a'`
    obtained by replacing occurrences of `e` by `t` evaluate in lock step. -/
theorem replE_lock_all (hR : CellRel R) (h : Sim R N k X s s') {t : Sym} {e : Expr}
    {v v' : Option V} (he : evalD ext s e = .ok v) (ht : evalD ext s' (.read t []) = .ok v')
    (hv : R v v') :
    (∀ a a', Rw.replE t e a a' = true → (∀ y ∈ a.names, ¬ X y) →
      Lock R (evalD ext s a) (evalD ext s' a')) ∧
    (∀ xs ys, Rw.replEs t e xs ys = true → (∀ y ∈ namesEs xs, ¬ X y) →
      Lock (Forall₂ R) (evalDs ext s xs) (evalDs ext s' ys)) := by
  refine replE_ind
    (P := fun a a' => (∀ y ∈ a.names, ¬ X y) → Lock R (evalD ext s a) (evalD ext s' a'))
    (Ps := fun xs ys => (∀ y ∈ namesEs xs, ¬ X y) →
      Lock (Forall₂ R) (evalDs ext s xs) (evalDs ext s' ys))
    ?_ ?_ ?_ ?_ ?_ ?_ ?_
  · intro _
    rw [he, ht]; exact hv
  · intro a hn
    exact evalD_sim ext hR h a hn
  · intro a a' ih hn
    simp only [evalD]
    exact Lock.bind (ih (fun y hy => hn y (by simpa [Expr.names] using hy)))
      (fun w w' _ _ hw => Lock.ofPure (hR.map _ _ _ hw))
  · intro o a b a' b' ih1 ih2 hn
    simp only [evalD]
    exact Lock.bind (ih1 (fun y hy => hn y (by simp [Expr.names, hy])))
      (fun x x' _ _ hx => Lock.bind (ih2 (fun y hy => hn y (by simp [Expr.names, hy])))
        (fun y y' _ _ hy => dataOp_sim hR o hx hy))
  · intro f xs ys ih hn
    simp only [evalD]
    exact Lock.bind (ih (fun y hy => hn y (by simpa [Expr.names] using hy)))
      (fun vs vs' _ _ hvs => Lock.ofPure (hR.allSome _ _ _ hvs))
  · intro _
    simp only [evalDs]; exact Lock.ofPure Forall₂.nil
  · intro a a' r r' ih1 ih2 hn
    simp only [evalDs]
    exact Lock.bind (ih1 (fun y hy => hn y (by simp [namesEs, hy])))
      (fun w w' _ _ hw => Lock.bind (ih2 (fun y hy => hn y (by simp [namesEs, hy])))
        (fun vs vs' _ _ hvs => Lock.ofPure (Forall₂.cons hw hvs)))

theorem replE_lock (hR : CellRel R) (h : Sim R N k X s s') {t : Sym} {e : Expr}
    {v v' : Option V} (he : evalD ext s e = .ok v) (ht : evalD ext s' (.read t []) = .ok v')
    (hv : R v v') {a a' : Expr} (hre : Rw.replE t e a a' = true) (hn : ∀ y ∈ a.names, ¬ X y) :
    Lock R (evalD ext s a) (evalD ext s' a') :=
  (replE_lock_all ext hR h he ht hv).1 a a' hre hn

/-- the instance of the task statement: same cells, one extra buffer bound to `t`, which holds the
    value of `e` — the rewritten expression evaluates exactly like the original -/
theorem replE_lock_eq {t : Sym} {e : Expr} (h : Sim Eq N 1 (fun y => y = t) s s') {v : Option V}
    (he : evalD ext s e = .ok v) (ht : evalD ext s' (.read t []) = .ok v)
    {a a' : Expr} (hre : Rw.replE t e a a' = true) (hn : ∀ y ∈ a.names, y ≠ t) :
    Lock Eq (evalD ext s a) (evalD ext s' a') :=
  replE_lock ext CellRel.eq h he ht rfl hre hn

/-- if an occurrence was replaced (`t` is mentioned in `a'` but not in `a`), `e` is a data
    sub-expression of `a` that every successful evaluation of `a` evaluates -/
theorem replE_ok_all {t : Sym} {e : Expr} (s : State V) :
    (∀ a a', Rw.replE t e a a' = true → t ∉ a.names → t ∈ a'.names →
      ∀ w, evalD ext s a = .ok w → ∃ v, evalD ext s e = .ok v) ∧
    (∀ xs ys, Rw.replEs t e xs ys = true → t ∉ namesEs xs → t ∈ namesEs ys →
      ∀ ws, evalDs ext s xs = .ok ws → ∃ v, evalD ext s e = .ok v) := by
  refine replE_ind
    (P := fun a a' => t ∉ a.names → t ∈ a'.names →
      ∀ w, evalD ext s a = .ok w → ∃ v, evalD ext s e = .ok v)
    (Ps := fun xs ys => t ∉ namesEs xs → t ∈ namesEs ys →
      ∀ ws, evalDs ext s xs = .ok ws → ∃ v, evalD ext s e = .ok v)
    ?_ ?_ ?_ ?_ ?_ ?_ ?_
  · intro _ _ w hw
    exact ⟨w, hw⟩
  · intro a h1 h2
    exact absurd h2 h1
  · intro a a' ih h1 h2 w hw
    simp only [Expr.names] at h1 h2
    simp only [evalD] at hw
    obtain ⟨w0, hw0, _⟩ := except_bind_ok_inv hw
    exact ih h1 h2 w0 hw0
  · intro o a b a' b' ih1 ih2 h1 h2 w hw
    simp only [Expr.names, List.mem_append, not_or] at h1 h2
    simp only [evalD] at hw
    obtain ⟨wa, hwa, hw⟩ := except_bind_ok_inv hw
    obtain ⟨wb, hwb, _⟩ := except_bind_ok_inv hw
    rcases h2 with h2 | h2
    · exact ih1 h1.1 h2 wa hwa
    · exact ih2 h1.2 h2 wb hwb
  · intro f xs ys ih h1 h2 w hw
    simp only [Expr.names] at h1 h2
    simp only [evalD] at hw
    obtain ⟨ws, hws, _⟩ := except_bind_ok_inv hw
    exact ih h1 h2 ws hws
  · intro _ h2
    simp [namesEs] at h2
  · intro a a' r r' ih1 ih2 h1 h2 ws hws
    simp only [namesEs, List.mem_append, not_or] at h1 h2
    simp only [evalDs] at hws
    obtain ⟨wa, hwa, hws⟩ := except_bind_ok_inv hws
    obtain ⟨wr, hwr, _⟩ := except_bind_ok_inv hws
    rcases h2 with h2 | h2
    · exact ih1 h1.1 h2 wa hwa
    · exact ih2 h1.2 h2 wr hwr

theorem replE_ok {t : Sym} {e : Expr} (s : State V) {a a' : Expr}
    (hre : Rw.replE t e a a' = true) (h1 : t ∉ a.names) (h2 : t ∈ a'.names) {w : Option V}
    (hw : evalD ext s a = .ok w) : ∃ v, evalD ext s e = .ok v :=
  (replE_ok_all ext s).1 a a' hre h1 h2 w hw

end

end Exo

/-! ### statements -/
namespace Exo.Rw
open Exo

/-- the statements `bind_expr` is proved for.  NOT `call`: `replS` lets `bind_expr` replace a call
    argument `x` (a bare scalar name, which denotes the BUFFER) by `t`; a callee that writes its
    argument then writes `t` instead of `x` — a genuine defect of the real code
    (`bind_expr_call_unsound` below).  A control `writecfg` has no data sub-expression. -/
def bindable : Stmt → Bool
  | .assign _ _ _ => true
  | .reduce _ _ _ => true
  | .writecfg _ _ _ d => d
  | _ => false

end Exo.Rw

namespace Exo
variable {V : Type} {R : Option V → Option V → Prop} {N k : Nat} {X : Sym → Prop}
  {s s' : State V}

section
variable [DataAlg V] (ext : String → List V → V)

/-- the statement and its rewritten form run in lock step -/
theorem replS_lock (hR : CellRel R) (h : Sim R N k X s s') {t : Sym} {e : Expr}
    {v v' : Option V} (he : evalD ext s e = .ok v) (ht : evalD ext s' (.read t []) = .ok v')
    (hv : R v v') {st st' : Stmt} (hb : Rw.bindable st = true)
    (hrepl : Rw.replS t e st st' = true) (hn : ∀ y ∈ st.names, ¬ X y) :
    Lock (Sim R N k X) (execS ext st s) (execS ext st' s') := by
  unfold Rw.replS at hrepl
  split at hrepl
  · rename_i x i a x' i' a'
    simp only [Bool.and_eq_true, beq_iff_eq] at hrepl
    obtain ⟨⟨hx, hi⟩, hre⟩ := hrepl
    subst hx
    have hi' := exprsEq_nil_eq hi
    subst hi'
    simp only [execS]
    exact Lock.bind
      (replE_lock ext hR h he ht hv hre (fun y hy => hn y (by simp [Stmt.names, hy])))
      (fun w w' _ _ hw => writeCell_sim hR h x i (hn x (by simp [Stmt.names]))
        (fun y hy => hn y (by simp [Stmt.names, hy])) (fun _ _ _ => hw))
  · rename_i x i a x' i' a'
    simp only [Bool.and_eq_true, beq_iff_eq] at hrepl
    obtain ⟨⟨hx, hi⟩, hre⟩ := hrepl
    subst hx
    have hi' := exprsEq_nil_eq hi
    subst hi'
    simp only [execS]
    exact Lock.bind
      (replE_lock ext hR h he ht hv hre (fun y hy => hn y (by simp [Stmt.names, hy])))
      (fun w w' _ _ hw => writeCell_sim hR h x i (hn x (by simp [Stmt.names]))
        (fun y hy => hn y (by simp [Stmt.names, hy]))
        (fun a0 a0' ha => hR.lift2 _ _ _ _ _ ha hw))
  · rename_i c f a d c' f' a' d'
    simp only [Bool.and_eq_true, beq_iff_eq] at hrepl
    obtain ⟨⟨⟨hc, hf⟩, hd⟩, hre⟩ := hrepl
    subst hc hf hd
    have hd' : d = true := hb
    subst hd'
    simp only [execS, ↓reduceIte]
    exact Lock.bind
      (replE_lock ext hR h he ht hv hre (fun y hy => hn y (by simpa [Stmt.names] using hy)))
      (fun w w' _ _ hw => Lock.ofPure
        (h.cfgWrite (c, f) (show CfgRel R (.data w) (.data w') from hw)))
  · simp [Rw.bindable] at hb
  · cases hrepl

/-- if `t` is mentioned in the rewritten statement, every successful run of the original
    statement evaluates `e` (in the state before the statement) -/
theorem replS_ok {t : Sym} {e : Expr} {st st' : Stmt} {σ σ1 : State V}
    (hb : Rw.bindable st = true) (hrepl : Rw.replS t e st st' = true)
    (hnt : t ∉ st.names) (hmt : t ∈ st'.names) (hex : execS ext st σ = .ok σ1) :
    ∃ v, evalD ext σ e = .ok v := by
  unfold Rw.replS at hrepl
  split at hrepl
  · rename_i x i a x' i' a'
    simp only [Bool.and_eq_true, beq_iff_eq] at hrepl
    obtain ⟨⟨hx, hi⟩, hre⟩ := hrepl
    subst hx
    have hi' := exprsEq_nil_eq hi
    subst hi'
    simp only [Stmt.names, List.mem_cons, List.mem_append, not_or] at hnt hmt
    simp only [execS] at hex
    obtain ⟨w, hw, _⟩ := except_bind_ok_inv hex
    rcases hmt with hm | hm | hm
    · exact absurd hm hnt.1
    · exact absurd hm hnt.2.1
    · exact replE_ok ext σ hre hnt.2.2 hm hw
  · rename_i x i a x' i' a'
    simp only [Bool.and_eq_true, beq_iff_eq] at hrepl
    obtain ⟨⟨hx, hi⟩, hre⟩ := hrepl
    subst hx
    have hi' := exprsEq_nil_eq hi
    subst hi'
    simp only [Stmt.names, List.mem_cons, List.mem_append, not_or] at hnt hmt
    simp only [execS] at hex
    obtain ⟨w, hw, _⟩ := except_bind_ok_inv hex
    rcases hmt with hm | hm | hm
    · exact absurd hm hnt.1
    · exact absurd hm hnt.2.1
    · exact replE_ok ext σ hre hnt.2.2 hm hw
  · rename_i c f a d c' f' a' d'
    simp only [Bool.and_eq_true, beq_iff_eq] at hrepl
    obtain ⟨⟨⟨hc, hf⟩, hd⟩, hre⟩ := hrepl
    subst hc hf hd
    have hd' : d = true := hb
    subst hd'
    simp only [Stmt.names] at hnt hmt
    simp only [execS, ↓reduceIte] at hex
    obtain ⟨w, hw, _⟩ := except_bind_ok_inv hex
    exact replE_ok ext σ hre hnt hmt hw
  · simp [Rw.bindable] at hb
  · cases hrepl

end

/-! ### the fresh scalar buffer -/

/-- the state after `t : R` (a one-cell buffer holding `w`, bound to `t`) -/
def State.pushScalar (σ : State V) (t : Sym) (w : Option V) : State V :=
  { σ with heap := σ.heap ++ [[w]],
           views := (t, { buf := σ.heap.length, off := 0, dims := [] }) :: σ.views }

theorem modify_append_last {α : Type} (l : List α) (a : α) (f : α → α) :
    (l ++ [a]).modify l.length f = l ++ [f a] := by
  induction l with
  | nil => rfl
  | cons x r ih => simp only [List.cons_append, List.length_cons, List.modify_succ_cons, ih]

theorem getElem?_append_last {α : Type} (l : List α) (a : α) : (l ++ [a])[l.length]? = some a := by
  rw [List.getElem?_append_right (Nat.le_refl _)]; simp

theorem cellOf_pushScalar (hp : List (List (Option V))) (w : Option V) :
    cellOf (hp ++ [[w]]) { buf := hp.length, off := 0, dims := [] } [] = .ok (hp.length, 0) := by
  simp [cellOf, viewOffset, bind, Except.bind, pure, Except.pure]

theorem heapGet_pushScalar (hp : List (List (Option V))) (w : Option V) :
    heapGet (hp ++ [[w]]) (hp.length, 0) = w := by
  simp [heapGet]

theorem heapSet_pushScalar (hp : List (List (Option V))) (w w' : Option V) :
    heapSet (hp ++ [[w]]) (hp.length, 0) w' = hp ++ [[w']] := by
  simp [heapSet, modify_append_last]

theorem lookupSym_pushScalar (σ : State V) (t : Sym) (w : Option V) :
    lookupSym t (σ.pushScalar t w).views = some { buf := σ.heap.length, off := 0, dims := [] } := by
  simp [State.pushScalar, lookupSym]

theorem writeCell_pushScalar (σ : State V) (t : Sym) (w0 : Option V) (f : Option V → Option V) :
    writeCell (σ.pushScalar t w0) t [] f = .ok (σ.pushScalar t (f w0)) := by
  unfold writeCell
  rw [lookupSym_pushScalar]
  show (do
      let is ← evalCs (σ.pushScalar t w0) []
      let c ← cellOf (σ.heap ++ [[w0]]) { buf := σ.heap.length, off := 0, dims := [] } is
      pure { (σ.pushScalar t w0) with
        heap := heapSet (σ.heap ++ [[w0]]) c (f (heapGet (σ.heap ++ [[w0]]) c)) }) = _
  simp only [evalCs, bind, Except.bind, pure, Except.pure, cellOf_pushScalar, heapGet_pushScalar,
    heapSet_pushScalar]
  rfl

section
variable [DataAlg V] (ext : String → List V → V)

theorem execS_alloc_scalar (t : Sym) (σ : State V) :
    execS ext (.alloc t []) σ = .ok (σ.pushScalar t none) :=
  execS_alloc ext t [] σ [] rfl rfl

theorem evalD_read_pushScalar (σ : State V) (t : Sym) (w : Option V) :
    evalD ext (σ.pushScalar t w) (.read t []) = .ok w := by
  simp only [evalD]
  rw [lookupSym_pushScalar]
  show (do
      let is ← evalCs (σ.pushScalar t w) []
      let c ← cellOf (σ.heap ++ [[w]]) { buf := σ.heap.length, off := 0, dims := [] } is
      pure (heapGet (σ.heap ++ [[w]]) c)) = _
  simp only [evalCs, bind, Except.bind, pure, Except.pure, cellOf_pushScalar, heapGet_pushScalar]

theorem execS_assign_pushScalar (σ : State V) (t : Sym) (w0 : Option V) (e : Expr) (v : Option V)
    (he : evalD ext (σ.pushScalar t w0) e = .ok v) :
    execS ext (.assign t [] e) (σ.pushScalar t w0) = .ok (σ.pushScalar t v) := by
  simp only [execS, he, bind, Except.bind]
  exact writeCell_pushScalar σ t w0 (fun _ => v)

end

theorem Sim.pushScalar {σ σ' : State V} (h0 : Sim R 0 0 (fun _ => False) σ σ') (hv : ViewsOk σ)
    (t : Sym) (w : Option V) :
    Sim R σ.heap.length 1 (fun y => y = t) σ (σ'.pushScalar t w) :=
  Sim.insertEnd (X := fun y => y = t) h0 hv t rfl [w] _

end Exo

/-! ### the block theorem -/
namespace Exo
variable {V : Type} {R : Option V → Option V → Prop}

section
variable [DataAlg V] (ext : String → List V → V)

theorem execL_cons_error {a : Stmt} {r : List Stmt} {σ : State V} {err : Err}
    (h : execS ext a σ = .error err) : execL ext (a :: r) σ = .error err := by
  simp only [execL, h, bind, Except.bind]

theorem execL_cons_ok {a : Stmt} {r : List Stmt} {σ σ1 : State V}
    (h : execS ext a σ = .ok σ1) : execL ext (a :: r) σ = execL ext r σ1 := by
  simp only [execL, h, bind, Except.bind]

/-- **bind_expr, lock step.**  From related states of the same layout (`σ'` refines `σ` when
    `R = CellRefines`, `σ' = σ` up to `Sim` when `R = Eq`) the block `st ; r` and the block
    `t : R ; t = e ; st' ; r` both fail, or both succeed and end — after leaving the block — in
    related states.  Hypotheses: `st` is an assignment, a reduction or a data configuration write;
    `st'` is `st` with occurrences of `e` replaced by `t`; `t` is mentioned neither in `st`, nor in
    the rest of the block, nor in `e`; and `t` IS mentioned in `st'` (an occurrence was replaced —
    otherwise `e` could be an expression the original never evaluates, whose evaluation fails). -/
theorem bind_expr_lock (hR : CellRel R) (t : Sym) (e : Expr) (st st' : Stmt) (r : List Stmt)
    (σ σ' : State V) (h0 : Sim R 0 0 (fun _ => False) σ σ') (hvo : ViewsOk σ)
    (hb : Rw.bindable st = true) (hrepl : Rw.replS t e st st' = true)
    (hx : ∀ y ∈ st.names ++ namesL r ++ e.names, y ≠ t) (hmt : t ∈ st'.names) :
    Lock (Sim R 0 0 (fun _ => False))
      (execB ext (st :: r) σ)
      (execB ext (.alloc t [] :: .assign t [] e :: st' :: r) σ') := by
  unfold execB
  have hal := execS_alloc_scalar ext t σ'
  have hSA : Sim R σ.heap.length 1 (fun y => y = t) σ (σ'.pushScalar t none) :=
    Sim.pushScalar h0 hvo t none
  have hle := evalD_sim ext hR hSA e (fun y hy hyt => hx y (by simp [hy]) hyt)
  have hnt : t ∉ st.names := fun hm => hx t (by simp [hm]) rfl
  rw [execL_cons_ok ext hal]
  cases he : evalD ext σ e with
  | error err =>
    -- `e` fails: the new assignment fails, and so does the original statement, which evaluates `e`
    rw [he] at hle
    have h2 : ∃ err', execL ext (.assign t [] e :: st' :: r) (σ'.pushScalar t none)
        = .error err' := by
      cases he' : evalD ext (σ'.pushScalar t none) e with
      | ok v' => rw [he'] at hle; exact False.elim hle
      | error err' =>
        exact ⟨err', execL_cons_error ext (by simp only [execS, he', bind, Except.bind])⟩
    have h1 : ∃ err', execL ext (st :: r) σ = .error err' := by
      cases hex : execS ext st σ with
      | error err' => exact ⟨err', execL_cons_error ext hex⟩
      | ok σ1 =>
        obtain ⟨v, hv⟩ := replS_ok ext hb hrepl hnt hmt hex
        rw [hv] at he; cases he
    obtain ⟨e1, h1⟩ := h1
    obtain ⟨e2, h2⟩ := h2
    rw [h1, h2]
    exact trivial
  | ok v =>
    rw [he] at hle
    obtain ⟨v', hv', hvv⟩ := hle.ok_left rfl
    have hasg := execS_assign_pushScalar ext σ' t none e v' hv'
    have hSB : Sim R σ.heap.length 1 (fun y => y = t) σ (σ'.pushScalar t v') :=
      Sim.pushScalar h0 hvo t v'
    have hrd := evalD_read_pushScalar ext σ' t v'
    rw [execL_cons_ok ext hasg]
    simp only [execL]
    refine Lock.map (Q := Sim R σ.heap.length 1 (fun y => y = t))
      (Lock.bind
        (replS_lock ext hR hSB he hrd hvv hb hrepl (fun y hy hyt => hx y (by simp [hy]) hyt))
        (fun s1 s1' _ _ hs =>
          execL_sim ext hR r _ 1 _ s1 s1' (fun y hy hyt => hx y (by simp [hy]) hyt) hs))
      (fun o o' _ _ hoo => Sim.leaveCut h0 hoo (Nat.le_refl _))

/-- the instance `R = Eq` from equal-layout states with equal cells -/
theorem bind_expr_lock_eq (t : Sym) (e : Expr) (st st' : Stmt) (r : List Stmt)
    (σ σ' : State V) (h0 : Sim Eq 0 0 (fun _ => False) σ σ') (hvo : ViewsOk σ)
    (hb : Rw.bindable st = true) (hrepl : Rw.replS t e st st' = true)
    (hx : ∀ y ∈ st.names ++ namesL r ++ e.names, y ≠ t) (hmt : t ∈ st'.names) :
    Lock (Sim Eq 0 0 (fun _ => False))
      (execB ext (st :: r) σ)
      (execB ext (.alloc t [] :: .assign t [] e :: st' :: r) σ') :=
  bind_expr_lock ext CellRel.eq t e st st' r σ σ' h0 hvo hb hrepl hx hmt

end

/-- **bind_expr as a refinement between well-scoped states** -/
theorem bind_expr_refW' (t : Sym) (e : Expr) (st st' : Stmt) (r : List Stmt)
    (hb : Rw.bindable st = true) (hrepl : Rw.replS t e st st' = true)
    (hx : ∀ y ∈ st.names ++ namesL r ++ e.names, y ≠ t) (hmt : t ∈ st'.names) :
    BlockRefW (st :: r) (.alloc t [] :: .assign t [] e :: st' :: r) := by
  intro V _ ext s s' o hr ho
  have hl := bind_expr_lock ext CellRel.refines t e st st' r s s' hr.ref.sim hr.ok hb hrepl hx hmt
  obtain ⟨o', ho', hoo⟩ := hl.ok_left ho
  obtain ⟨t1, h1', rfl⟩ := execB_ok_inv ext ho
  exact ⟨o', ho', hoo, hr.ok.leave (execL_scope ext _ s t1 h1').2.1⟩

end Exo

/-! ### the guarded local rewrite -/
namespace Exo.Rw
open Exo

/-- executable side conditions of `bind_expr`: `t` is mentioned neither in `s`, nor in the rest
    `r` of the block, nor in `e`; `s` is an assignment, a reduction or a data configuration write
    (NOT a call, see `bindable`); `t` is mentioned in `s'` (some occurrence was replaced) -/
def bindExprGuard (t : Sym) (e : Expr) (s s' : Stmt) (r : List Stmt) : Bool :=
  notIn t (s.names ++ namesL r ++ e.names) && bindable s && s'.names.contains t

/-- `bindExpr t e s'` when the guard holds -/
def bindExprChecked (t : Sym) (e : Expr) (s' : Stmt) : Local
  | s :: r => if bindExprGuard t e s s' r then bindExpr t e s' (s :: r) else none
  | [] => none

theorem bindExprChecked_eq (t : Sym) (e : Expr) (s s' : Stmt) (r : List Stmt)
    (h : bindExprGuard t e s s' r = true) :
    bindExprChecked t e s' (s :: r) = bindExpr t e s' (s :: r) := by
  simp [bindExprChecked, h]

end Exo.Rw

namespace Exo

theorem bind_expr_refW (t : Sym) (e : Expr) (s s' : Stmt) (r : List Stmt)
    (hg : Rw.bindExprGuard t e s s' r = true) (hrepl : Rw.replS t e s s' = true) :
    BlockRefW (s :: r) (.alloc t [] :: .assign t [] e :: s' :: r) := by
  simp only [Rw.bindExprGuard, Bool.and_eq_true] at hg
  obtain ⟨⟨h1, h2⟩, h3⟩ := hg
  exact bind_expr_refW' t e s s' r h2 hrepl (Rw.notIn_iff.1 h1) (by simpa using h3)

theorem Rw.bindExprChecked_sound (t : Sym) (e : Expr) (s' : Stmt) :
    ∀ (ss r : List Stmt), Rw.bindExprChecked t e s' ss = some r → BlockRefW ss r := by
  intro ss r h
  cases ss with
  | nil => simp [Rw.bindExprChecked] at h
  | cons s rest =>
    simp only [Rw.bindExprChecked] at h
    split at h
    · rename_i hg
      simp only [Rw.bindExpr] at h
      split at h
      · rename_i hrepl
        cases h
        exact bind_expr_refW t e s s' rest hg hrepl
      · cases h
    · cases h

/-- **bind_expr anywhere in a procedure**: the guarded rewrite applied by `rewriteAt` at any
    statement address preserves the behaviour on well-scoped initial states (every successful run
    of the original is matched by a successful run of the rewritten procedure with a refined final
    state, all configuration fields compared) -/
theorem bind_expr_anywhere (t : Sym) (e : Expr) (s' : Stmt) (path : Rw.Path) (nm : String)
    (args : List FnArg) (preds : List Expr) (body body' : List Stmt)
    (h : Rw.rewriteAt (Rw.bindExprChecked t e s') path body = some body') :
    EquivOn WellScoped (fun _ => False) (.mk nm args preds body) (.mk nm args preds body') :=
  equivOn_of_blockRefW (rewriteAt_refW _ (Rw.bindExprChecked_sound t e s') path body body' h)
    nm args preds

end Exo

/-! ### non-vacuity, and the excluded call case -/
namespace Exo.BindExamples
open Exo

def sT : Sym := ⟨"t", 9⟩
def sX : Sym := ⟨"x", 1⟩
def sY : Sym := ⟨"y", 2⟩
def sI : Sym := ⟨"i", 3⟩

/-- `x[i] * x[i]` -/
def eSq : Expr := .binop .mul (.read sX [.read sI []]) (.read sX [.read sI []])

/-- `y[i] = x[i] * x[i] + 1` -/
def s0 : Stmt := .assign sY [.read sI []] (.binop .add eSq (.lit (.data 1 1)))
/-- `y[i] = t + 1` -/
def s1 : Stmt := .assign sY [.read sI []] (.binop .add (.read sT []) (.lit (.data 1 1)))
/-- `y[i] += x[i]` -/
def s2 : Stmt := .reduce sY [.read sI []] (.read sX [.read sI []])

/-- `for i in 0..2: y[i] = x[i] * x[i] + 1 ; y[i] += x[i]` -/
def before : List Stmt := [.loop sI (.lit (.int 0)) (.lit (.int 2)) [s0, s2] false]

/-- `for i in 0..2: t : R ; t = x[i] * x[i] ; y[i] = t + 1 ; y[i] += x[i]` -/
def after : List Stmt :=
  [.loop sI (.lit (.int 0)) (.lit (.int 2)) [.alloc sT [], .assign sT [] eSq, s1, s2] false]

theorem ex_guard : Rw.bindExprGuard sT eSq s0 s1 [s2] = true := by decide

/-- (`exprEq` is defined by well-founded recursion, so it is unfolded by `simp`, not by `rfl`) -/
theorem ex_repl : Rw.replS sT eSq s0 s1 = true := by
  simp [Rw.replS, Rw.replE, Rw.exprEq, Rw.exprsEq, Rw.symEq, s0, s1, eSq]

theorem ex_rewrite :
    Rw.rewriteAt (Rw.bindExprChecked sT eSq s1) [.body 0, .body 0] before = some after := by
  simp [Rw.rewriteAt, Rw.Step.idx, before, after, Rw.bindExprChecked, Rw.bindExpr, ex_guard,
    ex_repl]

example : BlockRefW [s0, s2] [.alloc sT [], .assign sT [] eSq, s1, s2] :=
  bind_expr_refW sT eSq s0 s1 [s2] ex_guard ex_repl

example : EquivOn WellScoped (fun _ => False) (.mk "p" [] [] before) (.mk "p" [] [] after) :=
  bind_expr_anywhere sT eSq s1 [.body 0, .body 0] "p" [] [] before after ex_rewrite

/-! the call case: `sc(a) ; y[0] = a` with `def sc(z : R): z = 1.0` -/

def sA : Sym := ⟨"a", 4⟩
def sZ : Sym := ⟨"z", 5⟩
def sB : Sym := ⟨"bnd", 6⟩

def sc : Proc := .mk "sc" [⟨sZ, .scalar⟩] [] [.assign sZ [] (.lit (.data 1 1))]

def callBefore : List Stmt :=
  [.call sc [.read sA []], .assign sY [.lit (.int 0)] (.read sA [])]

def callAfter : List Stmt :=
  [.alloc sB [], .assign sB [] (.read sA []), .call sc [.read sB []],
   .assign sY [.lit (.int 0)] (.read sA [])]

def callσ : State Int :=
  { env := [], views := [(sA, ⟨0, 0, []⟩), (sY, ⟨1, 0, [(1, 1)]⟩)],
    heap := [[some 5], [some 0]], cfg := [] }

/-- this IS what the unguarded model of `DoBindExpr` produces for the cursor `a` in `sc(a)` -/
example : Rw.bindExpr sB (.read sA []) (.call sc [.read sB []]) callBefore = some callAfter := by
  simp [Rw.bindExpr, callBefore, callAfter, Rw.replS, Rw.procEq, Rw.replEs, Rw.replE, Rw.exprEq,
    Rw.exprsEq, Rw.symEq]

/-- … and the guarded rewrite refuses it -/
example : Rw.bindExprChecked sB (.read sA []) (.call sc [.read sB []]) callBefore = none := by
  rfl

/-- `sc(a) ; y[0] = a` becomes `bnd : R ; bnd = a ; sc(bnd) ; y[0] = a`: the callee now writes
    `bnd`; `a` keeps its old value 5 instead of 1, and so does `y[0]` -/
theorem bind_expr_call_unsound : ¬ BlockRefW callBefore callAfter := by
  intro h
  have h1 : (execB (fun _ _ => (0 : Int)) callBefore callσ).toOption.map (·.heap)
      = some [[some 1], [some 1]] := by decide
  have h2 : (execB (fun _ _ => (0 : Int)) callAfter callσ).toOption.map (·.heap)
      = some [[some 5], [some 5]] := by decide
  cases ho : execB (fun _ _ => (0 : Int)) callBefore callσ with
  | error e => rw [ho] at h1; simp [Except.toOption] at h1
  | ok o =>
    obtain ⟨o', ho', r⟩ := h Int (fun _ _ => 0) callσ callσ o
      (WRef.refl (by unfold ViewsOk; decide)) ho
    rw [ho] at h1
    rw [ho'] at h2
    simp only [Except.toOption, Option.map_some, Option.some.injEq] at h1 h2
    have := r.ref.cells (0, 0)
    rw [h1, h2] at this
    revert this
    unfold CellRefines heapGet
    decide

end Exo.BindExamples
