/-
  Lemmas behind the C01 property theorems.
-/
import ExoModel.Equiv
import ExoModel.Lemmas.Exec

set_option linter.unusedSectionVars false
namespace Exo
variable {V : Type}

theorem CellRefines.refl (a : Option V) : CellRefines a a := Or.inr rfl
theorem CellRefines.trans {a b c : Option V} (h : CellRefines a b) (h' : CellRefines b c) :
    CellRefines a c := by
  rcases h with h | h
  · exact Or.inl h
  · subst h; exact h'

theorem CfgValRefines.refl (a : CfgVal V) : CfgValRefines a a := by
  cases a <;> simp [CfgValRefines, CellRefines]

theorem CfgValRefines.trans {a b c : CfgVal V} (h : CfgValRefines a b) (h' : CfgValRefines b c) :
    CfgValRefines a c := by
  cases a <;> cases b <;> cases c <;> simp [CfgValRefines] at *
  · exact h.trans h'
  · exact CellRefines.trans h h'

theorem Refines.refl (o : State V) : Refines (fun _ => False) o o :=
  ⟨rfl, fun _ => CellRefines.refl _, fun _ _ v hv => ⟨v, hv, CfgValRefines.refl v⟩⟩

theorem Refines.trans {K₁ K₂ : String × String → Prop} {a b c : State V}
    (h : Refines K₁ a b) (h' : Refines K₂ b c) : Refines (fun k => K₁ k ∨ K₂ k) a c := by
  refine ⟨h.heapLen.trans h'.heapLen, fun x => CellRefines.trans (h.cells x) (h'.cells x), ?_⟩
  intro k hk v hv
  obtain ⟨v', hv', r⟩ := h.cfg k (fun hk1 => hk (Or.inl hk1)) v hv
  obtain ⟨v'', hv'', r'⟩ := h'.cfg k (fun hk2 => hk (Or.inr hk2)) v' hv'
  exact ⟨v'', hv'', CfgValRefines.trans r r'⟩

theorem equiv_refl (p : Proc) : Equiv (fun _ => False) p p :=
  fun _ _ _ _ o h => ⟨o, h, Refines.refl o⟩

theorem equiv_trans {K₁ K₂ : String × String → Prop} {p q r : Proc}
    (h₁ : Equiv K₁ p q) (h₂ : Equiv K₂ q r) : Equiv (fun k => K₁ k ∨ K₂ k) p r := by
  intro V _ ext σ o h
  obtain ⟨o', ho', r1⟩ := h₁ V ext σ o h
  obtain ⟨o'', ho'', r2⟩ := h₂ V ext σ o' ho'
  exact ⟨o'', ho'', Refines.trans r1 r2⟩

end Exo

namespace Exo
variable {V : Type} [DataAlg V] (ext : String → List V → V)

theorem execL_append (a b : List Stmt) (σ : State V) :
    execL ext (a ++ b) σ = (execL ext a σ) >>= (execL ext b) := by
  induction a generalizing σ with
  | nil => simp [execL, pure, Except.pure, bind, Except.bind]
  | cons s r ih =>
    simp only [List.cons_append, execL, bind, Except.bind]
    cases execS ext s σ with
    | error e => rfl
    | ok s1 => simpa [bind, Except.bind] using ih s1

theorem execL_singleton (s : Stmt) (σ : State V) : execL ext [s] σ = execS ext s σ := by
  simp only [execL, bind, Except.bind]
  cases execS ext s σ <;> rfl

theorem iterate_congr (f g : Int → State V → Except Err (State V))
    (h : ∀ v s, ExEq (f v s) (g v s)) : ∀ (n : Nat) (lo : Int) (σ : State V),
    ExEq (iterate f n lo σ) (iterate g n lo σ)
  | 0, _, _ => ExEq.refl _
  | n + 1, lo, σ => by
    simp only [iterate]
    exact ExEq.bind_congr (h lo σ) (fun a => iterate_congr f g h n (lo + 1) a)

theorem BlockEq.refl (B : List Stmt) : BlockEq B B := fun _ _ _ _ => ExEq.refl _
theorem BlockEq.symm {B B' : List Stmt} (h : BlockEq B B') : BlockEq B' B :=
  fun V _ ext σ => (h V ext σ).symm
theorem BlockEq.trans {A B C : List Stmt} (h : BlockEq A B) (h' : BlockEq B C) : BlockEq A C :=
  fun V _ ext σ => (h V ext σ).trans (h' V ext σ)

theorem BlockEq.seq {B B' : List Stmt} (h : BlockEq B B') (pre post : List Stmt) :
    BlockEq (pre ++ B ++ post) (pre ++ B' ++ post) := by
  intro V _ ext σ
  rw [execL_append, execL_append, execL_append, execL_append]
  refine ExEq.bind_congr (ExEq.bind_congr (ExEq.refl _) (fun a => h V ext a)) (fun a => ExEq.refl _)

theorem BlockEq.loop {B B' : List Stmt} (h : BlockEq B B') (i : Sym) (lo hi : Expr) (par : Bool) :
    BlockEq [.loop i lo hi B par] [.loop i lo hi B' par] := by
  intro V _ ext σ
  rw [execL_singleton, execL_singleton]
  simp only [execS]
  refine ExEq.bind_congr (ExEq.refl _) (fun l => ExEq.bind_congr (ExEq.refl _) (fun hh => ?_))
  split
  · exact ExEq.refl _
  · exact iterate_congr _ _ (fun v s => ExEq.map_congr _ (h V ext _)) _ _ _

theorem BlockEq.iteT {B B' : List Stmt} (h : BlockEq B B') (c : Expr) (e : List Stmt) :
    BlockEq [.ite c B e] [.ite c B' e] := by
  intro V _ ext σ
  rw [execL_singleton, execL_singleton]
  simp only [execS]
  refine ExEq.bind_congr (ExEq.refl _) (fun b => ?_)
  split
  · exact ExEq.map_congr _ (h V ext σ)
  · exact ExEq.refl _

theorem BlockEq.iteE {B B' : List Stmt} (h : BlockEq B B') (c : Expr) (t : List Stmt) :
    BlockEq [.ite c t B] [.ite c t B'] := by
  intro V _ ext σ
  rw [execL_singleton, execL_singleton]
  simp only [execS]
  refine ExEq.bind_congr (ExEq.refl _) (fun b => ?_)
  split
  · exact ExEq.refl _
  · exact ExEq.map_congr _ (h V ext σ)

theorem iterate_le (f g : Int → State V → Except Err (State V))
    (h : ∀ v s, ExLe (f v s) (g v s)) : ∀ (n : Nat) (lo : Int) (σ : State V),
    ExLe (iterate f n lo σ) (iterate g n lo σ)
  | 0, _, _ => ExLe.refl _
  | n + 1, lo, σ => by
    simp only [iterate]
    exact ExLe.bind_congr (h lo σ) (fun a => iterate_le f g h n (lo + 1) a)

theorem BlockLe.refl (B : List Stmt) : BlockLe B B := fun _ _ _ _ => ExLe.refl _
theorem BlockLe.trans {A B C : List Stmt} (h : BlockLe A B) (h' : BlockLe B C) : BlockLe A C :=
  fun V _ ext σ => (h V ext σ).trans (h' V ext σ)
theorem BlockEq.le {B B' : List Stmt} (h : BlockEq B B') : BlockLe B B' :=
  fun V _ ext σ => (h V ext σ).le
theorem BlockEq.of_le_le {B B' : List Stmt} (h : BlockLe B B') (h' : BlockLe B' B) : BlockEq B B' :=
  fun V _ ext σ => ExEq.of_le_le (h V ext σ) (h' V ext σ)

theorem BlockLe.seq {B B' : List Stmt} (h : BlockLe B B') (pre post : List Stmt) :
    BlockLe (pre ++ B ++ post) (pre ++ B' ++ post) := by
  intro V _ ext σ
  rw [execL_append, execL_append, execL_append, execL_append]
  refine ExLe.bind_congr (ExLe.bind_congr (ExLe.refl _) (fun a => h V ext a)) (fun a => ExLe.refl _)

theorem BlockLe.loop {B B' : List Stmt} (h : BlockLe B B') (i : Sym) (lo hi : Expr) (par : Bool) :
    BlockLe [.loop i lo hi B par] [.loop i lo hi B' par] := by
  intro V _ ext σ
  rw [execL_singleton, execL_singleton]
  simp only [execS]
  refine ExLe.bind_congr (ExLe.refl _) (fun l => ExLe.bind_congr (ExLe.refl _) (fun hh => ?_))
  split
  · exact ExLe.refl _
  · exact iterate_le _ _ (fun v s => ExLe.map_congr _ (h V ext _)) _ _ _

theorem BlockLe.iteT {B B' : List Stmt} (h : BlockLe B B') (c : Expr) (e : List Stmt) :
    BlockLe [.ite c B e] [.ite c B' e] := by
  intro V _ ext σ
  rw [execL_singleton, execL_singleton]
  simp only [execS]
  refine ExLe.bind_congr (ExLe.refl _) (fun b => ?_)
  split
  · exact ExLe.map_congr _ (h V ext σ)
  · exact ExLe.refl _

theorem BlockLe.iteE {B B' : List Stmt} (h : BlockLe B B') (c : Expr) (t : List Stmt) :
    BlockLe [.ite c t B] [.ite c t B'] := by
  intro V _ ext σ
  rw [execL_singleton, execL_singleton]
  simp only [execS]
  refine ExLe.bind_congr (ExLe.refl _) (fun b => ?_)
  split
  · exact ExLe.refl _
  · exact ExLe.map_congr _ (h V ext σ)

theorem ctx_le {B B' : List Stmt} (h : BlockLe B B') : ∀ (C : Ctx), BlockLe (C.fill B) (C.fill B')
  | .hole => h
  | .seq pre c post => (ctx_le h c).seq pre post
  | .loop i lo hi par c => (ctx_le h c).loop i lo hi par
  | .iteT cond c e => (ctx_le h c).iteT cond e
  | .iteE cond t c => (ctx_le h c).iteE cond t

theorem equiv_of_blockLe {B B' : List Stmt} (h : BlockLe B B') (nm : String) (args : List FnArg)
    (preds : List Expr) : Equiv (fun _ => False) (.mk nm args preds B) (.mk nm args preds B') := by
  intro V _ ext σ o ho
  simp only [execB, Proc.body] at ho ⊢
  exact ⟨o, ExLe.map_congr (State.leave σ) (h V ext σ) o ho, Refines.refl o⟩

theorem ctx_congr {B B' : List Stmt} (h : BlockEq B B') : ∀ (C : Ctx), BlockEq (C.fill B) (C.fill B')
  | .hole => h
  | .seq pre c post => (ctx_congr h c).seq pre post
  | .loop i lo hi par c => (ctx_congr h c).loop i lo hi par
  | .iteT cond c e => (ctx_congr h c).iteT cond e
  | .iteE cond t c => (ctx_congr h c).iteE cond t

/-- a block equality lifts to `Equiv` of the procedures around it -/
theorem equiv_of_blockEq {B B' : List Stmt} (h : BlockEq B B') (nm : String) (args : List FnArg)
    (preds : List Expr) : Equiv (fun _ => False) (.mk nm args preds B) (.mk nm args preds B') := by
  intro V _ ext σ o ho
  have := h V ext σ
  simp only [execB, Proc.body] at ho ⊢
  have h2 := ExEq.map_congr (State.leave σ) this
  exact ⟨o, ((ExEq.ok_iff h2 o).1 ho), Refines.refl o⟩

end Exo

namespace Exo
variable {V : Type} [DataAlg V] (ext : String → List V → V)

/-- control expressions that do not read configuration state -/
def Expr.cfgFree : Expr → Bool
  | .readcfg _ _ => false
  | .usub e => e.cfgFree
  | .binop _ a b => a.cfgFree && b.cfgFree
  | _ => true

/-- the value of a configuration-free control expression depends on `env` and `views` only -/
theorem evalC_cfgFree : ∀ (e : Expr) (σ σ' : State V), e.cfgFree = true →
    σ'.env = σ.env → σ'.views = σ.views → evalC σ' e = evalC σ e
  | .read x [], σ, σ', _, he, _ => by simp [evalC, he]
  | .read x (_ :: _), σ, σ', _, _, _ => by simp [evalC]
  | .lit (.int n), _, _, _, _, _ => by simp [evalC]
  | .lit (.bool n), _, _, _, _, _ => by simp [evalC]
  | .lit (.data _ _), _, _, _, _, _ => by simp [evalC]
  | .usub e, σ, σ', h, he, hv => by
    simp only [evalC]
    rw [evalC_cfgFree e σ σ' (by simpa [Expr.cfgFree] using h) he hv]
  | .binop op a b, σ, σ', h, he, hv => by
    simp only [Expr.cfgFree, Bool.and_eq_true] at h
    simp only [evalC]
    rw [evalC_cfgFree a σ σ' h.1 he hv, evalC_cfgFree b σ σ' h.2 he hv]
  | .stride x d, σ, σ', _, _, hv => by simp [evalC, hv]
  | .readcfg _ _, _, _, h, _, _ => by simp [Expr.cfgFree] at h
  | .extern _ _, _, _, _, _, _ => by simp [evalC]
  | .win _ _, _, _, _, _, _ => by simp [evalC]

/-- the step function of a loop: one iteration of `body` with `i` bound, in its own scope -/
def loopStep (i : Sym) (body : List Stmt) (v : Int) (s : State V) : Except Err (State V) :=
  (execL ext body (s.bind i v)).map (State.leave s)

theorem loopStep_scope (i : Sym) (body : List Stmt) (v : Int) (s s' : State V)
    (h : loopStep ext i body v s = .ok s') :
    s'.heap.length = s.heap.length ∧ s'.env = s.env ∧ s'.views = s.views := by
  obtain ⟨s2, h2, rfl⟩ := map_leave_ok h
  have := (execL_scope ext body (s.bind i v) s2 h2).2.1
  exact ⟨leave_heap_length s s2 this, rfl, rfl⟩

theorem execS_loop (i : Sym) (lo hi : Expr) (body : List Stmt) (par : Bool) (σ : State V)
    (l h : Int) (hl : evalC σ lo = .ok l) (hh : evalC σ hi = .ok h) (hle : l ≤ h) :
    execS ext (.loop i lo hi body par) σ = iterate (loopStep ext i body) (h - l).toNat l σ := by
  simp only [execS, hl, hh, bind, Except.bind]
  have : ¬ h < l := by omega
  simp only [this, if_false]
  rfl

theorem iterate_scope (f : Int → State V → Except Err (State V))
    (hf : ∀ v s s', f v s = .ok s' → s'.heap.length = s.heap.length ∧ s'.env = s.env ∧ s'.views = s.views)
    (n : Nat) (lo : Int) (σ σ' : State V) (h : iterate f n lo σ = .ok σ') :
    σ'.env = σ.env ∧ σ'.views = σ.views :=
  (iterate_heapLen f hf n lo σ σ' h).2

end Exo

namespace Exo
variable {V : Type}

/-- repeating an iteration-independent, idempotent step any positive number of times is the
    same as doing it once -/
theorem iterate_idem (f : Int → State V → Except Err (State V)) (lo : Int)
    (hind : ∀ v s, f v s = f lo s)
    (hidem : ∀ s s', f lo s = .ok s' → f lo s' = .ok s') :
    ∀ (n : Nat) (k : Int) (σ : State V), iterate f (n + 1) k σ = f lo σ
  | 0, k, σ => by
    simp only [iterate, bind, Except.bind]
    rw [hind k σ]
    cases f lo σ <;> rfl
  | n + 1, k, σ => by
    have ih := iterate_idem f lo hind hidem n
    rw [iterate]
    simp only [bind, Except.bind]
    rw [hind k σ]
    cases h : f lo σ with
    | error e => rfl
    | ok s' =>
      simp only []
      rw [ih (k + 1) s']
      exact hidem σ s' h

/-- `g v` after-commutes with every `f w`, hence with a whole run of `f` -/
theorem commute_iterate (f : Int → State V → Except Err (State V))
    (g : State V → Except Err (State V))
    (hc : ∀ w s, ExEq (g s >>= f w) (f w s >>= g)) :
    ∀ (n : Nat) (k : Int) (σ : State V),
      ExEq (g σ >>= iterate f n k) (iterate f n k σ >>= g)
  | 0, k, σ => by
    simp only [iterate, pure, Except.pure, bind, Except.bind]
    cases g σ <;> exact ExEq.refl _
  | n + 1, k, σ => by
    have ih := commute_iterate f g hc n (k + 1)
    -- g σ >>= (f k >=> iterate f n (k+1))
    have e1 : (g σ >>= iterate f (n + 1) k) = ((g σ >>= f k) >>= iterate f n (k + 1)) := by
      simp only [iterate, bind, Except.bind]
      cases g σ <;> rfl
    have e2 : (iterate f (n + 1) k σ >>= g) = (f k σ >>= fun s => iterate f n (k + 1) s >>= g) := by
      simp only [iterate, bind, Except.bind]
      cases f k σ <;> rfl
    rw [e1, e2]
    have step1 : ExEq ((g σ >>= f k) >>= iterate f n (k + 1)) ((f k σ >>= g) >>= iterate f n (k + 1)) :=
      ExEq.bind_congr (hc k σ) (fun _ => ExEq.refl _)
    have e3 : ((f k σ >>= g) >>= iterate f n (k + 1)) = (f k σ >>= fun s => g s >>= iterate f n (k + 1)) := by
      simp only [bind, Except.bind]
      cases f k σ <;> rfl
    rw [e3] at step1
    exact step1.trans (ExEq.bind_congr (ExEq.refl _) (fun s => ih s))

/-- loop fission at the level of iteration steps: running `f v ; g v` for v = k … k+n-1 equals
    running all `f`s and then all `g`s, provided every earlier `g v` commutes with every later
    `f w` (v < w) -/
theorem iterate_fission (f g : Int → State V → Except Err (State V))
    (hc : ∀ v w, v < w → ∀ s, ExEq (g v s >>= f w) (f w s >>= g v)) :
    ∀ (n : Nat) (k : Int) (σ : State V),
      ExEq (iterate (fun v s => f v s >>= g v) n k σ) (iterate f n k σ >>= iterate g n k)
  | 0, k, σ => by simp [iterate, pure, Except.pure, bind, Except.bind]; exact ExEq.refl _
  | n + 1, k, σ => by
    have ih := iterate_fission f g (fun v w hvw => hc v w hvw) n (k + 1)
    have hcomm : ∀ s, ExEq (g k s >>= iterate f n (k + 1)) (iterate f n (k + 1) s >>= g k) := by
      intro s
      -- g k commutes with every f w for w ≥ k+1; generalise commute_iterate over the start index
      have gen : ∀ (m : Nat) (j : Int), k < j → ∀ s, ExEq (g k s >>= iterate f m j) (iterate f m j s >>= g k) := by
        intro m
        induction m with
        | zero =>
          intro j _ s
          simp only [iterate, pure, Except.pure, bind, Except.bind]
          cases g k s <;> exact ExEq.refl _
        | succ m ihm =>
          intro j hj s
          have e1 : (g k s >>= iterate f (m + 1) j) = ((g k s >>= f j) >>= iterate f m (j + 1)) := by
            simp only [iterate, bind, Except.bind]
            cases g k s <;> rfl
          have e2 : (iterate f (m + 1) j s >>= g k) = (f j s >>= fun t => iterate f m (j + 1) t >>= g k) := by
            simp only [iterate, bind, Except.bind]
            cases f j s <;> rfl
          rw [e1, e2]
          have step1 : ExEq ((g k s >>= f j) >>= iterate f m (j + 1)) ((f j s >>= g k) >>= iterate f m (j + 1)) :=
            ExEq.bind_congr (hc k j hj s) (fun _ => ExEq.refl _)
          have e3 : ((f j s >>= g k) >>= iterate f m (j + 1)) = (f j s >>= fun t => g k t >>= iterate f m (j + 1)) := by
            simp only [bind, Except.bind]
            cases f j s <;> rfl
          rw [e3] at step1
          exact step1.trans (ExEq.bind_congr (ExEq.refl _) (fun t => ihm (j + 1) (by omega) t))
      exact gen n (k + 1) (by omega) s
    -- LHS
    have l1 : iterate (fun v s => f v s >>= g v) (n + 1) k σ
        = (f k σ >>= fun s => g k s >>= iterate (fun v s => f v s >>= g v) n (k + 1)) := by
      simp only [iterate, bind, Except.bind]
      cases f k σ <;> rfl
    have r1 : (iterate f (n + 1) k σ >>= iterate g (n + 1) k)
        = (f k σ >>= fun s => iterate f n (k + 1) s >>= fun t => g k t >>= iterate g n (k + 1)) := by
      simp only [iterate, bind, Except.bind]
      cases f k σ with
      | error e => rfl
      | ok s => rfl
    rw [l1, r1]
    refine ExEq.bind_congr (ExEq.refl _) (fun s => ?_)
    -- g k s >>= iterate fg n (k+1)  ≈  g k s >>= (iterate f n (k+1) >=> iterate g n (k+1))
    have a : ExEq (g k s >>= iterate (fun v s => f v s >>= g v) n (k + 1))
        (g k s >>= fun t => iterate f n (k + 1) t >>= iterate g n (k + 1)) :=
      ExEq.bind_congr (ExEq.refl _) (fun t => ih t)
    have b : (g k s >>= fun t => iterate f n (k + 1) t >>= iterate g n (k + 1))
        = ((g k s >>= iterate f n (k + 1)) >>= iterate g n (k + 1)) := by
      simp only [bind, Except.bind]
      cases g k s <;> rfl
    have c : ExEq ((g k s >>= iterate f n (k + 1)) >>= iterate g n (k + 1))
        ((iterate f n (k + 1) s >>= g k) >>= iterate g n (k + 1)) :=
      ExEq.bind_congr (hcomm s) (fun _ => ExEq.refl _)
    have d : ((iterate f n (k + 1) s >>= g k) >>= iterate g n (k + 1))
        = (iterate f n (k + 1) s >>= fun t => g k t >>= iterate g n (k + 1)) := by
      simp only [bind, Except.bind]
      cases iterate f n (k + 1) s <;> rfl
    rw [b] at a
    rw [d] at c
    exact a.trans c

end Exo


namespace Exo
variable {V : Type} [DataAlg V] (ext : String → List V → V)

/-- with no definitions at the top of `A`, one iteration of `A ++ B` is an iteration of `A`
    followed by an iteration of `B` -/
theorem loopStep_append (i : Sym) (A B : List Stmt) (hn : noDefs A = true) (v : Int) (s : State V) :
    loopStep ext i (A ++ B) v s = (loopStep ext i A v s >>= loopStep ext i B v) := by
  unfold loopStep
  rw [execL_append]
  cases hA : execL ext A (s.bind i v) with
  | error e => rfl
  | ok σA =>
    have sc := execL_scope ext A (s.bind i v) σA hA
    have h3 := sc.2.2 (by simp [hn])
    have hb : (State.leave s σA).bind i v = σA := by
      cases σA with
      | mk env views heap cfg =>
        simp only [State.leave, State.bind, State.mk.injEq]
        have e1 : env = (i, v) :: s.env := sc.1
        have e2 : views = s.views := h3.1
        have e3 : heap.length = s.heap.length := h3.2
        refine ⟨e1.symm, e2.symm, ?_, trivial⟩
        rw [← e3]; exact List.take_length
    simp only [bind, Except.bind, Except.map]
    rw [hb]
    cases hB : execL ext B σA with
    | error e => rfl
    | ok σB =>
      simp only [State.leave]
      have e3 : σA.heap.length = s.heap.length := h3.2
      simp [List.length_take, e3]

end Exo
