/-
  Statements under the simulation relation: if the callee's statement and the caller's statement
  match (`matchS`), they take related states to related states — or the callee's side alone trips
  `oob` inside a window.
-/
import ExoModel.Lemmas.InlineExpr

set_option linter.unusedSectionVars false
set_option linter.unusedVariables false
namespace Exo.Inline
open Exo

variable {V : Type} {W : Prop}

/-! ### shape of the substitution `matchS` returns -/

theorem matchS_shape : ∀ (s s' : Stmt) (θ θ' : Subst), matchS θ s s' = some θ' →
    θ' = θ ∨ ∃ x x', θ' = (x, .buf x' none) :: θ := by
  intro s s' θ θ' h
  cases s <;> cases s' <;> simp only [matchS] at h <;> try (cases h; done)
  all_goals first
    | (cases h; exact Or.inl rfl)
    | (split at h
       · first
         | (cases h; first | exact Or.inl rfl | exact Or.inr ⟨_, _, rfl⟩)
         | (split at h
            · cases h; exact Or.inl rfl
            · cases h)
       · cases h)

theorem pure_of_shape {θ θ' : Subst} (h : θ' = θ ∨ ∃ x x', θ' = (x, .buf x' none) :: θ)
    (hp : pureSubst θ = true) : pureSubst θ' = true := by
  rcases h with rfl | ⟨x, x', rfl⟩
  · exact hp
  · simp [pureSubst, Target.noCfg, hp]

theorem hasWin_of_shape {θ θ' : Subst} (h : θ' = θ ∨ ∃ x x', θ' = (x, .buf x' none) :: θ)
    (hW : hasWin θ = true → W) : hasWin θ' = true → W := by
  rcases h with rfl | ⟨x, x', rfl⟩
  · exact hW
  · simpa [hasWin] using hW

/-! ### state lemmas -/

theorem Rel.leave {θ : Subst} {σc σ sc' s' : State V} (h : Rel θ σc σ) (hp : pureSubst θ = true)
    (hheap : sc'.heap = s'.heap) (hcfg : sc'.cfg = s'.cfg) :
    Rel θ (State.leave σc sc') (State.leave σ s') :=
  h.sameScope hp rfl rfl rfl rfl (by simp [State.leave, hheap, h.heap]) (by simp [State.leave, hcfg])

/-- a new buffer name on both sides (allocation, window statement) -/
theorem Rel.bindBuf {θ : Subst} {σc σ σc' σ' : State V} (h : Rel θ σc σ) (hp : pureSubst θ = true)
    (x x' : Sym) (v : View) (hf : fresh x' θ = true)
    (e1 : σc'.env = σc.env) (e2 : σc'.views = (x, v) :: σc.views)
    (e3 : σ'.env = σ.env) (e4 : σ'.views = (x', v) :: σ.views)
    (hheap : σc'.heap = σ'.heap) (hcfg : σc'.cfg = σ'.cfg) :
    Rel ((x, .buf x' none) :: θ) σc' σ' := by
  refine h.cons hp x _ ⟨v, by rw [e2]; simp [lookupSym], by simp [viewOf, e4, lookupSym, pure, Except.pure]⟩
    (fun z hz => ⟨by rw [e1], by rw [e2]; simp [lookupSym, hz]⟩)
    (fun z t y hl hy => ?_) hheap hcfg
  have hne : y ≠ x' := by
    intro e; subst e
    rw [fresh_lookup hf hl] at hy; cases hy
  exact ⟨by rw [e3], by rw [e4]; simp [lookupSym, hne]⟩

theorem iterate_sim {R : State V → State V → Prop} (f g : Int → State V → Except Err (State V))
    (h : ∀ v sc s, R sc s → Sim W R (f v sc) (g v s)) :
    ∀ (n : Nat) (lo : Int) (sc s : State V), R sc s → Sim W R (iterate f n lo sc) (iterate g n lo s)
  | 0, _, sc, s, hr => Sim.pure hr
  | n + 1, lo, sc, s, hr => by
    simp only [iterate]
    exact (h lo sc s hr).bind (fun a b hab => iterate_sim f g h n (lo + 1) a b hab)

theorem writeCell_sim {θ : Subst} {σc σ : State V} (h : Rel θ σc σ) (hp : pureSubst θ = true)
    (hW : hasWin θ = true → W) {x x' : Sym} {idx idx' : List Expr}
    (hm : matchAcc θ x idx x' idx' = true) (f : Option V → Option V) :
    Sim W (Rel θ) (writeCell σc x idx f) (writeCell σ x' idx' f) := by
  obtain ⟨vx, vy, h1, h2, hs⟩ := matchAcc_cell h hW hm
  simp only [writeCell, h1, h2]
  have e1 : (do let is ← evalCs σc idx; let c ← cellOf σc.heap vx is
                pure ({ σc with heap := heapSet σc.heap c (f (heapGet σc.heap c)) } : State V))
      = ((evalCs σc idx >>= fun is => cellOf σc.heap vx is) >>= fun c =>
          (Except.ok ({ σc with heap := heapSet σc.heap c (f (heapGet σc.heap c)) } : State V)
            : Except Err (State V))) := by
    simp only [bind_assoc]; rfl
  have e2 : (do let is ← evalCs σ idx'; let c ← cellOf σ.heap vy is
                pure ({ σ with heap := heapSet σ.heap c (f (heapGet σ.heap c)) } : State V))
      = ((evalCs σ idx' >>= fun is => cellOf σ.heap vy is) >>= fun c =>
          (Except.ok ({ σ with heap := heapSet σ.heap c (f (heapGet σ.heap c)) } : State V)
            : Except Err (State V))) := by
    simp only [bind_assoc]; rfl
  rw [e1, e2]
  refine hs.bind (fun a b hab => ?_)
  subst hab
  exact Sim.pure (h.sameScope hp rfl rfl rfl rfl (by simp [h.heap]) h.cfg)

variable [DataAlg V] (ext : String → List V → V)

theorem execS_loop_eq (i : Sym) (lo hi : Expr) (body : List Stmt) (par : Bool) (σ : State V) :
    execS ext (.loop i lo hi body par) σ =
      (evalC σ lo >>= fun l => evalC σ hi >>= fun h =>
        if h < l then Except.error Err.badLoop
        else iterate (fun v s => (execL ext body (s.bind i v)).map (State.leave s)) (h - l).toNat l σ) := by
  simp only [execS, bind, Except.bind]
  cases evalC σ lo with
  | error e => rfl
  | ok l =>
    cases evalC σ hi with
    | error e => rfl
    | ok h =>
      simp only []
      by_cases hlt : h < l
      · simp only [hlt, if_true]; rfl
      · simp only [hlt, if_false]

theorem execS_alloc_eq (x : Sym) (shape : List Expr) (σ : State V) :
    execS ext (.alloc x shape) σ =
      (evalCs σ shape >>= fun sh => checkSizes sh >>= fun _ =>
        Except.ok ({ σ with heap := σ.heap ++ [List.replicate ((sh.foldl (· * ·) 1).toNat) none],
                            views := (x, { buf := σ.heap.length, off := 0, dims := denseDims sh }) :: σ.views }
                    : State V)) := by
  simp only [execS]; rfl

/-- what a call does once its arguments are bound (everything but the final `leave`) -/
def callCore (fargs : List FnArg) (preds : List Expr) (body : List Stmt)
    (ce : List (Sym × Int)) (cv : List (Sym × View)) (heap : List (List (Option V)))
    (cfg : List ((String × String) × CfgVal V)) : Except Err (State V) :=
  if !noAlias cv then throw .alias
  else do
    checkShapes ({ env := ce, views := cv, heap := heap, cfg := cfg } : State V) fargs
    checkPreds ({ env := ce, views := cv, heap := heap, cfg := cfg } : State V) preds
    execL ext body { env := ce, views := cv, heap := heap, cfg := cfg }

theorem execP_eq_core (nm : String) (fargs : List FnArg) (preds : List Expr) (body : List Stmt)
    (args : List Expr) (σ : State V) :
    execP ext (.mk nm fargs preds body) args σ =
      (bindArgs σ fargs args [] [] >>= fun p =>
        (callCore ext fargs preds body p.1 p.2 σ.heap σ.cfg).map (State.leave σ)) := by
  simp only [execP, callCore]
  cases bindArgs σ fargs args [] [] with
  | error e => rfl
  | ok p =>
    obtain ⟨ce, cv⟩ := p
    simp only [bind, Except.bind]
    cases noAlias cv with
    | false => rfl
    | true =>
      simp only [Bool.not_true, Bool.false_eq_true, if_false]
      cases checkShapes ({ env := ce, views := cv, heap := σ.heap, cfg := σ.cfg } : State V) fargs with
      | error e => rfl
      | ok u =>
        cases checkPreds ({ env := ce, views := cv, heap := σ.heap, cfg := σ.cfg } : State V) preds with
        | error e => rfl
        | ok u' =>
          cases execL ext body ({ env := ce, views := cv, heap := σ.heap, cfg := σ.cfg } : State V) <;> rfl

theorem bindArgs_sim {θ : Subst} {σc σ : State V} (h : Rel θ σc σ) (hW : hasWin θ = true → W) :
    ∀ (fs : List FnArg) (as bs : List Expr) (ce : List (Sym × Int)) (cv : List (Sym × View)),
    matchArgs θ fs as bs = true → Sim W Eq (bindArgs σc fs as ce cv) (bindArgs σ fs bs ce cv)
  | [], [], [], _, _, _ => Sim.of_eq rfl
  | [], [], _ :: _, _, _, hm => by simp [matchArgs] at hm
  | [], _ :: _, _, _, _, hm => by simp [matchArgs] at hm
  | ⟨x, .ctrl k⟩ :: fs, [], _, _, _, hm => by simp [matchArgs] at hm
  | ⟨x, .scalar⟩ :: fs, [], _, _, _, hm => by simp [matchArgs] at hm
  | ⟨x, .tensor _ _⟩ :: fs, [], _, _, _, hm => by simp [matchArgs] at hm
  | ⟨x, .ctrl k⟩ :: fs, _ :: _, [], _, _, hm => by simp [matchArgs] at hm
  | ⟨x, .scalar⟩ :: fs, _ :: _, [], _, _, hm => by simp [matchArgs] at hm
  | ⟨x, .tensor _ _⟩ :: fs, _ :: _, [], _, _, hm => by simp [matchArgs] at hm
  | ⟨x, .ctrl k⟩ :: fs, a :: as, b :: bs, ce, cv, hm => by
    simp only [matchArgs, Bool.and_eq_true] at hm
    simp only [bindArgs]
    refine (Sim.of_exEq (matchC_sound h hm.1)).bind (fun v v' hv => ?_)
    subst hv
    by_cases hk : k = CtrlKind.size ∧ v ≤ 0
    · simp only [hk, and_self, if_true]
      exact Sim.error _ _
    · simp only [hk, if_false]
      exact bindArgs_sim h hW fs as bs _ cv hm.2
  | ⟨x, .scalar⟩ :: fs, a :: as, b :: bs, ce, cv, hm => by
    simp only [matchArgs, Bool.and_eq_true] at hm
    simp only [bindArgs]
    refine (matchV_sound h hW hm.1).bind (fun v v' hv => ?_)
    subst hv
    exact bindArgs_sim h hW fs as bs ce _ hm.2
  | ⟨x, .tensor _ _⟩ :: fs, a :: as, b :: bs, ce, cv, hm => by
    simp only [matchArgs, Bool.and_eq_true] at hm
    simp only [bindArgs]
    refine (matchV_sound h hW hm.1).bind (fun v v' hv => ?_)
    subst hv
    exact bindArgs_sim h hW fs as bs ce _ hm.2

/-- a nested call with matching arguments -/
theorem execP_sim {θ : Subst} {σc σ : State V} (h : Rel θ σc σ) (hp : pureSubst θ = true)
    (hW : hasWin θ = true → W) (g : Proc) (as bs : List Expr)
    (hm : matchArgs θ g.args as bs = true) :
    Sim W (Rel θ) (execP ext g as σc) (execP ext g bs σ) := by
  obtain ⟨nm, fargs, preds, body⟩ := g
  rw [execP_eq_core, execP_eq_core]
  refine (bindArgs_sim h hW fargs as bs [] [] hm).bind (fun p p' hpp => ?_)
  subst hpp
  rw [h.heap, h.cfg]
  exact (Sim.of_eq rfl).map _ _ (fun a b hab => by subst hab; exact h.leave hp rfl rfl)

/-! ### the simulation -/

mutual
theorem matchS_sound : ∀ (s s' : Stmt) (θ θ' : Subst) (σc σ : State V),
    pureSubst θ = true → (hasWin θ = true → W) → Rel θ σc σ → matchS θ s s' = some θ' →
    Sim W (Rel θ') (execS ext s σc) (execS ext s' σ)
  | .assign x idx rhs, s', θ, θ', σc, σ, hp, hW, hr, hm => by
    cases s' with
    | assign x' idx' rhs' =>
      simp only [matchS] at hm
      split at hm
      · rename_i hc
        cases hm
        simp only [Bool.and_eq_true] at hc
        simp only [execS]
        refine (matchD_sound ext hr hW rhs rhs' hc.1).bind (fun v v' hv => ?_)
        subst hv
        exact writeCell_sim hr hp hW hc.2 _
      · cases hm
    | _ => simp [matchS] at hm
  | .reduce x idx rhs, s', θ, θ', σc, σ, hp, hW, hr, hm => by
    cases s' with
    | reduce x' idx' rhs' =>
      simp only [matchS] at hm
      split at hm
      · rename_i hc
        cases hm
        simp only [Bool.and_eq_true] at hc
        simp only [execS]
        refine (matchD_sound ext hr hW rhs rhs' hc.1).bind (fun v v' hv => ?_)
        subst hv
        exact writeCell_sim hr hp hW hc.2 _
      · cases hm
    | _ => simp [matchS] at hm
  | .writecfg c f rhs isData, s', θ, θ', σc, σ, hp, hW, hr, hm => by
    cases s' with
    | writecfg c' f' rhs' isData' =>
      simp only [matchS] at hm
      split at hm
      · rename_i hc
        cases hm
        simp only [Bool.and_eq_true, beq_iff_eq] at hc
        obtain ⟨⟨⟨rfl, rfl⟩, rfl⟩, hc4⟩ := hc
        simp only [execS]
        cases isData with
        | true =>
          simp only [matchRhs, if_true] at hc4 ⊢
          refine (matchD_sound ext hr hW rhs rhs' hc4).bind (fun v v' hv => ?_)
          subst hv
          exact Sim.pure (hr.sameScope hp rfl rfl rfl rfl hr.heap (by simp [hr.cfg]))
        | false =>
          simp only [matchRhs, Bool.false_eq_true, if_false] at hc4 ⊢
          refine (Sim.of_exEq (matchC_sound hr hc4)).bind (fun v v' hv => ?_)
          subst hv
          exact Sim.pure (hr.sameScope hp rfl rfl rfl rfl hr.heap (by simp [hr.cfg]))
      · cases hm
    | _ => simp [matchS] at hm
  | .pass, s', θ, θ', σc, σ, hp, hW, hr, hm => by
    cases s' with
    | pass =>
      simp only [matchS, Option.some.injEq] at hm
      subst hm
      simp only [execS, pure, Except.pure]
      exact Sim.pure hr
    | _ => simp [matchS] at hm
  | .ite c t e, s', θ, θ', σc, σ, hp, hW, hr, hm => by
    cases s' with
    | ite c' t' e' =>
      simp only [matchS] at hm
      split at hm
      · rename_i hc
        split at hm
        · rename_i θt θe ht he
          cases hm
          simp only [execS]
          refine (Sim.of_exEq (matchC_sound hr hc)).bind (fun b b' hb => ?_)
          subst hb
          split
          · exact (matchL_sound t t' θ θt σc σ hp hW hr ht).map _ _
              (fun a b hab => hr.leave hp hab.heap hab.cfg)
          · exact (matchL_sound e e' θ θe σc σ hp hW hr he).map _ _
              (fun a b hab => hr.leave hp hab.heap hab.cfg)
        · cases hm
      · cases hm
    | _ => simp [matchS] at hm
  | .loop i lo hi body par, s', θ, θ', σc, σ, hp, hW, hr, hm => by
    cases s' with
    | loop i' lo' hi' body' par' =>
      simp only [matchS] at hm
      split at hm
      · rename_i hc
        simp only [Bool.and_eq_true] at hc
        obtain ⟨⟨hc1, hc2⟩, hc3⟩ := hc
        split at hm
        · rename_i θb hb
          cases hm
          rw [execS_loop_eq, execS_loop_eq]
          refine (Sim.of_exEq (matchC_sound hr hc1)).bind (fun l l' hl => ?_)
          subst hl
          refine (Sim.of_exEq (matchC_sound hr hc2)).bind (fun h h' hh => ?_)
          subst hh
          split
          · exact Sim.error _ _
          · refine iterate_sim _ _ (fun v sc s hR => ?_) _ _ _ _ hr
            have hp' : pureSubst ((i, Target.ctrl (.read i' [])) :: θ) = true := by
              simp [pureSubst, Target.noCfg, noCfgE, noCfgEs, hp]
            have hW' : hasWin ((i, Target.ctrl (.read i' [])) :: θ) = true → W := by
              simpa [hasWin] using hW
            exact (matchL_sound body body' _ θb _ _ hp' hW' (hR.bindCtrl hp i i' v hc3) hb).map _ _
              (fun a b hab => hR.leave hp hab.heap hab.cfg)
        · cases hm
      · cases hm
    | _ => simp [matchS] at hm
  | .alloc x shape, s', θ, θ', σc, σ, hp, hW, hr, hm => by
    cases s' with
    | alloc x' shape' =>
      simp only [matchS] at hm
      split at hm
      · rename_i hc
        cases hm
        simp only [Bool.and_eq_true] at hc
        rw [execS_alloc_eq, execS_alloc_eq]
        refine (Sim.of_exEq (matchCs_sound hr hc.1)).bind (fun sh sh' hsh => ?_)
        subst hsh
        refine (Sim.of_eq rfl).bind (fun u u' _ => ?_)
        refine Sim.pure ?_
        exact hr.bindBuf hp x x' _ hc.2 rfl rfl rfl (by simp [hr.heap]) (by simp [hr.heap]) hr.cfg
      · cases hm
    | _ => simp [matchS] at hm
  | .free x, s', θ, θ', σc, σ, hp, hW, hr, hm => by
    cases s' with
    | free x' =>
      simp only [matchS, Option.some.injEq] at hm
      subst hm
      simp only [execS, pure, Except.pure]
      exact Sim.pure hr
    | _ => simp [matchS] at hm
  | .window x rhs, s', θ, θ', σc, σ, hp, hW, hr, hm => by
    cases s' with
    | window x' rhs' =>
      simp only [matchS] at hm
      split at hm
      · rename_i hc
        cases hm
        simp only [Bool.and_eq_true] at hc
        simp only [execS]
        refine (matchV_sound hr hW hc.1).bind (fun v v' hv => ?_)
        subst hv
        exact Sim.pure (hr.bindBuf hp x x' v hc.2 rfl rfl rfl rfl hr.heap hr.cfg)
      · cases hm
    | _ => simp [matchS] at hm
  | .call g args, s', θ, θ', σc, σ, hp, hW, hr, hm => by
    cases s' with
    | call g' args' =>
      simp only [matchS] at hm
      split at hm
      · rename_i hc
        cases hm
        simp only [Bool.and_eq_true] at hc
        have := eqP_eq _ _ hc.1
        subst this
        simp only [execS]
        exact execP_sim ext hr hp hW g args args' hc.2
      · cases hm
    | _ => simp [matchS] at hm
theorem matchL_sound : ∀ (ss ss' : List Stmt) (θ θ' : Subst) (σc σ : State V),
    pureSubst θ = true → (hasWin θ = true → W) → Rel θ σc σ → matchL θ ss ss' = some θ' →
    Sim W (Rel θ') (execL ext ss σc) (execL ext ss' σ)
  | [], [], θ, θ', σc, σ, hp, hW, hr, hm => by
    simp only [matchL, Option.some.injEq] at hm
    subst hm
    simp only [execL, pure, Except.pure]
    exact Sim.pure hr
  | [], _ :: _, _, _, _, _, _, _, _, hm => by simp [matchL] at hm
  | _ :: _, [], _, _, _, _, _, _, _, hm => by simp [matchL] at hm
  | s :: r, s' :: r', θ, θ', σc, σ, hp, hW, hr, hm => by
    simp only [matchL] at hm
    split at hm
    · rename_i θ1 h1
      have sh := matchS_shape s s' θ θ1 h1
      simp only [execL]
      refine (matchS_sound s s' θ θ1 σc σ hp hW hr h1).bind (fun a b hab => ?_)
      exact matchL_sound r r' θ1 θ' a b (pure_of_shape sh hp) (hasWin_of_shape sh hW) hab hm
    · cases hm
end

end Exo.Inline
