/-
  Lemmas about one `_UnionFind` (ExoModel/ProcEqv.lean): the representation invariant `Inv u R D`
  ("`u` represents the equivalence `R` on the declared procs `D`"), and what `find` / `union` /
  `check_eqv` / `new_node` / `copy_entire_UF` do to it.  The rank function `rk` is the ghost that
  makes `find` terminate: it strictly increases along parent links and is bounded by `links`.
-/
import ExoModel.Lemmas.ProcEqvDict
import ExoModel.Lemmas.ProcEqvConn
namespace Exo.ProcEqv

structure InvR (m : Dict) (links : Nat) (rk : Proc → Nat) (R : Proc → Proc → Prop) (D : Proc → Prop) :
    Prop where
  nodup : (dkeys m).Nodup
  dom : ∀ v, dget m v ≠ none ↔ D v
  par : ∀ v p, dget m v = some p → R v p ∧ D p
  rkle : ∀ v, rk v ≤ links
  rklt : ∀ v p, dget m v = some p → p ≠ v → rk v < rk p
  uniq : ∀ a b, dget m a = some a → dget m b = some b → R a b → a = b

/-- `u` represents the equivalence relation `R` on the declared procs `D` -/
def Inv (u : UF) (R : Proc → Proc → Prop) (D : Proc → Prop) : Prop :=
  ∃ rk, InvR u.lookup u.links rk R D

theorem Inv.congr {u : UF} {R R' : Proc → Proc → Prop} {D : Proc → Prop}
    (h : Inv u R D) (hRR : ∀ a b, R a b ↔ R' a b) : Inv u R' D := by
  obtain ⟨rk, h⟩ := h
  exact ⟨rk, { nodup := h.nodup, dom := h.dom, par := fun v p hv => ⟨(hRR _ _).1 (h.par v p hv).1, (h.par v p hv).2⟩,
               rkle := h.rkle, rklt := h.rklt, uniq := fun a b ha hb hab => h.uniq a b ha hb ((hRR _ _).2 hab) }⟩

theorem Inv.empty (R : Proc → Proc → Prop) : Inv UF.empty R (fun _ => False) :=
  ⟨fun _ => 0, { nodup := by simp [UF.empty, dkeys], dom := by simp [UF.empty, dget],
                 par := by simp [UF.empty, dget], rkle := by simp,
                 rklt := by simp [UF.empty, dget], uniq := by simp [UF.empty, dget] }⟩

/-! ### find -/

theorem findLoop_spec {links : Nat} {rk : Proc → Nat} {R : Proc → Proc → Prop} {D : Proc → Prop}
    (hR : Equivalence R) :
    ∀ (fuel : Nat) (m : Dict) (val parent : Proc), InvR m links rk R D → dget m val = some parent →
      links < fuel + rk val →
      ∃ r m', findLoop fuel m val parent = (.ok r, m') ∧ InvR m' links rk R D ∧ R val r ∧
        dget m r = some r ∧ (∀ a, dget m a = some a → dget m' a = some a) := by
  intro fuel
  induction fuel with
  | zero =>
    intro m val parent h _ hf
    have := h.rkle val
    omega
  | succ fuel ih =>
    intro m val parent h hval hf
    unfold findLoop
    by_cases hvp : val = parent
    · subst hvp
      exact ⟨val, m, by simp, h, hR.refl _, hval, fun a ha => ha⟩
    · simp only [hvp, if_false]
      have hpar := h.par val parent hval
      have hlt : rk val < rk parent := h.rklt val parent hval (fun e => hvp e.symm)
      have hsome : dget m parent ≠ none := (h.dom parent).2 hpar.2
      cases hgp : dget m parent with
      | none => exact absurd hgp hsome
      | some gp =>
        simp only []
        have hgpar := h.par parent gp hgp
        have hle : rk parent ≤ rk gp := by
          by_cases e : gp = parent
          · subst e; exact Nat.le_refl _
          · exact Nat.le_of_lt (h.rklt parent gp hgp e)
        have hgv : gp ≠ val := by intro e; subst e; omega
        -- the dict after `lookup[val] = grandparent`
        have hget : ∀ x, dget (dset m val gp) x = if x = val then some gp else dget m x := dget_dset m val gp
        have h' : InvR (dset m val gp) links rk R D :=
          { nodup := dkeys_dset_nodup m val gp h.nodup
            dom := by
              intro v
              rw [hget]
              by_cases e : v = val
              · subst e
                simp only [if_true]
                exact ⟨fun _ => (h.dom v).1 (by rw [hval]; simp), fun _ => by simp⟩
              · simp only [e, if_false]; exact h.dom v
            par := by
              intro v p hv
              rw [hget] at hv
              by_cases e : v = val
              · subst e
                simp only [if_true, Option.some.injEq] at hv
                subst hv
                exact ⟨hR.trans hpar.1 hgpar.1, hgpar.2⟩
              · simp only [e, if_false] at hv; exact h.par v p hv
            rkle := h.rkle
            rklt := by
              intro v p hv hpv
              rw [hget] at hv
              by_cases e : v = val
              · subst e
                simp only [if_true, Option.some.injEq] at hv
                subst hv
                omega
              · simp only [e, if_false] at hv; exact h.rklt v p hv hpv
            uniq := by
              intro a b ha hb hab
              rw [hget] at ha hb
              by_cases ea : a = val
              · subst ea
                simp only [if_true, Option.some.injEq] at ha
                exact absurd ha hgv
              · by_cases eb : b = val
                · subst eb
                  simp only [if_true, Option.some.injEq] at hb
                  exact absurd hb hgv
                · simp only [ea, eb, if_false] at ha hb
                  exact h.uniq a b ha hb hab }
        have hpg : dget (dset m val gp) parent = some gp := by
          rw [hget]
          by_cases e : parent = val
          · exact absurd e.symm hvp
          · simp [e, hgp]
        obtain ⟨r, m', hfl, hinv, hrel, hroot, hroots⟩ := ih (dset m val gp) parent gp h' hpg (by omega)
        refine ⟨r, m', hfl, hinv, hR.trans hpar.1 hrel, ?_, ?_⟩
        · -- r was already a root before the path-splitting step
          rw [hget] at hroot
          by_cases e : r = val
          · subst e; simp only [if_true, Option.some.injEq] at hroot; exact absurd hroot hgv
          · simpa [e] using hroot
        · intro a ha
          apply hroots
          rw [hget]
          by_cases e : a = val
          · subst e; rw [hval] at ha; simp only [Option.some.injEq] at ha; exact absurd ha.symm hvp
          · simp [e, ha]

theorem find_ok {u : UF} {R : Proc → Proc → Prop} {D : Proc → Prop} (hR : Equivalence R)
    (h : Inv u R D) {v : Proc} (hv : D v) :
    ∃ r u', u.find v = (.ok r, u') ∧ Inv u' R D ∧ R v r ∧ dget u.lookup r = some r ∧
      u'.links = u.links ∧ (∀ a, dget u.lookup a = some a → dget u'.lookup a = some a) := by
  obtain ⟨rk, h⟩ := h
  have hs := (h.dom v).2 hv
  unfold UF.find
  cases hp : dget u.lookup v with
  | none => exact absurd hp hs
  | some parent =>
    simp only []
    obtain ⟨r, m', hfl, hinv, hrel, hroot, hroots⟩ :=
      findLoop_spec hR (u.links + 1) u.lookup v parent h hp (by omega)
    exact ⟨r, { u with lookup := m' }, by rw [hfl], ⟨rk, hinv⟩, hrel, hroot, rfl, hroots⟩

theorem find_err {u : UF} {R : Proc → Proc → Prop} {D : Proc → Prop}
    (h : Inv u R D) {v : Proc} (hv : ¬ D v) : u.find v = (.error .keyError, u) := by
  obtain ⟨rk, h⟩ := h
  have : dget u.lookup v = none := by
    by_cases e : dget u.lookup v = none
    · exact e
    · exact absurd ((h.dom v).1 e) hv
  unfold UF.find
  rw [this]

/-! ### check_eqv -/

theorem checkEqv_ok {u : UF} {R : Proc → Proc → Prop} {D : Proc → Prop} (hR : Equivalence R)
    (h : Inv u R D) {p q : Proc} (hp : D p) (hq : D q) :
    ∃ b u', u.checkEqv p q = (.ok b, u') ∧ Inv u' R D ∧ (b = true ↔ R p q) := by
  obtain ⟨r1, u1, hf1, hi1, hr1, hroot1, _, hroots1⟩ := find_ok hR h hp
  obtain ⟨r2, u2, hf2, hi2, hr2, hroot2, _, _⟩ := find_ok hR hi1 hq
  refine ⟨decide (r1 = r2), u2, ?_, hi2, ?_⟩
  · unfold UF.checkEqv; simp only [hf1, hf2]
  · simp only [decide_eq_true_eq]
    constructor
    · rintro rfl; exact hR.trans hr1 (hR.symm hr2)
    · intro hpq
      obtain ⟨rk, hi1'⟩ := hi1
      exact hi1'.uniq r1 r2 (hroots1 r1 hroot1) hroot2
        (hR.trans (hR.symm hr1) (hR.trans hpq hr2))

theorem checkEqv_err {u : UF} {R : Proc → Proc → Prop} {D : Proc → Prop} (hR : Equivalence R)
    (h : Inv u R D) {p q : Proc} (hpq : ¬ (D p ∧ D q)) :
    ∃ u', u.checkEqv p q = (.error .keyError, u') ∧ Inv u' R D := by
  by_cases hp : D p
  · have hq : ¬ D q := fun hq => hpq ⟨hp, hq⟩
    obtain ⟨r1, u1, hf1, hi1, _⟩ := find_ok hR h hp
    refine ⟨u1, ?_, hi1⟩
    unfold UF.checkEqv; simp only [hf1, find_err hi1 hq]
  · refine ⟨u, ?_, h⟩
    unfold UF.checkEqv; simp only [find_err h hp]

/-! ### union -/

theorem union_ok {u : UF} {R : Proc → Proc → Prop} {D : Proc → Prop} (hR : Equivalence R)
    (h : Inv u R D) {p q : Proc} (hp : D p) (hq : D q) :
    ∃ u', u.union p q = (none, u') ∧ Inv u' (Join R p q) D := by
  obtain ⟨r1, u1, hf1, hi1, hr1, hroot1, _, hroots1⟩ := find_ok hR h hp
  obtain ⟨r2, u2, hf2, hi2, hr2, hroot2, hl2, hroots2⟩ := find_ok hR hi1 hq
  have hroot1' : dget u2.lookup r1 = some r1 := hroots2 r1 (hroots1 r1 hroot1)
  have hroot2' : dget u2.lookup r2 = some r2 := hroots2 r2 hroot2
  by_cases e : r1 = r2
  · refine ⟨u2, ?_, ?_⟩
    · unfold UF.union; simp only [hf1, hf2, e, if_true]
    · have hpq : R p q := by subst e; exact hR.trans hr1 (hR.symm hr2)
      exact hi2.congr (fun a b => (Join.of_rel hR hpq a b).symm)
  · refine ⟨{ lookup := dset u2.lookup r2 r1, links := u2.links + 1 }, ?_, ?_⟩
    · unfold UF.union; simp only [hf1, hf2, e, if_false]
    · obtain ⟨rk, hi⟩ := hi2
      have hD1 : D r1 := (hi.par r1 r1 hroot1').2
      have hD2 : D r2 := (hi.par r2 r2 hroot2').2
      have hget : ∀ x, dget (dset u2.lookup r2 r1) x = if x = r2 then some r1 else dget u2.lookup x :=
        dget_dset u2.lookup r2 r1
      refine ⟨fun v => if v = r1 then max (rk r1) (rk r2 + 1) else rk v, ?_⟩
      exact
        { nodup := dkeys_dset_nodup _ _ _ hi.nodup
          dom := by
            intro v
            simp only [hget]
            by_cases ev : v = r2
            · subst ev; simp only [if_true]; exact ⟨fun _ => hD2, fun _ => by simp⟩
            · simp only [ev, if_false]; exact hi.dom v
          par := by
            intro v x hv
            simp only [hget] at hv
            by_cases ev : v = r2
            · subst ev
              simp only [if_true, Option.some.injEq] at hv
              subst hv
              exact ⟨Or.inr (Or.inr ⟨hR.symm hr2, hr1⟩), hD1⟩
            · simp only [ev, if_false] at hv
              exact ⟨Or.inl (hi.par v x hv).1, (hi.par v x hv).2⟩
          rkle := by
            intro v
            have a1 := hi.rkle r1
            have a2 := hi.rkle r2
            have a3 := hi.rkle v
            simp only []
            split <;> omega
          rklt := by
            intro v x hv hxv
            simp only [hget] at hv
            show (if v = r1 then max (rk r1) (rk r2 + 1) else rk v)
                < (if x = r1 then max (rk r1) (rk r2 + 1) else rk x)
            by_cases ev : v = r2
            · rw [ev] at hv
              simp only [if_true, Option.some.injEq] at hv
              have h21 : ¬ r2 = r1 := fun h => e h.symm
              rw [ev, ← hv]
              simp only [h21, if_false, if_true]
              omega
            · simp only [ev, if_false] at hv
              have hlt := hi.rklt v x hv hxv
              have hv1 : v ≠ r1 := by
                intro h1; rw [h1, hroot1'] at hv
                simp only [Option.some.injEq] at hv; exact hxv (h1 ▸ hv.symm)
              simp only [hv1, if_false]
              by_cases ex : x = r1
              · simp only [ex, if_true]; rw [ex] at hlt; omega
              · simp only [ex, if_false]; exact hlt
          uniq := by
            intro a b ha hb hab
            simp only [hget] at ha hb
            have ha2 : a ≠ r2 := by
              intro h2; subst h2; simp only [if_true, Option.some.injEq] at ha; exact e ha
            have hb2 : b ≠ r2 := by
              intro h2; subst h2; simp only [if_true, Option.some.injEq] at hb; exact e hb
            simp only [ha2, hb2, if_false] at ha hb
            rcases hab with hab | ⟨h1, h2⟩ | ⟨h1, h2⟩
            · exact hi.uniq a b ha hb hab
            · exact absurd (hi.uniq b r2 hb hroot2' (hR.trans (hR.symm h2) hr2)) hb2
            · exact absurd (hi.uniq a r2 ha hroot2' (hR.trans h1 hr2)) ha2 }

theorem union_err {u : UF} {R : Proc → Proc → Prop} {D : Proc → Prop} (hR : Equivalence R)
    (h : Inv u R D) {p q : Proc} (hpq : ¬ (D p ∧ D q)) :
    ∃ u', u.union p q = (some .keyError, u') ∧ Inv u' R D := by
  by_cases hp : D p
  · have hq : ¬ D q := fun hq => hpq ⟨hp, hq⟩
    obtain ⟨r1, u1, hf1, hi1, _⟩ := find_ok hR h hp
    refine ⟨u1, ?_, hi1⟩
    unfold UF.union; simp only [hf1, find_err hi1 hq]
  · refine ⟨u, ?_, h⟩
    unfold UF.union; simp only [find_err h hp]

/-! ### new_node, copy -/

theorem newNode_inv {u : UF} {R : Proc → Proc → Prop} {D : Proc → Prop}
    (hsupp : ∀ a b, R a b → a = b ∨ (D a ∧ D b)) (hrefl : ∀ a, R a a)
    (h : Inv u R D) (v : Proc) : Inv (u.newNode v) R (fun x => x = v ∨ D x) := by
  obtain ⟨rk, h⟩ := h
  unfold UF.newNode
  cases hv : dget u.lookup v with
  | some p =>
    simp only []
    have hDv : D v := (h.dom v).1 (by rw [hv]; simp)
    exact ⟨rk, { nodup := h.nodup
                 dom := fun x => ⟨fun hx => Or.inr ((h.dom x).1 hx),
                                  fun hx => (h.dom x).2 (hx.elim (fun e => e ▸ hDv) id)⟩
                 par := fun x p hx => ⟨(h.par x p hx).1, Or.inr (h.par x p hx).2⟩
                 rkle := h.rkle, rklt := h.rklt, uniq := h.uniq }⟩
  | none =>
    simp only []
    have hDv : ¬ D v := fun hd => (h.dom v).2 hd hv
    have hget : ∀ x, dget (dset u.lookup v v) x = if x = v then some v else dget u.lookup x :=
      dget_dset u.lookup v v
    exact ⟨rk,
      { nodup := dkeys_dset_nodup _ _ _ h.nodup
        dom := by
          intro x
          simp only [hget]
          by_cases e : x = v
          · simp [e]
          · simp only [e, if_false, false_or]; exact h.dom x
        par := by
          intro x p hx
          simp only [hget] at hx
          by_cases e : x = v
          · subst e; simp only [if_true, Option.some.injEq] at hx; subst hx
            exact ⟨hrefl _, Or.inl rfl⟩
          · simp only [e, if_false] at hx
            exact ⟨(h.par x p hx).1, Or.inr (h.par x p hx).2⟩
        rkle := h.rkle
        rklt := by
          intro x p hx hpx
          simp only [hget] at hx
          by_cases e : x = v
          · subst e; simp only [if_true, Option.some.injEq] at hx; exact absurd hx.symm hpx
          · simp only [e, if_false] at hx; exact h.rklt x p hx hpx
        uniq := by
          intro a b ha hb hab
          simp only [hget] at ha hb
          rcases hsupp a b hab with e | ⟨hDa, hDb⟩
          · exact e
          · have ea : a ≠ v := fun e => hDv (e ▸ hDa)
            have eb : b ≠ v := fun e => hDv (e ▸ hDb)
            simp only [ea, eb, if_false] at ha hb
            exact h.uniq a b ha hb hab }⟩

theorem copy_eq {u : UF} {R : Proc → Proc → Prop} {D : Proc → Prop} (h : Inv u R D) : u.copy = u := by
  obtain ⟨rk, h⟩ := h
  unfold UF.copy
  rw [copyDict_eq _ h.nodup]

end Exo.ProcEqv
