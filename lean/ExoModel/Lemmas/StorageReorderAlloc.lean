/-
  `reorder_stmts` when one of the two statements is an allocation (the `AllocCommutes` case of
  `Check_ReorderStmts`), part 2 (part 1 = the frame lemma, StorageReorderAlloc1.lean):

      x : T[sh] ; s ; rest     vs     s ; x : T[sh] ; rest

  for a statement `s` that defines nothing (`s.isDef = false`), does not mention `x`, and does not
  change the value of the extents `sh` (`ExtentsStable`; implied by `sh.all Expr.cfgFree`).

  * `reorder_alloc_up_refW`   : `s ; x : T[sh] ; rest`  ⊑  `x : T[sh] ; s ; rest`
      (no frame lemma: the original's buffer is fresh when `rest` starts, `none` is refined by
      whatever the new program's buffer holds)
  * `reorder_alloc_down_refW` : `x : T[sh] ; s ; rest`  ⊑  `s ; x : T[sh] ; rest`
      (frame lemma `Stg.execS_untouched`: `s` leaves the original's buffer all-`none`)
  * `…_cfgFree`: the same with the syntactic side condition on the extents
  * `Rw.reorderAllocGuard`, `Rw.reorderStmtsAlloc`, `Rw.reorderStmtsAlloc_sound`,
    `reorder_stmts_alloc_anywhere`
  * non-vacuity example and counter-examples (`x ∉ s.names` is needed in both directions).

  The case "the allocation is the SECOND statement" is the same pair of theorems read from right to
  left (`up` moves it in front of its left neighbour, `down` behind its right neighbour); the guard
  accepts both.  NOT covered: both statements are allocations — the two programs then exchange the
  buffer ids of the two buffers, which needs a simulation up to a permutation of buffer ids (`Sim`
  only knows the insertion of a block of buffers); `allocCommutes` rejects it (`s.isDef`).
-/
import ExoModel.Lemmas.StorageReorderAlloc1

set_option linter.unusedSectionVars false
set_option linter.unusedVariables false
namespace Exo.Stg
open Exo
variable {V : Type} {R : Option V → Option V → Prop}

/-- the left state has not allocated `x` yet, the right one has it at position `N` with cells
    related to fresh ones: after the left allocation the two states have the same layout -/
theorem sim_allocNow {x : Sym} {ds : List (Int × Int)} {n N : Nat} {a a' : State V}
    (hs : Sim R N 1 (fun y => y = x) a a') (hlen : a.heap.length = N)
    (hv' : a'.views = (x, { buf := N, off := 0, dims := ds }) :: a.views)
    (hb : ∃ b, a'.heap[N]? = some b ∧ Forall₂ R (List.replicate n none) b) :
    Sim R 0 0 (fun _ => False)
      { a with heap := a.heap ++ [List.replicate n none],
               views := (x, { buf := a.heap.length, off := 0, dims := ds }) :: a.views } a' := by
  obtain ⟨bx, hbx, hbl⟩ := hb
  have hl := hs.len
  refine ⟨hs.env, Nat.zero_le _, ?_, ?_, ?_, hs.cfg⟩
  · simp only [List.length_append, List.length_cons, List.length_nil]; omega
  · intro b buf hb
    simp only [] at hb ⊢
    rw [shiftB_zero]
    by_cases hlt : b < a.heap.length
    · rw [List.getElem?_append_left hlt] at hb
      obtain ⟨buf', h1, h2⟩ := hs.bufs b buf hb
      rw [shiftB_lt (by omega)] at h1
      exact ⟨buf', h1, h2⟩
    · have hge : a.heap.length ≤ b := Nat.le_of_not_lt hlt
      rw [List.getElem?_append_right hge] at hb
      cases hd : b - a.heap.length with
      | succ m => rw [hd] at hb; simp at hb
      | zero =>
        rw [hd] at hb
        simp at hb
        subst hb
        have hbe : b = N := by omega
        subst hbe
        exact ⟨bx, hbx, hbl⟩
  · simp only [hv', hlen]
    exact ViewsRel.refl 0 (fun _ => False) _

theorem forall2_replicate_none (hnone : ∀ y, R none y) : ∀ (b : List (Option V)),
    Forall₂ R (List.replicate b.length none) b
  | [] => .nil
  | c :: r => by
    rw [List.length_cons, List.replicate_succ]
    exact .cons (hnone c) (forall2_replicate_none hnone r)

section
variable [DataAlg V] (ext : String → List V → V)

theorem execL_cons_ok {a : Stmt} {r : List Stmt} {σ o : State V}
    (h : execL ext (a :: r) σ = .ok o) : ∃ t, execS ext a σ = .ok t ∧ execL ext r t = .ok o := by
  rw [show a :: r = [a] ++ r from rfl, execL_append, execL_singleton] at h
  cases h1 : execS ext a σ with
  | error e => rw [h1] at h; cases h
  | ok t => rw [h1] at h; exact ⟨t, rfl, h⟩

theorem execL_cons_eq {a : Stmt} {r : List Stmt} {σ t : State V} (h : execS ext a σ = .ok t) :
    execL ext (a :: r) σ = execL ext r t := by
  rw [show a :: r = [a] ++ r from rfl, execL_append, execL_singleton, h]
  rfl

theorem evalCs_cfgFree : ∀ (sh : List Expr), sh.all Expr.cfgFree = true → ∀ (σ σ' : State V),
    σ'.env = σ.env → σ'.views = σ.views → evalCs σ' sh = evalCs σ sh
  | [], _, _, _, _, _ => rfl
  | e :: r, h, σ, σ', he, hv => by
    simp only [List.all_cons, Bool.and_eq_true] at h
    simp only [evalCs]
    rw [evalC_cfgFree e σ σ' h.1 he hv, evalCs_cfgFree r h.2 σ σ' he hv]

end

/-- the statement does not change the value of the extents (it cannot change `env` or `views`
    when it is not a definition, so only configuration reads are at stake) -/
def ExtentsStable (s : Stmt) (sh : List Expr) : Prop :=
  ∀ (V : Type) [DataAlg V] (ext : String → List V → V) (σ t : State V),
    execS ext s σ = .ok t → evalCs t sh = evalCs σ sh

theorem extentsStable_of_cfgFree (s : Stmt) (sh : List Expr) (hd : s.isDef = false)
    (hc : sh.all Expr.cfgFree = true) : ExtentsStable s sh := by
  intro V _ ext σ t h
  have sc := execS_scope ext s σ t h
  exact evalCs_cfgFree sh hc σ t sc.1 (sc.2.2 hd).1

/-- **moving an allocation UP** over a statement that defines nothing and does not mention it:
    `s ; x : T[sh] ; rest`  ⊑  `x : T[sh] ; s ; rest` -/
theorem reorder_alloc_up_refW (x : Sym) (sh : List Expr) (s : Stmt) (rest : List Stmt)
    (hd : s.isDef = false) (hx : ∀ y ∈ s.names, y ≠ x) (hst : ExtentsStable s sh) :
    BlockRefW (s :: .alloc x sh :: rest) (.alloc x sh :: s :: rest) := by
  intro V _ ext σ σ' o hr ho
  obtain ⟨o1, ho1, rfl⟩ := execB_ok_inv ext ho
  obtain ⟨t, h1, ho2⟩ := execL_cons_ok ext ho1
  obtain ⟨ta, h2, ho3⟩ := execL_cons_ok ext ho2
  obtain ⟨szs, hsz, hpos⟩ := execS_alloc_ok ext h2
  have hta := execS_alloc ext x sh t szs hsz hpos
  rw [h2] at hta
  have hta := Except.ok.inj hta
  subst hta
  have hlen : σ'.heap.length = σ.heap.length := by have := hr.ref.sim.len; omega
  have hvs : σ'.views = σ.views := hr.ref.views_eq
  -- the new program allocates first, in `σ'`
  have hsz' : evalCs σ' sh = .ok szs := by
    rw [evalCs_sim hr.ref.sim sh (fun _ _ h => h), ← hst V ext σ t h1]; exact hsz
  have hal := execS_alloc ext x sh σ' szs hsz' hpos
  have hSA := Sim.insertEnd (X := fun y => y = x) hr.ref.sim hr.ok x rfl
    (List.replicate (szs.foldl (· * ·) 1).toNat none)
    ({ buf := σ'.heap.length, off := 0, dims := denseDims szs } : View)
  -- `s` in lock step, with the extra buffer in place on the right
  obtain ⟨t', h1', htt⟩ :=
    (execS_sim ext CellRel.refines s σ.heap.length 1 (fun y => y = x) σ _ hx hSA).ok_left h1
  have sc := (execS_scope ext s σ t h1).2.2 hd
  have sc' := (execS_scope ext s _ t' h1').2.2 hd
  -- the extra buffer keeps its length
  have hshape := execL_shape ext [s] _ t' (by rw [execL_singleton]; exact h1') σ.heap.length
    (by simp only [List.length_append, List.length_cons, List.length_nil]; omega)
  have hbuf0 : (σ'.heap ++ [List.replicate (szs.foldl (· * ·) 1).toNat (none : Option V)])[σ.heap.length]?
      = some (List.replicate (szs.foldl (· * ·) 1).toNat none) := by
    rw [List.getElem?_append_right (by omega), hlen]; simp
  simp only [] at hshape
  rw [hbuf0] at hshape
  have href : Ref
      ({ t with heap := t.heap ++ [List.replicate (szs.foldl (· * ·) 1).toNat none],
                views := (x, { buf := t.heap.length, off := 0, dims := denseDims szs }) :: t.views } :
        State V) t' := by
    refine sim_allocNow (N := σ.heap.length) (ds := denseDims szs)
      (n := (szs.foldl (· * ·) 1).toNat) htt sc.2 ?_ ?_
    · rw [sc'.1, sc.1, hlen, hvs]
    · cases h3 : t'.heap[σ.heap.length]? with
      | none => rw [h3] at hshape; simp at hshape
      | some b3 =>
        rw [h3] at hshape
        simp only [Option.map_some, Option.some.injEq, List.length_replicate] at hshape
        refine ⟨b3, rfl, ?_⟩
        rw [← hshape]
        exact forall2_replicate_none (fun _ => Or.inl rfl) b3
  -- the rest of the block, monotonicity
  obtain ⟨o1', ho3', hoo⟩ := (exec_mono ext rest href).ok_left ho3
  have hrun : execL ext (.alloc x sh :: s :: rest) σ' = .ok o1' := by
    rw [execL_cons_eq ext hal, execL_cons_eq ext h1']; exact ho3'
  exact ⟨State.leave σ' o1', execB_ok ext hrun,
    hr.leave hoo (execL_scope ext _ σ o1 ho1).2.1⟩

/-- **moving an allocation DOWN** over a statement that defines nothing and does not mention it:
    `x : T[sh] ; s ; rest`  ⊑  `s ; x : T[sh] ; rest`.  The original's buffer is in scope while `s`
    runs; the frame lemma says `s` does not touch it. -/
theorem reorder_alloc_down_refW (x : Sym) (sh : List Expr) (s : Stmt) (rest : List Stmt)
    (hd : s.isDef = false) (hx : ∀ y ∈ s.names, y ≠ x) (hst : ExtentsStable s sh) :
    BlockRefW (.alloc x sh :: s :: rest) (s :: .alloc x sh :: rest) := by
  intro V _ ext σ σ' o hr ho
  obtain ⟨o1, ho1, rfl⟩ := execB_ok_inv ext ho
  obtain ⟨σa, h1, ho2⟩ := execL_cons_ok ext ho1
  obtain ⟨tL, h2, ho3⟩ := execL_cons_ok ext ho2
  obtain ⟨szs, hsz, hpos⟩ := execS_alloc_ok ext h1
  have hσa := execS_alloc ext x sh σ szs hsz hpos
  rw [h1] at hσa
  have hσa := Except.ok.inj hσa
  subst hσa
  have hlen : σ'.heap.length = σ.heap.length := by have := hr.ref.sim.len; omega
  have hvs : σ'.views = σ.views := hr.ref.views_eq
  -- `σ'` (left) against the original after its allocation (right), relation reversed
  have hSA := Sim.insertEnd (X := fun y => y = x) hr.ref.sim.flip00 hr.ok' x rfl
    (List.replicate (szs.foldl (· * ·) 1).toNat none)
    ({ buf := σ.heap.length, off := 0, dims := denseDims szs } : View)
  obtain ⟨t', h2', htt⟩ :=
    (execS_sim ext CellRel.refinedBy s σ'.heap.length 1 (fun y => y = x) σ' _ hx hSA).ok_right h2
  -- frame: the original's buffer is still fresh after `s`
  have hHid : Hidden σ.heap.length (fun y => y = x)
      ({ σ with heap := σ.heap ++ [List.replicate (szs.foldl (· * ·) 1).toNat none],
                views := (x, { buf := σ.heap.length, off := 0, dims := denseDims szs }) :: σ.views } :
        State V) := by
    intro p hp hb
    rcases List.mem_cons.1 hp with rfl | hp
    · rfl
    · have := hr.ok p hp; omega
  have hfr := (execS_untouched ext s σ.heap.length (fun y => y = x) _ tL hx hHid
    (by simp only [List.length_append, List.length_cons, List.length_nil]; omega) h2).1
  simp only [] at hfr
  rw [List.getElem?_append_right (Nat.le_refl _)] at hfr
  simp only [Nat.sub_self, List.getElem?_cons_zero] at hfr
  have sc := (execS_scope ext s _ tL h2).2.2 hd
  have sc' := (execS_scope ext s σ' t' h2').2.2 hd
  -- the new program allocates now, in `t'`
  have hsz' : evalCs t' sh = .ok szs := by
    rw [hst V ext σ' t' h2', evalCs_sim hr.ref.sim sh (fun _ _ h => h)]; exact hsz
  have hal := execS_alloc ext x sh t' szs hsz' hpos
  have hin := sim_allocNow (R := fun a b => CellRefines b a) (N := σ'.heap.length) (ds := denseDims szs)
      (n := (szs.foldl (· * ·) 1).toNat) htt sc'.2
      (by rw [sc.1, sc'.1, hlen, hvs])
      ⟨_, by rw [hlen]; exact hfr, Forall₂.refl (R := fun a b => CellRefines b a) (fun _ => Or.inr rfl) _⟩
  have href : Ref tL _ := hin.flip00
  obtain ⟨o1', ho3', hoo⟩ := (exec_mono ext rest href).ok_left ho3
  have hrun : execL ext (s :: .alloc x sh :: rest) σ' = .ok o1' := by
    rw [execL_cons_eq ext h2', execL_cons_eq ext hal]; exact ho3'
  exact ⟨State.leave σ' o1', execB_ok ext hrun,
    hr.leave hoo (execL_scope ext _ σ o1 ho1).2.1⟩

/-- syntactic side condition: the extents do not read configuration state -/
theorem reorder_alloc_up_cfgFree (x : Sym) (sh : List Expr) (s : Stmt) (rest : List Stmt)
    (hd : s.isDef = false) (hx : ∀ y ∈ s.names, y ≠ x) (hc : sh.all Expr.cfgFree = true) :
    BlockRefW (s :: .alloc x sh :: rest) (.alloc x sh :: s :: rest) :=
  reorder_alloc_up_refW x sh s rest hd hx (extentsStable_of_cfgFree s sh hd hc)

theorem reorder_alloc_down_cfgFree (x : Sym) (sh : List Expr) (s : Stmt) (rest : List Stmt)
    (hd : s.isDef = false) (hx : ∀ y ∈ s.names, y ≠ x) (hc : sh.all Expr.cfgFree = true) :
    BlockRefW (.alloc x sh :: s :: rest) (s :: .alloc x sh :: rest) :=
  reorder_alloc_down_refW x sh s rest hd hx (extentsStable_of_cfgFree s sh hd hc)

end Exo.Stg

/-! ### the guarded local rewrite -/
namespace Exo.Rw
open Exo Exo.Stg

/-- `a` is `x : T[sh]` with configuration-free extents, `s` defines nothing and does not mention
    `x` -/
def allocCommutes (a s : Stmt) : Bool :=
  match a with
  | .alloc x sh => !s.isDef && notIn x s.names && sh.all Expr.cfgFree
  | _ => false

/-- the first statement is an allocation that commutes with the second, or the other way round -/
def reorderAllocGuard : List Stmt → Bool
  | a :: b :: _ => allocCommutes a b || allocCommutes b a
  | _ => false

/-- `reorder_stmts` restricted to the `AllocCommutes` case -/
def reorderStmtsAlloc : Local := fun ss => if reorderAllocGuard ss then reorderStmts ss else none

theorem allocCommutes_spec {a s : Stmt} (h : allocCommutes a s = true) :
    ∃ x sh, a = .alloc x sh ∧ s.isDef = false ∧ (∀ y ∈ s.names, y ≠ x) ∧
      sh.all Expr.cfgFree = true := by
  cases a with
  | alloc x sh =>
    simp only [allocCommutes, Bool.and_eq_true, Bool.not_eq_true'] at h
    exact ⟨x, sh, rfl, h.1.1, notIn_iff.1 h.1.2, h.2⟩
  | _ => simp [allocCommutes] at h

theorem reorderStmtsAlloc_sound :
    ∀ (ss r : List Stmt), reorderStmtsAlloc ss = some r → BlockRefW ss r := by
  intro ss r h
  unfold reorderStmtsAlloc at h
  split at h
  · rename_i hg
    match ss, hg, h with
    | [], hg, _ => simp [reorderAllocGuard] at hg
    | [_], hg, _ => simp [reorderAllocGuard] at hg
    | a :: b :: rest, hg, h =>
      simp only [reorderStmts, Option.some.injEq] at h
      subst h
      simp only [reorderAllocGuard, Bool.or_eq_true] at hg
      rcases hg with hg | hg
      · obtain ⟨x, sh, rfl, hd, hx, hc⟩ := allocCommutes_spec hg
        exact reorder_alloc_down_cfgFree x sh b rest hd hx hc
      · obtain ⟨x, sh, rfl, hd, hx, hc⟩ := allocCommutes_spec hg
        exact reorder_alloc_up_cfgFree x sh a rest hd hx hc
  · cases h

end Exo.Rw

namespace Exo
open Exo.Stg

/-- `reorder_stmts` of an allocation and a neighbour that defines nothing and does not mention it,
    anywhere in a procedure (well-scoped initial states) -/
theorem reorder_stmts_alloc_anywhere (path : Rw.Path) (nm : String) (args : List FnArg)
    (preds : List Expr) (body body' : List Stmt)
    (h : Rw.rewriteAt Rw.reorderStmtsAlloc path body = some body') :
    EquivOn WellScoped (fun _ => False) (.mk nm args preds body) (.mk nm args preds body') :=
  equivOn_of_blockRefW (rewriteAt_refW _ Rw.reorderStmtsAlloc_sound path body body' h) nm args preds

/-! ### non-vacuity and counter-examples -/
namespace Stg.Ex

def t : Sym := ⟨"t", 3⟩
def a : Sym := ⟨"a", 1⟩
def y : Sym := ⟨"y", 2⟩

/-- `t : R[4] ; y[0] = a[0]` -/
def prog : List Stmt :=
  [.alloc t [.lit (.int 4)], .assign y [.lit (.int 0)] (.read a [.lit (.int 0)])]
/-- `y[0] = a[0] ; t : R[4]` -/
def prog' : List Stmt :=
  [.assign y [.lit (.int 0)] (.read a [.lit (.int 0)]), .alloc t [.lit (.int 4)]]

example : Rw.reorderAllocGuard prog = true := by decide
example : Rw.reorderAllocGuard prog' = true := by decide
example : Rw.reorderStmtsAlloc prog = some prog' := rfl
example : Rw.reorderStmtsAlloc prog' = some prog := rfl

example : BlockRefW prog prog' := Rw.reorderStmtsAlloc_sound _ _ rfl
example : BlockRefW prog' prog := Rw.reorderStmtsAlloc_sound _ _ rfl

example : EquivOn WellScoped (fun _ => False) (.mk "p" [] [] prog) (.mk "p" [] [] prog') :=
  reorder_stmts_alloc_anywhere [.body 0] "p" [] [] prog prog' rfl

/-- inside a loop body -/
example : EquivOn WellScoped (fun _ => False)
    (.mk "p" [] [] [.loop ⟨"i", 9⟩ (.lit (.int 0)) (.lit (.int 2)) prog' false])
    (.mk "p" [] [] [.loop ⟨"i", 9⟩ (.lit (.int 0)) (.lit (.int 2)) prog false]) :=
  reorder_stmts_alloc_anywhere [.body 0, .body 0] "p" [] [] _ _ rfl

/-- a well-scoped state from which both orders run -/
def σ0 : State Int :=
  { env := [], views := [(a, ⟨0, 0, [(2, 1)]⟩), (y, ⟨1, 0, [(2, 1)]⟩)],
    heap := [[some 5, some 6], [none, none]], cfg := [] }

example : ∃ o, execB (fun _ _ => (0 : Int)) prog σ0 = .ok o ∧ o.heap = [[some 5, some 6], [some 5, none]] :=
  ⟨_, rfl, rfl⟩
example : ∃ o, execB (fun _ _ => (0 : Int)) prog' σ0 = .ok o ∧ o.heap = [[some 5, some 6], [some 5, none]] :=
  ⟨_, rfl, rfl⟩

/-- the guard rejects a statement that mentions the buffer, two allocations, and extents that read
    configuration state -/
example : Rw.reorderStmtsAlloc [.alloc t [], .assign t [] (.lit (.data 1 1))] = none := rfl
example : Rw.reorderStmtsAlloc [.alloc t [], .alloc y []] = none := rfl
example : Rw.reorderStmtsAlloc [.alloc t [.readcfg "c" "n"], .pass] = none := rfl

/-! `x ∉ s.names` is needed.  DOWN: `t : R ; t = 1.0` runs, `t = 1.0 ; t : R` is a scope error. -/

def cexDown : List Stmt := [.alloc t [], .assign t [] (.lit (.data 1 1))]
def cexDown' : List Stmt := [.assign t [] (.lit (.data 1 1)), .alloc t []]

def σe : State Int := { env := [], views := [], heap := [], cfg := [] }

theorem σe_ok : ViewsOk σe := by
  intro p hp
  cases hp

theorem reorder_alloc_down_needs_notMentioned : ¬ BlockRefW cexDown cexDown' := by
  intro h
  have h1 : execB (fun _ _ => (0 : Int)) cexDown σe
      = .ok { env := [], views := [], heap := [], cfg := [] } := rfl
  obtain ⟨t', ht', _⟩ := h Int (fun _ _ => (0 : Int)) σe σe _ (WRef.refl σe_ok) h1
  have h2 : execB (fun _ _ => (0 : Int)) cexDown' σe = .error .scope := rfl
  rw [h2] at ht'
  cases ht'

/-! UP: with an outer `t` in scope, `t = 1.0 ; t : R` writes the OUTER `t`, `t : R ; t = 1.0` writes
    the new buffer and leaves the outer one alone. -/

def σt : State Int := { env := [], views := [(t, ⟨0, 0, []⟩)], heap := [[some 0]], cfg := [] }

theorem σt_ok : ViewsOk σt := by
  show ∀ p ∈ [(t, (⟨0, 0, []⟩ : View))], p.2.buf < 1
  intro p hp
  rw [List.mem_singleton] at hp
  subst hp
  decide

theorem reorder_alloc_up_needs_notMentioned : ¬ BlockRefW cexDown' cexDown := by
  intro h
  have h1 : execB (fun _ _ => (0 : Int)) cexDown' σt
      = .ok { env := [], views := [(t, ⟨0, 0, []⟩)], heap := [[some 1]], cfg := [] } := rfl
  obtain ⟨t', ht', hr⟩ := h Int (fun _ _ => (0 : Int)) σt σt _ (WRef.refl σt_ok) h1
  have h2 : execB (fun _ _ => (0 : Int)) cexDown σt
      = .ok { env := [], views := [(t, ⟨0, 0, []⟩)], heap := [[some 0]], cfg := [] } := rfl
  rw [h2] at ht'
  cases ht'
  have hc := hr.ref.cells (0, 0)
  rcases hc with hc | hc <;> exact absurd hc (by decide)

end Stg.Ex

end Exo
