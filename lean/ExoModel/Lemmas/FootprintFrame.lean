/-
  Lemmas about dynamic footprints, part 6: the frame / commutation theorem for blocks.
-/
import ExoModel.Lemmas.FootprintCommute
import ExoModel.Lemmas.Reach

set_option linter.unusedSectionVars false
set_option linter.unusedVariables false
namespace Exo.Fp
open Exo

variable {V : Type} [DataAlg V] (ext : String → List V → V)

theorem state_ext {a b : State V} (h1 : a.env = b.env) (h2 : a.views = b.views)
    (h3 : a.heap = b.heap) (h4 : a.cfg = b.cfg) : a = b := by
  cases a; cases b; simp_all

/-- after a successful run of a block without top-level definitions, the state agrees with the
    initial one on every cell and field the run did not modify -/
theorem agree_after {B : List Stmt} {σ σb : State V} (hB : noDefs B = true)
    (h : execL ext B σ = .ok σb) :
    Agree (fun c => σ.heap.length ≤ c.1 ∨
              (c ∉ writes (evL ext B σ) ∧ c ∉ reduces (evL ext B σ)))
          (fun k => k ∉ cfgWrites (evL ext B σ)) σ σb := by
  have sc := execL_scope ext B σ σb h
  have h3 := sc.2.2 (by simp [hB])
  have rp := replayL ext B σ σb h
  refine ⟨sc.1, h3.1, shape_of_replay rp h3.2, fun c hp => ?_, fun k hk => ?_⟩
  · rcases hp with hp | ⟨hw, hr⟩
    · rw [heapGet_out _ _ (by rw [h3.2]; exact hp), heapGet_out _ _ hp]
    · by_cases hlt : c.1 < σ.heap.length
      · rw [rp.cells c hlt, cellEff_untouched c _ _ hw hr]
      · rw [heapGet_out _ _ (by rw [h3.2]; omega), heapGet_out _ _ (by omega)]
  · rw [rp.cfg]; exact lookup_cfgEff_untouched k _ _ hk

/-- the reads of `ta` avoid what `tb` modifies (on the visible buffers; other cells are fresh) -/
theorem readsIn_of_avoid {N : Nat} {ta tb : List (Ev V)}
    (hav : Avoid (visible N tb) (visible N ta)) :
    ReadsIn (fun c => N ≤ c.1 ∨ (c ∉ writes tb ∧ c ∉ reduces tb)) (fun k => k ∉ cfgWrites tb) ta := by
  intro e he
  cases e with
  | rd c =>
    show N ≤ c.1 ∨ _
    by_cases hlt : c.1 < N
    · right
      have hr : c ∈ reads (visible N ta) := (vis_reads hlt).2 (mem_reads.2 he)
      exact ⟨fun hw => (hav.w c ((vis_writes hlt).2 hw)).1 hr,
             fun hd => (hav.r c ((vis_reduces hlt).2 hd)).1 hr⟩
    · left; omega
  | crd k =>
    show k ∉ cfgWrites tb
    intro hk
    exact (hav.k k (vis_cfgWrites.2 hk)).1 (vis_cfgReads.2 (mem_cfgReads.2 he))
  | wr _ _ => exact True.intro
  | red _ _ => exact True.intro
  | cwr _ _ => exact True.intro

variable [DataLaws V]

/-- the two orders end in the same state -/
theorem final_eq {σ σa σb σab σba : State V} {ta tb : List (Ev V)}
    (rA : Replay σ σa ta) (rAB : Replay σa σab tb) (rB : Replay σ σb tb) (rBA : Replay σb σba ta)
    (la : σa.heap.length = σ.heap.length) (lb : σb.heap.length = σ.heap.length)
    (lab : σab.heap.length = σ.heap.length) (lba : σba.heap.length = σ.heap.length)
    (he : σab.env = σba.env) (hv : σab.views = σba.views)
    (avAB : Avoid (visible σ.heap.length ta) (visible σ.heap.length tb))
    (avBA : Avoid (visible σ.heap.length tb) (visible σ.heap.length ta))
    (hb : cfgBound σ.cfg (visible σ.heap.length ta) = true) : σab = σba := by
  refine state_ext he hv ?_ ?_
  · apply heap_ext
    · rw [shape_of_replay rAB (by rw [lab, la]), shape_of_replay rA la,
        shape_of_replay rBA (by rw [lba, lb]), shape_of_replay rB lb]
    · intro c
      by_cases hlt : c.1 < σ.heap.length
      · rw [rAB.cells c (by rw [la]; exact hlt), rA.cells c hlt,
          rBA.cells c (by rw [lb]; exact hlt), rB.cells c hlt]
        refine cellEff_comm ta tb c (fun hw => ?_) (fun hw => ?_) _
        · have := avAB.w c ((vis_writes hlt).2 hw)
          exact ⟨fun h => this.2.1 ((vis_writes hlt).2 h), fun h => this.2.2 ((vis_reduces hlt).2 h)⟩
        · have := avBA.w c ((vis_writes hlt).2 hw)
          exact ⟨fun h => this.2.1 ((vis_writes hlt).2 h), fun h => this.2.2 ((vis_reduces hlt).2 h)⟩
      · rw [heapGet_out _ _ (by omega), heapGet_out _ _ (by omega)]
  · rw [rAB.cfg, rA.cfg, rBA.cfg, rB.cfg]
    refine cfgEff_comm tb ta σ.cfg (fun k hk => ?_) (fun k hk => ?_)
    · exact fun h => (avAB.k k (vis_cfgWrites.2 hk)).2 (vis_cfgWrites.2 h)
    · unfold cfgBound at hb
      rw [List.all_eq_true] at hb
      exact hb k (vis_cfgWrites.2 hk)

/-- **frame / commutation theorem**: two blocks without top-level definitions whose dynamic
    footprints in `σ` satisfy `commuteAt` can be executed in either order -/
theorem commute_blocks (A B : List Stmt) (σ : State V) (hA : noDefs A = true) (hB : noDefs B = true)
    (hc : commuteAt ext A B σ = true) :
    ExEq (execL ext (A ++ B) σ) (execL ext (B ++ A) σ) := by
  unfold commuteAt footprint at hc
  simp only [Bool.and_eq_true, commutesB] at hc
  obtain ⟨⟨⟨hab, hba⟩, hbA⟩, hbB⟩ := hc
  have avAB := avoid_of_modsAvoid hab
  have avBA := avoid_of_modsAvoid hba
  rw [execL_append, execL_append]
  have rdA := readsIn_of_avoid avBA
  have rdB := readsIn_of_avoid avAB
  cases hAσ : execL ext A σ with
  | error e =>
    cases hBσ : execL ext B σ with
    | error e' => rfl
    | ok σb =>
      have ag := agree_after ext hB hBσ
      obtain ⟨_, l⟩ := detL ext A σ σb ag rdA
      rw [hAσ] at l
      obtain ⟨e', he'⟩ := lockA_error_left l
      simp only [bind, Except.bind, he']
      rfl
  | ok σa =>
    have agA := agree_after ext hA hAσ
    obtain ⟨eB, lB⟩ := detL ext B σ σa agA rdB
    cases hBσ : execL ext B σ with
    | error e' =>
      rw [hBσ] at lB
      obtain ⟨e'', he''⟩ := lockA_error_left lB
      simp only [bind, Except.bind, he'']
      rfl
    | ok σb =>
      have agB := agree_after ext hB hBσ
      obtain ⟨eA, lA⟩ := detL ext A σ σb agB rdA
      rw [hBσ] at lB
      rw [hAσ] at lA
      obtain ⟨σab, hab', _⟩ := lockA_ok_left lB
      obtain ⟨σba, hba', _⟩ := lockA_ok_left lA
      simp only [bind, Except.bind, hab', hba']
      have scA := execL_scope ext A σ σa hAσ
      have scB := execL_scope ext B σ σb hBσ
      have scAB := execL_scope ext B σa σab hab'
      have scBA := execL_scope ext A σb σba hba'
      have a3 := scA.2.2 (by simp [hA])
      have b3 := scB.2.2 (by simp [hB])
      have ab3 := scAB.2.2 (by simp [hB])
      have ba3 := scBA.2.2 (by simp [hA])
      have rA := replayL ext A σ σa hAσ
      have rB := replayL ext B σ σb hBσ
      have rAB := replayL ext B σa σab hab'
      have rBA := replayL ext A σb σba hba'
      rw [eB] at rAB
      rw [eA] at rBA
      have : σab = σba := final_eq rA rAB rB rBA a3.2 b3.2 (by rw [ab3.2, a3.2]) (by rw [ba3.2, b3.2])
        (by rw [scAB.1, scA.1, scBA.1, scB.1]) (by rw [ab3.1, a3.1, ba3.1, b3.1]) avAB avBA hbA
      rw [this]
      exact ExEq.refl _

/-- … for two statements: the side condition of `reorder_stmts` -/
theorem commute_stmts (a b : Stmt) (σ : State V) (ha : a.isDef = false) (hb : b.isDef = false)
    (hc : commuteAt ext [a] [b] σ = true) :
    ExEq (execL ext [a, b] σ) (execL ext [b, a] σ) :=
  commute_blocks ext [a] [b] σ (by simp [noDefs, ha]) (by simp [noDefs, hb]) hc

end Exo.Fp

namespace Exo

/-- `Equiv` over the data algebras that satisfy the commutative-ring laws of `DataLaws` ("up to
    real-number algebra"): what rewrites that re-associate reductions can promise -/
def EquivLaws (K : String × String → Prop) (p p' : Proc) : Prop :=
  ∀ (V : Type) [DataAlg V] [DataLaws V] (ext : String → List V → V) (σ o : State V),
    execB ext p.body σ = .ok o → ∃ o', execB ext p'.body σ = .ok o' ∧ Refines K o o'

theorem Equiv.toLaws {K : String × String → Prop} {p p' : Proc} (h : Equiv K p p') :
    EquivLaws K p p' := fun V _ _ ext σ o ho => h V ext σ o ho

/-- conditional congruence for lawful data algebras (same proof as `equiv_of_reach_le`) -/
theorem equivLaws_of_reach_le (C : Ctx) (B B' : List Stmt) (nm : String) (args : List FnArg)
    (preds : List Expr)
    (h : ∀ (V : Type) [DataAlg V] [DataLaws V] (ext : String → List V → V) (σ₀ σ : State V),
        Reach ext C B σ₀ σ → ExLe (execL ext B σ) (execL ext B' σ)) :
    EquivLaws (fun _ => False) (.mk nm args preds (C.fill B)) (.mk nm args preds (C.fill B')) := by
  intro V _ _ ext σ o ho
  simp only [execB, Proc.body] at ho ⊢
  have := ctx_le_reach ext B B' C σ (fun s hr => h V ext σ s hr)
  exact ⟨o, ExLe.map_congr (State.leave σ) this o ho, Refines.refl o⟩

end Exo
