/-
  Lemmas about the search part of ExoModel.Pattern: the stateful traversals (`findT`,
  `findInBlock`, with `_match_no` countdown and `_MatchComplete`) add exactly the matching
  positions of the pre-order position list, in order.
-/
import ExoModel.Pattern
namespace Exo.Pattern
open Exo.Nav (Step Path Cursor)

/-- feed a list of results to `_add_result`, in order -/
def addAll {α : Type} (st : FindSt α) (rs : List α) : FindSt α := rs.foldl FindSt.add st

@[simp] theorem addAll_nil {α : Type} (st : FindSt α) : addAll st [] = st := rfl
@[simp] theorem addAll_cons {α : Type} (st : FindSt α) (r : α) (rs : List α) :
    addAll st (r :: rs) = addAll (st.add r) rs := rfl
theorem addAll_append {α : Type} (st : FindSt α) (a b : List α) :
    addAll st (a ++ b) = addAll (addAll st a) b := by
  simp [addAll, List.foldl_append]

theorem add_done {α : Type} (st : FindSt α) (h : st.done = true) (r : α) : st.add r = st := by
  simp [FindSt.add, h]

theorem addAll_done {α : Type} (st : FindSt α) (h : st.done = true) (rs : List α) :
    addAll st rs = st := by
  induction rs with
  | nil => rfl
  | cons r rs ih => simp [add_done st h, ih]

/-- all-matches mode: every result is kept, in order -/
theorem addAll_none {α : Type} (acc rs : List α) :
    addAll (⟨none, acc, false⟩ : FindSt α) rs = ⟨none, acc ++ rs, false⟩ := by
  induction rs generalizing acc with
  | nil => simp
  | cons r rs ih => simp [FindSt.add, ih]

/-- `#n` mode: exactly the n-th result (if any) is kept -/
theorem addAll_some_results {α : Type} (n : Nat) (acc rs : List α) :
    (addAll (⟨some n, acc, false⟩ : FindSt α) rs).results = acc ++ (rs[n]?).toList := by
  induction rs generalizing n with
  | nil => simp
  | cons r rs ih =>
    cases n with
    | zero =>
      simp only [addAll_cons, FindSt.add]
      simp [addAll_done]
    | succ k =>
      simp only [addAll_cons, FindSt.add]
      simpa using ih k

/-- `#n` mode: the search completes (`_MatchComplete`) iff there are more than n matches -/
theorem addAll_some_done {α : Type} (n : Nat) (acc rs : List α) :
    (addAll (⟨some n, acc, false⟩ : FindSt α) rs).done = decide (n < rs.length) := by
  induction rs generalizing n with
  | nil => simp
  | cons r rs ih =>
    cases n with
    | zero =>
      simp only [addAll_cons, FindSt.add]
      simp [addAll_done]
    | succ k =>
      simp only [addAll_cons, FindSt.add]
      simpa using ih k

/-! ### expression search -/

/-- the matching positions of a tree, in pre-order -/
def matchesT {α : Type} (m : α → Bool) (path : Path) (t : Tree α) : List Path :=
  ((preorder path t).filter (fun x => m x.2)).map (·.1)

def matchesKids {α : Type} (m : α → Bool) (path : Path) (kids : List (Step × Tree α)) : List Path :=
  ((preorderKids path kids).filter (fun x => m x.2)).map (·.1)

mutual
  theorem findT_eq {α : Type} (m : α → Bool) :
      ∀ (t : Tree α) (path : Path) (st : FindSt Path),
        findT m path t st = addAll st (matchesT m path t)
    | .node lab kids, path, st => by
      rw [findT]
      by_cases hd : st.done = true
      · simp [hd, addAll_done]
      · have hk := findKids_eq m kids path
        simp only [hd, Bool.false_eq_true, ↓reduceIte, hk]
        by_cases hm : m lab = true
        · simp [matchesT, matchesKids, preorder, hm]
        · simp [matchesT, matchesKids, preorder, hm]
  theorem findKids_eq {α : Type} (m : α → Bool) :
      ∀ (kids : List (Step × Tree α)) (path : Path) (st : FindSt Path),
        findKids m path kids st = addAll st (matchesKids m path kids)
    | [], path, st => by simp [findKids, matchesKids, preorderKids]
    | (s, k) :: rest, path, st => by
      rw [findKids]; dsimp only
      rw [findKids_eq m rest, findT_eq m k]
      simp [matchesKids, matchesT, preorderKids, addAll_append]
end

/-! ### statement search -/

mutual
  theorem findInStmt_eq (pats : List PStmt) :
      ∀ (s : Stmt) (path : Path) (st : FindSt BlockRes),
        findInStmt pats path s st = addAll st ((posInStmt path s).filterMap (matchesAt pats))
    | .if_ c b o, path, st => by
      rw [findInStmt]; dsimp only
      rw [findInBlock_eq pats b, findInBlock_eq pats o]
      simp [posInStmt, addAll_append]
    | .for_ it lo hi b, path, st => by
      rw [findInStmt]; dsimp only
      rw [findInBlock_eq pats b]
      simp [posInStmt]
    | .assign .., path, st => by simp [findInStmt, posInStmt]
    | .reduce .., path, st => by simp [findInStmt, posInStmt]
    | .writeConfig .., path, st => by simp [findInStmt, posInStmt]
    | .pass, path, st => by simp [findInStmt, posInStmt]
    | .alloc .., path, st => by simp [findInStmt, posInStmt]
    | .call .., path, st => by simp [findInStmt, posInStmt]
    | .windowStmt .., path, st => by simp [findInStmt, posInStmt]
  theorem findInBlock_eq (pats : List PStmt) :
      ∀ (ss : List Stmt) (anchor : Path) (attr : String) (off : Nat) (st : FindSt BlockRes),
        findInBlock pats anchor attr off ss st
          = addAll st ((posInBlock anchor attr off ss).filterMap (matchesAt pats))
    | [], anchor, attr, off, st => by simp [findInBlock, posInBlock]
    | s :: rest, anchor, attr, off, st => by
      rw [findInBlock]
      by_cases hd : st.done = true
      · simp [hd, addAll_done]
      · simp only [hd, Bool.false_eq_true, ↓reduceIte]
        rw [findInBlock_eq pats rest, findInStmt_eq pats s]
        simp only [posInBlock, List.filterMap_cons, List.filterMap_append, matchesAt]
        cases tryMatch pats anchor attr off (s :: rest) with
        | none => simp [addAll_append]
        | some r => simp [addAll_append]
end


/-! ### results of the four entry points -/

theorem findT_results_none {α : Type} (m : α → Bool) (path : Path) (t : Tree α) :
    (findT m path t (FindSt.init none)).results = matchesT m path t := by
  rw [findT_eq]; simp [FindSt.init, addAll_none]

theorem findT_results_some {α : Type} (m : α → Bool) (path : Path) (t : Tree α) (n : Nat) :
    (findT m path t (FindSt.init (some n))).results = ((matchesT m path t)[n]?).toList := by
  rw [findT_eq]; simp [FindSt.init, addAll_some_results]

theorem findInBlock_results_none (pats : List PStmt) (ss : List Stmt) (anchor : Path) (attr : String) (off : Nat) :
    (findInBlock pats anchor attr off ss (FindSt.init none)).results
      = (posInBlock anchor attr off ss).filterMap (matchesAt pats) := by
  rw [findInBlock_eq]; simp [FindSt.init, addAll_none]

theorem findInBlock_results_some (pats : List PStmt) (ss : List Stmt) (anchor : Path) (attr : String) (off : Nat)
    (n : Nat) :
    (findInBlock pats anchor attr off ss (FindSt.init (some n))).results
      = (((posInBlock anchor attr off ss).filterMap (matchesAt pats))[n]?).toList := by
  rw [findInBlock_eq]; simp [FindSt.init, addAll_some_results]

theorem map_getElem?_toList {α β : Type} (f : α → β) (l : List α) (n : Nat) :
    ((l[n]?).toList).map f = ((l.map f)[n]?).toList := by
  simp only [List.getElem?_map]
  cases l[n]? <;> rfl

end Exo.Pattern
