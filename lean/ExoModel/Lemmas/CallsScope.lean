/-
  C01 / call primitives: what a block leaves in scope, and running the rest of a block with or
  without it.

  * `execL_views_ext`   a block only ADDS view bindings, and only of the names it defines at its top
                        level (`Rw.defsOf`)
  * `sim_leave_self`    the state after a block `B` is the state after `B` in a scope of its own
                        (`State.leave`) plus extra buffers at the end of the heap and extra bindings
                        of `defsOf B` — a `Sim Eq` (Lemmas/StorageSim)
  * `leave_eq_of_sim`   … and once the enclosing scope is left the difference is gone
  * `rest_after_scoped` hence the rest `r` of the block runs the same after `B` and after scoped `B`,
                        if `r` mentions no name of `defsOf B`
  * `not_mem_namesL`    `Rw.mentionsL y r = false → y ∉ namesL r` (the decidable check of the model
                        file against the name list `execL_sim` wants)
-/
import ExoModel.RewriteCalls
import ExoModel.Lemmas.Exec
import ExoModel.Lemmas.Rewrites
import ExoModel.Lemmas.StorageSim
import ExoModel.Lemmas.StorageRef
import ExoModel.Lemmas.StorageViews

set_option linter.unusedSectionVars false
set_option linter.unusedVariables false
namespace Exo.InlTie
open Exo

variable {V : Type}

/-! ### the decidable "does not mention" check implies absence from the name list -/

mutual
theorem not_mem_namesE (y : Sym) : ∀ (e : Expr), Rw.mentionsE y e = false → y ∉ e.names
  | .read x idx, h => by
    simp only [Rw.mentionsE, Bool.or_eq_false_iff, beq_eq_false_iff_ne] at h
    simp only [Expr.names, List.mem_cons, not_or]
    exact ⟨fun e => h.1 e.symm, not_mem_namesEs y idx h.2⟩
  | .lit _, _ => by simp [Expr.names]
  | .usub e, h => by
    simp only [Rw.mentionsE] at h
    simp only [Expr.names]; exact not_mem_namesE y e h
  | .binop _ a b, h => by
    simp only [Rw.mentionsE, Bool.or_eq_false_iff] at h
    simp only [Expr.names, List.mem_append, not_or]
    exact ⟨not_mem_namesE y a h.1, not_mem_namesE y b h.2⟩
  | .extern _ args, h => by
    simp only [Rw.mentionsE] at h
    simp only [Expr.names]; exact not_mem_namesEs y args h
  | .win x acc, h => by
    simp only [Rw.mentionsE, Bool.or_eq_false_iff, beq_eq_false_iff_ne] at h
    simp only [Expr.names, List.mem_cons, not_or]
    exact ⟨fun e => h.1 e.symm, not_mem_namesWs y acc h.2⟩
  | .stride x _, h => by
    simp only [Rw.mentionsE, beq_eq_false_iff_ne] at h
    simp only [Expr.names, List.mem_singleton]
    exact fun e => h e.symm
  | .readcfg _ _, _ => by simp [Expr.names]
theorem not_mem_namesEs (y : Sym) : ∀ (es : List Expr), Rw.mentionsEs y es = false → y ∉ namesEs es
  | [], _ => by simp [namesEs]
  | e :: r, h => by
    simp only [Rw.mentionsEs, Bool.or_eq_false_iff] at h
    simp only [namesEs, List.mem_append, not_or]
    exact ⟨not_mem_namesE y e h.1, not_mem_namesEs y r h.2⟩
theorem not_mem_namesW (y : Sym) : ∀ (w : WAcc), Rw.mentionsW y w = false → y ∉ w.names
  | .interval a b, h => by
    simp only [Rw.mentionsW, Bool.or_eq_false_iff] at h
    simp only [WAcc.names, List.mem_append, not_or]
    exact ⟨not_mem_namesE y a h.1, not_mem_namesE y b h.2⟩
  | .point a, h => by
    simp only [Rw.mentionsW] at h
    simp only [WAcc.names]; exact not_mem_namesE y a h
theorem not_mem_namesWs (y : Sym) : ∀ (ws : List WAcc), Rw.mentionsWs y ws = false → y ∉ namesWs ws
  | [], _ => by simp [namesWs]
  | w :: r, h => by
    simp only [Rw.mentionsWs, Bool.or_eq_false_iff] at h
    simp only [namesWs, List.mem_append, not_or]
    exact ⟨not_mem_namesW y w h.1, not_mem_namesWs y r h.2⟩
end

mutual
theorem not_mem_namesS (y : Sym) : ∀ (s : Stmt), Rw.mentionsS y s = false → y ∉ s.names
  | .assign x idx e, h => by
    simp only [Rw.mentionsS, Bool.or_eq_false_iff, beq_eq_false_iff_ne] at h
    simp only [Stmt.names, List.mem_cons, List.mem_append, not_or]
    exact ⟨fun e => h.1.1 e.symm, not_mem_namesEs y idx h.1.2, not_mem_namesE y e h.2⟩
  | .reduce x idx e, h => by
    simp only [Rw.mentionsS, Bool.or_eq_false_iff, beq_eq_false_iff_ne] at h
    simp only [Stmt.names, List.mem_cons, List.mem_append, not_or]
    exact ⟨fun e => h.1.1 e.symm, not_mem_namesEs y idx h.1.2, not_mem_namesE y e h.2⟩
  | .writecfg _ _ e _, h => by
    simp only [Rw.mentionsS] at h
    simp only [Stmt.names]; exact not_mem_namesE y e h
  | .pass, _ => by simp [Stmt.names]
  | .ite c t e, h => by
    simp only [Rw.mentionsS, Bool.or_eq_false_iff] at h
    simp only [Stmt.names, List.mem_append, not_or]
    exact ⟨not_mem_namesE y c h.1.1, not_mem_namesL y t h.1.2, not_mem_namesL y e h.2⟩
  | .loop i lo hi b _, h => by
    simp only [Rw.mentionsS, Bool.or_eq_false_iff, beq_eq_false_iff_ne] at h
    simp only [Stmt.names, List.mem_cons, List.mem_append, not_or]
    exact ⟨fun e => h.1.1.1 e.symm, not_mem_namesE y lo h.1.1.2, not_mem_namesE y hi h.1.2,
      not_mem_namesL y b h.2⟩
  | .alloc x sh, h => by
    simp only [Rw.mentionsS, Bool.or_eq_false_iff, beq_eq_false_iff_ne] at h
    simp only [Stmt.names, List.mem_cons, not_or]
    exact ⟨fun e => h.1 e.symm, not_mem_namesEs y sh h.2⟩
  | .free x, h => by
    simp only [Rw.mentionsS, beq_eq_false_iff_ne] at h
    simp only [Stmt.names, List.mem_singleton]
    exact fun e => h e.symm
  | .call _ args, h => by
    simp only [Rw.mentionsS] at h
    simp only [Stmt.names]; exact not_mem_namesEs y args h
  | .window x e, h => by
    simp only [Rw.mentionsS, Bool.or_eq_false_iff, beq_eq_false_iff_ne] at h
    simp only [Stmt.names, List.mem_cons, not_or]
    exact ⟨fun e => h.1 e.symm, not_mem_namesE y e h.2⟩
theorem not_mem_namesL (y : Sym) : ∀ (ss : List Stmt), Rw.mentionsL y ss = false → y ∉ namesL ss
  | [], _ => by simp [namesL]
  | s :: r, h => by
    simp only [Rw.mentionsL, Bool.or_eq_false_iff] at h
    simp only [namesL, List.mem_append, not_or]
    exact ⟨not_mem_namesS y s h.1, not_mem_namesL y r h.2⟩
end

/-! ### what a block leaves in scope -/

theorem defsOf_cons (a : Stmt) (r : List Stmt) : Rw.defsOf (a :: r) = Rw.defsOf [a] ++ Rw.defsOf r := by
  cases a <;> simp [Rw.defsOf]

theorem defsOf_nil_noDefs : ∀ (B : List Stmt), Rw.defsOf B = [] → noDefs B = true
  | [], _ => rfl
  | a :: r, h => by
    rw [defsOf_cons] at h
    have h1 := List.append_eq_nil_iff.1 h
    have ih := defsOf_nil_noDefs r h1.2
    cases a <;> simp_all [Rw.defsOf, noDefs, Stmt.isDef]

variable [DataAlg V] (ext : String → List V → V)

theorem execS_views_ext (a : Stmt) (s t : State V) (h : execS ext a s = .ok t) :
    ∃ extra : List (Sym × View), t.views = extra ++ s.views ∧ ∀ p ∈ extra, p.1 ∈ Rw.defsOf [a] := by
  have hk := execS_scope ext a s t h
  cases a with
  | alloc x shape =>
    simp only [execS, bind, Except.bind] at h
    split at h
    · cases h
    · split at h
      · cases h
      · cases h
        exact ⟨[(x, _)], rfl, by simp [Rw.defsOf]⟩
  | window x rhs =>
    simp only [execS, bind, Except.bind] at h
    split at h
    · cases h
    · cases h
      exact ⟨[(x, _)], rfl, by simp [Rw.defsOf]⟩
  | _ => exact ⟨[], (hk.2.2 rfl).1, by simp⟩

theorem execL_views_ext : ∀ (B : List Stmt) (s t : State V), execL ext B s = .ok t →
    ∃ extra : List (Sym × View), t.views = extra ++ s.views ∧ ∀ p ∈ extra, p.1 ∈ Rw.defsOf B
  | [], s, t, h => by
    simp only [execL, pure, Except.pure, Except.ok.injEq] at h
    subst h
    exact ⟨[], rfl, by simp⟩
  | a :: r, s, t, h => by
    simp only [execL, bind, Except.bind] at h
    cases h1 : execS ext a s with
    | error e => rw [h1] at h; cases h
    | ok s1 =>
      rw [h1] at h
      obtain ⟨e1, hv1, hd1⟩ := execS_views_ext ext a s s1 h1
      obtain ⟨e2, hv2, hd2⟩ := execL_views_ext r s1 t h
      refine ⟨e2 ++ e1, by rw [hv2, hv1, List.append_assoc], fun p hp => ?_⟩
      rw [defsOf_cons]
      rcases List.mem_append.1 hp with hp | hp
      · exact List.mem_append.2 (Or.inr (hd2 p hp))
      · exact List.mem_append.2 (Or.inl (hd1 p hp))

/-! ### the state after a block, with and without a scope around the block -/

theorem viewsRel_self (N k : Nat) (X : Sym → Prop) : ∀ (vs : List (Sym × View)),
    (∀ p ∈ vs, p.2.buf < N) → ViewsRel N k X vs vs
  | [], _ => .nil
  | (y, v) :: r, h => by
    have hv : v.shift N k = v := by
      have : v.buf < N := h (y, v) (by simp)
      cases v
      simp only [View.shift, shiftB] at *
      simp [this]
    have := ViewsRel.cons (N := N) (k := k) (X := X) y v
      (viewsRel_self N k X r (fun p hp => h p (by simp [hp])))
    rwa [hv] at this

theorem viewsRel_extra (N k : Nat) (X : Sym → Prop) {vs vs' : List (Sym × View)}
    (h : ViewsRel N k X vs vs') : ∀ (extra : List (Sym × View)), (∀ p ∈ extra, X p.1) →
    ViewsRel N k X vs (extra ++ vs')
  | [], _ => h
  | (x, vx) :: r, hx =>
    .extra x vx (hx (x, vx) (by simp)) (viewsRel_extra N k X h r (fun p hp => hx p (by simp [hp])))

/-- the state after a block vs the state after the same block run in a scope of its own -/
theorem sim_leave_self {s u : State V} {X : Sym → Prop} (hv : ViewsOk s) (henv : u.env = s.env)
    (hle : s.heap.length ≤ u.heap.length) {extra : List (Sym × View)}
    (hviews : u.views = extra ++ s.views) (hX : ∀ p ∈ extra, X p.1) :
    Sim (V := V) Eq s.heap.length (u.heap.length - s.heap.length) X (State.leave s u) u := by
  refine ⟨henv, ?_, ?_, ?_, ?_, ?_⟩
  · show s.heap.length ≤ (u.heap.take s.heap.length).length
    rw [List.length_take]; omega
  · show u.heap.length = (u.heap.take s.heap.length).length + (u.heap.length - s.heap.length)
    rw [List.length_take]; omega
  · intro b buf hb
    have hb' : (u.heap.take s.heap.length)[b]? = some buf := hb
    rw [List.getElem?_take] at hb'
    split at hb'
    · rename_i hlt
      refine ⟨buf, ?_, Forall₂.refl (fun _ => rfl) buf⟩
      simp only [shiftB, hlt, if_true]
      exact hb'
    · cases hb'
  · show ViewsRel _ _ X s.views u.views
    rw [hviews]
    exact viewsRel_extra _ _ X (viewsRel_self _ _ X s.views hv) extra hX
  · show Forall₂ _ u.cfg u.cfg
    exact Forall₂.refl (fun a => ⟨rfl, CfgRel.refl' (fun _ => rfl) a.2⟩) u.cfg

theorem forall₂_eq {α : Type} {l l' : List α} (h : Forall₂ Eq l l') : l = l' := by
  induction h with
  | nil => rfl
  | cons hab _ ih => rw [hab, ih]

theorem cfgRel_eq {a b : CfgVal V} (h : CfgRel Eq a b) : a = b := by
  cases a <;> cases b <;> simp [CfgRel] at h <;> rw [h]

theorem cfgs_eq {c c' : List ((String × String) × CfgVal V)}
    (h : Forall₂ (fun a b => a.1 = b.1 ∧ CfgRel Eq a.2 b.2) c c') : c = c' := by
  induction h with
  | nil => rfl
  | cons hab _ ih =>
    rename_i a b l l' _
    have : a = b := by
      cases a; cases b
      simp only at hab
      rw [hab.1, cfgRel_eq hab.2]
    rw [this, ih]

/-- once the scope that was open before the extra buffers were allocated is left, two `Sim Eq`
    related states are equal -/
theorem leave_eq_of_sim {s t t' : State V} {k : Nat} {X : Sym → Prop}
    (h : Sim (V := V) Eq s.heap.length k X t t') (hle : s.heap.length ≤ t.heap.length) :
    State.leave s t = State.leave s t' := by
  have hc := cfgs_eq h.cfg
  have hh : t.heap.take s.heap.length = t'.heap.take s.heap.length := by
    apply List.ext_getElem?
    intro b
    rw [List.getElem?_take, List.getElem?_take]
    split
    · rename_i hlt
      have hbt : b < t.heap.length := by omega
      obtain ⟨buf', hb', hf⟩ := h.bufs b t.heap[b] (List.getElem?_eq_getElem hbt)
      simp only [shiftB, hlt, if_true] at hb'
      rw [hb', List.getElem?_eq_getElem hbt, forall₂_eq hf]
    · rfl
  simp only [State.leave, hh, hc]

/-- the rest `r` of a block runs the same after `B` and after `B` in a scope of its own, if it
    mentions no name `B` defines: same failure, or final states that agree once the enclosing scope
    is left -/
theorem rest_after_scoped (B r : List Stmt) (hfresh : ∀ y ∈ namesL r, y ∉ Rw.defsOf B)
    {s u : State V} (hv : ViewsOk s) (hB : execL ext B s = .ok u) :
    Lock (fun t t' => State.leave s t = State.leave s t')
      (execL ext r (State.leave s u)) (execL ext r u) := by
  have hk := execL_scope ext B s u hB
  obtain ⟨extra, hviews, hdefs⟩ := execL_views_ext ext B s u hB
  have hsim := sim_leave_self (X := fun y => y ∈ Rw.defsOf B) hv hk.1 hk.2.1 hviews hdefs
  have hl := execL_sim ext CellRel.eq r _ _ _ _ _ (fun y hy => hfresh y hy) hsim
  cases h1 : execL ext r (State.leave s u) with
  | error e =>
    rw [h1] at hl
    cases h2 : execL ext r u with
    | error e' => exact trivial
    | ok t' => rw [h2] at hl; exact False.elim hl
  | ok t =>
    rw [h1] at hl
    cases h2 : execL ext r u with
    | error e' => rw [h2] at hl; exact False.elim hl
    | ok t' =>
      rw [h2] at hl
      have hle : s.heap.length ≤ t.heap.length := by
        have := (execL_scope ext r _ t h1).2.1
        have e := leave_heap_length s u hk.2.1
        omega
      exact leave_eq_of_sim hl hle

end Exo.InlTie
