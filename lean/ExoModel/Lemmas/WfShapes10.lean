/-
  Well-formedness of the results of commute_expr / left_reassociate_expr (no condition: the same
  names occur), divide_with_recompute and stage_mem.
-/
import ExoModel.Lemmas.WfShapes9
import ExoModel.Lemmas.WfShapesAlpha

namespace Exo.WfShapes
open Exo Exo.Wf Exo.Rw

/-! ### commute_expr, left_reassociate_expr -/

theorem eq_wfD {Γ : Env} {a b : Expr} (h : exprEq' false [] [] a b = true) (hw : wfD Γ a = true) :
    wfD Γ b = true := alpha_wfD (EnvRen.refl Γ) a b h hw

theorem eq_wfDs {Γ : Env} {as bs : List Expr} (h : exprsEq' false [] [] as bs = true)
    (hw : wfDs Γ as = true) : wfDs Γ bs = true := alpha_wfDs (EnvRen.refl Γ) as bs h hw

mutual
theorem commuteOnce_wfD {Γ : Env} : ∀ (a a' : Expr), commuteOnce a a' = true → wfD Γ a = true →
    wfD Γ a' = true
  | .binop o a b, .binop o' a' b', h, hw => by
    simp only [commuteOnce, Bool.and_eq_true, Bool.or_eq_true, beq_iff_eq] at h
    obtain ⟨rfl, h⟩ := h
    simp only [wfD, Bool.and_eq_true] at hw ⊢
    rcases h with (⟨⟨_, h1⟩, h2⟩ | ⟨h1, h2⟩) | ⟨h1, h2⟩
    · exact ⟨⟨hw.1.1, eq_wfD h2 hw.2⟩, eq_wfD h1 hw.1.2⟩
    · exact ⟨⟨hw.1.1, commuteOnce_wfD a a' h1 hw.1.2⟩, eq_wfD h2 hw.2⟩
    · exact ⟨⟨hw.1.1, eq_wfD h1 hw.1.2⟩, commuteOnce_wfD b b' h2 hw.2⟩
  | .usub a, .usub a', h, hw => by
    simp only [commuteOnce] at h
    simp only [wfD] at hw ⊢
    exact commuteOnce_wfD a a' h hw
  | .extern f as, .extern g bs, h, hw => by
    simp only [commuteOnce, Bool.and_eq_true] at h
    simp only [wfD] at hw ⊢
    exact commuteOnceL_wfDs as bs h.2 hw
  | .read _ _, _, h, _ => by simp [commuteOnce] at h
  | .lit _, _, h, _ => by simp [commuteOnce] at h
  | .win _ _, _, h, _ => by simp [commuteOnce] at h
  | .stride _ _, _, h, _ => by simp [commuteOnce] at h
  | .readcfg _ _, _, h, _ => by simp [commuteOnce] at h
  | .binop _ _ _, .read _ _, h, _ => by simp [commuteOnce] at h
  | .binop _ _ _, .lit _, h, _ => by simp [commuteOnce] at h
  | .binop _ _ _, .usub _, h, _ => by simp [commuteOnce] at h
  | .binop _ _ _, .extern _ _, h, _ => by simp [commuteOnce] at h
  | .binop _ _ _, .win _ _, h, _ => by simp [commuteOnce] at h
  | .binop _ _ _, .stride _ _, h, _ => by simp [commuteOnce] at h
  | .binop _ _ _, .readcfg _ _, h, _ => by simp [commuteOnce] at h
  | .usub _, .read _ _, h, _ => by simp [commuteOnce] at h
  | .usub _, .lit _, h, _ => by simp [commuteOnce] at h
  | .usub _, .binop _ _ _, h, _ => by simp [commuteOnce] at h
  | .usub _, .extern _ _, h, _ => by simp [commuteOnce] at h
  | .usub _, .win _ _, h, _ => by simp [commuteOnce] at h
  | .usub _, .stride _ _, h, _ => by simp [commuteOnce] at h
  | .usub _, .readcfg _ _, h, _ => by simp [commuteOnce] at h
  | .extern _ _, .read _ _, h, _ => by simp [commuteOnce] at h
  | .extern _ _, .lit _, h, _ => by simp [commuteOnce] at h
  | .extern _ _, .usub _, h, _ => by simp [commuteOnce] at h
  | .extern _ _, .binop _ _ _, h, _ => by simp [commuteOnce] at h
  | .extern _ _, .win _ _, h, _ => by simp [commuteOnce] at h
  | .extern _ _, .stride _ _, h, _ => by simp [commuteOnce] at h
  | .extern _ _, .readcfg _ _, h, _ => by simp [commuteOnce] at h
theorem commuteOnceL_wfDs {Γ : Env} : ∀ (as bs : List Expr), commuteOnceL as bs = true →
    wfDs Γ as = true → wfDs Γ bs = true
  | a :: r, b :: r', h, hw => by
    simp only [commuteOnceL, Bool.and_eq_true, Bool.or_eq_true] at h
    simp only [wfDs, Bool.and_eq_true] at hw ⊢
    rcases h with ⟨h1, h2⟩ | ⟨h1, h2⟩
    · exact ⟨commuteOnce_wfD a b h1 hw.1, eq_wfDs h2 hw.2⟩
    · exact ⟨eq_wfD h1 hw.1, commuteOnceL_wfDs r r' h2 hw.2⟩
  | [], _, h, _ => by simp [commuteOnceL] at h
  | _ :: _, [], h, _ => by simp [commuteOnceL] at h
end

mutual
theorem reassocOnce_wfD {Γ : Env} : ∀ (a a' : Expr), reassocOnce a a' = true → wfD Γ a = true →
    wfD Γ a' = true
  | .binop o a b, .binop o' a' b', h, hw => by
    simp only [reassocOnce, Bool.and_eq_true, Bool.or_eq_true, beq_iff_eq] at h
    obtain ⟨rfl, h⟩ := h
    simp only [wfD, Bool.and_eq_true] at hw ⊢
    rcases h with (h | ⟨h1, h2⟩) | ⟨h1, h2⟩
    · -- a op (b1 op c1)  ↦  (a2 op b2) op b'
      split at h
      · rename_i o2 b1 c1 o3 a2 b2
        simp only [Bool.and_eq_true, Bool.or_eq_true, beq_iff_eq] at h
        obtain ⟨⟨⟨⟨⟨_, rfl⟩, rfl⟩, e1⟩, e2⟩, e3⟩ := h
        simp only [wfD, Bool.and_eq_true] at hw ⊢
        exact ⟨⟨hw.1.1, ⟨hw.1.1, eq_wfD e1 hw.1.2⟩, eq_wfD e2 hw.2.1.2⟩, eq_wfD e3 hw.2.2⟩
      · cases h
    · exact ⟨⟨hw.1.1, reassocOnce_wfD a a' h1 hw.1.2⟩, eq_wfD h2 hw.2⟩
    · exact ⟨⟨hw.1.1, eq_wfD h1 hw.1.2⟩, reassocOnce_wfD b b' h2 hw.2⟩
  | .usub a, .usub a', h, hw => by
    simp only [reassocOnce] at h
    simp only [wfD] at hw ⊢
    exact reassocOnce_wfD a a' h hw
  | .extern f as, .extern g bs, h, hw => by
    simp only [reassocOnce, Bool.and_eq_true] at h
    simp only [wfD] at hw ⊢
    exact reassocOnceL_wfDs as bs h.2 hw
  | .read _ _, _, h, _ => by simp [reassocOnce] at h
  | .lit _, _, h, _ => by simp [reassocOnce] at h
  | .win _ _, _, h, _ => by simp [reassocOnce] at h
  | .stride _ _, _, h, _ => by simp [reassocOnce] at h
  | .readcfg _ _, _, h, _ => by simp [reassocOnce] at h
  | .binop _ _ _, .read _ _, h, _ => by simp [reassocOnce] at h
  | .binop _ _ _, .lit _, h, _ => by simp [reassocOnce] at h
  | .binop _ _ _, .usub _, h, _ => by simp [reassocOnce] at h
  | .binop _ _ _, .extern _ _, h, _ => by simp [reassocOnce] at h
  | .binop _ _ _, .win _ _, h, _ => by simp [reassocOnce] at h
  | .binop _ _ _, .stride _ _, h, _ => by simp [reassocOnce] at h
  | .binop _ _ _, .readcfg _ _, h, _ => by simp [reassocOnce] at h
  | .usub _, .read _ _, h, _ => by simp [reassocOnce] at h
  | .usub _, .lit _, h, _ => by simp [reassocOnce] at h
  | .usub _, .binop _ _ _, h, _ => by simp [reassocOnce] at h
  | .usub _, .extern _ _, h, _ => by simp [reassocOnce] at h
  | .usub _, .win _ _, h, _ => by simp [reassocOnce] at h
  | .usub _, .stride _ _, h, _ => by simp [reassocOnce] at h
  | .usub _, .readcfg _ _, h, _ => by simp [reassocOnce] at h
  | .extern _ _, .read _ _, h, _ => by simp [reassocOnce] at h
  | .extern _ _, .lit _, h, _ => by simp [reassocOnce] at h
  | .extern _ _, .usub _, h, _ => by simp [reassocOnce] at h
  | .extern _ _, .binop _ _ _, h, _ => by simp [reassocOnce] at h
  | .extern _ _, .win _ _, h, _ => by simp [reassocOnce] at h
  | .extern _ _, .stride _ _, h, _ => by simp [reassocOnce] at h
  | .extern _ _, .readcfg _ _, h, _ => by simp [reassocOnce] at h
theorem reassocOnceL_wfDs {Γ : Env} : ∀ (as bs : List Expr), reassocOnceL as bs = true →
    wfDs Γ as = true → wfDs Γ bs = true
  | a :: r, b :: r', h, hw => by
    simp only [reassocOnceL, Bool.and_eq_true, Bool.or_eq_true] at h
    simp only [wfDs, Bool.and_eq_true] at hw ⊢
    rcases h with ⟨h1, h2⟩ | ⟨h1, h2⟩
    · exact ⟨reassocOnce_wfD a b h1 hw.1, eq_wfDs h2 hw.2⟩
    · exact ⟨eq_wfD h1 hw.1, reassocOnceL_wfDs r r' h2 hw.2⟩
  | [], _, h, _ => by simp [reassocOnceL] at h
  | _ :: _, [], h, _ => by simp [reassocOnceL] at h
end

/-- a rewrite inside one data right-hand side that keeps `wfD` keeps well-formedness -/
theorem dataRhsWith_local (P : Expr → Expr → Bool)
    (hP : ∀ (Γ : Env) a a', P a a' = true → wfD Γ a = true → wfD Γ a' = true) (s' : Stmt)
    (Γ : Env) (ss r : List Stmt) (hr : dataRhsWith P s' ss = some r)
    (hw : (wfL Γ ss).isSome = true) : (wfL Γ r).isSome = true := by
  unfold dataRhsWith at hr
  split at hr
  · split at hr
    · obtain ⟨hp, hr⟩ := of_ite_some hr
      cases hr
      obtain ⟨h1, h2⟩ := assign_inv hw
      exact assign_intro (writeOk_rhs _ h1 (hP Γ _ _ hp (writeOk_wfD h1))) h2
    · cases hr
  · split at hr
    · obtain ⟨hp, hr⟩ := of_ite_some hr
      cases hr
      obtain ⟨h1, h2⟩ := reduce_inv hw
      exact reduce_intro (writeOk_rhs _ h1 (hP Γ _ _ hp (writeOk_wfD h1))) h2
    · cases hr
  · split at hr
    · obtain ⟨hp, hr⟩ := of_ite_some hr
      cases hr
      rename_i c f rhs rest _ _ _ rhs' _
      simp only [wfL, wfS, if_true] at hw ⊢
      cases hc : wfD Γ rhs with
      | false => rw [hc] at hw; simp at hw
      | true =>
        rw [hc] at hw
        rw [hP Γ _ _ hp hc]
        exact hw
    · cases hr
  · cases hr

theorem commuteExpr_local (s' : Stmt) (Γ : Env) (ss r : List Stmt)
    (hr : commuteExprWith s' ss = some r) (hw : (wfL Γ ss).isSome = true) :
    (wfL Γ r).isSome = true :=
  dataRhsWith_local commuteOnce (fun _ a a' h hw => commuteOnce_wfD a a' h hw) s' Γ ss r hr hw

theorem reassocExpr_local (s' : Stmt) (Γ : Env) (ss r : List Stmt)
    (hr : reassocExprWith s' ss = some r) (hw : (wfL Γ ss).isSome = true) :
    (wfL Γ r).isSome = true :=
  dataRhsWith_local reassocOnce (fun _ a a' h hw => reassocOnce_wfD a a' h hw) s' Γ ss r hr hw

/-! ### divide_with_recompute -/

theorem wfC_nBefore (Γ : Env) (ohi : Expr) (q : Int) (h : wfC Γ ohi = true) :
    wfC Γ (nBeforeRecompute ohi q) = true := by
  unfold nBeforeRecompute
  split
  · rename_i E q'
    simp only [wfC, Bool.and_eq_true] at h
    split
    · simp [wfC, h.1]
    · simp [wfC, h.1]
  · simp [wfC, h]

theorem divideWithRecompute_local (io ii : Sym) (ohi : Expr) (q : Int) (Γ : Env) (ss r : List Stmt)
    (hr : divideWithRecompute io ii ohi q ss = some r)
    (hok : divideRecomputeOk Γ io ii ohi ss = true) (hw : (wfL Γ ss).isSome = true) :
    (wfL Γ r).isSome = true := by
  unfold divideWithRecompute at hr
  split at hr
  · rename_i i lo hi b par rest
    simp only [Option.some.injEq] at hr
    subst hr
    simp only [divideRecomputeOk, Bool.and_eq_true, Bool.not_eq_true', bne_iff_ne, ne_eq] at hok
    obtain ⟨⟨⟨⟨⟨hfo, hfi⟩, hne⟩, hbo⟩, hbi⟩, hohi⟩ := hok
    obtain ⟨_, hlo, hhi, hb, hrest⟩ := loop_inv hw
    have hio := (fresh_iff _ _).1 hfo
    have hii := (fresh_iff _ _).1 hfi
    have hbo' : io ∉ bindL b := by
      intro h; have : (bindL b).contains io = true := by simpa using h
      rw [hbo] at this; cases this
    have hbi' : ii ∉ bindL b := by
      intro h; have : (bindL b).contains ii = true := by simpa using h
      rw [hbi] at this; cases this
    have hidx : wfC ((ii, none) :: (io, none) :: Γ)
        (.binop .add (.binop .mul (.read io []) (.lit (.int q))) (.read ii [])) = true := by
      simp [wfC, isCtrl, lookup_cons, hne]
    have hrel : Rel (some (i, .binop .add (.binop .mul (.read io []) (.lit (.int q))) (.read ii [])))
        [ii, io] ((i, none) :: Γ) ((ii, none) :: (io, none) :: Γ) := by
      refine Rel.mkSub i _ _ _ _ ?_ (by simp [lookup_cons]) hidx
      intro y hy
      by_cases h1 : y = ii
      · right; subst h1; simp [lookup_cons, hy, hii]
      · by_cases h2 : y = io
        · right; subst h2; simp [lookup_cons, hy, hio]
        · left; simp [lookup_cons, hy, h1, h2]
    have hbody := tr_isSome hrel b hb (by
      intro z hz hzN
      simp only [List.mem_cons, List.not_mem_nil, or_false] at hzN
      rcases hzN with rfl | rfl
      · exact hbi' hz
      · exact hbo' hz)
    have hfii : fresh ((io, none) :: Γ) ii = true := by
      rw [fresh_iff]; simp [lookup_cons, Ne.symm hne, hii]
    refine loop_intro par hfo hlo hohi ?_ hrest
    refine loop_intro false hfii (by simp [wfC]) ?_ (by simpa [tL] using hbody) (wfL_nil_isSome _)
    have h1 := wfC_weaken Γ io none hi hio hhi
    have h2 := wfC_weaken Γ io none _ hio (wfC_nBefore Γ ohi q hohi)
    simp [wfC, h1, h2]
  · cases hr

/-! ### stage_mem -/

theorem itersEnv_cons (i : Sym) (is : List Sym) : itersEnv (i :: is) = itersEnv is ++ [(i, none)] := by
  simp [itersEnv]

theorem loopNest_wf : ∀ (iters : List Sym) (ns : List Expr) (inner : List Stmt) (Γ' : Env),
    iters.length = ns.length → wfCs Γ' ns = true → (∀ i ∈ iters, lookup i Γ' = none) →
    nodupB iters = true → (wfL (itersEnv iters ++ Γ') inner).isSome = true →
    (wfL Γ' (loopNest iters ns inner)).isSome = true
  | [], [], inner, Γ', _, _, _, _, h => by simpa [loopNest, itersEnv] using h
  | [], _ :: _, _, _, hl, _, _, _, _ => by simp at hl
  | _ :: _, [], _, _, hl, _, _, _, _ => by simp at hl
  | i :: is, n :: ns, inner, Γ', hl, hns, hfr, hnd, h => by
    simp only [wfCs, Bool.and_eq_true] at hns
    simp only [nodupB, Bool.and_eq_true, Bool.not_eq_true'] at hnd
    have hi0 := hfr i (by simp)
    simp only [loopNest]
    refine loop_intro false ((fresh_iff _ _).2 hi0) (by simp [wfC]) hns.1 ?_ (wfL_nil_isSome _)
    refine loopNest_wf is ns inner ((i, none) :: Γ') (by simpa using hl)
      (wfCs_weaken Γ' i none ns hi0 hns.2) ?_ hnd.2 ?_
    · intro j hj
      have hji : j ≠ i := by
        intro e; subst e
        have : is.contains j = true := by simpa using hj
        rw [hnd.1] at this; cases this
      simp [lookup_cons, hji, hfr j (by simp [hj])]
    · rw [itersEnv_cons, List.append_assoc] at h
      simpa using h

theorem loopNest_defNames : ∀ (iters : List Sym) (ns : List Expr) (inner : List Stmt),
    defNames inner = [] → defNames (loopNest iters ns inner) = []
  | [], _, inner, h => by simpa [loopNest] using h
  | _ :: _, [], inner, h => by simpa [loopNest] using h
  | _ :: _, _ :: _, _, _ => by simp [loopNest, defNames, defName]

theorem nest_exact {Γ' : Env} {iters : List Sym} {ns : List Expr} {inner : List Stmt}
    (hok : nestOk Γ' iters ns inner = true) (hd : defNames inner = []) :
    wfL Γ' (loopNest iters ns inner) = some Γ' := by
  simp only [nestOk, Bool.and_eq_true, beq_iff_eq, List.all_eq_true] at hok
  obtain ⟨⟨⟨⟨h1, h2⟩, h3⟩, h4⟩, h5⟩ := hok
  have := loopNest_wf iters ns inner Γ' h1 h2 (fun i hi => (fresh_iff _ _).1 (h3 i hi)) h4 h5
  obtain ⟨Γ'', hΓ''⟩ := Option.isSome_iff_exists.1 this
  obtain ⟨D, e1, hn, _⟩ := wfL_shape _ Γ' Γ'' hΓ''
  rw [loopNest_defNames iters ns inner hd] at hn
  have hD : D = [] := by
    cases D with
    | nil => rfl
    | cons p t => exact absurd (hn p.1 (by simp)) (by simp)
  subst hD
  simp only [List.nil_append] at e1
  rw [e1] at hΓ''
  exact hΓ''

theorem guarded_defNames (g : Option Expr) (s : Stmt) (h : defName s = []) :
    defNames (guarded g s) = [] := by
  cases g <;> simp [guarded, defNames, h] <;> simp [defName]

theorem stageMem_local (x xs : Sym) (w : List WAcc) (n : Nat) (iters : List Sym)
    (accum load store : Bool) (gl gs : Option Expr) (B' : List Stmt) (Γ : Env) (ss r : List Stmt)
    (hr : stageMem x xs w n iters accum load store gl gs B' ss = some r)
    (hok : stageMemOk Γ x xs w n iters accum load store gl gs B' ss = true)
    (_hw : (wfL Γ ss).isSome = true) : (wfL Γ r).isSome = true := by
  unfold stageMem at hr
  simp only [] at hr
  obtain ⟨_, hr⟩ := of_ite_some hr
  simp only [Option.some.injEq] at hr
  subst hr
  unfold stageMemOk at hok
  simp only [Bool.and_eq_true, Bool.or_eq_true, Bool.not_eq_true'] at hok
  obtain ⟨⟨⟨hf, hsh⟩, hload⟩, hrest⟩ := hok
  refine alloc_intro hf hsh ?_
  split at hrest
  · rename_i Γb hB
    simp only [Bool.and_eq_true, Bool.or_eq_true, Bool.not_eq_true'] at hrest
    obtain ⟨hstore, hdrop⟩ := hrest
    -- copy-in
    have hL : wfL ((xs, some (stageShape w).length) :: Γ)
        (if load then stageLoad x xs w iters accum gl else []) =
        some ((xs, some (stageShape w).length) :: Γ) := by
      cases load with
      | false => simp [wfL]
      | true =>
        rcases hload with h | h
        · cases h
        · simp only [if_true, stageLoad]
          exact nest_exact h (guarded_defNames _ _ (by simp [defName]))
    have hS : wfL Γb (if store then stageStore x xs w iters accum gs else []) = some Γb := by
      cases store with
      | false => simp [wfL]
      | true =>
        rcases hstore with h | h
        · cases h
        · simp only [if_true, stageStore]
          refine nest_exact h (guarded_defNames _ _ ?_)
          cases accum <;> simp [defName]
    simp only [List.append_assoc]
    refine append_intro hL (append_intro hB (append_intro hS hdrop))
  · simp at hrest

end Exo.WfShapes
