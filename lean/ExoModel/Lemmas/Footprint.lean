/-
  Lemmas about dynamic footprints (ExoModel.Footprint), part 1: heap algebra, the effect of an
  event list on a cell / on the configuration, and REPLAY: a successful run changes the heap and
  the configuration exactly as its event list says.
-/
import ExoModel.Footprint
import ExoModel.Equiv
import ExoModel.Lemmas.Exec
import ExoModel.Lemmas.Rewrites

set_option linter.unusedSectionVars false
set_option linter.unusedVariables false
namespace Exo.Fp
open Exo

variable {V : Type}

@[simp] theorem onOk_ok {α : Type} (a : α) (f : α → List (Ev V)) : onOk (.ok a) f = f a := rfl
@[simp] theorem onOk_error {α : Type} (e : Err) (f : α → List (Ev V)) :
    onOk (.error e : Except Err α) f = [] := rfl

/-! ### `writeCell` and data reads through `target` -/

theorem writeCell_eq (σ : State V) (x : Sym) (idx : List Expr) (f : Option V → Option V) :
    writeCell σ x idx f =
      (target σ x idx).map (fun c => { σ with heap := heapSet σ.heap c (f (heapGet σ.heap c)) }) := by
  unfold writeCell target
  cases lookupSym x σ.views with
  | none => rfl
  | some v =>
    simp only [bind, Except.bind]
    cases evalCs σ idx with
    | error e => rfl
    | ok is => cases cellOf σ.heap v is <;> rfl

theorem evalD_read [DataAlg V] (ext : String → List V → V) (σ : State V) (x : Sym) (idx : List Expr) :
    evalD ext σ (.read x idx) = (target σ x idx).map (heapGet σ.heap) := by
  unfold target
  simp only [evalD]
  cases lookupSym x σ.views with
  | none => rfl
  | some v =>
    simp only [bind, Except.bind]
    cases evalCs σ idx with
    | error e => rfl
    | ok is => cases cellOf σ.heap v is <;> rfl

/-- the cell exists in the heap -/
def Valid (h : List (List (Option V))) (c : Cell) : Prop := ∃ b, h[c.1]? = some b ∧ c.2 < b.length

theorem cellOf_valid {h : List (List (Option V))} {v : View} {is : List Int} {c : Cell}
    (hc : cellOf h v is = .ok c) : Valid h c := by
  unfold cellOf at hc
  cases ho : viewOffset v.dims is v.off with
  | error e => rw [ho] at hc; cases hc
  | ok o =>
    rw [ho] at hc
    simp only [bind, Except.bind] at hc
    cases hb : h[v.buf]? with
    | none => rw [hb] at hc; cases hc
    | some b =>
      rw [hb] at hc
      simp only [] at hc
      split at hc
      · rename_i hr
        cases hc
        exact ⟨b, hb, by simp only []; omega⟩
      · cases hc

theorem target_valid {σ : State V} {x : Sym} {idx : List Expr} {c : Cell}
    (hc : target σ x idx = .ok c) : Valid σ.heap c := by
  unfold target at hc
  cases hl : lookupSym x σ.views with
  | none => rw [hl] at hc; cases hc
  | some v =>
    rw [hl] at hc
    simp only [bind, Except.bind] at hc
    cases hi : evalCs σ idx with
    | error e => rw [hi] at hc; cases hc
    | ok is => rw [hi] at hc; exact cellOf_valid hc

/-! ### `heapGet` / `heapSet` -/

theorem heapGet_heapSet_ne (h : List (List (Option V))) (c c' : Cell) (v : Option V) (hne : c ≠ c') :
    heapGet (heapSet h c v) c' = heapGet h c' := by
  unfold heapGet heapSet
  rw [List.getElem?_modify]
  by_cases hb : c.1 = c'.1
  · have h2 : c.2 ≠ c'.2 := fun h2 => hne (Prod.ext hb h2)
    cases h[c'.1]? with
    | none => rfl
    | some b => simp [hb, List.getElem?_set_ne h2]
  · cases h[c'.1]? <;> simp [hb]

theorem heapGet_heapSet_eq (h : List (List (Option V))) (c : Cell) (v : Option V) (hv : Valid h c) :
    heapGet (heapSet h c v) c = v := by
  obtain ⟨b, hb, hlt⟩ := hv
  unfold heapGet heapSet
  rw [List.getElem?_modify, hb]
  simp [List.getElem?_set_self hlt]

theorem heapSet_len_at (h : List (List (Option V))) (c : Cell) (v : Option V) (b : Nat) :
    ((heapSet h c v)[b]?).map List.length = (h[b]?).map List.length := by
  unfold heapSet
  rw [List.getElem?_modify]
  by_cases hb : c.1 = b
  · subst hb; cases h[c.1]? <;> simp
  · simp [hb]

theorem valid_heapSet {h : List (List (Option V))} {c c' : Cell} (v : Option V) (hv : Valid h c') :
    Valid (heapSet h c v) c' := by
  obtain ⟨b, hb, hlt⟩ := hv
  have := heapSet_len_at h c v c'.1
  rw [hb] at this
  cases h2 : (heapSet h c v)[c'.1]? with
  | none => rw [h2] at this; cases this
  | some b2 =>
    rw [h2] at this
    simp only [Option.map_some, Option.some.injEq] at this
    exact ⟨b2, h2, by omega⟩

theorem heapGet_take (h : List (List (Option V))) (n : Nat) (c : Cell) (hlt : c.1 < n) :
    heapGet (h.take n) c = heapGet h c := by
  unfold heapGet
  rw [List.getElem?_take]
  simp [hlt]

theorem heapGet_append_left (h h2 : List (List (Option V))) (c : Cell) (hlt : c.1 < h.length) :
    heapGet (h ++ h2) c = heapGet h c := by
  unfold heapGet
  rw [List.getElem?_append_left hlt]

theorem heapGet_out (h : List (List (Option V))) (c : Cell) (hge : h.length ≤ c.1) :
    heapGet h c = none := by
  unfold heapGet
  rw [List.getElem?_eq_none hge]

/-! ### effect of an event list -/

section
variable [DataAlg V]

def actOn (c : Cell) (old : Option V) : Ev V → Option V
  | .wr c' v => if c' = c then v else old
  | .red c' v => if c' = c then lift2 DataAlg.add old v else old
  | _ => old

/-- contents of cell `c` after the events of `t`, if it held `old` before -/
def cellEff (t : List (Ev V)) (c : Cell) (old : Option V) : Option V := t.foldl (actOn c) old

def cfgAct (cfg : List (Key × CfgVal V)) : Ev V → List (Key × CfgVal V)
  | .cwr k v => setCfg k v cfg
  | _ => cfg

def cfgEff (t : List (Ev V)) (cfg : List (Key × CfgVal V)) : List (Key × CfgVal V) :=
  t.foldl cfgAct cfg

def Ev.pure : Ev V → Bool
  | .rd _ => true
  | .crd _ => true
  | _ => false

def AllPure (t : List (Ev V)) : Prop := ∀ e ∈ t, Ev.pure e = true

@[simp] theorem cellEff_nil (c : Cell) (old : Option V) : cellEff ([] : List (Ev V)) c old = old := rfl
@[simp] theorem cfgEff_nil (cfg : List (Key × CfgVal V)) : cfgEff ([] : List (Ev V)) cfg = cfg := rfl

theorem cellEff_append (t₁ t₂ : List (Ev V)) (c : Cell) (old : Option V) :
    cellEff (t₁ ++ t₂) c old = cellEff t₂ c (cellEff t₁ c old) := by
  unfold cellEff; rw [List.foldl_append]

theorem cfgEff_append (t₁ t₂ : List (Ev V)) (cfg : List (Key × CfgVal V)) :
    cfgEff (t₁ ++ t₂) cfg = cfgEff t₂ (cfgEff t₁ cfg) := by
  unfold cfgEff; rw [List.foldl_append]

theorem cellEff_cons (e : Ev V) (t : List (Ev V)) (c : Cell) (old : Option V) :
    cellEff (e :: t) c old = cellEff t c (actOn c old e) := rfl

theorem cfgEff_cons (e : Ev V) (t : List (Ev V)) (cfg : List (Key × CfgVal V)) :
    cfgEff (e :: t) cfg = cfgEff t (cfgAct cfg e) := rfl

theorem allPure_nil : AllPure ([] : List (Ev V)) := fun _ h => by cases h

theorem allPure_append {t₁ t₂ : List (Ev V)} (h₁ : AllPure t₁) (h₂ : AllPure t₂) :
    AllPure (t₁ ++ t₂) := fun e he => by
  rcases List.mem_append.1 he with h | h
  · exact h₁ e h
  · exact h₂ e h

theorem allPure_crds (ks : List Key) : AllPure (crds ks : List (Ev V)) := by
  intro e he
  unfold crds at he
  obtain ⟨k, _, rfl⟩ := List.mem_map.1 he
  rfl

theorem allPure_onOk_rd (r : Except Err Cell) : AllPure (onOk r (fun c => [(Ev.rd c : Ev V)])) := by
  cases r with
  | error e => exact allPure_nil
  | ok c => intro e he; simp only [onOk_ok, List.mem_singleton] at he; subst he; rfl

mutual
theorem allPure_evD (σ : State V) : ∀ e : Expr, AllPure (evD σ e)
  | .read x idx => by
    simp only [evD]; exact allPure_append (allPure_crds _) (allPure_onOk_rd _)
  | .usub e => by simp only [evD]; exact allPure_evD σ e
  | .binop _ a b => by simp only [evD]; exact allPure_append (allPure_evD σ a) (allPure_evD σ b)
  | .extern _ args => by simp only [evD]; exact allPure_evDs σ args
  | .readcfg c f => by
    simp only [evD]; intro e he; simp only [List.mem_singleton] at he; subst he; rfl
  | .lit _ => by simp only [evD]; exact allPure_nil
  | .win _ _ => by simp only [evD]; exact allPure_nil
  | .stride _ _ => by simp only [evD]; exact allPure_nil
theorem allPure_evDs (σ : State V) : ∀ es : List Expr, AllPure (evDs σ es)
  | [] => by simp only [evDs]; exact allPure_nil
  | e :: r => by simp only [evDs]; exact allPure_append (allPure_evD σ e) (allPure_evDs σ r)
end

theorem cellEff_pure {t : List (Ev V)} (h : AllPure t) (c : Cell) (old : Option V) :
    cellEff t c old = old := by
  induction t generalizing old with
  | nil => rfl
  | cons e r ih =>
    rw [cellEff_cons]
    have he := h e (List.mem_cons_self)
    have hr : AllPure r := fun x hx => h x (List.mem_cons_of_mem _ hx)
    rw [ih hr]
    cases e <;> simp [Ev.pure] at he <;> rfl

theorem cfgEff_pure {t : List (Ev V)} (h : AllPure t) (cfg : List (Key × CfgVal V)) :
    cfgEff t cfg = cfg := by
  induction t generalizing cfg with
  | nil => rfl
  | cons e r ih =>
    rw [cfgEff_cons]
    have he := h e (List.mem_cons_self)
    have hr : AllPure r := fun x hx => h x (List.mem_cons_of_mem _ hx)
    rw [ih hr]
    cases e <;> simp [Ev.pure] at he <;> rfl

/-! ### replay -/

/-- `σ'` is `σ` after the events `t` (on the buffers that exist in `σ`; the heap may have grown) -/
structure Replay (σ σ' : State V) (t : List (Ev V)) : Prop where
  len : σ.heap.length ≤ σ'.heap.length
  shape : ∀ b, b < σ.heap.length → (σ'.heap[b]?).map List.length = (σ.heap[b]?).map List.length
  cells : ∀ c : Cell, c.1 < σ.heap.length → heapGet σ'.heap c = cellEff t c (heapGet σ.heap c)
  cfg : σ'.cfg = cfgEff t σ.cfg

theorem Replay.pure_same {σ σ' : State V} {t : List (Ev V)} (ht : AllPure t)
    (hh : σ'.heap = σ.heap) (hc : σ'.cfg = σ.cfg) : Replay σ σ' t :=
  ⟨by rw [hh]; exact Nat.le_refl _, fun b _ => by rw [hh],
   fun c _ => by rw [hh, cellEff_pure ht], by rw [hc, cfgEff_pure ht]⟩

theorem Replay.trans {σ σ₁ σ₂ : State V} {t₁ t₂ : List (Ev V)}
    (h₁ : Replay σ σ₁ t₁) (h₂ : Replay σ₁ σ₂ t₂) : Replay σ σ₂ (t₁ ++ t₂) := by
  refine ⟨Nat.le_trans h₁.len h₂.len, fun b hb => ?_, fun c hc => ?_, ?_⟩
  · rw [h₂.shape b (Nat.lt_of_lt_of_le hb h₁.len), h₁.shape b hb]
  · rw [h₂.cells c (Nat.lt_of_lt_of_le hc h₁.len), h₁.cells c hc, cellEff_append]
  · rw [h₂.cfg, h₁.cfg, cfgEff_append]

theorem Replay.pure_left {σ σ' : State V} {t₀ t : List (Ev V)} (h₀ : AllPure t₀)
    (h : Replay σ σ' t) : Replay σ σ' (t₀ ++ t) :=
  Replay.trans (Replay.pure_same h₀ rfl rfl) h

/-- same events, seen from a state with the same heap and configuration, after leaving the scope -/
theorem Replay.leave {s s₁ s₂ : State V} {t : List (Ev V)} (h : Replay s₁ s₂ t)
    (hh : s₁.heap = s.heap) (hc : s₁.cfg = s.cfg) : Replay s (State.leave s s₂) t := by
  have hl : s.heap.length ≤ s₂.heap.length := by rw [← hh]; exact h.len
  refine ⟨?_, fun b hb => ?_, fun c hcl => ?_, ?_⟩
  · simp only [State.leave, List.length_take]; omega
  · simp only [State.leave, List.getElem?_take, hb, if_true]
    rw [← hh]; exact h.shape b (by rw [hh]; exact hb)
  · simp only [State.leave]
    rw [heapGet_take _ _ _ hcl, ← hh]
    exact h.cells c (by rw [hh]; exact hcl)
  · simp only [State.leave]; rw [← hc]; exact h.cfg

theorem Replay.write (σ : State V) (c : Cell) (v : Option V) (hv : Valid σ.heap c) :
    Replay σ { σ with heap := heapSet σ.heap c v } [Ev.wr c v] := by
  refine ⟨by simp, fun b _ => heapSet_len_at _ _ _ _, fun c' _ => ?_, rfl⟩
  simp only [cellEff, List.foldl, actOn]
  by_cases hcc : c = c'
  · subst hcc; simp [heapGet_heapSet_eq _ _ _ hv]
  · simp [hcc, heapGet_heapSet_ne _ _ _ _ hcc]

theorem Replay.reduce (σ : State V) (c : Cell) (v : Option V) (hv : Valid σ.heap c) :
    Replay σ { σ with heap := heapSet σ.heap c (lift2 DataAlg.add (heapGet σ.heap c) v) }
      [Ev.red c v] := by
  refine ⟨by simp, fun b _ => heapSet_len_at _ _ _ _, fun c' _ => ?_, rfl⟩
  simp only [cellEff, List.foldl, actOn]
  by_cases hcc : c = c'
  · subst hcc; simp [heapGet_heapSet_eq _ _ _ hv]
  · simp [hcc, heapGet_heapSet_ne _ _ _ _ hcc]

theorem Replay.setCfg (σ : State V) (k : Key) (v : CfgVal V) :
    Replay σ { σ with cfg := setCfg k v σ.cfg } [Ev.cwr k v] :=
  ⟨Nat.le_refl _, fun _ _ => rfl, fun _ _ => rfl, rfl⟩

theorem Replay.alloc (σ : State V) (b : List (Option V)) (vs : List (Sym × View)) :
    Replay σ { σ with heap := σ.heap ++ [b], views := vs } [] := by
  refine ⟨by simp, fun i hi => ?_, fun c hc => ?_, rfl⟩
  · simp only []; rw [List.getElem?_append_left hi]
  · simp only [cellEff_nil]; exact heapGet_append_left _ _ _ hc

theorem replay_iterate (g : Int → State V → List (Ev V)) (f : Int → State V → Except Err (State V))
    (hf : ∀ v s s', f v s = .ok s' → Replay s s' (g v s)) :
    ∀ (n : Nat) (lo : Int) (σ σ' : State V), iterate f n lo σ = .ok σ' →
      Replay σ σ' (evIter g f n lo σ)
  | 0, _, σ, σ', h => by
    simp only [iterate, pure, Except.pure, Except.ok.injEq] at h
    subst h
    exact Replay.pure_same allPure_nil rfl rfl
  | n + 1, lo, σ, σ', h => by
    simp only [iterate, bind, Except.bind] at h
    cases h1 : f lo σ with
    | error e => rw [h1] at h; cases h
    | ok s1 =>
      rw [h1] at h
      simp only [evIter, h1, onOk_ok]
      exact Replay.trans (hf _ _ _ h1) (replay_iterate g f hf n (lo + 1) s1 σ' h)

end

end Exo.Fp
