/-
  The corrected alpha comparison accepts every term compared with itself, under renamings that
  relate every name to itself (in particular the empty ones).  Consequences: `blockEq'` is not
  vacuous, and calls of syntactically equal callees pass `procEq'`.
-/
import ExoModel.AlphaEq
import ExoModel.Lemmas.AlphaBridge

set_option linter.unusedSectionVars false
namespace Exo.Rw
open Exo

/-- a renaming that relates names to themselves only -/
def IdRen (ρ : Ren) : Prop := ∀ p ∈ ρ, p.1 = p.2

theorem IdRen.nil : IdRen [] := fun _ h => by cases h

theorem IdRen.cons {ρ : Ren} (h : IdRen ρ) (x : Sym) : IdRen ((x, x) :: ρ) := by
  intro p hp
  cases hp with
  | head => rfl
  | tail _ hp => exact h p hp

theorem symEq_refl : ∀ (ρ : Ren), IdRen ρ → ∀ a, symEq ρ a a = true
  | [], _, a => by simp [symEq]
  | (x, y) :: ρ, h, a => by
    have hxy : x = y := h (x, y) (List.mem_cons_self ..)
    subst hxy
    rw [symEq_cons']
    split
    · simp_all
    · exact symEq_refl ρ (fun p hp => h p (List.mem_cons_of_mem _ hp)) a

mutual
theorem exprEq'_refl : ∀ (e : Expr) (ctrl : Bool) (ρc ρv : Ren), IdRen ρc → IdRen ρv →
    exprEq' ctrl ρc ρv e e = true
  | .read x i, ctrl, ρc, ρv, hc, hv => by
    simp only [exprEq', Bool.and_eq_true]
    refine ⟨?_, exprsEq'_refl i true ρc ρv hc hv⟩
    cases ctrl
    · exact symEq_refl ρv hv x
    · exact symEq_refl ρc hc x
  | .lit a, _, _, _, _, _ => by simp [exprEq']
  | .usub a, ctrl, ρc, ρv, hc, hv => by
    simp only [exprEq']
    exact exprEq'_refl a ctrl ρc ρv hc hv
  | .binop o a b, ctrl, ρc, ρv, hc, hv => by
    simp only [exprEq', Bool.and_eq_true]
    exact ⟨⟨by simp, exprEq'_refl a ctrl ρc ρv hc hv⟩, exprEq'_refl b ctrl ρc ρv hc hv⟩
  | .extern f a, ctrl, ρc, ρv, hc, hv => by
    simp only [exprEq', Bool.and_eq_true]
    exact ⟨by simp, exprsEq'_refl a ctrl ρc ρv hc hv⟩
  | .win x a, ctrl, ρc, ρv, hc, hv => by
    simp only [exprEq', Bool.and_eq_true]
    exact ⟨symEq_refl ρv hv x, waccsEq'_refl a ρc ρv hc hv⟩
  | .stride x d, _, _, ρv, _, hv => by
    simp only [exprEq', Bool.and_eq_true]
    exact ⟨symEq_refl ρv hv x, by simp⟩
  | .readcfg c f, _, _, _, _, _ => by simp [exprEq']
theorem exprsEq'_refl : ∀ (es : List Expr) (ctrl : Bool) (ρc ρv : Ren), IdRen ρc → IdRen ρv →
    exprsEq' ctrl ρc ρv es es = true
  | [], _, _, _, _, _ => by simp [exprsEq']
  | a :: r, ctrl, ρc, ρv, hc, hv => by
    simp only [exprsEq', Bool.and_eq_true]
    exact ⟨exprEq'_refl a ctrl ρc ρv hc hv, exprsEq'_refl r ctrl ρc ρv hc hv⟩
theorem waccEq'_refl : ∀ (w : WAcc) (ρc ρv : Ren), IdRen ρc → IdRen ρv →
    waccEq' ρc ρv w w = true
  | .point a, ρc, ρv, hc, hv => by
    simp only [waccEq']
    exact exprEq'_refl a true ρc ρv hc hv
  | .interval a b, ρc, ρv, hc, hv => by
    simp only [waccEq', Bool.and_eq_true]
    exact ⟨exprEq'_refl a true ρc ρv hc hv, exprEq'_refl b true ρc ρv hc hv⟩
theorem waccsEq'_refl : ∀ (ws : List WAcc) (ρc ρv : Ren), IdRen ρc → IdRen ρv →
    waccsEq' ρc ρv ws ws = true
  | [], _, _, _, _ => by simp [waccsEq']
  | a :: r, ρc, ρv, hc, hv => by
    simp only [waccsEq', Bool.and_eq_true]
    exact ⟨waccEq'_refl a ρc ρv hc hv, waccsEq'_refl r ρc ρv hc hv⟩
end

theorem argsEq'_refl {ρc ρv : Ren} (hc : IdRen ρc) (hv : IdRen ρv) :
    ∀ (fs : List FnArg) (as : List Expr), argsEq' ρc ρv fs as as = true
  | [], as => by simp [argsEq']
  | ⟨_, t⟩ :: _, [] => by cases t <;> simp [argsEq']
  | ⟨_, t⟩ :: fs, a :: as => by
    cases t <;> simp only [argsEq', Bool.and_eq_true]
    · exact ⟨exprEq'_refl a true ρc ρv hc hv, argsEq'_refl hc hv fs as⟩
    · exact ⟨exprEq'_refl a false ρc ρv hc hv, argsEq'_refl hc hv fs as⟩
    · exact ⟨exprEq'_refl a false ρc ρv hc hv, argsEq'_refl hc hv fs as⟩

theorem fnArgsEq'_refl : ∀ (fs : List FnArg), fnArgsEq' fs fs = true
  | [] => by simp [fnArgsEq']
  | ⟨x, t⟩ :: fs => by
    simp only [fnArgsEq', Bool.and_eq_true]
    refine ⟨⟨by simp, ?_⟩, fnArgsEq'_refl fs⟩
    cases t with
    | ctrl k => simp [argTyEq']
    | scalar => simp [argTyEq']
    | tensor s w =>
      simp only [argTyEq', Bool.and_eq_true]
      exact ⟨exprsEq'_refl s true [] [] IdRen.nil IdRen.nil, by simp⟩

mutual
theorem stmtEq'_refl : ∀ (s : Stmt) (ρc ρv : Ren), IdRen ρc → IdRen ρv →
    ∃ ρ' : Ren × Ren, stmtEq' ρc ρv s s = some ρ' ∧ IdRen ρ'.1 ∧ IdRen ρ'.2
  | .assign x i e, ρc, ρv, hc, hv => by
    refine ⟨(ρc, ρv), ?_, hc, hv⟩
    simp only [stmtEq']
    rw [if_pos]
    simp only [Bool.and_eq_true]
    exact ⟨⟨symEq_refl ρv hv x, exprsEq'_refl i true ρc ρv hc hv⟩, exprEq'_refl e false ρc ρv hc hv⟩
  | .reduce x i e, ρc, ρv, hc, hv => by
    refine ⟨(ρc, ρv), ?_, hc, hv⟩
    simp only [stmtEq']
    rw [if_pos]
    simp only [Bool.and_eq_true]
    exact ⟨⟨symEq_refl ρv hv x, exprsEq'_refl i true ρc ρv hc hv⟩, exprEq'_refl e false ρc ρv hc hv⟩
  | .writecfg c f e d, ρc, ρv, hc, hv => by
    refine ⟨(ρc, ρv), ?_, hc, hv⟩
    simp only [stmtEq']
    rw [if_pos]
    simp only [Bool.and_eq_true]
    exact ⟨by simp, exprEq'_refl e (!d) ρc ρv hc hv⟩
  | .pass, ρc, ρv, hc, hv => ⟨(ρc, ρv), by simp [stmtEq'], hc, hv⟩
  | .ite c t e, ρc, ρv, hc, hv => by
    refine ⟨(ρc, ρv), ?_, hc, hv⟩
    simp only [stmtEq']
    rw [if_pos]
    simp only [Bool.and_eq_true]
    exact ⟨⟨exprEq'_refl c true ρc ρv hc hv, blockEq'_refl t ρc ρv hc hv⟩,
      blockEq'_refl e ρc ρv hc hv⟩
  | .loop i lo hi b par, ρc, ρv, hc, hv => by
    refine ⟨(ρc, ρv), ?_, hc, hv⟩
    simp only [stmtEq']
    rw [if_pos]
    simp only [Bool.and_eq_true]
    exact ⟨⟨⟨exprEq'_refl lo true ρc ρv hc hv, exprEq'_refl hi true ρc ρv hc hv⟩, by simp⟩,
      blockEq'_refl b _ ρv (hc.cons i) hv⟩
  | .alloc x sh, ρc, ρv, hc, hv => by
    refine ⟨(ρc, (x, x) :: ρv), ?_, hc, hv.cons x⟩
    simp only [stmtEq']
    rw [if_pos]
    exact exprsEq'_refl sh true ρc ρv hc hv
  | .free x, ρc, ρv, hc, hv => by
    refine ⟨(ρc, ρv), ?_, hc, hv⟩
    simp only [stmtEq']
    rw [if_pos]
    exact symEq_refl ρv hv x
  | .call f a, ρc, ρv, hc, hv => by
    refine ⟨(ρc, ρv), ?_, hc, hv⟩
    simp only [stmtEq']
    rw [if_pos]
    simp only [Bool.and_eq_true]
    exact ⟨procEq'_refl f, argsEq'_refl hc hv f.args a⟩
  | .window x e, ρc, ρv, hc, hv => by
    refine ⟨(ρc, (x, x) :: ρv), ?_, hc, hv.cons x⟩
    simp only [stmtEq']
    rw [if_pos]
    exact exprEq'_refl e false ρc ρv hc hv
theorem blockEq'_refl : ∀ (B : List Stmt) (ρc ρv : Ren), IdRen ρc → IdRen ρv →
    blockEq' ρc ρv B B = true
  | [], _, _, _, _ => by simp [blockEq']
  | s :: r, ρc, ρv, hc, hv => by
    obtain ⟨ρ', h1, hc', hv'⟩ := stmtEq'_refl s ρc ρv hc hv
    simp only [blockEq', h1]
    exact blockEq'_refl r ρ'.1 ρ'.2 hc' hv'
theorem procEq'_refl : ∀ (f : Proc), procEq' f f = true
  | .mk n fs ps b => by
    simp only [procEq', Bool.and_eq_true]
    exact ⟨⟨⟨by simp, fnArgsEq'_refl fs⟩, exprsEq'_refl ps true [] [] IdRen.nil IdRen.nil⟩,
      blockEq'_refl b [] [] IdRen.nil IdRen.nil⟩
end

end Exo.Rw
