/-
  Expressions under the simulation relation: substitution of control expressions is exact,
  accesses through a window agree with the rewritten accesses into the underlying buffer
  (except that the window's own bounds are narrower), data expressions and views follow.
-/
import ExoModel.Lemmas.InlineRel

set_option linter.unusedSectionVars false
set_option linter.unusedVariables false
namespace Exo.Inline
open Exo

variable {V : Type} {W : Prop}

/-! ### inversion of `applyAcc` -/

theorem applyAcc_point {σ : State V} {e : Expr} {as : List WAcc} {ext st : Int}
    {ds : List (Int × Int)} {off o : Int} {r : List (Int × Int)}
    (h : applyAcc σ (.point e :: as) ((ext, st) :: ds) off = .ok (o, r)) :
    ∃ i, evalC σ e = .ok i ∧ 0 ≤ i ∧ i < ext ∧ applyAcc σ as ds (off + i * st) = .ok (o, r) := by
  simp only [applyAcc] at h
  cases he : evalC σ e with
  | error e' => rw [he] at h; cases h
  | ok i =>
    rw [he] at h
    have h' : (if 0 ≤ i ∧ i < ext then applyAcc σ as ds (off + i * st) else throw .oob)
        = .ok (o, r) := h
    split at h'
    · rename_i hc; exact ⟨i, rfl, hc.1, hc.2, h'⟩
    · cases h'

theorem applyAcc_interval {σ : State V} {lo hi : Expr} {as : List WAcc} {ext st : Int}
    {ds : List (Int × Int)} {off o : Int} {r : List (Int × Int)}
    (h : applyAcc σ (.interval lo hi :: as) ((ext, st) :: ds) off = .ok (o, r)) :
    ∃ l hh r', evalC σ lo = .ok l ∧ evalC σ hi = .ok hh ∧ 0 ≤ l ∧ l ≤ hh ∧ hh ≤ ext ∧
      applyAcc σ as ds (off + l * st) = .ok (o, r') ∧ r = (hh - l, st) :: r' := by
  simp only [applyAcc] at h
  cases hl : evalC σ lo with
  | error e' => rw [hl] at h; cases h
  | ok l =>
    rw [hl] at h
    cases hh : evalC σ hi with
    | error e' => rw [hh] at h; cases h
    | ok hv =>
      rw [hh] at h
      have h' : (if 0 ≤ l ∧ l ≤ hv ∧ hv ≤ ext then
            (applyAcc σ as ds (off + l * st) >>= fun p => pure (p.1, (hv - l, st) :: p.2))
          else throw .oob) = .ok (o, r) := h
      split at h'
      · rename_i hc
        cases hr : applyAcc σ as ds (off + l * st) with
        | error e' => rw [hr] at h'; cases h'
        | ok p =>
          rw [hr] at h'
          obtain ⟨o', r'⟩ := p
          cases h'
          exact ⟨l, hv, r', rfl, rfl, hc.1, hc.2.1, hc.2.2, hr, rfl⟩
      · cases h'

theorem applyAcc_nil_dims {σ : State V} {a : WAcc} {as : List WAcc} {off : Int}
    {p : Int × List (Int × Int)} (h : applyAcc σ (a :: as) [] off = .ok p) : False := by
  cases a <;> simp [applyAcc] at h

theorem applyAcc_nil_acc {σ : State V} {d : Int × Int} {ds : List (Int × Int)} {off : Int}
    {p : Int × List (Int × Int)} (h : applyAcc σ [] (d :: ds) off = .ok p) : False := by
  simp [applyAcc] at h

/-- the offset a window starts from is only added -/
theorem applyAcc_shift (σ : State V) (d : Int) : ∀ (acc : List WAcc) (dims : List (Int × Int))
    (off o : Int) (r : List (Int × Int)), applyAcc σ acc dims off = .ok (o, r) →
    applyAcc σ acc dims (off + d) = .ok (o + d, r)
  | [], [], off, o, r, h => by
    simp only [applyAcc, pure, Except.pure] at h ⊢; cases h; rfl
  | [], _ :: _, _, _, _, h => (applyAcc_nil_acc h).elim
  | _ :: _, [], _, _, _, h => (applyAcc_nil_dims h).elim
  | .point e :: as, (ext, st) :: ds, off, o, r, h => by
    obtain ⟨i, he, h0, h1, hr⟩ := applyAcc_point h
    have ih := applyAcc_shift σ d as ds _ o r hr
    simp only [applyAcc, he, bind, Except.bind, h0, h1, and_self, if_true]
    have : off + d + i * st = off + i * st + d := by omega
    rw [this]; exact ih
  | .interval lo hi :: as, (ext, st) :: ds, off, o, r, h => by
    obtain ⟨l, hh, r', hl, hhi, h0, h1, h2, hr, rfl⟩ := applyAcc_interval h
    have ih := applyAcc_shift σ d as ds _ o r' hr
    have : off + d + l * st = off + l * st + d := by omega
    simp only [applyAcc, hl, hhi, bind, Except.bind, h0, h1, h2, and_self, if_true, this, ih]
    rfl

theorem dimMap_sound (σ : State V) : ∀ (acc : List WAcc) (dims : List (Int × Int)) (off o : Int)
    (r : List (Int × Int)) (d k : Nat), applyAcc σ acc dims off = .ok (o, r) →
    dimMap acc d = some k → ∃ e e' s, r[d]? = some (e, s) ∧ dims[k]? = some (e', s)
  | [], _, _, _, _, _, _, _, hk => by simp [dimMap] at hk
  | _ :: _, [], _, _, _, _, _, h, _ => (applyAcc_nil_dims h).elim
  | .point e :: as, (ext, st) :: ds, off, o, r, d, k, h, hk => by
    obtain ⟨i, he, h0, h1, hr⟩ := applyAcc_point h
    simp only [dimMap, Option.map_eq_some_iff] at hk
    obtain ⟨k', hk', rfl⟩ := hk
    obtain ⟨e1, e2, s, a, b⟩ := dimMap_sound σ as ds _ o r d k' hr hk'
    exact ⟨e1, e2, s, a, by simpa using b⟩
  | .interval lo hi :: as, (ext, st) :: ds, off, o, r, 0, k, h, hk => by
    obtain ⟨l, hh, r', hl, hhi, h0, h1, h2, hr, rfl⟩ := applyAcc_interval h
    simp only [dimMap, Option.some.injEq] at hk
    subst hk
    exact ⟨hh - l, ext, st, by simp, by simp⟩
  | .interval lo hi :: as, (ext, st) :: ds, off, o, r, d + 1, k, h, hk => by
    obtain ⟨l, hh, r', hl, hhi, h0, h1, h2, hr, rfl⟩ := applyAcc_interval h
    simp only [dimMap, Option.map_eq_some_iff] at hk
    obtain ⟨k', hk', rfl⟩ := hk
    obtain ⟨e1, e2, s, a, b⟩ := dimMap_sound σ as ds _ o r' d k' hr hk'
    exact ⟨e1, e2, s, by simpa using a, by simpa using b⟩

/-- what `viewOf … (some acc) = ok v` says -/
theorem viewOf_win {σ : State V} {y : Sym} {acc : List WAcc} {v : View}
    (h : viewOf σ y (some acc) = .ok v) :
    ∃ vy o ds, lookupSym y σ.views = some vy ∧ applyAcc σ acc vy.dims vy.off = .ok (o, ds) ∧
      v = { buf := vy.buf, off := o, dims := ds } := by
  simp only [viewOf, evalView] at h
  cases hl : lookupSym y σ.views with
  | none => rw [hl] at h; cases h
  | some vy =>
    rw [hl] at h
    simp only [] at h
    cases ha : applyAcc σ acc vy.dims vy.off with
    | error e => rw [ha] at h; cases h
    | ok p =>
      rw [ha] at h
      obtain ⟨o, ds⟩ := p
      cases h
      exact ⟨vy, o, ds, rfl, ha, rfl⟩

theorem viewOf_none {σ : State V} {y : Sym} {v : View} (h : viewOf σ y none = .ok v) :
    lookupSym y σ.views = some v := by
  simp only [viewOf] at h
  cases hl : lookupSym y σ.views with
  | none => rw [hl] at h; cases h
  | some vy => rw [hl] at h; cases h; rfl

/-! ### control expressions -/

theorem substC_sound {θ : Subst} {σc σ : State V} (h : Rel θ σc σ) :
    ∀ (e e' : Expr), substC θ e = some e' → evalC σ e' = evalC σc e
  | .read x [], e', hs => by
    simp only [substC] at hs
    split at hs
    · rename_i e'' hl
      cases hs
      obtain ⟨v, h1, h2⟩ := h.holds x _ hl
      simp [evalC, h1, h2, pure, Except.pure]
    · cases hs
  | .read x (_ :: _), _, hs => by simp [substC] at hs
  | .lit (.int n), e', hs => by simp only [substC, Option.some.injEq] at hs; subst hs; simp [evalC]
  | .lit (.bool n), e', hs => by simp only [substC, Option.some.injEq] at hs; subst hs; simp [evalC]
  | .lit (.data _ _), _, hs => by simp [substC] at hs
  | .usub e, e', hs => by
    simp only [substC] at hs
    split at hs
    · rename_i e'' he
      cases hs
      simp only [evalC, substC_sound h e e'' he]
    · cases hs
  | .binop op a b, e', hs => by
    simp only [substC] at hs
    split at hs
    · rename_i a' b' ha hb
      cases hs
      simp only [evalC, substC_sound h a a' ha, substC_sound h b b' hb]
    · cases hs
  | .stride x d, e', hs => by
    simp only [substC] at hs
    split at hs
    · rename_i y hl
      cases hs
      obtain ⟨v, h1, h2⟩ := h.holds x _ hl
      have h3 := viewOf_none h2
      simp [evalC, h1, h3]
    · rename_i y acc hl
      split at hs
      · rename_i k hk
        cases hs
        obtain ⟨v, h1, h2⟩ := h.holds x _ hl
        obtain ⟨vy, o, ds, h3, h4, rfl⟩ := viewOf_win h2
        obtain ⟨e1, e2, s, a, b⟩ := dimMap_sound σ acc _ _ _ _ d k h4 hk
        simp [evalC, h1, h3, a, b]
      · cases hs
    · cases hs
  | .readcfg c f, e', hs => by
    simp only [substC, Option.some.injEq] at hs; subst hs; simp [evalC, h.cfg]
  | .extern _ _, _, hs => by simp [substC] at hs
  | .win _ _, _, hs => by simp [substC] at hs

theorem matchC_sound {θ : Subst} {σc σ : State V} (h : Rel θ σc σ) {e e' : Expr}
    (hm : matchC θ e e' = true) : ExEq (evalC σc e) (evalC σ e') := by
  simp only [matchC] at hm
  split at hm
  · rename_i e'' hs
    rw [← substC_sound h e e'' hs]
    exact eqC_sound σ _ _ hm
  · cases hm

theorem matchCs_sound {θ : Subst} {σc σ : State V} (h : Rel θ σc σ) :
    ∀ {a b : List Expr}, matchCs θ a b = true → ExEq (evalCs σc a) (evalCs σ b)
  | [], [], _ => ExEq.refl _
  | [], _ :: _, hm => by simp [matchCs] at hm
  | _ :: _, [], hm => by simp [matchCs] at hm
  | a :: r, b :: s, hm => by
    simp only [matchCs, Bool.and_eq_true] at hm
    simp only [evalCs]
    exact ExEq.bind_congr (matchC_sound h hm.1)
      (fun _ => ExEq.bind_congr (matchCs_sound h hm.2) (fun _ => ExEq.refl _))

/-! ### accesses through a window -/

/-- indices `ws` into the underlying buffer are the indices `vs` into the window `y[acc]` -/
def ComposeRel (σ : State V) : List WAcc → List Int → List Int → Prop
  | [], [], [] => True
  | .point p :: as, vs, w :: ws => evalC σ p = .ok w ∧ ComposeRel σ as vs ws
  | .interval lo _ :: as, v :: vs, w :: ws =>
      (∃ l, evalC σ lo = .ok l ∧ w = l + v) ∧ ComposeRel σ as vs ws
  | _, _, _ => False

theorem Sim.map_right {α β δ : Type} {R : α → β → Prop} {R' : α → δ → Prop}
    {rc : Except Err α} {r : Except Err β} (g : β → δ) (h : Sim W R rc r)
    (hg : ∀ a b, R a b → R' a (g b)) : Sim W R' rc (r.map g) := by
  have : rc = rc.map id := by cases rc <;> rfl
  rw [this]
  exact h.map id g hg

theorem sim_of_exEq_map {rc : Except Err Int} {r : Except Err Int} (g : Int → Int)
    (h : ExEq (rc >>= fun v => Except.ok (g v)) r) : Sim False (fun v w => w = g v) rc r := by
  constructor
  · intro v hv
    subst hv
    exact ⟨g v, exEq_ok_left h rfl, rfl⟩
  · intro w hw
    have := exEq_ok_right h hw
    cases rc with
    | error e => cases this
    | ok v =>
      have e : g v = w := by
        have : (Except.ok (g v) : Except Err Int) = .ok w := this
        cases this; rfl
      exact Or.inl ⟨v, rfl, e.symm⟩

theorem matchWin_sound {θ : Subst} {σc σ : State V} (h : Rel θ σc σ) :
    ∀ (acc : List WAcc) (idx idx' : List Expr) (dims : List (Int × Int)) (off o : Int)
      (r : List (Int × Int)), applyAcc σ acc dims off = .ok (o, r) →
      matchWin θ acc idx idx' = true →
      Sim False (ComposeRel σ acc) (evalCs σc idx) (evalCs σ idx')
  | [], [], [], _, _, _, _, _, _ => by
    simp only [evalCs, pure, Except.pure]
    exact Sim.pure (by simp [ComposeRel])
  | [], [], _ :: _, _, _, _, _, _, hm => by simp [matchWin] at hm
  | [], _ :: _, _, _, _, _, _, _, hm => by simp [matchWin] at hm
  | _ :: _, _, _, [], _, _, _, ha, _ => (applyAcc_nil_dims ha).elim
  | .point p :: as, idx, [], _, _, _, _, _, hm => by simp [matchWin] at hm
  | .point p :: as, idx, j :: js, (ext, st) :: ds, off, o, r, ha, hm => by
    obtain ⟨i, he, h0, h1, hr⟩ := applyAcc_point ha
    simp only [matchWin, Bool.and_eq_true] at hm
    have hj : evalC σ j = .ok i := exEq_ok_left (eqC_sound σ p j hm.1) he
    have ih := matchWin_sound h as idx js ds _ o r hr hm.2
    have e : evalCs σ (j :: js) = (evalCs σ js).map (i :: ·) := by
      simp only [evalCs, hj, bind, Except.bind, pure, Except.pure]
      cases evalCs σ js <;> rfl
    rw [e]
    exact ih.map_right _ (fun vs ws hR => by simpa [ComposeRel] using ⟨he, hR⟩)
  | .interval lo hi :: as, [], _, _, _, _, _, _, hm => by simp [matchWin] at hm
  | .interval lo hi :: as, _ :: _, [], _, _, _, _, _, hm => by simp [matchWin] at hm
  | .interval lo hi :: as, i :: is, j :: js, (ext, st) :: ds, off, o, r, ha, hm => by
    obtain ⟨l, hh, r', hl, hhi, h0, h1, h2, hr, rfl⟩ := applyAcc_interval ha
    simp only [matchWin, Bool.and_eq_true] at hm
    obtain ⟨hm1, hm2⟩ := hm
    have ih := matchWin_sound h as is js ds _ o r' hr hm2
    split at hm1
    · rename_i i' hs
      have e1 := substC_sound h i i' hs
      have e2 := eqC_sound σ _ _ hm1
      have e3 : evalC σ (.binop .add lo i') = (evalC σc i >>= fun v => Except.ok (l + v)) := by
        simp only [evalC, hl, e1, ctrlOp, bind, Except.bind, pure, Except.pure]
      rw [e3] at e2
      have s1 := sim_of_exEq_map (fun v => l + v) e2
      simp only [evalCs]
      refine s1.bind (fun v w hvw => ?_)
      refine ih.bind (fun vs ws hR => ?_)
      simp only [pure, Except.pure]
      exact Sim.pure (by simp only [ComposeRel]; exact ⟨⟨l, hl, hvw⟩, hR⟩)
    · cases hm1

theorem viewOffset_nil_idx {d : Int × Int} {ds : List (Int × Int)} {a k : Int}
    (h : viewOffset (d :: ds) [] a = .ok k) : False := by
  simp [viewOffset] at h

/-- the arithmetic of composing an access with a window -/
theorem compose_offset (σ : State V) (hW : W) : ∀ (acc : List WAcc) (dims : List (Int × Int))
    (off o : Int) (r : List (Int × Int)) (vs ws : List Int),
    applyAcc σ acc dims off = .ok (o, r) → ComposeRel σ acc vs ws →
    Sim W Eq (viewOffset r vs o) (viewOffset dims ws off)
  | [], [], off, o, r, [], [], ha, _ => by
    simp only [applyAcc, pure, Except.pure] at ha
    cases ha
    exact Sim.of_eq rfl
  | [], _ :: _, _, _, _, _, _, ha, _ => (applyAcc_nil_acc ha).elim
  | [], [], _, _, _, _ :: _, _, _, hc => by simp [ComposeRel] at hc
  | [], [], _, _, _, [], _ :: _, _, hc => by simp [ComposeRel] at hc
  | _ :: _, [], _, _, _, _, _, ha, _ => (applyAcc_nil_dims ha).elim
  | .point p :: as, _, _, _, _, _, [], _, hc => by simp [ComposeRel] at hc
  | .point p :: as, (ext, st) :: ds, off, o, r, vs, w :: ws, ha, hc => by
    obtain ⟨i, he, h0, h1, hr⟩ := applyAcc_point ha
    simp only [ComposeRel] at hc
    have : i = w := by rw [he] at hc; cases hc.1; rfl
    subst this
    have ih := compose_offset σ hW as ds _ o r vs ws hr hc.2
    simp only [viewOffset, h0, h1, and_self, if_true]
    exact ih
  | .interval lo hi :: as, _, _, _, _, [], _, _, hc => by simp [ComposeRel] at hc
  | .interval lo hi :: as, _, _, _, _, _ :: _, [], _, hc => by simp [ComposeRel] at hc
  | .interval lo hi :: as, (ext, st) :: ds, off, o, r, v :: vs, w :: ws, ha, hc => by
    obtain ⟨l, hh, r', hl, hhi, h0, h1, h2, hr, rfl⟩ := applyAcc_interval ha
    simp only [ComposeRel] at hc
    obtain ⟨⟨l', hl', rfl⟩, hc2⟩ := hc
    have : l' = l := by rw [hl] at hl'; cases hl'; rfl
    subst this
    have hr' := applyAcc_shift σ (v * st) as ds _ o r' hr
    have ih := compose_offset σ hW as ds _ _ r' vs ws hr' hc2
    have e : off + (l' + v) * st = off + l' * st + v * st := by rw [Int.add_mul]; omega
    simp only [viewOffset, e]
    by_cases hv : 0 ≤ v ∧ v < hh - l'
    · have hw : 0 ≤ l' + v ∧ l' + v < ext := by omega
      simp only [hv, hw, and_self, if_true]
      exact ih
    · simp only [hv, if_false]
      by_cases hw : 0 ≤ l' + v ∧ l' + v < ext
      · simp only [hw, and_self, if_true]
        constructor
        · intro a ha'; cases ha'
        · intro b hb; exact Or.inr ⟨hW, rfl⟩
      · simp only [hw, if_false]
        exact Sim.error _ _

/-- the cell addressed by an offset into buffer `b` -/
def cellAt (heap : List (List (Option V))) (b : Nat) (o : Int) : Except Err (Nat × Nat) :=
  match heap[b]? with
  | none => throw .scope
  | some l => if 0 ≤ o ∧ o < l.length then pure (b, o.toNat) else throw .oob

theorem cellOf_eq (heap : List (List (Option V))) (v : View) (is : List Int) :
    cellOf heap v is = (viewOffset v.dims is v.off >>= cellAt heap v.buf) := by
  simp only [cellOf]; rfl

/-- the heart of the validator: an access `x[idx]` in the callee and the access `x'[idx']` the
    caller's block makes denote the same cell — or the callee's is outside its window -/
theorem matchAcc_sound {θ : Subst} {σc σ : State V} (h : Rel θ σc σ) (hW : hasWin θ = true → W)
    {x x' : Sym} {idx idx' : List Expr} (hm : matchAcc θ x idx x' idx' = true) :
    ∃ vx vy, lookupSym x σc.views = some vx ∧ lookupSym x' σ.views = some vy ∧ vx.buf = vy.buf ∧
      Sim W Eq (evalCs σc idx >>= fun is => viewOffset vx.dims is vx.off)
               (evalCs σ idx' >>= fun js => viewOffset vy.dims js vy.off) := by
  simp only [matchAcc] at hm
  split at hm
  · rename_i y hl
    simp only [Bool.and_eq_true, beq_iff_eq] at hm
    obtain ⟨rfl, hm2⟩ := hm
    obtain ⟨v, h1, h2⟩ := h.holds x _ hl
    refine ⟨v, v, h1, viewOf_none h2, rfl, ?_⟩
    exact (Sim.of_exEq (matchCs_sound h hm2)).bind (fun a b hab => by subst hab; exact Sim.of_eq rfl)
  · rename_i y acc hl
    simp only [Bool.and_eq_true, beq_iff_eq] at hm
    obtain ⟨rfl, hm2⟩ := hm
    obtain ⟨v, h1, h2⟩ := h.holds x _ hl
    obtain ⟨vy, o, ds, h3, h4, rfl⟩ := viewOf_win h2
    refine ⟨_, vy, h1, h3, rfl, ?_⟩
    have w : W := hW (hasWin_lookup hl)
    exact ((matchWin_sound h acc idx idx' _ _ _ _ h4 hm2).weaken False.elim).bind
      (fun vs ws hR => compose_offset σ w acc _ _ _ _ vs ws h4 hR)
  · cases hm

theorem matchAcc_cell {θ : Subst} {σc σ : State V} (h : Rel θ σc σ) (hW : hasWin θ = true → W)
    {x x' : Sym} {idx idx' : List Expr} (hm : matchAcc θ x idx x' idx' = true) :
    ∃ vx vy, lookupSym x σc.views = some vx ∧ lookupSym x' σ.views = some vy ∧
      Sim W Eq (evalCs σc idx >>= fun is => cellOf σc.heap vx is)
               (evalCs σ idx' >>= fun js => cellOf σ.heap vy js) := by
  obtain ⟨vx, vy, h1, h2, hb, hs⟩ := matchAcc_sound h hW hm
  refine ⟨vx, vy, h1, h2, ?_⟩
  simp only [cellOf_eq, ← bind_assoc]
  refine hs.bind (fun a b hab => ?_)
  subst hab
  rw [hb, h.heap]
  exact Sim.of_eq rfl

/-! ### data expressions -/

variable [DataAlg V] (ext : String → List V → V)

mutual
theorem matchD_sound {θ : Subst} {σc σ : State V} (h : Rel θ σc σ) (hW : hasWin θ = true → W) :
    ∀ (e e' : Expr), matchD θ e e' = true → Sim W Eq (evalD ext σc e) (evalD ext σ e')
  | .read x idx, e', hm => by
    cases e' with
    | read x' idx' =>
      simp only [matchD] at hm
      obtain ⟨vx, vy, h1, h2, hs⟩ := matchAcc_cell h hW hm
      simp only [evalD, h1, h2]
      have e1 : (do let is ← evalCs σc idx; let c ← cellOf σc.heap vx is; pure (heapGet σc.heap c))
          = ((evalCs σc idx >>= fun is => cellOf σc.heap vx is) >>= fun c =>
              (Except.ok (heapGet σc.heap c) : Except Err (Option V))) := by
        simp only [bind_assoc]; rfl
      have e2 : (do let is ← evalCs σ idx'; let c ← cellOf σ.heap vy is; pure (heapGet σ.heap c))
          = ((evalCs σ idx' >>= fun is => cellOf σ.heap vy is) >>= fun c =>
              (Except.ok (heapGet σ.heap c) : Except Err (Option V))) := by
        simp only [bind_assoc]; rfl
      rw [e1, e2]
      refine hs.bind (fun a b hab => ?_)
      subst hab; rw [h.heap]; exact Sim.of_eq rfl
    | _ => simp [matchD] at hm
  | .lit (.data n d), e', hm => by
    cases e' with
    | lit c =>
      cases c with
      | data n' d' =>
        simp only [matchD, Bool.and_eq_true, beq_iff_eq] at hm
        obtain ⟨rfl, rfl⟩ := hm
        exact Sim.of_eq rfl
      | _ => simp [matchD] at hm
    | _ => simp [matchD] at hm
  | .lit (.int n), e', hm => by
    cases e' with
    | lit c =>
      cases c with
      | int n' =>
        simp only [matchD, beq_iff_eq] at hm
        subst hm
        exact Sim.of_eq rfl
      | _ => simp [matchD] at hm
    | _ => simp [matchD] at hm
  | .lit (.bool n), e', hm => by
    cases e' with
    | lit c => cases c <;> simp [matchD] at hm
    | _ => simp [matchD] at hm
  | .usub a, e', hm => by
    cases e' with
    | usub a' =>
      simp only [matchD] at hm
      simp only [evalD]
      exact (matchD_sound h hW a a' hm).bind (fun x y hxy => by subst hxy; exact Sim.of_eq rfl)
    | _ => simp [matchD] at hm
  | .binop op a b, e', hm => by
    cases e' with
    | binop op' a' b' =>
      simp only [matchD, Bool.and_eq_true, beq_iff_eq] at hm
      obtain ⟨⟨rfl, h1⟩, h2⟩ := hm
      simp only [evalD]
      refine (matchD_sound h hW a a' h1).bind (fun x y hxy => ?_)
      subst hxy
      exact (matchD_sound h hW b b' h2).bind (fun x y hxy => by subst hxy; exact Sim.of_eq rfl)
    | _ => simp [matchD] at hm
  | .extern f as, e', hm => by
    cases e' with
    | extern f' as' =>
      simp only [matchD, Bool.and_eq_true, beq_iff_eq] at hm
      obtain ⟨rfl, h1⟩ := hm
      simp only [evalD]
      exact (matchDs_sound h hW as as' h1).bind (fun x y hxy => by subst hxy; exact Sim.of_eq rfl)
    | _ => simp [matchD] at hm
  | .readcfg c f, e', hm => by
    cases e' with
    | readcfg c' f' =>
      simp only [matchD, Bool.and_eq_true, beq_iff_eq] at hm
      obtain ⟨rfl, rfl⟩ := hm
      simp only [evalD, h.cfg]
      exact Sim.of_eq rfl
    | _ => simp [matchD] at hm
  | .win _ _, e', hm => by cases e' <;> simp [matchD] at hm
  | .stride _ _, e', hm => by cases e' <;> simp [matchD] at hm
theorem matchDs_sound {θ : Subst} {σc σ : State V} (h : Rel θ σc σ) (hW : hasWin θ = true → W) :
    ∀ (es es' : List Expr), matchDs θ es es' = true → Sim W Eq (evalDs ext σc es) (evalDs ext σ es')
  | [], [], _ => Sim.of_eq rfl
  | [], _ :: _, hm => by simp [matchDs] at hm
  | _ :: _, [], hm => by simp [matchDs] at hm
  | a :: r, b :: s, hm => by
    simp only [matchDs, Bool.and_eq_true] at hm
    simp only [evalDs]
    refine (matchD_sound h hW a b hm.1).bind (fun x y hxy => ?_)
    subst hxy
    exact (matchDs_sound h hW r s hm.2).bind (fun x y hxy => by subst hxy; exact Sim.of_eq rfl)
end

end Exo.Inline

namespace Exo.Inline
open Exo
variable {V : Type} {W : Prop}

/-! ### views -/

/-- the window accesses evaluate alike, component by component -/
def AccsEq (σ1 σ2 : State V) : List WAcc → List WAcc → Prop
  | [], [] => True
  | .point a :: r, .point b :: s => ExEq (evalC σ1 a) (evalC σ2 b) ∧ AccsEq σ1 σ2 r s
  | .interval a b :: r, .interval c d :: s =>
      ExEq (evalC σ1 a) (evalC σ2 c) ∧ ExEq (evalC σ1 b) (evalC σ2 d) ∧ AccsEq σ1 σ2 r s
  | _, _ => False

theorem applyAcc_exEq (σ1 σ2 : State V) : ∀ (a b : List WAcc) (dims : List (Int × Int)) (off : Int),
    AccsEq σ1 σ2 a b → ExEq (applyAcc σ1 a dims off) (applyAcc σ2 b dims off)
  | [], [], [], _, _ => ExEq.refl _
  | [], [], _ :: _, _, _ => ExEq.refl _
  | [], _ :: _, _, _, h => by simp [AccsEq] at h
  | .point _ :: _, [], _, _, h => by simp [AccsEq] at h
  | .interval _ _ :: _, [], _, _, h => by simp [AccsEq] at h
  | .point _ :: _, .interval _ _ :: _, _, _, h => by simp [AccsEq] at h
  | .interval _ _ :: _, .point _ :: _, _, _, h => by simp [AccsEq] at h
  | .point a :: r, .point b :: s, [], _, _ => by simp only [applyAcc]; exact ExEq.refl _
  | .interval a a2 :: r, .interval b b2 :: s, [], _, _ => by simp only [applyAcc]; exact ExEq.refl _
  | .point a :: r, .point b :: s, (ext, st) :: ds, off, h => by
    simp only [AccsEq] at h
    simp only [applyAcc]
    refine ExEq.bind_congr h.1 (fun i => ?_)
    split
    · exact applyAcc_exEq σ1 σ2 r s ds _ h.2
    · exact ExEq.refl _
  | .interval a a2 :: r, .interval b b2 :: s, (ext, st) :: ds, off, h => by
    simp only [AccsEq] at h
    simp only [applyAcc]
    refine ExEq.bind_congr h.1 (fun l => ExEq.bind_congr h.2.1 (fun hh => ?_))
    split
    · exact ExEq.bind_congr (applyAcc_exEq σ1 σ2 r s ds _ h.2.2) (fun _ => ExEq.refl _)
    · exact ExEq.refl _

theorem eqCWs_accsEq (σ : State V) : ∀ (a b : List WAcc), eqCWs a b = true → AccsEq σ σ a b
  | [], [], _ => trivial
  | [], _ :: _, h => by simp [eqCWs] at h
  | _ :: _, [], h => by simp [eqCWs] at h
  | .point a :: r, .point b :: s, h => by
    simp only [eqCWs, eqCW, Bool.and_eq_true] at h
    exact ⟨eqC_sound σ a b h.1, eqCWs_accsEq σ r s h.2⟩
  | .interval a a2 :: r, .interval b b2 :: s, h => by
    simp only [eqCWs, eqCW, Bool.and_eq_true] at h
    exact ⟨eqC_sound σ a b h.1.1, eqC_sound σ a2 b2 h.1.2, eqCWs_accsEq σ r s h.2⟩
  | .point _ :: _, .interval _ _ :: _, h => by simp [eqCWs, eqCW] at h
  | .interval _ _ :: _, .point _ :: _, h => by simp [eqCWs, eqCW] at h

theorem matchWs_accsEq {θ : Subst} {σc σ : State V} (hr : Rel θ σc σ) :
    ∀ (a b : List WAcc), matchWs θ a b = true → AccsEq σc σ a b
  | [], [], _ => trivial
  | [], _ :: _, h => by simp [matchWs] at h
  | _ :: _, [], h => by simp [matchWs] at h
  | .point a :: r, .point b :: s, h => by
    simp only [matchWs, matchW, Bool.and_eq_true] at h
    exact ⟨matchC_sound hr h.1, matchWs_accsEq hr r s h.2⟩
  | .interval a a2 :: r, .interval b b2 :: s, h => by
    simp only [matchWs, matchW, Bool.and_eq_true] at h
    exact ⟨matchC_sound hr h.1.1, matchC_sound hr h.1.2, matchWs_accsEq hr r s h.2⟩
  | .point _ :: _, .interval _ _ :: _, h => by simp [matchWs, matchW] at h
  | .interval _ _ :: _, .point _ :: _, h => by simp [matchWs, matchW] at h

/-- a window of a window: the callee narrows its formal `y[w]`, the block narrows `y` directly -/
theorem matchWinWin_sound {θ : Subst} {σc σ : State V} (h : Rel θ σc σ) (hW : W) :
    ∀ (w acc acc' : List WAcc) (dims : List (Int × Int)) (off o : Int) (ds : List (Int × Int)),
      applyAcc σ w dims off = .ok (o, ds) → matchWinWin θ w acc acc' = true →
      Sim W Eq (applyAcc σc acc ds o) (applyAcc σ acc' dims off)
  | [], [], [], [], off, o, ds, ha, _ => by
    simp only [applyAcc, pure, Except.pure] at ha
    cases ha
    exact Sim.of_eq rfl
  | [], [], [], _ :: _, _, _, _, ha, _ => (applyAcc_nil_acc ha).elim
  | [], [], _ :: _, _, _, _, _, _, hm => by simp [matchWinWin] at hm
  | [], _ :: _, _, _, _, _, _, _, hm => by simp [matchWinWin] at hm
  | _ :: _, _, _, [], _, _, _, ha, _ => (applyAcc_nil_dims ha).elim
  | .point p :: ws, as, [], _ :: _, _, _, _, _, hm => by simp [matchWinWin] at hm
  | .point p :: ws, as, .interval _ _ :: bs, _ :: _, _, _, _, _, hm => by simp [matchWinWin] at hm
  | .point p :: ws, as, .point q :: bs, (ext, st) :: dims, off, o, ds, ha, hm => by
    obtain ⟨i, he, h0, h1, hr⟩ := applyAcc_point ha
    simp only [matchWinWin, Bool.and_eq_true] at hm
    have hq : evalC σ q = .ok i := exEq_ok_left (eqC_sound σ p q hm.1) he
    have ih := matchWinWin_sound h hW ws as bs dims _ o ds hr hm.2
    simp only [applyAcc, hq, bind, Except.bind, h0, h1, and_self, if_true]
    exact ih
  | .interval lo hi :: ws, [], _, _ :: _, _, _, _, _, hm => by simp [matchWinWin] at hm
  | .interval lo hi :: ws, _ :: _, [], _ :: _, _, _, _, _, hm => by simp [matchWinWin] at hm
  | .interval lo hi :: ws, .point _ :: _, .interval _ _ :: _, _ :: _, _, _, _, _, hm => by
    simp [matchWinWin] at hm
  | .interval lo hi :: ws, .interval _ _ :: _, .point _ :: _, _ :: _, _, _, _, _, hm => by
    simp [matchWinWin] at hm
  | .interval lo hi :: ws, .point e :: as, .point q :: bs, (ext, st) :: dims, off, o, ds, ha, hm => by
    obtain ⟨l, hh, r', hl, hhi, h0, h1, h2, hr, rfl⟩ := applyAcc_interval ha
    simp only [matchWinWin, Bool.and_eq_true] at hm
    obtain ⟨hm1, hm2⟩ := hm
    split at hm1
    · rename_i e' hs
      have e1 := substC_sound h e e' hs
      have e2 := eqC_sound σ _ _ hm1
      have e3 : evalC σ (.binop .add lo e') = (evalC σc e >>= fun v => Except.ok (l + v)) := by
        simp only [evalC, hl, e1, ctrlOp, bind, Except.bind, pure, Except.pure]
      rw [e3] at e2
      have s1 := (sim_of_exEq_map (fun v => l + v) e2).weaken (W' := W) False.elim
      simp only [applyAcc]
      refine s1.bind (fun v w hvw => ?_)
      subst hvw
      have hr' := applyAcc_shift σ (v * st) ws dims _ o r' hr
      have ih := matchWinWin_sound h hW ws as bs dims _ _ r' hr' hm2
      have e : off + (l + v) * st = off + l * st + v * st := by rw [Int.add_mul]; omega
      rw [e]
      by_cases hv : 0 ≤ v ∧ v < hh - l
      · have hw : 0 ≤ l + v ∧ l + v < ext := by omega
        simp only [hv, hw, and_self, if_true]
        exact ih
      · simp only [hv, if_false]
        by_cases hw : 0 ≤ l + v ∧ l + v < ext
        · simp only [hw, and_self, if_true]
          constructor
          · intro a ha'; cases ha'
          · intro b hb; exact Or.inr ⟨hW, rfl⟩
        · simp only [hw, if_false]
          exact Sim.error _ _
    · cases hm1
  | .interval lo hi :: ws, .interval a b :: as, .interval a' b' :: bs, (ext, st) :: dims, off, o, ds,
      ha, hm => by
    obtain ⟨l, hh, r', hl, hhi, h0, h1, h2, hr, rfl⟩ := applyAcc_interval ha
    simp only [matchWinWin, Bool.and_eq_true] at hm
    obtain ⟨hm1, hm2⟩ := hm
    split at hm1
    · rename_i a2 b2 hsa hsb
      simp only [Bool.and_eq_true] at hm1
      have ea := substC_sound h a a2 hsa
      have eb := substC_sound h b b2 hsb
      have ea3 : evalC σ (.binop .add lo a2) = (evalC σc a >>= fun v => Except.ok (l + v)) := by
        simp only [evalC, hl, ea, ctrlOp, bind, Except.bind, pure, Except.pure]
      have eb3 : evalC σ (.binop .add lo b2) = (evalC σc b >>= fun v => Except.ok (l + v)) := by
        simp only [evalC, hl, eb, ctrlOp, bind, Except.bind, pure, Except.pure]
      have e2a := eqC_sound σ _ _ hm1.1
      have e2b := eqC_sound σ _ _ hm1.2
      rw [ea3] at e2a
      rw [eb3] at e2b
      have sa := (sim_of_exEq_map (fun v => l + v) e2a).weaken (W' := W) False.elim
      have sb := (sim_of_exEq_map (fun v => l + v) e2b).weaken (W' := W) False.elim
      simp only [applyAcc]
      refine sa.bind (fun va wa hva => ?_)
      subst hva
      refine sb.bind (fun vb wb hvb => ?_)
      subst hvb
      have hr' := applyAcc_shift σ (va * st) ws dims _ o r' hr
      have ih := matchWinWin_sound h hW ws as bs dims _ _ r' hr' hm2
      have e : off + (l + va) * st = off + l * st + va * st := by rw [Int.add_mul]; omega
      have e' : l + vb - (l + va) = vb - va := by omega
      rw [e, e']
      by_cases hv : 0 ≤ va ∧ va ≤ vb ∧ vb ≤ hh - l
      · have hw : 0 ≤ l + va ∧ l + va ≤ l + vb ∧ l + vb ≤ ext := by omega
        simp only [hv, hw, and_self, if_true]
        exact ih.bind (fun x y hxy => by subst hxy; exact Sim.of_eq rfl)
      · simp only [hv, if_false]
        by_cases hw : 0 ≤ l + va ∧ l + va ≤ l + vb ∧ l + vb ≤ ext
        · simp only [hw, and_self, if_true]
          constructor
          · intro x hx; cases hx
          · intro y hy; exact Or.inr ⟨hW, rfl⟩
        · simp only [hw, if_false]
          exact Sim.error _ _
    · cases hm1

theorem matchV_sound {θ : Subst} {σc σ : State V} (h : Rel θ σc σ) (hW : hasWin θ = true → W)
    {e e' : Expr} (hm : matchV θ e e' = true) : Sim W Eq (evalView σc e) (evalView σ e') := by
  unfold matchV at hm
  split at hm
  · -- read x [] / read x' []
    rename_i x x'
    split at hm
    · rename_i y hl
      simp only [beq_iff_eq] at hm
      subst hm
      obtain ⟨v, h1, h2⟩ := h.holds x _ hl
      have h3 := viewOf_none h2
      simp only [evalView, h1, h3]
      exact Sim.of_eq rfl
    · cases hm
  · -- read x [] / win x' acc'
    rename_i x x' acc'
    split at hm
    · rename_i y acc hl
      simp only [Bool.and_eq_true, beq_iff_eq] at hm
      obtain ⟨rfl, hm2⟩ := hm
      obtain ⟨v, h1, h2⟩ := h.holds x _ hl
      obtain ⟨vy, o, ds, h3, h4, rfl⟩ := viewOf_win h2
      have e := applyAcc_exEq σ σ acc acc' vy.dims vy.off (eqCWs_accsEq σ acc acc' hm2)
      have h5 := exEq_ok_left e h4
      simp only [evalView, h1, h3, h5, bind, Except.bind, pure, Except.pure]
      exact Sim.of_eq rfl
    · cases hm
  · -- read x (i :: is) / read x' (j :: js)
    rename_i x i is x' j js
    obtain ⟨vx, vy, h1, h2, hb, hs⟩ := matchAcc_sound h hW hm
    simp only [evalView, h1, h2]
    have e1 : (do let is' ← evalCs σc (i :: is); let o ← viewOffset vx.dims is' vx.off
                  pure ({ buf := vx.buf, off := o, dims := [] } : View))
        = ((evalCs σc (i :: is) >>= fun is' => viewOffset vx.dims is' vx.off) >>= fun o =>
            (Except.ok ({ buf := vx.buf, off := o, dims := [] } : View) : Except Err View)) := by
      simp only [bind_assoc]; rfl
    have e2 : (do let is' ← evalCs σ (j :: js); let o ← viewOffset vy.dims is' vy.off
                  pure ({ buf := vy.buf, off := o, dims := [] } : View))
        = ((evalCs σ (j :: js) >>= fun is' => viewOffset vy.dims is' vy.off) >>= fun o =>
            (Except.ok ({ buf := vy.buf, off := o, dims := [] } : View) : Except Err View)) := by
      simp only [bind_assoc]; rfl
    rw [e1, e2]
    refine hs.bind (fun a b hab => ?_)
    subst hab; rw [hb]; exact Sim.of_eq rfl
  · -- win x acc / win x' acc'
    rename_i x acc x' acc'
    split at hm
    · rename_i y hl
      simp only [Bool.and_eq_true, beq_iff_eq] at hm
      obtain ⟨rfl, hm2⟩ := hm
      obtain ⟨v, h1, h2⟩ := h.holds x _ hl
      have h3 := viewOf_none h2
      simp only [evalView, h1, h3]
      refine (Sim.of_exEq (applyAcc_exEq σc σ acc acc' v.dims v.off (matchWs_accsEq h acc acc' hm2))).bind
        (fun a b hab => ?_)
      subst hab; exact Sim.of_eq rfl
    · rename_i y w hl
      simp only [Bool.and_eq_true, beq_iff_eq] at hm
      obtain ⟨rfl, hm2⟩ := hm
      obtain ⟨v, h1, h2⟩ := h.holds x _ hl
      obtain ⟨vy, o, ds, h3, h4, rfl⟩ := viewOf_win h2
      simp only [evalView, h1, h3]
      refine (matchWinWin_sound h (hW (hasWin_lookup hl)) w acc acc' _ _ _ _ h4 hm2).bind
        (fun a b hab => ?_)
      subst hab; exact Sim.of_eq rfl
    · cases hm
  · cases hm

end Exo.Inline
