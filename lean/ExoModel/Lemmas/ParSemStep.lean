/-
  C09 on the LoopIR semantics, part 1: iterations of a loop whose dynamic footprints (taken in the
  state at loop entry) are pairwise disjoint in the sense of `Disjoint_Memory` can be executed
  in any order.  Invariant (`Inv`): after the iterations of a set `D`, every visible cell holds
  what its unique modifier in `D` made of the initial content (or the initial content), likewise
  every configuration field; the next iteration then reads only initial contents, so by
  footprint determinacy (`detL`) it produces the events it produces at loop entry.
  No law of the data algebra is used (reduce/reduce overlap is excluded by the hypothesis).
  (Namespace `Exo.Ctx3`.)
-/
import ExoModel.Footprint
import ExoModel.Lemmas.FootprintFrame
import ExoModel.Lemmas.Rewrites
import ExoModel.Lemmas.RecomputeRun

set_option linter.unusedSectionVars false
namespace Exo.Ctx3
open Exo Exo.Fp
variable {V : Type} [DataAlg V] (ext : String → List V → V)

/-- events of iteration `v` of `for i: B` started in `s` -/
def iterEv (i : Sym) (B : List Stmt) (v : Int) (s : State V) : List (Ev V) :=
  evL ext B (s.bind i v)

theorem step_replay {i : Sym} {B : List Stmt} {v : Int} {s s' : State V}
    (h : loopStep ext i B v s = .ok s') :
    Replay s s' (iterEv ext i B v s) ∧ s'.env = s.env ∧ s'.views = s.views ∧
      s'.heap.length = s.heap.length := by
  have sc := loopStep_scope ext i B v s s' h
  obtain ⟨out, h2, rfl⟩ := map_leave_ok h
  have rp := replayL ext B (s.bind i v) out h2
  exact ⟨Replay.leave (s := s) rp rfl rfl, sc.2.1, sc.2.2, sc.1⟩

theorem step_det {P : Cell → Prop} {Pk : Key → Prop} {i : Sym} {B : List Stmt} {v : Int}
    {s s2 : State V} (hA : Agree P Pk s s2) (hR : ReadsIn P Pk (iterEv ext i B v s)) :
    iterEv ext i B v s2 = iterEv ext i B v s ∧
      LockA P Pk (loopStep ext i B v s) (loopStep ext i B v s2) := by
  obtain ⟨e, l⟩ := detL ext B (s.bind i v) (s2.bind i v) (hA.bind i v) hR
  exact ⟨e, lockA_map_leave hA l⟩

/-! ### `Disjoint_Memory` on event lists -/

omit [DataAlg V] in
/-- cell written or reduced -/
def ModC (t : List (Ev V)) (c : Cell) : Prop := c ∈ writes t ∨ c ∈ reduces t
/-- cell read, written or reduced -/
def AllC (t : List (Ev V)) (c : Cell) : Prop := c ∈ reads t ∨ c ∈ writes t ∨ c ∈ reduces t
/-- configuration field read or written -/
def AllK (t : List (Ev V)) (k : Key) : Prop := k ∈ cfgReads t ∨ k ∈ cfgWrites t

/-- one direction of `Disjoint_Memory(a1, a2)` (src/exo/rewrite/new_eff.py): `W₁ ∩ All₂ = ∅` and
    `Red₁ ∩ All₂ = ∅`, for heap cells of the buffers that exist at loop entry (`N` = number of
    buffers; cells of buffers allocated inside an iteration are private) and for configuration
    fields (which `WRITE_ALL` / `ALL` include) -/
structure Dis (N : Nat) (ta tb : List (Ev V)) : Prop where
  cells : ∀ c : Cell, c.1 < N → ModC ta c → ¬ AllC tb c
  keys : ∀ k, k ∈ cfgWrites ta → ¬ AllK tb k

theorem ModC.allC {t : List (Ev V)} {c : Cell} (h : ModC t c) : AllC t c := Or.inr h

/-! ### the invariant -/

/-- `s` is the state at loop entry `σ` after the iterations in the set `D` (footprints `T`) -/
structure Inv (T : Int → List (Ev V)) (σ : State V) (D : Int → Prop) (s : State V) : Prop where
  env : s.env = σ.env
  views : s.views = σ.views
  shape : s.heap.map List.length = σ.heap.map List.length
  clean : ∀ c : Cell, c.1 < σ.heap.length → (∀ d, D d → ¬ ModC (T d) c) →
    heapGet s.heap c = heapGet σ.heap c
  dirty : ∀ c : Cell, c.1 < σ.heap.length → ∀ d, D d → ModC (T d) c →
    heapGet s.heap c = cellEff (T d) c (heapGet σ.heap c)
  kclean : ∀ k, (∀ d, D d → k ∉ cfgWrites (T d)) → lookupCfg k s.cfg = lookupCfg k σ.cfg
  kdirty : ∀ k d, D d → k ∈ cfgWrites (T d) →
    lookupCfg k s.cfg = lookupCfg k (cfgEff (T d) σ.cfg)

theorem Inv.init (T : Int → List (Ev V)) (σ : State V) : Inv T σ (fun _ => False) σ :=
  ⟨rfl, rfl, rfl, fun _ _ _ => rfl, fun _ _ _ h => h.elim, fun _ _ => rfl, fun _ _ h => h.elim⟩

theorem Inv.len {T : Int → List (Ev V)} {σ s : State V} {D : Int → Prop} (h : Inv T σ D s) :
    s.heap.length = σ.heap.length := by
  have := congrArg List.length h.shape
  simpa using this

theorem Inv.congr {T : Int → List (Ev V)} {σ s : State V} {D D' : Int → Prop} (h : Inv T σ D s)
    (hD : ∀ x, D x ↔ D' x) : Inv T σ D' s :=
  ⟨h.env, h.views, h.shape, fun c hc hn => h.clean c hc (fun d hd => hn d ((hD d).1 hd)),
    fun c hc d hd => h.dirty c hc d ((hD d).2 hd),
    fun k hn => h.kclean k (fun d hd => hn d ((hD d).1 hd)),
    fun k d hd => h.kdirty k d ((hD d).2 hd)⟩

/-- the value of a field after an event list depends on its value before only -/
theorem lookup_cfgEff_congr (k : Key) : ∀ (t : List (Ev V)) (cfg cfg' : List (Key × CfgVal V)),
    lookupCfg k cfg = lookupCfg k cfg' → lookupCfg k (cfgEff t cfg) = lookupCfg k (cfgEff t cfg')
  | [], _, _, h => h
  | e :: r, cfg, cfg', h => by
    rw [cfgEff_cons, cfgEff_cons]
    apply lookup_cfgEff_congr k r
    cases e with
    | cwr k' v => simp only [cfgAct, lookupCfg_setCfg, h]
    | rd _ => exact h
    | wr _ _ => exact h
    | red _ _ => exact h
    | crd _ => exact h

/-- two states reached from `σ` by the same set of iterations are observably equal -/
def StEq (s s' : State V) : Prop :=
  s.env = s'.env ∧ s.views = s'.views ∧ s.heap = s'.heap ∧ ∀ k, lookupCfg k s.cfg = lookupCfg k s'.cfg

theorem Inv.unique {T : Int → List (Ev V)} {σ s s' : State V} {D : Int → Prop}
    (h : Inv T σ D s) (h' : Inv T σ D s') : StEq s s' := by
  refine ⟨h.env.trans h'.env.symm, h.views.trans h'.views.symm, ?_, fun k => ?_⟩
  · apply heap_ext (h.shape.trans h'.shape.symm)
    intro c
    by_cases hc : c.1 < σ.heap.length
    · by_cases hm : ∃ d, D d ∧ ModC (T d) c
      · obtain ⟨d, hd, hmd⟩ := hm
        rw [h.dirty c hc d hd hmd, h'.dirty c hc d hd hmd]
      · have hn : ∀ d, D d → ¬ ModC (T d) c := fun d hd hmd => hm ⟨d, hd, hmd⟩
        rw [h.clean c hc hn, h'.clean c hc hn]
    · rw [heapGet_out _ _ (by rw [h.len]; omega), heapGet_out _ _ (by rw [h'.len]; omega)]
  · by_cases hm : ∃ d, D d ∧ k ∈ cfgWrites (T d)
    · obtain ⟨d, hd, hkd⟩ := hm
      rw [h.kdirty k d hd hkd, h'.kdirty k d hd hkd]
    · have hn : ∀ d, D d → k ∉ cfgWrites (T d) := fun d hd hkd => hm ⟨d, hd, hkd⟩
      rw [h.kclean k hn, h'.kclean k hn]

/-- one more iteration `w`, disjoint from those already executed -/
theorem Inv.step {i : Sym} {B : List Stmt} {σ s : State V} {D : Int → Prop} {w : Int}
    (T : Int → List (Ev V)) (hT : T w = iterEv ext i B w σ) (h : Inv T σ D s)
    (hdw : ∀ d, D d → Dis σ.heap.length (T d) (T w))
    (hwd : ∀ d, D d → Dis σ.heap.length (T w) (T d)) :
    (∀ e, loopStep ext i B w σ = .error e → ∃ e', loopStep ext i B w s = .error e') ∧
    (∀ o, loopStep ext i B w σ = .ok o →
      ∃ s', loopStep ext i B w s = .ok s' ∧ Inv T σ (fun x => x = w ∨ D x) s') := by
  -- the state `s` agrees with `σ` on everything iteration `w` reads
  have hA : Agree (fun c => σ.heap.length ≤ c.1 ∨ ∀ d, D d → ¬ ModC (T d) c)
      (fun k => ∀ d, D d → k ∉ cfgWrites (T d)) σ s := by
    refine ⟨h.env, h.views, h.shape, fun c hp => ?_, fun k hk => h.kclean k hk⟩
    rcases hp with hp | hp
    · rw [heapGet_out _ _ (by rw [h.len]; exact hp), heapGet_out _ _ hp]
    · by_cases hc : c.1 < σ.heap.length
      · exact h.clean c hc hp
      · rw [heapGet_out _ _ (by rw [h.len]; omega), heapGet_out _ _ (by omega)]
  have hR : ReadsIn (fun c => σ.heap.length ≤ c.1 ∨ ∀ d, D d → ¬ ModC (T d) c)
      (fun k => ∀ d, D d → k ∉ cfgWrites (T d)) (iterEv ext i B w σ) := by
    intro e he
    rw [← hT] at he
    cases e with
    | rd c =>
      show σ.heap.length ≤ c.1 ∨ _
      by_cases hc : c.1 < σ.heap.length
      · exact Or.inr (fun d hd hm => (hdw d hd).cells c hc hm (Or.inl (mem_reads.2 he)))
      · exact Or.inl (by omega)
    | crd k =>
      show ∀ d, D d → k ∉ cfgWrites (T d)
      exact fun d hd hk => (hdw d hd).keys k hk (Or.inl (mem_cfgReads.2 he))
    | wr _ _ => exact True.intro
    | red _ _ => exact True.intro
    | cwr _ _ => exact True.intro
  obtain ⟨hev, hl⟩ := step_det ext hA hR
  refine ⟨fun e he => ?_, fun o ho => ?_⟩
  · rw [he] at hl
    exact lockA_error_left hl
  · rw [ho] at hl
    obtain ⟨s', hs', _⟩ := lockA_ok_left hl
    refine ⟨s', hs', ?_⟩
    obtain ⟨rp, he', hv', hlen⟩ := step_replay ext hs'
    rw [hev, ← hT] at rp
    have hlen' : s'.heap.length = σ.heap.length := hlen.trans h.len
    have cellAt : ∀ c : Cell, c.1 < σ.heap.length →
        heapGet s'.heap c = cellEff (T w) c (heapGet s.heap c) :=
      fun c hc => rp.cells c (by rw [h.len]; exact hc)
    refine ⟨he'.trans h.env, hv'.trans h.views, (shape_of_replay rp hlen).trans h.shape,
      fun c hc hn => ?_, fun c hc d hd hm => ?_, fun k hn => ?_, fun k d hd hk => ?_⟩
    · have hw := hn w (Or.inl rfl)
      rw [cellAt c hc, cellEff_untouched c _ _ (fun x => hw (Or.inl x)) (fun x => hw (Or.inr x))]
      exact h.clean c hc (fun d hd => hn d (Or.inr hd))
    · rcases hd with rfl | hd
      · rw [cellAt c hc]
        congr 1
        exact h.clean c hc (fun d' hd' hm' => (hwd d' hd').cells c hc hm hm'.allC)
      · have hnw : ¬ AllC (T w) c := (hdw d hd).cells c hc hm
        rw [cellAt c hc, cellEff_untouched c _ _ (fun x => hnw (Or.inr (Or.inl x)))
          (fun x => hnw (Or.inr (Or.inr x)))]
        exact h.dirty c hc d hd hm
    · rw [rp.cfg, lookup_cfgEff_untouched k _ _ (hn w (Or.inl rfl))]
      exact h.kclean k (fun d hd => hn d (Or.inr hd))
    · rw [rp.cfg]
      rcases hd with rfl | hd
      · exact lookup_cfgEff_congr k _ _ _
          (h.kclean k (fun d' hd' hk' => (hwd d' hd').keys k hk (Or.inr hk')))
      · have hnw : ¬ AllK (T w) k := (hdw d hd).keys k hk
        rw [lookup_cfgEff_untouched k _ _ (fun x => hnw (Or.inr x))]
        exact h.kdirty k d hd hk

end Exo.Ctx3
