/-
  Conditional congruence: a block may be replaced inside a context by a block that does at least
  as much **on the states that actually reach the hole** (side conditions of scheduling rewrites
  hold only there: loop bounds, guards, assertions).
-/
import ExoModel.Equiv
import ExoModel.Lemmas.Rewrites

set_option linter.unusedSectionVars false
namespace Exo
variable {V : Type} [DataAlg V] (ext : String → List V → V)

/-- `Reach ext C B σ₀ σ`: when `C.fill B` is run from `σ₀`, control arrives at the hole in state `σ`
    (earlier loop iterations run the hole's original content `B`) -/
inductive Reach : Ctx → List Stmt → State V → State V → Prop
  | hole (B : List Stmt) (σ : State V) : Reach .hole B σ σ
  | seq (pre post : List Stmt) (c : Ctx) (B : List Stmt) (σ₀ σ₁ σ : State V) :
      execL ext pre σ₀ = .ok σ₁ → Reach c B σ₁ σ → Reach (.seq pre c post) B σ₀ σ
  | loop (i : Sym) (lo hi : Expr) (par : Bool) (c : Ctx) (B : List Stmt) (σ₀ s σ : State V)
      (l h : Int) (k : Nat) :
      evalC σ₀ lo = .ok l → evalC σ₀ hi = .ok h → (k : Int) < h - l →
      iterate (loopStep ext i (c.fill B)) k l σ₀ = .ok s →
      Reach c B (s.bind i (l + k)) σ → Reach (.loop i lo hi par c) B σ₀ σ
  | iteT (cond : Expr) (c : Ctx) (e B : List Stmt) (σ₀ σ : State V) (b : Int) :
      evalC σ₀ cond = .ok b → b ≠ 0 → Reach c B σ₀ σ → Reach (.iteT cond c e) B σ₀ σ
  | iteE (cond : Expr) (t : List Stmt) (c : Ctx) (B : List Stmt) (σ₀ σ : State V) :
      evalC σ₀ cond = .ok 0 → Reach c B σ₀ σ → Reach (.iteE cond t c) B σ₀ σ

/-- iteration steps that agree on the states the first iteration sequence passes through -/
theorem iterate_le_reach (f g : Int → State V → Except Err (State V)) :
    ∀ (n : Nat) (l : Int) (σ₀ : State V),
      (∀ (k : Nat) (s : State V), k < n → iterate f k l σ₀ = .ok s →
          ExLe (f (l + k) s) (g (l + k) s)) →
      ExLe (iterate f n l σ₀) (iterate g n l σ₀)
  | 0, _, _, _ => ExLe.refl _
  | n + 1, l, σ₀, h => by
    have h0 := h 0 σ₀ (by omega) rfl
    simp only [Int.natCast_zero, Int.add_zero] at h0
    intro o ho
    simp only [iterate, bind, Except.bind] at ho ⊢
    cases hs : f l σ₀ with
    | error e => rw [hs] at ho; cases ho
    | ok s1 =>
      rw [hs] at ho
      rw [h0 s1 hs]
      simp only [] at ho ⊢
      refine iterate_le_reach f g n (l + 1) s1 (fun k s hk hit => ?_) o ho
      have := h (k + 1) s (by omega) (by
        simp only [iterate, bind, Except.bind, hs]; exact hit)
      have e : l + ((k + 1 : Nat) : Int) = l + 1 + (k : Int) := by omega
      rw [e] at this
      exact this

/-- **conditional congruence**: if `B'` does at least what `B` does on every state in which control
    reaches the hole of `C` (when started from `σ₀`), then `C[B']` does at least what `C[B]` does
    from `σ₀` -/
theorem ctx_le_reach (B B' : List Stmt) : ∀ (C : Ctx) (σ₀ : State V),
    (∀ σ, Reach ext C B σ₀ σ → ExLe (execL ext B σ) (execL ext B' σ)) →
    ExLe (execL ext (C.fill B) σ₀) (execL ext (C.fill B') σ₀)
  | .hole, σ₀, h => h σ₀ (Reach.hole B σ₀)
  | .seq pre c post, σ₀, h => by
    simp only [Ctx.fill]
    rw [execL_append, execL_append, execL_append, execL_append]
    intro o ho
    cases hp : execL ext pre σ₀ with
    | error e => rw [hp] at ho; simp [bind, Except.bind] at ho
    | ok σ₁ =>
      rw [hp] at ho
      simp only [bind, Except.bind] at ho ⊢
      have ih := ctx_le_reach B B' c σ₁ (fun σ hr => h σ (Reach.seq pre post c B σ₀ σ₁ σ hp hr))
      cases hc : execL ext (c.fill B) σ₁ with
      | error e => rw [hc] at ho; cases ho
      | ok σ₂ => rw [hc] at ho; rw [ih σ₂ hc]; exact ho
  | .loop i lo hi par c, σ₀, h => by
    simp only [Ctx.fill]
    rw [execL_singleton, execL_singleton]
    intro o ho
    simp only [execS, bind, Except.bind] at ho ⊢
    cases hl : evalC σ₀ lo with
    | error e => rw [hl] at ho; cases ho
    | ok l =>
      rw [hl] at ho
      simp only [] at ho ⊢
      cases hh : evalC σ₀ hi with
      | error e => rw [hh] at ho; cases ho
      | ok hv =>
        rw [hh] at ho
        simp only [] at ho ⊢
        by_cases hlt : hv < l
        · simp [hlt] at ho
        · simp only [hlt, if_false] at ho ⊢
          refine iterate_le_reach _ _ (hv - l).toNat l σ₀ (fun k s hk hit => ?_) o ho
          have ih := ctx_le_reach B B' c (s.bind i (l + k)) (fun σ hr =>
            h σ (Reach.loop i lo hi par c B σ₀ s σ l hv k hl hh (by omega) hit hr))
          exact ExLe.map_congr _ ih
  | .iteT cond c e, σ₀, h => by
    simp only [Ctx.fill]
    rw [execL_singleton, execL_singleton]
    intro o ho
    simp only [execS, bind, Except.bind] at ho ⊢
    cases hc : evalC σ₀ cond with
    | error err => rw [hc] at ho; cases ho
    | ok b =>
      rw [hc] at ho
      simp only [] at ho ⊢
      by_cases hb : b = 0
      · simp only [hb, ne_eq, not_true_eq_false, if_false] at ho ⊢; exact ho
      · simp only [hb, ne_eq, not_false_eq_true, if_true] at ho ⊢
        have ih := ctx_le_reach B B' c σ₀ (fun σ hr => h σ (Reach.iteT cond c e B σ₀ σ b hc hb hr))
        exact ExLe.map_congr _ ih o ho
  | .iteE cond t c, σ₀, h => by
    simp only [Ctx.fill]
    rw [execL_singleton, execL_singleton]
    intro o ho
    simp only [execS, bind, Except.bind] at ho ⊢
    cases hc : evalC σ₀ cond with
    | error err => rw [hc] at ho; cases ho
    | ok b =>
      rw [hc] at ho
      simp only [] at ho ⊢
      by_cases hb : b = 0
      · subst hb
        simp only [ne_eq, not_true_eq_false, if_false] at ho ⊢
        have ih := ctx_le_reach B B' c σ₀ (fun σ hr => h σ (Reach.iteE cond t c B σ₀ σ hc hr))
        exact ExLe.map_congr _ ih o ho
      · simp only [hb, ne_eq, not_false_eq_true, if_true] at ho ⊢; exact ho

/-- … lifted to procedures: a rewrite that is sound on the states reaching its position yields an
    equivalent procedure (no configuration field changed) -/
theorem equiv_of_reach_le (C : Ctx) (B B' : List Stmt) (nm : String) (args : List FnArg)
    (preds : List Expr)
    (h : ∀ (V : Type) [DataAlg V] (ext : String → List V → V) (σ₀ σ : State V),
        Reach ext C B σ₀ σ → ExLe (execL ext B σ) (execL ext B' σ)) :
    Equiv (fun _ => False) (.mk nm args preds (C.fill B)) (.mk nm args preds (C.fill B')) := by
  intro V _ ext σ o ho
  simp only [execB, Proc.body] at ho ⊢
  have := ctx_le_reach ext B B' C σ (fun s hr => h V ext σ s hr)
  exact ⟨o, ExLe.map_congr (State.leave σ) this o ho, Refines.refl o⟩

end Exo
