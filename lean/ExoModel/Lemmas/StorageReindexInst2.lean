/-
  Instances of the re-indexing interface (`ReidxSyn`, `ReidxGeom`, StorageReindexSpec.lean), part 2:

  3. `rearrange_dim` (`Rw.permList perm` on index tuples and on the extents)
  4. `resize_dim`    (`Rw.resizeIdx d off`, `Rw.resizeIdxI d ov`, `Rw.resizeShape d size`): the
     interface instance for a LITERAL offset, and the state-relative facts for an arbitrary offset
     expression (what a generalised interface would have to ask for).

  Core only.
-/
import ExoModel.Lemmas.StorageReindexInst1

set_option linter.unusedVariables false
set_option linter.unusedSectionVars false
namespace Exo.ReidxInst
open Exo
variable {V : Type}

/-! ## 3. `rearrange_dim` -/

theorem permList_nil {α : Type} (es : List α) : Rw.permList [] es = [] := rfl

theorem permList_cons_some {α : Type} {p : Nat} (ps : List Nat) {es : List α} {e : α}
    (h : es[p]? = some e) : Rw.permList (p :: ps) es = e :: Rw.permList ps es := by
  simp only [Rw.permList, List.filterMap_cons, h]

theorem permList_cons_none {α : Type} {p : Nat} (ps : List Nat) {es : List α}
    (h : es[p]? = none) : Rw.permList (p :: ps) es = Rw.permList ps es := by
  simp only [Rw.permList, List.filterMap_cons, h]

theorem mem_permList {α : Type} {perm : List Nat} {es : List α} {e : α}
    (h : e ∈ Rw.permList perm es) : e ∈ es := by
  simp only [Rw.permList, List.mem_filterMap] at h
  obtain ⟨p, _, hp⟩ := h
  exact List.mem_of_getElem? hp

/-- `Rw.permList perm` on index expressions computes `Rw.permList perm` on their values — for
    EVERY index list (positions out of range are dropped on both sides) -/
theorem perm_syn_eval (perm : List Nat) {s : State V} {idx : List Expr} {is : List Int}
    (h : evalCs s idx = .ok is) :
    evalCs s (Rw.permList perm idx) = .ok (Rw.permList perm is) := by
  induction perm with
  | nil => simp [permList_nil, evalCs, pure, Except.pure]
  | cons p ps ih =>
    cases hp : idx[p]? with
    | none =>
      rw [permList_cons_none ps hp, permList_cons_none ps ((evalCs_getElem?_none h p).1 hp)]
      exact ih
    | some e =>
      obtain ⟨i, hi, he⟩ := evalCs_getElem? h p e hp
      rw [permList_cons_some ps hp, permList_cons_some ps hi]
      exact evalCs_cons_ok.2 ⟨i, _, he, ih, rfl⟩

theorem perm_syn_names (perm : List Nat) (idx : List Expr) (y : Sym)
    (h : y ∈ namesEs (Rw.permList perm idx)) : y ∈ namesEs idx := by
  obtain ⟨e, he, hy⟩ := mem_namesEs.1 h
  exact mem_namesEs.2 ⟨e, mem_permList he, hy⟩

/-- the syntactic half of the `rearrange_dim` instance (no condition on `perm`) -/
theorem perm_syn (perm : List Nat) :
    ReidxSyn (Rw.permList (α := Expr) perm) (Rw.permList (α := Int) perm) :=
  ⟨fun _ _ _ _ h => perm_syn_eval perm h, perm_syn_names perm⟩

theorem perm_InB (perm : List Nat) {szs is : List Int} (h : InB szs is) :
    InB (Rw.permList perm szs) (Rw.permList perm is) := by
  obtain ⟨hl, hb⟩ := (InB_iff_getElem _ _).1 h
  induction perm with
  | nil => simp [permList_nil]
  | cons p ps ih =>
    cases hp : szs[p]? with
    | none =>
      have hq : is[p]? = none := by
        rw [List.getElem?_eq_none_iff] at hp ⊢; omega
      rw [permList_cons_none ps hp, permList_cons_none ps hq]
      exact ih
    | some e =>
      obtain ⟨hlt, _⟩ := List.getElem?_eq_some_iff.1 hp
      have hq : is[p]? = some is[p] := List.getElem?_eq_getElem (by omega)
      rw [permList_cons_some ps hp, permList_cons_some ps hq]
      exact ⟨hb p _ _ hq hp, ih⟩

theorem permList_eq_getElem {α : Type} (perm : List Nat) {a b : List α}
    (hl : a.length = b.length) (h : Rw.permList perm a = Rw.permList perm b) :
    ∀ p ∈ perm, a[p]? = b[p]? := by
  induction perm with
  | nil => intro p hp; cases hp
  | cons q qs ih =>
    cases ha : a[q]? with
    | none =>
      have hb : b[q]? = none := by
        rw [List.getElem?_eq_none_iff] at ha ⊢; omega
      rw [permList_cons_none qs ha, permList_cons_none qs hb] at h
      intro p hp
      simp only [List.mem_cons] at hp
      rcases hp with rfl | hp
      · rw [ha, hb]
      · exact ih h p hp
    | some x =>
      obtain ⟨hlt, _⟩ := List.getElem?_eq_some_iff.1 ha
      have hb : b[q]? = some b[q] := List.getElem?_eq_getElem (by omega)
      rw [permList_cons_some qs ha, permList_cons_some qs hb] at h
      simp only [List.cons.injEq] at h
      intro p hp
      simp only [List.mem_cons] at hp
      rcases hp with rfl | hp
      · rw [ha, hb, h.1]
      · exact ih h.2 p hp

/-- `Rw.permList perm` is injective on lists of length `k` as soon as every position `< k` occurs
    in `perm` -/
theorem permList_inj {α : Type} {perm : List Nat} {a b : List α}
    (hl : a.length = b.length) (hsur : ∀ j, j < a.length → j ∈ perm)
    (h : Rw.permList perm a = Rw.permList perm b) : a = b := by
  apply List.ext_getElem?
  intro j
  by_cases hj : j < a.length
  · exact permList_eq_getElem perm hl h j (hsur j hj)
  · rw [List.getElem?_eq_none_iff.2 (by omega), List.getElem?_eq_none_iff.2 (by omega)]

/-- geometry of `rearrange_dim`: every dimension of the buffer occurs in `perm` -/
theorem perm_geom {perm : List Nat} {szs : List Int} (hsur : ∀ j, j < szs.length → j ∈ perm) :
    ReidxGeom (denseDims szs) (denseDims (Rw.permList perm szs)) (szs.foldl (· * ·) 1).toNat
      ((Rw.permList perm szs).foldl (· * ·) 1).toNat (Rw.permList perm) (fun _ => True) :=
  geom_of_inj_total (fun is h => perm_InB perm h)
    (fun a b ha hb e =>
      permList_inj (by rw [ha.length, hb.length]) (fun j hj => hsur j (by rw [← ha.length]; exact hj)) e)

theorem perm_checkSizes (perm : List Nat) {szs : List Int} (hcs : checkSizes szs = .ok ()) :
    checkSizes (Rw.permList perm szs) = .ok () := by
  rw [checkSizes_iff] at hcs ⊢
  exact fun e he => hcs e (mem_permList he)

/-- `rearrange_dim`, packaged for `reindex_local`; the new extents are `Rw.permList perm szs` -/
theorem perm_inst {s : State V} {sh : List Expr} {szs : List Int} {perm : List Nat}
    (hsur : ∀ j, j < szs.length → j ∈ perm)
    (hsh : evalCs s sh = .ok szs) (hcs : checkSizes szs = .ok ()) :
    ∃ szs', evalCs s (Rw.permList perm sh) = .ok szs' ∧ checkSizes szs' = .ok () ∧
      ReidxGeom (denseDims szs) (denseDims szs') (szs.foldl (· * ·) 1).toNat
        (szs'.foldl (· * ·) 1).toNat (Rw.permList perm) (fun _ => True) :=
  ⟨_, perm_syn_eval perm hsh, perm_checkSizes perm hcs, perm_geom hsur⟩

/-- what `rearrange_dim` checks: `sorted(perm) == list(range(N))` -/
theorem perm_surj_of_perm {perm : List Nat} {k : Nat} (h : perm.Perm (List.range k)) :
    ∀ j, j < k → j ∈ perm :=
  fun j hj => h.mem_iff.2 (List.mem_range.2 hj)

/-- pigeonhole: `k` distinct numbers below `k` are all the numbers below `k` -/
theorem perm_surj_of_nodup {perm : List Nat} {k : Nat} (hl : perm.length = k) (hnd : perm.Nodup)
    (hlt : ∀ p ∈ perm, p < k) : ∀ j, j < k → j ∈ perm := by
  intro j hj
  apply Classical.byContradiction
  intro hnot
  have hsub : perm ⊆ (List.range k).erase j := by
    intro x hx
    have hne : x ≠ j := fun e => hnot (e ▸ hx)
    exact (List.mem_erase_of_ne hne).2 (List.mem_range.2 (hlt x hx))
  have hle := hnd.length_le_of_subset hsub
  rw [List.length_erase] at hle
  simp only [List.mem_range.2 hj, if_true, List.length_range] at hle
  omega

theorem perm_inst_of_perm {s : State V} {sh : List Expr} {szs : List Int} {perm : List Nat}
    (hperm : perm.Perm (List.range szs.length))
    (hsh : evalCs s sh = .ok szs) (hcs : checkSizes szs = .ok ()) :
    ∃ szs', evalCs s (Rw.permList perm sh) = .ok szs' ∧ checkSizes szs' = .ok () ∧
      ReidxGeom (denseDims szs) (denseDims szs') (szs.foldl (· * ·) 1).toNat
        (szs'.foldl (· * ·) 1).toNat (Rw.permList perm) (fun _ => True) :=
  perm_inst (perm_surj_of_perm hperm) hsh hcs

theorem perm_inst_of_nodup {s : State V} {sh : List Expr} {szs : List Int} {perm : List Nat}
    (hperm : perm.length = szs.length ∧ perm.Nodup ∧ ∀ p ∈ perm, p < szs.length)
    (hsh : evalCs s sh = .ok szs) (hcs : checkSizes szs = .ok ()) :
    ∃ szs', evalCs s (Rw.permList perm sh) = .ok szs' ∧ checkSizes szs' = .ok () ∧
      ReidxGeom (denseDims szs) (denseDims szs') (szs.foldl (· * ·) 1).toNat
        (szs'.foldl (· * ·) 1).toNat (Rw.permList perm) (fun _ => True) :=
  perm_inst (perm_surj_of_nodup hperm.1 hperm.2.1 hperm.2.2) hsh hcs

/-! ## 4. `resize_dim` -/

/-- STATE-RELATIVE evaluation: in a state where the offset expression evaluates to `ov`,
    `Rw.resizeIdx d off` computes `Rw.resizeIdxI d ov`.  (For `ReidxSyn` this has to hold in every
    state with the same `ov`: true for a literal, not for an arbitrary expression.) -/
theorem resize_eval_at {d : Nat} {off : Expr} {ov : Int} {s : State V} (hoff : evalC s off = .ok ov)
    {idx : List Expr} {is : List Int} (h : evalCs s idx = .ok is) :
    evalCs s (Rw.resizeIdx d off idx) = .ok (Rw.resizeIdxI d ov is) := by
  unfold Rw.resizeIdx Rw.resizeIdxI
  cases hd : idx[d]? with
  | none =>
    have hn : is[d]? = none := (evalCs_getElem?_none h d).1 hd
    simp only [hn]
    exact h
  | some e =>
    obtain ⟨i, hi, he⟩ := evalCs_getElem? h d e hd
    simp only [hi]
    refine evalCs_set d h ?_
    simp only [evalC, he, hoff, bind, Except.bind, ctrlOp]
    rfl

/-- names: the re-written index mentions the names of the index and of the offset -/
theorem resize_names_at (d : Nat) (off : Expr) (idx : List Expr) (y : Sym)
    (h : y ∈ namesEs (Rw.resizeIdx d off idx)) : y ∈ namesEs idx ∨ y ∈ off.names := by
  unfold Rw.resizeIdx at h
  cases hd : idx[d]? with
  | none => simp only [hd] at h; exact Or.inl h
  | some e =>
    simp only [hd] at h
    obtain ⟨e', he', hy⟩ := mem_namesEs.1 h
    rcases List.mem_or_eq_of_mem_set he' with he' | rfl
    · exact Or.inl (mem_namesEs.2 ⟨e', he', hy⟩)
    · simp only [Expr.names, List.mem_append] at hy
      rcases hy with hy | hy
      · exact Or.inl (mem_namesEs.2 ⟨e, List.mem_of_getElem? hd, hy⟩)
      · exact Or.inr hy

/-- the syntactic half of the `resize_dim` instance, LITERAL offset -/
theorem resize_syn_lit (d : Nat) (ov : Int) :
    ReidxSyn (Rw.resizeIdx d (Rw.litI ov)) (Rw.resizeIdxI d ov) :=
  ⟨fun _ s _ _ h => resize_eval_at (s := s) (by simp [Rw.litI, evalC, pure, Except.pure]) h,
   fun idx y h => (resize_names_at d _ idx y h).elim id
     (fun h' => by simp [Rw.litI, Expr.names] at h')⟩

theorem set_sub_inj {is₁ is₂ : List Int} {d : Nat} {i₁ i₂ ov : Int} (h1 : is₁[d]? = some i₁)
    (h2 : is₂[d]? = some i₂) (h : is₁.set d (i₁ - ov) = is₂.set d (i₂ - ov)) : is₁ = is₂ := by
  apply List.ext_getElem?
  intro k
  have hk := congrArg (fun l => l[k]?) h
  simp only [List.getElem?_set] at hk
  by_cases hdk : d = k
  · subst hdk
    obtain ⟨l1, _⟩ := List.getElem?_eq_some_iff.1 h1
    obtain ⟨l2, _⟩ := List.getElem?_eq_some_iff.1 h2
    simp only [if_true, l1, l2, Option.some.injEq] at hk
    rw [h1, h2]
    congr 1
    omega
  · simpa only [if_neg hdk] using hk

/-- the accessed cells of `resize_dim`: the `d`-th coordinate of the tuple of the cell lies in the
    new range `[ov, ov + sv)` -/
def resizeD (szs : List Int) (d : Nat) (ov sv : Int) (o : Int) : Prop :=
  ∀ is, viewOffset (denseDims szs) is 0 = .ok o →
    ∃ i, is[d]? = some i ∧ 0 ≤ i - ov ∧ i - ov < sv

/-- how to establish `resizeD` for the cell of a given (bounds-checked) access -/
theorem resizeD_of_tuple {szs is : List Int} {d : Nat} {ov sv o i : Int}
    (h : viewOffset (denseDims szs) is 0 = .ok o) (hi : is[d]? = some i)
    (h0 : 0 ≤ i - ov) (h1 : i - ov < sv) : resizeD szs d ov sv o := by
  intro is' h'
  rw [← dense_inj h h']
  exact ⟨i, hi, h0, h1⟩

theorem resizeD_iff {szs is : List Int} {d : Nat} {ov sv o : Int}
    (h : viewOffset (denseDims szs) is 0 = .ok o) :
    resizeD szs d ov sv o ↔ ∃ i, is[d]? = some i ∧ 0 ≤ i - ov ∧ i - ov < sv :=
  ⟨fun hD => hD is h, fun ⟨i, hi, h0, h1⟩ => resizeD_of_tuple h hi h0 h1⟩

/-- geometry of `resize_dim` -/
theorem resize_geom (szs : List Int) (d : Nat) (ov sv : Int) :
    ReidxGeom (denseDims szs) (denseDims (szs.set d sv)) (szs.foldl (· * ·) 1).toNat
      ((szs.set d sv).foldl (· * ·) 1).toNat (Rw.resizeIdxI d ov) (resizeD szs d ov sv) := by
  have key := geom_of_inj (szs := szs) (szs' := szs.set d sv) (f := Rw.resizeIdxI d ov)
    (P := fun is => ∃ i, is[d]? = some i ∧ 0 ≤ i - ov ∧ i - ov < sv) ?_ ?_
  · exact geom_mono key (fun o h => h)
  · rintro is hb ⟨i, hi, h0, h1⟩
    unfold Rw.resizeIdxI
    simp only [hi]
    exact InB_set d hb ⟨h0, h1⟩
  · rintro is₁ is₂ _ _ ⟨i₁, hi₁, _, _⟩ ⟨i₂, hi₂, _, _⟩ h
    unfold Rw.resizeIdxI at h
    simp only [hi₁, hi₂] at h
    exact set_sub_inj hi₁ hi₂ h

theorem resize_shape_eval {s : State V} {sh : List Expr} {szs : List Int} (d : Nat) {size : Expr}
    {sv : Int} (hsh : evalCs s sh = .ok szs) (hsize : evalC s size = .ok sv) :
    evalCs s (Rw.resizeShape d size sh) = .ok (szs.set d sv) := by
  unfold Rw.resizeShape
  exact evalCs_set d hsh hsize

theorem resize_checkSizes {szs : List Int} (d : Nat) {sv : Int} (hsv : 0 < sv)
    (hcs : checkSizes szs = .ok ()) : checkSizes (szs.set d sv) = .ok () := by
  rw [checkSizes_iff] at hcs ⊢
  intro e he
  rcases List.mem_or_eq_of_mem_set he with he | rfl
  · exact hcs e he
  · exact hsv

/-- `resize_dim`, packaged for `reindex_local`; the new extents are `szs.set d sv`, the offset
    VALUE `ov` is arbitrary here (it is tied to the program by `ReidxSyn`) -/
theorem resize_inst {s : State V} {sh : List Expr} {szs : List Int} {d : Nat} {size : Expr}
    {sv : Int} (ov : Int) (hsv : 0 < sv) (hsize : evalC s size = .ok sv)
    (hsh : evalCs s sh = .ok szs) (hcs : checkSizes szs = .ok ()) :
    ∃ szs', evalCs s (Rw.resizeShape d size sh) = .ok szs' ∧ checkSizes szs' = .ok () ∧
      ReidxGeom (denseDims szs) (denseDims szs') (szs.foldl (· * ·) 1).toNat
        (szs'.foldl (· * ·) 1).toNat (Rw.resizeIdxI d ov) (resizeD szs d ov sv) :=
  ⟨_, resize_shape_eval d hsh hsize, resize_checkSizes d hsv hcs, resize_geom szs d ov sv⟩

/-! ### non-vacuity: the instances on a concrete buffer `x : R[2, 6, 5]` -/

example : ∃ szs', evalCs (V := Unit) ⟨[], [], [], []⟩
      (Rw.permList [2, 0, 1] [Rw.litI 2, Rw.litI 6, Rw.litI 5]) = .ok szs' ∧
    checkSizes szs' = .ok () ∧
    ReidxGeom (denseDims [2, 6, 5]) (denseDims szs') (([2, 6, 5] : List Int).foldl (· * ·) 1).toNat
      (szs'.foldl (· * ·) 1).toNat (Rw.permList [2, 0, 1]) (fun _ => True) :=
  perm_inst_of_nodup (by decide) rfl rfl

example : Rw.permList [2, 0, 1] [(1 : Int), 5, 4] = [4, 1, 5] := by decide

example : ∃ szs', evalCs (V := Unit) ⟨[], [], [], []⟩
      (Rw.resizeShape 1 (Rw.litI 3) [Rw.litI 2, Rw.litI 6, Rw.litI 5]) = .ok szs' ∧
    checkSizes szs' = .ok () ∧
    ReidxGeom (denseDims [2, 6, 5]) (denseDims szs') (([2, 6, 5] : List Int).foldl (· * ·) 1).toNat
      (szs'.foldl (· * ·) 1).toNat (Rw.resizeIdxI 1 2) (resizeD [2, 6, 5] 1 2 3) :=
  resize_inst 2 (by decide) rfl rfl rfl

/-- the cell of `x[1, 4, 0]` is in the accessed range `[2, 5)` of dimension 1 -/
example : resizeD [2, 6, 5] 1 2 3 50 :=
  resizeD_of_tuple (is := [1, 4, 0]) (i := 4) rfl rfl (by decide) (by decide)

end Exo.ReidxInst
