/-
  Simulation rules for configuration-modulo reasoning (C10): sequencing, weakening, branches,
  loops (induction over `iterate`), one-hole contexts (induction over `Ctx`), the frame lemma of
  `writecfg`, and the passage from a block simulation to `Equiv` of the procedures.
-/
import ExoModel.Config
import ExoModel.Lemmas.Exec
import ExoModel.Lemmas.Rewrites

set_option linter.unusedSectionVars false
set_option linter.unusedVariables false
namespace Exo.Config
open Exo

variable {V : Type} [DataAlg V] (ext : String → List V → V)

/-! ### basic facts about `lookupCfg` / `setCfg` -/

theorem lookupCfg_setCfg_same {α : Type} (k : Field) (v : α) (l : List (Field × α)) :
    lookupCfg k (setCfg k v l) = some v := by
  induction l with
  | nil => simp [setCfg, lookupCfg]
  | cons h t ih =>
    obtain ⟨k', v'⟩ := h
    by_cases hk : k = k'
    · simp [setCfg, lookupCfg, hk]
    · simp [setCfg, lookupCfg, hk, ih]

theorem lookupCfg_setCfg_other {α : Type} (k k' : Field) (v : α) (l : List (Field × α))
    (h : k' ≠ k) : lookupCfg k' (setCfg k v l) = lookupCfg k' l := by
  induction l with
  | nil => simp [setCfg, lookupCfg, h]
  | cons hd t ih =>
    obtain ⟨k'', v''⟩ := hd
    by_cases hk : k = k''
    · subst hk
      simp [setCfg, lookupCfg, h]
    · by_cases hk' : k' = k''
      · simp [setCfg, lookupCfg, hk, hk']
      · simp [setCfg, lookupCfg, hk, hk', ih]

/-- writing the value a field already has changes nothing, not even the representation -/
theorem setCfg_same {α : Type} (k : Field) (v : α) (l : List (Field × α))
    (h : lookupCfg k l = some v) : setCfg k v l = l := by
  induction l with
  | nil => simp [lookupCfg] at h
  | cons hd t ih =>
    obtain ⟨k', v'⟩ := hd
    by_cases hk : k = k'
    · subst hk
      simp [lookupCfg] at h
      simp [setCfg, h]
    · simp [lookupCfg, hk] at h
      simp [setCfg, hk, ih h]

/-! ### frame lemma: a configuration write touches nothing but its field -/

theorem writecfg_ok {c f : String} {rhs : Expr} {d : Bool} {σ o : State V}
    (h : execS ext (.writecfg c f rhs d) σ = .ok o) :
    ∃ v, o = { σ with cfg := setCfg (c, f) v σ.cfg } ∧
      ((d = true ∧ ∃ x, evalD ext σ rhs = .ok x ∧ v = .data x) ∨
       (d = false ∧ ∃ n, evalC σ rhs = .ok n ∧ v = .ctrl n)) := by
  simp only [execS, bind, Except.bind] at h
  split at h
  · rename_i hd
    split at h
    · cases h
    · rename_i x hx
      simp only [pure, Except.pure] at h
      cases h
      exact ⟨.data x, rfl, Or.inl ⟨hd, x, hx, rfl⟩⟩
  · rename_i hd
    split at h
    · cases h
    · rename_i n hn
      simp only [pure, Except.pure] at h
      cases h
      exact ⟨.ctrl n, rfl, Or.inr ⟨by simpa using hd, n, hn, rfl⟩⟩

/-- **frame lemma**: `c.f = rhs` leaves the control environment, the views, the heap and every
    other configuration field as they were -/
theorem writecfg_frame {c f : String} {rhs : Expr} {d : Bool} {σ o : State V}
    (h : execS ext (.writecfg c f rhs d) σ = .ok o) : FrameAt (c, f) σ o := by
  obtain ⟨v, rfl, _⟩ := writecfg_ok ext h
  exact ⟨rfl, rfl, rfl, fun k' hk' => lookupCfg_setCfg_other (c, f) k' v σ.cfg hk'⟩

/-! ### structural rules -/

theorem sim_refl_none (R : RelFam) (K : FieldSet) : Sim R K K [] [] := by
  intro V _ ext σ σ' o h ho
  simp only [execL, pure, Except.pure] at ho ⊢
  cases ho
  exact ⟨σ', rfl, h⟩

theorem sim_weaken {R : RelFam} {K₁ K₂ K₁' K₂' : FieldSet} {B B' : List Stmt}
    (h : Sim R K₁ K₂ B B') (h1 : ∀ k, K₁' k → K₁ k) (h2 : ∀ k, K₂ k → K₂' k) :
    Sim R K₁' K₂' B B' := by
  intro V _ ext σ σ' o hr ho
  obtain ⟨o', ho', r⟩ := h V ext σ σ' o (R.mono h1 hr) ho
  exact ⟨o', ho', R.mono h2 r⟩

theorem sim_seq {R : RelFam} {K₁ K₂ K₃ : FieldSet} {A A' B B' : List Stmt}
    (hA : Sim R K₁ K₂ A A') (hB : Sim R K₂ K₃ B B') : Sim R K₁ K₃ (A ++ B) (A' ++ B') := by
  intro V _ ext σ σ' o hr ho
  rw [execL_append] at ho ⊢
  cases hA1 : execL ext A σ with
  | error e => rw [hA1] at ho; cases ho
  | ok s1 =>
    rw [hA1] at ho
    simp only [bind, Except.bind] at ho
    obtain ⟨s1', hs1', r1⟩ := hA V ext σ σ' s1 hr hA1
    obtain ⟨o', ho', r2⟩ := hB V ext s1 s1' o r1 ho
    refine ⟨o', ?_, r2⟩
    rw [hs1']
    exact ho'

theorem sim_trans {R : RelFam} {K K' : FieldSet} {A B C : List Stmt}
    (h1 : Sim R K K A B) (h2 : Sim0 R K' B C) (hK : ∀ k, K' k → K k) : Sim R K K A C := by
  intro V _ ext σ σ' o hr ho
  obtain ⟨o1, ho1, r1⟩ := h1 V ext σ σ' o hr ho
  obtain ⟨o2, ho2, r2⟩ := h2 V ext σ' o1 ho1
  exact ⟨o2, ho2, R.trans r1 (R.mono hK r2)⟩

theorem sim0_of_sim {R : RelFam} {K K' : FieldSet} {B B' : List Stmt} (h : Sim R K K' B B') :
    Sim0 R K' B B' :=
  fun V _ ext σ o ho => h V ext σ σ o (R.refl K σ) ho

theorem sim0_weaken {R : RelFam} {K K' : FieldSet} {B B' : List Stmt}
    (h : Sim0 R K B B') (hK : ∀ k, K k → K' k) : Sim0 R K' B B' := by
  intro V _ ext σ o ho
  obtain ⟨o', ho', r⟩ := h V ext σ o ho
  exact ⟨o', ho', R.mono hK r⟩

/-- common prefix, then a simulation from a common state, then a simulating suffix -/
theorem sim0_seq {R : RelFam} {K K' : FieldSet} {pre M M' post post' : List Stmt}
    (hM : Sim0 R K M M') (hpost : Sim R K K' post post') :
    Sim0 R K' (pre ++ M ++ post) (pre ++ M' ++ post') := by
  intro V _ ext σ o ho
  rw [execL_append, execL_append] at ho ⊢
  cases hp : execL ext pre σ with
  | error e => rw [hp] at ho; simp [bind, Except.bind] at ho
  | ok s0 =>
    rw [hp] at ho
    simp only [bind, Except.bind] at ho ⊢
    cases hm : execL ext M s0 with
    | error e => rw [hm] at ho; cases ho
    | ok s1 =>
      rw [hm] at ho
      simp only [] at ho
      obtain ⟨s1', hs1', r1⟩ := hM V ext s0 s1 hm
      obtain ⟨o', ho', r2⟩ := hpost V ext s1 s1' o r1 ho
      rw [hs1']
      exact ⟨o', ho', r2⟩

/-! ### branches -/

theorem sim_ite {R : RelFam} {K K' : FieldSet} {c : Expr} {t t' e e' : List Stmt}
    (hc : CondOk R K c) (ht : Sim R K K' t t') (he : Sim R K K' e e') :
    Sim R K K' [.ite c t e] [.ite c t' e'] := by
  intro V _ ext σ σ' o hr ho
  rw [execL_singleton] at ho ⊢
  simp only [execS, bind, Except.bind] at ho ⊢
  rw [← hc V σ σ' hr]
  cases hb : evalC σ c with
  | error x => rw [hb] at ho; cases ho
  | ok b =>
    rw [hb] at ho
    by_cases hz : b ≠ 0
    · dsimp only at ho ⊢
      rw [if_pos hz] at ho ⊢
      obtain ⟨s, hs, rfl⟩ := map_leave_ok ho
      obtain ⟨s', hs', r⟩ := ht V ext σ σ' s hr hs
      exact ⟨State.leave σ' s', by rw [hs']; rfl, R.leave hr r⟩
    · dsimp only at ho ⊢
      rw [if_neg hz] at ho ⊢
      obtain ⟨s, hs, rfl⟩ := map_leave_ok ho
      obtain ⟨s', hs', r⟩ := he V ext σ σ' s hr hs
      exact ⟨State.leave σ' s', by rw [hs']; rfl, R.leave hr r⟩

theorem sim0_iteT {R : RelFam} {K : FieldSet} {t t' : List Stmt} (c : Expr) (e : List Stmt)
    (ht : Sim0 R K t t') : Sim0 R K [.ite c t e] [.ite c t' e] := by
  intro V _ ext σ o ho
  rw [execL_singleton] at ho ⊢
  simp only [execS, bind, Except.bind] at ho ⊢
  cases hb : evalC σ c with
  | error x => rw [hb] at ho; cases ho
  | ok b =>
    rw [hb] at ho
    by_cases hz : b ≠ 0
    · dsimp only at ho ⊢
      rw [if_pos hz] at ho ⊢
      obtain ⟨s, hs, rfl⟩ := map_leave_ok ho
      obtain ⟨s', hs', r⟩ := ht V ext σ s hs
      exact ⟨State.leave σ s', by rw [hs']; rfl, R.leave (R.refl K σ) r⟩
    · dsimp only at ho ⊢
      rw [if_neg hz] at ho ⊢
      exact ⟨o, ho, R.refl K o⟩

theorem sim0_iteE {R : RelFam} {K : FieldSet} {e e' : List Stmt} (c : Expr) (t : List Stmt)
    (he : Sim0 R K e e') : Sim0 R K [.ite c t e] [.ite c t e'] := by
  intro V _ ext σ o ho
  rw [execL_singleton] at ho ⊢
  simp only [execS, bind, Except.bind] at ho ⊢
  cases hb : evalC σ c with
  | error x => rw [hb] at ho; cases ho
  | ok b =>
    rw [hb] at ho
    by_cases hz : b ≠ 0
    · dsimp only at ho ⊢
      rw [if_pos hz] at ho ⊢
      exact ⟨o, ho, R.refl K o⟩
    · dsimp only at ho ⊢
      rw [if_neg hz] at ho ⊢
      obtain ⟨s, hs, rfl⟩ := map_leave_ok ho
      obtain ⟨s', hs', r⟩ := he V ext σ s hs
      exact ⟨State.leave σ s', by rw [hs']; rfl, R.leave (R.refl K σ) r⟩

/-! ### loops: induction over the iteration count -/

theorem iterate_sim {R : RelFam} {K : FieldSet} (f g : Int → State V → Except Err (State V))
    (h : ∀ v s s' s1, R.rel K s s' → f v s = .ok s1 → ∃ s1', g v s' = .ok s1' ∧ R.rel K s1 s1') :
    ∀ (n : Nat) (lo : Int) (σ σ' o : State V), R.rel K σ σ' → iterate f n lo σ = .ok o →
      ∃ o', iterate g n lo σ' = .ok o' ∧ R.rel K o o'
  | 0, _, σ, σ', o, hr, ho => by
    simp only [iterate, pure, Except.pure] at ho ⊢
    cases ho
    exact ⟨σ', rfl, hr⟩
  | n + 1, lo, σ, σ', o, hr, ho => by
    simp only [iterate, bind, Except.bind] at ho ⊢
    cases h1 : f lo σ with
    | error e => rw [h1] at ho; cases ho
    | ok s1 =>
      rw [h1] at ho
      obtain ⟨s1', hs1', r1⟩ := h lo σ σ' s1 hr h1
      rw [hs1']
      exact iterate_sim f g h n (lo + 1) s1 s1' o r1 ho

theorem loopStep_sim {R : RelFam} {K : FieldSet} {B B' : List Stmt} (hB : Sim R K K B B')
    (i : Sym) (v : Int) (s s' s1 : State V) (hr : R.rel K s s')
    (h1 : loopStep ext i B v s = .ok s1) :
    ∃ s1', loopStep ext i B' v s' = .ok s1' ∧ R.rel K s1 s1' := by
  obtain ⟨s2, hs2, rfl⟩ := map_leave_ok h1
  obtain ⟨s2', hs2', r⟩ := hB V ext (s.bind i v) (s'.bind i v) s2 (R.bind i v hr) hs2
  refine ⟨State.leave s' s2', ?_, R.leave hr r⟩
  unfold loopStep
  rw [hs2']
  rfl

theorem sim_loop {R : RelFam} {K : FieldSet} {B B' : List Stmt} (i : Sym) (lo hi : Expr)
    (par : Bool) (hlo : CondOk R K lo) (hhi : CondOk R K hi) (hB : Sim R K K B B') :
    Sim R K K [.loop i lo hi B par] [.loop i lo hi B' par] := by
  intro V _ ext σ σ' o hr ho
  rw [execL_singleton] at ho ⊢
  cases hl : evalC σ lo with
  | error e => simp [execS, hl, bind, Except.bind] at ho
  | ok l =>
    cases hh : evalC σ hi with
    | error e => simp [execS, hl, hh, bind, Except.bind] at ho
    | ok h =>
      by_cases hlt : h < l
      · simp [execS, hl, hh, hlt, bind, Except.bind] at ho
      · have hle : l ≤ h := by omega
        rw [execS_loop ext i lo hi B par σ l h hl hh hle] at ho
        rw [execS_loop ext i lo hi B' par σ' l h (by rw [← hlo V σ σ' hr]; exact hl)
          (by rw [← hhi V σ σ' hr]; exact hh) hle]
        exact iterate_sim _ _ (fun v s s' s1 => loopStep_sim ext hB i v s s' s1) _ _ _ _ _ hr ho

theorem sim0_loop {R : RelFam} {K : FieldSet} {B B' : List Stmt} (i : Sym) (lo hi : Expr)
    (par : Bool) (hB : Sim R K K B B') :
    Sim0 R K [.loop i lo hi B par] [.loop i lo hi B' par] := by
  intro V _ ext σ o ho
  rw [execL_singleton] at ho ⊢
  cases hl : evalC σ lo with
  | error e => simp [execS, hl, bind, Except.bind] at ho
  | ok l =>
    cases hh : evalC σ hi with
    | error e => simp [execS, hl, hh, bind, Except.bind] at ho
    | ok h =>
      by_cases hlt : h < l
      · simp [execS, hl, hh, hlt, bind, Except.bind] at ho
      · have hle : l ≤ h := by omega
        rw [execS_loop ext i lo hi B par σ l h hl hh hle] at ho
        rw [execS_loop ext i lo hi B' par σ l h hl hh hle]
        exact iterate_sim _ _ (fun v s s' s1 => loopStep_sim ext hB i v s s' s1) _ _ _ _ _
          (R.refl K σ) ho

/-! ### one-hole contexts: induction over `Ctx` -/

/-- a simulation at the hole lifts through a context all of whose parts run the same from
    `K`-related states -/
theorem sim_ctx {R : RelFam} {K : FieldSet} {B B' : List Stmt} (hB : Sim R K K B B') :
    ∀ (C : Ctx), CtxInsens R K C → Sim R K K (C.fill B) (C.fill B')
  | .hole, _ => hB
  | .seq pre c post, h => by
    simp only [Ctx.fill]
    exact sim_seq (sim_seq h.1 (sim_ctx hB c h.2.1)) h.2.2
  | .loop i lo hi par c, h => by
    simp only [Ctx.fill]
    exact sim_loop i lo hi par h.1 h.2.1 (sim_ctx hB c h.2.2)
  | .iteT cond c e, h => by
    simp only [Ctx.fill]
    exact sim_ite h.1 (sim_ctx hB c h.2.1) h.2.2
  | .iteE cond t c, h => by
    simp only [Ctx.fill]
    exact sim_ite h.1 h.2.1 (sim_ctx hB c h.2.2)

/-- from a common initial state only what runs *after* the hole is constrained; the strong
    simulation at the hole is needed only if the hole is below a loop -/
theorem sim0_ctx {R : RelFam} {K : FieldSet} {B B' : List Stmt} (hB0 : Sim0 R K B B') :
    ∀ (C : Ctx), (inLoop C = true → Sim R K K B B') → CtxInsens0 R K C →
      Sim0 R K (C.fill B) (C.fill B')
  | .hole, _, _ => hB0
  | .seq pre c post, hl, h => by
    simp only [Ctx.fill]
    exact sim0_seq (sim0_ctx hB0 c hl h.1) h.2
  | .loop i lo hi par c, hl, h => by
    simp only [Ctx.fill]
    exact sim0_loop i lo hi par (sim_ctx (hl rfl) c h)
  | .iteT cond c e, hl, h => by
    simp only [Ctx.fill]
    exact sim0_iteT cond e (sim0_ctx hB0 c hl h)
  | .iteE cond t c, hl, h => by
    simp only [Ctx.fill]
    exact sim0_iteE cond t (sim0_ctx hB0 c hl h)

/-! ### from blocks to procedures -/

theorem refines_leave {K : FieldSet} {σ o o' : State V} (h : StRefines K o o') :
    Refines K (State.leave σ o) (State.leave σ o') :=
  (refineFam.leave (refineFam.refl K σ) h).ref

theorem equiv_of_sim0 {R : RelFam} {K : FieldSet} {B B' : List Stmt} (h : Sim0 R K B B')
    (nm : String) (args : List FnArg) (preds : List Expr) :
    Equiv K (.mk nm args preds B) (.mk nm args preds B') := by
  intro V _ ext σ o ho
  simp only [execB, Proc.body] at ho ⊢
  obtain ⟨s, hs, rfl⟩ := map_leave_ok ho
  obtain ⟨s', hs', r⟩ := h V ext σ s hs
  exact ⟨State.leave σ s', by rw [hs']; rfl, refines_leave (R.toRefines r)⟩

theorem equivExact_of_sim0 {K : FieldSet} {B B' : List Stmt} (h : Sim0 agreeFam K B B')
    (nm : String) (args : List FnArg) (preds : List Expr) :
    EquivExact K (.mk nm args preds B) (.mk nm args preds B') := by
  intro V _ ext σ o ho
  simp only [execB, Proc.body] at ho ⊢
  obtain ⟨s, hs, rfl⟩ := map_leave_ok ho
  obtain ⟨s', hs', r⟩ := h V ext σ s hs
  exact ⟨State.leave σ s', by rw [hs']; rfl, agreeFam.leave (agreeFam.refl K σ) r⟩

theorem equiv_of_equivExact {K : FieldSet} {p p' : Proc} (h : EquivExact K p p') : Equiv K p p' := by
  intro V _ ext σ o ho
  obtain ⟨o', ho', r⟩ := h V ext σ o ho
  exact ⟨o', ho', (agreeFam.toRefines r).ref⟩

/-! ### the two atomic steps: dropping and adding a configuration write -/

/-- dropping `c.f = rhs`: afterwards the states may differ in `(c,f)` as well -/
theorem sim_delete_write (R : RelFam) (K : FieldSet) (c f : String) (rhs : Expr) (d : Bool) :
    Sim R K (add K (c, f)) [.writecfg c f rhs d] [] := by
  intro V _ ext σ σ' o hr ho
  rw [execL_singleton] at ho
  exact ⟨σ', rfl, R.frameL hr (writecfg_frame ext ho)⟩

/-- … also when the deletion leaves a `pass` behind (the write was the only statement of its block) -/
theorem sim_delete_write_pass (R : RelFam) (K : FieldSet) (c f : String) (rhs : Expr) (d : Bool) :
    Sim R K (add K (c, f)) [.writecfg c f rhs d] [.pass] := by
  intro V _ ext σ σ' o hr ho
  rw [execL_singleton] at ho
  refine ⟨σ', ?_, R.frameL hr (writecfg_frame ext ho)⟩
  simp [execL, execS, bind, Except.bind, pure, Except.pure]

/-- adding `c.f = rhs`, provided the right-hand side can be evaluated there -/
theorem sim_insert_write (R : RelFam) (K : FieldSet) (c f : String) (rhs : Expr) (d : Bool)
    (hsafe : ∀ (V : Type) [DataAlg V] (ext : String → List V → V) (σ σ' : State V),
      R.rel K σ σ' → ∃ o', execS ext (.writecfg c f rhs d) σ' = .ok o') :
    Sim R K (add K (c, f)) [] [.writecfg c f rhs d] := by
  intro V _ ext σ σ' o hr ho
  simp only [execL, pure, Except.pure] at ho
  cases ho
  obtain ⟨o', ho'⟩ := hsafe V ext σ σ' hr
  rw [execL_singleton]
  exact ⟨o', ho', R.frameR hr (writecfg_frame ext ho')⟩

theorem add_of_mem {K : FieldSet} {k : Field} (hk : K k) : ∀ x, add K k x → K x := by
  intro x hx
  rcases hx with hx | hx
  · exact hx
  · rw [hx]; exact hk

/-- a write whose right-hand side has the same value in both states makes them agree on the
    written field (exact agreement) -/
theorem sim_overwrite (K : FieldSet) (c f : String) (rhs : Expr) (d : Bool)
    (hC : ∀ (V : Type) (σ σ' : State V), CfgAgreeOutside (add K (c, f)) σ σ' → evalC σ rhs = evalC σ' rhs)
    (hD : ∀ (V : Type) [DataAlg V] (ext : String → List V → V) (σ σ' : State V),
      CfgAgreeOutside (add K (c, f)) σ σ' → evalD ext σ rhs = evalD ext σ' rhs) :
    Sim agreeFam (add K (c, f)) K [.writecfg c f rhs d] [.writecfg c f rhs d] := by
  intro V _ ext σ σ' o hr ho
  rw [execL_singleton] at ho ⊢
  obtain ⟨v, rfl, hv⟩ := writecfg_ok ext ho
  have hr' : CfgAgreeOutside (add K (c, f)) σ σ' := hr
  refine ⟨{ σ' with cfg := setCfg (c, f) v σ'.cfg }, ?_, ?_⟩
  · rcases hv with ⟨hd, x, hx, rfl⟩ | ⟨hd, n, hn, rfl⟩
    · subst hd
      simp [execS, ← hD V ext σ σ' hr', hx, bind, Except.bind, pure, Except.pure]
    · subst hd
      simp [execS, ← hC V σ σ' hr', hn, bind, Except.bind, pure, Except.pure]
  · refine ⟨hr'.env, hr'.views, hr'.heap, fun k hk => ?_⟩
    show lookupCfg k (setCfg (c, f) v σ.cfg) = lookupCfg k (setCfg (c, f) v σ'.cfg)
    by_cases hkk : k = (c, f)
    · subst hkk
      rw [lookupCfg_setCfg_same, lookupCfg_setCfg_same]
    · rw [lookupCfg_setCfg_other _ _ _ _ hkk, lookupCfg_setCfg_other _ _ _ _ hkk]
      exact hr'.cfg k (fun h => by rcases h with h | h; exact hk h; exact hkk h)

/-! ### the executable rewrites decompose a block as the theorems expect -/

theorem take_drop_getElem {α : Type} (B : List α) (i : Nat) (s : α) (h : B[i]? = some s) :
    B = B.take i ++ [s] ++ B.drop (i + 1) := by
  have hi : i < B.length := by
    rcases Nat.lt_or_ge i B.length with h' | h'
    · exact h'
    · rw [List.getElem?_eq_none h'] at h; cases h
  have hs : B[i] = s := by
    rw [List.getElem?_eq_getElem hi] at h
    exact Option.some.inj h
  rw [← hs, List.append_assoc, List.singleton_append, List.getElem_cons_drop, List.take_append_drop]

theorem deleteWrite_spec {B B' : List Stmt} {i : Nat} {k : Field}
    (h : deleteWrite B i = some (k, B')) :
    ∃ pre post rhs d, B = pre ++ [.writecfg k.1 k.2 rhs d] ++ post ∧
      (B' = pre ++ post ∨ (pre = [] ∧ post = [] ∧ B' = [.pass])) := by
  unfold deleteWrite at h
  split at h
  · rename_i c f rhs d hs
    cases h
    refine ⟨B.take i, B.drop (i + 1), rhs, d, take_drop_getElem B i _ hs, ?_⟩
    unfold orPass
    split
    · rename_i he
      right
      simp only [List.isEmpty_iff, List.append_eq_nil_iff] at he
      exact ⟨he.1, he.2, rfl⟩
    · left; rfl
  · cases h

theorem insertWrite_spec (B : List Stmt) (i : Nat) (c f : String) (rhs : Expr) (d : Bool) :
    ∃ pre post, B = pre ++ post ∧ insertWrite B i c f rhs d = pre ++ [.writecfg c f rhs d] ++ post :=
  ⟨B.take i, B.drop i, (List.take_append_drop i B).symm, rfl⟩

theorem bindConfig_spec {B B' : List Stmt} {i : Nat} {slot : Slot} {path : EPath} {c f : String}
    {d : Bool} (h : bindConfig B i slot path c f d = some B') :
    ∃ pre post s e ws, B = pre ++ [s] ++ post ∧ bindStmt s slot path c f d = some (e, ws) ∧
      B' = pre ++ ws ++ post := by
  unfold bindConfig at h
  split at h
  · rename_i s hs
    cases hb : bindStmt s slot path c f d with
    | none => rw [hb] at h; cases h
    | some r =>
      rw [hb] at h
      cases h
      exact ⟨B.take i, B.drop (i + 1), s, r.1, r.2, take_drop_getElem B i _ hs, hb, rfl⟩
  · cases h

theorem swapCall_spec {g : Proc} {B B' : List Stmt} {i : Nat} (h : swapCall g B i = some B') :
    ∃ pre post f args, B = pre ++ [.call f args] ++ post ∧ B' = pre ++ [.call g args] ++ post := by
  unfold swapCall at h
  split at h
  · rename_i f args hs
    cases h
    exact ⟨B.take i, B.drop (i + 1), f, args, take_drop_getElem B i _ hs, rfl⟩
  · cases h

/-- a cursor path is a one-hole context: whatever `applyAt` rewrites is the filling of a context -/
theorem applyAt_ctx (rw : List Stmt → Option (List Stmt)) :
    ∀ (p : List Step) (B B' : List Stmt), applyAt rw p B = some B' →
      ∃ (C : Ctx) (H H' : List Stmt), B = C.fill H ∧ B' = C.fill H' ∧ rw H = some H'
  | [], B, B', h => ⟨.hole, B, B', rfl, rfl, h⟩
  | .body i :: p, B, B', h => by
    simp only [applyAt] at h
    split at h
    · rename_i x lo hi b par hs
      cases hb : applyAt rw p b with
      | none => rw [hb] at h; cases h
      | some b' =>
        rw [hb] at h
        cases h
        obtain ⟨C, H, H', e1, e2, e3⟩ := applyAt_ctx rw p b b' hb
        refine ⟨.seq (B.take i) (.loop x lo hi par C) (B.drop (i + 1)), H, H', ?_, ?_, e3⟩
        · simp only [Ctx.fill, ← e1]; exact take_drop_getElem B i _ hs
        · simp only [Ctx.fill, ← e2]
    · rename_i c t e hs
      cases hb : applyAt rw p t with
      | none => rw [hb] at h; cases h
      | some t' =>
        rw [hb] at h
        cases h
        obtain ⟨C, H, H', e1, e2, e3⟩ := applyAt_ctx rw p t t' hb
        refine ⟨.seq (B.take i) (.iteT c C e) (B.drop (i + 1)), H, H', ?_, ?_, e3⟩
        · simp only [Ctx.fill, ← e1]; exact take_drop_getElem B i _ hs
        · simp only [Ctx.fill, ← e2]
    · cases h
  | .orelse i :: p, B, B', h => by
    simp only [applyAt] at h
    split at h
    · rename_i c t e hs
      cases hb : applyAt rw p e with
      | none => rw [hb] at h; cases h
      | some e' =>
        rw [hb] at h
        cases h
        obtain ⟨C, H, H', e1, e2, e3⟩ := applyAt_ctx rw p e e' hb
        refine ⟨.seq (B.take i) (.iteE c t C) (B.drop (i + 1)), H, H', ?_, ?_, e3⟩
        · simp only [Ctx.fill, ← e1]; exact take_drop_getElem B i _ hs
        · simp only [Ctx.fill, ← e2]
    · cases h

end Exo.Config
