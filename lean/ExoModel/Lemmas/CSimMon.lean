/-
  Lemmas for C02 wave 2, part 9: switching the allocation-status monitors on.  For C code without
  `malloc` / `free`, started in a state where every block is owned by the caller (`stack`), the
  monitored run is the unmonitored run.
-/
import ExoModel.Lemmas.CSimStmt

namespace Exo.CompileS
open Exo Exo.CIndex Exo.CSem

variable {V : Type}

mutual
def noMallocS : CStmt → Bool
  | .malloc _ _ => false
  | .free _ => false
  | .ite _ t e => noMallocL t && noMallocL e
  | .for_ _ _ _ b _ => noMallocL b
  | .call (.mk _ _ body) _ => noMallocL body
  | _ => true
def noMallocL : List CStmt → Bool
  | [] => true
  | s :: r => noMallocS s && noMallocL r
end

/-- every heap block is an automatic variable or owned by the caller -/
def AllStack (c : CState V) : Prop := ∀ s ∈ c.stat, s = Status.stack

theorem cellAt_mon {c : CState V} (h : AllStack c) (b : Nat) (k : Int) :
    cellAt true c b k = cellAt false c b k := by
  unfold cellAt
  cases hb : c.heap[b]? with
  | none => rfl
  | some blk =>
      have : (c.stat[b]? == some Status.freed) = false := by
        cases hs : c.stat[b]? with
        | none => rfl
        | some s =>
            have := h s (List.mem_of_getElem? hs)
            subst this; rfl
      simp [this]

theorem lvalCell_mon {c : CState V} (h : AllStack c) (lv : LVal) :
    lvalCell true c lv = lvalCell false c lv := by
  cases lv with
  | idx x isWin off =>
      simp only [lvalCell]
      cases evalIx c off with
      | error e => rfl
      | ok o =>
          simp only [ok_bind]
          split <;> simp [cellAt_mon h]
  | scalar x byRef =>
      simp only [lvalCell]
      split <;> simp [cellAt_mon h]

theorem evalCD_mon [DataAlg V] {c : CState V} (h : AllStack c) : ∀ (e : CD),
    evalCD true c e = evalCD false c e
  | .rd lv => by simp only [evalCD, lvalCell_mon h]
  | .lit _ _ => rfl
  | .neg a => by simp only [evalCD, evalCD_mon h a]
  | .bin op a b => by simp only [evalCD, evalCD_mon h a, evalCD_mon h b]
  | .cfg _ _ => rfl

theorem writeC_mon [DataAlg V] {c : CState V} (h : AllStack c) (lv : LVal)
    (f : Option V → Option V) : writeC true c lv f = writeC false c lv f := by
  simp only [writeC, lvalCell_mon h]

theorem writeC_stat [DataAlg V] {mon : Bool} {c c' : CState V} {lv : LVal}
    {f : Option V → Option V} (h : writeC mon c lv f = .ok c') : c'.stat = c.stat := by
  simp only [writeC] at h
  obtain ⟨cell, _, h⟩ := bind_ok h
  simp only [pure, Except.pure, Except.ok.injEq] at h; subst h; rfl

theorem leaveC_mon {cin cout c' : CState V} (h : AllStack cout)
    (hl : leaveC false cin cout = .ok c') : leaveC true cin cout = .ok c' ∧ AllStack c' := by
  have hany : (cout.stat.drop cin.heap.length).any (fun s => s == Status.live) = false := by
    rw [List.any_eq_false]
    intro s hs
    have := h s (List.mem_of_mem_drop hs)
    subst this; decide
  simp only [leaveC, Bool.false_and, Bool.false_eq_true, if_false, pure, Except.pure,
    Except.ok.injEq] at hl
  subst hl
  refine ⟨by simp [leaveC, hany, pure, Except.pure], ?_⟩
  intro s hs
  exact h s (List.mem_of_mem_take hs)

theorem iterC_mon {g : Bool → Int → CState V → Except CErr (CState V)}
    (step : ∀ v c c1, AllStack c → g false v c = .ok c1 → g true v c = .ok c1 ∧ AllStack c1) :
    ∀ (n : Nat) (lo : Int) (c c' : CState V), AllStack c → iterC (g false) n lo c = .ok c' →
      iterC (g true) n lo c = .ok c' ∧ AllStack c'
  | 0, _, c, c', h, hi => by
      simp only [iterC, pure, Except.pure, Except.ok.injEq] at hi; subst hi
      exact ⟨rfl, h⟩
  | n + 1, lo, c, c', h, hi => by
      simp only [iterC] at hi
      obtain ⟨c1, h1, hi⟩ := bind_ok hi
      obtain ⟨s1, s2⟩ := step lo c c1 h h1
      obtain ⟨r1, r2⟩ := iterC_mon step n (lo + 1) c1 c' s2 hi
      exact ⟨by simp only [iterC, s1, ok_bind]; exact r1, r2⟩

variable [DataAlg V]

mutual
theorem monS_eq : ∀ (s : CStmt) {c c' : CState V}, noMallocS s = true → AllStack c →
    execCS false s c = .ok c' → execCS true s c = .ok c' ∧ AllStack c'
  | .nop, c, c', _, h, he => by
      simp only [execCS, pure, Except.pure, Except.ok.injEq] at he; subst he; exact ⟨rfl, h⟩
  | .store lv e, c, c', _, h, he => by
      simp only [execCS, evalCD_mon h, writeC_mon h] at he ⊢
      refine ⟨he, ?_⟩
      obtain ⟨v, _, he⟩ := bind_ok he
      intro s hs; rw [writeC_stat he] at hs; exact h s hs
  | .accum lv e, c, c', _, h, he => by
      simp only [execCS, evalCD_mon h, writeC_mon h] at he ⊢
      refine ⟨he, ?_⟩
      obtain ⟨v, _, he⟩ := bind_ok he
      intro s hs; rw [writeC_stat he] at hs; exact h s hs
  | .cfgWriteI k f e, c, c', _, h, he => by
      simp only [execCS] at he ⊢
      refine ⟨he, ?_⟩
      obtain ⟨v, _, he⟩ := bind_ok he
      simp only [pure, Except.pure, Except.ok.injEq] at he; subst he; exact h
  | .cfgWriteD k f e, c, c', _, h, he => by
      simp only [execCS, evalCD_mon h] at he ⊢
      refine ⟨he, ?_⟩
      obtain ⟨v, _, he⟩ := bind_ok he
      simp only [pure, Except.pure, Except.ok.injEq] at he; subst he; exact h
  | .ite cnd t e, c, c', hn, h, he => by
      simp only [noMallocS, Bool.and_eq_true] at hn
      simp only [execCS] at he ⊢
      obtain ⟨b, hb, he⟩ := bind_ok he
      simp only [hb, ok_bind]
      by_cases hb0 : b ≠ 0
      · rw [if_pos hb0] at he ⊢
        obtain ⟨c1, h1, he⟩ := bind_ok he
        obtain ⟨m1, m2⟩ := monL_eq t hn.1 h h1
        obtain ⟨l1, l2⟩ := leaveC_mon m2 he
        exact ⟨by simp only [m1, ok_bind]; exact l1, l2⟩
      · rw [if_neg hb0] at he ⊢
        obtain ⟨c1, h1, he⟩ := bind_ok he
        obtain ⟨m1, m2⟩ := monL_eq e hn.2 h h1
        obtain ⟨l1, l2⟩ := leaveC_mon m2 he
        exact ⟨by simp only [m1, ok_bind]; exact l1, l2⟩
  | .for_ i lo hi body par, c, c', hn, h, he => by
      simp only [noMallocS] at hn
      simp only [execCS] at he ⊢
      obtain ⟨l, hl, he⟩ := bind_ok he
      obtain ⟨hv, hh, he⟩ := bind_ok he
      simp only [hl, hh, ok_bind]
      exact iterC_mon (g := fun mon v s => do
          let s' ← execCL mon body { s with ints := (i, v) :: s.ints }
          leaveC mon s s')
        (fun v ca c1 ha h1 => by
          obtain ⟨c2, h2, h1⟩ := bind_ok h1
          obtain ⟨m1, m2⟩ := monL_eq body hn (c := { ca with ints := (i, v) :: ca.ints }) ha h2
          obtain ⟨l1, l2⟩ := leaveC_mon m2 h1
          exact ⟨by simp only [m1, ok_bind]; exact l1, l2⟩) _ _ c c' h he
  | .malloc _ _, _, _, hn, _, _ => by simp [noMallocS] at hn
  | .free _, _, _, hn, _, _ => by simp [noMallocS] at hn
  | .declScalar x, c, c', _, h, he => by
      simp only [execCS, pure, Except.pure, Except.ok.injEq] at he; subst he
      refine ⟨rfl, ?_⟩
      intro s hs
      simp only [List.mem_append, List.mem_singleton] at hs
      rcases hs with hs | hs
      · exact h s hs
      · exact hs
  | .winInit w src isW los strs ivs, c, c', _, h, he => by
      simp only [execCS] at he ⊢
      refine ⟨he, ?_⟩
      obtain ⟨ls, _, he⟩ := bind_ok he
      obtain ⟨ss, _, he⟩ := bind_ok he
      split at he
      · simp only [pure, Except.pure, Except.ok.injEq] at he; subst he; exact h
      · simp only [pure, Except.pure, Except.ok.injEq] at he; subst he; exact h
      · cases he
  | .call (.mk nm ps body) args, c, c', hn, h, he => by
      simp only [noMallocS] at hn
      simp only [execCS] at he ⊢
      obtain ⟨⟨ci, cv⟩, hb, he⟩ := bind_ok he
      obtain ⟨c1, h1, he⟩ := bind_ok he
      simp only [hb, ok_bind]
      obtain ⟨m1, m2⟩ := monL_eq body hn (c := { c with ints := ci, vals := cv }) h h1
      obtain ⟨l1, l2⟩ := leaveC_mon m2 he
      exact ⟨by simp only [m1, ok_bind]; exact l1, l2⟩
theorem monL_eq : ∀ (ss : List CStmt) {c c' : CState V}, noMallocL ss = true → AllStack c →
    execCL false ss c = .ok c' → execCL true ss c = .ok c' ∧ AllStack c'
  | [], c, c', _, h, he => by
      simp only [execCL, pure, Except.pure, Except.ok.injEq] at he; subst he; exact ⟨rfl, h⟩
  | s :: r, c, c', hn, h, he => by
      simp only [noMallocL, Bool.and_eq_true] at hn
      simp only [execCL] at he ⊢
      obtain ⟨c1, h1, he⟩ := bind_ok he
      obtain ⟨m1, m2⟩ := monS_eq s hn.1 h h1
      obtain ⟨r1, r2⟩ := monL_eq r hn.2 m2 he
      exact ⟨by simp only [m1, ok_bind]; exact r1, r2⟩
end

end Exo.CompileS
