/-
  expand_dim, part 4 (second version): the expand mode with windows of the expanded buffer.

  On top of part 2 the statement guard `Rw.okSW` allows
    * `window y := x[acc]`            (the right-hand side becomes `x[e, acc]`),
    * `window y := x[i, j]`           (a point access as a view),
    * `x[acc]` and `x[i, j]` as call arguments (the callee then works on a window of the buffer).
  Views into buffer `N` other than `x` have their offset shifted by `δ = ev * M` on the right and the
  same dims (`ViewRel`, part 3).

  STILL EXCLUDED: `stride(x, d)` and any other control expression mentioning `x`; the bare name `x`
  as a view (`window y := x`; as a call argument the real primitive rejects it: `wholeArgL`);
  a re-binding of `x`.
-/
import ExoModel.Lemmas.StorageExpand3

set_option linter.unusedSectionVars false
set_option linter.unusedVariables false

namespace Exo.Rw
open Exo

/-- a view-position expression (right-hand side of `window`, call argument): an access to `x` must
    have at least one coordinate, the coordinates do not mention `x`; anything that is not an access
    does not mention `x` at all -/
def okV (x : Sym) : Expr → Bool
  | .read y idx => notIn x (namesEs idx) && !(y == x && idx.isEmpty)
  | .win _ acc => notIn x (namesWs acc)
  | .lit _ => true
  | .usub a => notIn x a.names
  | .binop _ a b => notIn x (a.names ++ b.names)
  | .extern _ args => notIn x (namesEs args)
  | .stride y _ => y != x
  | .readcfg _ _ => true

def okVs (x : Sym) : List Expr → Bool
  | [] => true
  | a :: r => okV x a && okVs x r

mutual
/-- the statements the second version of `expand_dim` is proved for -/
def okSW (x : Sym) (e : Expr) : Stmt → Bool
  | .assign _ idx rhs => notIn x (namesEs idx) && okD x rhs
  | .reduce _ idx rhs => notIn x (namesEs idx) && okD x rhs
  | .writecfg _ _ rhs d => if d then okD x rhs else notIn x rhs.names
  | .pass => true
  | .ite c t el => notIn x c.names && okLW x e t && okLW x e el
  | .loop i lo hi b _ => notIn x lo.names && notIn x hi.names && !e.occC i && okLW x e b
  | .alloc y sh => y != x && notIn x (namesEs sh)
  | .free _ => true
  | .call _ args => okVs x args
  | .window y rhs => y != x && okV x rhs
def okLW (x : Sym) (e : Expr) : List Stmt → Bool
  | [] => true
  | s :: r => okSW x e s && okLW x e r
end

end Exo.Rw

namespace Exo
variable {V : Type}

section
variable {x : Sym} {e : Expr} {ev nv M : Int} {N m δ : Nat} {ds : List (Int × Int)}
  {s s' : State V}

/-- the binding of `x` itself is an instance of `ViewRel` once the leading coordinate is consumed -/
theorem viewX_rel (G : Geom ev nv M m δ ds) :
    ViewRel N m δ { buf := N, off := 0, dims := ds }
      { buf := N, off := 0 + (δ : Int), dims := ds } := by
  refine Or.inr ⟨rfl, rfl, ?_⟩
  intro is o ho
  have := G.hds is o ho
  have hM := G.hM
  omega

theorem viewOffset_cons_G (G : Geom ev nv M m δ ds) (is : List Int) :
    viewOffset ((nv, M) :: ds) (ev :: is) 0 = viewOffset ds is (0 + (δ : Int)) := by
  simp only [viewOffset]
  rw [if_pos ⟨G.ev0, G.ev1⟩, G.hδ]

theorem evalCs_cons_expandW
    (h : ExpW (fun y => y = x) N m δ { buf := N, off := 0, dims := ds }
      { buf := N, off := 0, dims := (nv, M) :: ds } s s')
    (hE : evalC s' e = .ok ev) (idx : List Expr) (hidx : ∀ y ∈ namesEs idx, y ≠ x) :
    evalCs s' (e :: idx) = (evalCs s idx).map (ev :: ·) := by
  simp only [evalCs, hE, evalCs_expW h idx hidx]
  cases evalCs s idx <;> rfl

theorem applyAcc_cons_G (G : Geom ev nv M m δ ds)
    (h : ExpW (fun y => y = x) N m δ { buf := N, off := 0, dims := ds }
      { buf := N, off := 0, dims := (nv, M) :: ds } s s')
    (hE : evalC s' e = .ok ev) (acc : List WAcc) (hacc : ∀ y ∈ namesWs acc, y ≠ x) :
    applyAcc s' (.point e :: acc) ((nv, M) :: ds) 0 = applyAcc s acc ds (0 + (δ : Int)) := by
  simp only [applyAcc, hE]
  rw [ok_bind, if_pos ⟨G.ev0, G.ev1⟩, G.hδ]
  exact applyAcc_expW h acc ds _ hacc

theorem writeCell_expandW (G : Geom ev nv M m δ ds)
    (h : ExpW (fun y => y = x) N m δ { buf := N, off := 0, dims := ds }
      { buf := N, off := 0, dims := (nv, M) :: ds } s s')
    (hE : evalC s' e = .ok ev) (idx : List Expr) (hidx : ∀ y ∈ namesEs idx, y ≠ x)
    (f : Option V → Option V) :
    Lock (ExpW (fun y => y = x) N m δ { buf := N, off := 0, dims := ds }
        { buf := N, off := 0, dims := (nv, M) :: ds })
      (writeCell s x idx f) (writeCell s' x (e :: idx) f) := by
  simp only [writeCell]
  rw [(h.px x rfl).1, (h.px x rfl).2, evalCs_cons_expandW h hE idx hidx]
  simp only []
  cases evalCs s idx with
  | error err => exact trivial
  | ok is =>
    rw [ok_bind, map_ok_bind]
    exact Lock.bind (cellOf_expand G h.heap is) (fun c c' _ _ hc => by
      obtain ⟨k, hk, rfl, rfl⟩ := hc
      rw [h.heap.get_big k hk]
      exact Lock.ofPure (h.heapWrite (h.heap.setBig k hk _)))

/-- control evaluation of an expression that does not mention `x` -/
theorem evalC_noX
    (h : ExpW (fun y => y = x) N m δ { buf := N, off := 0, dims := ds }
      { buf := N, off := 0, dims := (nv, M) :: ds } s s')
    (a : Expr) (hn : ∀ y ∈ a.names, y ≠ x) :
    Lock Eq (evalC s a) (evalC s' (Rw.expandE x e a)) := by
  rw [expandE_id x e a hn, evalC_expW h a hn]
  exact Lock.refl_eq _

theorem evalView_noX
    (h : ExpW (fun y => y = x) N m δ { buf := N, off := 0, dims := ds }
      { buf := N, off := 0, dims := (nv, M) :: ds } s s')
    (a : Expr) (hn : ∀ y ∈ a.names, y ≠ x) :
    Lock (ViewRel N m δ) (evalView s a) (evalView s' (Rw.expandE x e a)) := by
  rw [expandE_id x e a hn]
  exact evalView_expW h a hn

/-- an argument in control position -/
theorem evalC_okV
    (h : ExpW (fun y => y = x) N m δ { buf := N, off := 0, dims := ds }
      { buf := N, off := 0, dims := (nv, M) :: ds } s s') :
    ∀ (a : Expr), Rw.okV x a = true → Lock Eq (evalC s a) (evalC s' (Rw.expandE x e a))
  | .read y idx, hok => by
    simp only [Rw.okV, Bool.and_eq_true, Bool.not_eq_true', Bool.and_eq_false_iff] at hok
    have hidx := Rw.notIn_iff.1 hok.1
    by_cases hyx : y = x
    · have hb : (y == x) = true := by simp [hyx]
      cases idx with
      | nil => simp [hb] at hok
      | cons i r =>
        simp only [Rw.expandE, hb, ↓reduceIte, evalC]
        exact Lock.ofThrow
    · exact evalC_noX h _ (names_cons_ne hyx hidx)
  | .win y acc, _ => by
    simp only [Rw.expandE, evalC]; exact Lock.ofThrow
  | .lit c, _ => evalC_noX h _ (fun _ hy => by simp [Expr.names] at hy)
  | .usub a, hok => evalC_noX h _ (Rw.notIn_iff.1 (by simpa [Rw.okV, Expr.names] using hok))
  | .binop o a b, hok => evalC_noX h _ (Rw.notIn_iff.1 (by simpa [Rw.okV, Expr.names] using hok))
  | .extern f args, hok => evalC_noX h _ (Rw.notIn_iff.1 (by simpa [Rw.okV, Expr.names] using hok))
  | .stride y d, hok => evalC_noX h _ (fun z hz => by
      simp only [Rw.okV, bne_iff_ne, ne_eq] at hok
      simp only [Expr.names, List.mem_singleton] at hz
      rw [hz]; exact hok)
  | .readcfg c f, _ => evalC_noX h _ (fun _ hy => by simp [Expr.names] at hy)

/-- an argument / window right-hand side in view position -/
theorem evalView_okV (G : Geom ev nv M m δ ds)
    (h : ExpW (fun y => y = x) N m δ { buf := N, off := 0, dims := ds }
      { buf := N, off := 0, dims := (nv, M) :: ds } s s')
    (hE : evalC s' e = .ok ev) :
    ∀ (a : Expr), Rw.okV x a = true →
      Lock (ViewRel N m δ) (evalView s a) (evalView s' (Rw.expandE x e a))
  | .read y idx, hok => by
    simp only [Rw.okV, Bool.and_eq_true, Bool.not_eq_true', Bool.and_eq_false_iff] at hok
    have hidx := Rw.notIn_iff.1 hok.1
    by_cases hyx : y = x
    · have hb : (y == x) = true := by simp [hyx]
      cases idx with
      | nil => simp [hb] at hok
      | cons i r =>
        simp only [Rw.expandE, hb, ↓reduceIte]
        rw [expandEs_id x e (i :: r) hidx]
        simp only [evalView]
        rw [hyx, (h.px x rfl).1, (h.px x rfl).2, evalCs_cons_expandW h hE (i :: r) hidx]
        simp only []
        cases evalCs s (i :: r) with
        | error err => exact trivial
        | ok is =>
          rw [ok_bind, map_ok_bind, viewOffset_cons_G G is]
          exact pointView_rel (viewX_rel G) is
    · exact evalView_noX h _ (names_cons_ne hyx hidx)
  | .win y acc, hok => by
    have hacc := Rw.notIn_iff.1 (by simpa [Rw.okV] using hok)
    by_cases hyx : y = x
    · have hb : (y == x) = true := by simp [hyx]
      simp only [Rw.expandE, hb, ↓reduceIte]
      rw [expandWs_id x e acc hacc]
      simp only [evalView]
      rw [hyx, (h.px x rfl).1, (h.px x rfl).2]
      simp only []
      rw [applyAcc_cons_G G h hE acc hacc]
      exact winView_rel s (viewX_rel G) acc
    · exact evalView_noX h _ (names_cons_ne hyx hacc)
  | .lit c, _ => evalView_noX h _ (fun _ hy => by simp [Expr.names] at hy)
  | .usub a, hok => evalView_noX h _ (Rw.notIn_iff.1 (by simpa [Rw.okV, Expr.names] using hok))
  | .binop o a b, hok => evalView_noX h _ (Rw.notIn_iff.1 (by simpa [Rw.okV, Expr.names] using hok))
  | .extern f args, hok => evalView_noX h _ (Rw.notIn_iff.1 (by simpa [Rw.okV, Expr.names] using hok))
  | .stride y d, hok => evalView_noX h _ (fun z hz => by
      simp only [Rw.okV, bne_iff_ne, ne_eq] at hok
      simp only [Expr.names, List.mem_singleton] at hz
      rw [hz]; exact hok)
  | .readcfg c f, _ => evalView_noX h _ (fun _ hy => by simp [Expr.names] at hy)

theorem bindArgs_expand (G : Geom ev nv M m δ ds)
    (h : ExpW (fun y => y = x) N m δ { buf := N, off := 0, dims := ds }
      { buf := N, off := 0, dims := (nv, M) :: ds } s s')
    (hE : evalC s' e = .ok ev) : ∀ (fs : List FnArg) (as : List Expr)
    (ce : List (Sym × Int)) (cv cv' : List (Sym × View)), Rw.okVs x as = true →
    VsRel N m δ cv cv' →
    Lock (ArgRel N m δ) (bindArgs s fs as ce cv) (bindArgs s' fs (Rw.expandEs x e as) ce cv')
  | [], [], _, _, _, _, hcv => Lock.ofPure ⟨rfl, hcv⟩
  | [], _ :: _, _, _, _, _, _ => Lock.ofThrow
  | ⟨_, .ctrl _⟩ :: _, [], _, _, _, _, _ => Lock.ofThrow
  | ⟨_, .scalar⟩ :: _, [], _, _, _, _, _ => Lock.ofThrow
  | ⟨_, .tensor _ _⟩ :: _, [], _, _, _, _, _ => Lock.ofThrow
  | ⟨y, .ctrl kd⟩ :: fs, a :: as, ce, cv, cv', hok, hcv => by
    simp only [Rw.okVs, Bool.and_eq_true] at hok
    simp only [Rw.expandEs, bindArgs]
    refine Lock.bind (evalC_okV h a hok.1) (fun v v' _ _ hv => ?_)
    subst hv
    split
    · exact Lock.ofThrowBind
    · exact bindArgs_expand G h hE fs as _ cv cv' hok.2 hcv
  | ⟨y, .scalar⟩ :: fs, a :: as, ce, cv, cv', hok, hcv => by
    simp only [Rw.okVs, Bool.and_eq_true] at hok
    simp only [Rw.expandEs, bindArgs]
    exact Lock.bind (evalView_okV G h hE a hok.1)
      (fun v v' _ _ hv => bindArgs_expand G h hE fs as ce ((y, v) :: cv) ((y, v') :: cv')
        hok.2 (.cons ⟨rfl, hv⟩ hcv))
  | ⟨y, .tensor _ _⟩ :: fs, a :: as, ce, cv, cv', hok, hcv => by
    simp only [Rw.okVs, Bool.and_eq_true] at hok
    simp only [Rw.expandEs, bindArgs]
    exact Lock.bind (evalView_okV G h hE a hok.1)
      (fun v v' _ _ hv => bindArgs_expand G h hE fs as ce ((y, v) :: cv) ((y, v') :: cv')
        hok.2 (.cons ⟨rfl, hv⟩ hcv))

section
variable [DataAlg V] (ext : String → List V → V)

mutual
theorem evalD_expandW (G : Geom ev nv M m δ ds)
    (h : ExpW (fun y => y = x) N m δ { buf := N, off := 0, dims := ds }
      { buf := N, off := 0, dims := (nv, M) :: ds } s s')
    (hE : evalC s' e = .ok ev) : ∀ (a : Expr), Rw.okD x a = true →
    Lock Eq (evalD ext s a) (evalD ext s' (Rw.expandE x e a))
  | .read y idx, hok => by
    have hidx : ∀ z ∈ namesEs idx, z ≠ x := Rw.notIn_iff.1 (by simpa [Rw.okD] using hok)
    by_cases hyx : y = x
    · have hb : (y == x) = true := by simp [hyx]
      simp only [Rw.expandE, hb, ↓reduceIte]
      rw [expandEs_id x e idx hidx]
      simp only [evalD]
      rw [hyx, (h.px x rfl).1, (h.px x rfl).2, evalCs_cons_expandW h hE idx hidx]
      simp only []
      cases evalCs s idx with
      | error err => exact trivial
      | ok is =>
        rw [ok_bind, map_ok_bind]
        exact Lock.bind (cellOf_expand G h.heap is) (fun c c' _ _ hc => by
          obtain ⟨k, hk, rfl, rfl⟩ := hc
          exact Lock.ofPure (h.heap.get_big k hk).symm)
    · rw [expandE_id x e (.read y idx) (names_cons_ne hyx hidx)]
      exact evalD_expW ext h (.read y idx) (names_cons_ne hyx hidx)
  | .lit c, _ => by
    simp only [Rw.expandE]
    cases c <;> (simp only [evalD]; exact Lock.refl_eq _)
  | .usub a, hok => by
    simp only [Rw.expandE, evalD]
    exact Lock.bind (evalD_expandW G h hE a (by simpa [Rw.okD] using hok))
      (fun v v' _ _ hv => by subst hv; exact Lock.refl_eq _)
  | .binop op a b, hok => by
    simp only [Rw.okD, Bool.and_eq_true] at hok
    simp only [Rw.expandE, evalD]
    exact Lock.bind (evalD_expandW G h hE a hok.1) (fun v v' _ _ hv =>
      Lock.bind (evalD_expandW G h hE b hok.2) (fun w w' _ _ hw => by
        subst hv; subst hw; exact Lock.refl_eq _))
  | .extern f args, hok => by
    simp only [Rw.expandE, evalD]
    exact Lock.bind (evalDs_expandW G h hE args (by simpa [Rw.okD] using hok))
      (fun vs vs' _ _ hvs => by subst hvs; exact Lock.refl_eq _)
  | .readcfg c f, _ => by
    simp only [Rw.expandE, evalD, h.cfg]
    exact Lock.refl_eq _
  | .win y acc, _ => by
    simp only [Rw.expandE, evalD]; exact Lock.ofThrow
  | .stride y d, _ => by
    simp only [Rw.expandE, evalD]; exact Lock.ofThrow
theorem evalDs_expandW (G : Geom ev nv M m δ ds)
    (h : ExpW (fun y => y = x) N m δ { buf := N, off := 0, dims := ds }
      { buf := N, off := 0, dims := (nv, M) :: ds } s s')
    (hE : evalC s' e = .ok ev) : ∀ (as : List Expr), Rw.okDs x as = true →
    Lock Eq (evalDs ext s as) (evalDs ext s' (Rw.expandEs x e as))
  | [], _ => by
    simp only [Rw.expandEs, evalDs]; exact Lock.refl_eq _
  | a :: r, hok => by
    simp only [Rw.okDs, Bool.and_eq_true] at hok
    simp only [Rw.expandEs, evalDs]
    exact Lock.bind (evalD_expandW G h hE a hok.1) (fun v v' _ _ hv =>
      Lock.bind (evalDs_expandW G h hE r hok.2) (fun w w' _ _ hw => by
        subst hv; subst hw; exact Lock.refl_eq _))
end

mutual
/-- **expand mode, second version** -/
theorem execS_expandW (G : Geom ev nv M m δ ds) (he : e.envOnly = true) :
    ∀ (a : Stmt) (s s' : State V), Rw.okSW x e a = true →
    ExpW (fun y => y = x) N m δ { buf := N, off := 0, dims := ds }
      { buf := N, off := 0, dims := (nv, M) :: ds } s s' →
    evalC s' e = .ok ev →
    Lock (ExpW (fun y => y = x) N m δ { buf := N, off := 0, dims := ds }
        { buf := N, off := 0, dims := (nv, M) :: ds })
      (execS ext a s) (execS ext (Rw.expandS x e a) s')
  | .assign y idx rhs, s, s', hok, h, hE => by
    simp only [Rw.okSW, Bool.and_eq_true] at hok
    have hidx := Rw.notIn_iff.1 hok.1
    simp only [Rw.expandS, execS]
    rw [expandEs_id x e idx hidx]
    refine Lock.bind (evalD_expandW ext G h hE rhs hok.2) (fun v v' _ _ hv => ?_)
    subst hv
    by_cases hyx : y = x
    · have hb : (y == x) = true := by simp [hyx]
      simp only [hb, ↓reduceIte]
      rw [hyx]
      exact writeCell_expandW G h hE idx hidx _
    · have hb : (y == x) = false := by simpa using hyx
      simp only [hb, Bool.false_eq_true, ↓reduceIte]
      exact writeCell_expW h y idx hyx hidx _
  | .reduce y idx rhs, s, s', hok, h, hE => by
    simp only [Rw.okSW, Bool.and_eq_true] at hok
    have hidx := Rw.notIn_iff.1 hok.1
    simp only [Rw.expandS, execS]
    rw [expandEs_id x e idx hidx]
    refine Lock.bind (evalD_expandW ext G h hE rhs hok.2) (fun v v' _ _ hv => ?_)
    subst hv
    by_cases hyx : y = x
    · have hb : (y == x) = true := by simp [hyx]
      simp only [hb, ↓reduceIte]
      rw [hyx]
      exact writeCell_expandW G h hE idx hidx _
    · have hb : (y == x) = false := by simpa using hyx
      simp only [hb, Bool.false_eq_true, ↓reduceIte]
      exact writeCell_expW h y idx hyx hidx _
  | .writecfg c f rhs true, s, s', hok, h, hE => by
    simp only [Rw.okSW, ↓reduceIte] at hok
    simp only [Rw.expandS, execS, ↓reduceIte]
    exact Lock.bind (evalD_expandW ext G h hE rhs hok) (fun v v' _ _ hv => by
      subst hv; exact Lock.ofPure (h.cfgWrite (c, f) (.data v)))
  | .writecfg c f rhs false, s, s', hok, h, hE => by
    simp only [Rw.okSW, Bool.false_eq_true, ↓reduceIte] at hok
    have hr := Rw.notIn_iff.1 hok
    simp only [Rw.expandS]
    rw [expandE_id x e rhs hr]
    exact execS_idW ext N m δ _ _ (.writecfg c f rhs false) _ s s'
      (fun z hz => hr z (by simpa [Stmt.names] using hz)) h
  | .pass, s, s', _, h, _ => by
    simp only [Rw.expandS, execS]; exact Lock.ofPure h
  | .free _, s, s', _, h, _ => by
    simp only [Rw.expandS, execS]; exact Lock.ofPure h
  | .ite c t el, s, s', hok, h, hE => by
    simp only [Rw.okSW, Bool.and_eq_true] at hok
    obtain ⟨⟨hc, ht⟩, hel⟩ := hok
    have hc' := Rw.notIn_iff.1 hc
    simp only [Rw.expandS, execS]
    rw [expandE_id x e c hc', evalC_expW h c hc']
    refine Lock.bind_eq (fun b _ => Lock.ite (fun _ => ?_) (fun _ => ?_))
    · exact Lock.map (execL_expandW G he t s s' ht h hE)
        (fun a b ha _ hab => h.leave hab (execL_scope ext t s a ha).2.1)
    · exact Lock.map (execL_expandW G he el s s' hel h hE)
        (fun a b ha _ hab => h.leave hab (execL_scope ext el s a ha).2.1)
  | .loop i lo hi body par, s, s', hok, h, hE => by
    simp only [Rw.okSW, Bool.and_eq_true, Bool.not_eq_true'] at hok
    obtain ⟨⟨⟨hlo, hhi⟩, hie⟩, hb⟩ := hok
    have hlo' := Rw.notIn_iff.1 hlo
    have hhi' := Rw.notIn_iff.1 hhi
    simp only [Rw.expandS, execS]
    rw [expandE_id x e lo hlo', expandE_id x e hi hhi', evalC_expW h lo hlo', evalC_expW h hi hhi']
    refine Lock.bind_eq (fun l _ => Lock.bind_eq (fun hh _ =>
      Lock.ite (fun _ => Lock.ofThrowBind) (fun _ => ?_)))
    refine Lock.imp (iterate_lock
      (fun a b => ExpW (fun y => y = x) N m δ { buf := N, off := 0, dims := ds }
        { buf := N, off := 0, dims := (nv, M) :: ds } a b ∧ evalC b e = .ok ev) _ _
      (fun v a b hab => ?_) _ _ s s' ⟨h, hE⟩) (fun _ _ q => q.1)
    have hEb : evalC (b.bind i v) e = .ok ev := by
      rw [← hab.2]
      refine evalC_envOnly e he b (b.bind i v) (fun y hy => ?_)
      have hyi : ¬ y = i := fun hyi => by rw [hyi, hie] at hy; cases hy
      show lookupSym y ((i, v) :: b.env) = _
      rw [lookupSym_cons, if_neg hyi]
    exact Lock.map (execL_expandW G he body _ _ hb (hab.1.bind i v) hEb)
      (fun a1 b1 ha1 _ h1 => ⟨hab.1.leave h1 (execL_scope ext body _ a1 ha1).2.1, by
        rw [← hab.2]
        exact evalC_envOnly e he b (State.leave b b1) (fun _ _ => rfl)⟩)
  | .alloc y sh, s, s', hok, h, _ => by
    simp only [Rw.okSW, Bool.and_eq_true, bne_iff_ne, ne_eq] at hok
    simp only [Rw.expandS]
    exact execS_idW ext N m δ _ _ (.alloc y sh) _ s s'
      (names_cons_ne hok.1 (Rw.notIn_iff.1 hok.2)) h
  | .call f args, s, s', hok, h, hE => by
    simp only [Rw.okSW] at hok
    simp only [Rw.expandS, execS]
    exact execP_idW ext N m δ _ _ f args (Rw.expandEs x e args) _ s s' h
      (bindArgs_expand G h hE f.args args [] [] [] hok .nil)
  | .window y rhs, s, s', hok, h, hE => by
    simp only [Rw.okSW, Bool.and_eq_true, bne_iff_ne, ne_eq] at hok
    simp only [Rw.expandS, execS]
    exact Lock.bind (evalView_okV G h hE rhs hok.2)
      (fun v v' _ _ hv => Lock.ofPure (h.pushView y hok.1 hv))
theorem execL_expandW (G : Geom ev nv M m δ ds) (he : e.envOnly = true) :
    ∀ (ss : List Stmt) (s s' : State V), Rw.okLW x e ss = true →
    ExpW (fun y => y = x) N m δ { buf := N, off := 0, dims := ds }
      { buf := N, off := 0, dims := (nv, M) :: ds } s s' →
    evalC s' e = .ok ev →
    Lock (ExpW (fun y => y = x) N m δ { buf := N, off := 0, dims := ds }
        { buf := N, off := 0, dims := (nv, M) :: ds })
      (execL ext ss s) (execL ext (Rw.expandL x e ss) s')
  | [], s, s', _, h, _ => by
    simp only [Rw.expandL, execL]; exact Lock.ofPure h
  | a :: r, s, s', hok, h, hE => by
    simp only [Rw.okLW, Bool.and_eq_true] at hok
    simp only [Rw.expandL, execL]
    exact Lock.bind (execS_expandW G he a s s' hok.1 h hE) (fun s1 s1' _ h1' h1 =>
      execL_expandW G he r s1 s1' hok.2 h1 (by
        rw [← hE]
        exact evalC_envOnly e he s' s1' (fun y _ => by
          rw [(execS_scope ext _ s' s1' h1').1])))
end

end

end

end Exo
