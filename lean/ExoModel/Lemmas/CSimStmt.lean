/-
  Lemmas for C02 wave 2, part 8: the forward simulation of statements, with the allocation-status
  monitors switched off (`execCL false`).  Props/C02Stmt.lean states the results.
-/
import ExoModel.Lemmas.CSimCallRep

namespace Exo.CompileS
open Exo Exo.CIndex Exo.CSem
open Exo.Range (IExpr Op Val Inside)

variable {V : Type} [DataAlg V]

/-- conclusion of the simulation of one statement / statement list -/
def SimConcl (B : List Sym) (Γ' : CEnv) (σ σ' : State V) (cs : List CStmt) (c : CState V) : Prop :=
  ∃ c', execCL false cs c = .ok c' ∧ Rep Γ' σ' c' ∧ σ'.env = σ.env ∧
    (∀ y, lookupSym y σ.views = none → y ∉ B → lookupSym y σ'.views = none)

theorem write_sim {Γ : CEnv} {σ σ' : State V} {c : CState V} (hr : Rep Γ σ c) {x : Sym}
    {idx : List Expr} {lv : LVal} {k : Bool} (ha : accessLV Γ x idx = .ok (lv, k)) (hk : k = true)
    {f : Option V → Option V} (hw : writeCell σ x idx f = .ok σ') :
    ∃ c', writeC false c lv f = .ok c' ∧ Rep Γ σ' c' ∧ σ'.env = σ.env ∧ σ'.views = σ.views := by
  unfold writeCell at hw
  split at hw
  · rename_i v hx
    obtain ⟨is, his, hw⟩ := bind_ok hw
    obtain ⟨cell, hcell, hw⟩ := bind_ok hw
    simp only [pure, Except.pure, Except.ok.injEq] at hw; subst hw
    refine ⟨_, by simp only [writeC, access_sim hr ha hk hx his hcell]; rfl, ?_, rfl, rfl⟩
    exact hr.state rfl rfl rfl rfl (by simp [hr.heap]) hr.cfg
  · cases hw

@[simp] theorem ok_bind {ε α β : Type} (a : α) (f : α → Except ε β) :
    (Except.ok a >>= f) = f a := rfl

theorem strs_all2 : ∀ {ks : List CIR} {es : List CExpr},
    mapM' (fun k => do let s ← simp k; pure (compAst s)) ks = .ok es →
    All2 (fun k e => ∃ s, simplify k = .ok s ∧ e = compAst s) ks es
  | [], es, h => by
      simp only [mapM', pure, Except.pure, Except.ok.injEq] at h; subst h; exact .nil
  | k :: r, es, h => by
      simp only [mapM'] at h
      obtain ⟨e, he, h⟩ := bind_ok h
      obtain ⟨er, her, h⟩ := bind_ok h
      simp only [pure, Except.pure, Except.ok.injEq] at h; subst h
      obtain ⟨s, hs, he⟩ := bind_ok he
      simp only [pure, Except.pure, Except.ok.injEq] at he
      exact .cons ⟨s, simp_ok hs, he.symm⟩ (strs_all2 her)

theorem singleton_exec {mon : Bool} {s : CStmt} {c c' : CState V} (h : execCS mon s c = .ok c') :
    execCL mon [s] c = .ok c' := by
  simp only [execCL, h]; rfl

/-- a block: run the body from a state represented under the pushed environment, leave the scope -/
theorem block_sim {Γ Γ1 Γ' : CEnv} {B : List Sym} {σ σ1 : State V} {c c1 : CState V}
    (hr : Rep Γ σ c) (hext : Ext B Γ Γ') (hfr : ∀ b ∈ B, lookupSym b σ.views = none)
    (h1 : Rep Γ1 σ1 c1) :
    Rep Γ' (State.leave σ σ1)
      { ints := c.ints, vals := c.vals, heap := c1.heap.take c.heap.length,
        stat := c1.stat.take c.heap.length, cfg := c1.cfg } := by
  have := hr.mono hext hfr
  exact this.state rfl rfl rfl rfl (by simp [State.leave, h1.heap, hr.heap]) (by simp [State.leave, h1.cfg])

mutual
theorem simS (ext : String → List V → V) (cb : List (String × List (Sym × Range.Bound))) :
    ∀ (s : Stmt) {Γ Γ' : CEnv} {cs : List CStmt}
    {σ σ' : State V} {c : CState V}, compS Γ s = .ok (cs, Γ') → Γ'.modOK = true → Γ.renv ≠ [] →
    execS ext s σ = .ok σ' → Rep Γ σ c → Fresh (bindersS s) Γ σ →
    Γ.cb = cb → CallsOKS V cb s → SimConcl (bindersS s) Γ' σ σ' cs c
  | .pass, Γ, Γ', cs, σ, σ', c, hc, _, _, he, hr, _ => by
      intro hΓcb hco
      simp only [compS, pure, Except.pure, Except.ok.injEq, Prod.mk.injEq] at hc
      simp only [execS, pure, Except.pure, Except.ok.injEq] at he
      obtain ⟨rfl, rfl⟩ := hc; subst he
      exact ⟨c, rfl, hr, rfl, fun y hy _ => hy⟩
  | .assign x idx rhs, Γ, Γ', cs, σ, σ', c, hc, hm, _, he, hr, _ => by
      intro hΓcb hco
      simp only [compS] at hc
      obtain ⟨⟨lv, k1⟩, hlv, hc⟩ := bind_ok hc
      obtain ⟨⟨e, k2⟩, hce, hc⟩ := bind_ok hc
      simp only [pure, Except.pure, Except.ok.injEq, Prod.mk.injEq] at hc
      obtain ⟨rfl, rfl⟩ := hc
      have hk := note_modOK hm
      rw [Bool.and_eq_true] at hk
      simp only [execS] at he
      obtain ⟨v, hv, he⟩ := bind_ok he
      obtain ⟨c', hc', hr', e1, e2⟩ := write_sim hr hlv hk.1 he
      refine ⟨c', singleton_exec (by simp only [execCS, compD_sim ext hr rhs hce hk.2 hv]; exact hc'),
        hr'.change (fun _ _ _ => rfl) rfl rfl hr'.rng, e1, fun y hy _ => by rw [e2]; exact hy⟩
  | .reduce x idx rhs, Γ, Γ', cs, σ, σ', c, hc, hm, _, he, hr, _ => by
      intro hΓcb hco
      simp only [compS] at hc
      obtain ⟨⟨lv, k1⟩, hlv, hc⟩ := bind_ok hc
      obtain ⟨⟨e, k2⟩, hce, hc⟩ := bind_ok hc
      simp only [pure, Except.pure, Except.ok.injEq, Prod.mk.injEq] at hc
      obtain ⟨rfl, rfl⟩ := hc
      have hk := note_modOK hm
      rw [Bool.and_eq_true] at hk
      simp only [execS] at he
      obtain ⟨v, hv, he⟩ := bind_ok he
      obtain ⟨c', hc', hr', e1, e2⟩ := write_sim hr hlv hk.1 he
      refine ⟨c', singleton_exec (by simp only [execCS, compD_sim ext hr rhs hce hk.2 hv]; exact hc'),
        hr'.change (fun _ _ _ => rfl) rfl rfl hr'.rng, e1, fun y hy _ => by rw [e2]; exact hy⟩
  | .writecfg cf f rhs isData, Γ, Γ', cs, σ, σ', c, hc, hm, _, he, hr, _ => by
      intro hΓcb hco
      simp only [compS] at hc
      simp only [execS] at he
      cases isData with
      | true =>
          simp only [if_true] at hc he
          obtain ⟨⟨e, k⟩, hce, hc⟩ := bind_ok hc
          simp only [pure, Except.pure, Except.ok.injEq, Prod.mk.injEq] at hc
          obtain ⟨rfl, rfl⟩ := hc
          obtain ⟨v, hv, he⟩ := bind_ok he
          simp only [pure, Except.pure, Except.ok.injEq] at he; subst he
          refine ⟨_, singleton_exec (by
            simp only [execCS, compD_sim ext hr rhs hce (note_modOK hm) hv]; rfl), ?_, rfl,
            fun y hy _ => hy⟩
          have h1 : Rep Γ { σ with cfg := setCfg (cf, f) (.data v) σ.cfg }
              { c with cfg := setCfg (cf, f) (.data v) c.cfg } :=
            hr.state rfl rfl rfl rfl hr.heap (by simp [hr.cfg])
          exact h1.change (fun _ _ _ => rfl) rfl rfl h1.rng
      | false =>
          simp only [Bool.false_eq_true, if_false] at hc he
          obtain ⟨⟨e, k⟩, hce, hc⟩ := bind_ok hc
          simp only [pure, Except.pure, Except.ok.injEq, Prod.mk.injEq] at hc
          obtain ⟨rfl, rfl⟩ := hc
          obtain ⟨v, hv, he⟩ := bind_ok he
          simp only [pure, Except.pure, Except.ok.injEq] at he; subst he
          refine ⟨_, singleton_exec (by
            simp only [execCS, compC_sim hr false rhs hce (note_modOK hm) hv]; rfl), ?_, rfl,
            fun y hy _ => hy⟩
          have h1 : Rep Γ { σ with cfg := setCfg (cf, f) (.ctrl v) σ.cfg }
              { c with cfg := setCfg (cf, f) (.ctrl v) c.cfg } :=
            hr.state rfl rfl rfl rfl hr.heap (by simp [hr.cfg])
          exact h1.change (fun _ _ _ => rfl) rfl rfl h1.rng
  | .window w (.win x acc), Γ, Γ', cs, σ, σ', c, hc, hm, _, he, hr, hf => by
      intro hΓcb hco
      simp only [compS] at hc
      obtain ⟨⟨isW, los, strs, ivs, k⟩, hwf, hc⟩ := bind_ok hc
      simp only [pure, Except.pure, Except.ok.injEq, Prod.mk.injEq] at hc
      obtain ⟨rfl, rfl⟩ := hc
      have hk : k = true := note_modOK (Γ := Γ) (by simpa [CEnv.declare] using hm)
      -- the compiler side
      unfold windowFields at hwf
      obtain ⟨ty, hty, hwf⟩ := bind_ok hwf
      obtain ⟨los', hlos, hwf⟩ := bind_ok hwf
      obtain ⟨strs', hstrs, hwf⟩ := bind_ok hwf
      split at hwf
      · cases hwf
      · simp only [pure, Except.pure, Except.ok.injEq, Prod.mk.injEq] at hwf
        obtain ⟨rfl, rfl, rfl, rfl, rfl⟩ := hwf
        rw [Bool.and_eq_true] at hk
        -- the reference side
        simp only [execS] at he
        obtain ⟨vw, hvw, he⟩ := bind_ok he
        simp only [pure, Except.pure, Except.ok.injEq] at he; subst he
        simp only [evalView] at hvw
        split at hvw
        · rename_i v hx
          obtain ⟨⟨o, ds⟩, hap, hvw⟩ := bind_ok hvw
          simp only [pure, Except.pure, Except.ok.injEq] at hvw; subst hvw
          obtain ⟨cv, hcv, hv⟩ := hr.vals x v hx
          obtain ⟨was, hwas, hcw⟩ := CIndex_applyAcc_eq_cWindow hap
          have ef := evalAcc_facts hwas
          have hρ : ρOf c = ρOfL σ.env := hr.rho
          have gs := strides_sim hr hcv hv hty hk.2
          -- los
          have hl : evalIxs c los' = .ok (was.map WA.lo) := by
            rw [mapM'_map (fun e => do let k ← liftIdx Γ e; let s ← simp k; pure (compAst s)) waccLo]
              at hlos
            have hk1 : (acc.map waccLo).all (fun e => modNumOK Γ.renv (toIE Γ.typ e)) = true := by
              simpa [List.all_map] using hk.1
            exact (dims_sim hr hlos ef.1 hk1).1
          -- strides
          have hs : evalIxs c strs' = .ok (v.dims.map (·.2)) := by
            have hall := strs_all2 hstrs
            have := evalIxs_comp (c := c) hall gs.2.1
            rw [gs.1] at this; exact this
          have hdim := applyAcc_dims hv.1 hap
          have hwv : lookupSym w σ.views = none := hf.views w (by simp [bindersS])
          have hexec : ∀ b p, (isWinTy ty = false ∧ cv = .ptr b p) ∨ (isWinTy ty = true ∧ ∃ ss, cv = .win b p ss) →
              execCS false (.winInit w x (isWinTy ty) los' strs' (acc.map waccIsIv)) c =
                .ok { c with vals := (w, .win b (cWindow ⟨p, v.dims.map (·.2)⟩ was).off
                  (cWindow ⟨p, v.dims.map (·.2)⟩ was).strides) :: c.vals } := by
            intro b p hcase
            simp only [execCS, hl, hs, hcv, ok_bind, ef.2]
            rcases hcase with ⟨h1, h2⟩ | ⟨h1, ss, h2⟩
            · simp only [h1, h2]; rfl
            · simp only [h1, h2]; rfl
          have hcase : (isWinTy ty = false ∧ cv = .ptr v.buf v.off) ∨
              (isWinTy ty = true ∧ ∃ ss, cv = .win v.buf v.off ss) := by
            rcases gs.2.2 with ⟨h1, h2⟩ | ⟨h1, h2⟩
            · exact Or.inl ⟨h1, h2⟩
            · exact Or.inr ⟨h1, _, h2⟩
          refine ⟨_, singleton_exec (hexec v.buf v.off hcase), ?_, rfl, ?_⟩
          · rw [hcw]
            refine hr.pushView (w := w) (ty := .window ((acc.map waccIsIv).filter id).length) rfl
              rfl rfl rfl rfl rfl rfl rfl hr.heap hr.cfg ?_
            refine ⟨hdim.1, ?_, ?_⟩
            · intro hrf
              have := hf.refs w (by simp [bindersS])
              simp only [CEnv.declare, CEnv.note] at hrf
              rw [this] at hrf; cases hrf
            · simp only [CEnv.declare, CEnv.note, lookupSym, if_true]
              refine ⟨by first | rfl | trivial, hdim.2, fun d k' hk' => ?_⟩
              rw [hf.known w (by simp [bindersS])] at hk'
              cases hk'
          · intro y hy hyb
            simp only [State.bindView, lookupSym]
            have : y ≠ w := fun e => hyb (by simp [bindersS, e])
            simp [this, hy]
        · cases hvw
  | .window _ (.read _ _), _, _, _, _, _, _, hc, _, _, _, _, _ => by
      intro hΓcb hco
      simp [compS, throw, throwThe, MonadExceptOf.throw] at hc
  | .window _ (.lit _), _, _, _, _, _, _, hc, _, _, _, _, _ => by
      intro hΓcb hco
      simp [compS, throw, throwThe, MonadExceptOf.throw] at hc
  | .window _ (.usub _), _, _, _, _, _, _, hc, _, _, _, _, _ => by
      intro hΓcb hco
      simp [compS, throw, throwThe, MonadExceptOf.throw] at hc
  | .window _ (.binop _ _ _), _, _, _, _, _, _, hc, _, _, _, _, _ => by
      intro hΓcb hco
      simp [compS, throw, throwThe, MonadExceptOf.throw] at hc
  | .window _ (.extern _ _), _, _, _, _, _, _, hc, _, _, _, _, _ => by
      intro hΓcb hco
      simp [compS, throw, throwThe, MonadExceptOf.throw] at hc
  | .window _ (.stride _ _), _, _, _, _, _, _, hc, _, _, _, _, _ => by
      intro hΓcb hco
      simp [compS, throw, throwThe, MonadExceptOf.throw] at hc
  | .window _ (.readcfg _ _), _, _, _, _, _, _, hc, _, _, _, _, _ => by
      intro hΓcb hco
      simp [compS, throw, throwThe, MonadExceptOf.throw] at hc
  | .ite cnd t e, Γ, Γ', cs, σ, σ', c, hc, hm, hne, he, hr, hf => by
      intro hΓcb hco
      have hstat := compS_static (.ite cnd t e) hc hne
      simp only [compS] at hc
      obtain ⟨⟨c', k⟩, hcc, hc⟩ := bind_ok hc
      obtain ⟨⟨t', Γ1⟩, ht, hc⟩ := bind_ok hc
      obtain ⟨⟨e', Γ2⟩, hce, hc⟩ := bind_ok hc
      simp only [pure, Except.pure, Except.ok.injEq, Prod.mk.injEq] at hc
      obtain ⟨rfl, rfl⟩ := hc
      have hne1 : (Γ.note k).push.renv ≠ [] := by simp [CEnv.push, CEnv.note, Range.Env.enterScope]
      have hne2 : Γ1.pop.push.renv ≠ [] := by simp [CEnv.push, CEnv.pop, Range.Env.enterScope]
      have st1 := compL_static t ht hne1
      have st2 := compL_static e hce hne2
      have hm2 : Γ2.modOK = true := hm
      have hm1 : Γ1.modOK = true := st2.modOK hm2
      have hk : k = true := note_modOK (st1.modOK hm1)
      simp only [execS] at he
      obtain ⟨b, hb, he⟩ := bind_ok he
      have hcb := compC_sim hr false cnd hcc hk hb
      have hft : Fresh (bindersL t) (Γ.note k).push σ :=
        ⟨(hf.sub (by simp [bindersS])).nodup, fun b hb => hf.env b (by simp [bindersS, hb]),
         fun b hb => hf.views b (by simp [bindersS, hb]),
         fun b hb => hf.refs b (by simp [bindersS, hb]),
         fun b hb => hf.known b (by simp [bindersS, hb])⟩
      have hfe : Fresh (bindersL e) Γ1.pop.push σ :=
        ⟨(hf.sub (by simp [bindersS])).nodup, fun b hb => hf.env b (by simp [bindersS, hb]),
         fun b hb => hf.views b (by simp [bindersS, hb]),
         fun b hb => by
           have := hf.refs b (by simp [bindersS, hb])
           simpa [CEnv.push, CEnv.pop, st1.refs, CEnv.note] using this,
         fun b hb => by
           have := hf.known b (by simp [bindersS, hb])
           simpa [CEnv.push, CEnv.pop, st1.known, CEnv.note] using this⟩
      have hrt : Rep (Γ.note k).push σ c :=
        hr.change (fun _ _ _ => rfl) rfl rfl (by
          simp only [CEnv.push, CEnv.note, Range.lookup_enter]; exact hr.rng)
      have hre : Rep Γ1.pop.push σ c := by
        obtain ⟨x1, hx1, hb1⟩ := st1.typ
        refine hr.change (fun y v hy => ?_) (by simp [CEnv.push, CEnv.pop, st1.refs, CEnv.note])
          (by simp [CEnv.push, CEnv.pop, st1.known, CEnv.note]) ?_
        · show lookupSym y Γ1.typ = _
          rw [hx1]
          show lookupSym y (x1 ++ Γ.typ) = _
          apply lookup_append_fresh
          intro p hp e'
          have := hf.views p.1 (by simp [bindersS, hb1 p hp])
          rw [e', hy] at this; cases this
        · simp only [CEnv.push, CEnv.pop, Range.lookup_enter]
          rw [st1.renv]
          simp only [CEnv.push, CEnv.note, exit_enter' _ hne]; exact hr.rng
      by_cases hb0 : b ≠ 0
      · rw [if_pos hb0] at he
        obtain ⟨σ1, hs1, rfl⟩ := map_ok he
        obtain ⟨c1, hc1, hr1, _, _⟩ := simL ext cb t ht hm1 hne1 hs1 hrt hft hΓcb hco.1
        refine ⟨_, singleton_exec (by
          simp only [execCS, hcb, ok_bind, if_pos hb0, hc1, leaveC, Bool.false_and,
            Bool.false_eq_true, if_false]; rfl), ?_, rfl, fun y hy _ => hy⟩
        exact block_sim hr hstat hf.views hr1
      · rw [if_neg hb0] at he
        obtain ⟨σ1, hs1, rfl⟩ := map_ok he
        obtain ⟨c1, hc1, hr1, _, _⟩ := simL ext cb e hce hm2 hne2 hs1 hre hfe (show Γ1.cb = cb from st1.cb.trans hΓcb) hco.2
        refine ⟨_, singleton_exec (by
          simp only [execCS, hcb, ok_bind, if_neg hb0, hc1, leaveC, Bool.false_and,
            Bool.false_eq_true, if_false]; rfl), ?_, rfl, fun y hy _ => hy⟩
        exact block_sim hr hstat hf.views hr1
  | .loop i lo hi body par, Γ, Γ', cs, σ, σ', c, hc, hm, hne, he, hr, hf => by
      intro hΓcb hco
      have hstat := compS_static (.loop i lo hi body par) hc hne
      simp only [compS] at hc
      obtain ⟨⟨lo', k1⟩, hclo, hc⟩ := bind_ok hc
      obtain ⟨⟨hi', k2⟩, hchi, hc⟩ := bind_ok hc
      split at hc
      · cases hc
      · rename_i hno
        split at hc
        · cases hc
        · rename_i renv' hadd
          obtain ⟨⟨b', Γ1⟩, hcb, hc⟩ := bind_ok hc
          simp only [pure, Except.pure, Except.ok.injEq, Prod.mk.injEq] at hc
          obtain ⟨rfl, rfl⟩ := hc
          have hno' : noOther (toIE Γ.typ lo) = true ∧ noOther (toIE Γ.typ hi) = true := by
            simp only [Bool.not_eq_true, Bool.not_eq_false', Bool.and_eq_true] at hno
            cases h1 : noOther (toIE Γ.typ lo) <;> cases h2 : noOther (toIE Γ.typ hi) <;> simp_all
          obtain ⟨bd, hbd⟩ := addLoopIter_set hadd
          have hneb : renv' ≠ [] := by rw [hbd]; exact set_ne_nil _ _ _
          have st1 := compL_static body hcb (show renv' ≠ [] from hneb)
          have hm1 : Γ1.modOK = true := hm
          have hk : (k1 && k2) = true := note_modOK (Γ := Γ) (st1.modOK hm1)
          rw [Bool.and_eq_true] at hk
          simp only [execS] at he
          obtain ⟨l, hl, he⟩ := bind_ok he
          obtain ⟨h, hh, he⟩ := bind_ok he
          split at he
          · cases he
          · have hcl := compC_sim hr true lo hclo hk.1 hl
            have hch := compC_sim hr true hi hchi hk.2 hh
            have tl := toIE_eval Γ.typ σ lo l hl hno'.1
            have th := toIE_eval Γ.typ σ hi h hh hno'.2
            -- one round
            have step : ∀ v (σa : State V) (ca : CState V) (σ1 : State V), l ≤ v → v < h →
                Rep Γ σa ca → (σa.env = σ.env ∧ σa.views = σ.views) →
                (fun v s => (execL ext body (s.bind i v)).map (State.leave s)) v σa = .ok σ1 →
                ∃ c1, (fun v s => do
                    let s' ← execCL false b' { s with ints := (i, v) :: s.ints }
                    leaveC false s s') v ca = .ok c1 ∧ Rep Γ σ1 c1 ∧
                  (σ1.env = σ.env ∧ σ1.views = σ.views) := by
              intro v σa ca σ1 hv1 hv2 hra hpa hsa
              obtain ⟨σ2, hs2, rfl⟩ := map_ok hsa
              have hia : lookupSym i σa.env = none := by rw [hpa.1]; exact hf.env i (by simp [bindersS])
              have hiv : lookupSym i σa.views = none := by
                rw [hpa.2]; exact hf.views i (by simp [bindersS])
              have hin : Inside (ρS (σa.bind i v)) renv'.lookup := by
                have hρ : ρS (σa.bind i v) = Range.upd (ρS σa) i v := by
                  simp only [ρS, State.bind]; exact ρOfL_cons i v σa.env
                rw [hρ]
                have hina : Inside (ρS σa) (Γ.note (k1 && k2)).push.renv.lookup := by
                  simp only [CEnv.push, CEnv.note, Range.lookup_enter]; exact hra.rng
                have eq : ρS σa = ρS σ := by simp only [ρS, hpa.1]
                refine Range.addLoopIter_sound (lo := .e (toIE Γ.typ lo)) (hi := .e (toIE Γ.typ hi))
                  ?_ ?_ hina ?_ ?_ hadd
                · exact divOK_of_pos hina _ (by rw [eq]; exact tl.2)
                · exact divOK_of_pos hina _ (by rw [eq]; exact th.2)
                · simp only [Range.EI.eval, eq, tl.1]; exact hv1
                · simp only [Range.EI.eval, eq, th.1]; exact hv2
              have hrb : Rep ({ (Γ.note (k1 && k2)).push with renv := renv' }.declare i .idx)
                  (σa.bind i v) { ca with ints := (i, v) :: ca.ints } := by
                refine ⟨by simp [State.bind, hra.ints], hra.heap, hra.cfg, fun y vw hy => ?_, hin⟩
                have hy' : lookupSym y σa.views = some vw := hy
                obtain ⟨cv, hcv, hval⟩ := hra.vals y vw hy'
                refine ⟨cv, hcv, RepVal.bind (Γ := Γ) hia ?_ rfl rfl hval⟩
                have : y ≠ i := fun e' => by rw [e', hiv] at hy'; cases hy' 
                simp [CEnv.declare, CEnv.push, CEnv.note, lookupSym, this]
              have hfb : Fresh (bindersL body)
                  ({ (Γ.note (k1 && k2)).push with renv := renv' }.declare i .idx) (σa.bind i v) := by
                have hnd := hf.nodup
                simp only [bindersS, List.nodup_cons] at hnd
                refine ⟨hnd.2, fun b hb => ?_, fun b hb => ?_, fun b hb => ?_, fun b hb => ?_⟩
                · have hbi : b ≠ i := fun e' => hnd.1 (e' ▸ hb)
                  simp only [State.bind, lookupSym, hbi, if_false]
                  rw [hpa.1]; exact hf.env b (by simp [bindersS, hb])
                · simp only [State.bind]; rw [hpa.2]; exact hf.views b (by simp [bindersS, hb])
                · exact hf.refs b (by simp [bindersS, hb])
                · exact hf.known b (by simp [bindersS, hb])
              obtain ⟨c2, hc2, hr2, _, _⟩ := simL ext cb body hcb hm1 hneb hs2 hrb hfb hΓcb hco
              refine ⟨_, by
                simp only [hc2, leaveC, Bool.false_and, Bool.false_eq_true, if_false]; rfl, ?_,
                by simp [State.leave, hpa.1], by simp [State.leave, hpa.2]⟩
              exact hra.state rfl rfl rfl rfl (by simp [State.leave, hr2.heap, hra.heap])
                (by simp [State.leave, hr2.cfg])
            obtain ⟨c', hc', hr', hp'⟩ := iter_sim step (h - l).toNat l σ c σ' (Int.le_refl _)
              (by omega) hr ⟨rfl, rfl⟩ he
            refine ⟨c', singleton_exec (by simp only [execCS, hcl, hch]; exact hc'), ?_, hp'.1,
              fun y hy _ => by rw [hp'.2]; exact hy⟩
            exact hr'.mono hstat (fun b hb => by rw [hp'.2]; exact hf.views b hb)
  | .alloc x shape, Γ, Γ', cs, σ, σ', c, hc, hm, _, he, hr, hf => by
      intro hΓcb hco
      simp only [compS] at hc
      simp only [execS] at he
      obtain ⟨sh, hsh, he⟩ := bind_ok he
      obtain ⟨_, hcs, he⟩ := bind_ok he
      simp only [pure, Except.pure, Except.ok.injEq] at he; subst he
      have hxr : Γ.refs.contains x = false := hf.refs x (by simp [bindersS])
      have hviews : ∀ y, lookupSym y σ.views = none → y ∉ bindersS (.alloc x shape) →
          lookupSym y ((x, ({ buf := σ.heap.length, off := 0, dims := denseDims sh } : View)) ::
            σ.views) = none := by
        intro y hy hyb
        have : y ≠ x := fun e => hyb (by simp [bindersS, e])
        simp [lookupSym, this, hy]
      cases shape with
      | nil =>
          simp only [pure, Except.pure, Except.ok.injEq, Prod.mk.injEq] at hc
          obtain ⟨rfl, rfl⟩ := hc
          simp only [evalCs, pure, Except.pure, Except.ok.injEq] at hsh; subst hsh
          refine ⟨_, singleton_exec (by simp only [execCS]; rfl), ?_, rfl, hviews⟩
          refine hr.pushView (w := x) (ty := .scalar) rfl rfl rfl rfl rfl rfl rfl rfl
            (by simp [hr.heap]) hr.cfg ?_
          refine ⟨fun d hd => (by cases hd), fun _ => (by simp [CEnv.declare, lookupSym]), ?_⟩
          simp only [CEnv.declare, lookupSym, if_true, hr.heap]
          exact ⟨by first | rfl | trivial, by first | rfl | trivial⟩
      | cons e0 r0 =>
          simp only [] at hc
          obtain ⟨dims, hdims, hc⟩ := bind_ok hc
          simp only [pure, Except.pure, Except.ok.injEq, Prod.mk.injEq] at hc
          obtain ⟨rfl, rfl⟩ := hc
          have hk := note_modOK (Γ := Γ) (by simpa [CEnv.declare] using hm)
          have ds := dims_sim hr hdims hsh hk
          refine ⟨_, singleton_exec (by simp only [execCS, ds.1]; rfl), ?_, rfl, hviews⟩
          refine hr.pushView (w := x) (ty := .tensor ((e0 :: r0).map (toIE Γ.typ))) rfl rfl rfl rfl
            rfl rfl rfl rfl (by simp [hr.heap]) hr.cfg ?_
          refine ⟨denseDims_ok sh (checkSizes_pos hcs), fun hrf => ?_, ?_⟩
          · simp only [CEnv.declare, CEnv.note] at hrf
            rw [hxr] at hrf; cases hrf
          · simp only [CEnv.declare, CEnv.note, lookupSym, if_true, hr.heap]
            refine ⟨by first | rfl | trivial, fun e he => ?_, ?_⟩
            · obtain ⟨e1, he1, rfl⟩ := List.mem_map.1 he
              exact ds.2.1 e1 he1
            · rw [List.map_map]
              exact congrArg denseDims ds.2.2.symm
  | .free x, Γ, Γ', cs, σ, σ', c, hc, _, _, he, hr, _ => by
      intro hΓcb hco
      simp only [execS, pure, Except.pure, Except.ok.injEq] at he; subst he
      simp only [compS] at hc
      split at hc
      · simp only [pure, Except.pure, Except.ok.injEq, Prod.mk.injEq] at hc
        obtain ⟨rfl, rfl⟩ := hc
        exact ⟨c, rfl, hr, rfl, fun y hy _ => hy⟩
      · simp only [pure, Except.pure, Except.ok.injEq, Prod.mk.injEq] at hc
        obtain ⟨rfl, rfl⟩ := hc
        have : ∃ c', freeC false c x = .ok c' ∧ c'.ints = c.ints ∧ c'.vals = c.vals ∧
            c'.heap = c.heap ∧ c'.cfg = c.cfg := by
          unfold freeC
          cases hlk : lookupSym x c.vals with
          | none => exact ⟨c, rfl, rfl, rfl, rfl, rfl⟩
          | some cv =>
              cases cv with
              | ptr b o => exact ⟨_, rfl, rfl, rfl, rfl, rfl⟩
              | win b o ss => exact ⟨c, rfl, rfl, rfl, rfl, rfl⟩
        obtain ⟨c', hc', h1, h2, h3, h4⟩ := this
        exact ⟨c', singleton_exec (by simp only [execCS]; exact hc'),
          hr.state rfl rfl h1 h2 (by rw [h3]; exact hr.heap) (by rw [h4]; exact hr.cfg), rfl,
          fun y hy _ => hy⟩
      · cases hc
  | .call (.mk name fargs preds body) args, Γ, Γ', cs, σ, σ', c, hc, hm, _, he, hr, _ => by
      intro hΓcb hco
      obtain ⟨hfo, hbo, hcob⟩ := hco
      simp only [compS] at hc
      obtain ⟨⟨cas, k⟩, hcas, hc⟩ := bind_ok hc
      obtain ⟨⟨b', Γf⟩, hcbody, hc⟩ := bind_ok hc
      simp only [pure, Except.pure, Except.ok.injEq, Prod.mk.injEq] at hc
      obtain ⟨rfl, rfl⟩ := hc
      have hk := note_modOK hm
      rw [Bool.and_eq_true] at hk
      -- the reference side: `execP`
      simp only [execS, execP] at he
      obtain ⟨⟨ce, cv⟩, hba, he⟩ := bind_ok he
      split at he
      · simp [throw, throwThe, MonadExceptOf.throw, bind, Except.bind] at he
      simp only [] at he
      obtain ⟨_, hcs, he⟩ := bind_ok he
      obtain ⟨_, hcp, he⟩ := bind_ok he
      obtain ⟨σ2, hs2, he⟩ := bind_ok he
      simp only [pure, Except.pure, Except.ok.injEq] at he; subst he
      -- the actuals
      obtain ⟨cvs, hbc, hacc, hint⟩ := args_sim hr fargs args hcas hk.1 hba
        (done := []) (cvs := []) (fun x v hx => by cases hx) (fun x n hx => by cases hx)
      simp only [List.nil_append] at hacc hint
      -- the callee's entry state
      have hin := hbo { env := ce, views := cv, heap := σ.heap, cfg := σ.cfg } hint
        (bindArgs_bound fargs args hba).1 hcp
      rw [← hΓcb] at hin
      have hrc : Rep (initEnvOf fargs preds (cbLookup name Γ.cb) Γ.cb)
          { env := ce, views := cv, heap := σ.heap, cfg := σ.cfg }
          ({ c with ints := ce, vals := cvs } : CState V) :=
        callee_rep hfo rfl hr.heap hr.cfg hacc hcs hcp hin
      have hfc := callee_fresh (bounds := cbLookup name Γ.cb) (cb := Γ.cb) (cvs := cvs) hfo
        (σc := { env := ce, views := cv, heap := σ.heap, cfg := σ.cfg }) hint hacc
      obtain ⟨c2, hc2, hr2, _, _⟩ := simL ext cb body hcbody hk.2
        (by simp [initEnvOf, Range.Env.initWith]) hs2 hrc hfc hΓcb hcob
      refine ⟨_, singleton_exec (by
        simp only [execCS, hbc, ok_bind, hc2, leaveC, Bool.false_and, Bool.false_eq_true,
          if_false]; rfl), ?_, rfl, fun y hy _ => hy⟩
      have h1 : Rep Γ (State.leave σ σ2)
          ({ ints := c.ints, vals := c.vals, heap := c2.heap.take c.heap.length,
             stat := c2.stat.take c.heap.length, cfg := c2.cfg } : CState V) :=
        hr.state rfl rfl rfl rfl (by simp [State.leave, hr2.heap, hr.heap])
          (by simp [State.leave, hr2.cfg])
      exact h1.change (fun _ _ _ => rfl) rfl rfl h1.rng
theorem simL (ext : String → List V → V) (cb : List (String × List (Sym × Range.Bound))) :
    ∀ (ss : List Stmt) {Γ Γ' : CEnv} {cs : List CStmt}
    {σ σ' : State V} {c : CState V}, compL Γ ss = .ok (cs, Γ') → Γ'.modOK = true → Γ.renv ≠ [] →
    execL ext ss σ = .ok σ' → Rep Γ σ c → Fresh (bindersL ss) Γ σ →
    Γ.cb = cb → CallsOKL V cb ss → SimConcl (bindersL ss) Γ' σ σ' cs c
  | [], Γ, Γ', cs, σ, σ', c, hc, _, _, he, hr, _ => by
      intro hΓcb hco
      simp only [compL, pure, Except.pure, Except.ok.injEq, Prod.mk.injEq] at hc
      simp only [execL, pure, Except.pure, Except.ok.injEq] at he
      obtain ⟨rfl, rfl⟩ := hc; subst he
      exact ⟨c, rfl, hr, rfl, fun y hy _ => hy⟩
  | s :: r, Γ, Γ', cs, σ, σ', c, hc, hm, hne, he, hr, hf => by
      intro hΓcb hco
      simp only [compL] at hc
      obtain ⟨⟨c1, Γ1⟩, hs, hc⟩ := bind_ok hc
      obtain ⟨⟨c2, Γ2⟩, hcr, hc⟩ := bind_ok hc
      simp only [pure, Except.pure, Except.ok.injEq, Prod.mk.injEq] at hc
      obtain ⟨rfl, rfl⟩ := hc
      simp only [execL] at he
      obtain ⟨σ1, hs1, he⟩ := bind_ok he
      have st1 := compS_static s hs hne
      have hne1 : Γ1.renv ≠ [] := by rw [st1.renv]; exact hne
      have st2 := compL_static r hcr hne1
      have hm1 : Γ1.modOK = true := st2.modOK hm
      have hnd := hf.nodup
      simp only [bindersL, List.nodup_append] at hnd
      have hfs : Fresh (bindersS s) Γ σ := hf.sub (by simp [bindersL])
      obtain ⟨ca, hca, hra, hea, hva⟩ := simS ext cb s hs hm1 hne hs1 hr hfs hΓcb hco.1
      have hfr : Fresh (bindersL r) Γ1 σ1 :=
        ⟨hnd.2.1, fun b hb => by rw [hea]; exact hf.env b (by simp [bindersL, hb]),
         fun b hb => hva b (hf.views b (by simp [bindersL, hb]))
           (fun hbs => hnd.2.2 b hbs b hb rfl),
         fun b hb => by rw [st1.refs]; exact hf.refs b (by simp [bindersL, hb]),
         fun b hb => by rw [st1.known]; exact hf.known b (by simp [bindersL, hb])⟩
      obtain ⟨cb, hcb, hrb, heb, hvb⟩ := simL ext cb r hcr hm hne1 he hra hfr (st1.cb.trans hΓcb) hco.2
      refine ⟨cb, by rw [execCL_append, hca]; exact hcb, hrb, heb.trans hea, fun y hy hyb => ?_⟩
      simp only [bindersL, List.mem_append, not_or] at hyb
      exact hvb y (hva y hy hyb.1) hyb.2
end

end Exo.CompileS
