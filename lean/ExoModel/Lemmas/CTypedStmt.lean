/-
  Lemmas for C15(a), `compL_welltyped`: (3) what `comp_e` / `comp_s` emit for well-formed LoopIR
  (`Exo.Wf.wfS`) is well-typed mini-C.
-/
import ExoModel.Lemmas.CTypedAgree

namespace Exo.CTyping
open Exo Exo.CIndex Exo.CSem Exo.CompileS
open Exo.Range (IExpr Op)

/-- every config use of the tree has the kind the table declares -/
def CfgOK (T : List ((String × String) × Bool)) (l : List ((String × String) × Bool)) : Prop :=
  ∀ p ∈ l, lookupCfg p.1 T = some p.2

theorem CfgOK.left {T a b} (h : CfgOK T (a ++ b)) : CfgOK T a :=
  fun p hp => h p (List.mem_append_left _ hp)
theorem CfgOK.right {T a b} (h : CfgOK T (a ++ b)) : CfgOK T b :=
  fun p hp => h p (List.mem_append_right _ hp)

theorem cfgL_append : ∀ (a b : List CStmt), cfgL (a ++ b) = cfgL a ++ cfgL b
  | [], _ => rfl
  | s :: r, b => by simp [cfgL, cfgL_append r b, List.append_assoc]

variable {W : Wf.Env} {Γ : CEnv} {E : CTyEnv}

theorem wf_isCtrl {x : Sym} (h : Wf.isCtrl W x = true) : Wf.lookup x W = some none := by
  simpa [Wf.isCtrl] using h

theorem wf_rankOf {x : Sym} {n : Nat} (h : Wf.rankOf W x = some n) :
    Wf.lookup x W = some (some n) := by
  unfold Wf.rankOf at h
  cases hl : Wf.lookup x W with
  | none => rw [hl] at h; cases h
  | some k => rw [hl] at h; cases k <;> simp_all

/-- the variables of an index expression are visible `int`s -/
theorem toIE_vars_int (ha : Agree W Γ E) : ∀ (e : Expr), Wf.wfC W e = true →
    ∀ y ∈ (toIE Γ.typ e).vars, E.get y = some .int ∧ Wf.lookup y W = some none ∧
      lookupSym y Γ.typ = some .idx
  | .read x [], h, y, hy => by
      simp only [toIE] at hy
      split at hy
      · rename_i hty
        simp only [IExpr.vars, List.mem_singleton] at hy; subst hy
        simp only [Wf.wfC, Bool.and_eq_true] at h
        have hl := wf_isCtrl h.1
        have := (ha.vis y none hl).1
        rw [this]; simp [ctyOf, hty, hl]
      · cases hy
  | .read _ (_ :: _), h, _, _ => by simp [Wf.wfC] at h
  | .lit (.int _), _, y, hy => by simp [toIE, IExpr.vars] at hy
  | .lit (.bool _), _, y, hy => by simp [toIE, IExpr.vars] at hy
  | .lit (.data _ _), _, y, hy => by simp [toIE, IExpr.vars] at hy
  | .usub a, h, y, hy => by
      simp only [Wf.wfC] at h
      simp only [toIE, IExpr.vars] at hy
      exact toIE_vars_int ha a h y hy
  | .binop op a b, h, y, hy => by
      simp only [Wf.wfC, Bool.and_eq_true] at h
      simp only [toIE] at hy
      cases ho : toOp op with
      | none => simp [ho, IExpr.vars] at hy
      | some o =>
          simp only [ho, IExpr.vars, List.mem_append] at hy
          rcases hy with hy | hy
          · exact toIE_vars_int ha a h.1 y hy
          · exact toIE_vars_int ha b h.2 y hy
  | .stride _ _, _, y, hy => by simp [toIE, IExpr.vars] at hy
  | .readcfg _ _, _, y, hy => by simp [toIE, IExpr.vars] at hy
  | .extern _ _, _, y, hy => by simp [toIE, IExpr.vars] at hy
  | .win _ _, _, y, hy => by simp [toIE, IExpr.vars] at hy

theorem liftIdx_leaves (ha : Agree W Γ E) {e : Expr} {c : CIR} (h : liftIdx Γ e = .ok c)
    (hw : Wf.wfC W e = true) : leavesOK E c = true :=
  lift_leaves _ (liftIdx_ok h) (fun y hy => (toIE_vars_int ha e hw y hy).1)

/-- `comp_cir(simplify_cir(lift_to_cir e))` is integer-typed -/
theorem idx_wt (ha : Agree W Γ E) {e : Expr} {d : CExpr}
    (h : (do let c ← liftIdx Γ e; let s ← CompileS.simp c; pure (compAst s)) = .ok d)
    (hw : Wf.wfC W e = true) : wtCE E d = true := by
  obtain ⟨c, hc, h⟩ := bind_ok h
  obtain ⟨s, hs, h⟩ := bind_ok h
  simp only [pure, Except.pure, Except.ok.injEq] at h; subst h
  rw [wtCE_compAst]
  exact simplify_leaves c (simp_ok hs) (liftIdx_leaves ha hc hw)

theorem wfCs_mem : ∀ {es : List Expr}, Wf.wfCs W es = true → ∀ e ∈ es, Wf.wfC W e = true
  | [], _, e, he => by cases he
  | a :: r, h, e, he => by
      simp only [Wf.wfCs, Bool.and_eq_true] at h
      simp only [List.mem_cons] at he
      rcases he with rfl | he
      · exact h.1
      · exact wfCs_mem h.2 e he

theorem mapM'_all {α β : Type} {f : α → M β} {P : β → Prop} : ∀ {l : List α} {r : List β},
    mapM' f l = .ok r → (∀ a ∈ l, ∀ b, f a = .ok b → P b) → ∀ b ∈ r, P b
  | [], r, h, _, b, hb => by
      simp only [mapM', pure, Except.pure, Except.ok.injEq] at h; subst h; cases hb
  | a :: l, r, h, hp, b, hb => by
      simp only [mapM'] at h
      obtain ⟨b0, hb0, h⟩ := bind_ok h
      obtain ⟨bs, hbs, h⟩ := bind_ok h
      simp only [pure, Except.pure, Except.ok.injEq] at h; subst h
      simp only [List.mem_cons] at hb
      rcases hb with rfl | hb
      · exact hp a (by simp) _ hb0
      · exact mapM'_all hbs (fun a' ha' => hp a' (by simp [ha'])) b hb

theorem mapM'_length {α β : Type} {f : α → M β} : ∀ {l : List α} {r : List β},
    mapM' f l = .ok r → r.length = l.length
  | [], r, h => by simp only [mapM', pure, Except.pure, Except.ok.injEq] at h; subst h; rfl
  | a :: l, r, h => by
      simp only [mapM'] at h
      obtain ⟨b0, _, h⟩ := bind_ok h
      obtain ⟨bs, hbs, h⟩ := bind_ok h
      simp only [pure, Except.pure, Except.ok.injEq] at h; subst h
      simp [mapM'_length hbs]

/-- what `get_strides` yields for a visible buffer: integer-typed leaves; and the C kind -/
theorem strides_wt (ha : Agree W Γ E) {x : Sym} (hx : Wf.lookup x W ≠ none) {ty : BufTy}
    (ht : bufTy Γ x = .ok ty) :
    (∀ s ∈ getStrides x ty, leavesOK E s = true) ∧
    ((isWinTy ty = false ∧ E.get x = some .ptr) ∨
     (isWinTy ty = true ∧ E.get x = some (.win (getStrides x ty).length))) := by
  obtain ⟨k, hk⟩ : ∃ k, Wf.lookup x W = some k := by
    cases h : Wf.lookup x W with
    | none => exact absurd h hx
    | some k => exact ⟨k, rfl⟩
  have hv := (ha.vis x k hk).1
  unfold bufTy at ht
  split at ht
  · rename_i sh hty
    obtain ⟨cs, hcs, ht⟩ := bind_ok ht
    simp only [pure, Except.pure, Except.ok.injEq] at ht; subst ht
    refine ⟨?_, Or.inl ⟨rfl, by rw [hv]; simp [ctyOf, hty]⟩⟩
    have hl : ∀ c ∈ cs, leavesOK E c = true := by
      unfold liftShape at hcs
      refine mapM'_all hcs (fun e he c hc => ?_)
      have hlift : lift (nnOf Γ.renv) e = some c := by
        split at hc
        · simp only [pure, Except.pure, Except.ok.injEq] at hc; subst hc; assumption
        · cases hc
      refine lift_leaves e hlift (fun y hy => ?_)
      have := ha.shapes x sh hx hty e he y hy
      rw [(ha.vis y none this.1).1]; simp [ctyOf, this.2]
    exact leaves_tensorStridesC cs hl
  · rename_i n hty
    simp only [pure, Except.pure, Except.ok.injEq] at ht; subst ht
    have hg : E.get x = some (.win n) := by rw [hv]; simp [ctyOf, hty]
    refine ⟨?_, Or.inr ⟨rfl, by simp [getStrides, hg]⟩⟩
    intro s hs
    simp only [getStrides, List.mem_map, List.mem_range] at hs
    obtain ⟨i, hi, rfl⟩ := hs
    split
    · rfl
    · simp [leavesOK, hg, hi]
  · cases ht

theorem accessLV_wt (ha : Agree W Γ E) {x : Sym} {idx : List Expr} {lv : LVal} {k : Bool}
    (h : accessLV Γ x idx = .ok (lv, k)) (hx : Wf.lookup x W ≠ none)
    (hw : Wf.wfCs W idx = true) : wtLV E lv = true := by
  obtain ⟨kk, hk⟩ : ∃ k, Wf.lookup x W = some k := by
    cases h' : Wf.lookup x W with
    | none => exact absurd h' hx
    | some k => exact ⟨k, rfl⟩
  have hv := (ha.vis x kk hk).1
  unfold accessLV at h
  split at h
  · rename_i hrf
    simp only [pure, Except.pure, Except.ok.injEq, Prod.mk.injEq] at h
    rw [← h.1]
    have := (ha.refs x hrf).2
    have hm : x ∈ Γ.refs := by simpa using hrf
    simp [wtLV, hv, ctyOf, this, hm]
  · rename_i hrf
    split at h
    · rename_i hty
      simp only [pure, Except.pure, Except.ok.injEq, Prod.mk.injEq] at h
      rw [← h.1]
      have hm : x ∉ Γ.refs := by simpa using hrf
      simp [wtLV, hv, ctyOf, hty, hm]
    · cases h
    · cases h
    · obtain ⟨cirs, hcirs, h⟩ := bind_ok h
      obtain ⟨ty, hty, h⟩ := bind_ok h
      split at h
      · cases h
      · rename_i off hoff
        obtain ⟨s, hs, h⟩ := bind_ok h
        simp only [pure, Except.pure, Except.ok.injEq, Prod.mk.injEq] at h
        rw [← h.1]
        have st := strides_wt ha hx hty
        have hli : ∀ c ∈ cirs, leavesOK E c = true :=
          mapM'_all hcirs (fun e he c hc => liftIdx_leaves ha hc (wfCs_mem hw e he))
        have hoffl := leaves_getIdxOffset hoff hli st.1
        have hsl := simplify_leaves off (simp_ok hs) hoffl
        simp only [wtLV, wtCE_compAst, hsl, Bool.true_and]
        rcases st.2 with ⟨h1, h2⟩ | ⟨h1, h2⟩
        · simp [h1, h2]
        · simp [h1, h2]

theorem compC_wt (ha : Agree W Γ E) (ib : Bool) : ∀ (e : Expr) {e' : CI} {k : Bool},
    compC Γ ib e = .ok (e', k) → Wf.wfC W e = true → CfgOK E.cfgT (ciCfg e') → wtCI E e' = true
  | .read x [], e', k, hc, hw, _ => by
      simp only [compC] at hc
      split at hc
      · rename_i hty
        simp only [pure, Except.pure, Except.ok.injEq, Prod.mk.injEq] at hc
        rw [← hc.1]
        simp only [Wf.wfC, Bool.and_eq_true] at hw
        have hl := wf_isCtrl hw.1
        simp [wtCI, (ha.vis x none hl).1, ctyOf, hty]
      · cases hc
      · cases hc
  | .read _ (_ :: _), _, _, hc, _, _ => by simp [compC, throw, throwThe, MonadExceptOf.throw] at hc
  | .lit (.int _), e', k, hc, _, _ => by
      simp only [compC, pure, Except.pure, Except.ok.injEq, Prod.mk.injEq] at hc
      rw [← hc.1]; rfl
  | .lit (.bool _), e', k, hc, _, _ => by
      simp only [compC, pure, Except.pure, Except.ok.injEq, Prod.mk.injEq] at hc
      rw [← hc.1]; rfl
  | .lit (.data _ _), _, _, hc, _, _ => by simp [compC, throw, throwThe, MonadExceptOf.throw] at hc
  | .usub a, e', k, hc, hw, hcf => by
      simp only [compC] at hc
      obtain ⟨⟨a', k1⟩, h1, hc⟩ := bind_ok hc
      simp only [pure, Except.pure, Except.ok.injEq, Prod.mk.injEq] at hc
      rw [← hc.1] at hcf ⊢
      simp only [Wf.wfC] at hw
      simp only [wtCI]
      exact compC_wt ha ib a h1 hw (by simpa [ciCfg] using hcf)
  | .binop op a b, e', k, hc, hw, hcf => by
      simp only [compC] at hc
      obtain ⟨⟨a', ka⟩, h1, hc⟩ := bind_ok hc
      obtain ⟨⟨b', kb⟩, h2, hc⟩ := bind_ok hc
      simp only [Wf.wfC, Bool.and_eq_true] at hw
      have key : ∀ {e0 : CI}, (e0 = .bin op a' b' ∨ e0 = .floorDiv a' b') → e' = e0 →
          wtCI E e' = true := by
        intro e0 h0 he
        subst he
        rcases h0 with rfl | rfl
        · simp only [ciCfg] at hcf
          simp only [wtCI, Bool.and_eq_true]
          exact ⟨compC_wt ha ib a h1 hw.1 hcf.left, compC_wt ha ib b h2 hw.2 hcf.right⟩
        · simp only [ciCfg] at hcf
          simp only [wtCI, Bool.and_eq_true]
          exact ⟨compC_wt ha ib a h1 hw.1 hcf.left, compC_wt ha ib b h2 hw.2 hcf.right⟩
      cases op
      case div =>
        simp only [] at hc
        split at hc
        · cases hc
        · split at hc
          · simp only [pure, Except.pure, Except.ok.injEq, Prod.mk.injEq] at hc
            exact key (Or.inl rfl) hc.1.symm
          · simp only [pure, Except.pure, Except.ok.injEq, Prod.mk.injEq] at hc
            exact key (Or.inr rfl) hc.1.symm
          · cases hc
      all_goals
        simp only [pure, Except.pure, Except.ok.injEq, Prod.mk.injEq] at hc
        exact key (Or.inl rfl) hc.1.symm
  | .stride x d, e', k, hc, hw, _ => by
      simp only [compC] at hc
      obtain ⟨ty, hty, hc⟩ := bind_ok hc
      split at hc
      · cases hc
      · rename_i st hst
        obtain ⟨s', hs', hc⟩ := bind_ok hc
        simp only [pure, Except.pure, Except.ok.injEq, Prod.mk.injEq] at hc
        rw [← hc.1]
        simp only [Wf.wfC] at hw
        split at hw
        · rename_i n hr
          have hx : Wf.lookup x W ≠ none := by rw [wf_rankOf hr]; simp
          have sw := strides_wt ha hx hty
          simp only [wtCI, wtCE_compAst]
          exact simplify_leaves st (simp_ok hs') (sw.1 st (List.mem_of_getElem? hst))
        · cases hw
  | .readcfg c f, e', k, hc, _, hcf => by
      simp only [compC] at hc
      split at hc
      · cases hc
      · simp only [pure, Except.pure, Except.ok.injEq, Prod.mk.injEq] at hc
        rw [← hc.1] at hcf ⊢
        have := hcf ((c, f), false) (by simp [ciCfg])
        simp [wtCI, this]
  | .extern _ _, _, _, hc, _, _ => by simp [compC, throw, throwThe, MonadExceptOf.throw] at hc
  | .win _ _, _, _, hc, _, _ => by simp [compC, throw, throwThe, MonadExceptOf.throw] at hc

theorem compD_wt (ha : Agree W Γ E) : ∀ (e : Expr) {e' : CD} {k : Bool},
    compD Γ e = .ok (e', k) → Wf.wfD W e = true → CfgOK E.cfgT (cdCfg e') → wtCD E e' = true
  | .read x idx, e', k, hc, hw, _ => by
      simp only [compD] at hc
      obtain ⟨⟨lv, k1⟩, hlv, hc⟩ := bind_ok hc
      simp only [pure, Except.pure, Except.ok.injEq, Prod.mk.injEq] at hc
      rw [← hc.1]
      simp only [Wf.wfD] at hw
      split at hw
      · rename_i n hr
        simp only [Bool.and_eq_true] at hw
        simp only [wtCD]
        exact accessLV_wt ha hlv (by rw [wf_rankOf hr]; simp) hw.2
      · cases hw
  | .lit (.data _ _), e', k, hc, _, _ => by
      simp only [compD, pure, Except.pure, Except.ok.injEq, Prod.mk.injEq] at hc
      rw [← hc.1]; rfl
  | .lit (.int _), _, _, hc, _, _ => by simp [compD, throw, throwThe, MonadExceptOf.throw] at hc
  | .lit (.bool _), _, _, hc, _, _ => by simp [compD, throw, throwThe, MonadExceptOf.throw] at hc
  | .usub a, e', k, hc, hw, hcf => by
      simp only [compD] at hc
      obtain ⟨⟨a', k1⟩, h1, hc⟩ := bind_ok hc
      simp only [pure, Except.pure, Except.ok.injEq, Prod.mk.injEq] at hc
      rw [← hc.1] at hcf ⊢
      simp only [Wf.wfD] at hw
      simp only [wtCD]
      exact compD_wt ha a h1 hw (by simpa [cdCfg] using hcf)
  | .binop op a b, e', k, hc, hw, hcf => by
      simp only [compD] at hc
      obtain ⟨⟨a', ka⟩, h1, hc⟩ := bind_ok hc
      obtain ⟨⟨b', kb⟩, h2, hc⟩ := bind_ok hc
      simp only [Wf.wfD, Bool.and_eq_true] at hw
      cases op <;> simp only [pure, Except.pure, Except.ok.injEq, Prod.mk.injEq, throw, throwThe,
        MonadExceptOf.throw, reduceCtorEq] at hc
      all_goals
        rw [← hc.1] at hcf ⊢
        simp only [cdCfg] at hcf
        simp only [wtCD, isArith, Bool.true_and, Bool.and_eq_true]
        exact ⟨compD_wt ha a h1 hw.1.2 hcf.left, compD_wt ha b h2 hw.2 hcf.right⟩
  | .readcfg c f, e', k, hc, _, hcf => by
      simp only [compD, pure, Except.pure, Except.ok.injEq, Prod.mk.injEq] at hc
      rw [← hc.1] at hcf ⊢
      have := hcf ((c, f), true) (by simp [cdCfg])
      simp [wtCD, this]
  | .extern _ _, _, _, hc, _, _ => by simp [compD, throw, throwThe, MonadExceptOf.throw] at hc
  | .win _ _, _, _, hc, _, _ => by simp [compD, throw, throwThe, MonadExceptOf.throw] at hc
  | .stride _ _, _, _, hc, _, _ => by simp [compD, throw, throwThe, MonadExceptOf.throw] at hc

end Exo.CTyping
