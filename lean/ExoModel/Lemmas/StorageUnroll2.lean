/-
  unroll_buffer, part 2: the "unroll mode".  A statement `a` on the left, `Rw.unrollS x d nm a` on the
  right, from `Rel (· = x ∨ Pn ·)`-related states (StorageUnroll1.lean) with the concrete joint
  predicate `UQ`:

    * left: `x ↦ {N, 0, denseDims szs}` (buffer `N`, first of the range `[N, N+u)`; the left buffers
      `N+1 … N+u-1` are unconstrained — dead allocations of the same-layout trick);
    * right: for every used literal `k ∈ order`, `nm k ↦ {N + pos k, 0, denseDims (szs.eraseIdx d)}`;
    * cells: for every in-bounds tuple `is` of `szs` with `is[d] = k`, `k ∈ order`, the cell of `is` in
      buffer `N` on the left holds the same value as the cell of `is.eraseIdx d` (dense layout of
      `szs.eraseIdx d`) in buffer `N + pos k` on the right.  ANY dimension `d`.

  An access `x[idx]` with the literal `k` at position `d` evaluates to a tuple `is` with `is[d] = k`;
  `nm k [idx.eraseIdx d]` evaluates to `is.eraseIdx d`, which is in bounds of `szs.eraseIdx d`
  (`InB_eraseIdx`) — `erase_offset`; two tuples with the same `k` have the same cell on the left iff they
  have the same cell on the right (`erase_inj`, from `dense_inj`); tuples with different `k` have
  different cells on the left (`ne_of_key`) and live in different buffers on the right (`pos_inj`).

  ONE-DIRECTIONAL (`Fwd`): that the used literals are `< szs[d]` FOLLOWS from the success of the left
  run (no hypothesis).  Guard `Rw.unrollOkS x d order` (FIRST VERSION): `x` occurs only as the buffer of
  a data read `x[idx]` in a right-hand side / extern argument / data configuration write and as the
  target of `assign` / `reduce`, each time with an integer literal `k ∈ order` at position `d` of `idx`
  and `idx` not mentioning `x`; NOT in a window expression, NOT as `stride(x, _)` (finding S3), NOT in a
  call argument, NOT in a `window` statement, not in any index or control expression, never re-bound.
  The new names (`Pn`) occur nowhere.
-/
import ExoModel.Lemmas.StorageUnroll1

set_option linter.unusedSectionVars false
set_option linter.unusedVariables false

namespace Exo.Rw
open Exo

/-- position `d` of the index tuple is a non-negative integer literal that has an allocation -/
def litOk (d : Nat) (order : List Nat) (idx : List Expr) : Bool :=
  match litAt d idx with
  | some k => order.contains k
  | none => false

mutual
/-- data positions: `x` only as the buffer of reads `x[…, k, …]`, `k ∈ order` a literal -/
def unrollOkD (x : Sym) (d : Nat) (order : List Nat) : Expr → Bool
  | .read y idx => notIn x (namesEs idx) && (y != x || litOk d order idx)
  | .usub a => unrollOkD x d order a
  | .binop _ a b => unrollOkD x d order a && unrollOkD x d order b
  | .extern _ args => unrollOkDs x d order args
  | _ => true
def unrollOkDs (x : Sym) (d : Nat) (order : List Nat) : List Expr → Bool
  | [] => true
  | a :: r => unrollOkD x d order a && unrollOkDs x d order r
end

mutual
/-- the statements the first version of the `unroll_buffer` theorem is proved for (file header) -/
def unrollOkS (x : Sym) (d : Nat) (order : List Nat) : Stmt → Bool
  | .assign y idx rhs =>
      notIn x (namesEs idx) && unrollOkD x d order rhs && (y != x || litOk d order idx)
  | .reduce y idx rhs =>
      notIn x (namesEs idx) && unrollOkD x d order rhs && (y != x || litOk d order idx)
  | .writecfg _ _ rhs dd => if dd then unrollOkD x d order rhs else notIn x rhs.names
  | .pass => true
  | .ite c t el => notIn x c.names && unrollOkL x d order t && unrollOkL x d order el
  | .loop _ lo hi b _ => notIn x lo.names && notIn x hi.names && unrollOkL x d order b
  | .alloc y sh => y != x && notIn x (namesEs sh)
  | .free _ => true
  | .call _ args => notIn x (namesEs args)
  | .window y rhs => y != x && notIn x rhs.names
def unrollOkL (x : Sym) (d : Nat) (order : List Nat) : List Stmt → Bool
  | [] => true
  | s :: r => unrollOkS x d order s && unrollOkL x d order r
end

theorem litOk_inv {d : Nat} {order : List Nat} {idx : List Expr} (h : litOk d order idx = true) :
    ∃ k, litAt d idx = some k ∧ k ∈ order := by
  unfold litOk at h
  split at h
  · rename_i k hk
    exact ⟨k, hk, by simpa using h⟩
  · cases h

end Exo.Rw

namespace Exo.Stg.Unroll
open Exo Exo.ReidxInst
variable {V : Type}

/-! ### the rewrite does nothing to expressions that do not mention `x` -/

mutual
theorem unrollE_id (x : Sym) (d : Nat) (nm : Nat → Sym) : ∀ (a : Expr), (∀ y ∈ a.names, y ≠ x) →
    Rw.unrollE x d nm a = a
  | .read y idx, hn => by
    have hy : (y == x) = false := by simpa using hn y (by simp [Expr.names])
    simp only [Rw.unrollE, hy, Bool.false_eq_true, ↓reduceIte]
    rw [unrollEs_id x d nm idx (fun z hz => hn z (by simp [Expr.names, hz]))]
  | .lit c, _ => by simp only [Rw.unrollE]
  | .usub a, hn => by
    simp only [Rw.unrollE]
    rw [unrollE_id x d nm a (fun z hz => hn z (by simpa [Expr.names] using hz))]
  | .binop o a b, hn => by
    simp only [Rw.unrollE]
    rw [unrollE_id x d nm a (fun z hz => hn z (by simp [Expr.names, hz])),
        unrollE_id x d nm b (fun z hz => hn z (by simp [Expr.names, hz]))]
  | .extern g args, hn => by
    simp only [Rw.unrollE]
    rw [unrollEs_id x d nm args (fun z hz => hn z (by simpa [Expr.names] using hz))]
  | .win y acc, hn => by
    have hy : (y == x) = false := by simpa using hn y (by simp [Expr.names])
    simp only [Rw.unrollE, hy, Bool.false_eq_true, ↓reduceIte]
    rw [unrollWs_id x d nm acc (fun z hz => hn z (by simp [Expr.names, hz]))]
  | .stride y k, _ => by simp only [Rw.unrollE]
  | .readcfg c g, _ => by simp only [Rw.unrollE]
theorem unrollEs_id (x : Sym) (d : Nat) (nm : Nat → Sym) : ∀ (as : List Expr),
    (∀ y ∈ namesEs as, y ≠ x) → Rw.unrollEs x d nm as = as
  | [], _ => by simp only [Rw.unrollEs]
  | a :: r, hn => by
    simp only [Rw.unrollEs]
    rw [unrollE_id x d nm a (fun z hz => hn z (by simp [namesEs, hz])),
        unrollEs_id x d nm r (fun z hz => hn z (by simp [namesEs, hz]))]
theorem unrollW_id (x : Sym) (d : Nat) (nm : Nat → Sym) : ∀ (w : WAcc), (∀ y ∈ w.names, y ≠ x) →
    Rw.unrollW x d nm w = w
  | .interval a b, hn => by
    simp only [Rw.unrollW]
    rw [unrollE_id x d nm a (fun z hz => hn z (by simp [WAcc.names, hz])),
        unrollE_id x d nm b (fun z hz => hn z (by simp [WAcc.names, hz]))]
  | .point a, hn => by
    simp only [Rw.unrollW]
    rw [unrollE_id x d nm a (fun z hz => hn z (by simpa [WAcc.names] using hz))]
theorem unrollWs_id (x : Sym) (d : Nat) (nm : Nat → Sym) : ∀ (ws : List WAcc),
    (∀ y ∈ namesWs ws, y ≠ x) → Rw.unrollWs x d nm ws = ws
  | [], _ => by simp only [Rw.unrollWs]
  | w :: r, hn => by
    simp only [Rw.unrollWs]
    rw [unrollW_id x d nm w (fun z hz => hn z (by simp [namesWs, hz])),
        unrollWs_id x d nm r (fun z hz => hn z (by simp [namesWs, hz]))]
end

mutual
theorem unrollS_id (x : Sym) (d : Nat) (nm : Nat → Sym) : ∀ (a : Stmt), (∀ y ∈ a.names, y ≠ x) →
    Rw.unrollS x d nm a = a
  | .assign y idx rhs, hn => by
    have hy : (y == x) = false := by simpa using hn y (by simp [Stmt.names])
    simp only [Rw.unrollS, hy, Bool.false_eq_true, ↓reduceIte]
    rw [unrollEs_id x d nm idx (fun z hz => hn z (by simp [Stmt.names, hz])),
        unrollE_id x d nm rhs (fun z hz => hn z (by simp [Stmt.names, hz]))]
  | .reduce y idx rhs, hn => by
    have hy : (y == x) = false := by simpa using hn y (by simp [Stmt.names])
    simp only [Rw.unrollS, hy, Bool.false_eq_true, ↓reduceIte]
    rw [unrollEs_id x d nm idx (fun z hz => hn z (by simp [Stmt.names, hz])),
        unrollE_id x d nm rhs (fun z hz => hn z (by simp [Stmt.names, hz]))]
  | .writecfg c f rhs dd, hn => by
    simp only [Rw.unrollS]
    rw [unrollE_id x d nm rhs (fun z hz => hn z (by simpa [Stmt.names] using hz))]
  | .pass, _ => by simp only [Rw.unrollS]
  | .ite c t el, hn => by
    simp only [Rw.unrollS]
    rw [unrollE_id x d nm c (fun z hz => hn z (by simp [Stmt.names, hz])),
        unrollL_id x d nm t (fun z hz => hn z (by simp [Stmt.names, hz])),
        unrollL_id x d nm el (fun z hz => hn z (by simp [Stmt.names, hz]))]
  | .loop i lo hi b par, hn => by
    simp only [Rw.unrollS]
    rw [unrollE_id x d nm lo (fun z hz => hn z (by simp [Stmt.names, hz])),
        unrollE_id x d nm hi (fun z hz => hn z (by simp [Stmt.names, hz])),
        unrollL_id x d nm b (fun z hz => hn z (by simp [Stmt.names, hz]))]
  | .alloc y sh, _ => by simp only [Rw.unrollS]
  | .free y, _ => by simp only [Rw.unrollS]
  | .call f args, hn => by
    simp only [Rw.unrollS]
    rw [unrollEs_id x d nm args (fun z hz => hn z (by simpa [Stmt.names] using hz))]
  | .window y rhs, hn => by
    simp only [Rw.unrollS]
    rw [unrollE_id x d nm rhs (fun z hz => hn z (by simp [Stmt.names, hz]))]
theorem unrollL_id (x : Sym) (d : Nat) (nm : Nat → Sym) : ∀ (ss : List Stmt),
    (∀ y ∈ namesL ss, y ≠ x) → Rw.unrollL x d nm ss = ss
  | [], _ => by simp only [Rw.unrollL]
  | a :: r, hn => by
    simp only [Rw.unrollL]
    rw [unrollS_id x d nm a (fun z hz => hn z (by simp [namesL, hz])),
        unrollL_id x d nm r (fun z hz => hn z (by simp [namesL, hz]))]
end

/-! ### geometry: deleting dimension `d` from an in-bounds tuple of a dense layout -/

theorem dense_bounds {szs is : List Int} {o : Int} (h : viewOffset (denseDims szs) is 0 = .ok o) :
    0 ≤ o ∧ o < prodL szs := by
  obtain ⟨hb, e⟩ := (dense_offset _ _ _ _).1 h
  have := lin_bounds hb
  omega

theorem erase_offset {szs is : List Int} (d : Nat) {o : Int}
    (h : viewOffset (denseDims szs) is 0 = .ok o) :
    ∃ o', viewOffset (denseDims (szs.eraseIdx d)) (is.eraseIdx d) 0 = .ok o' ∧ 0 ≤ o' ∧
      o' < prodL (szs.eraseIdx d) := by
  obtain ⟨hb, _⟩ := (dense_offset _ _ _ _).1 h
  have hb' := InB_eraseIdx d hb
  have hbd := lin_bounds hb'
  exact ⟨lin _ _, (dense_offset _ _ _ _).2 ⟨hb', (Int.zero_add _).symm⟩, hbd.1, hbd.2⟩

theorem eq_of_eraseIdx_eq {α : Type} {a b : List α} {d : Nat} {v : α}
    (h : a.eraseIdx d = b.eraseIdx d) (ha : a[d]? = some v) (hb : b[d]? = some v) : a = b := by
  apply List.ext_getElem?
  intro j
  by_cases hj : j = d
  · subst hj; rw [ha, hb]
  · exact getElem?_of_eraseIdx_eq h j hj

/-- two tuples with the same entry at position `d`: same cell before iff same cell after -/
theorem erase_inj {szs is₁ is₂ : List Int} {d : Nat} {k o₁ o₂ o₁' o₂' : Int}
    (h₁ : viewOffset (denseDims szs) is₁ 0 = .ok o₁) (h₂ : viewOffset (denseDims szs) is₂ 0 = .ok o₂)
    (k₁ : is₁[d]? = some k) (k₂ : is₂[d]? = some k)
    (h₁' : viewOffset (denseDims (szs.eraseIdx d)) (is₁.eraseIdx d) 0 = .ok o₁')
    (h₂' : viewOffset (denseDims (szs.eraseIdx d)) (is₂.eraseIdx d) 0 = .ok o₂') :
    o₁ = o₂ ↔ o₁' = o₂' := by
  constructor
  · intro e
    subst e
    have := dense_inj h₁ h₂
    subst this
    exact Except.ok.inj (h₁'.symm.trans h₂')
  · intro e
    subst e
    have h := dense_inj h₁' h₂'
    have := eq_of_eraseIdx_eq h k₁ k₂
    subst this
    exact Except.ok.inj (h₁.symm.trans h₂)

/-- tuples with different entries at position `d` have different cells -/
theorem ne_of_key {szs is₁ is₂ : List Int} {d : Nat} {k₁ k₂ o₁ o₂ : Int}
    (h₁ : viewOffset (denseDims szs) is₁ 0 = .ok o₁) (h₂ : viewOffset (denseDims szs) is₂ 0 = .ok o₂)
    (hk₁ : is₁[d]? = some k₁) (hk₂ : is₂[d]? = some k₂) (hne : k₁ ≠ k₂) : o₁ ≠ o₂ := by
  intro e
  subst e
  have := dense_inj h₁ h₂
  subst this
  rw [hk₁] at hk₂
  exact hne (Option.some.inj hk₂)

/-- a literal index evaluates to itself -/
theorem litAt_eval {s : State V} {d : Nat} {idx : List Expr} {is : List Int} {k : Nat}
    (hl : Rw.litAt d idx = some k) (his : evalCs s idx = .ok is) : is[d]? = some (k : Int) := by
  unfold Rw.litAt at hl
  split at hl
  · rename_i k' hk'
    split at hl
    · rename_i h0
      obtain ⟨i, h1, h2⟩ := evalCs_getElem? his d _ hk'
      simp only [evalC, pure, Except.pure, Except.ok.injEq] at h2
      have e : k'.toNat = k := Option.some.inj hl
      rw [h1, ← h2]
      congr 1
      omega
    · cases hl
  · cases hl

/-! ### the joint predicate on the slices `[N, N+u)` -/

/-- `L[0]` = the original buffer (`Π szs` cells); `R[pos k]` = the buffer of `x_k` (`Π (szs - d)` cells);
    cell of `is` (with `is[d] = k`) on the left = cell of `is.eraseIdx d` in `R[pos k]` -/
def UQ (d : Nat) (szs : List Int) (order : List Nat) (pos : Nat → Nat)
    (L R : List (List (Option V))) : Prop :=
  ∃ bl, L[0]? = some bl ∧ bl.length = (prodL szs).toNat ∧
    ∀ k, k ∈ order → ∃ br, R[pos k]? = some br ∧ br.length = (prodL (szs.eraseIdx d)).toNat ∧
      ∀ is o o', viewOffset (denseDims szs) is 0 = .ok o → is[d]? = some (k : Int) →
        viewOffset (denseDims (szs.eraseIdx d)) (is.eraseIdx d) 0 = .ok o' →
        br[o'.toNat]? = bl[o.toNat]?

/-- `c` is the cell of a tuple `is` (with `is[d] = k ∈ order`) in the original buffer and `c'` the cell
    of `is.eraseIdx d` in the buffer of `x_k` -/
def UPair (N d : Nat) (szs : List Int) (order : List Nat) (pos : Nat → Nat) (c c' : Nat × Nat) :
    Prop :=
  ∃ (k : Nat) (is : List Int) (o o' : Int), k ∈ order ∧ viewOffset (denseDims szs) is 0 = .ok o ∧
    is[d]? = some (k : Int) ∧
    viewOffset (denseDims (szs.eraseIdx d)) (is.eraseIdx d) 0 = .ok o' ∧
    c = (N, o.toNat) ∧ c' = (N + pos k, o'.toNat)

/-- the static facts of one `unroll_buffer` instance -/
structure UCtx (x : Sym) (d : Nat) (order : List Nat) (nm : Nat → Sym) (Pn : Sym → Prop)
    (N u : Nat) (szs : List Int) (pos : Nat → Nat) (pl pr : Sym → Option View) : Prop where
  upos : 0 < u
  plx : pl x = some { buf := N, off := 0, dims := denseDims szs }
  prk : ∀ k, k ∈ order →
    pr (nm k) = some { buf := N + pos k, off := 0, dims := denseDims (szs.eraseIdx d) }
  pnk : ∀ k, k ∈ order → Pn (nm k)
  pos_lt : ∀ k, k ∈ order → pos k < u
  pos_inj : ∀ k₁ k₂, k₁ ∈ order → k₂ ∈ order → pos k₁ = pos k₂ → k₁ = k₂

section
variable {x : Sym} {d : Nat} {order : List Nat} {nm : Nat → Sym} {Pn : Sym → Prop} {N u : Nat}
  {szs : List Int} {pos : Nat → Nat} {pl pr : Sym → Option View} {s s' : State V}

theorem HRel.bufs (C : UCtx x d order nm Pn N u szs pos pl pr) {h h' : List (List (Option V))}
    (H : HRel N u (UQ d szs order pos) h h') :
    ∃ bl, h[N]? = some bl ∧ bl.length = (prodL szs).toNat ∧
      ∀ k, k ∈ order → ∃ br, h'[N + pos k]? = some br ∧
        br.length = (prodL (szs.eraseIdx d)).toNat ∧
        ∀ is o o', viewOffset (denseDims szs) is 0 = .ok o → is[d]? = some (k : Int) →
          viewOffset (denseDims (szs.eraseIdx d)) (is.eraseIdx d) 0 = .ok o' →
          br[o'.toNat]? = bl[o.toNat]? := by
  obtain ⟨L, R, hL, hR, hl, hr, bl, hbl, hlen, hq⟩ := H.big
  refine ⟨bl, ?_, hlen, ?_⟩
  · have := hl 0 C.upos
    rwa [Nat.add_zero, hbl] at this
  · intro k hk
    obtain ⟨br, hbr, hlen', hc⟩ := hq k hk
    exact ⟨br, by rw [hr _ (C.pos_lt k hk), hbr], hlen', hc⟩

theorem HRel.get_pair (C : UCtx x d order nm Pn N u szs pos pl pr) {h h' : List (List (Option V))}
    (H : HRel N u (UQ d szs order pos) h h') {c c' : Nat × Nat}
    (hp : UPair N d szs order pos c c') : heapGet h' c' = heapGet h c := by
  obtain ⟨k, is, o, o', hk, h1, hkd, h2, rfl, rfl⟩ := hp
  obtain ⟨bl, e1, _, hq⟩ := H.bufs C
  obtain ⟨br, e2, _, hc⟩ := hq k hk
  simp only [heapGet, e1, e2, hc is o o' h1 hkd h2]

/-- a write to the cell of `is` on the left, to the cell of `is.eraseIdx d` of `x_k` on the right -/
theorem HRel.set_pair (C : UCtx x d order nm Pn N u szs pos pl pr) {h h' : List (List (Option V))}
    (H : HRel N u (UQ d szs order pos) h h') {c c' : Nat × Nat}
    (hp : UPair N d szs order pos c c') (v : Option V) :
    HRel N u (UQ d szs order pos) (heapSet h c v) (heapSet h' c' v) := by
  obtain ⟨k, is, o, o', hk, h1, hkd, h2, rfl, rfl⟩ := hp
  obtain ⟨L, R, hL, hR, hl, hr, bl, hbl, hlen, hq⟩ := H.big
  obtain ⟨br, hbr, hlen', hcells⟩ := hq k hk
  have hpk := C.pos_lt k hk
  have hu := C.upos
  obtain ⟨ob0, ob1⟩ := dense_bounds h1
  obtain ⟨ob0', ob1'⟩ := dense_bounds h2
  refine ⟨by simp only [heapSet, List.length_modify]; exact H.len,
    by simp only [heapSet, List.length_modify]; exact H.le, ?_, ?_⟩
  · intro b hb
    have n1 : ¬ N = b := by omega
    have n2 : ¬ N + pos k = b := by omega
    rw [getElem?_heapSet, getElem?_heapSet, if_neg n1, if_neg n2]
    exact H.other b hb
  · refine ⟨L.set 0 (bl.set o.toNat v), R.set (pos k) (br.set o'.toNat v),
      by rw [List.length_set]; exact hL, by rw [List.length_set]; exact hR, ?_, ?_, ?_⟩
    · intro j hj
      rw [getElem?_heapSet, List.getElem?_set]
      by_cases hj0 : j = 0
      · subst hj0
        have c1 : N = N + 0 := rfl
        rw [if_pos c1, if_pos rfl, if_pos (by omega), hl 0 hu, hbl]
        rfl
      · have c1 : ¬ N = N + j := by omega
        have c2 : ¬ 0 = j := by omega
        rw [if_neg c1, if_neg c2]
        exact hl j hj
    · intro j hj
      rw [getElem?_heapSet, List.getElem?_set]
      by_cases hj0 : j = pos k
      · subst hj0
        rw [if_pos rfl, if_pos rfl, if_pos (by omega), hr _ hj, hbr]
        rfl
      · have c1 : ¬ N + pos k = N + j := by omega
        have c2 : ¬ pos k = j := by omega
        rw [if_neg c1, if_neg c2]
        exact hr j hj
    · refine ⟨bl.set o.toNat v, by rw [List.getElem?_set, if_pos rfl, if_pos (by omega)],
        by rw [List.length_set]; exact hlen, ?_⟩
      intro k₂ hk₂
      obtain ⟨br₂, hbr₂, hlen₂, hcells₂⟩ := hq k₂ hk₂
      by_cases hkk : k₂ = k
      · subst hkk
        have eb : br₂ = br := Option.some.inj (hbr₂.symm.trans hbr)
        subst eb
        refine ⟨br₂.set o'.toNat v, by rw [List.getElem?_set, if_pos rfl, if_pos (by omega)],
          by rw [List.length_set]; exact hlen', ?_⟩
        intro is₂ o₂ o₂' g1 gk g2
        obtain ⟨p0, p1⟩ := dense_bounds g1
        obtain ⟨p0', p1'⟩ := dense_bounds g2
        have hinj := erase_inj h1 g1 hkd gk h2 g2
        rw [List.getElem?_set, List.getElem?_set]
        by_cases hoo : o = o₂
        · have e2 : o' = o₂' := hinj.1 hoo
          subst hoo; subst e2
          rw [if_pos rfl, if_pos rfl, if_pos (by omega), if_pos (by omega)]
        · have hne : o' ≠ o₂' := fun e => hoo (hinj.2 e)
          rw [if_neg (by omega), if_neg (by omega)]
          exact hcells is₂ o₂ o₂' g1 gk g2
      · have hpp : ¬ pos k = pos k₂ := fun e => hkk (C.pos_inj k₂ k hk₂ hk e.symm)
        refine ⟨br₂, by rw [List.getElem?_set, if_neg hpp]; exact hbr₂, hlen₂, ?_⟩
        intro is₂ o₂ o₂' g1 gk g2
        obtain ⟨p0, p1⟩ := dense_bounds g1
        have hkne : (k : Int) ≠ (k₂ : Int) := by omega
        have hne : o ≠ o₂ := ne_of_key h1 g1 hkd gk hkne
        rw [List.getElem?_set, if_neg (by omega)]
        exact hcells₂ is₂ o₂ o₂' g1 gk g2

/-- **the access lemma**: if `x[idx]` (literal `k ∈ order` at position `d`) denotes a cell on the
    left, `x_k[idx - d]` denotes the corresponding cell on the right -/
theorem target_unroll (C : UCtx x d order nm Pn N u szs pos pl pr)
    (h : Rel (fun y => y = x ∨ Pn y) N u (UQ d szs order pos) pl pr s s')
    (idx : List Expr) (hidx : ∀ y ∈ namesEs idx, ¬ (y = x ∨ Pn y)) (k : Nat) (hk : k ∈ order)
    (hlit : Rw.litAt d idx = some k) (c : Nat × Nat) (hc : Fp.target s x idx = .ok c) :
    ∃ c', Fp.target s' (nm k) (idx.eraseIdx d) = .ok c' ∧ UPair N d szs order pos c c' := by
  unfold Fp.target at hc ⊢
  rw [(h.px x (Or.inl rfl)).1, C.plx] at hc
  rw [(h.px (nm k) (Or.inr (C.pnk k hk))).2, C.prk k hk]
  simp only [] at hc ⊢
  obtain ⟨is, his, hc⟩ := except_bind_ok_inv hc
  have his' : evalCs s' idx = .ok is := by rw [evalCs_rel h idx hidx]; exact his
  rw [evalCs_eraseIdx d his', ok_bind]
  obtain ⟨bl, e1, hlen, hq⟩ := h.heap.bufs C
  obtain ⟨br, e2, hlen', _⟩ := hq k hk
  obtain ⟨o, ho, ho0, rfl⟩ := Reidx.cellOf_ok_inv e1 hc
  obtain ⟨o', ho', h0', h1'⟩ := erase_offset d ho
  have hkd : is[d]? = some (k : Int) := litAt_eval hlit his
  exact ⟨(N + pos k, o'.toNat), Reidx.cellOf_ok_intro e2 ho' h0' (by rw [hlen']; omega),
    k, is, o, o', hk, ho, hkd, ho', rfl, rfl⟩

/-- a write to `x[idx]` on the left, to `x_k[idx - d]` on the right -/
theorem writeCell_unroll (C : UCtx x d order nm Pn N u szs pos pl pr)
    (h : Rel (fun y => y = x ∨ Pn y) N u (UQ d szs order pos) pl pr s s')
    (idx : List Expr) (hidx : ∀ y ∈ namesEs idx, ¬ (y = x ∨ Pn y)) (k : Nat) (hk : k ∈ order)
    (hlit : Rw.litAt d idx = some k) (g : Option V → Option V) :
    Fwd (Rel (fun y => y = x ∨ Pn y) N u (UQ d szs order pos) pl pr)
      (writeCell s x idx g) (writeCell s' (nm k) (idx.eraseIdx d) g) := by
  rw [Fp.writeCell_eq, Fp.writeCell_eq]
  intro t ht
  cases hc : Fp.target s x idx with
  | error e => rw [hc] at ht; cases ht
  | ok c =>
    rw [hc] at ht
    obtain ⟨c', hc', hp⟩ := target_unroll C h idx hidx k hk hlit c hc
    rw [hc']
    refine ⟨_, rfl, ?_⟩
    obtain rfl : { s with heap := heapSet s.heap c (g (heapGet s.heap c)) } = t := Except.ok.inj ht
    show Rel _ _ _ _ _ _ { s with heap := heapSet s.heap c (g (heapGet s.heap c)) }
      { s' with heap := heapSet s'.heap c' (g (heapGet s'.heap c')) }
    rw [h.heap.get_pair C hp]
    exact h.heapWrite (h.heap.set_pair C hp _)

section
variable [DataAlg V] (ext : String → List V → V)

mutual
/-- data evaluation of `a` on the left and of `unrollE x d nm a` on the right -/
theorem evalD_unroll (C : UCtx x d order nm Pn N u szs pos pl pr)
    (h : Rel (fun y => y = x ∨ Pn y) N u (UQ d szs order pos) pl pr s s') :
    ∀ (a : Expr), Rw.unrollOkD x d order a = true → (∀ y ∈ a.names, ¬ Pn y) →
    Fwd Eq (evalD ext s a) (evalD ext s' (Rw.unrollE x d nm a))
  | .read y idx, hok, hnew => by
    simp only [Rw.unrollOkD, Bool.and_eq_true] at hok
    have hidx : ∀ z ∈ namesEs idx, z ≠ x := Rw.notIn_iff.1 hok.1
    have hidxP : ∀ z ∈ namesEs idx, ¬ (z = x ∨ Pn z) := fun z hz hp =>
      hp.elim (hidx z hz) (hnew z (by simp [Expr.names, hz]))
    by_cases hyx : y = x
    · have hb : (y == x) = true := by simp [hyx]
      have hlo : Rw.litOk d order idx = true := by simpa [hyx] using hok.2
      obtain ⟨k, hlit, hk⟩ := Rw.litOk_inv hlo
      simp only [Rw.unrollE, hb, ↓reduceIte, hlit, Option.getD_some]
      rw [unrollEs_id x d nm idx hidx, hyx, Fp.evalD_read, Fp.evalD_read]
      intro v hv
      cases hc : Fp.target s x idx with
      | error e => rw [hc] at hv; cases hv
      | ok c =>
        rw [hc] at hv
        obtain ⟨c', hc', hp⟩ := target_unroll C h idx hidxP k hk hlit c hc
        rw [hc']
        refine ⟨_, rfl, ?_⟩
        obtain rfl : heapGet s.heap c = v := Except.ok.inj hv
        exact (h.heap.get_pair C hp).symm
    · have hb : (y == x) = false := by simpa using hyx
      simp only [Rw.unrollE, hb, Bool.false_eq_true, ↓reduceIte]
      rw [unrollEs_id x d nm idx hidx, evalD_rel ext h (.read y idx) (by
        intro z hz
        simp only [Expr.names, List.mem_cons] at hz
        rcases hz with rfl | hz
        · exact fun hp => hp.elim hyx (hnew z (by simp [Expr.names]))
        · exact hidxP z hz)]
      exact Reidx.Fwd.refl_eq _
  | .lit c, _, _ => by
    simp only [Rw.unrollE]
    cases c <;> (simp only [evalD]; exact Reidx.Fwd.refl_eq _)
  | .usub a, hok, hnew => by
    simp only [Rw.unrollE, evalD]
    exact Fwd.bind (evalD_unroll C h a (by simpa [Rw.unrollOkD] using hok)
        (fun y hy => hnew y (by simpa [Expr.names] using hy)))
      (fun v v' _ _ hv => by subst hv; exact Reidx.Fwd.refl_eq _)
  | .binop op a b, hok, hnew => by
    simp only [Rw.unrollOkD, Bool.and_eq_true] at hok
    simp only [Rw.unrollE, evalD]
    exact Fwd.bind (evalD_unroll C h a hok.1 (fun y hy => hnew y (by simp [Expr.names, hy])))
      (fun v v' _ _ hv =>
        Fwd.bind (evalD_unroll C h b hok.2 (fun y hy => hnew y (by simp [Expr.names, hy])))
          (fun w w' _ _ hw => by subst hv; subst hw; exact Reidx.Fwd.refl_eq _))
  | .extern g args, hok, hnew => by
    simp only [Rw.unrollE, evalD]
    exact Fwd.bind (evalDs_unroll C h args (by simpa [Rw.unrollOkD] using hok)
        (fun y hy => hnew y (by simpa [Expr.names] using hy)))
      (fun vs vs' _ _ hvs => by subst hvs; exact Reidx.Fwd.refl_eq _)
  | .readcfg c g, _, _ => by
    simp only [Rw.unrollE, evalD, h.cfg]
    exact Reidx.Fwd.refl_eq _
  | .win y acc, _, _ => by
    intro v hv
    simp [evalD] at hv
  | .stride y k, _, _ => by
    intro v hv
    simp [evalD] at hv
theorem evalDs_unroll (C : UCtx x d order nm Pn N u szs pos pl pr)
    (h : Rel (fun y => y = x ∨ Pn y) N u (UQ d szs order pos) pl pr s s') :
    ∀ (as : List Expr), Rw.unrollOkDs x d order as = true → (∀ y ∈ namesEs as, ¬ Pn y) →
    Fwd Eq (evalDs ext s as) (evalDs ext s' (Rw.unrollEs x d nm as))
  | [], _, _ => by
    simp only [Rw.unrollEs, evalDs]; exact Reidx.Fwd.refl_eq _
  | a :: r, hok, hnew => by
    simp only [Rw.unrollOkDs, Bool.and_eq_true] at hok
    simp only [Rw.unrollEs, evalDs]
    exact Fwd.bind (evalD_unroll C h a hok.1 (fun y hy => hnew y (by simp [namesEs, hy])))
      (fun v v' _ _ hv =>
        Fwd.bind (evalDs_unroll C h r hok.2 (fun y hy => hnew y (by simp [namesEs, hy])))
          (fun w w' _ _ hw => by subst hv; subst hw; exact Reidx.Fwd.refl_eq _))
end

end

end

section
variable {x : Sym} {d : Nat} {order : List Nat} {nm : Nat → Sym} {Pn : Sym → Prop} {N u : Nat}
  {szs : List Int} {pos : Nat → Nat} {pl pr : Sym → Option View}
variable [DataAlg V] (ext : String → List V → V)

/-- names of `P = {x} ∪ Pn` are excluded when `x` and the new names are -/
theorem notP {l : List Sym} (h1 : ∀ z ∈ l, z ≠ x) (h2 : ∀ z ∈ l, ¬ Pn z) :
    ∀ z ∈ l, ¬ (z = x ∨ Pn z) := fun z hz hp => hp.elim (h1 z hz) (h2 z hz)

mutual
/-- **unroll mode**: if `a` succeeds, `unrollS x d nm a` succeeds in a related state -/
theorem execS_unroll (C : UCtx x d order nm Pn N u szs pos pl pr) :
    ∀ (a : Stmt) (s s' : State V), Rw.unrollOkS x d order a = true → (∀ y ∈ a.names, ¬ Pn y) →
    Rel (fun y => y = x ∨ Pn y) N u (UQ d szs order pos) pl pr s s' →
    Fwd (Rel (fun y => y = x ∨ Pn y) N u (UQ d szs order pos) pl pr)
      (execS ext a s) (execS ext (Rw.unrollS x d nm a) s')
  | .assign y idx rhs, s, s', hok, hnew, h => by
    simp only [Rw.unrollOkS, Bool.and_eq_true] at hok
    obtain ⟨⟨hidx0, hrhs⟩, hy⟩ := hok
    have hidx := Rw.notIn_iff.1 hidx0
    have hidxP := notP hidx (fun z hz => hnew z (by simp [Stmt.names, hz]))
    have hrn : ∀ z ∈ rhs.names, ¬ Pn z := fun z hz => hnew z (by simp [Stmt.names, hz])
    by_cases hyx : y = x
    · have hb : (y == x) = true := by simp [hyx]
      have hlo : Rw.litOk d order idx = true := by simpa [hyx] using hy
      obtain ⟨k, hlit, hk⟩ := Rw.litOk_inv hlo
      simp only [Rw.unrollS, hb, ↓reduceIte, hlit, Option.getD_some, execS]
      rw [unrollEs_id x d nm idx hidx, hyx]
      refine Fwd.bind (evalD_unroll ext C h rhs hrhs hrn) (fun v v' _ _ hvv => ?_)
      subst hvv
      exact writeCell_unroll C h idx hidxP k hk hlit _
    · have hb : (y == x) = false := by simpa using hyx
      simp only [Rw.unrollS, hb, Bool.false_eq_true, ↓reduceIte, execS]
      rw [unrollEs_id x d nm idx hidx]
      refine Fwd.bind (evalD_unroll ext C h rhs hrhs hrn) (fun v v' _ _ hvv => ?_)
      subst hvv
      exact Fwd.of_lock (writeCell_rel h y idx
        (fun hp => hp.elim hyx (hnew y (by simp [Stmt.names]))) hidxP _)
  | .reduce y idx rhs, s, s', hok, hnew, h => by
    simp only [Rw.unrollOkS, Bool.and_eq_true] at hok
    obtain ⟨⟨hidx0, hrhs⟩, hy⟩ := hok
    have hidx := Rw.notIn_iff.1 hidx0
    have hidxP := notP hidx (fun z hz => hnew z (by simp [Stmt.names, hz]))
    have hrn : ∀ z ∈ rhs.names, ¬ Pn z := fun z hz => hnew z (by simp [Stmt.names, hz])
    by_cases hyx : y = x
    · have hb : (y == x) = true := by simp [hyx]
      have hlo : Rw.litOk d order idx = true := by simpa [hyx] using hy
      obtain ⟨k, hlit, hk⟩ := Rw.litOk_inv hlo
      simp only [Rw.unrollS, hb, ↓reduceIte, hlit, Option.getD_some, execS]
      rw [unrollEs_id x d nm idx hidx, hyx]
      refine Fwd.bind (evalD_unroll ext C h rhs hrhs hrn) (fun v v' _ _ hvv => ?_)
      subst hvv
      exact writeCell_unroll C h idx hidxP k hk hlit _
    · have hb : (y == x) = false := by simpa using hyx
      simp only [Rw.unrollS, hb, Bool.false_eq_true, ↓reduceIte, execS]
      rw [unrollEs_id x d nm idx hidx]
      refine Fwd.bind (evalD_unroll ext C h rhs hrhs hrn) (fun v v' _ _ hvv => ?_)
      subst hvv
      exact Fwd.of_lock (writeCell_rel h y idx
        (fun hp => hp.elim hyx (hnew y (by simp [Stmt.names]))) hidxP _)
  | .writecfg c fl rhs true, s, s', hok, hnew, h => by
    simp only [Rw.unrollOkS, ↓reduceIte] at hok
    simp only [Rw.unrollS, execS, ↓reduceIte]
    exact Fwd.bind (evalD_unroll ext C h rhs hok (fun z hz => hnew z (by simpa [Stmt.names] using hz)))
      (fun v v' _ _ hv => by subst hv; exact Fwd.ofPure (h.cfgWrite (c, fl) (.data v)))
  | .writecfg c fl rhs false, s, s', hok, hnew, h => by
    simp only [Rw.unrollOkS, Bool.false_eq_true, ↓reduceIte] at hok
    have hr := Rw.notIn_iff.1 hok
    simp only [Rw.unrollS]
    rw [unrollE_id x d nm rhs hr]
    exact Fwd.of_lock (execS_id ext N u _ pl pr (.writecfg c fl rhs false) _ s s'
      (notP (fun z hz => hr z (by simpa [Stmt.names] using hz)) hnew) h)
  | .pass, s, s', _, _, h => by
    simp only [Rw.unrollS, execS]; exact Fwd.ofPure h
  | .free _, s, s', _, _, h => by
    simp only [Rw.unrollS, execS]; exact Fwd.ofPure h
  | .ite c t el, s, s', hok, hnew, h => by
    simp only [Rw.unrollOkS, Bool.and_eq_true] at hok
    obtain ⟨⟨hc, ht⟩, hel⟩ := hok
    have hc' := Rw.notIn_iff.1 hc
    have hcP := notP hc' (fun z hz => hnew z (by simp [Stmt.names, hz]))
    simp only [Rw.unrollS, execS]
    rw [unrollE_id x d nm c hc', evalC_rel h c hcP]
    refine Fwd.bind_eq (fun b hb => ?_)
    refine Fwd.ite (fun hb0 => ?_) (fun hb0 => ?_)
    · exact Fwd.map (execL_unroll C t s s' ht (fun z hz => hnew z (by simp [Stmt.names, hz])) h)
        (fun a b ha _ hab => h.leave hab (execL_scope ext t s a ha).2.1)
    · exact Fwd.map (execL_unroll C el s s' hel (fun z hz => hnew z (by simp [Stmt.names, hz])) h)
        (fun a b ha _ hab => h.leave hab (execL_scope ext el s a ha).2.1)
  | .loop i lo hi body par, s, s', hok, hnew, h => by
    simp only [Rw.unrollOkS, Bool.and_eq_true] at hok
    obtain ⟨⟨hlo, hhi⟩, hb⟩ := hok
    have hlo' := Rw.notIn_iff.1 hlo
    have hhi' := Rw.notIn_iff.1 hhi
    have hloP := notP hlo' (fun z hz => hnew z (by simp [Stmt.names, hz]))
    have hhiP := notP hhi' (fun z hz => hnew z (by simp [Stmt.names, hz]))
    simp only [Rw.unrollS, execS]
    rw [unrollE_id x d nm lo hlo', unrollE_id x d nm hi hhi', evalC_rel h lo hloP,
      evalC_rel h hi hhiP]
    refine Fwd.bind_eq (fun l hl => Fwd.bind_eq (fun hh hhh => ?_))
    refine Fwd.ite (fun _ => Fwd.ofThrowBind) (fun hlt => ?_)
    exact iterate_fwd
      (Rel (fun y => y = x ∨ Pn y) N u (UQ d szs order pos) pl pr) _ _
      (fun v a b hab => Fwd.map
        (execL_unroll C body _ _ hb (fun z hz => hnew z (by simp [Stmt.names, hz])) (hab.bind i v))
        (fun a1 b1 ha1 _ h1 => hab.leave h1 (execL_scope ext body _ a1 ha1).2.1))
      _ _ s s' h
  | .alloc y sh, s, s', hok, hnew, h => by
    simp only [Rw.unrollOkS, Bool.and_eq_true, bne_iff_ne, ne_eq] at hok
    simp only [Rw.unrollS]
    exact Fwd.of_lock (execS_id ext N u _ pl pr (.alloc y sh) _ s s'
      (notP (names_cons_ne hok.1 (Rw.notIn_iff.1 hok.2)) hnew) h)
  | .call p args, s, s', hok, hnew, h => by
    simp only [Rw.unrollOkS] at hok
    have hargs := Rw.notIn_iff.1 hok
    simp only [Rw.unrollS]
    rw [unrollEs_id x d nm args hargs]
    exact Fwd.of_lock (execS_id ext N u _ pl pr (.call p args) _ s s'
      (notP (fun z hz => hargs z (by simpa [Stmt.names] using hz)) hnew) h)
  | .window y rhs, s, s', hok, hnew, h => by
    simp only [Rw.unrollOkS, Bool.and_eq_true, bne_iff_ne, ne_eq] at hok
    have hr := Rw.notIn_iff.1 hok.2
    simp only [Rw.unrollS]
    rw [unrollE_id x d nm rhs hr]
    exact Fwd.of_lock (execS_id ext N u _ pl pr (.window y rhs) _ s s'
      (notP (names_cons_ne hok.1 hr) hnew) h)
theorem execL_unroll (C : UCtx x d order nm Pn N u szs pos pl pr) :
    ∀ (ss : List Stmt) (s s' : State V), Rw.unrollOkL x d order ss = true →
    (∀ y ∈ namesL ss, ¬ Pn y) →
    Rel (fun y => y = x ∨ Pn y) N u (UQ d szs order pos) pl pr s s' →
    Fwd (Rel (fun y => y = x ∨ Pn y) N u (UQ d szs order pos) pl pr)
      (execL ext ss s) (execL ext (Rw.unrollL x d nm ss) s')
  | [], s, s', _, _, h => by
    simp only [Rw.unrollL, execL]; exact Fwd.ofPure h
  | a :: r, s, s', hok, hnew, h => by
    simp only [Rw.unrollOkL, Bool.and_eq_true] at hok
    simp only [Rw.unrollL, execL]
    exact Fwd.bind (execS_unroll C a s s' hok.1 (fun z hz => hnew z (by simp [namesL, hz])) h)
      (fun s1 s1' _ _ hr =>
        execL_unroll C r s1 s1' hok.2 (fun z hz => hnew z (by simp [namesL, hz])) hr)
end

end

end Exo.Stg.Unroll
